package main

// C17, run-time reconfiguration: the upstream addresses of a RUNNING nsqadmin are changed through
// /config (PUT /config/nsqlookupd_http_addresses replaces the nsqlookupd list, also of an nsqadmin
// started with --nsqd-http-address: then both lists are set, a configuration nsqadmin.New itself
// refuses), and then every state-changing action is carried out.  A scenario = a fresh in-process
// nsqadmin (start lists x admin list x header name x CIDR) + a history of /config requests (add,
// add several, add one that is down, replace, remove, null, refused from outside the CIDR, bodies that
// do not decode, empty bodies, the option that can not be set (nsqd_http_addresses), log_level, GET),
// each from an address inside or outside the CIDR over a real connection or with a synthetic
// RemoteAddr; after every request of the history the list is read back from an allowed address.
// The case states the START lists and the history with what was observed; which addresses are in
// force when the action arrives is the judge's business (monitor: the value of the last PUT
// answered 200; model: doConfig's steps).

import (
	"encoding/json"
	"fmt"
	"net"
	"strings"

	"verifharness/lib"
)

type ReconfStep struct {
	Kind      string   `json:"kind"`            // put-list | put-raw | put-nsqds | put-loglevel | get
	Method    string   `json:"method"`          // GET | PUT
	Opt       string   `json:"opt"`             // option named in the path
	BodyClass string   `json:"body_class"`      // valid | invalid | empty
	Value     []string `json:"value,omitempty"` // put-list / put-nsqds: stub names, sent as a JSON array of their addresses
	Body      string   `json:"body,omitempty"`  // any other body, as sent
	Transport string   `json:"transport"`       // direct | wire
	LocalIP   string   `json:"local_ip,omitempty"`
	Remote    string   `json:"remote,omitempty"`
	RemoteIP  string   `json:"remote_ip,omitempty"`
}

type ReconfIn struct {
	Scenario string       `json:"scenario"`
	Template string       `json:"template"`
	Steps    []ReconfStep `json:"steps"`
}

type stepObs struct {
	Status int      `json:"status"`
	After  []string `json:"after"` // nsqlookupd_http_addresses read back after the step
	Calls  int      `json:"upstream_calls"`
}

type reconfAdmin struct {
	a   *Admin
	obs []stepObs
}

var reconfAdmins = map[string]*reconfAdmin{}

// insideRemote: a RemoteAddr inside the CIDR in force (any address when there is none)
func insideRemote(cidr string) string {
	if cidr == "" {
		return "127.0.0.1:1"
	}
	_, ipnet, err := net.ParseCIDR(cidr)
	if err != nil {
		lib.Fatalf("cidr %q: %v", cidr, err)
	}
	return net.JoinHostPort(ipnet.IP.String(), "1")
}

func (st *ReconfStep) body(cl *cluster) []byte {
	switch st.Kind {
	case "put-list", "put-nsqds":
		addrs := []string{}
		for _, n := range st.Value {
			addrs = append(addrs, cl.addr(n))
		}
		b, _ := json.Marshal(addrs)
		return b
	}
	return []byte(st.Body)
}

// getReconfAdmin: the nsqadmin of a scenario, its history already played (once per scenario: the
// cases of a scenario share it; a replayed case plays the history again on a fresh instance)
func getReconfAdmin(cl *cluster, cfg AdminCfg, rc *ReconfIn) *reconfAdmin {
	kb, _ := json.Marshal(rc)
	key := "reconf|" + cfg.key() + "|" + string(kb)
	if ra, ok := reconfAdmins[key]; ok {
		return ra
	}
	a := newAdmin(cfg)
	admins[key] = a // closed with the others
	ra := &reconfAdmin{a: a}
	inside := insideRemote(cfg.CIDR)
	readBack := func() []string {
		st, b := a.direct("GET", "/config/nsqlookupd_http_addresses", nil, inside, nil)
		if st != 200 {
			lib.Fatalf("reconf %s: reading nsqlookupd_http_addresses back from %s: status %d %q", rc.Scenario, inside, st, b)
		}
		var l []string
		if err := json.Unmarshal(b, &l); err != nil {
			lib.Fatalf("reconf %s: nsqlookupd_http_addresses read back as %q: %v", rc.Scenario, b, err)
		}
		return l
	}
	for i := range rc.Steps {
		st := &rc.Steps[i]
		path := "/config/" + st.Opt
		var body []byte
		if st.Method == "PUT" {
			body = st.body(cl)
		}
		cl.rec.Reset()
		var status int
		if st.Transport == "wire" {
			var err error
			status, _, err = a.wire(st.LocalIP, st.Method, path, nil, body)
			if err != nil {
				lib.Fatalf("reconf %s: wire %s %s from %s: %v", rc.Scenario, st.Method, path, st.LocalIP, err)
			}
		} else {
			status, _ = a.direct(st.Method, path, nil, st.Remote, body)
		}
		ncalls := len(cl.rec.Take())
		ra.obs = append(ra.obs, stepObs{Status: status, After: readBack(), Calls: ncalls})
	}
	reconfAdmins[key] = ra
	return ra
}

func coqOptName(opt string) string {
	o := map[string]string{"nsqlookupd_http_addresses": "OptLookupdAddrs", "log_level": "OptLogLevel", "http_address": "OptOtherKnown", "statsd_prefix": "OptOtherKnown",
		"admin_users": "OptOtherKnown", "acl_http_header": "OptOtherKnown", "allow_config_from_cidr": "OptOtherKnown", "nsqd_http_addresses": "OptOtherKnown"}[opt]
	if o == "" {
		return "OptUnknown"
	}
	return o
}

// coqSteps: the history as the judge takes it: request + observation
func coqSteps(cl *cluster, rc *ReconfIn, obs []stepObs) string {
	var parts []string
	for i, st := range rc.Steps {
		put := map[string]string{"valid": "PutValid", "invalid": "PutInvalid", "empty": "PutEmpty"}[st.BodyClass]
		if put == "" || st.Method != "PUT" {
			put = "PutEmpty"
		}
		value := "[]"
		if st.Kind == "put-list" && st.BodyClass == "valid" {
			var addrs []string
			for _, n := range st.Value {
				addrs = append(addrs, cl.addr(n))
			}
			value = cbl(addrs)
		}
		remote := "None"
		if st.Transport == "wire" {
			ip := st.LocalIP
			if ip == "" {
				ip = "127.0.0.1"
			}
			remote = coqIP(ip)
		} else if st.RemoteIP != "" {
			remote = coqIP(st.RemoteIP)
		}
		parts = append(parts, fmt.Sprintf("(J17.mkOStep (mkCfgReq %s %s %s %s %s) %d %s)",
			lib.CoqBool(st.Method == "PUT"), coqOptName(st.Opt), put, value, remote, obs[i].Status, cbl(obs[i].After)))
	}
	return "[" + strings.Join(parts, ";") + "]"
}

// ---------------------------------------------------------------- generator

var reconfStarts = []string{"D1", "D2", "D3d", "L1", "L2"}
var reconfCIDRs = []string{"127.0.0.1/8", "10.1.2.0/24", "127.0.0.0/30", ""}

// where a /config request comes from: inside / outside the CIDR, real connection or synthetic RemoteAddr
func reconfFrom(r *lib.Rand, cidr string, allowed bool, st *ReconfStep) {
	type src struct{ transport, local, remote, ip string }
	d := func(remote, ip string) src { return src{"direct", "", remote, ip} }
	w := func(local string) src { return src{"wire", local, "", ""} }
	var in, out []src
	switch cidr {
	case "127.0.0.1/8":
		in = []src{w("127.0.0.1"), w("127.0.0.2"), w("127.9.8.7"), d("127.0.0.1:5000", "127.0.0.1"), d("127.255.255.254:1", "127.255.255.254"), d("[::ffff:127.0.0.1]:80", "::ffff:127.0.0.1")}
		out = []src{d("128.0.0.1:80", "128.0.0.1"), d("126.255.255.255:80", "126.255.255.255"), d("[::1]:80", "::1"), d("10.1.2.3:4444", "10.1.2.3"), d("host.example:80", "")}
	case "10.1.2.0/24":
		in = []src{d("10.1.2.0:9", "10.1.2.0"), d("10.1.2.255:9", "10.1.2.255"), d("10.1.2.77:4444", "10.1.2.77"), d("[::ffff:10.1.2.3]:80", "::ffff:10.1.2.3")}
		out = []src{w("127.0.0.1"), w("127.0.0.2"), d("10.1.3.0:9", "10.1.3.0"), d("10.1.1.255:9", "10.1.1.255"), d("[fd00::1]:80", "fd00::1"), d("10.1.2.3", "")}
	case "127.0.0.0/30":
		in = []src{w("127.0.0.1"), w("127.0.0.2"), w("127.0.0.3"), d("127.0.0.0:1", "127.0.0.0"), d("127.0.0.3:1", "127.0.0.3")}
		out = []src{w("127.0.0.4"), w("127.9.8.7"), d("127.0.0.4:9", "127.0.0.4"), d("126.255.255.255:9", "126.255.255.255"), d("", "")}
	default: // no CIDR: everybody may
		in = []src{w("127.0.0.1"), w("127.9.8.7"), d("198.51.100.7:4242", "198.51.100.7"), d("[2001:db8::1]:443", "2001:db8::1"), d("host.example:80", "")}
		out = in
	}
	set := in
	if !allowed {
		set = out
	}
	s := set[r.Intn(len(set))]
	st.Transport, st.LocalIP, st.Remote, st.RemoteIP = s.transport, s.local, s.remote, s.ip
}

func mkReconfSteps(r *lib.Rand, cidr string, spec []string) []ReconfStep {
	var steps []ReconfStep
	for _, sp := range spec {
		allowed := true
		if strings.HasPrefix(sp, "!") { // from outside the CIDR
			allowed = false
			sp = sp[1:]
		}
		st := ReconfStep{Method: "PUT", Opt: "nsqlookupd_http_addresses", BodyClass: "valid"}
		switch {
		case strings.HasPrefix(sp, "put:"):
			st.Kind = "put-list"
			if v := strings.TrimPrefix(sp, "put:"); v != "" {
				st.Value = strings.Split(v, ",")
			}
		case sp == "null":
			// json.Unmarshal of null into the slice: no error, the empty list
			st.Kind, st.Body = "put-list", ""
			st.Kind = "put-raw"
			st.Body = "null"
		case sp == "invalid":
			st.Kind, st.BodyClass = "put-raw", "invalid"
			st.Body = []string{"{", "17", "[1,2]", "\"L0\"", "[\"a\",", "{\"a\":[]}"}[r.Intn(6)]
		case sp == "empty":
			st.Kind, st.BodyClass, st.Body = "put-raw", "empty", ""
		case strings.HasPrefix(sp, "nsqds:"):
			st.Kind, st.Opt = "put-nsqds", "nsqd_http_addresses"
			st.Value = strings.Split(strings.TrimPrefix(sp, "nsqds:"), ",")
		case sp == "loglevel":
			st.Kind, st.Opt = "put-loglevel", "log_level"
			st.Body = []string{"debug", "warn", "error"}[r.Intn(3)]
		case sp == "other":
			st.Kind, st.Opt = "put-raw", []string{"admin_users", "allow_config_from_cidr", "acl_http_header", "no_such_option"}[r.Intn(4)]
			st.Body = "[\"mallory\"]"
		case sp == "get":
			st.Kind, st.Method, st.BodyClass = "get", "GET", ""
			st.Opt = []string{"nsqlookupd_http_addresses", "nsqd_http_addresses", "log_level"}[r.Intn(3)]
		default:
			lib.Fatalf("reconf step spec %q", sp)
		}
		reconfFrom(r, cidr, allowed, &st)
		steps = append(steps, st)
	}
	return steps
}

type reconfTemplate struct {
	name string
	spec []string
}

// the histories: "put:<names>" replaces the nsqlookupd list, a leading "!" sends the request from
// outside the CIDR in force
var reconfTemplates = []reconfTemplate{
	{"none", nil},
	{"add-one", []string{"put:L0"}},
	{"add-two", []string{"put:L0,L1"}},
	{"add-other", []string{"put:L2"}},
	{"add-with-dead", []string{"put:L0,LD,L1"}},
	{"add-then-replace", []string{"put:L0", "put:L2"}},
	{"add-then-extend", []string{"put:L1", "put:L1,L2", "get"}},
	{"add-then-remove", []string{"put:L0,L1", "put:"}},
	{"add-then-null", []string{"put:L0", "null"}},
	{"remove", []string{"put:"}},
	{"refused-outside", []string{"!put:L0,L2"}},
	{"accepted-then-refused", []string{"put:L1", "!put:L0,L2", "!put:"}},
	{"refused-then-accepted", []string{"!put:L0", "put:L1,L0"}},
	{"undecodable", []string{"invalid", "empty", "!invalid"}},
	{"add-then-undecodable", []string{"put:L2,L0", "invalid", "empty"}},
	{"nsqds-not-settable", []string{"nsqds:N2,N3"}},
	{"add-then-nsqds", []string{"put:L0", "nsqds:N3", "other"}},
	{"loglevel-then-add", []string{"loglevel", "put:L2", "get"}},
	{"duplicates", []string{"put:L1,L0,L1"}},
}

// one request per state-changing action, with a body that is valid
type reconfAction struct {
	method, pattern, class, action string
	channel                        bool
}

var reconfActions = []reconfAction{
	{"POST", "/api/topics", "valid", "", false},
	{"POST", "/api/topics", "valid-channel", "", true},
	{"POST", "/api/topics/:topic", "valid", "pause", false},
	{"POST", "/api/topics/:topic", "valid", "unpause", false},
	{"POST", "/api/topics/:topic", "valid", "empty", false},
	{"POST", "/api/topics/:topic/:channel", "valid", "pause", true},
	{"POST", "/api/topics/:topic/:channel", "valid", "unpause", true},
	{"POST", "/api/topics/:topic/:channel", "valid", "empty", true},
	{"DELETE", "/api/topics/:topic", "none", "", false},
	{"DELETE", "/api/topics/:topic/:channel", "none", "", true},
	{"DELETE", "/api/nodes/:node", "valid", "", false},
}

// reconfWorld: how the stubs answer.  Mostly everybody answers (so that the action is answered 200
// and every POST it owes is checked) with producer sets that differ from any static nsqd list;
// otherwise the random worlds of the other classes (failing upstreams, failing POSTs)
func reconfWorld(r *lib.Rand, in *C17In) {
	if r.Chance(30) {
		genWorld(r, in)
		return
	}
	sets := []string{"ok:N0,N1", "ok:N1,N2", "ok:N2", "ok:N3", "ok:N0,N1,N2,N3", "ok:N2,N3", "ok:N0", "ok:"}
	in.Lookup = []string{sets[r.Intn(len(sets))], sets[r.Intn(len(sets))], sets[r.Intn(len(sets))]}
	nsq := []string{"topic", "topic", "topic", "notopic", "nobcast"}
	in.Nsqd = make([]string, 4)
	for i := range in.Nsqd {
		in.Nsqd[i] = nsq[r.Intn(len(nsq))]
	}
	in.PostFail = nil
	if r.Chance(15) {
		in.PostFail = []string{[]string{"L0", "L1", "N0", "N1", "N2", "N3"}[r.Intn(6)]}
	}
}

func reconfRequest(r *lib.Rand, k *int, base C17In, act reconfAction, idc string) C17In {
	in := base
	in.Name = fmt.Sprintf("reconf-%d", *k)
	*k++
	in.Method, in.Pattern, in.IdClass = act.method, act.pattern, idc
	fillParams(r, &in)
	in.Transport = "direct"
	if r.Chance(35) {
		in.Transport = "wire"
		in.LocalIP = []string{"127.0.0.1", "127.0.0.2", "127.9.8.7"}[r.Intn(3)]
	} else {
		in.Remote, in.RemoteIP = "198.51.100.7:4242", "198.51.100.7"
	}
	in.Headers = identityHeaders(idc, in.Header, in.Transport)
	js := func(m map[string]interface{}) string { b, _ := json.Marshal(m); return string(b) }
	switch act.pattern {
	case "/api/topics":
		in.BodyClass = act.class
		in.BodyTopic = []string{"events", "a.b-c_d", "k#ephemeral"}[r.Intn(3)]
		m := map[string]interface{}{"topic": in.BodyTopic}
		if act.channel {
			in.BodyChan = []string{"ch", "c.1#ephemeral"}[r.Intn(2)]
			m["channel"] = in.BodyChan
		}
		in.Body = js(m)
	case "/api/nodes/:node":
		in.BodyClass = "valid"
		in.BodyTopic = []string{"events", "a.b-c_d", "k#ephemeral"}[r.Intn(3)]
		in.Body = js(map[string]interface{}{"topic": in.BodyTopic})
	case "/api/topics/:topic", "/api/topics/:topic/:channel":
		if act.action != "" {
			in.BodyClass, in.BodyAct = "valid", act.action
			in.Body = js(map[string]interface{}{"action": act.action})
		} else {
			in.BodyClass, in.BodyBad = "none", true
		}
	}
	reconfWorld(r, &in)
	return in
}

// genReconf: start lists x history templates (every cell), per scenario every state-changing action by
// an admin (or with no admin list) and a few without an admin identity; `extra` random histories more
func genReconf(r *lib.Rand, k *int, extra int) []C17In {
	var out []C17In
	nscen := 0
	scenario := func(start string, name string, spec []string) {
		cidr := reconfCIDRs[(nscen+r.Intn(2))%len(reconfCIDRs)]
		if nscen%3 == 0 {
			cidr = "127.0.0.1/8" // the default
		}
		base := C17In{Admins: adminLists[r.Intn(len(adminLists))], Header: headerNames[r.Intn(len(headerNames))], CIDR: cidr, Mode: start}
		base.Reconf = &ReconfIn{Scenario: fmt.Sprintf("scen-%d-%s-%s", nscen, start, name), Template: name, Steps: mkReconfSteps(r, cidr, spec)}
		nscen++
		for _, act := range reconfActions {
			out = append(out, reconfRequest(r, k, base, act, []string{"admin", "admin", "admin", "admin2", "two-admin-first"}[r.Intn(5)]))
		}
		// without an admin identity: refused whatever the lists are (or carried out: no admin list)
		for i := 0; i < 2; i++ {
			act := reconfActions[r.Intn(len(reconfActions))]
			out = append(out, reconfRequest(r, k, base, act, []string{"absent", "nonadmin", "empty", "case", "two-bad-first"}[r.Intn(5)]))
		}
	}
	for _, start := range reconfStarts {
		for _, t := range reconfTemplates {
			scenario(start, t.name, t.spec)
		}
	}
	vocab := []string{"put:L0", "put:L1", "put:L2", "put:L0,L1", "put:L1,L2", "put:L2,LD", "put:L0,L1,L2", "put:", "null", "invalid", "empty",
		"!put:L0", "!put:L1,L2", "!put:", "!invalid", "nsqds:N1,N2", "loglevel", "other", "get", "!get"}
	for i := 0; i < extra; i++ {
		n := 1 + r.Intn(5)
		var spec []string
		for j := 0; j < n; j++ {
			spec = append(spec, vocab[r.Intn(len(vocab))])
		}
		scenario(reconfStarts[r.Intn(len(reconfStarts))], "random", spec)
	}
	return out
}
