// metadrive: black-box correspondence driver for C06 (hard-kill consistency of nsqd.dat).
//
// Runs the REAL apps/nsqd binary (built with -tags verif from the repository under test)
// as a subprocess on a scratch data path.  One sequential HTTP client performs
// create/delete/pause/unpause churn; the daemon is SIGKILLed at named points of the
// metadata write / delete path (NSQ_VERIF_KILL), at random wall-clock instants, right
// after an answer, or after exact idleness (no Notify goroutine pending, read from the
// verif status socket); a concurrent reader samples nsqd.dat all the time; some cycles run
// under strace to record the syscall order on nsqd.dat*.  After every kill the file is
// read and the daemon restarted.  Also: crafted nsqd.dat files (invalid names, duplicates,
// truncations, garbage) fed to start-up; write faults; forced schedules (NSQ_VERIF_WAIT: the
// K8 mix, a channel deletion under a stale in-flight persist, creations and pause flips whose
// own write meets a busy NSQD lock - see forcedPair); and the data-path lock: a
// second daemon started at every phase of the first one's life (boot, serving, persisting,
// two points of its graceful exit, exited, killed).
package main

import (
	"bufio"
	"bytes"
	"context"
	"encoding/json"
	"flag"
	"fmt"
	"io"
	"net"
	"net/http"
	"net/url"
	"os"
	"os/exec"
	"path/filepath"
	"regexp"
	"sort"
	"strconv"
	"strings"
	"sync"
	"sync/atomic"
	"syscall"
	"time"

	"verifharness/lib"
)

// ---------------------------------------------------------------- documents
type DChan struct {
	Name   string `json:"name"`
	Paused bool   `json:"paused"`
}
type DTopic struct {
	Name   string  `json:"name"`
	Paused bool    `json:"paused"`
	Chans  []DChan `json:"channels"`
}
type Doc []DTopic

func (d Doc) canon() Doc {
	out := make(Doc, len(d))
	copy(out, d)
	for i := range out {
		cs := append([]DChan(nil), out[i].Chans...)
		sort.SliceStable(cs, func(a, b int) bool { return cs[a].Name < cs[b].Name })
		out[i].Chans = cs
	}
	sort.SliceStable(out, func(a, b int) bool { return out[a].Name < out[b].Name })
	return out
}
func (d Doc) key() string { b, _ := json.Marshal(d.canon()); return string(b) }

func coqName(s string) string { return lib.CoqBytes([]byte(s)) }
func coqDoc(d Doc) string {
	ts := make([]string, len(d))
	for i, t := range d {
		cs := make([]string, len(t.Chans))
		for j, c := range t.Chans {
			cs[j] = fmt.Sprintf("mkDC %s %s", coqName(c.Name), lib.CoqBool(c.Paused))
		}
		ts[i] = fmt.Sprintf("mkDT %s %s %s", coqName(t.Name), lib.CoqBool(t.Paused), lib.CoqList(cs))
	}
	return lib.CoqList(ts)
}
func coqODoc(d *Doc) string {
	if d == nil {
		return "None"
	}
	return "(Some " + coqDoc(*d) + ")"
}

// parse the bytes of nsqd.dat: (doc, complete)
func parseDat(b []byte) (Doc, bool) {
	var m struct {
		Topics []struct {
			Name     string `json:"name"`
			Paused   bool   `json:"paused"`
			Channels []struct {
				Name   string `json:"name"`
				Paused bool   `json:"paused"`
			} `json:"channels"`
		} `json:"topics"`
	}
	if !json.Valid(b) {
		return nil, false
	}
	if err := json.Unmarshal(b, &m); err != nil {
		return nil, false
	}
	d := Doc{}
	for _, t := range m.Topics {
		dt := DTopic{Name: t.Name, Paused: t.Paused, Chans: []DChan{}}
		for _, c := range t.Channels {
			dt.Chans = append(dt.Chans, DChan{c.Name, c.Paused})
		}
		d = append(d, dt)
	}
	return d.canon(), true
}

// ---------------------------------------------------------------- scenario (the replayable input)
type Op struct {
	Kind    string `json:"k"` // ct dt pt ut cc dc pc uc idle
	Topic   string `json:"t,omitempty"`
	Channel string `json:"c,omitempty"`
}
type Kill struct {
	Mode    string `json:"mode"` // point | wall | now | idle
	Point   string `json:"point,omitempty"`
	K       int    `json:"k,omitempty"`
	DelayUs int    `json:"delay_us,omitempty"`
}
type Cycle struct {
	Ops  []Op     `json:"ops"`
	Kill Kill     `json:"kill"`
	Hold []string `json:"hold,omitempty"` // NSQ_VERIF_HOLD points (wait there for pending Notify goroutines)
	Wait string   `json:"wait,omitempty"` // NSQ_VERIF_WAIT spec (a point's k-th hit waits until a counter is reached)
}
type Scenario struct {
	Name   string  `json:"name"`
	Kind   string  `json:"kind"`            // churn | load | lock | fault | mix
	Phase  string  `json:"phase,omitempty"` // lock cases: what the first daemon is doing when the second one is started
	Strace bool    `json:"strace,omitempty"`
	Cycles []Cycle `json:"cycles,omitempty"`
	// load cases
	Present bool   `json:"present,omitempty"`
	LoadDoc Doc    `json:"load_doc,omitempty"`
	Cut     int    `json:"cut,omitempty"`     // >=0: write only this many bytes of the document
	Garbage string `json:"garbage,omitempty"` // non-empty: write these bytes instead
	// write-fault cases
	Pre   []Op `json:"pre,omitempty"`   // requests before the fault is armed (each creates one new non-ephemeral object)
	Post  []Op `json:"post,omitempty"`  // requests whose persists fail
	Limit int  `json:"limit,omitempty"` // RLIMIT_FSIZE in bytes from the arming point on
}

// ---------------------------------------------------------------- the daemon subprocess
var reHTTP = regexp.MustCompile(`HTTP: listening on (\S+)`)

type daemon struct {
	cmd      *exec.Cmd
	dir      string
	sock     string
	httpAddr string
	httpSock string
	straceF  string
	strace   bool
	exited   chan struct{}
	werr     error
	addrCh   chan string
	logMu    sync.Mutex
	logTail  []string
	marks    map[string]bool // which of logMarks have been seen on stderr
	client   *http.Client
}

// log lines that tell how far a graceful exit has come (NSQD.Exit, queueScanLoop, apps/nsqd)
var logMarks = []string{"NSQ: closing topics", "NSQ: stopping subsystems", "QUEUESCAN: closing", "NSQ: bye", "failed to lock data-path"}

func (d *daemon) sawMark(m string) bool {
	d.logMu.Lock()
	defer d.logMu.Unlock()
	return d.marks[m]
}

var nStarts int64

func startDaemon(bin, dir string, killSpec string, hold []string, strace bool, tag string) (*daemon, error) {
	wait := ""
	if tag == "k8" {
		wait = k8Wait
	}
	return startDaemonW(bin, dir, killSpec, hold, wait, strace, tag, true)
}

// startDaemonW: wait = NSQ_VERIF_WAIT spec; sock = false starts a daemon WITHOUT the status
// socket (a second daemon on a data path must not take the first one's socket away).
func startDaemonW(bin, dir string, killSpec string, hold []string, wait string, strace bool, tag string, sock bool) (*daemon, error) {
	atomic.AddInt64(&nStarts, 1)
	d := &daemon{dir: dir, strace: strace, exited: make(chan struct{}), addrCh: make(chan string, 1), marks: map[string]bool{}}
	d.sock = filepath.Join(dir, "verif.sock")
	// unix sockets inside the scratch data path: no other process can ever answer for this
	// daemon (an ephemeral TCP port is reused by unrelated daemons as soon as ours is killed)
	hs, ts := filepath.Join(dir, "h-"+tag+".sock"), filepath.Join(dir, "t-"+tag+".sock")
	os.Remove(hs)
	os.Remove(ts)
	d.httpSock = hs
	args := []string{"-data-path", dir, "-http-address", hs, "-tcp-address", ts}
	if strace {
		d.straceF = filepath.Join(dir, "strace."+tag+".txt")
		sargs := []string{"-f", "-y", "-o", d.straceF, "-e", "trace=openat,open,creat,write,pwrite64,writev,fsync,fdatasync,close,rename,renameat,renameat2,unlink,unlinkat,truncate,ftruncate", bin}
		d.cmd = exec.Command("strace", append(sargs, args...)...)
	} else {
		d.cmd = exec.Command(bin, args...)
	}
	d.cmd.Env = os.Environ()
	if sock {
		d.cmd.Env = append(d.cmd.Env, "NSQ_VERIF_SOCK="+d.sock)
	}
	if wait != "" {
		d.cmd.Env = append(d.cmd.Env, "NSQ_VERIF_WAIT="+wait)
	}
	if strings.HasPrefix(tag, "fs-") { // fs-<k>-<bytes>: arm the write fault at the k-th completed persist
		if f := strings.Split(tag, "-"); len(f) == 3 {
			d.cmd.Env = append(d.cmd.Env, "NSQ_VERIF_FSIZE=persist:after-rename|"+f[1]+"|"+f[2])
		}
	}
	if killSpec != "" {
		d.cmd.Env = append(d.cmd.Env, "NSQ_VERIF_KILL="+killSpec)
	}
	if len(hold) > 0 {
		d.cmd.Env = append(d.cmd.Env, "NSQ_VERIF_HOLD="+strings.Join(hold, ","))
	}
	d.cmd.SysProcAttr = &syscall.SysProcAttr{Setpgid: true}
	stderr, err := d.cmd.StderrPipe()
	if err != nil {
		return nil, err
	}
	if err := d.cmd.Start(); err != nil {
		return nil, err
	}
	go func() {
		sc := bufio.NewScanner(stderr)
		sc.Buffer(make([]byte, 1<<16), 1<<20)
		sent := false
		for sc.Scan() {
			line := sc.Text()
			d.logMu.Lock()
			d.logTail = append(d.logTail, line)
			if len(d.logTail) > 30 {
				d.logTail = d.logTail[1:]
			}
			for _, m := range logMarks {
				if strings.Contains(line, m) {
					d.marks[m] = true
				}
			}
			d.logMu.Unlock()
			if !sent {
				if m := reHTTP.FindStringSubmatch(line); m != nil {
					sent = true
					d.addrCh <- m[1]
				}
			}
		}
		d.werr = d.cmd.Wait()
		close(d.exited)
	}()
	sockPath := d.httpSock
	d.client = &http.Client{Timeout: 60 * time.Second, Transport: &http.Transport{DisableKeepAlives: true,
		DialContext: func(ctx context.Context, network, addr string) (net.Conn, error) {
			var dl net.Dialer
			return dl.DialContext(ctx, "unix", sockPath)
		}}}
	return d, nil
}

func (d *daemon) alive() bool {
	select {
	case <-d.exited:
		return false
	default:
		return true
	}
}

// waitExit waits for the process (and strace) to be gone.
func (d *daemon) waitExit(t time.Duration) bool {
	select {
	case <-d.exited:
		return true
	case <-time.After(t):
		return false
	}
}

// nsqdPid: the daemon's own pid (child of strace when traced)
func (d *daemon) nsqdPid() int {
	if !d.strace {
		return d.cmd.Process.Pid
	}
	for i := 0; i < 2000; i++ {
		b, err := os.ReadFile(fmt.Sprintf("/proc/%d/task/%d/children", d.cmd.Process.Pid, d.cmd.Process.Pid))
		if err == nil {
			f := strings.Fields(string(b))
			if len(f) > 0 {
				p, _ := strconv.Atoi(f[0])
				return p
			}
		}
		if !d.alive() {
			return 0
		}
		time.Sleep(time.Millisecond)
	}
	return 0
}

func (d *daemon) sigkill() {
	if p := d.nsqdPid(); p > 0 {
		syscall.Kill(p, syscall.SIGKILL)
	}
	if !d.waitExit(30 * time.Second) {
		syscall.Kill(-d.cmd.Process.Pid, syscall.SIGKILL)
		d.waitExit(10 * time.Second)
	}
}

func (d *daemon) killedBySignal() bool {
	if d.werr == nil {
		return false
	}
	if ee, ok := d.werr.(*exec.ExitError); ok {
		if ws, ok := ee.Sys().(syscall.WaitStatus); ok {
			return ws.Signaled() || ws.ExitStatus() == 137
		}
	}
	return false
}

// waitServing: the HTTP address is known and /stats answers (Main is running, i.e.
// LoadMetadata and the start-up PersistMetadata are done).  Returns the view.
func (d *daemon) waitServing() (Doc, bool) {
	select {
	case a := <-d.addrCh:
		_ = a
		d.httpAddr = "nsqd"
	case <-d.exited:
		return nil, false
	case <-time.After(60 * time.Second):
		return nil, false
	}
	for i := 0; i < 200; i++ {
		v, err := d.stats()
		if err == nil {
			return v, true
		}
		if !d.alive() {
			return nil, false
		}
		time.Sleep(2 * time.Millisecond)
	}
	return nil, false
}

func (d *daemon) stats() (Doc, error) {
	resp, err := d.client.Get("http://" + d.httpAddr + "/stats?format=json")
	if err != nil {
		return nil, err
	}
	defer resp.Body.Close()
	b, err := io.ReadAll(resp.Body)
	if err != nil {
		return nil, err
	}
	var s struct {
		Topics []struct {
			Name     string `json:"topic_name"`
			Paused   bool   `json:"paused"`
			Channels []struct {
				Name   string `json:"channel_name"`
				Paused bool   `json:"paused"`
			} `json:"channels"`
		} `json:"topics"`
	}
	if err := json.Unmarshal(b, &s); err != nil {
		return nil, err
	}
	v := Doc{}
	for _, t := range s.Topics {
		dt := DTopic{Name: t.Name, Paused: t.Paused, Chans: []DChan{}}
		for _, c := range t.Channels {
			dt.Chans = append(dt.Chans, DChan{c.Name, c.Paused})
		}
		v = append(v, dt)
	}
	return v.canon(), nil
}

func (d *daemon) post(path string, q url.Values) (int, error) {
	resp, err := d.client.Post("http://"+d.httpAddr+path+"?"+q.Encode(), "text/plain", nil)
	if err != nil {
		return 0, err
	}
	io.Copy(io.Discard, resp.Body)
	resp.Body.Close()
	return resp.StatusCode, nil
}

func (d *daemon) hits() (map[string]int, error) {
	c, err := net.DialTimeout("unix", d.sock, 5*time.Second)
	if err != nil {
		return nil, err
	}
	defer c.Close()
	c.SetDeadline(time.Now().Add(10 * time.Second))
	b, err := io.ReadAll(c)
	if err != nil {
		return nil, err
	}
	m := map[string]int{}
	if err := json.Unmarshal(b, &m); err != nil {
		return nil, err
	}
	return m, nil
}

// waitIdle: exact condition "no Notify goroutine pending" (the client is sequential, so
// no request is in flight either).  Returns the rename counter, ok.
func (d *daemon) waitIdle() (int, bool) {
	deadline := time.Now().Add(60 * time.Second)
	for time.Now().Before(deadline) {
		h, err := d.hits()
		if err != nil {
			if !d.alive() {
				return 0, false
			}
			time.Sleep(time.Millisecond)
			continue
		}
		if h["notify:spawn"] == h["notify:done"] {
			return h["persist:after-rename"], true
		}
		time.Sleep(200 * time.Microsecond)
	}
	return 0, false
}

func (d *daemon) tail() string {
	d.logMu.Lock()
	defer d.logMu.Unlock()
	return strings.Join(d.logTail, "\n")
}

// ---------------------------------------------------------------- concurrent reader
type sampler struct {
	stop    chan struct{}
	done    chan struct{}
	n       int
	bad     int
	absent  int
	docs    map[string]Doc
	badText string
}

func startSampler(dir string) *sampler {
	s := &sampler{stop: make(chan struct{}), done: make(chan struct{}), docs: map[string]Doc{}}
	fn := filepath.Join(dir, "nsqd.dat")
	go func() {
		defer close(s.done)
		for {
			select {
			case <-s.stop:
				return
			default:
			}
			b, err := os.ReadFile(fn)
			s.n++
			if err != nil {
				if os.IsNotExist(err) {
					s.absent++
				}
			} else if doc, ok := parseDat(b); ok {
				k := doc.key()
				if _, seen := s.docs[k]; !seen && len(s.docs) < 12 {
					s.docs[k] = doc
				}
			} else {
				s.bad++
				if s.badText == "" {
					s.badText = string(b)
				}
			}
			time.Sleep(150 * time.Microsecond)
		}
	}()
	return s
}
func (s *sampler) finish() { close(s.stop); <-s.done }

// ---------------------------------------------------------------- strace projection
var (
	reLine    = regexp.MustCompile(`^\d+\s+([a-z0-9_]+)\((.*)$`)
	reTmp     = regexp.MustCompile(`nsqd\.dat\.(\d+)\.tmp`)
	reFdArg   = regexp.MustCompile(`^\d+<([^>]*)>`)
	reResult  = regexp.MustCompile(`\)\s+= `)
	reResumed = regexp.MustCompile(`^(\d+)\s+<\.\.\. [a-z0-9_]+ resumed>(.*)$`)
)

// parseStrace projects the trace on nsqd.dat and its temp files.
func parseStrace(path string) ([]string, map[string]int) {
	f, err := os.Open(path)
	if err != nil {
		return nil, nil
	}
	defer f.Close()
	ids := map[string]int{}
	tmpID := func(s string) (int, bool) {
		m := reTmp.FindStringSubmatch(s)
		if m == nil {
			return 0, false
		}
		if _, ok := ids[m[1]]; !ok {
			ids[m[1]] = len(ids) + 1
		}
		return ids[m[1]], true
	}
	isDat := func(s string) bool { return strings.HasSuffix(s, "/nsqd.dat") }
	var out []string
	counts := map[string]int{}
	add := func(s string) { out = append(out, s); counts[strings.Fields(s)[0]]++ }
	sc := bufio.NewScanner(f)
	sc.Buffer(make([]byte, 1<<16), 1<<22)
	// "pid call(args <unfinished ...>" ... "pid <... call resumed>rest": judged as one line once the
	// result is known (a call the kill left unfinished is taken as begun, as before)
	pending := map[string]string{}
	var lines []string
	for sc.Scan() {
		line := sc.Text()
		if m := reResumed.FindStringSubmatch(line); m != nil {
			if head, ok := pending[m[1]]; ok {
				delete(pending, m[1])
				lines = append(lines, head+reResult.ReplaceAllString(m[2], ") = "))
			}
			continue
		}
		if !strings.Contains(line, "nsqd.dat") {
			continue
		}
		if i := strings.Index(line, " <unfinished ...>"); i >= 0 {
			if f := strings.Fields(line); len(f) > 0 {
				if old, ok := pending[f[0]]; ok {
					lines = append(lines, old)
				}
				pending[f[0]] = line[:i]
				continue
			}
		}
		lines = append(lines, line)
	}
	var left []string
	for pid := range pending {
		left = append(left, pid)
	}
	sort.Strings(left)
	for _, pid := range left {
		lines = append(lines, pending[pid])
	}
	for _, line := range lines {
		m := reLine.FindStringSubmatch(line)
		if m == nil {
			continue
		}
		call, rest := m[1], m[2]
		if strings.Contains(rest, ") = ? ERESTART") {
			continue // interrupted before it did anything; the kernel restarts it and strace shows it again
		}
		failed := strings.Contains(rest, ") = -1 ")
		switch call {
		case "openat", "open", "creat":
			// the path is the first quoted string
			q := regexp.MustCompile(`"([^"]*)"`).FindStringSubmatch(rest)
			if q == nil {
				continue
			}
			wr := strings.Contains(rest, "O_WRONLY") || strings.Contains(rest, "O_RDWR") || strings.Contains(rest, "O_TRUNC") || strings.Contains(rest, "O_CREAT") || call == "creat"
			if id, ok := tmpID(q[1]); ok {
				if wr && !failed {
					add(fmt.Sprintf("SOpen %d", id))
				}
			} else if isDat(q[1]) && wr {
				add("SBadDat")
			}
		case "write", "pwrite64", "writev", "fsync", "fdatasync", "close", "ftruncate":
			fm := reFdArg.FindStringSubmatch(rest)
			if fm == nil {
				continue
			}
			p := fm[1]
			if id, ok := tmpID(p); ok {
				switch call {
				case "write", "pwrite64", "writev":
					add(fmt.Sprintf("SWrite %d", id))
				case "fsync", "fdatasync":
					add(fmt.Sprintf("SFsync %d", id))
				case "close":
					add(fmt.Sprintf("SClose %d", id))
				default:
					add("SBadDat")
				}
			} else if isDat(p) {
				if call != "close" {
					add("SBadDat")
				}
			}
		case "rename", "renameat", "renameat2":
			qs := regexp.MustCompile(`"([^"]*)"`).FindAllStringSubmatch(rest, -1)
			if len(qs) < 2 {
				continue
			}
			if id, ok := tmpID(qs[0][1]); ok && isDat(qs[1][1]) {
				if !failed {
					add(fmt.Sprintf("SRename %d", id))
				}
			} else {
				add("SBadDat")
			}
		case "unlink", "unlinkat", "truncate":
			add("SBadDat")
		}
	}
	return out, counts
}

// ---------------------------------------------------------------- running a churn scenario
func opCoq(o Op) string {
	switch o.Kind {
	case "ct":
		return fmt.Sprintf("(OCreateTopic %s)", coqName(o.Topic))
	case "dt":
		return fmt.Sprintf("(ODeleteTopic %s)", coqName(o.Topic))
	case "pt":
		return fmt.Sprintf("(OPauseTopic %s true)", coqName(o.Topic))
	case "ut":
		return fmt.Sprintf("(OPauseTopic %s false)", coqName(o.Topic))
	case "cc":
		return fmt.Sprintf("(OCreateChan %s %s)", coqName(o.Topic), coqName(o.Channel))
	case "dc":
		return fmt.Sprintf("(ODeleteChan %s %s)", coqName(o.Topic), coqName(o.Channel))
	case "pc":
		return fmt.Sprintf("(OPauseChan %s %s true)", coqName(o.Topic), coqName(o.Channel))
	case "uc":
		return fmt.Sprintf("(OPauseChan %s %s false)", coqName(o.Topic), coqName(o.Channel))
	}
	return "OSync"
}

func doOp(d *daemon, o Op) (int, error) {
	q := url.Values{}
	q.Set("topic", o.Topic)
	path := ""
	switch o.Kind {
	case "ct":
		path = "/topic/create"
	case "dt":
		path = "/topic/delete"
	case "pt":
		path = "/topic/pause"
	case "ut":
		path = "/topic/unpause"
	case "cc":
		path = "/channel/create"
	case "dc":
		path = "/channel/delete"
	case "pc":
		path = "/channel/pause"
	case "uc":
		path = "/channel/unpause"
	}
	if path[1] == 'c' {
		q.Set("channel", o.Channel)
	}
	return d.post(path, q)
}

type runStats struct {
	mu                                        sync.Mutex
	samples, sampleBad, kills, straced, idles int
	syscalls                                  map[string]int
}

var gstats = runStats{syscalls: map[string]int{}}
var nWaitExpired int64

func runChurn(bin, scratch string, sc Scenario) (lib.Case, error) {
	dir, err := os.MkdirTemp(scratch, "meta-")
	if err != nil {
		return lib.Case{}, err
	}
	defer os.RemoveAll(dir)
	tags := []string{"kind=churn"}
	if sc.Strace {
		tags = append(tags, "strace")
	}
	var cyc []string
	nontrivial := false
	obs := []map[string]interface{}{}
	for ci, cy := range sc.Cycles {
		spec := ""
		if cy.Kill.Mode == "point" {
			spec = fmt.Sprintf("%s:%d", cy.Kill.Point, cy.Kill.K)
		}
		smp := startSampler(dir)
		d, err := startDaemonW(bin, dir, spec, cy.Hold, cy.Wait, sc.Strace, strconv.Itoa(ci), true)
		if err != nil {
			smp.finish()
			return lib.Case{}, err
		}
		boot := ""
		var hops []string
		unacked := "None"
		idleKill := false
		view, ok := d.waitServing()
		killedHow := cy.Kill.Mode
		if !ok {
			// died (armed point during boot) or failed by itself
			d.waitExit(30 * time.Second)
			if d.alive() {
				d.sigkill()
				smp.finish()
				return lib.Case{}, fmt.Errorf("%s cycle %d: daemon neither serving nor exiting\n%s", sc.Name, ci, d.tail())
			}
			if spec != "" && d.killedBySignal() {
				boot = "BootKilled"
				killedHow = "point-at-boot"
			} else {
				boot = "BootFailed"
				killedHow = "boot-failed"
			}
		} else {
			boot = "(BootOK " + coqDoc(view) + ")"
			var wallDone chan struct{}
			if cy.Kill.Mode == "wall" {
				wallDone = make(chan struct{})
				go func() {
					defer close(wallDone)
					select {
					case <-time.After(time.Duration(cy.Kill.DelayUs) * time.Microsecond):
						d.sigkill()
					case <-d.exited:
					}
				}()
			}
			dead := false
			slowest := time.Duration(0)
			for _, o := range cy.Ops {
				opStart := time.Now()
				if o.Kind == "idle" {
					rn, ok := d.waitIdle()
					if !ok {
						if d.waitExit(2 * time.Second) {
							dead = true
							break
						}
						d.sigkill()
						smp.finish()
						return lib.Case{}, fmt.Errorf("%s: idleness not reached\n%s", sc.Name, d.tail())
					}
					b, err := os.ReadFile(filepath.Join(dir, "nsqd.dat"))
					fd := "None"
					if err == nil {
						if doc, ok := parseDat(b); ok {
							fd = "(Some " + coqDoc(doc) + ")"
						}
					}
					hops = append(hops, fmt.Sprintf("HIdle %s %d", fd, rn))
					tags = append(tags, "op=idle")
					gstats.mu.Lock()
					gstats.idles++
					gstats.mu.Unlock()
					continue
				}
				st, err := doOp(d, o)
				if err != nil {
					// the daemon died under the request (or the kill raced with the answer)
					if !d.waitExit(30 * time.Second) {
						d.sigkill()
						smp.finish()
						return lib.Case{}, fmt.Errorf("%s: request failed but daemon alive: %v\n%s", sc.Name, err, d.tail())
					}
					unacked = "(Some " + opCoq(o) + ")"
					tags = append(tags, "unacked="+o.Kind)
					dead = true
					break
				}
				tags = append(tags, fmt.Sprintf("op=%s/%d", o.Kind, st))
				v, err := d.stats()
				if err == nil && o.Kind == "dc" && st == 200 && isEph(o.Topic) {
					// an ephemeral topic deletes itself (asynchronously) once its last channel is
					// gone: wait for the exact condition "absent, or it still has a channel"
					for i := 0; i < 20000 && err == nil; i++ {
						gone := true
						for _, t := range v {
							if t.Name == o.Topic && len(t.Chans) == 0 {
								gone = false
							}
						}
						if gone {
							break
						}
						time.Sleep(500 * time.Microsecond)
						v, err = d.stats()
					}
				}
				if err != nil {
					if !d.waitExit(30 * time.Second) {
						d.sigkill()
						smp.finish()
						return lib.Case{}, fmt.Errorf("%s: /stats failed but daemon alive: %v", sc.Name, err)
					}
					hops = append(hops, fmt.Sprintf("HOp %s %d None", opCoq(o), st))
					dead = true
					break
				}
				hops = append(hops, fmt.Sprintf("HOp %s %d (Some %s)", opCoq(o), st, coqDoc(v)))
				if el := time.Since(opStart); el > slowest {
					slowest = el
				}
			}
			if cy.Wait != "" && slowest > 8*time.Second {
				// a wait of the forced schedule ran into the hook's 10 s cap: the schedule was not the planned one (still a legal run)
				tags = append(tags, "forced-schedule-wait-expired")
				atomic.AddInt64(&nWaitExpired, 1)
			}
			if !dead {
				switch cy.Kill.Mode {
				case "idle":
					if _, ok := d.waitIdle(); ok {
						idleKill = true
					}
					d.sigkill()
				case "point":
					// the armed point was not reached: settle, then kill
					if _, ok := d.waitIdle(); ok && d.alive() {
						idleKill = true
						killedHow = "point-not-reached"
					}
					d.sigkill()
				case "wall":
					<-wallDone
				default:
					d.sigkill()
				}
			}
			if wallDone != nil {
				<-wallDone
			}
			if d.alive() {
				d.sigkill()
			}
		}
		d.waitExit(30 * time.Second)
		smp.finish()
		// the directory after the kill
		fileOK := true
		file := "None"
		b, err := os.ReadFile(filepath.Join(dir, "nsqd.dat"))
		if err == nil {
			if doc, ok := parseDat(b); ok {
				file = "(Some " + coqDoc(doc) + ")"
			} else {
				fileOK = false
			}
		} else if !os.IsNotExist(err) {
			fileOK = false
		}
		var samples []string
		keys := make([]string, 0, len(smp.docs))
		for k := range smp.docs {
			keys = append(keys, k)
		}
		sort.Strings(keys)
		for _, k := range keys {
			samples = append(samples, coqDoc(smp.docs[k]))
		}
		var sys []string
		if sc.Strace {
			var counts map[string]int
			sys, counts = parseStrace(d.straceF)
			gstats.mu.Lock()
			gstats.straced++
			for k, v := range counts {
				gstats.syscalls[k] += v
			}
			gstats.mu.Unlock()
		}
		gstats.mu.Lock()
		gstats.samples += smp.n
		gstats.sampleBad += smp.bad
		gstats.kills++
		gstats.mu.Unlock()
		tags = append(tags, "kill="+killedHow)
		if len(cy.Hold) > 0 {
			tags = append(tags, "hold-deleter-until-notify-done")
		}
		if cy.Wait != "" {
			tags = append(tags, "forced-schedule")
		}
		if cy.Kill.Mode == "point" {
			tags = append(tags, "point="+cy.Kill.Point)
		}
		if len(hops) > 0 || unacked != "None" {
			nontrivial = true
		}
		cyc = append(cyc, fmt.Sprintf("mkCy %s %s %s %s %s %d %s %s %s", boot, lib.CoqList(hops), unacked, lib.CoqBool(idleKill),
			lib.CoqList(samples), smp.bad, lib.CoqBool(fileOK), file, lib.CoqList(sys)))
		o := map[string]interface{}{"cycle": ci, "boot": boot != "BootFailed", "killed": killedHow, "file_ok": fileOK, "samples": smp.n, "bad_samples": smp.bad, "file": string(b)}
		if smp.bad > 0 {
			o["bad_sample_text"] = smp.badText
		}
		if boot == "BootFailed" {
			o["log"] = d.tail()
		}
		obs = append(obs, o)
		if boot == "BootFailed" {
			break
		}
	}
	coq := "(Churn " + lib.CoqList(cyc) + ")"
	return lib.Case{Name: sc.Name, Coq: coq, Input: sc, Tags: tags, Nontrivial: nontrivial, Obs: obs}, nil
}

// ---------------------------------------------------------------- load cases
func renderDat(d Doc) []byte {
	type ch struct {
		Name   string `json:"name"`
		Paused bool   `json:"paused"`
	}
	type tp struct {
		Name     string `json:"name"`
		Paused   bool   `json:"paused"`
		Channels []ch   `json:"channels"`
	}
	m := struct {
		Topics  []tp   `json:"topics"`
		Version string `json:"version"`
	}{Version: "1.3.0"}
	for _, t := range d {
		x := tp{Name: t.Name, Paused: t.Paused, Channels: []ch{}}
		for _, c := range t.Chans {
			x.Channels = append(x.Channels, ch{c.Name, c.Paused})
		}
		m.Topics = append(m.Topics, x)
	}
	b, _ := json.Marshal(m)
	return b
}

func runLoad(bin, scratch string, sc Scenario) (lib.Case, error) {
	dir, err := os.MkdirTemp(scratch, "meta-")
	if err != nil {
		return lib.Case{}, err
	}
	defer os.RemoveAll(dir)
	full := true
	tags := []string{"kind=load"}
	if sc.Present {
		b := renderDat(sc.LoadDoc)
		if sc.Garbage != "" {
			b = []byte(sc.Garbage)
			full = false
			tags = append(tags, "load=garbage")
		} else if sc.Cut >= 0 && sc.Cut < len(b) {
			b = b[:sc.Cut]
			full = false
			tags = append(tags, "load=truncated")
		} else {
			tags = append(tags, "load=complete")
		}
		if err := os.WriteFile(filepath.Join(dir, "nsqd.dat"), b, 0600); err != nil {
			return lib.Case{}, err
		}
	} else {
		tags = append(tags, "load=absent")
	}
	d, err := startDaemon(bin, dir, "", nil, false, "l")
	if err != nil {
		return lib.Case{}, err
	}
	view, ok := d.waitServing()
	if !ok {
		d.waitExit(30 * time.Second)
	}
	if d.alive() {
		d.sigkill()
	}
	tags = append(tags, fmt.Sprintf("started=%v", ok))
	docForCoq := sc.LoadDoc
	if !full && sc.Garbage != "" {
		docForCoq = Doc{}
	}
	coq := fmt.Sprintf("(LoadCase %s %s %s %s %s)", lib.CoqBool(sc.Present), coqDoc(docForCoq), lib.CoqBool(full), lib.CoqBool(ok), coqDoc(view))
	return lib.Case{Name: sc.Name, Coq: coq, Input: sc, Tags: tags, Nontrivial: sc.Present,
		Obs: map[string]interface{}{"started": ok, "view": view}}, nil
}

// ---------------------------------------------------------------- data-path lock
// A second nsqd is started on the data path of a first one at each phase of the first one's
// life.  The first daemon is brought to the phase and kept there by NSQ_VERIF_WAIT (a point
// waits for a counter that is never hit: the hook's cap of 10 s, far longer than the attempt
// takes; the case is dropped as inconclusive when it took longer than lockPhaseBudget):
//
//	boot                 parked inside the start-up PersistMetadata (LoadMetadata done, not serving yet)
//	serving              idle
//	persisting           a Notify goroutine parked inside PersistMetadata, NSQD lock held
//	exit-topics-closed   SIGTERM; Exit() parked after it closed the topics and dropped the NSQD lock
//	exit-subsystems      SIGTERM; Exit() is in waitGroup.Wait() behind a Notify goroutine that has not
//	                     yet handed its event over (it goes on to PersistMetadata when it has)
//	exited               SIGTERM; the process has ended by itself (status 0)
//	killed               SIGKILL
//
// While the path is in use (the first five) the second daemon must exit non-zero by itself without
// serving, nsqd.dat must be the same file with the same bytes afterwards and the first daemon must
// still be where it was; once the first one is gone the second must start.  A third daemon started
// after everything was killed must serve what nsqd.dat holds.
var lockPhases = []string{"boot", "serving", "persisting", "exit-topics-closed", "exit-subsystems", "exited", "killed"}

const neverCounter = "verif:never-hit"
const lockPhaseBudget = 6 * time.Second

var nLockInconclusive int64

func lockWait(phase string) string {
	switch phase {
	case "boot":
		return "persist:after-tmp-write|1|" + neverCounter + "|1"
	case "persisting":
		return "persist:after-tmp-write|2|" + neverCounter + "|1"
	case "exit-topics-closed":
		return "exit:topics-closed|1|" + neverCounter + "|1"
	case "exit-subsystems":
		return "notify:before-send|1|" + neverCounter + "|1"
	}
	return ""
}

func lockPhaseCoq(phase string) string {
	switch phase {
	case "boot":
		return "LBoot"
	case "persisting":
		return "LPersisting"
	case "exit-topics-closed":
		return "LExitTopicsClosed"
	case "exit-subsystems":
		return "LExitSubsystems"
	case "exited":
		return "LExited"
	case "killed":
		return "LKilled"
	}
	return "LServing"
}

// waitHit: the named point has been passed at least n times (status socket)
func (d *daemon) waitHit(point string, n int) bool {
	deadline := time.Now().Add(30 * time.Second)
	for time.Now().Before(deadline) {
		if h, err := d.hits(); err == nil {
			if h[point] >= n {
				return true
			}
		} else if !d.alive() {
			return false
		}
		time.Sleep(300 * time.Microsecond)
	}
	return false
}

func (d *daemon) waitMark(m string) bool {
	deadline := time.Now().Add(30 * time.Second)
	for time.Now().Before(deadline) {
		if d.sawMark(m) {
			return true
		}
		if !d.alive() {
			return d.sawMark(m)
		}
		time.Sleep(300 * time.Microsecond)
	}
	return false
}

type datIdent struct {
	present bool
	ino     uint64
	bytes   []byte
}

func identDat(dir string) datIdent {
	fn := filepath.Join(dir, "nsqd.dat")
	b, err := os.ReadFile(fn)
	if err != nil {
		return datIdent{}
	}
	id := datIdent{present: true, bytes: b}
	if fi, err := os.Stat(fn); err == nil {
		if st, ok := fi.Sys().(*syscall.Stat_t); ok {
			id.ino = st.Ino
		}
	}
	return id
}

func runLock(bin, scratch string, sc Scenario) (lib.Case, bool, error) {
	phase := sc.Phase
	if phase == "" {
		phase = "serving"
	}
	inUse := phase != "exited" && phase != "killed"
	dir, err := os.MkdirTemp(scratch, "meta-")
	if err != nil {
		return lib.Case{}, false, err
	}
	defer os.RemoveAll(dir)
	a, err := startDaemonW(bin, dir, "", nil, lockWait(phase), false, "a", true)
	if err != nil {
		return lib.Case{}, false, err
	}
	fail := func(what string) (lib.Case, bool, error) {
		tail := a.tail()
		a.sigkill()
		return lib.Case{}, false, fmt.Errorf("lock/%s: %s\n%s", phase, what, tail)
	}
	parkedAt := time.Now()
	if phase == "boot" {
		if !a.waitHit("persist:after-tmp-write", 1) {
			return fail("first daemon did not reach its start-up persist")
		}
	} else {
		if _, ok := a.waitServing(); !ok {
			return fail("first daemon did not start")
		}
		parkedAt = time.Now()
		if st, err := doOp(a, Op{Kind: "ct", Topic: "t"}); err != nil || st != 200 {
			return fail(fmt.Sprintf("topic creation failed: %v %d", err, st))
		}
		ok := true
		switch phase {
		case "persisting":
			ok = a.waitHit("persist:after-tmp-write", 2)
		case "exit-subsystems":
			ok = a.waitHit("notify:before-send", 1)
		default:
			_, ok = a.waitIdle()
		}
		if !ok {
			return fail("set-up state not reached")
		}
		switch phase {
		case "exit-topics-closed":
			parkedAt = time.Now()
			a.cmd.Process.Signal(syscall.SIGTERM)
			if !a.waitHit("exit:topics-closed", 1) {
				return fail("Exit did not close the topics")
			}
		case "exit-subsystems":
			a.cmd.Process.Signal(syscall.SIGTERM)
			// queueScanLoop says so once exitChan is closed: Exit() is at (or about to enter) waitGroup.Wait()
			if !a.waitMark("QUEUESCAN: closing") {
				return fail("Exit did not stop the subsystems")
			}
		case "exited":
			a.cmd.Process.Signal(syscall.SIGTERM)
			if !a.waitExit(30*time.Second) || a.werr != nil {
				return fail(fmt.Sprintf("graceful exit failed: %v", a.werr))
			}
		case "killed":
			a.sigkill()
		}
	}
	before := identDat(dir)
	// the second daemon (no status socket of its own: it must not take the first one's away)
	b, err := startDaemonW(bin, dir, "", nil, "", false, "b", false)
	if err != nil {
		a.sigkill()
		return lib.Case{}, false, err
	}
	started, refused := false, false
	select {
	case <-b.addrCh:
		started = true
	case <-b.exited:
		if ee, ok := b.werr.(*exec.ExitError); ok && ee.ExitCode() > 0 {
			refused = true
		}
	case <-time.After(30 * time.Second):
	}
	lockMsg := b.sawMark("failed to lock data-path")
	btail := lastN(b.tail(), 300)
	if b.alive() {
		b.sigkill()
	}
	after := identDat(dir)
	took := time.Since(parkedAt)
	datSame := before.present == after.present && bytes.Equal(before.bytes, after.bytes)
	firstStill := true
	if inUse {
		datSame = datSame && before.ino == after.ino
		h, herr := a.hits()
		firstStill = a.alive() && herr == nil
		switch phase {
		case "boot":
			firstStill = firstStill && h["persist:after-rename"] == 0
		case "serving":
			_, serr := a.stats()
			firstStill = firstStill && serr == nil
		case "persisting":
			firstStill = firstStill && h["persist:after-rename"] == 1
		case "exit-topics-closed":
			firstStill = firstStill && !a.sawMark("NSQ: stopping subsystems")
		case "exit-subsystems":
			firstStill = firstStill && !a.sawMark("NSQ: bye")
		}
		if !firstStill && phase != "serving" && took > lockPhaseBudget {
			// the hook's cap may have let the first daemon go on: nothing to judge
			a.sigkill()
			atomic.AddInt64(&nLockInconclusive, 1)
			return lib.Case{}, false, nil
		}
	}
	if a.alive() {
		a.sigkill()
	}
	// everything is dead: a third daemon takes the path over and shows what nsqd.dat holds
	file, fileOK, _ := readDat(dir)
	c, err := startDaemon(bin, dir, "", nil, false, "c")
	if err != nil {
		return lib.Case{}, false, err
	}
	seen, third := c.waitServing()
	if !third {
		c.waitExit(20 * time.Second)
	}
	if c.alive() {
		c.sigkill()
	}
	if !fileOK {
		file = nil
		third = false
	}
	coq := fmt.Sprintf("(PathLock %s %s %s %s %s %s %s %s)", lockPhaseCoq(phase), lib.CoqBool(started), lib.CoqBool(refused), lib.CoqBool(datSame),
		lib.CoqBool(firstStill), lib.CoqBool(third), coqODoc(file), coqDoc(seen))
	return lib.Case{Name: sc.Name, Coq: coq, Input: sc, Tags: []string{"kind=lock", "phase=" + phase, fmt.Sprintf("second_refused=%v", refused), fmt.Sprintf("second_started=%v", started)}, Nontrivial: true,
		Obs: map[string]interface{}{"phase": phase, "second_stderr_tail": btail, "second_said_failed_to_lock": lockMsg, "second_started": started, "second_refused": refused,
			"nsqd_dat_same_file_same_bytes": datSame, "first_still_in_phase": firstStill, "third_started": third, "attempt_ms": took.Milliseconds()}}, true, nil
}

func lastN(s string, n int) string {
	if len(s) > n {
		return s[len(s)-n:]
	}
	return s
}

// ---------------------------------------------------------------- generators
var (
	topicPool = []string{"a", "b", "t1", "x.y-z_0", "e#ephemeral", "a", "b"}
	chanPool  = []string{"c1", "c2", "c1", "ce#ephemeral"}
	badNames  = []string{"", "bad name", "a#b", "#ephemeral", strings.Repeat("n", 65), "x#ephemeral#ephemeral", "caf\xc3\xa9"}
	points    = []string{"persist:after-tmp-write", "persist:after-fsync", "persist:after-rename",
		"delete-topic:before-remove", "delete-topic:after-remove", "delete-channel:before-remove", "delete-channel:after-remove",
		"notify:spawn", "notify:done"}
)

// genState is the generator's own idea of what exists (only used to make most requests
// meaningful and to aim the kill counters; it is not the model)
type genState struct {
	topics map[string]map[string]bool
	order  []string
	// estimated hit counters since the daemon start
	persists, spawns, dts, dcs int
}

func newGenState() *genState { return &genState{topics: map[string]map[string]bool{}, persists: 1} }
func isEph(s string) bool    { return strings.HasSuffix(s, "#ephemeral") }

func (g *genState) pickTopic(r *lib.Rand, existing bool) string {
	if existing && len(g.order) > 0 && r.Chance(88) {
		return g.order[r.Intn(len(g.order))]
	}
	return topicPool[r.Intn(len(topicPool))]
}
func (g *genState) pickChan(r *lib.Rand, t string, existing bool) string {
	if existing && r.Chance(88) {
		var cs []string
		for c := range g.topics[t] {
			cs = append(cs, c)
		}
		sort.Strings(cs)
		if len(cs) > 0 {
			return cs[r.Intn(len(cs))]
		}
	}
	return chanPool[r.Intn(len(chanPool))]
}
func (g *genState) dropTopic(t string) {
	delete(g.topics, t)
	for i, x := range g.order {
		if x == t {
			g.order = append(g.order[:i:i], g.order[i+1:]...)
			break
		}
	}
}

func (g *genState) apply(o Op) {
	switch o.Kind {
	case "ct":
		if _, ok := g.topics[o.Topic]; !ok {
			g.topics[o.Topic] = map[string]bool{}
			g.order = append(g.order, o.Topic)
			g.spawns++
			if !isEph(o.Topic) {
				g.persists++
			}
		}
	case "cc":
		if cs, ok := g.topics[o.Topic]; ok && !cs[o.Channel] {
			cs[o.Channel] = true
			g.spawns++
			if !isEph(o.Channel) {
				g.persists++
			}
		}
	case "pt", "ut":
		if _, ok := g.topics[o.Topic]; ok {
			g.persists++
		}
	case "pc", "uc":
		if cs, ok := g.topics[o.Topic]; ok && cs[o.Channel] {
			g.persists++
		}
	case "dt":
		if cs, ok := g.topics[o.Topic]; ok {
			g.dts++
			g.spawns += 1 + len(cs)
			if !isEph(o.Topic) {
				g.persists += 2
			}
			for c := range cs {
				if !isEph(c) {
					g.persists++
				}
			}
			g.dropTopic(o.Topic)
		}
	case "dc":
		if cs, ok := g.topics[o.Topic]; ok && cs[o.Channel] {
			g.dcs++
			g.spawns++
			if !isEph(o.Channel) {
				g.persists++
				if !isEph(o.Topic) {
					g.persists++
				}
			}
			delete(cs, o.Channel)
		}
	}
}

func genOps(r *lib.Rand, g *genState, n int) []Op {
	var ops []Op
	add := func(o Op) { ops = append(ops, o); g.apply(o) }
	for i := 0; i < n; i++ {
		x := r.Intn(100)
		if len(g.order) == 0 && r.Chance(75) {
			x = 0
		}
		switch {
		case x < 18:
			add(Op{Kind: "ct", Topic: g.pickTopic(r, false)})
		case x < 40:
			t := g.pickTopic(r, true)
			add(Op{Kind: "cc", Topic: t, Channel: g.pickChan(r, t, false)})
		case x < 49:
			add(Op{Kind: "pt", Topic: g.pickTopic(r, true)})
		case x < 55:
			add(Op{Kind: "ut", Topic: g.pickTopic(r, true)})
		case x < 64:
			t := g.pickTopic(r, true)
			add(Op{Kind: "pc", Topic: t, Channel: g.pickChan(r, t, true)})
		case x < 70:
			t := g.pickTopic(r, true)
			add(Op{Kind: "uc", Topic: t, Channel: g.pickChan(r, t, true)})
		case x < 79:
			add(Op{Kind: "dt", Topic: g.pickTopic(r, true)})
		case x < 88:
			t := g.pickTopic(r, true)
			add(Op{Kind: "dc", Topic: t, Channel: g.pickChan(r, t, true)})
		case x < 94:
			add(Op{Kind: "idle"})
		default:
			// malformed stream: invalid names on every kind of request
			kinds := []string{"ct", "dt", "pt", "cc", "dc", "pc", "uc"}
			k := kinds[r.Intn(len(kinds))]
			t := g.pickTopic(r, true)
			o := Op{Kind: k, Topic: badNames[r.Intn(len(badNames))], Channel: g.pickChan(r, t, true)}
			if r.Bool() {
				o.Topic, o.Channel = t, badNames[r.Intn(len(badNames))]
			}
			add(o)
		}
	}
	return ops
}

func genKill(r *lib.Rand, g *genState, nops int) Kill {
	switch x := r.Intn(100); {
	case x < 45:
		p := points[r.Intn(len(points))]
		est := g.persists
		switch {
		case strings.HasPrefix(p, "delete-topic"):
			est = g.dts
		case strings.HasPrefix(p, "delete-channel"):
			est = g.dcs
		case strings.HasPrefix(p, "notify"):
			est = g.spawns
		}
		if est < 1 {
			est = 1
		}
		k := 1 + r.Intn(est)
		if r.Chance(10) {
			k = est + 1
		}
		return Kill{Mode: "point", Point: p, K: k}
	case x < 62:
		return Kill{Mode: "wall", DelayUs: r.Intn(1 + 1500*nops)}
	case x < 82:
		return Kill{Mode: "now"}
	default:
		return Kill{Mode: "idle"}
	}
}

var holdDeleters = []string{"delete-topic:before-remove", "delete-channel:before-remove"}

func genChurn(r *lib.Rand, k int, strace bool) Scenario {
	sc := Scenario{Name: fmt.Sprintf("churn-%d", k), Kind: "churn", Strace: strace}
	nc := 1 + r.Intn(3)
	g := newGenState()
	for i := 0; i < nc; i++ {
		n := r.Intn(10)
		if i == 0 && n < 3 {
			n = 3 + r.Intn(7)
		}
		g.persists, g.spawns, g.dts, g.dcs = 1, 0, 0, 0
		for t, cs := range g.topics {
			// ephemeral topics and channels do not survive a restart
			if isEph(t) {
				g.dropTopic(t)
				continue
			}
			for c := range cs {
				if isEph(c) {
					delete(cs, c)
				}
			}
		}
		ops := genOps(r, g, n)
		cy := Cycle{Ops: ops, Kill: genKill(r, g, len(ops))}
		if r.Chance(35) && !(cy.Kill.Mode == "point" && strings.HasSuffix(cy.Kill.Point, "before-remove")) {
			cy.Hold = holdDeleters
		}
		sc.Cycles = append(sc.Cycles, cy)
	}
	sc.Cycles = append(sc.Cycles, Cycle{Kill: Kill{Mode: "idle"}}) // final observation
	return sc
}

func genFault(r *lib.Rand, k int) Scenario {
	sc := Scenario{Name: fmt.Sprintf("fault-%d", k), Kind: "fault", Limit: []int{1, 8, 20, 32}[r.Intn(4)]}
	// pre: fresh non-ephemeral objects only, one successful persist each
	names := []string{"a", "b", "t1", "x.y-z_0", "topic_with_a_rather_long_name"}
	np := r.Intn(4)
	var have []string
	chans := map[string][]string{}
	for i := 0; i < np; i++ {
		if len(have) > 0 && r.Chance(50) {
			t := have[r.Intn(len(have))]
			c := fmt.Sprintf("c%d", len(chans[t]))
			chans[t] = append(chans[t], c)
			sc.Pre = append(sc.Pre, Op{Kind: "cc", Topic: t, Channel: c})
		} else if len(have) < len(names) {
			t := names[len(have)]
			have = append(have, t)
			sc.Pre = append(sc.Pre, Op{Kind: "ct", Topic: t})
		}
	}
	g := newGenState()
	for _, o := range sc.Pre {
		g.apply(o)
	}
	n := 1 + r.Intn(6)
	for _, o := range genOps(r, g, n) {
		if o.Kind != "idle" {
			sc.Post = append(sc.Post, o)
		}
	}
	if len(sc.Post) == 0 {
		sc.Post = []Op{{Kind: "ct", Topic: "late"}}
	}
	return sc
}

// ---------------------------------------------------------------- forced schedules: a change whose own persist meets a busy NSQD lock
// The family "request V's own metadata write reaches the NSQD lock while a holder H is past its
// snapshot, and that snapshot was taken BEFORE V's change":
//
//	H = the Notify goroutine(s) of an earlier request of the same sequential client (topic / channel
//	    creation, channel / topic deletion), parked at notify:before-send until V has passed its lookups
//	    (the lookups take the NSQD read lock and could not get past a holder);
//	V = a channel creation (parked in Topic.GetChannel before the topic lock) or a topic / channel
//	    pause / unpause (parked in doPause before the flag store) until H has written its temp file;
//	H stays at persist:after-tmp-write / after-fsync / after-rename -- holding the lock -- until V's own write is at the
//	    lock (lookupLoop has received V's Notify event / the pause handler is at pause:before-lock).
//
// V's write has to queue behind H and repair the file.  A second template has a holder that is not
// writing at all: GetTopic creating an EPHEMERAL topic, parked inside the NSQD lock (notify:spawn runs
// there) until the Notify goroutine of an earlier creation is at the lock; nobody else will ever write
// that creation.  All counters are hit counts since the daemon's start, computed by the generator
// (fctr): every request before the forced pair is followed by an exact idle point.
type fctr struct{ persist, spawn, getch, flip, plock int }

type ftopic struct {
	paused bool
	chans  map[string]bool // name -> paused
}
type fstate struct {
	topics map[string]*ftopic
	c      fctr
}

func (f *fstate) names() []string {
	var out []string
	for t := range f.topics {
		out = append(out, t)
	}
	sort.Strings(out)
	return out
}
func (f *fstate) chanNames(t string, ephToo bool) []string {
	var out []string
	for c := range f.topics[t].chans {
		if ephToo || !isEph(c) {
			out = append(out, c)
		}
	}
	sort.Strings(out)
	return out
}

// apply: the settled effect of one VALID request on the state and on the hit counters
func (f *fstate) apply(o Op) {
	switch o.Kind {
	case "ct":
		f.topics[o.Topic] = &ftopic{chans: map[string]bool{}}
		f.c.spawn++
		if !isEph(o.Topic) {
			f.c.persist++
		}
	case "cc":
		f.topics[o.Topic].chans[o.Channel] = false
		f.c.getch++
		f.c.spawn++
		if !isEph(o.Channel) {
			f.c.persist++
		}
	case "pt", "ut":
		f.topics[o.Topic].paused = o.Kind == "pt"
		f.c.flip++
		f.c.plock++
		f.c.persist++
	case "pc", "uc":
		f.topics[o.Topic].chans[o.Channel] = o.Kind == "pc"
		f.c.flip++
		f.c.plock++
		f.c.persist++
	case "dc":
		delete(f.topics[o.Topic].chans, o.Channel)
		f.c.spawn++
		if !isEph(o.Channel) {
			f.c.persist += 2 // its Notify goroutine and persistAfterDelete
		}
	case "dt":
		f.c.spawn++
		f.c.persist += 2
		for c := range f.topics[o.Topic].chans {
			f.c.spawn++
			if !isEph(c) {
				f.c.persist++
			}
		}
		delete(f.topics, o.Topic)
	}
}

// restart: what LoadMetadata + the start-up persist do to the counters (ephemeral channels are gone)
func (f *fstate) restart() {
	f.c = fctr{persist: 1}
	for _, t := range f.topics {
		f.c.spawn++
		if t.paused {
			f.c.flip++
		}
		for c, p := range t.chans {
			if isEph(c) {
				delete(t.chans, c)
				continue
			}
			f.c.getch++
			f.c.spawn++
			if p {
				f.c.flip++
			}
		}
	}
}

var (
	forcedTopics = []string{"t0", "a", "b", "x.y-z_0", "t1", "topic_with_a_rather_long_name"}
	forcedChans  = []string{"c", "c1", "c2", "d", "channel_with_a_rather_long_name"}
)

func (f *fstate) freshTopic(r *lib.Rand) string {
	var free []string
	for _, t := range forcedTopics {
		if f.topics[t] == nil {
			free = append(free, t)
		}
	}
	if len(free) == 0 {
		return ""
	}
	return free[r.Intn(len(free))]
}
func (f *fstate) freshChan(r *lib.Rand, t string) string {
	var free []string
	for _, c := range forcedChans {
		if _, ok := f.topics[t].chans[c]; !ok {
			free = append(free, c)
		}
	}
	if len(free) == 0 {
		return ""
	}
	return free[r.Intn(len(free))]
}

// prefixOp: one valid request on the current state (creations 50%, pause flips 30%, deletions 20%)
func (f *fstate) prefixOp(r *lib.Rand) (Op, bool) {
	ts := f.names()
	t := ts[r.Intn(len(ts))]
	switch x := r.Intn(100); {
	case x < 15:
		if n := f.freshTopic(r); n != "" {
			return Op{Kind: "ct", Topic: n}, true
		}
	case x < 50:
		c := f.freshChan(r, t)
		if r.Chance(15) {
			if _, ok := f.topics[t].chans["ce#ephemeral"]; !ok {
				c = "ce#ephemeral"
			}
		}
		if c != "" {
			return Op{Kind: "cc", Topic: t, Channel: c}, true
		}
	case x < 65:
		return Op{Kind: []string{"pt", "ut"}[r.Intn(2)], Topic: t}, true
	case x < 80:
		if cs := f.chanNames(t, true); len(cs) > 0 {
			return Op{Kind: []string{"pc", "uc"}[r.Intn(2)], Topic: t, Channel: cs[r.Intn(len(cs))]}, true
		}
	case x < 92:
		if cs := f.chanNames(t, true); len(cs) > 0 {
			return Op{Kind: "dc", Topic: t, Channel: cs[r.Intn(len(cs))]}, true
		}
	default:
		if len(ts) > 1 {
			return Op{Kind: "dt", Topic: t}, true
		}
	}
	return Op{}, false
}

// forcedPair: the holder request H, the victim request V and the NSQ_VERIF_WAIT spec that pins the
// schedule, for the state f (counters settled).  at = where H stays while it holds the lock.
func forcedPair(r *lib.Rand, f *fstate, hk, vk, at string) (h, v Op, wait string, ok bool) {
	c0 := f.c
	ts := f.names()
	t := ts[r.Intn(len(ts))]
	hs, hp := 1, 0 // H's Notify goroutines; persists H performs inside the request
	switch hk {
	case "ct":
		n := f.freshTopic(r)
		if n == "" {
			return
		}
		h = Op{Kind: "ct", Topic: n}
	case "cc":
		c := f.freshChan(r, t)
		if c == "" {
			return
		}
		h = Op{Kind: "cc", Topic: t, Channel: c}
	case "dc":
		cs := f.chanNames(t, false)
		if len(cs) == 0 {
			return
		}
		h = Op{Kind: "dc", Topic: t, Channel: cs[r.Intn(len(cs))]}
		hp = 1
	case "dt":
		if len(ts) < 2 {
			return
		}
		h = Op{Kind: "dt", Topic: t}
		hs, hp = 1+len(f.topics[t].chans), 1
	}
	f.apply(h)
	ts = f.names()
	t = ts[r.Intn(len(ts))]
	var vpoint, signal string
	var vhit, sig int
	switch vk {
	case "cc":
		c := f.freshChan(r, t)
		if c == "" {
			return
		}
		v = Op{Kind: "cc", Topic: t, Channel: c}
		vpoint, vhit = "getchannel:before-lock", f.c.getch+1
		signal, sig = "lookup:notify-received", c0.spawn+hs+1
	case "pt", "ut":
		// the flip that changes the flag (a stale document then differs from the acknowledged state)
		v = Op{Kind: "pt", Topic: t}
		if f.topics[t].paused {
			v.Kind = "ut"
		}
		vpoint, vhit = "pause:before-flip", c0.flip+1
		signal, sig = "pause:before-lock", c0.plock+1
	case "pc", "uc":
		cs := f.chanNames(t, false)
		if len(cs) == 0 {
			return
		}
		v = Op{Kind: "pc", Topic: t, Channel: cs[r.Intn(len(cs))]}
		if f.topics[t].chans[v.Channel] {
			v.Kind = "uc"
		}
		vpoint, vhit = "pause:before-flip", c0.flip+1
		signal, sig = "pause:before-lock", c0.plock+1
	}
	f.apply(v)
	n := c0.persist + hp + 1 // the persist of H's first Notify goroutine to get the lock
	var parts []string
	for j := 1; j <= hs; j++ {
		parts = append(parts, fmt.Sprintf("notify:before-send|%d|%s|%d", c0.spawn+j, vpoint, vhit))
	}
	parts = append(parts, fmt.Sprintf("%s|%d|persist:after-tmp-write|%d", vpoint, vhit, n), fmt.Sprintf("%s|%d|%s|%d", at, n, signal, sig))
	return h, v, strings.Join(parts, ","), true
}

// forcedIdleHolder: a creation W whose Notify goroutine reaches the lock while GetTopic, creating an
// ephemeral topic, sits inside it (a holder that writes nothing)
func forcedIdleHolder(r *lib.Rand, f *fstate, wk string) (w, e Op, wait string, ok bool) {
	c0 := f.c
	ts := f.names()
	t := ts[r.Intn(len(ts))]
	switch wk {
	case "ct":
		n := f.freshTopic(r)
		if n == "" {
			return
		}
		w = Op{Kind: "ct", Topic: n}
	default:
		c := f.freshChan(r, t)
		if c == "" {
			return
		}
		w = Op{Kind: "cc", Topic: t, Channel: c}
	}
	f.apply(w)
	e = Op{Kind: "ct", Topic: []string{"e#ephemeral", "e2#ephemeral"}[r.Intn(2)]}
	f.apply(e)
	wait = fmt.Sprintf("notify:before-send|%d|notify:spawn|%d,notify:spawn|%d|lookup:notify-received|%d", c0.spawn+1, c0.spawn+2, c0.spawn+2, c0.spawn+1)
	return w, e, wait, true
}

var (
	forcedHolders = []string{"ct", "cc", "dc", "dt"}
	forcedVictims = []string{"cc", "cc", "cc", "pt", "ut", "pc", "uc"}
	forcedAt      = []string{"persist:after-tmp-write", "persist:after-fsync", "persist:after-rename"}
)

// mkForced: prefix requests (idle after each), optionally a kill + restart, then the forced pair
func mkForced(r *lib.Rand, name string, nprefix int, restart bool, tmpl, hk, vk, at string, kill Kill) (Scenario, bool) {
	f := &fstate{topics: map[string]*ftopic{}, c: fctr{persist: 1}}
	var ops []Op
	add := func(o Op) { f.apply(o); ops = append(ops, o, Op{Kind: "idle"}) }
	add(Op{Kind: "ct", Topic: "t0"})
	for i := 0; i < nprefix; i++ {
		if o, ok := f.prefixOp(r); ok {
			add(o)
		}
	}
	sc := Scenario{Name: name, Kind: "churn"}
	if restart {
		sc.Cycles = append(sc.Cycles, Cycle{Ops: ops, Kill: Kill{Mode: "idle"}})
		f.restart()
		ops = []Op{{Kind: "idle"}}
	}
	var a, b Op
	var wait string
	var ok bool
	if tmpl == "idle-holder" {
		a, b, wait, ok = forcedIdleHolder(r, f, hk)
	} else {
		a, b, wait, ok = forcedPair(r, f, hk, vk, at)
	}
	if !ok {
		return sc, false
	}
	ops = append(ops, a, b)
	if kill.Mode == "idle" {
		ops = append(ops, Op{Kind: "idle"})
	}
	sc.Cycles = append(sc.Cycles, Cycle{Ops: ops, Kill: kill, Wait: wait}, Cycle{Kill: Kill{Mode: "idle"}})
	return sc, true
}

func genForced(r *lib.Rand, k int) Scenario {
	for {
		tmpl, hk, vk := "pair", forcedHolders[r.Intn(len(forcedHolders))], forcedVictims[r.Intn(len(forcedVictims))]
		if r.Chance(15) {
			tmpl, hk = "idle-holder", []string{"ct", "cc"}[r.Intn(2)]
		}
		kill := Kill{Mode: "idle"}
		if r.Chance(35) {
			kill = Kill{Mode: "now"}
		}
		if sc, ok := mkForced(r, fmt.Sprintf("forced-%d", k), r.Intn(6), r.Chance(30), tmpl, hk, vk, forcedAt[r.Intn(len(forcedAt))], kill); ok {
			return sc
		}
	}
}

// the hooks the forced pairs need (a tree under test may predate them: every wait would then run
// into the hook's 10 s cap, so the scenarios are skipped and the fact is reported)
var forcedHookNames = []string{"getchannel:before-lock", "lookup:notify-received", "pause:before-flip", "pause:before-lock"}

func forcedHooksPresent(bin, scratch string) bool {
	dir, err := os.MkdirTemp(scratch, "meta-")
	if err != nil {
		return false
	}
	defer os.RemoveAll(dir)
	d, err := startDaemonW(bin, dir, "", nil, "", false, "probe", true)
	if err != nil {
		return false
	}
	defer d.sigkill()
	if _, ok := d.waitServing(); !ok {
		return false
	}
	for _, o := range []Op{{Kind: "ct", Topic: "t"}, {Kind: "cc", Topic: "t", Channel: "c"}, {Kind: "pc", Topic: "t", Channel: "c"}} {
		if st, err := doOp(d, o); err != nil || st != 200 {
			return false
		}
	}
	if _, ok := d.waitIdle(); !ok {
		return false
	}
	h, err := d.hits()
	if err != nil {
		return false
	}
	for _, n := range forcedHookNames {
		if h[n] == 0 {
			return false
		}
	}
	return true
}
func needsForcedHooks(sc Scenario) bool {
	for _, cy := range sc.Cycles {
		for _, n := range forcedHookNames {
			if strings.Contains(cy.Wait, n) {
				return true
			}
		}
	}
	return false
}

func genLoad(r *lib.Rand, k int) Scenario {
	sc := Scenario{Name: fmt.Sprintf("load-%d", k), Kind: "load", Present: true, Cut: -1}
	names := append(append([]string{}, topicPool...), badNames...)
	cn := append(append([]string{}, chanPool...), badNames...)
	nt := r.Intn(5)
	for i := 0; i < nt; i++ {
		t := DTopic{Name: names[r.Intn(len(names))], Paused: r.Chance(40), Chans: []DChan{}}
		nc := r.Intn(4)
		for j := 0; j < nc; j++ {
			t.Chans = append(t.Chans, DChan{cn[r.Intn(len(cn))], r.Chance(40)})
		}
		sc.LoadDoc = append(sc.LoadDoc, t)
	}
	if sc.LoadDoc == nil {
		sc.LoadDoc = Doc{}
	}
	switch x := r.Intn(10); {
	case x < 2:
		sc.Cut = r.Intn(len(renderDat(sc.LoadDoc)))
	case x < 3:
		g := []string{"[]", "{\"topics\":5}", "x", "{\"topics\":[{\"name\":\"a\"}", "\x00\x00\x00"}
		sc.Garbage = g[r.Intn(len(g))]
	case x < 4:
		sc.Present = false
		sc.LoadDoc = Doc{}
	}
	return sc
}

func fixedScenarios() []Scenario {
	var out []Scenario
	idle := Kill{Mode: "idle"}
	obsCycle := Cycle{Kill: idle}
	// the F6 witness: create; idle; delete; idle; kill; restart => absent
	out = append(out, Scenario{Name: "fixed-F6-topic", Kind: "churn", Cycles: []Cycle{
		{Ops: []Op{{Kind: "ct", Topic: "t"}, {Kind: "idle"}, {Kind: "dt", Topic: "t"}, {Kind: "idle"}}, Kill: idle, Hold: holdDeleters}, obsCycle}})
	out = append(out, Scenario{Name: "fixed-F6-channel", Kind: "churn", Cycles: []Cycle{
		{Ops: []Op{{Kind: "ct", Topic: "t"}, {Kind: "cc", Topic: "t", Channel: "c"}, {Kind: "idle"}, {Kind: "dc", Topic: "t", Channel: "c"}, {Kind: "idle"}}, Kill: idle, Hold: holdDeleters}, obsCycle}})
	out = append(out, Scenario{Name: "fixed-F6-now", Kind: "churn", Cycles: []Cycle{
		{Ops: []Op{{Kind: "ct", Topic: "t"}, {Kind: "cc", Topic: "t", Channel: "c"}, {Kind: "idle"}, {Kind: "dc", Topic: "t", Channel: "c"}}, Kill: Kill{Mode: "now"}, Hold: holdDeleters},
		{Ops: []Op{{Kind: "dt", Topic: "t"}}, Kill: Kill{Mode: "now"}, Hold: holdDeleters}, obsCycle}})
	// acknowledged pause, killed at once
	out = append(out, Scenario{Name: "fixed-pause-now", Kind: "churn", Cycles: []Cycle{
		{Ops: []Op{{Kind: "ct", Topic: "t"}, {Kind: "cc", Topic: "t", Channel: "c"}, {Kind: "idle"}, {Kind: "pc", Topic: "t", Channel: "c"}}, Kill: Kill{Mode: "now"}},
		{Ops: []Op{{Kind: "pt", Topic: "t"}}, Kill: Kill{Mode: "now"}},
		{Ops: []Op{{Kind: "uc", Topic: "t", Channel: "c"}}, Kill: Kill{Mode: "now"}}, obsCycle}})
	// ephemeral topics and channels never reach the file
	out = append(out, Scenario{Name: "fixed-ephemeral", Kind: "churn", Strace: true, Cycles: []Cycle{
		{Ops: []Op{{Kind: "ct", Topic: "t"}, {Kind: "cc", Topic: "t", Channel: "ce#ephemeral"}, {Kind: "ct", Topic: "e#ephemeral"},
			{Kind: "cc", Topic: "e#ephemeral", Channel: "c"}, {Kind: "pc", Topic: "t", Channel: "ce#ephemeral"}, {Kind: "idle"}}, Kill: idle}, obsCycle}})
	// every kill point of the write protocol, at boot and at a later persist, under strace
	for _, p := range points[:3] {
		for _, k := range []int{1, 2, 3} {
			out = append(out, Scenario{Name: fmt.Sprintf("fixed-%s-%d", p, k), Kind: "churn", Strace: k == 2, Cycles: []Cycle{
				{Ops: []Op{{Kind: "ct", Topic: "t"}, {Kind: "pt", Topic: "t"}, {Kind: "cc", Topic: "t", Channel: "c"}}, Kill: idle},
				{Ops: []Op{{Kind: "ut", Topic: "t"}, {Kind: "dc", Topic: "t", Channel: "c"}}, Kill: Kill{Mode: "point", Point: p, K: k}}, obsCycle}})
		}
	}
	for _, p := range points[3:7] {
		out = append(out, Scenario{Name: "fixed-" + p, Kind: "churn", Cycles: []Cycle{
			{Ops: []Op{{Kind: "ct", Topic: "t"}, {Kind: "cc", Topic: "t", Channel: "c"}, {Kind: "cc", Topic: "t", Channel: "c2"}, {Kind: "idle"},
				{Kind: "dc", Topic: "t", Channel: "c"}, {Kind: "dt", Topic: "t"}}, Kill: Kill{Mode: "point", Point: p, K: 1}}, obsCycle}})
	}
	// a channel deletion that completes while the persist of its own Notify goroutine -- whose snapshot was
	// taken BEFORE the removal -- still holds the NSQD lock: the deleter waits at before-remove until that
	// persist (the n-th of the daemon) has written / fsynced its temp file, the persist waits there until the
	// channel has left the map.  The deleter's own persist has to queue behind it and repair the file.
	for _, v := range []struct {
		name, at string
		two      bool
		kill     Kill
	}{{"tmp-write", "persist:after-tmp-write", false, idle}, {"tmp-write-2ch-now", "persist:after-tmp-write", true, Kill{Mode: "now"}},
		{"fsync", "persist:after-fsync", false, idle}} {
		ops := []Op{{Kind: "ct", Topic: "t"}, {Kind: "idle"}, {Kind: "cc", Topic: "t", Channel: "c"}, {Kind: "idle"}}
		n := 4
		if v.two {
			ops = append(ops, Op{Kind: "cc", Topic: "t", Channel: "c2"}, Op{Kind: "idle"}, Op{Kind: "pc", Topic: "t", Channel: "c2"})
			n = 6
		}
		ops = append(ops, Op{Kind: "dc", Topic: "t", Channel: "c"})
		if v.kill.Mode == "idle" {
			ops = append(ops, Op{Kind: "idle"})
		}
		out = append(out, Scenario{Name: "fixed-delete-under-stale-persist-" + v.name, Kind: "churn", Cycles: []Cycle{
			{Ops: ops, Kill: v.kill, Wait: fmt.Sprintf("delete-channel:before-remove|1|%s|%d,%s|%d|delete-channel:after-remove|1", v.at, n, v.at, n)}, obsCycle}})
	}
	// the creation / pause analogue (see forcedPair): every holder kind x every victim kind at least once per run
	for i, v := range []struct {
		tmpl, hk, vk, at string
		np               int
		restart          bool
		kill             Kill
	}{
		{"pair", "cc", "cc", forcedAt[0], 0, false, idle}, {"pair", "ct", "cc", forcedAt[1], 0, false, idle},
		{"pair", "dc", "cc", forcedAt[2], 3, false, idle}, {"pair", "dt", "cc", forcedAt[0], 4, false, idle},
		{"pair", "cc", "cc", forcedAt[0], 3, true, idle}, {"pair", "cc", "cc", forcedAt[1], 2, false, Kill{Mode: "now"}},
		{"idle-holder", "ct", "", "", 0, false, idle}, {"idle-holder", "cc", "", "", 2, true, idle},
		{"pair", "cc", "pc", forcedAt[0], 1, false, Kill{Mode: "now"}}, {"pair", "ct", "pt", forcedAt[0], 0, false, Kill{Mode: "now"}},
		{"pair", "cc", "uc", forcedAt[1], 3, true, idle}, {"pair", "dc", "ut", forcedAt[2], 3, false, Kill{Mode: "now"}},
		{"pair", "dt", "pc", forcedAt[0], 5, false, Kill{Mode: "now"}},
	} {
		name := fmt.Sprintf("fixed-busy-lock-holder-%s-victim-%s", v.hk, v.vk)
		if v.tmpl == "idle-holder" {
			name = "fixed-busy-lock-holder-ephemeral-topic-creation-victim-" + v.hk
		}
		if v.restart {
			name += "-after-restart"
		}
		if v.kill.Mode == "now" {
			name += "-now"
		}
		for seed := uint64(1); seed < 200; seed++ {
			if sc, ok := mkForced(lib.NewRand(seed*1000+uint64(i)), name, v.np, v.restart, v.tmpl, v.hk, v.vk, v.at, v.kill); ok {
				out = append(out, sc)
				break
			}
		}
	}
	for _, ph := range lockPhases {
		out = append(out, Scenario{Name: "fixed-lock-" + ph, Kind: "lock", Phase: ph})
	}
	out = append(out, Scenario{Name: "fixed-write-fault-channel", Kind: "fault", Limit: 100,
		Pre:  []Op{{Kind: "ct", Topic: "t"}},
		Post: []Op{{Kind: "cc", Topic: "t", Channel: "channel_with_a_long_name"}, {Kind: "ct", Topic: "another_topic_with_a_long_name"}}})
	out = append(out, Scenario{Name: "fixed-write-fault-first-document", Kind: "fault", Limit: 8,
		Post: []Op{{Kind: "ct", Topic: "t"}, {Kind: "pt", Topic: "t"}, {Kind: "dt", Topic: "t"}}})
	out = append(out, Scenario{Name: "fixed-K8-mixed-document", Kind: "mix"})
	out = append(out, Scenario{Name: "fixed-load-empty-file", Kind: "load", Present: true, LoadDoc: Doc{}, Cut: 0})
	out = append(out, Scenario{Name: "fixed-load-null", Kind: "load", Present: true, LoadDoc: Doc{}, Cut: -1})
	out = append(out, Scenario{Name: "fixed-load-dups", Kind: "load", Present: true, Cut: -1, LoadDoc: Doc{
		{Name: "a", Paused: false, Chans: []DChan{{"c", false}, {"c", true}, {"bad name", false}}},
		{Name: "a", Paused: true, Chans: []DChan{{"d", false}}}, {Name: "", Paused: true, Chans: []DChan{}},
		{Name: "e#ephemeral", Paused: false, Chans: []DChan{{"c", true}}}}})
	return out
}

// ---------------------------------------------------------------- K8: a persisted document that mixes instants
// Two concurrent deleters (a/x first, then b/y) are parked between their lookup and the
// map removal; the Notify persist of the first is parked between its two topic reads of
// GetMetadata until both removals are done; SIGKILL right after its rename.  When the
// persist read topic a first, nsqd.dat = {a/x, b}: the daemon passed through
// {} {a} {a,b} {a,b/y} {a/x,b/y} {a,b/y} {a,b} only (b/y is created before a/x).  (Go's map iteration starts at a random offset; with
// two entries the order a,b has probability 7/8, so a few attempts suffice.)
const k8Wait = "notify:before-send|5|delete-channel:before-remove|2,notify:before-send|6|delete-channel:before-remove|2," +
	"delete-channel:before-remove|1|getmetadata:topic|9,delete-channel:before-remove|2|delete-channel:after-remove|1," +
	"getmetadata:topic|9|delete-channel:after-remove|2"

func runMixOnce(bin, scratch string) (file *Doc, restarted bool, seen Doc, note string, err error) {
	dir, err := os.MkdirTemp(scratch, "meta-")
	if err != nil {
		return nil, false, nil, "", err
	}
	defer os.RemoveAll(dir)
	d, err := startDaemon(bin, dir, "persist:after-rename:6", nil, false, "k8")
	if err != nil {
		return nil, false, nil, "", err
	}
	if _, ok := d.waitServing(); !ok {
		d.sigkill()
		return nil, false, nil, "", fmt.Errorf("k8: daemon did not start\n%s", d.tail())
	}
	// b/y is created BEFORE a/x, so that {a/x, b} has never been a live state
	for _, o := range []Op{{Kind: "ct", Topic: "a"}, {Kind: "ct", Topic: "b"}, {Kind: "cc", Topic: "b", Channel: "y"}, {Kind: "cc", Topic: "a", Channel: "x"}} {
		if st, err := doOp(d, o); err != nil || st != 200 {
			d.sigkill()
			return nil, false, nil, "", fmt.Errorf("k8: set-up request failed: %v %d", err, st)
		}
		if _, ok := d.waitIdle(); !ok {
			d.sigkill()
			return nil, false, nil, "", fmt.Errorf("k8: no idleness during set-up")
		}
	}
	h, _ := d.hits()
	if h["getmetadata:topic"] != 7 || h["notify:before-send"] != 4 || h["persist:after-rename"] != 5 {
		d.sigkill()
		return nil, false, nil, fmt.Sprintf("unexpected counters %v", h), nil
	}
	var wg sync.WaitGroup
	wg.Add(2)
	go func() { defer wg.Done(); doOp(d, Op{Kind: "dc", Topic: "a", Channel: "x"}) }()
	for i := 0; i < 40000; i++ {
		if h, err := d.hits(); err == nil && h["delete-channel:before-remove"] >= 1 {
			break
		}
		time.Sleep(250 * time.Microsecond)
	}
	go func() { defer wg.Done(); doOp(d, Op{Kind: "dc", Topic: "b", Channel: "y"}) }()
	if !d.waitExit(40 * time.Second) {
		d.sigkill()
		wg.Wait()
		return nil, false, nil, "kill point not reached", nil
	}
	wg.Wait()
	b, rerr := os.ReadFile(filepath.Join(dir, "nsqd.dat"))
	if rerr == nil {
		if doc, ok := parseDat(b); ok {
			file = &doc
		}
	}
	d2, err := startDaemon(bin, dir, "", nil, false, "k8r")
	if err != nil {
		return file, false, nil, "", err
	}
	seen, restarted = d2.waitServing()
	d2.sigkill()
	return file, restarted, seen, string(b), nil
}

func k8Listed() bool {
	b, err := os.ReadFile(filepath.Join(os.Getenv("VERIF_DIR"), "known_findings.json"))
	return err == nil && strings.Contains(string(b), "kf=K8")
}

func runMix(bin, scratch string, sc Scenario, o *lib.Out) (lib.Case, bool, error) {
	// every live state since the first start, in order
	passed := []Doc{
		{},
		{{Name: "a", Chans: []DChan{}}},
		{{Name: "a", Chans: []DChan{}}, {Name: "b", Chans: []DChan{}}},
		{{Name: "a", Chans: []DChan{}}, {Name: "b", Chans: []DChan{{"y", false}}}},
		{{Name: "a", Chans: []DChan{{"x", false}}}, {Name: "b", Chans: []DChan{{"y", false}}}},
		{{Name: "a", Chans: []DChan{}}, {Name: "b", Chans: []DChan{{"y", false}}}},
		{{Name: "a", Chans: []DChan{}}, {Name: "b", Chans: []DChan{}}},
	}
	var file *Doc
	var restarted bool
	var seen Doc
	var note string
	reproduced := false
	attempts := 0
	for attempts < 6 && !reproduced {
		attempts++
		f, r, sn, nt, err := runMixOnce(bin, scratch)
		if err != nil {
			return lib.Case{}, false, err
		}
		file, restarted, seen, note = f, r, sn, nt
		if f != nil {
			reproduced = true
			for _, p := range passed {
				if p.key() == f.key() {
					reproduced = false
				}
			}
		}
	}
	o.Stat("k8_mixed_document_reproduced", reproduced)
	o.Stat("k8_attempts", attempts)
	if file == nil {
		// inconclusive (the forced schedule did not run as planned): nothing to judge
		o.Stat("k8_inconclusive", note)
		return lib.Case{}, false, nil
	}
	ps := make([]string, len(passed))
	for i, p := range passed {
		ps[i] = coqDoc(p)
	}
	coq := fmt.Sprintf("(Mix %s %s %s %s)", lib.CoqList(ps), coqODoc(file), lib.CoqBool(restarted), coqDoc(seen))
	c := lib.Case{Name: sc.Name, Coq: coq, Input: sc, Tags: []string{"kind=mix", "kf=K8", fmt.Sprintf("k8_reproduced=%v", reproduced)}, Nontrivial: true,
		Obs: map[string]interface{}{"file": note, "restarted": restarted, "seen": seen, "attempts": attempts, "reproduced": reproduced,
			"schedule": "create a,b,b/y,a/x (idle after each); delete a/x and delete b/y concurrently; NSQ_VERIF_WAIT=" + k8Wait + "; NSQ_VERIF_KILL=persist:after-rename:6; restart"}}
	// a violating case is emitted only when the finding is listed (otherwise it is reported as a stat)
	return c, !reproduced || k8Listed(), nil
}

// ---------------------------------------------------------------- write fault in the metadata write protocol
// After the persists of the [pre] requests the daemon lowers its own RLIMIT_FSIZE (verif
// hook NSQ_VERIF_FSIZE, SIGXFSZ ignored): every later write of a temp metadata file is cut
// short and fails with EFBIG while fsync, close and rename still work.  The [post] requests
// run (idle after each), the daemon is SIGKILLed and restarted.  nsqd.dat must still be the
// complete document it was when the fault was armed, and the daemon must start on it.
var nFaultNotArmed int64

// fsizeLimit: the soft RLIMIT_FSIZE of a process as the kernel reports it (max uint64 = unlimited / unknown)
func fsizeLimit(pid int) uint64 {
	b, err := os.ReadFile(fmt.Sprintf("/proc/%d/limits", pid))
	if err != nil {
		return ^uint64(0)
	}
	for _, line := range strings.Split(string(b), "\n") {
		if strings.HasPrefix(line, "Max file size") {
			f := strings.Fields(strings.TrimPrefix(line, "Max file size"))
			if len(f) > 0 {
				if v, err := strconv.ParseUint(f[0], 10, 64); err == nil {
					return v
				}
			}
		}
	}
	return ^uint64(0)
}

func readDat(dir string) (*Doc, bool, string) {
	b, err := os.ReadFile(filepath.Join(dir, "nsqd.dat"))
	if err != nil {
		return nil, os.IsNotExist(err), ""
	}
	if doc, ok := parseDat(b); ok {
		return &doc, true, string(b)
	}
	return nil, false, string(b)
}

func runFault(bin, scratch string, sc Scenario) (lib.Case, bool, error) {
	dir, err := os.MkdirTemp(scratch, "meta-")
	if err != nil {
		return lib.Case{}, false, err
	}
	defer os.RemoveAll(dir)
	k := 1 + len(sc.Pre)
	tag := fmt.Sprintf("fs-%d-%d", k, sc.Limit)
	d, err := startDaemon(bin, dir, "", nil, false, tag)
	if err != nil {
		return lib.Case{}, false, err
	}
	if _, ok := d.waitServing(); !ok {
		d.sigkill()
		return lib.Case{}, false, fmt.Errorf("fault: daemon did not start\n%s", d.tail())
	}
	tags := []string{"kind=fault", fmt.Sprintf("fsize=%d", sc.Limit)}
	run := func(ops []Op, phase string) error {
		for _, o := range ops {
			st, err := doOp(d, o)
			if err != nil {
				return fmt.Errorf("fault: request failed: %v", err)
			}
			tags = append(tags, fmt.Sprintf("%s=%s/%d", phase, o.Kind, st))
			if _, ok := d.waitIdle(); !ok {
				return fmt.Errorf("fault: no idleness\n%s", d.tail())
			}
		}
		return nil
	}
	if err := run(sc.Pre, "pre"); err != nil {
		d.sigkill()
		return lib.Case{}, false, err
	}
	h, _ := d.hits()
	if h["persist:after-rename"] != k {
		d.sigkill()
		return lib.Case{}, false, nil // the arming point was not where it was planned: inconclusive
	}
	// the fault must really be armed (the hook may be missing in the tree under test)
	if fsizeLimit(d.nsqdPid()) != uint64(sc.Limit) {
		d.sigkill()
		atomic.AddInt64(&nFaultNotArmed, 1)
		return lib.Case{}, false, nil
	}
	before, _, _ := readDat(dir)
	if err := run(sc.Post, "post"); err != nil {
		d.sigkill()
		return lib.Case{}, false, err
	}
	h2, _ := d.hits()
	d.sigkill()
	after, afterOK, raw := readDat(dir)
	d2, err := startDaemon(bin, dir, "", nil, false, "fr")
	if err != nil {
		return lib.Case{}, false, err
	}
	seen, restarted := d2.waitServing()
	if !restarted {
		d2.waitExit(20 * time.Second)
	}
	logTail := ""
	if !restarted {
		logTail = lastN(d2.tail(), 400)
	}
	if d2.alive() {
		d2.sigkill()
	}
	var pre, post []string
	for _, o := range sc.Pre {
		pre = append(pre, opCoq(o))
	}
	for _, o := range sc.Post {
		post = append(post, opCoq(o))
	}
	coq := fmt.Sprintf("(Fault %s %s %s %s %s %s %s)", lib.CoqList(pre), lib.CoqList(post), coqODoc(before), lib.CoqBool(afterOK),
		coqODoc(after), lib.CoqBool(restarted), coqDoc(seen))
	failedWrites := h2["persist:after-tmp-write"] - h2["persist:after-rename"]
	tags = append(tags, fmt.Sprintf("restarted=%v", restarted))
	return lib.Case{Name: sc.Name, Coq: coq, Input: sc, Tags: tags, Nontrivial: failedWrites > 0,
		Obs: map[string]interface{}{"file_after_kill": raw, "file_ok": afterOK, "restarted": restarted, "restart_log": logTail,
			"persists_started_minus_renamed": failedWrites}}, true, nil
}

func runScenario(bin, scratch string, sc Scenario) (lib.Case, error) {
	switch sc.Kind {
	case "load":
		return runLoad(bin, scratch, sc)
	}
	return runChurn(bin, scratch, sc)
}

func main() {
	n := flag.Int("n", 60, "number of generated churn scenarios")
	nload := flag.Int("nload", 20, "number of generated load cases")
	nfault := flag.Int("nfault", 8, "number of generated write-fault cases")
	seed := flag.Uint64("seed", 1, "seed")
	out := flag.String("out", "", "output jsonl")
	replay := flag.String("replay", "", "replay file (inputs)")
	par := flag.Int("par", 6, "parallel scenarios")
	nforced := flag.Int("nforced", 12, "number of generated forced busy-lock schedules")
	stracePct := flag.Int("strace-pct", 15, "percentage of generated churn scenarios run under strace")
	flag.Parse()
	bin := filepath.Join(os.Getenv("VERIF_BIN_DIR"), "nsqd")
	if _, err := os.Stat(bin); err != nil {
		lib.Fatalf("nsqd binary not found at %s", bin)
	}
	scratch := os.Getenv("VERIF_SCRATCH")
	if scratch == "" {
		scratch = os.TempDir()
	}
	o := lib.NewOut(*out)
	defer o.Close()
	var scs []Scenario
	if *replay != "" {
		lib.ReadReplay(*replay, &scs)
		for i := range scs {
			if scs[i].Kind == "" {
				scs[i].Kind = "churn"
			}
		}
	} else {
		scs = fixedScenarios()
		r := lib.NewRand(*seed)
		for k := 0; k < *n; k++ {
			scs = append(scs, genChurn(r, k, r.Chance(*stracePct)))
		}
		for k := 0; k < *nload; k++ {
			scs = append(scs, genLoad(r, k))
		}
		for k := 0; k < *nfault; k++ {
			scs = append(scs, genFault(r, k))
		}
		for k := 0; k < *nforced; k++ {
			scs = append(scs, genForced(r, k))
		}
	}
	needed := 0
	for _, sc := range scs {
		if needsForcedHooks(sc) {
			needed++
		}
	}
	if needed > 0 && !forcedHooksPresent(bin, scratch) {
		var keep []Scenario
		for _, sc := range scs {
			if !needsForcedHooks(sc) {
				keep = append(keep, sc)
			}
		}
		scs = keep
		o.Stat("forced_busy_lock_scenarios_skipped_hooks_missing", needed)
	}
	sem := make(chan struct{}, *par)
	var wg sync.WaitGroup
	results := make([]lib.Case, len(scs))
	errs := make([]error, len(scs))
	skip := make([]bool, len(scs))
	for i := range scs {
		wg.Add(1)
		sem <- struct{}{}
		go func(i int) {
			defer wg.Done()
			defer func() { <-sem }()
			if scs[i].Kind == "fault" {
				var emit bool
				results[i], emit, errs[i] = runFault(bin, scratch, scs[i])
				skip[i] = !emit
				return
			}
			if scs[i].Kind == "lock" {
				var emit bool
				results[i], emit, errs[i] = runLock(bin, scratch, scs[i])
				skip[i] = !emit
				return
			}
			if scs[i].Kind == "mix" {
				var emit bool
				results[i], emit, errs[i] = runMix(bin, scratch, scs[i], o)
				skip[i] = !emit
				return
			}
			results[i], errs[i] = runScenario(bin, scratch, scs[i])
		}(i)
	}
	wg.Wait()
	for i, c := range results {
		if errs[i] != nil {
			lib.Fatalf("scenario %s: %v", scs[i].Name, errs[i])
		}
		if skip[i] {
			continue
		}
		o.Emit(c)
	}
	o.Stat("daemon_starts", atomic.LoadInt64(&nStarts))
	o.Stat("write_fault_cases_not_armed", atomic.LoadInt64(&nFaultNotArmed))
	o.Stat("lock_cases_inconclusive", atomic.LoadInt64(&nLockInconclusive))
	o.Stat("forced_schedule_waits_expired", atomic.LoadInt64(&nWaitExpired))
	o.Stat("kills", gstats.kills)
	o.Stat("idle_points", gstats.idles)
	o.Stat("directory_samples", gstats.samples)
	o.Stat("directory_samples_not_a_document", gstats.sampleBad)
	o.Stat("straced_cycles", gstats.straced)
	o.Stat("syscalls_on_metadata_files", gstats.syscalls)
}
