package main

// C15: boundary values of the two input checks every connection and request passes first -
// the 4-byte protocol magic and the topic / channel name rule (1..64 bytes IN TOTAL,
// [.a-zA-Z0-9_-]+ with an optional "#ephemeral" suffix that counts towards the 64).
// The names are offered as topic and as channel to REGISTER / UNREGISTER and to the five
// admin routes, next to the well-behaved connections; the magics as whole streams.

import (
	"encoding/base64"
	"fmt"
	"strings"

	"verifharness/lib"
)

const ephSuffix = "#ephemeral"

// plainName / ephName: a name of exactly n bytes in total, using every character class.
func plainName(n int) string {
	const cls = "x.Y_9-"
	var b strings.Builder
	for i := 0; i < n; i++ {
		if i%11 == 10 {
			b.WriteByte(cls[(i/11)%len(cls)])
		} else {
			b.WriteByte('x')
		}
	}
	return b.String()
}
func ephName(total int) string { return plainName(total-len(ephSuffix)) + ephSuffix }

// boundaryNames: lengths around the limit, without and with the suffix (the suffix is part
// of the length: 54 + 10 is the longest ephemeral name), around the suffix's own length, and
// the suffix in the wrong place / spelling.  Validity is NOT recorded here: the driver labels
// a case with isValidName (an independent statement of the rule), the model with
// Names.is_valid_name, and the judge's monitor checks the registry views by itself.
func boundaryNames() []string {
	l := []string{}
	for _, n := range []int{1, 2, 63, 64, 65, 66, 74, 75, 128, 200} {
		l = append(l, plainName(n))
	}
	for _, n := range []int{11, 12, 63, 64, 65, 66, 70, 73, 74, 75, 76, 138} {
		l = append(l, ephName(n))
	}
	return append(l, ephSuffix, plainName(54)+ephSuffix+ephSuffix, plainName(44)+ephSuffix+ephSuffix, plainName(54)+"#EPHEMERAL",
		plainName(55)+"#ephemera", plainName(54)+ephSuffix+"x", plainName(63)+"#", "#"+plainName(63))
}

func validBoundaryNames() (ok, bad []string) {
	for _, x := range boundaryNames() {
		if isValidName(x) {
			ok = append(ok, x)
		} else {
			bad = append(bad, x)
		}
	}
	return
}

var boundaryOK, boundaryBad = validBoundaryNames()

func nameClass(x string) string {
	k := "plain"
	if strings.HasSuffix(x, ephSuffix) {
		k = "ephemeral"
	}
	v := "invalid"
	if isValidName(x) {
		v = "valid"
	}
	return fmt.Sprintf("%s-%s-len%d", v, k, len(x))
}

var identH = `{"broadcast_address":"hb","hostname":"hb","tcp_port":4150,"http_port":4151,"version":"1.3.0"}`

// nameStream: a hostile producer identifies and sends one REGISTER / UNREGISTER with the
// name as topic or as channel, then a PING, then EOF.
func nameStream(verb, name string, asChannel bool) actIn {
	t, c := name, "c"
	expect := "E_BAD_TOPIC"
	if asChannel {
		t, c = "nt", name
		expect = "E_BAD_CHANNEL"
	}
	if isValidName(name) {
		expect = "OK"
	}
	b := append([]byte("  V1"), identifyBytes([]byte(identH))...)
	b = append(b, []byte(verb+" "+t+" "+c+"\nPING\n")...)
	role := "topic"
	if asChannel {
		role = "channel"
	}
	return actIn{K: "conn", Stream: base64.StdEncoding.EncodeToString(b), Expect: expect,
		Class: "name-boundary:" + verb + ":" + role + ":" + nameClass(name)}
}

func nameHTTP(path, name string, asChannel bool) actIn {
	a := actIn{K: "http", Method: "POST", Path: path, QN: sp("hb:4151")}
	if asChannel {
		a.QT, a.QC = sp("nt"), sp(name)
	} else {
		a.QT, a.QC = sp(name), sp("c")
	}
	return a
}

func bothSetup() []actIn {
	return []actIn{{K: "op", Op: &opIn{K: "identify", Info: &byInfo}}, {K: "op", Op: &opIn{K: "register", T: byTopic, C: byChan}},
		{K: "op", Op: &opIn{K: "register", T: byTopic, C: byEph}},
		{K: "vop", Op: &opIn{K: "identify", Slot: 1, Info: &nodePool[1]}},
		{K: "vop", Op: &opIn{K: "register", Slot: 1, T: visTopic, C: visChan}},
		{K: "vop", Op: &opIn{K: "register", Slot: 1, T: byTopic, C: byChan}}}
}

// nameBoundarySessions: every boundary name x {topic, channel} x {REGISTER, UNREGISTER, the
// five admin requests}, in sessions of a few names each (bystander and visitor connected).
func nameBoundarySessions(perSession int) []sessIn {
	var out []sessIn
	names := boundaryNames()
	for i := 0; i < len(names); i += perSession {
		j := i + perSession
		if j > len(names) {
			j = len(names)
		}
		acts := bothSetup()
		for _, x := range names[i:j] {
			acts = append(acts,
				nameStream("REGISTER", x, false), nameHTTP("/topic/create", x, false), nameHTTP("/topic/tombstone", x, false),
				nameStream("UNREGISTER", x, false), nameHTTP("/channel/create", x, false), nameHTTP("/channel/delete", x, false),
				nameHTTP("/topic/delete", x, false),
				nameStream("REGISTER", x, true), nameHTTP("/channel/create", x, true), nameStream("UNREGISTER", x, true),
				nameHTTP("/channel/delete", x, true), nameHTTP("/channel/create", x, true), nameHTTP("/topic/delete", x, true))
		}
		// the well-behaved connections use the longest valid names themselves and are still served
		acts = append(acts, actIn{K: "op", Op: &opIn{K: "register", T: plainName(64), C: ephName(64)}},
			actIn{K: "vop", Op: &opIn{K: "register", Slot: 1, T: ephName(64), C: plainName(64)}},
			actIn{K: "vop", Op: &opIn{K: "unregister", Slot: 1, T: ephName(64), C: plainName(64)}},
			actIn{K: "op", Op: &opIn{K: "ping"}}, actIn{K: "vop", Op: &opIn{K: "ping", Slot: 1}})
		out = append(out, sessIn{Profile: "hostile", Name: fmt.Sprintf("fixed-name-boundaries-%d", len(out)), Acts: acts})
	}
	return out
}

// ---- the protocol magic: everything but the four bytes "  V1" is answered E_BAD_PROTOCOL
// and closed; fewer than four bytes are closed silently; the daemon goes on serving.
var wrongMagics = []string{"  V2", "  V0", "V1  ", "  v1", " V1 ", "\x00\x00\x00\x00", "\xff\xff\xff\xff", "GET ", "POST", "\n\n\n\n",
	"  V\x00", "\x16\x03\x01\x02"} // ..., a TLS ClientHello

var magicTails = []string{"", "PING\n", "/ HTTP/1.1\r\nHost: x\r\n\r\n", "  V1PING\n"}

func wrongMagicStream(magic, tail string, withIdentify bool) actIn {
	b := []byte(magic + tail)
	if withIdentify {
		b = append(b, identifyBytes([]byte(identH))...)
		b = append(b, []byte("REGISTER "+byTopic+" "+byChan+"\nUNREGISTER "+byTopic+"\n")...)
	}
	a := actIn{K: "conn", Stream: base64.StdEncoding.EncodeToString(b), Expect: "E_BAD_PROTOCOL", Class: "wrong-magic"}
	if len(magic) < 4 && tail == "" && !withIdentify {
		a.Expect, a.Class = "NONE", "short-magic"
	}
	return a
}

func magicSession() sessIn {
	acts := bothSetup()
	for i, m := range wrongMagics {
		acts = append(acts, wrongMagicStream(m, magicTails[i%len(magicTails)], i%3 == 1))
		if i%4 == 3 {
			acts = append(acts, actIn{K: "op", Op: &opIn{K: "ping"}}, actIn{K: "http", Method: "GET", Path: "/nodes"})
		}
	}
	for k := 0; k < 4; k++ {
		acts = append(acts, wrongMagicStream("  V1"[:k], "", false))
	}
	acts = append(acts, actIn{K: "op", Op: &opIn{K: "ping"}}, actIn{K: "vop", Op: &opIn{K: "ping", Slot: 1}},
		actIn{K: "vop", Op: &opIn{K: "register", Slot: 1, T: byTopic, C: byEph}})
	return sessIn{Profile: "hostile", Name: "fixed-wrong-magic", Acts: acts}
}

// genMagicStream: a random stream that does not start with the magic.
func genMagicStream(r *lib.Rand) streamB {
	var s streamB
	m := wrongMagics[r.Intn(len(wrongMagics))]
	if r.Chance(30) {
		m = string(r.Bytes(4))
	}
	s.buf = []byte(m + magicTails[r.Intn(len(magicTails))])
	if r.Chance(40) {
		s.buf = append(s.buf, r.Bytes(r.Intn(60))...)
	}
	s.expect, s.class = "E_BAD_PROTOCOL", "wrong-magic"
	if string(s.buf[:4]) == "  V1" { // 2^-32
		s.expect, s.class = "", "random-bytes"
	}
	return s
}
