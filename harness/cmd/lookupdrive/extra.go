package main

// Fixed scenarios, the exhaustive small-scope enumeration and the concurrent profile.

import (
	"encoding/base64"
	"encoding/json"
	"fmt"
	"sort"
	"strings"
	"sync"
	"time"

	"verifharness/lib"
)

// ------------------------------------------------------------------ fixed histories
func fixedHistories() []histIn {
	a, b, c := nodePool[0], nodePool[1], nodePool[0] // c has the same node string as a
	id := func(s int, in infoIn) opIn { return opIn{K: "identify", Slot: s, Info: &in} }
	reg := func(s int, t, ch string) opIn { return opIn{K: "register", Slot: s, T: t, C: ch} }
	unreg := func(s int, t, ch string) opIn { return opIn{K: "unregister", Slot: s, T: t, C: ch} }
	tomb := func(t, node string) opIn { return opIn{K: "tombstone", QT: sp(t), QN: sp(node)} }
	adv := func(u int64) opIn { return opIn{K: "advance", Units: u} }
	mk := func(name string, cfg [3]int64, slots int, ops ...opIn) histIn {
		return histIn{Profile: "registry", Name: name, InactiveS: cfg[0], LifetimeS: cfg[1], UnitS: cfg[2], Slots: slots, Ops: ops}
	}
	def := [3]int64{300, 45, 7}
	return []histIn{
		// tombstone; REGISTER again does not clear it; UNREGISTER + REGISTER does; it lapses
		mk("fixed-tombstone-reregister", def, 2, id(0, a), id(1, b), reg(0, "t1", "c1"), reg(1, "t1", ""), tomb("t1", "h1:4151"),
			reg(0, "t1", "c1"), reg(0, "t1", ""), unreg(0, "t1", "c1"), unreg(0, "t1", ""), reg(0, "t1", ""),
			tomb("t1", "h2:4151"), adv(6), adv(1), tomb("t1", "h2:4151"), adv(6), tomb("t1", "h2:4151"), adv(6), adv(1)),
		// ephemeral keys: the last UNREGISTER removes the key, a disconnect does not
		mk("fixed-ephemeral", def, 2, id(0, a), id(1, b), reg(0, "eph#ephemeral", "ce#ephemeral"), reg(1, "eph#ephemeral", "ce#ephemeral"),
			unreg(0, "eph#ephemeral", "ce#ephemeral"), unreg(1, "eph#ephemeral", "ce#ephemeral"), unreg(0, "eph#ephemeral", ""),
			unreg(1, "eph#ephemeral", ""), reg(0, "eph#ephemeral", "ce#ephemeral"), opIn{K: "disconnect", Slot: 0},
			id(0, a), unreg(0, "eph#ephemeral", ""), unreg(0, "t2", "c2"), unreg(0, "eph#ephemeral", "ce#ephemeral")),
		// inactivity: crossing the threshold hides the node everywhere, PING revives it
		mk("fixed-inactive-ping", def, 2, id(0, a), id(1, b), reg(0, "t1", "c1"), reg(1, "t1", "c2"), adv(42), opIn{K: "ping", Slot: 1},
			adv(1), opIn{K: "ping", Slot: 0}, adv(42), adv(1), opIn{K: "ping", Slot: 0}, opIn{K: "ping", Slot: 1}),
		// admin deletions between registrations, the wildcard topic deletes everything
		mk("fixed-admin-deletes", def, 2, id(0, a), reg(0, "t1", "c1"), reg(0, "t2", "c1"), opIn{K: "delete_channel", QT: sp("t1"), QC: sp("c1")},
			opIn{K: "delete_channel", QT: sp("t1"), QC: sp("c1")}, reg(0, "t1", "c1"), opIn{K: "delete_topic", QT: sp("t1")}, reg(0, "t1", ""),
			opIn{K: "create_channel", QT: sp("t2"), QC: sp("c2")}, opIn{K: "create_topic", QT: sp("zz")}, opIn{K: "delete_topic", QT: sp("*")}, tomb("*", "h1:4151"),
			reg(0, "t2", "c2"), opIn{K: "create_topic", QT: sp("bad$")}, opIn{K: "create_topic"}, opIn{K: "delete_channel", QT: sp("t2"), QC: sp("*")}),
		// two connections with the same broadcast_address:http_port are tombstoned together
		mk("fixed-same-node", def, 3, id(0, a), id(1, c), id(2, b), reg(0, "t1", ""), reg(1, "t1", ""), reg(2, "t1", ""), reg(1, "t2", ""),
			tomb("t1", "h1:4151"), tomb("t2", "nope:1"), opIn{K: "disconnect", Slot: 0}, adv(7)),
		// keys that outlive their producers (H1 durable, H2 ephemeral + disconnect, H3 ephemeral channel + topic UNREGISTER),
		// and the one way an ephemeral key does leave (UNREGISTER naming it)
		mk("fixed-stale-keys", def, 3, id(0, a), reg(0, "t1", "c1"), opIn{K: "disconnect", Slot: 0},
			id(1, b), reg(1, "eph#ephemeral", "ce#ephemeral"), opIn{K: "disconnect", Slot: 1},
			id(2, a), reg(2, "t2", "ce#ephemeral"), unreg(2, "t2", ""), reg(2, "t2", "ce#ephemeral"), unreg(2, "t2", "ce#ephemeral")),
		// refused commands close the connection and drop its registrations
		mk("fixed-refusals", def, 2, id(0, a), reg(0, "t1", "c1"), reg(0, "bad$", ""), reg(0, "t1", ""), id(0, a), reg(0, "t1", "c1"),
			reg(0, "t1", "c$"), id(1, b), reg(1, "t1", ""), id(1, b), reg(1, "t1", ""), unreg(1, "", "c1"),
			id(0, infoIn{"h1", 4150, 4151, ""}), id(0, a), unreg(0, strings.Repeat("a", 65), "")),
	}
}

func fixedSessions() []sessIn {
	setup := []actIn{{K: "op", Op: &opIn{K: "identify", Info: &byInfo}}, {K: "op", Op: &opIn{K: "register", T: byTopic, C: byChan}}}
	conn := func(class, expect string, b []byte) actIn {
		return actIn{K: "conn", Stream: base64.StdEncoding.EncodeToString(b), Expect: expect, Class: class}
	}
	f2 := append([]byte("  V1IDENTIFY\n"), 0xff, 0xff, 0xff, 0xff)
	z := append([]byte("  V1IDENTIFY\n"), 0, 0, 0, 0)
	acts := append([]actIn{}, setup...)
	acts = append(acts,
		conn("identify-size-negative", "E_BAD_BODY", f2),
		conn("identify-size-0", "E_BAD_BODY", z),
		conn("identify-size-negative", "E_BAD_BODY", append([]byte("  V1IDENTIFY\n"), 0x80, 0, 0, 0)),
		actIn{K: "http", Method: "POST", Path: "/topic/delete"},
		actIn{K: "http", Method: "POST", Path: "/topic/delete", QT: sp("*")},
		actIn{K: "http", Method: "POST", Path: "/topic/tombstone", QT: sp("*"), QN: sp("bystander:4151")},
		actIn{K: "http", Method: "GET", Path: "/lookup", QT: sp(byTopic)},
	)
	// another connection registers and unregisters the #ephemeral channel the bystander holds
	visitor := func(tail string) []byte {
		b := append([]byte("  V1"), identifyBytes([]byte(`{"broadcast_address":"h9","tcp_port":4150,"http_port":4151,"version":"1.3.0"}`))...)
		return append(b, []byte("REGISTER "+byTopic+" "+byEph+"\n"+tail)...)
	}
	shared := append([]actIn{}, setup...)
	shared = append(shared,
		actIn{K: "op", Op: &opIn{K: "register", T: byTopic, C: byEph}},
		conn("shared-ephemeral-register-unregister", "OK", visitor("UNREGISTER "+byTopic+" "+byEph+"\n")),
		actIn{K: "http", Method: "GET", Path: "/channels", QT: sp(byTopic)},
		conn("shared-ephemeral-register-eof", "OK", visitor("")),
		conn("shared-ephemeral-register-unregister", "OK", visitor("UNREGISTER "+byTopic+" "+byEph+"\nUNREGISTER "+byTopic+" "+byEph+"\n")),
		actIn{K: "op", Op: &opIn{K: "ping"}})
	out := []sessIn{{Profile: "hostile", Name: "fixed-F2-identify-negative-size", Acts: acts},
		{Profile: "hostile", Name: "fixed-shared-ephemeral-channel", Acts: shared}}
	out = append(out, identitySessions()...)
	out = append(out, adminSessions()...)
	out = append(out, magicSession())
	return append(out, nameBoundarySessions(7)...)
}

// identitySessions: the matrix (identity member of the IDENTIFY body) x (live victim:
// the bystander, the visitor) x (what the connection does next), one stream per cell, with
// a bystander and a visitor connected and registered.  Whatever the body says, the
// connection's registry id is its socket address: nothing of the victims may change.
func identitySessions() []sessIn {
	var out []sessIn
	for vi, val := range []string{"@BY@", "@VIS@"} {
		acts := []actIn{{K: "op", Op: &opIn{K: "identify", Info: &byInfo}}, {K: "op", Op: &opIn{K: "register", T: byTopic, C: byChan}},
			{K: "op", Op: &opIn{K: "register", T: byTopic, C: byEph}},
			{K: "vop", Op: &opIn{K: "identify", Slot: 1, Info: &nodePool[1]}},
			{K: "vop", Op: &opIn{K: "register", Slot: 1, T: visTopic, C: visChan}},
			{K: "vop", Op: &opIn{K: "register", Slot: 1, T: byTopic, C: byChan}}}
		for ki, key := range identityKeys {
			tail := victimTails[(ki+vi*4)%len(victimTails)]
			expect := "OK"
			if tail == "" {
				expect = "JSON"
			}
			in := nodePool[ki%len(nodePool)]
			if ki%4 == 3 {
				in = byInfo
			}
			acts = append(acts, actIn{K: "conn", Expect: expect, Class: "identify-identity-member", IdTag: key + "=" + valKind(val),
				Segs: []segIn{rawSeg("  V1"), {Ident: identityBody(in, key, val, ki%3)}, rawSeg(tail)}})
			if ki%5 == 4 {
				acts = append(acts, actIn{K: "op", Op: &opIn{K: "ping"}}, actIn{K: "vop", Op: &opIn{K: "ping", Slot: 1}})
			}
		}
		// the visitor leaves and comes back claiming the bystander's identity itself
		acts = append(acts, actIn{K: "vop", Op: &opIn{K: "disconnect", Slot: 1}},
			actIn{K: "vop", Op: &opIn{K: "identify", Slot: 1, Info: &nodePool[0]}, Extra: [][2]string{{"remote_address", "@BY@"}}, IdTag: "remote_address=bystander-id"},
			actIn{K: "vop", Op: &opIn{K: "register", Slot: 1, T: byTopic, C: byChan}},
			actIn{K: "vop", Op: &opIn{K: "unregister", Slot: 1, T: byTopic, C: byChan}},
			actIn{K: "vop", Op: &opIn{K: "unregister", Slot: 1, T: byTopic}},
			actIn{K: "vop", Op: &opIn{K: "disconnect", Slot: 1}},
			actIn{K: "op", Op: &opIn{K: "ping"}})
		out = append(out, sessIn{Profile: "hostile", Name: fmt.Sprintf("fixed-identity-members-%d", vi), Acts: acts})
	}
	return out
}

// ------------------------------------------------------------------ fingerprint
// A canonical description of the registry state as far as future behaviour can depend on
// it: keys, (key, slot) pairs with the raw tombstone flag, and the ages (in units) of
// last_update and tombstoned_at.
func fingerprint(hc *httpc, obs obsAll, slots []*conn, unit time.Duration) string {
	slotOf := map[int]int{}
	for i, s := range slots {
		if s != nil {
			slotOf[s.peer] = i
		}
	}
	st, b := hc.do("GET", "/debug")
	now := time.Now().UnixNano()
	var d map[string][]struct {
		ID         string `json:"id"`
		Tombstoned bool   `json:"tombstoned"`
		LastUpdate int64  `json:"last_update"`
		TombAt     int64  `json:"tombstoned_at"`
	}
	if st != 200 || json.Unmarshal(b, &d) != nil {
		lib.Fatalf("/debug: status %d", st)
	}
	addrSlot := map[string]int{}
	for i, s := range slots {
		if s != nil {
			addrSlot[s.addr] = i
		}
	}
	var parts []string
	for key, ps := range d {
		for _, p := range ps {
			age := (now - p.LastUpdate + int64(unit)/2) / int64(unit)
			tage := int64(-1)
			if p.Tombstoned {
				tage = (now - p.TombAt + int64(unit)/2) / int64(unit)
			}
			parts = append(parts, fmt.Sprintf("%s@%d:%v:%d:%d", key, addrSlot[p.ID], p.Tombstoned, age, tage))
		}
	}
	sort.Strings(parts)
	return strings.Join(obs.topics, ",") + "|" + strings.Join(obs.channels[len(viewTopics)-1], ",") + "|" + strings.Join(parts, ";")
}

// ------------------------------------------------------------------ exhaustive
// Alphabet: 2 producers, 2 topics (one ephemeral), 2 channels (one ephemeral), the admin
// calls on them, tombstones for both nodes, two time steps (across the tombstone
// lifetime, across the inactivity timeout).  Breadth-first: every history of length d+1
// that extends a representative of every registry state reachable in d steps.
func exhaustiveAlphabet() []opIn {
	ts := []string{"t1", "eph#ephemeral"}
	cs := []string{"", "c1", "ce#ephemeral"}
	var al []opIn
	for s := 0; s < 2; s++ {
		in := nodePool[s]
		al = append(al, opIn{K: "identify", Slot: s, Info: &in}, opIn{K: "ping", Slot: s}, opIn{K: "disconnect", Slot: s})
		for _, t := range ts {
			for _, c := range cs {
				al = append(al, opIn{K: "register", Slot: s, T: t, C: c}, opIn{K: "unregister", Slot: s, T: t, C: c})
			}
		}
	}
	for _, t := range ts {
		al = append(al, opIn{K: "create_topic", QT: sp(t)}, opIn{K: "delete_topic", QT: sp(t)})
		for _, c := range cs[1:] {
			al = append(al, opIn{K: "create_channel", QT: sp(t), QC: sp(c)}, opIn{K: "delete_channel", QT: sp(t), QC: sp(c)})
		}
		for _, nd := range nodeStrings[:2] {
			al = append(al, opIn{K: "tombstone", QT: sp(t), QN: sp(nd)})
		}
	}
	al = append(al, opIn{K: "advance", Units: 7}, opIn{K: "advance", Units: 43})
	return al
}

func exhaustive(o *lib.Out, depth, maxCases, workers int) {
	al := exhaustiveAlphabet()
	frontier := [][]opIn{{}}
	seen := map[string]bool{}
	emitted, dropped := 0, 0
	completed := 0
	for d := 0; d < depth && len(frontier) > 0 && emitted < maxCases; d++ {
		type res struct {
			c  *lib.Case
			fp string
		}
		var exts [][]opIn
		for _, h := range frontier {
			for _, op := range al {
				e := append(append([]opIn{}, h...), op)
				exts = append(exts, e)
			}
		}
		if emitted+len(exts) > maxCases {
			exts = exts[:maxCases-emitted]
		} else {
			completed = d + 1
		}
		results := make([]res, len(exts))
		parallel(len(exts), workers, func(i int) {
			h := histIn{Profile: "registry", Name: fmt.Sprintf("exh-%d-%d", d+1, i), InactiveS: 300, LifetimeS: 45, UnitS: 7, Slots: 2, Ops: exts[i]}
			ro := &runOpts{lastObsOnly: true, slotInfo: true}
			for try := 0; try < 3; try++ {
				if cs, ok := runHistory(h, ro); ok && len(cs) == 1 {
					results[i] = res{&cs[0], ro.fingerprint}
					return
				}
			}
		})
		var next [][]opIn
		for i, r := range results {
			if r.c == nil {
				dropped++
				continue
			}
			r.c.Tags = append(r.c.Tags, fmt.Sprintf("exhaustive-depth=%d", d+1))
			o.Emit(*r.c)
			emitted++
			if !seen[r.fp] {
				seen[r.fp] = true
				next = append(next, exts[i])
			}
		}
		o.Stat(fmt.Sprintf("exhaustive_depth_%d_histories", d+1), len(exts))
		o.Stat(fmt.Sprintf("exhaustive_depth_%d_new_states", d+1), len(next))
		frontier = next
	}
	o.Stat("exhaustive_alphabet", len(al))
	o.Stat("exhaustive_complete_to_depth", completed)
	o.Stat("exhaustive_distinct_states", len(seen))
	o.Stat("exhaustive_dropped", dropped)
}

// ------------------------------------------------------------------ concurrent
// P producers register / unregister durable topics and channels concurrently (with a
// reader hammering /lookup and /nodes); names are durable, so the final registry does not
// depend on the interleaving and must equal the model run on the per-producer sequences
// one after the other.
func runConcurrent(sd uint64, k int) lib.Case {
	const P, K = 4, 40
	r := lib.NewRand(sd)
	l := startLookupd(300*time.Second, 45*time.Second)
	defer l.Exit()
	hc := newHTTP(l.RealHTTPAddr().String())
	defer hc.close()
	n := newNamer()
	pm := peerMap{}
	conns := make([]*conn, P)
	var steps []string
	for p := 0; p < P; p++ {
		c, err := dial(l.RealTCPAddr().String(), p, []byte("  V1"))
		if err != nil {
			lib.Fatalf("dial: %v", err)
		}
		defer c.c.Close()
		conns[p] = c
		pm[c.addr] = p
		in := nodePool[p%len(nodePool)]
		body, _ := json.Marshal(map[string]interface{}{"broadcast_address": in.Baddr, "tcp_port": in.TCP, "http_port": in.HTTP, "version": in.Version})
		f, _ := c.command(identifyBytes(body))
		steps = append(steps, fmt.Sprintf("(imkStep (IIdentify %d %s %s %s %s) %s None)", p, n.name(in.Baddr), lib.CoqZ(int64(in.TCP)),
			lib.CoqZ(int64(in.HTTP)), n.name(in.Version), coqOut(frameClass(f))))
	}
	type cmd struct{ verb, t, c string }
	seqs := make([][]cmd, P)
	for p := range seqs {
		for i := 0; i < K; i++ {
			verb := "REGISTER"
			if r.Chance(40) {
				verb = "UNREGISTER"
			}
			c := ""
			if r.Chance(60) {
				c = []string{"c1", "c2"}[r.Intn(2)]
			}
			seqs[p] = append(seqs[p], cmd{verb, []string{"t1", "t2"}[r.Intn(2)], c})
		}
	}
	outs := make([][]string, P)
	stop := make(chan struct{})
	var rd sync.WaitGroup
	rd.Add(1)
	go func() {
		defer rd.Done()
		h2 := newHTTP(l.RealHTTPAddr().String())
		defer h2.close()
		for {
			select {
			case <-stop:
				return
			default:
				h2.do("GET", "/lookup?topic=t1")
				h2.do("GET", "/nodes")
			}
		}
	}()
	var wg sync.WaitGroup
	for p := 0; p < P; p++ {
		wg.Add(1)
		go func(p int) {
			defer wg.Done()
			for _, c := range seqs[p] {
				line := c.verb + " " + c.t
				if c.c != "" {
					line += " " + c.c
				}
				f, _ := conns[p].command([]byte(line + "\n"))
				outs[p] = append(outs[p], frameClass(f))
			}
		}(p)
	}
	wg.Wait()
	close(stop)
	rd.Wait()
	for p := 0; p < P; p++ {
		for i, c := range seqs[p] {
			ctor := "IRegister"
			if c.verb == "UNREGISTER" {
				ctor = "IUnregister"
			}
			obs := "None"
			if p == P-1 && i == len(seqs[p])-1 {
				obs = "(Some " + fetchAll(hc, pm).coq(n) + ")"
			}
			steps = append(steps, fmt.Sprintf("(imkStep (%s %d %s %s) %s %s)", ctor, p, n.name(c.t), n.name(c.c), coqOut(outs[p][i]), obs))
		}
	}
	chans := n.names(validChans)
	body := fmt.Sprintf("(J14.imk %s %s %s %d %s %s)", n.table(), lib.CoqZ(300e9), lib.CoqZ(45e9), P, chans, lib.CoqList(steps))
	return lib.Case{Name: fmt.Sprintf("concurrent-%d", k), Coq: body, Input: map[string]interface{}{"profile": "concurrent", "seed": sd, "k": k},
		Tags: []string{"profile=concurrent"}, Nontrivial: true}
}
