// lookupdrive: correspondence driver for C14 (nsqlookupd registry answers) and C15
// (nsqlookupd survives arbitrary input).
//
//	-profile registry    C14: seeded histories against an in-process nsqlookupd (verif hook
//	                     VerifShiftClock makes time pass), all HTTP views after every step
//	-profile exhaustive  C14 thorough: breadth-first enumeration of every history over a
//	                     small alphabet, modulo registry states already reached
//	-profile concurrent  C14 thorough: producers registering concurrently, final views
//	-profile hostile     C15: sessions against an nsqlookupd subprocess with a bystander
package main

import (
	"encoding/json"
	"flag"
	"sync"

	"verifharness/lib"
)

func main() {
	n := flag.Int("n", 40, "number of generated histories / sessions")
	seed := flag.Uint64("seed", 1, "seed")
	out := flag.String("out", "", "output jsonl")
	replay := flag.String("replay", "", "replay file")
	profile := flag.String("profile", "registry", "registry | exhaustive | concurrent | hostile | httpmatrix")
	depth := flag.Int("depth", 3, "exhaustive: maximal history length")
	maxCases := flag.Int("max-cases", 4000, "exhaustive: case budget")
	workers := flag.Int("workers", 6, "parallel histories / sessions")
	flag.Parse()
	o := lib.NewOut(*out)
	defer o.Close()

	if *replay != "" {
		var raws []json.RawMessage
		lib.ReadReplay(*replay, &raws)
		for _, raw := range raws {
			var head struct {
				Profile string `json:"profile"`
			}
			json.Unmarshal(raw, &head)
			switch head.Profile {
			case "hostile":
				var s sessIn
				if err := json.Unmarshal(raw, &s); err != nil {
					lib.Fatalf("replay input: %v", err)
				}
				o.Emit(runSession(s))
			case "concurrent":
				var c struct {
					Seed uint64 `json:"seed"`
					K    int    `json:"k"`
				}
				json.Unmarshal(raw, &c)
				o.Emit(runConcurrent(c.Seed, c.K))
			default:
				var h histIn
				if err := json.Unmarshal(raw, &h); err != nil {
					lib.Fatalf("replay input: %v", err)
				}
				for try := 0; try < 5; try++ {
					if cs, ok := runHistory(h, nil); ok {
						for _, c := range cs {
							o.Emit(c)
						}
						break
					}
				}
			}
		}
		return
	}

	r := lib.NewRand(*seed)
	switch *profile {
	case "registry":
		hs := fixedHistories()
		for k := 0; k < *n; k++ {
			hs = append(hs, genHistory(r.Fork(), k))
		}
		results := make([][]lib.Case, len(hs))
		parallel(len(hs), *workers, func(i int) {
			if cs, ok := runHistory(hs[i], nil); ok {
				results[i] = cs
			}
		})
		dropped, steps := 0, 0
		for i, cs := range results {
			if cs == nil {
				dropped++
				continue
			}
			steps += len(hs[i].Ops)
			for _, c := range cs {
				o.Emit(c)
			}
		}
		o.Stat("steps_with_all_views_compared", steps)
		o.Stat("histories_dropped_real_time_guard", dropped)
		o.Stat("histories", len(hs))
	case "hostile":
		ss := fixedSessions()
		for k := 0; k < *n; k++ {
			ss = append(ss, genSession(r.Fork(), k))
		}
		results := make([]lib.Case, len(ss))
		parallel(len(ss), *workers, func(i int) { results[i] = runSession(ss[i]) })
		for _, c := range results {
			o.Emit(c)
		}
		o.Stat("sessions", len(ss))
	case "none":
		// nothing (a tier that does not use this driver slot)
	case "httpmatrix":
		ss := genMatrix(24)
		results := make([]lib.Case, len(ss))
		parallel(len(ss), *workers, func(i int) { results[i] = runSession(ss[i]) })
		reqs := 0
		for i, c := range results {
			o.Emit(c)
			reqs += len(ss[i].Acts)
		}
		o.Stat("matrix_sessions", len(ss))
		o.Stat("matrix_actions", reqs)
	case "exhaustive":
		exhaustive(o, *depth, *maxCases, *workers)
	case "concurrent":
		for k := 0; k < *n; k++ {
			o.Emit(runConcurrent(r.U64(), k))
		}
	default:
		lib.Fatalf("unknown profile %q", *profile)
	}
}

func parallel(n, workers int, f func(i int)) {
	if workers < 1 {
		workers = 1
	}
	sem := make(chan struct{}, workers)
	var wg sync.WaitGroup
	for i := 0; i < n; i++ {
		wg.Add(1)
		sem <- struct{}{}
		go func(i int) {
			defer wg.Done()
			defer func() { <-sem }()
			f(i)
		}(i)
	}
	wg.Wait()
}
