package main

// Profile "registry" (C14): histories of nsqd connections and admin calls against a real
// in-process nsqlookupd; after every operation all HTTP views are fetched.

import (
	"encoding/json"
	"fmt"
	"io"
	"log"
	"net/url"
	"os"
	"strings"
	"sync/atomic"
	"time"

	"github.com/nsqio/nsq/nsqlookupd"
	"verifharness/lib"
)

type infoIn struct {
	Baddr   string `json:"baddr"`
	TCP     int    `json:"tcp"`
	HTTP    int    `json:"http"`
	Version string `json:"version"`
}

type opIn struct {
	K     string  `json:"k"`
	Slot  int     `json:"slot,omitempty"`
	T     string  `json:"t,omitempty"`
	C     string  `json:"c,omitempty"`
	Info  *infoIn `json:"info,omitempty"`
	Units int64   `json:"units,omitempty"`
	QT    *string `json:"qt,omitempty"` // HTTP arguments (nil = absent)
	QC    *string `json:"qc,omitempty"`
	QN    *string `json:"qn,omitempty"`
}

type histIn struct {
	Profile   string `json:"profile"`
	Name      string `json:"name"`
	InactiveS int64  `json:"inactive_s"`
	LifetimeS int64  `json:"lifetime_s"`
	UnitS     int64  `json:"unit_s"`
	Slots     int    `json:"slots"`
	Ops       []opIn `json:"ops"`
}

var (
	validTopics  = []string{"t1", "t2", "eph#ephemeral"}
	viewTopics   = []string{"t1", "t2", "eph#ephemeral", "zz", "*"}
	validChans   = []string{"c1", "c2", "ce#ephemeral"}
	badNames     = []string{"bad$", "*", strings.Repeat("a", 65), "#ephemeral", "x#ephemeral#ephemeral", "t:1"}
	nodePool     = []infoIn{{"h1", 4150, 4151, "1.3.0"}, {"h2", 4150, 4151, "1.3.0"}, {"h1", 4150, 4152, "1.2.1"}}
	nodeStrings  = []string{"h1:4151", "h2:4151", "h1:4152"}
	timeConfigs  = [][3]int64{{300, 45, 7}, {300, 45, 7}, {25, 45, 10}, {65, 5, 10}, {3605, 15, 10}, {300, 0, 7}}
	guardSeconds = 2.0
	windowSteps  = 3
)

func sp(s string) *string { return &s }

func genHistory(r *lib.Rand, k int) histIn {
	cfg := timeConfigs[r.Intn(len(timeConfigs))]
	h := histIn{Profile: "registry", Name: fmt.Sprintf("hist-%d", k), InactiveS: cfg[0], LifetimeS: cfg[1], UnitS: cfg[2], Slots: 1 + r.Intn(4)}
	n := 8 + r.Intn(25)
	ident := make([]bool, h.Slots)
	ceil := func(a, b int64) int64 { return (a + b - 1) / b }
	steps := []int64{1, 1, 2, ceil(cfg[1], cfg[2]) - 1, ceil(cfg[1], cfg[2]), ceil(cfg[0], cfg[2]) - 1, ceil(cfg[0], cfg[2]), ceil(cfg[0], cfg[2]) + 3}
	topic := func() string {
		if r.Chance(4) {
			return badNames[r.Intn(len(badNames))]
		}
		return validTopics[r.Intn(len(validTopics))]
	}
	channel := func() string {
		if r.Chance(45) {
			return ""
		}
		if r.Chance(4) {
			return badNames[r.Intn(len(badNames))]
		}
		return validChans[r.Intn(len(validChans))]
	}
	for i := 0; i < n; i++ {
		s := r.Intn(h.Slots)
		w := r.Intn(100)
		var o opIn
		switch {
		case !ident[s] && w < 55:
			in := nodePool[r.Intn(len(nodePool))]
			if r.Chance(6) {
				switch r.Intn(4) {
				case 0:
					in.Baddr = ""
				case 1:
					in.TCP = 0
				case 2:
					in.HTTP = 0
				default:
					in.Version = ""
				}
			} else {
				ident[s] = true
			}
			o = opIn{K: "identify", Slot: s, Info: &in}
		case w < 32:
			o = opIn{K: "register", Slot: s, T: topic(), C: channel()}
		case w < 48:
			o = opIn{K: "unregister", Slot: s, T: topic(), C: channel()}
		case w < 55:
			o = opIn{K: "ping", Slot: s}
		case w < 57:
			in := nodePool[r.Intn(len(nodePool))]
			o = opIn{K: "identify", Slot: s, Info: &in}
			ident[s] = !ident[s] // a second IDENTIFY is refused and the connection closed
		case w < 62:
			o = opIn{K: "disconnect", Slot: s}
			ident[s] = false
		case w < 65:
			o = opIn{K: "create_topic", QT: sp(topic())}
		case w < 69:
			t := topic()
			if r.Chance(8) {
				t = "*"
			}
			o = opIn{K: "delete_topic", QT: sp(t)}
		case w < 72:
			c := channel()
			if c == "" {
				c = validChans[r.Intn(len(validChans))]
			}
			o = opIn{K: "create_channel", QT: sp(topic()), QC: sp(c)}
		case w < 76:
			c := channel()
			if c == "" {
				c = validChans[r.Intn(len(validChans))]
			}
			o = opIn{K: "delete_channel", QT: sp(topic()), QC: sp(c)}
		case w < 87:
			node := nodeStrings[r.Intn(len(nodeStrings))]
			if r.Chance(8) {
				node = "nope:1"
			}
			tt := validTopics[r.Intn(len(validTopics))]
			if r.Chance(7) { // refused since the fix of F14: the wildcard / an invalid topic name
				tt = []string{"*", "*", "bad$", ""}[r.Intn(4)]
			}
			o = opIn{K: "tombstone", QT: sp(tt), QN: sp(node)}
			if r.Chance(3) {
				o.QN = nil
			}
		default:
			o = opIn{K: "advance", Units: steps[r.Intn(len(steps))]}
			if o.Units < 1 {
				o.Units = 1
			}
		}
		if (o.K == "register" || o.K == "unregister") && (o.T == "" || !isValidName(o.T) || (o.C != "" && !isValidName(o.C))) {
			ident[s] = false
		}
		if strings.HasPrefix(o.K, "create_") || strings.HasPrefix(o.K, "delete_") || o.K == "tombstone" {
			if r.Chance(4) {
				o.QT = nil
			}
		}
		h.Ops = append(h.Ops, o)
	}
	return h
}

func isValidName(s string) bool {
	if len(s) < 1 || len(s) > 64 {
		return false
	}
	base := strings.TrimSuffix(s, "#ephemeral")
	if base == "" {
		return false
	}
	for _, c := range []byte(base) {
		ok := c == '.' || c == '_' || c == '-' || (c >= 'a' && c <= 'z') || (c >= 'A' && c <= 'Z') || (c >= '0' && c <= '9')
		if !ok {
			return false
		}
	}
	return true
}

// loopbackHost: every daemon of a run listens on its own 127.x.y.z address (the whole
// 127/8 is loopback), so that the TIME_WAIT sockets left by tens of thousands of short
// histories never exhaust one address's port space ("bind: address already in use").
var hostCounter uint32

func loopbackHost() string {
	c := atomic.AddUint32(&hostCounter, 1)
	return fmt.Sprintf("127.%d.%d.%d", 1+os.Getpid()%250, (c/250)%250, 1+c%250)
}

func startLookupd(inactive, lifetime time.Duration) *nsqlookupd.NSQLookupd {
	var lastErr error
	for try := 0; try < 20; try++ {
		host := loopbackHost()
		opts := nsqlookupd.NewOptions()
		opts.Logger = log.New(io.Discard, "", 0)
		opts.LogLevel = 4
		opts.TCPAddress = host + ":0"
		opts.HTTPAddress = host + ":0"
		opts.BroadcastAddress = host
		opts.InactiveProducerTimeout = inactive
		opts.TombstoneLifetime = lifetime
		l, err := nsqlookupd.New(opts)
		if err == nil {
			go func() { _ = l.Main() }()
			return l
		}
		lastErr = err
		time.Sleep(time.Duration(50*(try+1)) * time.Millisecond)
	}
	lib.Fatalf("nsqlookupd.New: %v", lastErr)
	return nil
}

func coqQuery(n *namer, t, c, node *string) string {
	opt := func(s *string) string {
		if s == nil {
			return "None"
		}
		return "(Some " + n.name(*s) + ")"
	}
	return fmt.Sprintf("(IQArgs %s %s %s)", opt(t), opt(c), opt(node))
}

func queryString(t, c, node *string) string {
	v := url.Values{}
	if t != nil {
		v.Set("topic", *t)
	}
	if c != nil {
		v.Set("channel", *c)
	}
	if node != nil {
		v.Set("node", *node)
	}
	if len(v) == 0 {
		return ""
	}
	return "?" + v.Encode()
}

type obsAll struct {
	topics   []string
	lookups  []lookupObs
	channels [][]string
	nodes    []nodeObs
	debug    []debugObs
}

func fetchAll(h *httpc, pm peerMap) obsAll {
	var o obsAll
	o.topics = h.topics()
	for _, t := range viewTopics {
		o.lookups = append(o.lookups, h.lookup(t, pm))
		o.channels = append(o.channels, h.channels(t))
	}
	o.nodes = h.nodes(pm)
	o.debug = h.debug(pm)
	return o
}

func (o obsAll) coq(n *namer) string {
	var lk, ch, nd []string
	for i, t := range viewTopics {
		lk = append(lk, fmt.Sprintf("(%s, %s)", n.name(t), n.coqLookup(o.lookups[i])))
		ch = append(ch, fmt.Sprintf("(%s, %s)", n.name(t), n.names(o.channels[i])))
	}
	for _, e := range o.nodes {
		var ts []string
		for i, t := range e.Topics {
			ts = append(ts, fmt.Sprintf("(%s, %s)", n.name(t), lib.CoqBool(e.Tombs[i])))
		}
		nd = append(nd, fmt.Sprintf("(%d, %s)", e.Peer, lib.CoqList(ts)))
	}
	return fmt.Sprintf("(imkObs %s %s %s %s %s)", n.names(o.topics), lib.CoqList(lk), lib.CoqList(ch), lib.CoqList(nd), n.coqDebug(o.debug))
}

// phenomena seen in a view, for the input-distribution table
func (o obsAll) phenomena(tags map[string]bool) {
	listed := map[string]map[int]bool{}
	for i, t := range viewTopics {
		listed[t] = map[int]bool{}
		for _, p := range o.lookups[i].Producers {
			listed[t][p] = true
		}
	}
	inNodes := map[int]bool{}
	for _, e := range o.nodes {
		inNodes[e.Peer] = true
	}
	for _, d := range o.debug {
		if d.Cat == "client" && !inNodes[d.Peer] {
			tags["seen=inactive-node-hidden"] = true
		}
		if d.Cat == "topic" {
			if d.Tomb && !listed[d.Key][d.Peer] && inNodes[d.Peer] {
				tags["seen=tombstone-hides-producer"] = true
			}
			if d.Tomb && listed[d.Key][d.Peer] {
				tags["seen=tombstone-lapsed"] = true
			}
		}
	}
	keyHasProducer := map[string]bool{}
	for _, d := range o.debug {
		if d.Cat == "topic" {
			keyHasProducer[d.Key] = true
		}
	}
	for _, t := range o.topics {
		if !keyHasProducer[t] {
			tags["seen=topic-key-without-producer"] = true
		}
	}
}

// runHistory drives one history; ok=false when the real-time guard was exceeded (the
// history is then not a valid observation of the explicit-time model and is dropped).
type runOpts struct {
	lastObsOnly bool   // record the views after the last operation only
	fingerprint string // out: canonical description of the registry state reached
	slotInfo    bool   // in: compute the fingerprint
}

func runHistory(h histIn, ro *runOpts) ([]lib.Case, bool) {
	unit := time.Duration(h.UnitS) * time.Second
	l := startLookupd(time.Duration(h.InactiveS)*time.Second, time.Duration(h.LifetimeS)*time.Second)
	defer l.Exit()
	hc := newHTTP(l.RealHTTPAddr().String())
	defer hc.close()
	tcpAddr := l.RealTCPAddr().String()
	slots := make([]*conn, h.Slots)
	defer func() {
		for _, s := range slots {
			if s != nil {
				s.c.Close()
			}
		}
	}()
	pm := peerMap{}
	next := 0
	n := newNamer()
	tags := map[string]bool{fmt.Sprintf("cfg=inactive%ds/tombstone%ds", h.InactiveS, h.LifetimeS): true,
		fmt.Sprintf("slots=%d", h.Slots): true}
	tagc := map[string]int{}
	type stepRec struct{ op, out, obs string }
	var steps []stepRec
	start := time.Now()
	registeredOK := false
	for oi, o := range h.Ops {
		var opCoq, outCoq, outcome string
		slotConn := func() *conn {
			if o.Slot < 0 || o.Slot >= len(slots) {
				lib.Fatalf("slot %d out of range", o.Slot)
			}
			if slots[o.Slot] == nil {
				c, err := dial(tcpAddr, next, []byte("  V1"))
				if err != nil {
					lib.Fatalf("dial: %v", err)
				}
				pm[c.addr] = next
				next++
				slots[o.Slot] = c
			}
			return slots[o.Slot]
		}
		tcp := func(data []byte) (int, string) {
			c := slotConn()
			f, closed := c.command(data)
			if closed {
				slots[o.Slot] = nil
			}
			if f == nil {
				return c.peer, "NOANSWER"
			}
			return c.peer, frameClass(f)
		}
		switch o.K {
		case "identify":
			body, _ := json.Marshal(map[string]interface{}{"broadcast_address": o.Info.Baddr, "hostname": o.Info.Baddr,
				"tcp_port": o.Info.TCP, "http_port": o.Info.HTTP, "version": o.Info.Version})
			p, cl := tcp(identifyBytes(body))
			opCoq = fmt.Sprintf("(IIdentify %d %s %s %s %s)", p, n.name(o.Info.Baddr), lib.CoqZ(int64(o.Info.TCP)), lib.CoqZ(int64(o.Info.HTTP)), n.name(o.Info.Version))
			outCoq, outcome = coqOut(cl), cl
		case "register", "unregister":
			line := strings.ToUpper(o.K) + " " + o.T
			if o.C != "" {
				line += " " + o.C
			}
			p, cl := tcp([]byte(line + "\n"))
			ctor := "IRegister"
			if o.K == "unregister" {
				ctor = "IUnregister"
			}
			opCoq = fmt.Sprintf("(%s %d %s %s)", ctor, p, n.name(o.T), n.name(o.C))
			outCoq, outcome = coqOut(cl), cl
			if o.K == "register" && cl == "OK" {
				registeredOK = true
			}
		case "ping":
			p, cl := tcp([]byte("PING\n"))
			opCoq = fmt.Sprintf("(IPing %d)", p)
			outCoq, outcome = coqOut(cl), cl
		case "disconnect":
			c := slotConn()
			c.closeWait()
			slots[o.Slot] = nil
			opCoq, outCoq, outcome = fmt.Sprintf("(IDisconnect %d)", c.peer), "ONone", "closed"
		case "create_topic", "delete_topic", "create_channel", "delete_channel", "tombstone":
			path := map[string]string{"create_topic": "/topic/create", "delete_topic": "/topic/delete", "create_channel": "/channel/create",
				"delete_channel": "/channel/delete", "tombstone": "/topic/tombstone"}[o.K]
			ctor := map[string]string{"create_topic": "IHCreateTopic", "delete_topic": "IHDeleteTopic", "create_channel": "IHCreateChannel",
				"delete_channel": "IHDeleteChannel", "tombstone": "IHTombstone"}[o.K]
			st, _ := hc.do("POST", path+queryString(o.QT, o.QC, o.QN))
			opCoq = fmt.Sprintf("(%s %s)", ctor, coqQuery(n, o.QT, o.QC, o.QN))
			outCoq, outcome = fmt.Sprintf("(OStatus %d)", st), fmt.Sprintf("%d", st)
		case "advance":
			d := time.Duration(o.Units) * unit
			l.VerifShiftClock(d)
			opCoq, outCoq, outcome = fmt.Sprintf("(IAdvance %s)", lib.CoqZ(int64(d))), "ONone", "ok"
		default:
			lib.Fatalf("unknown op kind %q", o.K)
		}
		tagc["op="+o.K+":"+outcome]++
		if ro != nil && ro.lastObsOnly && oi != len(h.Ops)-1 {
			steps = append(steps, stepRec{opCoq, outCoq, ""})
			continue
		}
		obs := fetchAll(hc, pm)
		obs.phenomena(tags)
		steps = append(steps, stepRec{opCoq, outCoq, obs.coq(n)})
		if ro != nil && ro.slotInfo && oi == len(h.Ops)-1 {
			ro.fingerprint = fingerprint(hc, obs, slots, time.Duration(h.UnitS)*time.Second)
		}
	}
	elapsed := time.Since(start).Seconds()
	if elapsed > guardSeconds {
		return nil, false
	}
	var tl []string
	for t := range tags {
		tl = append(tl, t)
	}
	for t, c := range tagc {
		for i := 0; i < c; i++ {
			tl = append(tl, t)
		}
	}
	// One case per window of consecutive steps: the operations before the window are
	// replayed by the judge without views (small terms elaborate much faster than one
	// large term, and the windows are judged in parallel).
	window := windowSteps
	if ro != nil && ro.lastObsOnly {
		window = len(steps)
	}
	var cases []lib.Case
	for lo := 0; lo < len(steps); lo += window {
		hi := lo + window
		if hi > len(steps) {
			hi = len(steps)
		}
		var parts []string
		for i := 0; i < hi; i++ {
			if i < lo || steps[i].obs == "" {
				parts = append(parts, fmt.Sprintf("(imkStep %s %s None)", steps[i].op, steps[i].out))
			} else {
				parts = append(parts, fmt.Sprintf("(imkStep %s %s (Some %s))", steps[i].op, steps[i].out, steps[i].obs))
			}
		}
		chans := n.names(validChans)
		body := fmt.Sprintf("(J14.imk %s %s %s %d %s %s)", n.table(), lib.CoqZ(h.InactiveS*1e9), lib.CoqZ(h.LifetimeS*1e9), next, chans, lib.CoqList(parts))
		name := h.Name
		ctags := []string{}
		if lo == 0 {
			ctags = tl // the history's tags are counted once
		} else {
			name = fmt.Sprintf("%s@%d", h.Name, lo)
		}
		cases = append(cases, lib.Case{Name: name, Coq: body, Input: h, Tags: ctags, Nontrivial: registeredOK,
			Obs: map[string]interface{}{"ops": len(h.Ops), "steps_with_views": fmt.Sprintf("%d..%d", lo, hi-1), "connections": next, "elapsed_s": elapsed}})
	}
	return cases, true
}
