package main

// Profile "hostile" (C15): sessions against a real nsqlookupd SUBPROCESS.  A well-behaved
// bystander producer stays connected; hostile TCP streams (each followed by EOF) and HTTP
// requests are sent one after the other; after every action liveness, the raw answer and
// the views are recorded.

import (
	"bufio"
	"encoding/base64"
	"encoding/binary"
	"encoding/json"
	"fmt"
	"io"
	"net"
	"os"
	"os/exec"
	"path/filepath"
	"regexp"
	"strings"
	"syscall"
	"time"

	"github.com/nsqio/nsq/nsqlookupd"
	"verifharness/lib"
)

type actIn struct {
	K      string  `json:"k"` // conn | http | op
	Stream string  `json:"stream_b64,omitempty"`
	Expect string  `json:"expect,omitempty"` // frame class the stream was built to provoke last ("" = unlabelled, "NONE" = no frame)
	Class  string  `json:"class,omitempty"`  // generator's label of the stream, for the distribution table
	Method string  `json:"method,omitempty"`
	Path   string  `json:"path,omitempty"`
	RawQ   string  `json:"raw_query,omitempty"` // a query string that does not parse
	QT     *string `json:"qt,omitempty"`
	QC     *string `json:"qc,omitempty"`
	QN     *string `json:"qn,omitempty"`
	Op     *opIn   `json:"op,omitempty"` // bystander command (k = op) or a visitor's command (k = vop, Op.Slot >= 1)
	// a stream given as segments whose IDENTIFY bodies name LIVE identities (the addresses
	// are only known at run time); when present it replaces Stream
	Segs  []segIn     `json:"segs,omitempty"`
	Extra [][2]string `json:"extra,omitempty"`  // vop identify: extra JSON members (key, value template) of the body
	IdTag string      `json:"id_tag,omitempty"` // key=value-kind label of the identity member, for the distribution table
}

// segIn: literal bytes, or one IDENTIFY command whose JSON body is a template.  The
// placeholders are replaced when the stream is sent: @BY@ = the bystander's remote address
// as nsqlookupd sees it (its registry id, public through /nodes, /lookup and /debug),
// @VIS@ = the same of the visitor connection (of the bystander when there is none),
// @SELF@ = of the connection the stream is sent on, @GONE@ = of the last hostile connection
// that was closed.
type segIn struct {
	Raw   string `json:"raw_b64,omitempty"`
	Ident string `json:"ident,omitempty"`
}

type liveAddrs struct{ by, vis, self, gone string }

func (l liveAddrs) subst(t string) string {
	return strings.NewReplacer("@BY@", l.by, "@VIS@", l.vis, "@SELF@", l.self, "@GONE@", l.gone).Replace(t)
}

func buildStream(a actIn, l liveAddrs) []byte {
	if len(a.Segs) == 0 {
		b, _ := base64.StdEncoding.DecodeString(a.Stream)
		return b
	}
	var out []byte
	for _, sg := range a.Segs {
		if sg.Ident != "" {
			out = append(out, identifyBytes([]byte(l.subst(sg.Ident)))...)
			continue
		}
		b, _ := base64.StdEncoding.DecodeString(sg.Raw)
		out = append(out, b...)
	}
	return out
}

func rawSeg(s string) segIn { return segIn{Raw: base64.StdEncoding.EncodeToString([]byte(s))} }

type sessIn struct {
	Profile string  `json:"profile"`
	Name    string  `json:"name"`
	Acts    []actIn `json:"acts"`
}

const byTopic = "by"
const byChan = "ch"
const byEph = "bce#ephemeral" // an ephemeral channel the bystander shares with hostile connections
const visTopic = "vt"         // the visitor's own topic / channel (it also registers on the bystander's)
const visChan = "vc"

var byInfo = infoIn{"bystander", 4150, 4151, "1.3.0"}

// ------------------------------------------------------------------ stream construction
type streamB struct {
	buf    []byte
	expect string
	class  string
	segs   []segIn // set instead of buf by the classes that name live identities
	idTag  string
}

// ---- IDENTIFY bodies with members that collide with the identity nsqlookupd keeps for a
// connection.  PeerInfo has the unexported id / lastUpdate and the exported RemoteAddress
// (json "remote_address"), all of which the daemon must take from the socket, never from
// the body: the id is the key of every registration of the connection, of UNREGISTER and of
// the disconnect clean-up.  encoding/json matches keys case-insensitively.
var identityKeys = []string{"remote_address", "REMOTE_ADDRESS", "Remote_Address", "RemoteAddress", "remoteaddress",
	"id", "ID", "Id", "peer_id", "lastUpdate", "last_update", "LastUpdate", "hostname", "topology_zone"}
var identityVals = []string{"@BY@", "@VIS@", "@SELF@", "@GONE@", "", "x:1", "bystander:4151"}

func valKind(v string) string {
	switch v {
	case "@BY@":
		return "bystander-id"
	case "@VIS@":
		return "visitor-id"
	case "@SELF@":
		return "own-id"
	case "@GONE@":
		return "closed-id"
	case "":
		return "empty"
	}
	return "other"
}

// identityBody: a complete IDENTIFY body of node [in] with the member key:value placed
// first, last, or twice (first and last).
func identityBody(in infoIn, key, val string, where int) string {
	q := func(x string) string { b, _ := json.Marshal(x); return string(b) }
	core := fmt.Sprintf(`"broadcast_address":%s,"hostname":%s,"tcp_port":%d,"http_port":%d,"version":%s`,
		q(in.Baddr), q(in.Baddr), in.TCP, in.HTTP, q(in.Version))
	m := q(key) + ":" + q(val)
	switch where {
	case 0:
		return "{" + m + "," + core + "}"
	case 1:
		return "{" + core + "," + m + "}"
	}
	return "{" + m + "," + core + "," + m + "}"
}

// victimTails: what a connection that claims somebody's identity may try next; each ends
// with EOF (the disconnect clean-up).
var victimTails = []string{"", "UNREGISTER " + byTopic + " " + byChan + "\n", "UNREGISTER " + byTopic + "\n",
	"UNREGISTER " + byTopic + " " + byEph + "\n", "REGISTER " + byTopic + " " + byChan + "\n", "REGISTER ht1 hc#ephemeral\n",
	"PING\n", "UNREGISTER " + visTopic + " " + visChan + "\n", "UNREGISTER " + visTopic + "\n"}

func genIdentityStream(r *lib.Rand) streamB {
	var s streamB
	in := nodePool[r.Intn(len(nodePool))]
	if r.Chance(25) {
		in = byInfo // the bystander's node string as well
	}
	key := identityKeys[r.Intn(len(identityKeys))]
	val := identityVals[r.Intn(len(identityVals))]
	if r.Chance(40) {
		key, val = identityKeys[r.Intn(5)], identityVals[r.Intn(2)] // the decoded field, a live victim
	}
	s.idTag = key + "=" + valKind(val)
	s.class = "identify-identity-member"
	pre := "  V1"
	if r.Chance(10) {
		pre += "PING\n"
	}
	tail := ""
	s.expect = "JSON"
	for i, n := 0, r.Intn(4); i < n; i++ {
		tail += victimTails[1+r.Intn(len(victimTails)-1)]
		s.expect = "OK"
	}
	if r.Chance(20) {
		tail += unknownCommands[r.Intn(len(unknownCommands))] + "\n" + "UNREGISTER " + byTopic + "\n"
		s.expect = "E_INVALID"
	}
	s.segs = []segIn{rawSeg(pre), {Ident: identityBody(in, key, val, r.Intn(3))}, rawSeg(tail)}
	return s
}

func be32(n uint32) []byte { var b [4]byte; binary.BigEndian.PutUint32(b[:], n); return b[:] }

func goodIdentifyBody(r *lib.Rand) []byte {
	in := nodePool[r.Intn(len(nodePool))]
	b, _ := json.Marshal(map[string]interface{}{"broadcast_address": in.Baddr, "hostname": in.Baddr, "tcp_port": in.TCP,
		"http_port": in.HTTP, "version": in.Version})
	return b
}

var badJSONs = []string{
	`{`, ``, `null`, `[]`, `"x"`, `{"tcp_port":"x"}`, `{"broadcast_address":5,"tcp_port":1,"http_port":2,"version":"v"}`,
	`{"broadcast_address":"h","tcp_port":1e3,"http_port":2,"version":"v"}`, `{"broadcast_address":"h","tcp_port":1,"http_port":2,"version":"v"`,
	`{"broadcast_address":"h","tcp_port":99999999999999999999,"http_port":2,"version":"v"}`, "\xff\xfe{}", `{"a":}`,
}
var missingFieldJSONs = []string{
	`{}`, `{"tcp_port":1,"http_port":2,"version":"v"}`, `{"broadcast_address":"h","http_port":2,"version":"v"}`,
	`{"broadcast_address":"h","tcp_port":1,"version":"v"}`, `{"broadcast_address":"h","tcp_port":1,"http_port":2}`,
	`{"broadcast_address":"","tcp_port":1,"http_port":2,"version":"v"}`, `{"broadcast_address":"h","tcp_port":0,"http_port":2,"version":"v"}`,
	`{"BROADCAST_ADDRESS":"h","Tcp_Port":1,"http_port":2,"version":""}`,
}
var unknownCommands = []string{"FOO", "ping", "NOP", "", "SUB t c", "PUB t", "identify", "REGISTER2 t", "PINGPING", "\x00\x01\x02", "GET / HTTP/1.1",
	"IDENTIFY2", "REGISTE", " ", "\xc2", "\xe2\x80", "PING\x00"}
var spaceVariants = []string{"PING", "  PING", "PING  ", "\tPING\r", "PING extra words", "\xc2\xa0PING", "PING\xe2\x80\xa8", "\xe3\x80\x80PING\xc2\x85",
	"\x0b\x0cPING", "PING\xe1\x9a\x80", "\xe2\x80\x8aPING\xe2\x81\x9f"}

func genStream(r *lib.Rand) streamB {
	var s streamB
	put := func(b ...byte) { s.buf = append(s.buf, b...) }
	puts := func(x string) { s.buf = append(s.buf, x...) }
	kind := r.Intn(100)
	// the magic
	switch {
	case kind < 5:
		return genMagicStream(r)
	case kind < 7:
		put([]byte("  V1")[:r.Intn(4)]...)
		s.expect, s.class = "NONE", "short-magic"
		return s
	case kind < 12:
		puts("  V1")
		put(r.Bytes(r.Intn(200))...)
		if r.Chance(50) {
			puts("\n")
		}
		s.expect, s.class = "", "random-bytes"
		return s
	}
	if kind < 24 {
		return genIdentityStream(r)
	}
	puts("  V1")
	if kind < 32 {
		// a well-formed visitor on the bystander's topic and its shared #ephemeral channel:
		// registers, unregisters (or just leaves); the bystander's registration must survive
		put(identifyBytes(goodIdentifyBody(r))...)
		puts("REGISTER " + byTopic + " " + byEph + "\n")
		s.expect, s.class = "OK", "shared-ephemeral-register-eof"
		if r.Chance(75) {
			puts("UNREGISTER " + byTopic + " " + byEph + "\n")
			s.class = "shared-ephemeral-register-unregister"
		}
		if r.Chance(30) {
			puts("UNREGISTER " + byTopic + " " + byEph + "\n") // a second time: never-registered now
		}
		return s
	}
	identified := false
	// a valid prefix
	if r.Chance(55) {
		if r.Chance(15) {
			puts(spaceVariants[r.Intn(len(spaceVariants))] + "\n")
		}
		put(identifyBytes(goodIdentifyBody(r))...)
		identified = true
		for i, n := 0, r.Intn(4); i < n; i++ {
			t := []string{byTopic, "ht1", "heph#ephemeral"}[r.Intn(3)]
			c := []string{"", byChan, "hc#ephemeral", byEph}[r.Intn(4)]
			if r.Chance(12) { // the longest names that are still valid
				t = boundaryOK[r.Intn(len(boundaryOK))]
			}
			if r.Chance(12) {
				c = boundaryOK[r.Intn(len(boundaryOK))]
			}
			verb := []string{"REGISTER", "REGISTER", "UNREGISTER", "PING"}[r.Intn(4)]
			switch {
			case verb == "PING":
				puts(spaceVariants[r.Intn(len(spaceVariants))] + "\n")
			case c == "":
				puts(verb + " " + t + "\n")
			default:
				puts(verb + " " + t + " " + c + "\n")
			}
		}
	}
	s.expect = "OK"
	if identified && !strings.HasSuffix(string(s.buf), "\n") {
		s.expect = "JSON"
	}
	// the malformed (or final) command
	mal := r.Intn(100)
	switch {
	case mal < 10:
		s.class = "valid-then-eof"
		if !identified {
			puts("PING\n")
		} else if s.buf[len(s.buf)-1] != '\n' {
			s.expect = "JSON"
		}
	case mal < 22:
		puts(unknownCommands[r.Intn(len(unknownCommands))] + "\n")
		s.expect, s.class = "E_INVALID", "unknown-command"
	case mal < 30:
		if identified {
			puts([]string{"REGISTER", "UNREGISTER", "REGISTER ", "UNREGISTER   "}[r.Intn(4)] + "\n")
			s.expect, s.class = "E_INVALID", "no-params"
		} else {
			puts([]string{"REGISTER t c", "UNREGISTER t", "REGISTER", "REGISTER bad$"}[r.Intn(4)] + "\n")
			s.expect, s.class = "E_INVALID", "before-identify"
		}
	case mal < 42:
		bad := []string{"bad$", "*", strings.Repeat("b", 65), "#ephemeral", "t\x00", "t\xc2\xa0x", "é", "t#ephemeral#ephemeral", "a b"}[r.Intn(9)]
		if r.Chance(40) { // just beyond the length limit, without and with the suffix
			bad = boundaryBad[r.Intn(len(boundaryBad))]
		}
		verb := []string{"REGISTER", "UNREGISTER"}[r.Intn(2)]
		if bad == "a b" { // "REGISTER  a": empty topic
			puts(verb + "  a\n")
		} else {
			puts(verb + " " + bad + " c\n")
		}
		s.expect, s.class = "E_BAD_TOPIC", "bad-topic"
		if !identified {
			s.expect, s.class = "E_INVALID", "before-identify"
		}
	case mal < 52:
		bad := []string{"bad$", "*", strings.Repeat("c", 65), "#ephemeral", "c\x7f", "c;"}[r.Intn(6)]
		if r.Chance(40) {
			bad = boundaryBad[r.Intn(len(boundaryBad))]
		}
		puts([]string{"REGISTER", "UNREGISTER"}[r.Intn(2)] + " " + byTopic + " " + bad + "\n")
		s.expect, s.class = "E_BAD_CHANNEL", "bad-channel"
		if !identified {
			s.expect, s.class = "E_INVALID", "before-identify"
		}
	case mal < 60:
		if identified {
			put(identifyBytes(goodIdentifyBody(r))...)
			s.expect, s.class = "E_INVALID", "identify-again"
		} else {
			put(identifyBytes(goodIdentifyBody(r))...)
			put(identifyBytes(goodIdentifyBody(r))...)
			s.expect, s.class = "E_INVALID", "identify-again"
		}
	default:
		// IDENTIFY with a hostile size / body (only meaningful on a connection that has not identified)
		if identified {
			puts(unknownCommands[r.Intn(len(unknownCommands))] + "\n")
			s.expect, s.class = "E_INVALID", "unknown-command"
			break
		}
		puts("IDENTIFY\n")
		s.expect = "E_BAD_BODY"
		switch r.Intn(12) {
		case 0:
			put(be32(0)...)
			s.class = "identify-size-0"
		case 1:
			put(be32(0xFFFFFFFF)...)
			s.class = "identify-size-negative"
		case 2:
			put(be32(0x80000000)...)
			put(r.Bytes(r.Intn(20))...)
			s.class = "identify-size-negative"
		case 3:
			put(be32(uint32(0xFFFFFF00 + r.Intn(255)))...)
			puts("{}")
			s.class = "identify-size-negative"
		case 4:
			put(be32(1 << 20)...) // 1 MiB announced, a few bytes sent, then EOF
			put(goodIdentifyBody(r)...)
			s.class = "identify-size-huge-truncated"
		case 5:
			b := goodIdentifyBody(r)
			put(be32(uint32(len(b) + 1 + r.Intn(5)))...)
			put(b...)
			s.class = "identify-body-truncated"
		case 6:
			b := goodIdentifyBody(r)
			put(be32(uint32(1 + r.Intn(len(b)-1)))...)
			put(b...)
			puts("\n")
			s.class = "identify-size-short-of-json"
		case 7:
			put(be32(7)[:r.Intn(4)]...)
			s.class = "identify-size-bytes-missing"
			return s // nothing may follow: trailing bytes would be read as the size
		case 8, 9:
			b := badJSONs[r.Intn(len(badJSONs))]
			if b == "" {
				b = " "
			}
			put(be32(uint32(len(b)))...)
			puts(b)
			s.class = "identify-bad-json"
		default:
			b := missingFieldJSONs[r.Intn(len(missingFieldJSONs))]
			put(be32(uint32(len(b)))...)
			puts(b)
			s.class = "identify-missing-fields"
		}
	}
	if r.Chance(30) && s.expect != "OK" && s.expect != "JSON" {
		// whatever follows a fatal error must not matter
		puts("REGISTER " + byTopic + " " + byChan + "\nPING\n")
	}
	if r.Chance(10) {
		puts("PING") // a last line without newline is dropped
	}
	return s
}

// decodeTable finds every IDENTIFY in the stream the way the server will (only exact:
// the line "IDENTIFY" after trimming ASCII blanks) and decodes the announced body with the
// real encoding/json into the real PeerInfo type.
func decodeTable(n *namer, stream []byte) string {
	var entries []string
	seen := map[string]bool{}
	rest := stream
	if len(rest) >= 4 {
		rest = rest[4:]
	}
	for i := 0; i+9 <= len(rest); i++ {
		if string(rest[i:i+8]) != "IDENTIFY" {
			continue
		}
		j := i + 8
		for j < len(rest) && rest[j] != '\n' {
			j++
		}
		if j+5 > len(rest) {
			continue
		}
		sz := int32(binary.BigEndian.Uint32(rest[j+1 : j+5]))
		if sz <= 0 || int(sz) > len(rest)-(j+5) {
			continue
		}
		body := rest[j+5 : j+5+int(sz)]
		if seen[string(body)] {
			continue
		}
		seen[string(body)] = true
		var pi nsqlookupd.PeerInfo
		if err := json.Unmarshal(body, &pi); err != nil {
			entries = append(entries, fmt.Sprintf("(%s, IBadJSON)", lib.CoqBytes(body)))
		} else {
			entries = append(entries, fmt.Sprintf("(%s, IJson %s %s %s %s)", lib.CoqBytes(body),
				n.name(pi.BroadcastAddress), lib.CoqZ(int64(pi.TCPPort)), lib.CoqZ(int64(pi.HTTPPort)), n.name(pi.Version)))
		}
	}
	return lib.CoqList(entries)
}

// ------------------------------------------------------------------ HTTP request construction
var httpMethods = []string{"GET", "POST", "PUT", "DELETE", "HEAD", "OPTIONS", "PATCH"}
var httpPaths = []string{"/ping", "/info", "/debug", "/lookup", "/topics", "/channels", "/nodes",
	"/topic/create", "/topic/delete", "/channel/create", "/channel/delete", "/topic/tombstone",
	"/debug/pprof", "/debug/pprof/cmdline", "/debug/pprof/symbol", "/debug/pprof/heap", "/debug/pprof/goroutine",
	"/debug/pprof/block", "/debug/pprof/threadcreate",
	"/nope", "/lookup/", "/TOPICS", "/topic", "/", "/topic/create/", "/channel", "/debug/"}
var httpTopics = []*string{nil, sp(""), sp(byTopic), sp("new1"), sp("bad$"), sp("*"), sp(strings.Repeat("t", 65)), sp("heph#ephemeral"),
	sp(plainName(64)), sp(ephName(64)), sp(ephName(65)), sp(ephName(74))}
var httpChans = []*string{nil, sp(""), sp(byChan), sp("newc"), sp("bad$"), sp(strings.Repeat("c", 65)), sp("*"),
	sp(plainName(64)), sp(ephName(64)), sp(ephName(65)), sp(ephName(74))}
var httpNodes = []*string{nil, sp("bystander:4151"), sp("x:1"), sp("h1:4151")}

// expectedStatus: the HTTP status rules of the API for requests whose arguments are
// missing or invalid (0 = no expectation): 400 on the handlers that take arguments.
func expectedStatus(a actIn) int {
	post := a.Method == "POST"
	get := a.Method == "GET"
	bad := func(s *string) bool { return s == nil || !isValidName(*s) }
	switch {
	case post && (a.Path == "/topic/create"):
		if a.RawQ != "" || bad(a.QT) {
			return 400
		}
		return 200
	case post && (a.Path == "/channel/create" || a.Path == "/channel/delete"):
		if a.RawQ != "" || bad(a.QT) || bad(a.QC) {
			return 400
		}
		if a.Path == "/channel/create" {
			return 200
		} // delete: 200 or 404
	case post && a.Path == "/topic/delete":
		if a.RawQ != "" || bad(a.QT) { // the wildcard is refused since the fix of F14
			return 400
		}
		return 200
	case get && (a.Path == "/lookup" || a.Path == "/channels"):
		if a.RawQ != "" || a.QT == nil {
			return 400
		}
	case post && a.Path == "/topic/tombstone":
		if a.RawQ != "" || bad(a.QT) || a.QN == nil {
			return 400
		}
		return 200
	}
	return 0
}

func genHTTP(r *lib.Rand) actIn {
	a := actIn{K: "http"}
	a.Method = httpMethods[r.Intn(len(httpMethods))]
	a.Path = httpPaths[r.Intn(len(httpPaths))]
	if r.Chance(55) { // mostly aim at the state-changing routes with their method
		a.Path = httpPaths[7+r.Intn(5)]
		if r.Chance(80) {
			a.Method = "POST"
		}
	}
	if r.Chance(5) {
		a.RawQ = []string{"topic=%zz", "topic=a;b=%", "%"}[r.Intn(3)]
		return a
	}
	a.QT = httpTopics[r.Intn(len(httpTopics))]
	a.QC = httpChans[r.Intn(len(httpChans))]
	a.QN = httpNodes[r.Intn(len(httpNodes))]
	if r.Chance(10) {
		all := boundaryNames()
		a.QT = sp(all[r.Intn(len(all))])
	}
	if r.Chance(10) {
		all := boundaryNames()
		a.QC = sp(all[r.Intn(len(all))])
	}
	if adminRoutes[a.Path] {
		if r.Chance(45) {
			// names that ARE registered at this point - by the bystander, the visitor, a hostile
			// connection that left its key behind - and the nodes the connections announced
			a.QT = liveTopics[r.Intn(len(liveTopics))]
			a.QC = liveChans[r.Intn(len(liveChans))]
			a.QN = liveNodes[r.Intn(len(liveNodes))]
		}
	}
	return a
}

var adminRoutes = map[string]bool{"/topic/create": true, "/topic/delete": true, "/channel/create": true, "/channel/delete": true, "/topic/tombstone": true}
var liveTopics = []*string{sp(byTopic), sp(byTopic), sp(visTopic), sp("ht1"), sp("heph#ephemeral"), sp("veph#ephemeral")}
var liveChans = []*string{nil, sp(byChan), sp(byEph), sp(visChan), sp("hc#ephemeral"), sp("newc")}
var liveNodes = []*string{nil, sp("bystander:4151"), sp("h1:4151"), sp("h2:4151"), sp("h1:4152"), sp("x:1")}

// adminSessions: the matrix (state of the named topic / channel) x (admin request), with
// a bystander and a visitor connected and registered and a topic that exists only because
// an admin request created it.  States of a topic: registered by both connections, by the
// visitor alone, key without producers, absent; of a channel: registered, shared
// #ephemeral, key without producers, absent (under that topic), absent.  After a deletion
// the connections register again (the daemon never learns about it otherwise).
func adminSessions() []sessIn {
	const made, madeC = "made", "madec"
	post := func(path string, t, c, nd *string) actIn {
		return actIn{K: "http", Method: "POST", Path: path, QT: t, QC: c, QN: nd}
	}
	setup := func() []actIn {
		return []actIn{{K: "op", Op: &opIn{K: "identify", Info: &byInfo}}, {K: "op", Op: &opIn{K: "register", T: byTopic, C: byChan}},
			{K: "op", Op: &opIn{K: "register", T: byTopic, C: byEph}},
			{K: "vop", Op: &opIn{K: "identify", Slot: 1, Info: &nodePool[1]}},
			{K: "vop", Op: &opIn{K: "register", Slot: 1, T: visTopic, C: visChan}},
			{K: "vop", Op: &opIn{K: "register", Slot: 1, T: byTopic, C: byChan}},
			post("/channel/create", sp(made), sp(madeC), nil)}
	}
	restore := func(t string) []actIn {
		switch t {
		case byTopic:
			return []actIn{{K: "op", Op: &opIn{K: "register", T: byTopic, C: byChan}}, {K: "op", Op: &opIn{K: "register", T: byTopic, C: byEph}},
				{K: "vop", Op: &opIn{K: "register", Slot: 1, T: byTopic, C: byChan}}}
		case visTopic:
			return []actIn{{K: "vop", Op: &opIn{K: "register", Slot: 1, T: visTopic, C: visChan}}}
		case made:
			return []actIn{post("/channel/create", sp(made), sp(madeC), nil)}
		}
		return nil
	}
	topics := []string{byTopic, visTopic, made, "new1"}
	chans := []string{byChan, byEph, visChan, madeC, "newc"}

	create := setup()
	for _, t := range append(topics, "heph#ephemeral") {
		create = append(create, post("/topic/create", sp(t), nil, nil))
	}
	for _, t := range topics {
		for _, c := range chans {
			create = append(create, post("/channel/create", sp(t), sp(c), nil))
		}
	}
	// again, now that every name exists; then the connections are still served
	create = append(create, post("/topic/create", sp(byTopic), sp(byChan), sp("bystander:4151")), post("/channel/create", sp(byTopic), sp(byChan), nil),
		actIn{K: "op", Op: &opIn{K: "ping"}}, actIn{K: "vop", Op: &opIn{K: "unregister", Slot: 1, T: byTopic, C: byChan}},
		post("/channel/create", sp(byTopic), sp(byChan), nil), post("/topic/create", sp(visTopic), nil, nil),
		actIn{K: "vop", Op: &opIn{K: "disconnect", Slot: 1}}, post("/topic/create", sp(visTopic), nil, nil), post("/channel/create", sp(visTopic), sp(visChan), nil))

	del := setup()
	for _, t := range topics {
		for _, c := range chans {
			del = append(del, post("/channel/delete", sp(t), sp(c), nil))
			del = append(del, restore(t)...)
		}
	}
	for _, t := range topics {
		del = append(del, post("/topic/delete", sp(t), nil, nil))
		del = append(del, restore(t)...)
	}
	del = append(del, actIn{K: "op", Op: &opIn{K: "ping"}}, actIn{K: "vop", Op: &opIn{K: "ping", Slot: 1}})

	tomb := setup()
	for _, t := range topics {
		for _, nd := range []string{"x:1", "", "h2:4151", "bystander:4151", "bystander:4152", "BYSTANDER:4151", "bystander"} {
			tomb = append(tomb, post("/topic/tombstone", sp(t), nil, sp(nd)))
		}
	}
	tomb = append(tomb,
		post("/topic/tombstone", sp(byTopic), sp(byChan), sp("bystander:4151")), // marked already
		actIn{K: "op", Op: &opIn{K: "register", T: byTopic, C: byChan}},         // does not clear the mark
		actIn{K: "vop", Op: &opIn{K: "unregister", Slot: 1, T: byTopic}},        // this does (the entry goes)
		actIn{K: "vop", Op: &opIn{K: "register", Slot: 1, T: byTopic, C: byChan}},
		post("/topic/create", sp(byTopic), nil, nil), post("/channel/create", sp(byTopic), sp(byChan), nil), // marks survive a create
		post("/topic/tombstone", sp(byTopic), nil, sp("h2:4151")),
		post("/channel/delete", sp(byTopic), sp(byChan), nil), // the topic's marks survive a channel deletion
		post("/topic/delete", sp(byTopic), nil, nil))
	tomb = append(tomb, restore(byTopic)...)
	tomb = append(tomb, post("/topic/tombstone", sp(byTopic), nil, sp("bystander:4151")), actIn{K: "op", Op: &opIn{K: "ping"}})

	return []sessIn{{Profile: "hostile", Name: "fixed-admin-create", Acts: create}, {Profile: "hostile", Name: "fixed-admin-delete", Acts: del},
		{Profile: "hostile", Name: "fixed-admin-tombstone", Acts: tomb}}
}

func connAct(st streamB) actIn {
	a := actIn{K: "conn", Expect: st.expect, Class: st.class, Segs: st.segs, IdTag: st.idTag}
	if len(st.segs) == 0 {
		a.Stream = base64.StdEncoding.EncodeToString(st.buf)
	}
	return a
}

// the visitor: a second well-behaved producer connection (slot 1) that is open while
// hostile streams arrive; its commands are judged like the bystander's and the views are
// taken while it is still connected.  Its IDENTIFY body may carry identity members too.
func visIdentify(r *lib.Rand) actIn {
	in := nodePool[r.Intn(len(nodePool))]
	a := actIn{K: "vop", Op: &opIn{K: "identify", Slot: 1, Info: &in}}
	if r.Chance(50) {
		key, val := identityKeys[r.Intn(len(identityKeys))], identityVals[r.Intn(len(identityVals))]
		if r.Chance(50) {
			key, val = identityKeys[r.Intn(5)], "@BY@"
		}
		a.Extra = [][2]string{{key, val}}
		a.IdTag = key + "=" + valKind(val)
	}
	return a
}

func genVisitorOp(r *lib.Rand) actIn {
	t := []string{byTopic, visTopic, "veph#ephemeral"}[r.Intn(3)]
	c := []string{"", byChan, byEph, visChan}[r.Intn(4)]
	switch w := r.Intn(100); {
	case w < 30:
		return actIn{K: "vop", Op: &opIn{K: "register", Slot: 1, T: t, C: c}}
	case w < 60:
		return actIn{K: "vop", Op: &opIn{K: "unregister", Slot: 1, T: t, C: c}}
	case w < 72:
		return actIn{K: "vop", Op: &opIn{K: "ping", Slot: 1}}
	case w < 86:
		return actIn{K: "vop", Op: &opIn{K: "disconnect", Slot: 1}}
	}
	return visIdentify(r) // on a fresh connection, or a refused second IDENTIFY
}

func genSession(r *lib.Rand, k int) sessIn {
	s := sessIn{Profile: "hostile", Name: fmt.Sprintf("sess-%d", k)}
	s.Acts = append(s.Acts,
		actIn{K: "op", Op: &opIn{K: "identify", Info: &byInfo}},
		actIn{K: "op", Op: &opIn{K: "register", T: byTopic, C: byChan}},
		actIn{K: "op", Op: &opIn{K: "register", T: byTopic, C: byEph}})
	visitor := r.Chance(60)
	if visitor {
		s.Acts = append(s.Acts, visIdentify(r),
			actIn{K: "vop", Op: &opIn{K: "register", Slot: 1, T: visTopic, C: visChan}},
			actIn{K: "vop", Op: &opIn{K: "register", Slot: 1, T: byTopic, C: []string{byChan, byEph, ""}[r.Intn(3)]}})
	}
	n := 10 + r.Intn(14)
	for i := 0; i < n; i++ {
		w := r.Intn(100)
		switch {
		case w < 52:
			s.Acts = append(s.Acts, connAct(genStream(r)))
		case w < 88:
			s.Acts = append(s.Acts, genHTTP(r))
		case w < 92:
			if visitor {
				s.Acts = append(s.Acts, genVisitorOp(r))
			} else {
				s.Acts = append(s.Acts, genHTTP(r))
			}
		case w < 96:
			s.Acts = append(s.Acts, actIn{K: "op", Op: &opIn{K: "ping"}})
		default:
			s.Acts = append(s.Acts, actIn{K: "op", Op: &opIn{K: "register", T: byTopic, C: []string{byChan, byEph}[r.Intn(2)]}})
		}
	}
	return s
}

// genMatrix: every route x method, with the full argument cross product where a handler
// looks at the arguments and a small covering set elsewhere, cut into sessions.
func genMatrix(perSession int) []sessIn {
	var reqs []actIn
	argful := map[string]int{"/topic/create": 1, "/topic/delete": 1, "/lookup": 1, "/channels": 1,
		"/channel/create": 2, "/channel/delete": 2, "/topic/tombstone": 3}
	for _, path := range httpPaths {
		for _, m := range httpMethods {
			kind := argful[path]
			right := (m == "POST") == strings.HasPrefix(path, "/topic/") || strings.HasPrefix(path, "/channel/")
			if kind == 0 || !right {
				reqs = append(reqs, actIn{K: "http", Method: m, Path: path},
					actIn{K: "http", Method: m, Path: path, QT: sp(byTopic), QC: sp(byChan), QN: sp("bystander:4151")},
					actIn{K: "http", Method: m, Path: path, RawQ: "topic=%zz"})
				continue
			}
			for _, t := range httpTopics {
				switch kind {
				case 1:
					reqs = append(reqs, actIn{K: "http", Method: m, Path: path, QT: t})
				case 2:
					for _, c := range httpChans {
						reqs = append(reqs, actIn{K: "http", Method: m, Path: path, QT: t, QC: c})
					}
				case 3:
					for _, nd := range httpNodes {
						reqs = append(reqs, actIn{K: "http", Method: m, Path: path, QT: t, QN: nd})
					}
				}
			}
			reqs = append(reqs, actIn{K: "http", Method: m, Path: path, RawQ: "topic=%zz"})
		}
	}
	var out []sessIn
	for i := 0; i < len(reqs); i += perSession {
		j := i + perSession
		if j > len(reqs) {
			j = len(reqs)
		}
		acts := []actIn{{K: "op", Op: &opIn{K: "identify", Info: &byInfo}}, {K: "op", Op: &opIn{K: "register", T: byTopic, C: byChan}},
			{K: "op", Op: &opIn{K: "register", T: byTopic, C: byEph}}}
		for k, a := range reqs[i:j] {
			acts = append(acts, a)
			if k%8 == 7 { // the bystander re-registers now and then: deletions must not be the end of it
				acts = append(acts, actIn{K: "op", Op: &opIn{K: "register", T: byTopic, C: byChan}})
			}
		}
		out = append(out, sessIn{Profile: "hostile", Name: fmt.Sprintf("matrix-%d", len(out)), Acts: acts})
	}
	return out
}

// ------------------------------------------------------------------ the subprocess
type daemon struct {
	cmd      *exec.Cmd
	tcp, web string
	done     chan struct{}
	// after done is closed: how the process ended and the last lines it wrote to stderr (a
	// Go panic prints its message and the goroutine traces there)
	exitErr string
	tail    []string
}

var listenRe = regexp.MustCompile(`(TCP|HTTP): listening on (\S+)`)

func startDaemon() *daemon {
	bin := filepath.Join(os.Getenv("VERIF_BIN_DIR"), "nsqlookupd")
	if _, err := os.Stat(bin); err != nil {
		lib.Fatalf("nsqlookupd binary not found at %s", bin)
	}
	host := loopbackHost()
	cmd := exec.Command(bin, "-tcp-address", host+":0", "-http-address", host+":0", "-broadcast-address", host)
	cmd.SysProcAttr = &syscall.SysProcAttr{Pdeathsig: syscall.SIGKILL} // no orphan daemon if the driver dies
	stderr, err := cmd.StderrPipe()
	if err != nil {
		lib.Fatalf("pipe: %v", err)
	}
	if err := cmd.Start(); err != nil {
		lib.Fatalf("start nsqlookupd: %v", err)
	}
	d := &daemon{cmd: cmd, done: make(chan struct{})}
	addrs := make(chan [2]string, 2)
	go func() {
		sc := bufio.NewScanner(stderr)
		sc.Buffer(make([]byte, 1<<20), 1<<20)
		var tail []string
		for sc.Scan() {
			if m := listenRe.FindStringSubmatch(sc.Text()); m != nil {
				addrs <- [2]string{m[1], m[2]}
			}
			if t := sc.Text(); strings.HasPrefix(t, "panic:") || strings.HasPrefix(t, "fatal error:") || strings.Contains(t, "[signal ") ||
				(len(tail) > 0 && len(tail) < 12) {
				tail = append(tail, t) // the panic message and the first frames of the trace
			}
		}
		io.Copy(io.Discard, stderr)
		if err := cmd.Wait(); err != nil {
			d.exitErr = err.Error()
		} else {
			d.exitErr = "exit status 0"
		}
		d.tail = tail
		close(d.done)
	}()
	deadline := time.After(30 * time.Second)
	for d.tcp == "" || d.web == "" {
		select {
		case a := <-addrs:
			if a[0] == "TCP" {
				d.tcp = a[1]
			} else {
				d.web = a[1]
			}
		case <-d.done:
			lib.Fatalf("nsqlookupd exited during start-up")
		case <-deadline:
			lib.Fatalf("nsqlookupd did not announce its listeners")
		}
	}
	return d
}

func (d *daemon) stop() {
	d.cmd.Process.Kill()
	<-d.done
}

// waitExit: the process has ended within the given time (a dying Go process needs a moment
// to print its traces; this waits for the exact event, not for a fixed time).
func (d *daemon) waitExit(limit time.Duration) bool {
	select {
	case <-d.done:
		return true
	case <-time.After(limit):
		return false
	}
}

func (d *daemon) exited() bool {
	select {
	case <-d.done:
		return true
	default:
		return false
	}
}

// alive: the process has not exited and answers /ping.
func (d *daemon) alive(h *httpc) bool {
	if d.exited() {
		return false
	}
	for i := 0; i < 3; i++ {
		st, b := h.do("GET", "/ping")
		if st == 200 && string(b) == "OK" {
			return true
		}
		select {
		case <-d.done:
			return false
		case <-time.After(50 * time.Millisecond):
		}
	}
	return false
}

func coqOFrame(class string) string {
	switch class {
	case "OK":
		return "OOk"
	case "JSON":
		return "OJson"
	case "E_BAD_PROTOCOL":
		return "OBadProtocol"
	}
	if c := coqCode(class); c != "" {
		return "(OErr " + c + ")"
	}
	return "OOther"
}

// readAllFrames reads answer frames until the server closes.
func readAllFrames(c net.Conn) []string {
	var out []string
	for {
		f, err := readFrame(c)
		if err != nil {
			if ne, ok := err.(net.Error); ok && ne.Timeout() {
				out = append(out, "TIMEOUT")
			} else if err == io.ErrUnexpectedEOF {
				out = append(out, "OTHER") // a frame cut short
			}
			return out
		}
		out = append(out, frameClass(f))
	}
}

func emptyView(n *namer) string { return "(imkView None [] [] [] [])" }

func runSession(s sessIn) lib.Case {
	d := startDaemon()
	defer d.stop()
	hc := newHTTP(d.web)
	hc.soft = true // a view that cannot be taken is an observation about the daemon (see below)
	defer hc.close()
	n := newNamer()
	pm := peerMap{}
	by, err := dial(d.tcp, 0, []byte("  V1"))
	if err != nil {
		lib.Fatalf("dial bystander: %v", err)
	}
	by.soft = true
	defer by.c.Close()
	pm[by.addr] = 0
	byOpen := true
	next := 1
	visitors := map[int]*conn{}
	defer func() {
		for _, v := range visitors {
			v.c.Close()
		}
	}()
	gone := "127.0.0.1:9"
	live := func(self string) liveAddrs {
		l := liveAddrs{by: by.addr, vis: by.addr, self: self, gone: gone}
		if v := visitors[1]; v != nil {
			l.vis = v.addr
		}
		return l
	}
	var acts []string
	tagc := map[string]int{}
	dead := false
	viewFailure := ""
	hungConn := false
	var lastDebug []debugObs
	var lastTopics []string
	topicState := func(t *string) string {
		switch {
		case t == nil:
			return "absent-arg"
		case !isValidName(*t):
			return "invalid-name"
		}
		for _, e := range lastDebug {
			if e.Cat == "topic" && e.Key == *t {
				return "has-producers"
			}
		}
		for _, x := range lastTopics {
			if x == *t {
				return "key-without-producers"
			}
		}
		return "unknown-topic"
	}
	view := func() string {
		lk := hc.lookup(byTopic, pm)
		dbg := hc.debug(pm)
		lastDebug, lastTopics = dbg, hc.topics()
		return fmt.Sprintf("(imkView %s %s %s %s %s)", n.coqLookup(lk), n.names(lastTopics), n.names(hc.channels("*")), n.coqDebug(dbg), n.coqNodes(dbg))
	}
	for _, a := range s.Acts {
		var action, result, expect string
		expect = "None"
		expectStatus := "None"
		switch a.K {
		case "op":
			o := a.Op
			var data []byte
			var opCoq string
			switch o.K {
			case "identify":
				body, _ := json.Marshal(map[string]interface{}{"broadcast_address": o.Info.Baddr, "hostname": o.Info.Baddr,
					"tcp_port": o.Info.TCP, "http_port": o.Info.HTTP, "version": o.Info.Version})
				data = identifyBytes(body)
				opCoq = fmt.Sprintf("(IIdentify 0 %s %s %s %s)", n.name(o.Info.Baddr), lib.CoqZ(int64(o.Info.TCP)), lib.CoqZ(int64(o.Info.HTTP)), n.name(o.Info.Version))
			case "register":
				data = []byte("REGISTER " + o.T + " " + o.C + "\n")
				opCoq = fmt.Sprintf("(IRegister 0 %s %s)", n.name(o.T), n.name(o.C))
			default:
				data = []byte("PING\n")
				opCoq = "(IPing 0)"
			}
			cl := "NOANSWER"
			if byOpen {
				f, closed := by.command(data)
				if f != nil {
					cl = frameClass(f)
				}
				if closed {
					byOpen = false
				}
				hungConn = hungConn || by.hung
			}
			action = "(IAOp " + opCoq + ")"
			result = "(ROp " + coqOut(cl) + ")"
			tagc["bystander:"+o.K+":"+cl]++
		case "vop":
			o := a.Op
			if o.Slot < 1 {
				lib.Fatalf("visitor command without a slot")
			}
			v := visitors[o.Slot]
			if v == nil { // a fresh connection (also for a command that will be refused on it)
				var err error
				if v, err = dial(d.tcp, next, []byte("  V1")); err != nil {
					// the daemon no longer accepts connections: the command gets no answer and the
					// liveness check below records what happened to the daemon
					action = fmt.Sprintf("(IAOp (IPing %d))", next)
					result = "(ROp " + coqOut("NOANSWER") + ")"
					tagc["visitor:"+o.K+":NOCONNECTION"]++
					next++
					break
				}
				v.soft = true
				visitors[o.Slot] = v
				pm[v.addr] = next
				next++
			}
			var data []byte
			var opCoq string
			switch o.K {
			case "identify":
				body := "{"
				for _, e := range a.Extra {
					kb, _ := json.Marshal(e[0])
					vb, _ := json.Marshal(live(v.addr).subst(e[1]))
					body += string(kb) + ":" + string(vb) + ","
				}
				core, _ := json.Marshal(map[string]interface{}{"broadcast_address": o.Info.Baddr, "tcp_port": o.Info.TCP,
					"http_port": o.Info.HTTP, "version": o.Info.Version})
				body += string(core[1:])
				var pi nsqlookupd.PeerInfo // what the real decoder makes of it goes to the model
				if err := json.Unmarshal([]byte(body), &pi); err != nil {
					lib.Fatalf("visitor IDENTIFY body %q does not decode: %v", body, err)
				}
				data = identifyBytes([]byte(body))
				opCoq = fmt.Sprintf("(IIdentify %d %s %s %s %s)", v.peer, n.name(pi.BroadcastAddress), lib.CoqZ(int64(pi.TCPPort)),
					lib.CoqZ(int64(pi.HTTPPort)), n.name(pi.Version))
				if a.IdTag != "" {
					tagc["visitor-identity-member="+a.IdTag]++
				}
			case "register":
				data = []byte(strings.TrimRight("REGISTER "+o.T+" "+o.C, " ") + "\n")
				opCoq = fmt.Sprintf("(IRegister %d %s %s)", v.peer, n.name(o.T), n.name(o.C))
			case "unregister":
				data = []byte(strings.TrimRight("UNREGISTER "+o.T+" "+o.C, " ") + "\n")
				opCoq = fmt.Sprintf("(IUnregister %d %s %s)", v.peer, n.name(o.T), n.name(o.C))
			case "ping":
				data = []byte("PING\n")
				opCoq = fmt.Sprintf("(IPing %d)", v.peer)
			case "disconnect":
				opCoq = fmt.Sprintf("(IDisconnect %d)", v.peer)
			default:
				lib.Fatalf("unknown visitor command %q", o.K)
			}
			cl := ""
			if o.K == "disconnect" {
				v.closeWait() // returns when the server has run its exit path and closed
				hungConn = hungConn || v.hung
				gone = v.addr
				delete(visitors, o.Slot)
			} else {
				f, closed := v.command(data)
				cl = "NOANSWER"
				if f != nil {
					cl = frameClass(f)
				}
				if closed {
					gone = v.addr
					delete(visitors, o.Slot)
				}
				hungConn = hungConn || v.hung
			}
			action = "(IAOp " + opCoq + ")"
			result = "(ROp " + coqOut(cl) + ")"
			tagc["visitor:"+o.K+":"+cl]++
		case "conn":
			c, err := dial(d.tcp, next, nil)
			if err != nil {
				// the daemon no longer accepts: recorded as a dead daemon below
				stream := buildStream(a, live("0.0.0.0:0"))
				action = fmt.Sprintf("(IAConn %d [] %s)", next, lib.CoqBytes(stream))
				result = "(RConn [])"
				next++
				break
			}
			stream := buildStream(a, live(c.addr))
			pm[c.addr] = next
			c.c.SetWriteDeadline(time.Now().Add(ioTimeout))
			c.c.Write(stream)
			c.c.CloseWrite()
			frames := readAllFrames(c.c)
			c.c.Close()
			var fs []string
			for _, f := range frames {
				fs = append(fs, coqOFrame(f))
			}
			action = fmt.Sprintf("(IAConn %d %s %s)", next, decodeTable(n, stream), lib.CoqBytes(stream))
			result = "(RConn " + lib.CoqList(fs) + ")"
			switch a.Expect {
			case "":
			case "NONE":
				// nothing is expected: expressed by frames_ok only
			default:
				expect = "(Some " + coqOFrame(a.Expect) + ")"
			}
			last := "none"
			if len(frames) > 0 {
				last = frames[len(frames)-1]
			}
			tagc["stream="+a.Class+":"+last]++
			if a.IdTag != "" {
				tagc["identity-member="+a.IdTag]++
			}
			gone = c.addr
			next++
		case "http":
			q := queryString(a.QT, a.QC, a.QN)
			qc := coqQuery(n, a.QT, a.QC, a.QN)
			if a.RawQ != "" {
				q, qc = "?"+a.RawQ, "IQBad"
			}
			if e := expectedStatus(a); e != 0 {
				expectStatus = fmt.Sprintf("(Some %d)", e)
			}
			st, _ := hc.do(a.Method, a.Path+q)
			action = fmt.Sprintf("(IAHttp %s %s %s)", lib.CoqString(a.Method), lib.CoqString(a.Path), qc)
			result = fmt.Sprintf("(RHttp %d)", st)
			tagc["http-route="+a.Path]++
			tagc[fmt.Sprintf("http-status=%s:%d", a.Method, st)]++
			if a.Method == "POST" && a.RawQ == "" && adminRoutes[a.Path] {
				tagc[fmt.Sprintf("admin=%s:topic-%s:%d", a.Path, topicState(a.QT), st)]++
			}
		default:
			lib.Fatalf("unknown action kind %q", a.K)
		}
		// liveness: the process is there and answers /ping before AND after the views are taken,
		// and every view can be fetched.  A daemon that a hostile stream has just killed may still
		// answer one or two requests while it prints its traces: whatever fails on the way, the
		// action is recorded with alive = false (never a harness error), with how the process ended.
		alive := d.alive(hc)
		v := emptyView(n)
		if alive {
			ok, why := hc.tryViews(func() { v = view() })
			if ok && !d.alive(hc) {
				ok, why = false, "/ping failed after the views"
			}
			if hungConn {
				ok, why = false, "a well-behaved connection was not closed by the daemon within "+ioTimeout.String()
			}
			if !ok {
				alive, v, viewFailure = false, emptyView(n), why
				d.waitExit(5 * time.Second)
			}
		}
		acts = append(acts, fmt.Sprintf("(imkAct %s %s %s %s %s %s)", action, result, lib.CoqBool(alive), expect, expectStatus, v))
		if !alive {
			dead = true
			tagc["daemon=DIED"]++
			break
		}
	}
	topicIx := n.name(byTopic)
	body := fmt.Sprintf("(J15.imk %s 0 %s %s)", n.table(), topicIx, lib.CoqList(acts))
	var tl []string
	for t, c := range tagc {
		for i := 0; i < c; i++ {
			tl = append(tl, t)
		}
	}
	obs := map[string]interface{}{"actions": len(acts), "daemon_died": dead}
	if dead {
		obs["killed_by_action"] = s.Acts[len(acts)-1]
		if viewFailure != "" {
			obs["first_failure"] = viewFailure
		}
		if d.waitExit(5 * time.Second) {
			obs["daemon_exit"], obs["daemon_stderr"] = d.exitErr, d.tail
		} else {
			obs["daemon_exit"] = "still running, not answering"
		}
	}
	return lib.Case{Name: s.Name, Coq: body, Input: s, Tags: tl, Nontrivial: true, Obs: obs}
}
