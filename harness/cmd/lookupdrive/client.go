package main

// Raw TCP client of nsqlookupd's V1 protocol and the HTTP view fetcher shared by the
// profiles of lookupdrive.

import (
	"encoding/binary"
	"encoding/json"
	"fmt"
	"io"
	"net"
	"net/http"
	"net/url"
	"sort"
	"strings"
	"time"

	"verifharness/lib"
)

const ioTimeout = 20 * time.Second

type conn struct {
	c    *net.TCPConn
	peer int    // number of this connection in the case
	addr string // our local address = the id nsqlookupd gives the peer
	// soft: a server that does not close the connection in time is recorded (hung) instead
	// of ending the driver (C15: "stops answering" is a verdict, not a harness error)
	soft, hung bool
}

func dial(tcpAddr string, peer int, magic []byte) (*conn, error) {
	c, err := net.DialTimeout("tcp", tcpAddr, 5*time.Second)
	if err != nil {
		return nil, err
	}
	tc := c.(*net.TCPConn)
	tc.SetNoDelay(true)
	if len(magic) > 0 {
		tc.Write(magic)
	}
	return &conn{c: tc, peer: peer, addr: tc.LocalAddr().String()}, nil
}

// readFrame reads one response frame: 4-byte big-endian size, then the data.
func readFrame(c net.Conn) ([]byte, error) {
	c.SetReadDeadline(time.Now().Add(ioTimeout))
	var sz [4]byte
	if _, err := io.ReadFull(c, sz[:]); err != nil {
		return nil, err
	}
	n := binary.BigEndian.Uint32(sz[:])
	if n > 1<<20 {
		return nil, fmt.Errorf("frame of %d bytes", n)
	}
	buf := make([]byte, n)
	if _, err := io.ReadFull(c, buf); err != nil {
		return nil, err
	}
	return buf, nil
}

// waitClosed blocks until the server has closed the connection.  nsqlookupd closes it
// after the IOLoop exit path has removed the client's registrations, so when this
// returns the registry has settled (no sleeping, no polling).
func (k *conn) waitClosed() {
	k.c.SetReadDeadline(time.Now().Add(ioTimeout))
	buf := make([]byte, 256)
	for {
		_, err := k.c.Read(buf)
		if err != nil {
			if ne, ok := err.(net.Error); ok && ne.Timeout() {
				if !k.soft {
					lib.Fatalf("connection %s: the server did not close it within %s", k.addr, ioTimeout)
				}
				k.hung = true
			}
			break
		}
	}
	k.c.Close()
}

// closeWait half-closes (EOF for the server's reader) and waits for the server's close.
func (k *conn) closeWait() {
	k.c.CloseWrite()
	k.waitClosed()
}

// command sends one command (line and optional body) and reads its answer.  Every
// error of the lookupd protocol is fatal: after an E_* answer the server closes, and
// we wait for that.
func (k *conn) command(data []byte) (frame []byte, closed bool) {
	k.c.SetWriteDeadline(time.Now().Add(ioTimeout))
	k.c.Write(data)
	f, err := readFrame(k.c)
	if err != nil {
		k.c.Close()
		return nil, true
	}
	if strings.HasPrefix(string(f), "E_") {
		k.waitClosed()
		return f, true
	}
	return f, false
}

func identifyBytes(body []byte) []byte {
	out := []byte("IDENTIFY\n")
	var sz [4]byte
	binary.BigEndian.PutUint32(sz[:], uint32(len(body)))
	out = append(out, sz[:]...)
	return append(out, body...)
}

// frameClass: the code (first token) of an answer.
func frameClass(f []byte) string {
	s := string(f)
	switch {
	case s == "OK":
		return "OK"
	case strings.HasPrefix(s, "{"):
		return "JSON"
	case strings.HasPrefix(s, "E_"):
		return strings.SplitN(s, " ", 2)[0]
	}
	return "OTHER"
}

// ------------------------------------------------------------------ HTTP views
type httpc struct {
	base   string
	client *http.Client
	// soft: a view that cannot be fetched or parsed is not a harness error but a fact about
	// the daemon (C15: it may be dying at that very moment): the fetchers panic with a
	// viewFailure, recovered by tryViews
	soft bool
}

type viewFailure struct{ msg string }

func (h *httpc) fail(format string, a ...interface{}) {
	if h.soft {
		panic(viewFailure{fmt.Sprintf(format, a...)})
	}
	lib.Fatalf(format, a...)
}

// tryViews runs f (a function that fetches views); with soft set, a failing fetch makes it
// return false and the reason instead of ending the driver.
func (h *httpc) tryViews(f func()) (ok bool, why string) {
	defer func() {
		if r := recover(); r != nil {
			vf, is := r.(viewFailure)
			if !is {
				panic(r)
			}
			ok, why = false, vf.msg
		}
	}()
	f()
	return true, ""
}

func newHTTP(addr string) *httpc {
	tr := &http.Transport{MaxIdleConnsPerHost: 4, DisableCompression: true}
	return &httpc{base: "http://" + addr, client: &http.Client{Transport: tr, Timeout: ioTimeout,
		CheckRedirect: func(*http.Request, []*http.Request) error { return http.ErrUseLastResponse }}}
}
func (h *httpc) close() { h.client.CloseIdleConnections() }

// do returns the status (0 = no answer) and the body.
func (h *httpc) do(method, pathAndQuery string) (int, []byte) {
	req, err := http.NewRequest(method, h.base+pathAndQuery, nil)
	if err != nil {
		return 0, nil
	}
	resp, err := h.client.Do(req)
	if err != nil {
		return 0, nil
	}
	defer resp.Body.Close()
	b, _ := io.ReadAll(io.LimitReader(resp.Body, 8<<20))
	return resp.StatusCode, b
}

type lookupObs struct {
	Found     bool
	Channels  []string
	Producers []int
}
type nodeObs struct {
	Peer   int
	Topics []string
	Tombs  []bool
}
type debugObs struct {
	Cat, Key, Sub string
	Peer          int
	Tomb          bool
	Node          string // broadcast_address:http_port of the entry's PeerInfo
}

const unknownPeer = 999999

type peerMap map[string]int

func (m peerMap) get(addr string) int {
	if p, ok := m[addr]; ok {
		return p
	}
	return unknownPeer
}

func (h *httpc) topics() []string {
	st, b := h.do("GET", "/topics")
	var d struct {
		Topics []string `json:"topics"`
	}
	if st != 200 || json.Unmarshal(b, &d) != nil {
		h.fail("/topics: status %d body %q", st, b)
	}
	sort.Strings(d.Topics)
	return d.Topics
}

func (h *httpc) channels(topic string) []string {
	st, b := h.do("GET", "/channels?topic="+url.QueryEscape(topic))
	var d struct {
		Channels []string `json:"channels"`
	}
	if st != 200 || json.Unmarshal(b, &d) != nil {
		h.fail("/channels: status %d body %q", st, b)
	}
	sort.Strings(d.Channels)
	return d.Channels
}

func (h *httpc) lookup(topic string, pm peerMap) lookupObs {
	st, b := h.do("GET", "/lookup?topic="+url.QueryEscape(topic))
	if st == 404 {
		return lookupObs{}
	}
	var d struct {
		Channels  []string `json:"channels"`
		Producers []struct {
			RemoteAddress string `json:"remote_address"`
		} `json:"producers"`
	}
	if st != 200 || json.Unmarshal(b, &d) != nil {
		h.fail("/lookup: status %d body %q", st, b)
	}
	o := lookupObs{Found: true, Channels: d.Channels}
	sort.Strings(o.Channels)
	for _, p := range d.Producers {
		o.Producers = append(o.Producers, pm.get(p.RemoteAddress))
	}
	sort.Ints(o.Producers)
	return o
}

func (h *httpc) nodes(pm peerMap) []nodeObs {
	st, b := h.do("GET", "/nodes")
	var d struct {
		Producers []struct {
			RemoteAddress string   `json:"remote_address"`
			Topics        []string `json:"topics"`
			Tombstones    []bool   `json:"tombstones"`
		} `json:"producers"`
	}
	if st != 200 || json.Unmarshal(b, &d) != nil {
		h.fail("/nodes: status %d body %q", st, b)
	}
	var out []nodeObs
	for _, p := range d.Producers {
		if len(p.Topics) != len(p.Tombstones) {
			h.fail("/nodes: %d topics but %d tombstones", len(p.Topics), len(p.Tombstones))
		}
		out = append(out, nodeObs{Peer: pm.get(p.RemoteAddress), Topics: p.Topics, Tombs: p.Tombstones})
	}
	sort.Slice(out, func(i, j int) bool { return out[i].Peer < out[j].Peer })
	return out
}

func (h *httpc) debug(pm peerMap) []debugObs {
	st, b := h.do("GET", "/debug")
	var d map[string][]struct {
		ID         string `json:"id"`
		Tombstoned bool   `json:"tombstoned"`
		Baddr      string `json:"broadcast_address"`
		HTTPPort   int    `json:"http_port"`
	}
	if st != 200 || json.Unmarshal(b, &d) != nil {
		h.fail("/debug: status %d body %q", st, b)
	}
	var out []debugObs
	for key, ps := range d {
		parts := strings.SplitN(key, ":", 3)
		if len(parts) != 3 {
			h.fail("/debug: key %q", key)
		}
		for _, p := range ps {
			out = append(out, debugObs{Cat: parts[0], Key: parts[1], Sub: parts[2], Peer: pm.get(p.ID), Tomb: p.Tombstoned,
				Node: fmt.Sprintf("%s:%d", p.Baddr, p.HTTPPort)})
		}
	}
	sort.Slice(out, func(i, j int) bool {
		a, b := out[i], out[j]
		if a.Cat != b.Cat {
			return a.Cat < b.Cat
		}
		if a.Key != b.Key {
			return a.Key < b.Key
		}
		if a.Sub != b.Sub {
			return a.Sub < b.Sub
		}
		return a.Peer < b.Peer
	})
	return out
}

// ------------------------------------------------------------------ Coq printing
// namer: every byte string used in a case is an index into the case's name table
// (index 0 is the empty name); terms without local definitions elaborate much faster.
type namer struct {
	ids   map[string]int
	order []string
}

func newNamer() *namer { return &namer{ids: map[string]int{"": 0}, order: []string{""}} }
func (n *namer) name(s string) string {
	id, ok := n.ids[s]
	if !ok {
		id = len(n.order)
		n.ids[s] = id
		n.order = append(n.order, s)
	}
	return fmt.Sprintf("%d", id)
}
func (n *namer) names(ss []string) string {
	parts := make([]string, len(ss))
	for i, s := range ss {
		parts[i] = n.name(s)
	}
	return lib.CoqList(parts)
}
func (n *namer) table() string {
	parts := make([]string, len(n.order))
	for i, s := range n.order {
		parts[i] = lib.CoqBytes([]byte(s))
	}
	return lib.CoqList(parts)
}

func coqPeers(ps []int) string {
	parts := make([]string, len(ps))
	for i, p := range ps {
		parts[i] = fmt.Sprintf("%d", p)
	}
	return lib.CoqList(parts)
}

func coqCat(c string) string {
	switch c {
	case "client":
		return "CClient"
	case "topic":
		return "CTopic"
	case "channel":
		return "CChannel"
	}
	return "CClient"
}

func (n *namer) coqDebug(d []debugObs) string {
	parts := make([]string, len(d))
	for i, e := range d {
		parts[i] = fmt.Sprintf("(%s, %s, %s, %d, %s)", coqCat(e.Cat), n.name(e.Key), n.name(e.Sub), e.Peer, lib.CoqBool(e.Tomb))
	}
	return lib.CoqList(parts)
}

// coqNodes: the distinct (connection, broadcast_address:http_port) pairs of the entries.
func (n *namer) coqNodes(d []debugObs) string {
	seen := map[string]bool{}
	var parts []string
	for _, e := range d {
		k := fmt.Sprintf("%d/%s", e.Peer, e.Node)
		if seen[k] {
			continue
		}
		seen[k] = true
		parts = append(parts, fmt.Sprintf("(%d, %s)", e.Peer, n.name(e.Node)))
	}
	return lib.CoqList(parts)
}

func (n *namer) coqLookup(o lookupObs) string {
	if !o.Found {
		return "None"
	}
	return fmt.Sprintf("(Some (%s, %s))", n.names(o.Channels), coqPeers(o.Producers))
}

func coqCode(class string) string {
	switch class {
	case "E_INVALID", "E_BAD_TOPIC", "E_BAD_CHANNEL", "E_BAD_BODY":
		return class
	}
	return ""
}

// coqOut: the [out] of a well-behaved TCP command from its answer.
func coqOut(class string) string {
	switch class {
	case "OK":
		return "(OResp ROk)"
	case "JSON":
		return "(OResp RIdentified)"
	case "":
		return "ONone"
	}
	if c := coqCode(class); c != "" {
		return "(OResp (RErr " + c + "))"
	}
	return "(OStatus 0)" // never equal to a prediction
}
