// httpdrive: correspondence driver for C10 (nsqd HTTP API).
//
// Real nsqd daemons (in-process, small limits: max-msg-size 64, max-body-size 320) are
// sent generated HTTP requests over real loopback sockets (raw HTTP/1.1 so that path,
// query, framing and body are exactly what the generator chose):
//
//	route  every method x every registered path and path variants (router rules)
//	req    any route with present / missing / invalid / duplicated arguments, bodies
//	       declared / chunked / malformed, against a generated topic/channel state;
//	       the state is read through GET /stats before and after
//	pub    /pub, text /mpub and binary /mpub on daemon A and the TCP twin (PUB / DPUB /
//	       MPUB) on daemon B; what each enqueued is then consumed over TCP (deferred
//	       messages are read with their delay through the verif hook)
//	pint   strconv.ParseInt on the defer strings (the one stdlib function the model
//	       writes out)
//	hostile malformed byte streams against a SUBPROCESS nsqd (a crash is observable)
//
// Every case carries the input needed to re-run it (-replay).
package main

import (
	"bufio"
	"bytes"
	"encoding/binary"
	"encoding/json"
	"flag"
	"fmt"
	"io"
	"net"
	"net/http"
	"net/url"
	"os"
	"os/exec"
	"path/filepath"
	"regexp"
	"sort"
	"strconv"
	"strings"
	"sync"
	"time"

	"github.com/nsqio/nsq/nsqd"
	"verifharness/lib"
	"verifharness/nsqdlib"
)

const (
	maxMsg   = 64
	maxBody  = 320
	maxReqNs = int64(3600) * 1000000000
)

// ------------------------------------------------------------------ daemons
type daemon struct {
	n        *nsqd.NSQD
	httpAddr string
	tcpAddr  string
	tls      bool
}

func startDaemon(tlsRequired bool) *daemon {
	opts := nsqdlib.NewOpts(nsqdlib.ScratchDir())
	opts.MaxMsgSize = maxMsg
	opts.MaxBodySize = maxBody
	opts.MaxReqTimeout = time.Duration(maxReqNs)
	opts.HTTPSAddress = ""
	// nothing leaves a deferred or in-flight queue by itself during a run
	opts.QueueScanInterval = time.Hour
	if tlsRequired {
		repo := os.Getenv("VERIF_REPO")
		if repo == "" {
			repo = "/repo"
		}
		opts.TLSCert = filepath.Join(repo, "nsqd/test/certs/server.pem")
		opts.TLSKey = filepath.Join(repo, "nsqd/test/certs/server.key")
		opts.HTTPSAddress = "127.0.0.1:0"
		opts.TLSRequired = nsqd.TLSRequired
	}
	n, err := nsqdlib.Start(opts)
	for try := 0; err != nil && try < 20 && strings.Contains(err.Error(), "address already in use"); try++ {
		// the ephemeral port range is shared with every other check running on the machine
		time.Sleep(500 * time.Millisecond)
		n, err = nsqdlib.Start(opts)
	}
	if err != nil {
		lib.Fatalf("start nsqd: %v", err)
	}
	return &daemon{n: n, httpAddr: n.RealHTTPAddr().String(), tcpAddr: n.RealTCPAddr().String(), tls: tlsRequired}
}

// closeHard closes a client connection with an RST (SO_LINGER 0) once the exchange is over,
// so that the thousands of short connections of a run leave no TIME_WAIT sockets behind
// (several checks run on this machine at once and share the ephemeral port range).
func closeHard(conn net.Conn) {
	if tc, ok := conn.(*net.TCPConn); ok {
		tc.SetLinger(0)
	}
	conn.Close()
}

// dial connects to a loopback listener, waiting out a momentary exhaustion of the shared
// ephemeral port range.
func dial(addr string) (net.Conn, error) {
	var conn net.Conn
	var err error
	for try := 0; try < 40; try++ {
		conn, err = net.DialTimeout("tcp", addr, 5*time.Second)
		if err == nil || !(strings.Contains(err.Error(), "cannot assign requested address") || strings.Contains(err.Error(), "address already in use")) {
			return conn, err
		}
		time.Sleep(250 * time.Millisecond)
	}
	return conn, err
}

// ------------------------------------------------------------------ raw HTTP
type ReqSpec struct {
	Method  string `json:"method"`
	Target  string `json:"target"`  // raw request-target
	Framing string `json:"framing"` // none | cl | chunked | badchunk
	Body    []byte `json:"body"`
	Chunks  []int  `json:"chunks,omitempty"`
}

type RespObs struct {
	Status int
	Token  string
	Err    string
}

func wireRequest(rs ReqSpec) []byte {
	var b bytes.Buffer
	fmt.Fprintf(&b, "%s %s HTTP/1.1\r\nHost: verif\r\nConnection: close\r\n", rs.Method, rs.Target)
	switch rs.Framing {
	case "cl":
		fmt.Fprintf(&b, "Content-Length: %d\r\n\r\n", len(rs.Body))
		b.Write(rs.Body)
	case "chunked", "badchunk":
		b.WriteString("Transfer-Encoding: chunked\r\n\r\n")
		rest := rs.Body
		for _, c := range rs.Chunks {
			if c <= 0 || len(rest) == 0 {
				continue
			}
			if c > len(rest) {
				c = len(rest)
			}
			fmt.Fprintf(&b, "%x\r\n", c)
			b.Write(rest[:c])
			b.WriteString("\r\n")
			rest = rest[c:]
		}
		if len(rest) > 0 {
			fmt.Fprintf(&b, "%x\r\n", len(rest))
			b.Write(rest)
			b.WriteString("\r\n")
		}
		if rs.Framing == "badchunk" {
			b.WriteString("zz\r\nxx\r\n")
		}
		b.WriteString("0\r\n\r\n")
	default:
		b.WriteString("\r\n")
	}
	return b.Bytes()
}

func tokenOf(status int, ctype string, body []byte) string {
	if status >= 300 && status < 400 {
		return ""
	}
	if status == 200 {
		if string(body) == "OK" {
			return "OK"
		}
		return ""
	}
	if strings.HasPrefix(ctype, "application/json") {
		var m struct {
			Message string `json:"message"`
		}
		if json.Unmarshal(body, &m) == nil {
			return m.Message
		}
	}
	s := string(body)
	if i := strings.IndexByte(s, ':'); i >= 0 {
		s = s[:i]
	}
	return s
}

func doRaw(addr string, rs ReqSpec) RespObs {
	conn, err := dial(addr)
	if err != nil {
		return RespObs{Err: err.Error()}
	}
	defer closeHard(conn)
	conn.SetDeadline(time.Now().Add(20 * time.Second))
	if _, err := conn.Write(wireRequest(rs)); err != nil {
		return RespObs{Err: err.Error()}
	}
	resp, err := http.ReadResponse(bufio.NewReader(conn), &http.Request{Method: rs.Method})
	if err != nil {
		return RespObs{Err: err.Error()}
	}
	body, _ := io.ReadAll(io.LimitReader(resp.Body, 1<<20))
	resp.Body.Close()
	return RespObs{Status: resp.StatusCode, Token: tokenOf(resp.StatusCode, resp.Header.Get("Content-Type"), body)}
}

// ------------------------------------------------------------------ Coq printing
func coqMethod(m string) string {
	switch m {
	case "GET":
		return "MGet"
	case "POST":
		return "MPost"
	case "PUT":
		return "MPut"
	case "DELETE":
		return "MDelete"
	case "HEAD":
		return "MHead"
	case "OPTIONS":
		return "MOptions"
	case "PATCH":
		return "MPatch"
	case "CONNECT":
		return "MConnect"
	case "TRACE":
		return "MTrace"
	}
	return "MOther"
}

func coqPairs(ps [][2]string) string {
	parts := make([]string, len(ps))
	for i, p := range ps {
		parts[i] = "(" + lib.CoqBytes([]byte(p[0])) + "," + lib.CoqBytes([]byte(p[1])) + ")"
	}
	return "[" + strings.Join(parts, ";") + "]"
}

// parsedQuery is url.ParseQuery's result in a canonical order: keys sorted, the values
// of a key in their order of appearance (all the model uses is the first value per key).
func parsedQuery(raw string) (pairs [][2]string, ok bool) {
	vals, err := url.ParseQuery(raw)
	keys := make([]string, 0, len(vals))
	for k := range vals {
		keys = append(keys, k)
	}
	sort.Strings(keys)
	for _, k := range keys {
		for _, v := range vals[k] {
			pairs = append(pairs, [2]string{k, v})
		}
	}
	return pairs, err == nil
}

type modelReq struct {
	coq   string
	path  string
	pairs [][2]string
	qok   bool
	ascii bool
}

func isASCIIPath(p string) bool {
	for i := 0; i < len(p); i++ {
		if p[i] >= 0x80 {
			return false
		}
	}
	return true
}

// toModel derives the model's view of a request: net/http's parse of the target
// (stdlib, an input of the model) plus the body as sent.
func toModel(rs ReqSpec) (modelReq, bool) {
	u, err := url.ParseRequestURI(rs.Target)
	if err != nil {
		return modelReq{}, false
	}
	pairs, qok := parsedQuery(u.RawQuery)
	q := "(QOk " + coqPairs(pairs) + ")"
	if !qok {
		q = "(QErr " + coqPairs(pairs) + ")"
	}
	fr := "(Declared 0%Z)"
	berr := false
	switch rs.Framing {
	case "cl":
		fr = "(Declared " + lib.CoqZ(int64(len(rs.Body))) + ")"
	case "chunked":
		fr = "Chunked"
	case "badchunk":
		fr = "Chunked"
		berr = true
	}
	body := rs.Body
	if rs.Framing == "none" || rs.Framing == "" {
		body = nil
	}
	var sl []string
	jsonOK := json.Unmarshal(body, &sl) == nil
	coq := fmt.Sprintf("(mkReq %s %s %s %s %s %s %s)", coqMethod(rs.Method), lib.CoqBytes([]byte(u.Path)), q, fr,
		lib.CoqBytes(body), lib.CoqBool(berr), lib.CoqBool(jsonOK))
	return modelReq{coq: coq, path: u.Path, pairs: pairs, qok: qok, ascii: isASCIIPath(u.Path)}, true
}

func coqCfg(tls bool) string {
	return fmt.Sprintf("(jcfg %d%%Z %d%%Z %d%%Z %s)", maxMsg, maxBody, maxReqNs, lib.CoqBool(tls))
}

// ------------------------------------------------------------------ daemon state
type ChanSpec struct {
	Name   string `json:"name"`
	Paused bool   `json:"paused"`
	Depth  int    `json:"depth"`
}
type TopicSpec struct {
	Name   string     `json:"name"`
	Paused bool       `json:"paused"`
	Depth  int        `json:"depth"`
	Chans  []ChanSpec `json:"chans"`
}

type statsDoc struct {
	Topics []struct {
		Name     string `json:"topic_name"`
		Depth    int64  `json:"depth"`
		Paused   bool   `json:"paused"`
		Count    uint64 `json:"message_count"`
		Channels []struct {
			Name     string `json:"channel_name"`
			Depth    int64  `json:"depth"`
			InFlight int    `json:"in_flight_count"`
			Deferred int    `json:"deferred_count"`
			Paused   bool   `json:"paused"`
		} `json:"channels"`
	} `json:"topics"`
}

var httpClient = &http.Client{Timeout: 10 * time.Second}

// snapshot reads the daemon state the way a user can: GET /stats?format=json.  On the
// TLS-required plaintext listener (everything is 403) it reads the same numbers in-process.
func snapshot(d *daemon) []TopicSpec {
	var out []TopicSpec
	if d.tls {
		for _, t := range d.n.GetStats("", "", false).Topics {
			ts := TopicSpec{Name: t.TopicName, Paused: t.Paused, Depth: int(t.Depth)}
			for _, c := range t.Channels {
				ts.Chans = append(ts.Chans, ChanSpec{Name: c.ChannelName, Paused: c.Paused, Depth: int(c.Depth) + c.InFlightCount + c.DeferredCount})
			}
			out = append(out, ts)
		}
	} else {
		resp, err := httpClient.Get("http://" + d.httpAddr + "/stats?format=json&include_clients=false&include_mem=false")
		if err != nil {
			lib.Fatalf("GET /stats: %v", err)
		}
		var doc statsDoc
		err = json.NewDecoder(resp.Body).Decode(&doc)
		resp.Body.Close()
		if err != nil || resp.StatusCode != 200 {
			lib.Fatalf("GET /stats: status %d, %v", resp.StatusCode, err)
		}
		for _, t := range doc.Topics {
			ts := TopicSpec{Name: t.Name, Paused: t.Paused, Depth: int(t.Depth)}
			for _, c := range t.Channels {
				ts.Chans = append(ts.Chans, ChanSpec{Name: c.Name, Paused: c.Paused, Depth: int(c.Depth) + c.InFlight + c.Deferred})
			}
			out = append(out, ts)
		}
	}
	sort.Slice(out, func(i, j int) bool { return out[i].Name < out[j].Name })
	for i := range out {
		cs := out[i].Chans
		sort.Slice(cs, func(a, b int) bool { return cs[a].Name < cs[b].Name })
	}
	return out
}

func settled(st []TopicSpec) bool {
	for _, t := range st {
		if !t.Paused && len(t.Chans) > 0 && t.Depth > 0 {
			return false
		}
	}
	return true
}

// settle waits for the exact quiescence condition of the topic pumps and returns the
// state read at that point.  Topic.messagePump takes a message out of the topic queue and
// only then copies it to the channels, so "queue empty" alone can be observed while the
// last message is still in the pump's hand.  The pump serves its pauseChan only from its
// select loop, never in the middle of a hand-off: a synchronous UnPause() of an already
// un-paused topic (a no-op for the state) therefore returns only after every message the
// pump had taken has reached the channels.  Sequence: queue empty -> rendezvous -> read
// again.  When [gone] is given the topic must also have vanished (the self-deletion of an
// ephemeral topic that lost its last channel is asynchronous).
func settle(d *daemon, gone string) ([]TopicSpec, bool) {
	deadline := time.Now().Add(5 * time.Second)
	for {
		st := snapshot(d)
		if settled(st) {
			for _, t := range st {
				if !t.Paused && len(t.Chans) > 0 {
					if tp, err := d.n.GetExistingTopic(t.Name); err == nil {
						tp.UnPause()
					}
				}
			}
			st = snapshot(d)
			ok := settled(st)
			if ok && gone != "" {
				for _, t := range st {
					if t.Name == gone && len(t.Chans) == 0 {
						ok = false
					}
				}
			}
			if ok {
				return st, true
			}
		}
		if time.Now().After(deadline) {
			return st, false
		}
		time.Sleep(200 * time.Microsecond)
	}
}

func wipe(d *daemon) {
	for _, t := range d.n.GetStats("", "", false).Topics {
		d.n.DeleteExistingTopic(t.TopicName)
	}
}

func build(d *daemon, spec []TopicSpec) {
	for _, ts := range spec {
		t := d.n.GetTopic(ts.Name)
		if ts.Paused {
			t.Pause()
		}
		for _, cs := range ts.Chans {
			c := t.GetChannel(cs.Name)
			if cs.Paused {
				c.Pause()
			}
			for i := 0; i < cs.Depth; i++ {
				c.PutMessage(nsqd.NewMessage(t.GenerateID(), []byte(fmt.Sprintf("pre-%d", i))))
			}
		}
		if ts.Paused || len(ts.Chans) == 0 {
			for i := 0; i < ts.Depth; i++ {
				t.PutMessage(nsqd.NewMessage(t.GenerateID(), []byte(fmt.Sprintf("pre-%d", i))))
			}
		}
	}
}

func coqState(st []TopicSpec) string {
	ts := make([]string, len(st))
	for i, t := range st {
		cs := make([]string, len(t.Chans))
		for j, c := range t.Chans {
			cs[j] = fmt.Sprintf("(%s,mkChan %s %s)", lib.CoqBytes([]byte(c.Name)), lib.CoqBool(c.Paused), lib.CoqZ(int64(c.Depth)))
		}
		ts[i] = fmt.Sprintf("(%s,mkTopic %s %s [%s])", lib.CoqBytes([]byte(t.Name)), lib.CoqBool(t.Paused), lib.CoqZ(int64(t.Depth)), strings.Join(cs, ";"))
	}
	return "[" + strings.Join(ts, ";") + "]"
}

// ------------------------------------------------------------------ inputs
type Input struct {
	Kind string `json:"kind"` // route | req | pub | pint | hostile
	Name string `json:"name,omitempty"`
	// route, req, pub
	Req *ReqSpec `json:"req,omitempty"`
	// req
	Pre []TopicSpec `json:"pre,omitempty"`
	TLS bool        `json:"tls,omitempty"`
	// pub
	PubKind string `json:"pubkind,omitempty"` // pub | mpub-binary | mpub-text
	// pint
	S []byte `json:"s,omitempty"`
	// hostile
	Seed  uint64 `json:"seed,omitempty"`
	Group int    `json:"group,omitempty"`
}

type ctx struct {
	o     *lib.Out
	a, b  *daemon
	tlsd  *daemon
	stats map[string]int
	mu    sync.Mutex
}

func (c *ctx) count(k string) {
	c.mu.Lock()
	c.stats[k]++
	c.mu.Unlock()
}

func qval(pairs [][2]string, key string) (string, bool) {
	for _, p := range pairs {
		if p[0] == key {
			return p[1], true
		}
	}
	return "", false
}

// nameLenTags: coverage tags for topic / channel arguments at the name-length limit
// (63, 64, 65 bytes, with or without the #ephemeral suffix).
func nameLenTags(pairs [][2]string) []string {
	var tags []string
	for _, key := range []string{"topic", "channel"} {
		v, ok := qval(pairs, key)
		if !ok || len(v) < 63 || len(v) > 65 {
			continue
		}
		eph := ""
		if strings.HasSuffix(v, "#ephemeral") {
			eph = "+eph"
		}
		tags = append(tags, fmt.Sprintf("%s-len=%d%s", key, len(v), eph))
	}
	return tags
}

func routeTag(path string) string {
	if strings.HasPrefix(path, "/config/") {
		return "/config/:opt"
	}
	return path
}

// routeWords: the words the API itself is made of - path segments of the routes and the
// names / values of their parameters.  Every one of them is also a VALID topic / channel
// name and a harmless extra argument: a handler that looks for one of them anywhere but in
// the route path or in its own parameter must not be fooled by a user-chosen string.
var routeWords = []string{"pause", "unpause", "empty", "delete", "create", "topic", "channel", "binary", "defer", "format", "json",
	"pub", "mpub", "stats", "true"}

// the words that are segments of the admin routes: the full endpoint x position matrix
var adminWords = []string{"pause", "unpause", "empty", "delete", "create", "topic", "channel", "binary"}

func routeWordIn(s string) string {
	l := strings.ToLower(s)
	// longest first: "unpause" before "pause", "mpub" before "pub"
	for _, w := range []string{"unpause", "pause", "empty", "delete", "create", "topic", "channel", "binary", "defer", "format", "json", "mpub", "pub", "stats", "true"} {
		if strings.Contains(l, w) {
			return w
		}
	}
	return ""
}

// routeWordTags: coverage tags for requests whose user-chosen strings (topic name, channel
// name, the key or the value of an argument the endpoint does not know) contain a route word.
func routeWordTags(path string, pairs [][2]string, status int) []string {
	var tags []string
	seen := map[string]bool{}
	add := func(pos, w string) {
		for _, t := range []string{"routeword-in-" + pos, "routeword=" + w, fmt.Sprintf("routeword:%s:%s:%d", pos, routeTag(path), status)} {
			if !seen[t] {
				seen[t] = true
				tags = append(tags, t)
			}
		}
	}
	known := map[string]bool{"topic": true, "channel": true, "defer": true, "binary": true, "format": true, "rate": true,
		"include_clients": true, "include_mem": true}
	for _, p := range pairs {
		switch {
		case p[0] == "topic" || p[0] == "channel":
			if w := routeWordIn(p[1]); w != "" {
				add(p[0]+"-name", w)
			}
		case !known[p[0]]:
			if w := routeWordIn(p[0]); w != "" {
				add("extra-key", w)
			}
			if w := routeWordIn(p[1]); w != "" {
				add("extra-value", w)
			}
		}
	}
	// a parameter of another endpoint given to one that has no use for it
	foreign := map[string][]string{"channel": {"/topic/", "/pub", "/mpub"}, "defer": {"/topic/", "/channel/", "/mpub"},
		"binary": {"/topic/", "/channel/", "/pub"}, "format": {"/topic/", "/channel/", "/pub", "/mpub"}}
	for _, p := range pairs {
		for _, pre := range foreign[p[0]] {
			if strings.HasPrefix(path, pre) && !(pre == "/pub" && strings.HasPrefix(path, "/pub/")) {
				add("foreign-param", p[0])
			}
		}
	}
	return tags
}

// ------------------------------------------------------------------ route probes
func runRoute(c *ctx, in Input) {
	mr, ok := toModel(*in.Req)
	if !ok {
		return
	}
	obs := doRaw(c.a.httpAddr, *in.Req)
	if obs.Err != "" {
		lib.Fatalf("route probe %s %s: %s", in.Req.Method, in.Req.Target, obs.Err)
	}
	exact := mr.ascii && in.Req.Method != "CONNECT"
	coq := fmt.Sprintf("(J10.Route %s %s %s %s %s)", coqMethod(in.Req.Method), lib.CoqBytes([]byte(mr.path)), lib.CoqBool(exact),
		lib.CoqZ(int64(obs.Status)), lib.CoqBytes([]byte(obs.Token)))
	c.o.Emit(lib.Case{Name: in.Name, Coq: coq, Input: in,
		Tags:       []string{"kind=route", "method=" + in.Req.Method, fmt.Sprintf("route-status=%d", obs.Status)},
		Nontrivial: obs.Status != 404, Obs: map[string]interface{}{"status": obs.Status, "token": obs.Token}})
}

// ------------------------------------------------------------------ requests against a state
func runReq(c *ctx, in Input) {
	d := c.a
	if in.TLS {
		d = c.tlsd
	}
	mr, ok := toModel(*in.Req)
	if !ok {
		return
	}
	wipe(d)
	build(d, in.Pre)
	pre, okPre := settle(d, "")
	obs := doRaw(d.httpAddr, *in.Req)
	if obs.Err != "" {
		lib.Fatalf("request %s %s: %s", in.Req.Method, in.Req.Target, obs.Err)
	}
	gone := ""
	if mr.path == "/channel/delete" && obs.Status == 200 && in.Req.Method == "POST" {
		if t, ok := qval(mr.pairs, "topic"); ok && strings.HasSuffix(t, "#ephemeral") {
			gone = t
		}
	}
	post, okPost := settle(d, gone)
	if !okPre || !okPost {
		c.count("unsettled")
		if os.Getenv("HTTPDRIVE_DEBUG") != "" {
			fmt.Fprintf(os.Stderr, "unsettled %s pre=%v post=%v %s %s\n  pre=%+v\n  post=%+v\n", in.Name, okPre, okPost, in.Req.Method, in.Req.Target, pre, post)
		}
	}
	exact := mr.ascii && in.Req.Method != "CONNECT"
	coq := fmt.Sprintf("(J10.Req %s %s %s %s %s %s %s)", coqCfg(in.TLS), coqState(pre), mr.coq, lib.CoqBool(exact),
		lib.CoqZ(int64(obs.Status)), lib.CoqBytes([]byte(obs.Token)), coqState(post))
	changed := coqState(pre) != coqState(post)
	tags := []string{"kind=req", "route=" + routeTag(mr.path), fmt.Sprintf("status=%d", obs.Status), "framing=" + in.Req.Framing,
		fmt.Sprintf("state-changed=%v", changed)}
	if obs.Status != 200 && obs.Token != "" {
		tags = append(tags, "token="+obs.Token)
	}
	if !mr.qok {
		tags = append(tags, "query=parse-error")
	}
	for _, t := range nameLenTags(mr.pairs) {
		tags = append(tags, t, fmt.Sprintf("%s:%s:%d", t, routeTag(mr.path), obs.Status))
	}
	tags = append(tags, routeWordTags(mr.path, mr.pairs, obs.Status)...)
	if strings.HasPrefix(mr.path, "/config/") && (in.Req.Method == "GET" || in.Req.Method == "PUT") {
		tags = append(tags, fmt.Sprintf("config:%s:%s:%d", in.Req.Method, strings.TrimPrefix(mr.path, "/config/"), obs.Status))
	}
	c.o.Emit(lib.Case{Name: in.Name, Coq: coq, Input: in, Tags: tags, Nontrivial: true,
		Obs: map[string]interface{}{"status": obs.Status, "token": obs.Token, "pre": pre, "post": post}})
}

// ------------------------------------------------------------------ publishes and their TCP twins
func frame(conn net.Conn) (ftype int32, data []byte, err error) {
	var hdr [8]byte
	if _, err = io.ReadFull(conn, hdr[:]); err != nil {
		return
	}
	size := int32(binary.BigEndian.Uint32(hdr[:4]))
	ftype = int32(binary.BigEndian.Uint32(hdr[4:]))
	if size < 4 || size > 1<<22 {
		return 0, nil, fmt.Errorf("bad frame size %d", size)
	}
	data = make([]byte, size-4)
	_, err = io.ReadFull(conn, data)
	return
}

// tcpSend writes one command (line + payload) after the magic, half-closes, and returns
// the code (first word) of the first response or error frame.
func tcpSend(addr string, line []byte, payload []byte) string {
	conn, err := dial(addr)
	if err != nil {
		lib.Fatalf("tcp dial: %v", err)
	}
	defer closeHard(conn)
	conn.SetDeadline(time.Now().Add(10 * time.Second))
	var b bytes.Buffer
	b.WriteString("  V2")
	b.Write(line)
	b.Write(payload)
	conn.Write(b.Bytes())
	conn.(*net.TCPConn).CloseWrite()
	for {
		ft, data, err := frame(conn)
		if err != nil {
			return ""
		}
		if ft == 0 && string(data) == "_heartbeat_" {
			continue
		}
		s := string(data)
		if i := strings.IndexByte(s, ' '); i >= 0 {
			s = s[:i]
		}
		return s
	}
}

// consume subscribes to topic/channel over TCP and takes n messages (FIN each).
func consume(addr, topic, channel string, n int) [][]byte {
	var got [][]byte
	if n <= 0 {
		return got
	}
	conn, err := dial(addr)
	if err != nil {
		lib.Fatalf("tcp dial: %v", err)
	}
	defer closeHard(conn)
	conn.SetDeadline(time.Now().Add(10 * time.Second))
	fmt.Fprintf(conn, "  V2SUB %s %s\nRDY %d\n", topic, channel, n)
	for len(got) < n {
		ft, data, err := frame(conn)
		if err != nil {
			return got
		}
		if ft == 2 && len(data) >= 26 {
			got = append(got, append([]byte{}, data[26:]...))
			fmt.Fprintf(conn, "FIN %s\n", data[10:26])
		} else if ft == 0 && string(data) == "_heartbeat_" {
			fmt.Fprintf(conn, "NOP\n")
		} else if ft == 1 {
			return got
		}
	}
	return got
}

type enq struct {
	created  bool
	got      [][]byte
	defBody  [][]byte
	defDelay []int64
	complete bool
}

// harvest reads what a publish left on the daemon: topic existence, then (through a
// channel created now) every message, immediate ones by consuming over TCP.
func harvest(d *daemon, name string) enq {
	var e enq
	e.complete = true
	if !validUTF8Name(name) {
		return e
	}
	t, err := d.n.GetExistingTopic(name)
	if err != nil {
		return e
	}
	e.created = true
	t.GetChannel("c")
	st, ok := settle(d, "")
	if !ok {
		e.complete = false
	}
	depth, deferred, count := 0, 0, -1
	for _, ts := range st {
		if ts.Name == name {
			for _, cs := range ts.Chans {
				if cs.Name == "c" {
					count = cs.Depth
				}
			}
		}
	}
	for _, tst := range d.n.GetStats(name, "c", false).Topics {
		for _, cst := range tst.Channels {
			depth, deferred = int(cst.Depth), cst.DeferredCount
		}
	}
	e.got = consume(d.tcpAddr, name, "c", depth)
	bodies, delays, _ := d.n.VerifDeferredOf(name, "c")
	e.defBody, e.defDelay = bodies, delays
	if len(e.got) != depth || len(bodies) != deferred || count != depth+deferred {
		e.complete = false
		if os.Getenv("HTTPDRIVE_DEBUG") != "" {
			fmt.Fprintf(os.Stderr, "harvest %q: got=%d depth=%d hookdeferred=%d deferred=%d count=%d\n", name, len(e.got), depth, len(bodies), deferred, count)
		}
	}
	d.n.DeleteExistingTopic(name)
	return e
}

func validUTF8Name(s string) bool { return len(s) > 0 }

func coqDeferred(bodies [][]byte, delays []int64) string {
	parts := make([]string, len(bodies))
	for i := range bodies {
		parts[i] = "(" + lib.CoqBytes(bodies[i]) + "," + lib.CoqZ(delays[i]) + ")"
	}
	return "[" + strings.Join(parts, ";") + "]"
}

func allDigits(s string) bool {
	if s == "" {
		return false
	}
	for i := 0; i < len(s); i++ {
		if s[i] < '0' || s[i] > '9' {
			return false
		}
	}
	return true
}

func wireSafeName(s string) bool {
	for i := 0; i < len(s); i++ {
		if s[i] <= 0x20 {
			return false
		}
	}
	return true
}

func nonEmptyLines(body []byte) [][]byte {
	var out [][]byte
	for _, l := range bytes.Split(body, []byte("\n")) {
		if len(l) > 0 {
			out = append(out, l)
		}
	}
	return out
}

func be32(v int32) []byte {
	var b [4]byte
	binary.BigEndian.PutUint32(b[:], uint32(v))
	return b[:]
}

func runPub(c *ctx, in Input) {
	mr, ok := toModel(*in.Req)
	if !ok {
		return
	}
	rs := *in.Req
	body := rs.Body
	if rs.Framing == "none" || rs.Framing == "" {
		body = nil
	}
	name, hasTopic := qval(mr.pairs, "topic")
	// make sure neither daemon knows the topic yet
	if hasTopic && name != "" {
		c.a.n.DeleteExistingTopic(name)
		c.b.n.DeleteExistingTopic(name)
	}
	obs := doRaw(c.a.httpAddr, rs)
	if obs.Err != "" {
		lib.Fatalf("publish %s: %s", rs.Target, obs.Err)
	}
	var he enq
	he.complete = true
	if hasTopic {
		he = harvest(c.a, name)
	}

	// the TCP twin
	twin := "TwNone"
	tcode := ""
	var te enq
	te.complete = true
	kind := "KPub"
	// (a 5xx from the HTTP side already fails the property for this input; the same payload
	// is then not sent to the in-process TCP twin, where a panic would take the driver down
	// before the case is written)
	expressible := mr.qok && hasTopic && wireSafeName(name) && rs.Framing != "badchunk" && rs.Method == "POST" && obs.Status < 500
	switch in.PubKind {
	case "pub":
		if ds, has := qval(mr.pairs, "defer"); has {
			if expressible && allDigits(ds) {
				twin = fmt.Sprintf("(TwDpub %s %s %s %s)", lib.CoqBytes([]byte(name)), lib.CoqBytes([]byte(ds)), lib.CoqZ(int64(len(body))), lib.CoqBytes(body))
				tcode = tcpSend(c.b.tcpAddr, []byte("DPUB "+name+" "+ds+"\n"), append(be32(int32(len(body))), body...))
			}
		} else if expressible {
			twin = fmt.Sprintf("(TwPub %s %s %s)", lib.CoqBytes([]byte(name)), lib.CoqZ(int64(len(body))), lib.CoqBytes(body))
			tcode = tcpSend(c.b.tcpAddr, []byte("PUB "+name+"\n"), append(be32(int32(len(body))), body...))
		}
	case "mpub-binary":
		kind = "KMpubBinary"
		if expressible {
			size := len(body)
			if rs.Framing == "chunked" && size > maxBody {
				size = maxBody // the daemon reads no more than max-body-size of a chunked body
			}
			twin = fmt.Sprintf("(TwMpub %s %s %s)", lib.CoqBytes([]byte(name)), lib.CoqZ(int64(size)), lib.CoqBytes(body))
			tcode = tcpSend(c.b.tcpAddr, []byte("MPUB "+name+"\n"), append(be32(int32(size)), body...))
		}
	case "mpub-text":
		kind = "KMpubText"
		if expressible {
			lines := nonEmptyLines(body)
			var p bytes.Buffer
			p.Write(be32(int32(len(lines))))
			for _, l := range lines {
				p.Write(be32(int32(len(l))))
				p.Write(l)
			}
			twin = fmt.Sprintf("(TwMpub %s %s %s)", lib.CoqBytes([]byte(name)), lib.CoqZ(int64(p.Len())), lib.CoqBytes(p.Bytes()))
			tcode = tcpSend(c.b.tcpAddr, []byte("MPUB "+name+"\n"), append(be32(int32(p.Len())), p.Bytes()...))
		}
	}
	if twin != "TwNone" {
		te = harvest(c.b, name)
	}
	if !he.complete || !te.complete {
		c.count("harvest-incomplete")
	}
	coq := fmt.Sprintf("(J10.Pub %s %s %s %s %s %s %s %s %s %s %s %s %s)", coqCfg(false), kind, mr.coq,
		lib.CoqZ(int64(obs.Status)), lib.CoqBytes([]byte(obs.Token)),
		lib.CoqBool(he.created), lib.CoqBytesList(he.got), coqDeferred(he.defBody, he.defDelay),
		twin, lib.CoqBytes([]byte(tcode)),
		lib.CoqBool(te.created), lib.CoqBytesList(te.got), coqDeferred(te.defBody, te.defDelay))
	tags := []string{"kind=" + in.PubKind, fmt.Sprintf("pub-status=%d", obs.Status), "pub-framing=" + rs.Framing,
		fmt.Sprintf("twin=%v", twin != "TwNone"), fmt.Sprintf("enqueued=%d", len(he.got)+len(he.defBody))}
	if obs.Status != 200 {
		tags = append(tags, "pub-token="+obs.Token)
	}
	if tcode != "" {
		tags = append(tags, "tcp="+tcode)
	}
	if len(he.defBody) > 0 {
		tags = append(tags, "deferred=yes")
	}
	for _, t := range nameLenTags(mr.pairs) {
		tags = append(tags, t, fmt.Sprintf("%s:%s:%d:tcp=%s", t, in.PubKind, obs.Status, tcode))
	}
	tags = append(tags, routeWordTags(mr.path, mr.pairs, obs.Status)...)
	c.o.Emit(lib.Case{Name: in.Name, Coq: coq, Input: in, Tags: tags, Nontrivial: true,
		Obs: map[string]interface{}{"status": obs.Status, "token": obs.Token, "tcp": tcode,
			"http_enqueued": len(he.got) + len(he.defBody), "tcp_enqueued": len(te.got) + len(te.defBody), "http_created": he.created, "tcp_created": te.created}})
}

// ------------------------------------------------------------------ strconv.ParseInt
func runPInt(c *ctx, in Input) {
	v, err := strconv.ParseInt(string(in.S), 10, 64)
	coq := fmt.Sprintf("(J10.PInt %s %s %s)", lib.CoqBytes(in.S), lib.CoqBool(err == nil), lib.CoqZ(v))
	c.o.Emit(lib.Case{Name: in.Name, Coq: coq, Input: in, Tags: []string{"kind=pint", fmt.Sprintf("pint-ok=%v", err == nil)}, Nontrivial: true})
}

// ------------------------------------------------------------------ hostile streams, subprocess daemon
var listenRe = regexp.MustCompile(`(TCP|HTTP): listening on (\S+)`)

type subproc struct {
	cmd      *exec.Cmd
	httpAddr string
	tcpAddr  string
	dir      string
	exited   chan struct{}
}

func startSubproc() *subproc {
	bin := filepath.Join(os.Getenv("VERIF_BIN_DIR"), "nsqd")
	if _, err := os.Stat(bin); err != nil {
		return nil
	}
	for try := 0; ; try++ {
		sp, retry := startSubprocOnce(bin)
		if sp != nil {
			return sp
		}
		if !retry || try >= 20 {
			lib.Fatalf("nsqd binary did not report its listeners")
		}
		time.Sleep(500 * time.Millisecond)
	}
}

// startSubprocOnce: (nil, true) when the daemon could not bind a port (shared ephemeral
// range exhausted for a moment) and starting again is the right thing to do.
func startSubprocOnce(bin string) (*subproc, bool) {
	dir, err := os.MkdirTemp(nsqdlib.ScratchDir(), "hostile-")
	if err != nil {
		lib.Fatalf("mkdtemp: %v", err)
	}
	cmd := exec.Command(bin, "-data-path", dir, "-tcp-address", "127.0.0.1:0", "-http-address", "127.0.0.1:0", "-https-address", "",
		"-max-msg-size", strconv.Itoa(maxMsg), "-max-body-size", strconv.Itoa(maxBody))
	stderr, err := cmd.StderrPipe()
	if err != nil {
		lib.Fatalf("pipe: %v", err)
	}
	if err := cmd.Start(); err != nil {
		lib.Fatalf("start nsqd binary: %v", err)
	}
	sp := &subproc{cmd: cmd, dir: dir, exited: make(chan struct{})}
	ready := make(chan struct{})
	bindFailed := make(chan struct{}, 1)
	go func() {
		sc := bufio.NewScanner(stderr)
		sc.Buffer(make([]byte, 1<<20), 1<<20)
		signalled := false
		for sc.Scan() {
			if strings.Contains(sc.Text(), "address already in use") {
				select {
				case bindFailed <- struct{}{}:
				default:
				}
			}
			if m := listenRe.FindStringSubmatch(sc.Text()); m != nil {
				if m[1] == "TCP" {
					sp.tcpAddr = m[2]
				} else {
					sp.httpAddr = m[2]
				}
				if !signalled && sp.tcpAddr != "" && sp.httpAddr != "" {
					signalled = true
					close(ready)
				}
			}
		}
	}()
	select {
	case <-ready:
	case <-bindFailed:
		cmd.Process.Kill()
		cmd.Wait()
		os.RemoveAll(dir)
		return nil, true
	case <-time.After(30 * time.Second):
		cmd.Process.Kill()
		cmd.Wait()
		os.RemoveAll(dir)
		return nil, false
	}
	go func() {
		// (after the listeners were reported: the stderr reader has what it needs)
		cmd.Wait()
		close(sp.exited)
	}()
	return sp, false
}

func (sp *subproc) hasExited() bool {
	select {
	case <-sp.exited:
		return true
	default:
		return false
	}
}

func (sp *subproc) stop() {
	sp.cmd.Process.Kill()
	<-sp.exited
	os.RemoveAll(sp.dir)
}

// rawStatus sends bytes and returns the status code of the first response (0 = none).
func rawStatus(addr string, data []byte, halfClose bool) int {
	conn, err := dial(addr)
	if err != nil {
		return -1
	}
	defer closeHard(conn)
	conn.SetDeadline(time.Now().Add(3 * time.Second))
	conn.Write(data)
	if halfClose {
		conn.(*net.TCPConn).CloseWrite()
	}
	line, _ := bufio.NewReader(conn).ReadString('\n')
	f := strings.Fields(line)
	if len(f) >= 2 && strings.HasPrefix(f[0], "HTTP/") {
		if v, err := strconv.Atoi(f[1]); err == nil {
			return v
		}
	}
	return 0
}

func hostileStreams(r *lib.Rand, group int) [][]byte {
	var out [][]byte
	add := func(s string) { out = append(out, []byte(s)) }
	posts := []string{"/pub?topic=h", "/mpub?topic=h", "/mpub?topic=h&binary=true", "/topic/create?topic=h", "/topic/delete?topic=h",
		"/topic/empty?topic=h", "/topic/pause?topic=h", "/channel/create?topic=h&channel=c", "/channel/delete?topic=h&channel=c",
		"/channel/empty?topic=h&channel=c", "/channel/pause?topic=h&channel=c", "/debug/freememory"}
	switch group % 4 {
	case 0: // malformed framing on every route that reads a body
		for _, p := range posts {
			add("POST " + p + " HTTP/1.1\r\nHost: h\r\nTransfer-Encoding: chunked\r\n\r\nzz\r\nhello\r\n0\r\n\r\n")
			add("POST " + p + " HTTP/1.1\r\nHost: h\r\nTransfer-Encoding: chunked\r\n\r\n5\r\nhel")
			add("POST " + p + " HTTP/1.1\r\nHost: h\r\nContent-Length: 50\r\n\r\nshort")
			add("POST " + p + " HTTP/1.1\r\nHost: h\r\nContent-Length: -5\r\n\r\nhello")
			add("POST " + p + " HTTP/1.1\r\nHost: h\r\nContent-Length: 5\r\nTransfer-Encoding: chunked\r\n\r\n5\r\nhello\r\n0\r\n\r\n")
			add("POST " + p + " HTTP/1.1\r\nHost: h\r\nContent-Length: 99999999999999999999\r\n\r\nhello")
			add("POST " + p + " HTTP/1.1\r\nHost: h\r\nTransfer-Encoding: chunked\r\n\r\nffffffffffffffff\r\nhello\r\n0\r\n\r\n")
		}
		add("PUT /config/log_level HTTP/1.1\r\nHost: h\r\nTransfer-Encoding: chunked\r\n\r\nzz\r\ninfo\r\n0\r\n\r\n")
		add("PUT /config/nsqlookupd_tcp_addresses HTTP/1.1\r\nHost: h\r\nContent-Length: 40\r\n\r\n[\"a\"")
	case 1: // malformed request lines and headers
		add("GET\r\n\r\n")
		add("GET /ping\r\n\r\n")
		add("GET /ping HTTP/9.9\r\nHost: h\r\n\r\n")
		add("GET /ping HTTP/1.0\r\n\r\n")
		add("PRI * HTTP/2.0\r\n\r\nSM\r\n\r\n")
		add("GET /ping HTTP/1.1\r\n\r\n")
		add("GET /ping HTTP/1.1\r\nHost: h\r\nHost: i\r\n\r\n")
		add("GET /pi ng HTTP/1.1\r\nHost: h\r\n\r\n")
		add("GET /ping\x00 HTTP/1.1\r\nHost: h\r\n\r\n")
		add("GET /%zz HTTP/1.1\r\nHost: h\r\n\r\n")
		add("GET /stats?format=%zz HTTP/1.1\r\nHost: h\r\n\r\n")
		add("GET /stats?a=1;b=2 HTTP/1.1\r\nHost: h\r\n\r\n")
		add("GET /ping HTTP/1.1\r\nHost: h\r\nBad Header: x\r\n\r\n")
		add("GET /ping HTTP/1.1\r\nHost: h\r\n: empty\r\n\r\n")
		add("GET /" + strings.Repeat("a", 9000) + " HTTP/1.1\r\nHost: h\r\n\r\n")
		add("GET /ping HTTP/1.1\r\nHost: h\r\nX-Big: " + strings.Repeat("b", 1100000) + "\r\n\r\n")
		add("GET /config/" + strings.Repeat("%00", 50) + " HTTP/1.1\r\nHost: h\r\n\r\n")
		add("OPTIONS * HTTP/1.1\r\nHost: h\r\n\r\n")
		add("CONNECT h:1 HTTP/1.1\r\nHost: h\r\n\r\n")
		add("GET http://other/ping HTTP/1.1\r\nHost: h\r\n\r\n")
		add("POST /pub?topic=h HTTP/1.1\r\nHost: h\r\nExpect: 100-continue\r\nContent-Length: 100000\r\n\r\n")
		add("POST /pub?topic=h HTTP/1.1\r\nHost: h\r\nTransfer-Encoding: gzip\r\n\r\nabc")
		add("GET /ping HTTP/1.1\r\nHost: h\r\n\r\nGET /info HTTP/1.1\r\nHost: h\r\n\r\nGET /nope HTTP/1.1\r\nHost: h\r\n\r\n")
		for i := 0; i < 10; i++ {
			out = append(out, r.Bytes(1+r.Intn(300)))
		}
	case 2: // binary batches with hostile counts and sizes, declared and chunked
		counts := []int32{0, -1, 1, 2, 62, 63, 64, 1 << 20, 0x7fffffff, -0x80000000}
		sizes := []int32{0, -1, 1, 63, 64, 65, 1 << 20, 0x7fffffff, -0x80000000}
		for _, cnt := range counts {
			for _, sz := range sizes {
				var p bytes.Buffer
				p.Write(be32(cnt))
				p.Write(be32(sz))
				p.Write(bytes.Repeat([]byte("m"), r.Intn(70)))
				body := p.Bytes()
				if r.Bool() {
					add(fmt.Sprintf("POST /mpub?topic=h&binary=true HTTP/1.1\r\nHost: h\r\nContent-Length: %d\r\n\r\n%s", len(body), body))
				} else {
					add(fmt.Sprintf("POST /mpub?topic=h&binary=true HTTP/1.1\r\nHost: h\r\nTransfer-Encoding: chunked\r\n\r\n%x\r\n%s\r\n0\r\n\r\n", len(body), body))
				}
			}
		}
		// a long chunked stream of valid messages: bounded by max-body-size
		var p bytes.Buffer
		p.Write(be32(63))
		for i := 0; i < 63; i++ {
			p.Write(be32(64))
			p.Write(bytes.Repeat([]byte{byte('a' + i%26)}, 64))
		}
		add(fmt.Sprintf("POST /mpub?topic=h&binary=true HTTP/1.1\r\nHost: h\r\nTransfer-Encoding: chunked\r\n\r\n%x\r\n%s\r\n0\r\n\r\n", p.Len(), p.Bytes()))
	case 3: // argument soup on every route and method
		methods := []string{"GET", "POST", "PUT", "DELETE", "HEAD", "OPTIONS", "PATCH", "TRACE", "FOO"}
		paths := []string{"/ping", "/info", "/pub", "/mpub", "/stats", "/topic/create", "/topic/delete", "/topic/empty", "/topic/pause", "/topic/unpause",
			"/channel/create", "/channel/delete", "/channel/empty", "/channel/pause", "/channel/unpause", "/config/log_level", "/config/x",
			"/debug/setblockrate", "/debug/freememory", "/debug/pprof/cmdline"}
		vals := []string{"", "h", "%00", "%ff%fe", strings.Repeat("x", 65), "a%20b", "a%0Ab", "h%23ephemeral", "%23ephemeral", "..", "-1", "18446744073709551616"}
		for i := 0; i < 120; i++ {
			m := methods[r.Intn(len(methods))]
			p := paths[r.Intn(len(paths))]
			if r.Chance(65) { // mostly the method the route is registered with
				switch {
				case p == "/ping" || p == "/info" || p == "/stats" || strings.HasPrefix(p, "/debug/pprof"):
					m = "GET"
				case p == "/debug/setblockrate":
					m = "PUT"
				case strings.HasPrefix(p, "/config/"):
					m = []string{"GET", "PUT"}[r.Intn(2)]
				default:
					m = "POST"
				}
			}
			q := fmt.Sprintf("topic=%s&channel=%s&defer=%s&binary=%s&rate=%s&format=%s", vals[r.Intn(len(vals))], vals[r.Intn(len(vals))],
				vals[r.Intn(len(vals))], vals[r.Intn(len(vals))], vals[r.Intn(len(vals))], vals[r.Intn(len(vals))])
			body := string(r.Bytes(r.Intn(400)))
			add(fmt.Sprintf("%s %s?%s HTTP/1.1\r\nHost: h\r\nContent-Length: %d\r\n\r\n%s", m, p, q, len(body), body))
		}
	}
	return out
}

func runHostile(c *ctx, in Input) {
	sp := startSubproc()
	if sp == nil {
		c.count("hostile-skipped-no-binary")
		return
	}
	defer sp.stop()
	r := lib.NewRand(in.Seed)
	streams := hostileStreams(r, in.Group)
	statuses := make([]string, 0, len(streams))
	hist := map[int]int{}
	for _, s := range streams {
		st := rawStatus(sp.httpAddr, s, true)
		if st < 0 {
			st = 599 // could not even connect: the daemon is gone
		}
		hist[st]++
		statuses = append(statuses, lib.CoqZ(int64(st)))
	}
	alive := rawStatus(sp.httpAddr, []byte("GET /ping HTTP/1.1\r\nHost: h\r\nConnection: close\r\n\r\n"), false) == 200 && !sp.hasExited()
	tags := []string{"kind=hostile", fmt.Sprintf("hostile-group=%d", in.Group%4), fmt.Sprintf("alive=%v", alive)}
	for st, k := range hist {
		tags = append(tags, fmt.Sprintf("hostile-status-%d(x%d)", st, k))
	}
	sort.Strings(tags)
	coq := fmt.Sprintf("(J10.Hostile %s [%s])", lib.CoqBool(alive), strings.Join(statuses, ";"))
	c.o.Emit(lib.Case{Name: in.Name, Coq: coq, Input: in, Tags: tags, Nontrivial: true,
		Obs: map[string]interface{}{"alive": alive, "statuses": hist, "streams": len(streams)}})
}

// ------------------------------------------------------------------ generators
const nameAlphabet = "abcdefghijklmnopqrstuvwxyzABCDEFGHIJKLMNOPQRSTUVWXYZ0123456789._-"

func genValidName(r *lib.Rand) string {
	if r.Chance(12) {
		// a name built around one of the words the API is made of
		n := wordName(r, routeWords[r.Intn(len(routeWords))])
		if r.Chance(10) {
			n += "#ephemeral"
		}
		return n
	}
	lens := []int{1, 2, 3, 5, 8, 32, 63, 64}
	n := lens[r.Intn(len(lens))]
	eph := r.Chance(12)
	if eph && n <= 10 {
		n = 11 + r.Intn(20)
	}
	b := make([]byte, n)
	for i := range b {
		b[i] = nameAlphabet[r.Intn(len(nameAlphabet))]
	}
	if eph {
		copy(b[n-10:], "#ephemeral")
	}
	return string(b)
}

func genInvalidName(r *lib.Rand) string {
	switch r.Intn(12) {
	case 0:
		return ""
	case 1:
		return strings.Repeat("x", 65)
	case 2:
		return strings.Repeat("y", 55) + "#ephemeral" // 65 bytes
	case 3:
		return "#ephemeral"
	case 4:
		return "a#ephemeralx"
	case 5:
		return "a b"
	case 6:
		return "a\nb"
	case 7:
		return "a#b"
	case 8:
		return "t\xc3\xa9l\xc3\xa9"
	case 9:
		return "a/b"
	case 10:
		return "a#ephemeral#ephemeral"
	}
	return string(r.Bytes(1 + r.Intn(5)))
}

var allMethods = []string{"GET", "POST", "PUT", "DELETE", "HEAD", "OPTIONS", "PATCH", "TRACE", "CONNECT", "FOO", "get"}

var routePaths = []string{"/ping", "/info", "/pub", "/mpub", "/stats", "/topic/create", "/topic/delete", "/topic/empty", "/topic/pause",
	"/topic/unpause", "/channel/create", "/channel/delete", "/channel/empty", "/channel/pause", "/channel/unpause", "/config/log_level",
	"/config/nosuchoption", "/debug/pprof/", "/debug/pprof/cmdline", "/debug/pprof/symbol", "/debug/pprof/profile", "/debug/pprof/heap",
	"/debug/pprof/goroutine", "/debug/pprof/block", "/debug/setblockrate", "/debug/freememory", "/debug/pprof/threadcreate"}

func slowPprof(method, path string) bool {
	// GET /debug/pprof/profile samples the CPU for 30 s; never sent with its own method
	return method == "GET" && strings.HasPrefix(path, "/debug/pprof/profile") && !strings.HasSuffix(path, "/")
}

func mutatePath(r *lib.Rand, p string) string {
	switch r.Intn(14) {
	case 0:
		return p + "/"
	case 1:
		return strings.TrimSuffix(p, "/")
	case 2:
		return strings.ToUpper(p)
	case 3:
		b := []byte(p)
		i := r.Intn(len(b))
		if b[i] >= 'a' && b[i] <= 'z' {
			b[i] -= 32
		}
		return string(b)
	case 4:
		return "/" + p
	case 5:
		return strings.Replace(p, "/", "//", 1+r.Intn(2))
	case 6:
		return "/." + p
	case 7:
		return "/x/.." + p
	case 8:
		return p + "/."
	case 9:
		return p + "/.."
	case 10:
		return p + "x"
	case 11:
		return p[:len(p)-1]
	case 12:
		return strings.ToUpper(p) + "/"
	}
	return p + "/" + string(nameAlphabet[r.Intn(26)])
}

func genRoutes(r *lib.Rand, n int) []Input {
	var ins []Input
	k := 0
	add := func(m, p string) {
		if slowPprof(m, p) || slowPprof(m, strings.ToLower(p)) {
			return
		}
		fr := "none"
		ins = append(ins, Input{Kind: "route", Name: fmt.Sprintf("route-%d", k), Req: &ReqSpec{Method: m, Target: p, Framing: fr}})
		k++
	}
	for _, m := range allMethods {
		for _, p := range routePaths {
			add(m, p)
		}
	}
	specials := []string{"/", "*", "//", "/config/", "/config//", "/config", "/config/a/", "/config/a/b", "/config/log_level/", "/CONFIG/log_level",
		"/config/LOG_LEVEL", "/debug", "/debug/", "/debug/pprof", "/debug/pprof//", "/DEBUG/PPROF", "/topic", "/topic/", "/channel/", "/pub/", "/PUB",
		"/Ping", "/ping/", "/ping//", "/./ping", "/a/../ping", "/ping/..", "/..", "/.", "/%70ing", "/pin%67", "/config/a%2Fb", "/st%C3%A4ts", "/\xc5\xbftats"}
	for _, p := range specials {
		for _, m := range []string{"GET", "POST", "PUT", "OPTIONS", "DELETE"} {
			if p == "*" && m != "OPTIONS" {
				continue
			}
			add(m, p)
		}
	}
	for len(ins) < n {
		p := mutatePath(r, routePaths[r.Intn(len(routePaths))])
		if r.Chance(25) {
			p = mutatePath(r, p)
		}
		if r.Chance(5) {
			p = "/" + string(nameAlphabet[r.Intn(len(nameAlphabet))]) + p
		}
		add(allMethods[r.Intn(len(allMethods))], p)
	}
	return ins
}

func genState(r *lib.Rand) []TopicSpec {
	var st []TopicSpec
	nt := r.Intn(4)
	seen := map[string]bool{}
	for i := 0; i < nt; i++ {
		name := genValidName(r)
		if r.Chance(50) {
			name = []string{"t1", "t2", "orders", "e#ephemeral"}[r.Intn(4)]
		}
		if seen[name] {
			continue
		}
		seen[name] = true
		ts := TopicSpec{Name: name, Paused: r.Chance(30)}
		nc := r.Intn(4)
		cseen := map[string]bool{}
		for j := 0; j < nc; j++ {
			cn := []string{"c1", "c2", "archive", "x#ephemeral"}[r.Intn(4)]
			if r.Chance(20) {
				cn = genValidName(r)
			}
			if cseen[cn] {
				continue
			}
			cseen[cn] = true
			ts.Chans = append(ts.Chans, ChanSpec{Name: cn, Paused: r.Chance(30), Depth: r.Intn(4)})
		}
		if ts.Paused || len(ts.Chans) == 0 {
			ts.Depth = r.Intn(4)
		}
		st = append(st, ts)
	}
	return st
}

type argClass struct {
	vals  []string
	label string
}

func genArg(r *lib.Rand, existing []string) argClass {
	pick := func() string {
		if len(existing) > 0 {
			return existing[r.Intn(len(existing))]
		}
		return genValidName(r)
	}
	switch r.Intn(12) {
	case 0:
		return argClass{nil, "missing"}
	case 1:
		return argClass{[]string{genInvalidName(r)}, "invalid"}
	case 2:
		return argClass{[]string{genValidName(r)}, "unknown"}
	case 3:
		return argClass{[]string{pick(), genInvalidName(r)}, "dup-valid-first"}
	case 4:
		return argClass{[]string{genInvalidName(r), pick()}, "dup-invalid-first"}
	case 5:
		return argClass{[]string{""}, "empty"}
	}
	return argClass{[]string{pick()}, "present"}
}

func buildQuery(r *lib.Rand, params [][2]string) string {
	parts := make([]string, 0, len(params)+1)
	for _, p := range params {
		parts = append(parts, url.QueryEscape(p[0])+"="+url.QueryEscape(p[1]))
	}
	if r.Chance(10) {
		parts = append(parts, "junk="+url.QueryEscape(string(nameAlphabet[r.Intn(26)])))
	}
	if r.Chance(10) {
		// an argument nobody reads, made of a route word (never a key some endpoint does read)
		parts = append(parts, wordExtra(r, routeWords[r.Intn(len(routeWords))], "topic", "channel", "defer", "binary", "format"))
	}
	if r.Chance(15) {
		r2 := parts
		for i := len(r2) - 1; i > 0; i-- { // shuffle: order across keys must not matter
			j := r.Intn(i + 1)
			r2[i], r2[j] = r2[j], r2[i]
		}
	}
	q := strings.Join(parts, "&")
	switch r.Intn(40) {
	case 0:
		q += "&bad=%zz"
	case 1:
		q += "&a=1;b=2"
	case 2:
		q = "%" + q
	}
	return q
}

func genFraming(r *lib.Rand, rs *ReqSpec, body []byte) {
	rs.Body = body
	switch r.Intn(10) {
	case 0, 1, 2:
		rs.Framing = "chunked"
		if len(body) > 1 {
			rs.Chunks = []int{1 + r.Intn(len(body))}
		}
	case 3:
		if r.Chance(50) {
			rs.Framing = "badchunk"
		} else {
			rs.Framing = "cl"
		}
	default:
		rs.Framing = "cl"
	}
	// With exactly limit+1 readable bytes followed by a framing error, whether io.ReadAll
	// (through its LimitReader) sees the error or the limit first depends on how much of
	// the stream net/http had buffered (413 or 400, both legitimate): not generated.
	if rs.Framing == "badchunk" && (len(rs.Body) == maxMsg+1 || len(rs.Body) == maxBody+1) {
		rs.Body = append(rs.Body, 'x')
	}
}

func genReqs(r *lib.Rand, n int) []Input {
	var ins []Input
	adminTopic := []string{"/topic/create", "/topic/delete", "/topic/empty", "/topic/pause", "/topic/unpause"}
	adminChan := []string{"/channel/create", "/channel/delete", "/channel/empty", "/channel/pause", "/channel/unpause"}
	for k := 0; k < n; k++ {
		pre := genState(r)
		var tnames, cnames []string
		for _, t := range pre {
			tnames = append(tnames, t.Name)
			for _, c := range t.Chans {
				cnames = append(cnames, c.Name)
			}
		}
		rs := &ReqSpec{Method: "POST", Framing: "none"}
		var params [][2]string
		path := ""
		switch w := r.Intn(100); {
		case w < 30:
			path = adminTopic[r.Intn(len(adminTopic))]
			for _, v := range genArg(r, tnames).vals {
				params = append(params, [2]string{"topic", v})
			}
		case w < 62:
			path = adminChan[r.Intn(len(adminChan))]
			ta := genArg(r, tnames)
			// channel names of the chosen topic when there is one
			var cn []string
			if len(ta.vals) > 0 {
				for _, t := range pre {
					if t.Name == ta.vals[0] {
						for _, c := range t.Chans {
							cn = append(cn, c.Name)
						}
					}
				}
			}
			if len(cn) == 0 {
				cn = cnames
			}
			for _, v := range ta.vals {
				params = append(params, [2]string{"topic", v})
			}
			for _, v := range genArg(r, cn).vals {
				params = append(params, [2]string{"channel", v})
			}
		case w < 72:
			path = "/pub"
			for _, v := range genArg(r, tnames).vals {
				params = append(params, [2]string{"topic", v})
			}
			if r.Chance(30) {
				params = append(params, [2]string{"defer", []string{"0", "5", "60000", "3600000", "3600001", "-1", "x", ""}[r.Intn(8)]})
			}
			genFraming(r, rs, r.Bytes([]int{0, 1, 5, 63, 64, 65, 66}[r.Intn(7)]))
		case w < 80:
			path = "/mpub"
			for _, v := range genArg(r, tnames).vals {
				params = append(params, [2]string{"topic", v})
			}
			lines := 1 + r.Intn(5)
			var b bytes.Buffer
			for i := 0; i < lines; i++ {
				b.WriteString(strings.Repeat(string(nameAlphabet[r.Intn(26)]), []int{0, 1, 3, 64, 65}[r.Intn(5)]))
				if i < lines-1 || r.Bool() {
					b.WriteByte('\n')
				}
			}
			genFraming(r, rs, b.Bytes())
		case w < 85:
			path = "/stats"
			rs.Method = "GET"
			if r.Bool() {
				params = append(params, [2]string{"format", []string{"json", "text", ""}[r.Intn(3)]})
			}
			for _, v := range genArg(r, tnames).vals {
				params = append(params, [2]string{"topic", v})
			}
			if r.Bool() {
				params = append(params, [2]string{"include_clients", []string{"true", "0", "maybe"}[r.Intn(3)]})
			}
		case w < 88:
			path = []string{"/ping", "/info"}[r.Intn(2)]
			rs.Method = "GET"
		case w < 94:
			opts := []string{"log_level", "nsqlookupd_tcp_addresses", "max_msg_size", "data_path", "tls_required", "e2e_processing_latency_percentiles",
				"nosuch", "LOG_LEVEL", "log-level", "id", "broadcast_address"}
			path = "/config/" + opts[r.Intn(len(opts))]
			if r.Bool() {
				rs.Method = "GET"
			} else {
				rs.Method = "PUT"
				bodies := []string{"info", "DEBUG", "Warn", "error", "fatal", "loud", "", "[]", "null", "[1]", "{", "[\"\"]", strings.Repeat("z", 64), strings.Repeat("z", 65)}
				genFraming(r, rs, []byte(bodies[r.Intn(len(bodies))]))
			}
		case w < 97:
			path = "/debug/setblockrate"
			rs.Method = "PUT"
			if r.Chance(80) {
				params = append(params, [2]string{"rate", []string{"0", "1", "-1", "x", "", "99999999999999999999", "+3"}[r.Intn(7)]})
			}
		default:
			path = "/debug/freememory"
		}
		// sometimes a junk body on a route that ignores it, sometimes a wrong method
		if rs.Framing == "none" && r.Chance(25) {
			genFraming(r, rs, r.Bytes(r.Intn(40)))
		}
		if r.Chance(10) {
			rs.Method = allMethods[r.Intn(len(allMethods)-3)]
		}
		if r.Chance(4) {
			path = mutatePath(r, path)
		}
		q := buildQuery(r, params)
		rs.Target = path
		if q != "" {
			rs.Target += "?" + q
		}
		if slowPprof(rs.Method, path) {
			continue
		}
		ins = append(ins, Input{Kind: "req", Name: fmt.Sprintf("req-%d", k), Req: rs, Pre: pre})
	}
	return ins
}

var deferStrings = []string{"0", "1", "5", "59999", "60000", "3599999", "3600000", "3600001", "9223372036854", "9223372036855", "18446744073710",
	"18446744073709551615", "18446744073709551616", "9223372036854775807", "9223372036854775808", "99999999999999999999999", "-1", "-0", "+1",
	"abc", "", "007", "0000000000000000000000003600000", "1e3", " 5", "5 ", "0x10", "1_000", "3600000.0"}

func genDefer(r *lib.Rand) string {
	if r.Chance(70) {
		return deferStrings[r.Intn(len(deferStrings))]
	}
	n := 1 + r.Intn(22)
	b := make([]byte, n)
	for i := range b {
		b[i] = byte('0' + r.Intn(10))
	}
	return string(b)
}

func genPubName(r *lib.Rand) string {
	if r.Chance(82) {
		return genValidName(r)
	}
	return genInvalidName(r)
}

func textBody(r *lib.Rand) []byte {
	var b bytes.Buffer
	switch r.Intn(8) {
	case 0: // around the body limit
		target := maxBody - 3 + r.Intn(7)
		for b.Len() < target {
			n := 1 + r.Intn(40)
			if b.Len()+n+1 > target {
				n = target - b.Len() - 1
				if n < 0 {
					n = 0
				}
			}
			b.Write(bytes.Repeat([]byte{nameAlphabet[r.Intn(26)]}, n))
			b.WriteByte('\n')
		}
		if r.Bool() && b.Len() > 0 {
			b.Truncate(b.Len() - 1)
		}
	case 1: // many tiny messages: more than the TCP framing of the same batch allows
		k := 60 + r.Intn(90)
		for i := 0; i < k; i++ {
			b.WriteByte(nameAlphabet[r.Intn(26)])
			b.WriteByte('\n')
		}
	case 2: // only blank lines
		b.Write(bytes.Repeat([]byte("\n"), r.Intn(5)))
	case 3: // CRLF line ends, spaces and tabs: all of them message bytes
		lines := 1 + r.Intn(5)
		for i := 0; i < lines; i++ {
			b.WriteString(strings.Repeat(string(nameAlphabet[r.Intn(26)]), r.Intn(4)))
			b.WriteString([]string{"\r\n", "\r\n", " \n", "\t\n", "\r\r\n", "\n"}[r.Intn(6)])
		}
	default:
		lines := 1 + r.Intn(7)
		for i := 0; i < lines; i++ {
			n := []int{0, 0, 1, 2, 7, 30, 63, 64, 65, 66}[r.Intn(10)]
			line := r.Bytes(n)
			for j := range line {
				if line[j] == '\n' {
					line[j] = '\r'
				}
			}
			b.Write(line)
			if i < lines-1 || r.Bool() {
				b.WriteByte('\n')
			}
		}
	}
	return b.Bytes()
}

func binaryBody(r *lib.Rand) []byte {
	var b bytes.Buffer
	k := []int{1, 1, 2, 3, 4, 5, 62, 63, 64}[r.Intn(9)]
	if k >= 62 {
		// count at the limit: one-byte messages (63*5+4 = 319 <= 320)
		cnt := int32(k)
		b.Write(be32(cnt))
		for i := 0; i < k; i++ {
			b.Write(be32(1))
			b.WriteByte(nameAlphabet[r.Intn(26)])
		}
		return b.Bytes()
	}
	cnt := int32(k)
	switch r.Intn(12) {
	case 0:
		cnt = int32(k + 1)
	case 1:
		cnt = int32(k - 1)
	case 2:
		cnt = []int32{0, -1, 64, 1 << 20, 0x7fffffff, -0x80000000}[r.Intn(6)]
	}
	b.Write(be32(cnt))
	for i := 0; i < k; i++ {
		n := []int{1, 2, 10, 40, 63, 64, 65}[r.Intn(7)]
		sz := int32(n)
		switch r.Intn(25) {
		case 0:
			sz = 0
		case 1:
			sz = -1
		case 2:
			sz = int32(n + 1)
		case 3:
			sz = 0x7fffffff
		}
		b.Write(be32(sz))
		b.Write(r.Bytes(n))
	}
	switch r.Intn(10) {
	case 0:
		b.Truncate(b.Len() - 1 - r.Intn(b.Len()/2+1))
	case 1:
		b.Write(r.Bytes(1 + r.Intn(30))) // trailing bytes after the batch
	case 2: // pad past the body limit with trailing bytes
		if b.Len() < maxBody+5 {
			b.Write(r.Bytes(maxBody + 1 + r.Intn(8) - b.Len()))
		}
	}
	return b.Bytes()
}

func genPubs(r *lib.Rand, n int) []Input {
	var ins []Input
	for k := 0; k < n; k++ {
		rs := &ReqSpec{Method: "POST"}
		name := genPubName(r)
		params := [][2]string{{"topic", name}}
		if r.Chance(4) {
			params = append(params, [2]string{"topic", genPubName(r)})
		}
		if r.Chance(3) {
			params = nil
		}
		kind := ""
		switch w := r.Intn(100); {
		case w < 40:
			kind = "pub"
			if r.Chance(55) {
				params = append(params, [2]string{"defer", genDefer(r)})
			}
			genFraming(r, rs, r.Bytes([]int{0, 1, 2, 17, 62, 63, 64, 65, 66, 100, 321}[r.Intn(11)]))
		case w < 70:
			kind = "mpub-text"
			if r.Chance(30) {
				params = append(params, [2]string{"binary", []string{"false", "0"}[r.Intn(2)]})
			}
			genFraming(r, rs, textBody(r))
		default:
			kind = "mpub-binary"
			params = append(params, [2]string{"binary", []string{"true", "1", "yes", "", "TRUE", "2"}[r.Intn(6)]})
			genFraming(r, rs, binaryBody(r))
		}
		if rs.Framing == "badchunk" && r.Chance(70) {
			rs.Framing = "chunked"
		}
		extra := ""
		if r.Chance(10) {
			extra = wordExtra(r, routeWords[r.Intn(len(routeWords))], "topic", "channel", "defer", "binary", "format")
		}
		path := "/pub"
		if kind != "pub" {
			path = "/mpub"
		}
		var parts []string
		for _, p := range params {
			parts = append(parts, url.QueryEscape(p[0])+"="+url.QueryEscape(p[1]))
		}
		if extra != "" {
			parts = append(parts, extra)
		}
		rs.Target = path
		if len(parts) > 0 {
			rs.Target += "?" + strings.Join(parts, "&")
		}
		ins = append(ins, Input{Kind: "pub", Name: fmt.Sprintf("pub-%d", k), PubKind: kind, Req: rs})
	}
	return ins
}

// wordName: a valid topic / channel name built around a route word.  The bare word is the
// most frequent form: it meets a substring, a prefix, a suffix and an equality test alike.
func wordName(r *lib.Rand, w string) string {
	switch r.Intn(8) {
	case 0:
		return "auto_" + w + "_watcher"
	case 1:
		return w + "d.events"
	case 2:
		return "x-" + w
	case 3:
		return strings.ToUpper(w[:1]) + w[1:]
	}
	return w
}

// wordExtra: an argument no endpoint knows, with a route word as its key, inside its key, as
// its value, or as a bare key without '=' - never exactly a key listed in [own] (parameters
// the endpoint does read).
func wordExtra(r *lib.Rand, w string, own ...string) string {
	isOwn := false
	for _, o := range own {
		if o == w {
			isOwn = true
		}
	}
	form := r.Intn(6)
	if isOwn && (form == 0 || form == 2 || form == 3) {
		form = []int{1, 5, 5}[r.Intn(3)]
	}
	switch form {
	case 5: // a longer key that ends in the word: "x_binary=true" is not "binary=true"
		return "x_" + w + "=" + []string{"true", "1", "5", "c1"}[r.Intn(4)]
	case 0:
		return w + "=1"
	case 1:
		return "note=" + w
	case 2:
		return w
	case 3:
		return w + "=" + w
	}
	return "note=" + w + "-later"
}

// genRouteWords: names and extra arguments that contain the words the API is made of.
// Every admin endpoint x every path word, with the word as the topic name, as the channel
// name and in an argument the endpoint does not read, against a state in which the effect of
// the endpoint (and of its opposite) is visible through /stats: the pause endpoints meet an
// un-paused object, the unpause endpoints a paused one, the empty endpoints a non-empty one;
// a second topic and a second channel, also named after route words, must stay as they are.
// Parameters of other endpoints (channel= on /topic/*, binary= / defer= / format= on admin
// endpoints and on the publish that has no use for them) likewise.  Every publish endpoint
// under each word as the topic and with each word as an extra argument, with its TCP twin.
// Fixed set of (endpoint, word, position); the form of the name / argument varies with the seed.
func genRouteWords(r *lib.Rand) []Input {
	var ins []Input
	k := 0
	req := func(method, target string, pre []TopicSpec) {
		ins = append(ins, Input{Kind: "req", Name: fmt.Sprintf("word-%d", k), Pre: pre,
			Req: &ReqSpec{Method: method, Target: target, Framing: "none"}})
		k++
	}
	pub := func(kind, target string, body []byte) {
		fr := "cl"
		if k%3 == 0 {
			fr = "chunked"
		}
		ins = append(ins, Input{Kind: "pub", Name: fmt.Sprintf("word-%d", k), PubKind: kind,
			Req: &ReqSpec{Method: "POST", Target: target, Framing: fr, Body: body}})
		k++
	}
	other := func(w string) string {
		for {
			o := adminWords[r.Intn(len(adminWords))]
			if o != w {
				return o
			}
		}
	}
	// the state an endpoint is tried against: target topic [t] with target channel [c] and a
	// sibling channel, plus a sibling topic; paused flags chosen so that the endpoint's effect
	// and its opposite's are both visible
	mkState := func(path, t, c, w string, withT, withC bool) []TopicSpec {
		paused := r.Bool()
		switch {
		case strings.HasSuffix(path, "/unpause"):
			paused = !r.Chance(20)
		case strings.HasSuffix(path, "/pause"):
			paused = r.Chance(20)
		case path == "/topic/empty":
			paused = !r.Chance(20)
		}
		sib := other(w)
		var st []TopicSpec
		if withT {
			ts := TopicSpec{Name: t}
			if strings.HasPrefix(path, "/topic/") {
				ts.Paused = paused
			} else {
				ts.Paused = r.Chance(30)
			}
			if ts.Paused {
				ts.Depth = 2
			}
			if withC {
				cs := ChanSpec{Name: c, Depth: 1 + r.Intn(2)}
				if strings.HasPrefix(path, "/channel/") {
					cs.Paused = paused
				} else {
					cs.Paused = r.Bool()
				}
				ts.Chans = append(ts.Chans, cs)
			}
			if sib != c {
				ts.Chans = append(ts.Chans, ChanSpec{Name: sib, Paused: r.Bool(), Depth: 1})
			}
			st = append(st, ts)
		}
		sibT := "sib." + sib
		if sibT != t {
			sp := r.Bool()
			sd := 0
			if sp {
				sd = 1
			}
			st = append(st, TopicSpec{Name: sibT, Paused: sp, Depth: sd, Chans: []ChanSpec{{Name: c, Paused: r.Bool(), Depth: 1}}})
		}
		return st
	}
	esc := url.QueryEscape
	topicPaths := []string{"/topic/create", "/topic/delete", "/topic/empty", "/topic/pause", "/topic/unpause"}
	chanPaths := []string{"/channel/create", "/channel/delete", "/channel/empty", "/channel/pause", "/channel/unpause"}
	for _, p := range topicPaths {
		for _, w := range adminWords {
			t := wordName(r, w)
			req("POST", p+"?topic="+esc(t), mkState(p, t, "c1", w, p != "/topic/create" || r.Bool(), true))
			req("POST", p+"?topic=t1&"+wordExtra(r, w, "topic"), mkState(p, "t1", "c1", w, p != "/topic/create" || r.Bool(), true))
		}
		// parameters of other endpoints: the topic, not its channel, is the object
		req("POST", p+"?topic=t1&channel=c1", mkState(p, "t1", "c1", "channel", true, true))
		req("POST", p+"?channel=c1&topic=t1&"+[]string{"binary=true", "defer=5", "format=json"}[r.Intn(3)], mkState(p, "t1", "c1", "binary", true, true))
		// a longer key that ends in the parameter's name, naming the sibling: not the parameter
		st := mkState(p, "t1", "c1", "topic", true, true)
		req("POST", p+"?x_topic="+esc(st[len(st)-1].Name)+"&topic=t1", st)
	}
	for _, p := range chanPaths {
		for _, w := range adminWords {
			t, c := wordName(r, w), wordName(r, w)
			withC := p != "/channel/create" || r.Bool()
			req("POST", p+"?topic="+esc(t)+"&channel=c1", mkState(p, t, "c1", w, true, withC))
			req("POST", p+"?topic=t1&channel="+esc(c), mkState(p, "t1", c, w, true, withC))
			if r.Bool() {
				req("POST", p+"?topic=t1&channel=c1&"+wordExtra(r, w, "topic", "channel"), mkState(p, "t1", "c1", w, true, withC))
			} else {
				req("POST", p+"?"+wordExtra(r, w, "topic", "channel")+"&channel=c1&topic=t1", mkState(p, "t1", "c1", w, true, withC))
			}
		}
		req("POST", p+"?topic=t1&channel=c1&"+[]string{"binary=true", "defer=5", "format=json"}[r.Intn(3)], mkState(p, "t1", "c1", "binary", true, true))
		st := mkState(p, "t1", "c1", "channel", true, true)
		sibC := st[0].Chans[len(st[0].Chans)-1].Name
		req("POST", p+"?x_channel="+esc(sibC)+"&x_topic="+esc(st[len(st)-1].Name)+"&topic=t1&channel=c1", st)
	}
	// publishes
	var bin bytes.Buffer
	bin.Write(be32(2))
	bin.Write(be32(1))
	bin.WriteByte('m')
	bin.Write(be32(2))
	bin.WriteString("nn")
	for _, w := range routeWords {
		t := esc(wordName(r, w))
		pub("pub", "/pub?topic="+t, []byte("x"))
		pub("pub", "/pub?topic=t1&"+wordExtra(r, w, "topic", "defer"), []byte("one\ntwo"))
		pub("pub", "/pub?topic="+t+"&defer=5", []byte("later"))
		pub("mpub-text", "/mpub?topic="+t, []byte("one\ntwo\n"))
		pub("mpub-text", "/mpub?topic=t1&"+wordExtra(r, w, "topic", "binary"), []byte("one\ntwo\n"))
		if r.Bool() {
			pub("mpub-binary", "/mpub?topic="+t+"&binary=true", bin.Bytes())
		} else {
			pub("mpub-binary", "/mpub?binary=true&"+wordExtra(r, w, "topic", "binary")+"&topic="+t, bin.Bytes())
		}
	}
	// a parameter the publish has no use for: /pub knows no binary / channel / format, /mpub no defer
	pub("pub", "/pub?topic=t1&binary=true", bin.Bytes())
	pub("pub", "/pub?binary=true&topic=t1&defer=5", bin.Bytes())
	pub("pub", "/pub?topic=t1&channel=c1", []byte("x"))
	pub("pub", "/pub?topic=t1&format=json", []byte("x"))
	pub("mpub-text", "/mpub?topic=t1&defer=5", []byte("one\ntwo\n"))
	pub("mpub-text", "/mpub?topic=t1&channel=c1&format=json", []byte("one\ntwo\n"))
	pub("mpub-text", "/mpub?topic=t1&binary=false&note=binary", []byte("one\ntwo\n"))
	pub("mpub-binary", "/mpub?topic=t1&binary=true&defer=5", bin.Bytes())
	// a longer key that ends in the parameter's name is not the parameter
	pub("pub", "/pub?topic=t1&x_defer=5", []byte("now"))
	pub("pub", "/pub?x_topic=t2&topic=t1", []byte("x"))
	pub("mpub-text", "/mpub?topic=t1&x_binary=true", []byte("one\ntwo\n"))
	pub("mpub-text", "/mpub?x_binary=1&topic=t1&x_topic=t2", []byte("one\ntwo\n"))
	pub("mpub-binary", "/mpub?topic=t1&x_binary=false&binary=true", bin.Bytes())
	// the read-only and configuration endpoints (status and liveness; /stats has no effect)
	st := []TopicSpec{{Name: "pause", Paused: true, Depth: 1, Chans: []ChanSpec{{Name: "unpause", Depth: 1}}}, {Name: "json", Chans: []ChanSpec{{Name: "format", Paused: true, Depth: 2}}}}
	for i, w := range routeWords {
		n := esc(wordName(r, w))
		switch i % 3 {
		case 0:
			req("GET", "/stats?format=json&topic="+n, st)
			req("GET", "/config/"+n, nil)
			req("GET", "/ping?"+wordExtra(r, w), st)
		case 1:
			req("GET", "/stats?topic=pause&channel="+n+"&"+wordExtra(r, w, "topic", "channel", "format"), st)
			req("POST", "/debug/freememory?"+wordExtra(r, w), st)
			req("GET", "/info?"+wordExtra(r, w), st)
		default:
			req("GET", "/stats?"+wordExtra(r, w, "topic", "channel", "format"), st)
			req("PUT", "/debug/setblockrate?rate=0&"+wordExtra(r, w), st)
			req("GET", "/config/log_level?"+wordExtra(r, w), nil)
		}
	}
	return ins
}

// genAdminMatrix: every admin endpoint against every kind of object of one fixed, rich
// state (a paused topic with queued messages and two channels, an un-paused topic, an
// ephemeral topic with its last channel, a topic without channels), plus unknown and
// invalid names - so that "exactly the named object and nothing else" is exercised for
// each endpoint on every run.
func genAdminMatrix(r *lib.Rand) []Input {
	pre := []TopicSpec{
		{Name: "t1", Paused: true, Depth: 2, Chans: []ChanSpec{{Name: "c1", Paused: true, Depth: 2}, {Name: "c2", Depth: 1}}},
		{Name: "t2", Chans: []ChanSpec{{Name: "c1", Depth: 1}, {Name: "c2", Paused: true, Depth: 3}}},
		{Name: "e#ephemeral", Chans: []ChanSpec{{Name: "c1", Depth: 1}}},
		{Name: "lonely", Depth: 3},
	}
	var ins []Input
	k := 0
	add := func(path, query string) {
		fr, body := "none", []byte(nil)
		if r.Chance(30) {
			fr, body = "cl", []byte("ignored")
		}
		ins = append(ins, Input{Kind: "req", Name: fmt.Sprintf("admin-%d", k), Pre: pre,
			Req: &ReqSpec{Method: "POST", Target: path + "?" + query, Framing: fr, Body: body}})
		k++
	}
	// (the last four: duplicated arguments - the first value is the one that counts)
	topics := []string{"t1", "t2", "e%23ephemeral", "lonely", "nosuch", "bad+name", "new.topic", strings.Repeat("n", 65),
		"t1&topic=t2", "bad+name&topic=t2", "new.one&topic=bad+name", "nosuch&topic=t1"}
	for _, p := range []string{"/topic/create", "/topic/delete", "/topic/empty", "/topic/pause", "/topic/unpause"} {
		for _, t := range topics {
			add(p, "topic="+t)
		}
	}
	pairs := [][2]string{{"t1", "c1"}, {"t1", "c2"}, {"t2", "c1"}, {"t2", "c2"}, {"e%23ephemeral", "c1"}, {"t1", "nosuch"}, {"t1", "bad+name"},
		{"t1", "a%23b"}, {"nosuch", "c1"}, {"lonely", "fresh"}, {"lonely", "fresh%23ephemeral"}, {"bad+name", "c1"}, {"t2", strings.Repeat("c", 65)},
		{"t1&topic=t2", "c1"}, {"t2", "c2&channel=c1"}, {"t2", "bad+name&channel=c1"}, {"nosuch&topic=t2", "c1"}, {"t2", "fresh&channel=bad+name"}}
	for _, p := range []string{"/channel/create", "/channel/delete", "/channel/empty", "/channel/pause", "/channel/unpause"} {
		for _, tc := range pairs {
			add(p, "topic="+tc[0]+"&channel="+tc[1])
		}
	}
	return ins
}

// genNameBoundary: every endpoint that takes a topic or channel name, with names of
// exactly 1, 63, 64 (valid) and 65 (invalid) bytes, and 53 / 54 (valid) / 55 (invalid)
// bytes + "#ephemeral" - as the topic and as the channel, on existing and on new objects,
// over HTTP and (publishes) over TCP.  Fixed cases, present in every run.
func genNameBoundary() []Input {
	plain := func(n int) string { return strings.Repeat("b", n-1) + "Z" }
	eph := func(n int) string { return strings.Repeat("d", n-1) + "." + "#ephemeral" }
	names := []string{plain(63), plain(64), plain(65), eph(53), eph(54), eph(55), "a"}
	valid := func(s string) bool { return len(s) <= 64 }
	var ins []Input
	k := 0
	req := func(path, query string, pre []TopicSpec) {
		ins = append(ins, Input{Kind: "req", Name: fmt.Sprintf("namelen-%d", k), Pre: pre,
			Req: &ReqSpec{Method: "POST", Target: path + "?" + query, Framing: "none"}})
		k++
	}
	pub := func(kind, target string, body []byte) {
		fr := "cl"
		if k%3 == 0 {
			fr = "chunked"
		}
		ins = append(ins, Input{Kind: "pub", Name: fmt.Sprintf("namelen-%d", k), PubKind: kind,
			Req: &ReqSpec{Method: "POST", Target: target, Framing: fr, Body: body}})
		k++
	}
	for _, v := range names {
		q := url.QueryEscape(v)
		// the name as the topic: on a daemon that has it (valid names) / does not have it
		var has []TopicSpec
		if valid(v) {
			has = []TopicSpec{{Name: v, Paused: true, Depth: 1, Chans: []ChanSpec{{Name: "c1", Depth: 2}}}, {Name: "other", Depth: 1}}
		} else {
			has = []TopicSpec{{Name: "other", Depth: 1}}
		}
		req("/topic/create", "topic="+q, []TopicSpec{{Name: "other", Depth: 1}})
		for _, p := range []string{"/topic/create", "/topic/delete", "/topic/empty", "/topic/pause", "/topic/unpause"} {
			req(p, "topic="+q, has)
		}
		for _, p := range []string{"/channel/create", "/channel/delete", "/channel/empty", "/channel/pause"} {
			req(p, "topic="+q+"&channel=c1", has)
		}
		req("/channel/create", "topic="+q+"&channel=fresh", has)
		// the name as the channel
		var hasCh []TopicSpec
		if valid(v) {
			hasCh = []TopicSpec{{Name: "t1", Chans: []ChanSpec{{Name: v, Paused: true, Depth: 2}, {Name: "c2", Depth: 1}}}}
		} else {
			hasCh = []TopicSpec{{Name: "t1", Chans: []ChanSpec{{Name: "c2", Depth: 1}}}}
		}
		req("/channel/create", "topic=t1&channel="+q, []TopicSpec{{Name: "t1", Depth: 1}})
		for _, p := range []string{"/channel/create", "/channel/delete", "/channel/empty", "/channel/pause", "/channel/unpause"} {
			req(p, "topic=t1&channel="+q, hasCh)
		}
		// publishes under the name, each with its TCP twin
		pub("pub", "/pub?topic="+q, []byte("x"))
		pub("pub", "/pub?topic="+q+"&defer=5", []byte("later"))
		pub("mpub-text", "/mpub?topic="+q, []byte("one\ntwo\n"))
		var p bytes.Buffer
		p.Write(be32(2))
		p.Write(be32(1))
		p.WriteByte('m')
		p.Write(be32(2))
		p.WriteString("nn")
		pub("mpub-binary", "/mpub?topic="+q+"&binary=true", p.Bytes())
	}
	return ins
}

// genConfigMatrix: GET / PUT /config/:opt with every accepted and several refused values
// (log levels in every case, JSON and non-JSON address lists, empty and oversize bodies,
// unknown and read-only options) and /debug/setblockrate - fixed cases, present in every
// run, so that "a valid value is accepted" is exercised for each of them.
func genConfigMatrix() []Input {
	var ins []Input
	k := 0
	add := func(method, target string, body []byte) {
		rs := &ReqSpec{Method: method, Target: target, Framing: "none"}
		if body != nil {
			rs.Framing, rs.Body = "cl", body
			if k%4 == 3 {
				rs.Framing = "chunked"
			}
		}
		ins = append(ins, Input{Kind: "req", Name: fmt.Sprintf("config-%d", k), Req: rs})
		k++
	}
	for _, o := range []string{"log_level", "nsqlookupd_tcp_addresses", "max_msg_size", "mem_queue_size", "nosuch", "LOG_LEVEL"} {
		add("GET", "/config/"+o, nil)
	}
	for _, v := range []string{"debug", "info", "warn", "error", "fatal", "DEBUG", "Info", "wARN", "Error", "FATAL", "loud", " info", "warning", "",
		strings.Repeat("z", maxMsg), strings.Repeat("z", maxMsg+1)} {
		add("PUT", "/config/log_level", []byte(v))
	}
	for _, v := range []string{"[]", "null", "[1]", "{", "\"x\"", ""} {
		add("PUT", "/config/nsqlookupd_tcp_addresses", []byte(v))
	}
	add("PUT", "/config/max_msg_size", []byte("1024"))
	add("PUT", "/config/nosuch", []byte("1"))
	add("PUT", "/config/log_level", []byte("info")) // leave the daemon at its default level
	for _, q := range []string{"rate=0", "rate=1", "rate=-1", "rate=%2B3", "rate=x", "rate=", "", "rate=99999999999999999999"} {
		t := "/debug/setblockrate"
		if q != "" {
			t += "?" + q
		}
		add("PUT", t, nil)
	}
	add("PUT", "/debug/setblockrate?rate=0", nil)
	return ins
}

func fillLines(total int, trailingNL bool, lineLen int) []byte {
	// a text body of exactly [total] bytes made of lines of at most lineLen bytes
	var b bytes.Buffer
	for b.Len() < total {
		n := lineLen
		left := total - b.Len()
		if trailingNL {
			if n+1 > left {
				n = left - 1
			}
		} else if n >= left {
			n = left
		}
		b.Write(bytes.Repeat([]byte{byte('a' + b.Len()%26)}, n))
		if b.Len() < total {
			b.WriteByte('\n')
		}
	}
	return b.Bytes()
}

// genPubBoundary: publishes exactly at, one below and one above each limit, declared and
// chunked - fixed cases present in every run.
func genPubBoundary() []Input {
	var ins []Input
	k := 0
	add := func(kind, target string, framing string, body []byte) {
		rs := &ReqSpec{Method: "POST", Target: target, Framing: framing, Body: body}
		if framing == "chunked" && len(body) > 3 {
			rs.Chunks = []int{len(body) / 3, len(body) / 3}
		}
		ins = append(ins, Input{Kind: "pub", Name: fmt.Sprintf("bound-%d", k), PubKind: kind, Req: rs})
		k++
	}
	for _, fr := range []string{"cl", "chunked"} {
		for _, n := range []int{1, maxMsg - 1, maxMsg, maxMsg + 1, maxMsg + 2} {
			add("pub", "/pub?topic=bound", fr, bytes.Repeat([]byte("p"), n))
			add("pub", "/pub?topic=bound&defer=60000", fr, bytes.Repeat([]byte("d"), n))
		}
		add("pub", "/pub?topic=bound", fr, nil)
		for _, total := range []int{maxBody - 1, maxBody, maxBody + 1} {
			for _, nl := range []bool{true, false} {
				add("mpub-text", "/mpub?topic=bound", fr, fillLines(total, nl, 50))
				add("mpub-text", "/mpub?topic=bound", fr, fillLines(total, nl, maxMsg))
			}
		}
		for _, n := range []int{maxMsg - 1, maxMsg, maxMsg + 1} {
			add("mpub-text", "/mpub?topic=bound", fr, append(bytes.Repeat([]byte("l"), n), '\n'))
			add("mpub-text", "/mpub?topic=bound", fr, append([]byte("ok\n"), bytes.Repeat([]byte("l"), n)...))
		}
		// carriage returns are message bytes, not separators
		add("mpub-text", "/mpub?topic=bound", fr, []byte("one\r\ntwo\r\n\r\nthree\r"))
		add("mpub-text", "/mpub?topic=bound", fr, []byte("\r\n\r\r\n \n\t\n"))
		// binary batches of exactly 319 / 320 / 321 bytes: 4 + 4*(4+64) + (4+n)
		for _, n := range []int{39, 40, 41} {
			var p bytes.Buffer
			p.Write(be32(5))
			for i := 0; i < 4; i++ {
				p.Write(be32(int32(maxMsg)))
				p.Write(bytes.Repeat([]byte{byte('A' + i)}, maxMsg))
			}
			p.Write(be32(int32(n)))
			p.Write(bytes.Repeat([]byte("z"), n))
			add("mpub-binary", "/mpub?topic=bound&binary=true", fr, p.Bytes())
		}
		// count at and above (max-body-size - 4) / 5
		for _, cnt := range []int{63, 64} {
			var p bytes.Buffer
			p.Write(be32(int32(cnt)))
			for i := 0; i < cnt && p.Len()+5 <= maxBody; i++ {
				p.Write(be32(1))
				p.WriteByte('q')
			}
			add("mpub-binary", "/mpub?topic=bound&binary=1", fr, p.Bytes())
		}
		for _, n := range []int{maxMsg, maxMsg + 1} {
			var p bytes.Buffer
			p.Write(be32(1))
			p.Write(be32(int32(n)))
			p.Write(bytes.Repeat([]byte("m"), n))
			add("mpub-binary", "/mpub?topic=bound&binary=true", fr, p.Bytes())
		}
	}
	return ins
}

func genPInts(r *lib.Rand, n int) []Input {
	var ins []Input
	for i, s := range deferStrings {
		ins = append(ins, Input{Kind: "pint", Name: fmt.Sprintf("pint-fixed-%d", i), S: []byte(s)})
	}
	for k := 0; k < n; k++ {
		s := genDefer(r)
		if r.Chance(30) {
			s = "-" + s
		}
		if r.Chance(10) {
			s = string(r.Bytes(1 + r.Intn(4)))
		}
		ins = append(ins, Input{Kind: "pint", Name: fmt.Sprintf("pint-%d", k), S: []byte(s)})
	}
	return ins
}

func genTLS(r *lib.Rand) []Input {
	var ins []Input
	reqs := []ReqSpec{{Method: "GET", Target: "/ping", Framing: "none"}, {Method: "POST", Target: "/pub?topic=t1", Framing: "cl", Body: []byte("x")},
		{Method: "POST", Target: "/topic/delete?topic=t1", Framing: "none"}, {Method: "GET", Target: "/nope", Framing: "none"},
		{Method: "DELETE", Target: "/pub", Framing: "none"}, {Method: "POST", Target: "/channel/pause?topic=t1&channel=c1", Framing: "none"}}
	for i := range reqs {
		rs := reqs[i]
		ins = append(ins, Input{Kind: "req", Name: fmt.Sprintf("tls-%d", i), Req: &rs, TLS: true,
			Pre: []TopicSpec{{Name: "t1", Chans: []ChanSpec{{Name: "c1", Depth: 1 + r.Intn(2)}}}}})
	}
	return ins
}

// ------------------------------------------------------------------ main
func run(c *ctx, in Input) {
	switch in.Kind {
	case "route":
		runRoute(c, in)
	case "req":
		if in.TLS && c.tlsd == nil {
			c.tlsd = startDaemon(true)
		}
		runReq(c, in)
	case "pub":
		runPub(c, in)
	case "pint":
		runPInt(c, in)
	case "hostile":
		runHostile(c, in)
	}
}

func main() {
	n := flag.Int("n", 250, "number of state cases and of publish cases")
	nroutes := flag.Int("routes", 700, "number of router probes")
	hostile := flag.Int("hostile", 4, "hostile groups (subprocess daemon)")
	seed := flag.Uint64("seed", 1, "seed")
	out := flag.String("out", "", "output jsonl")
	replay := flag.String("replay", "", "replay file")
	flag.Parse()
	o := lib.NewOut(*out)
	defer o.Close()
	c := &ctx{o: o, stats: map[string]int{}}
	c.a = startDaemon(false)
	c.b = startDaemon(false)
	finish := func() {
		for k, v := range c.stats {
			o.Stat(k, v)
		}
		c.a.n.Exit()
		c.b.n.Exit()
		if c.tlsd != nil {
			c.tlsd.n.Exit()
		}
	}

	if *replay != "" {
		var ins []Input
		lib.ReadReplay(*replay, &ins)
		for i, in := range ins {
			if in.Name == "" {
				in.Name = fmt.Sprintf("replay-%d", i)
			}
			run(c, in)
		}
		finish()
		return
	}

	r := lib.NewRand(*seed)
	var ins []Input
	ins = append(ins, genRoutes(r.Fork(), *nroutes)...)
	ins = append(ins, genTLS(r.Fork())...)
	ins = append(ins, genAdminMatrix(r.Fork())...)
	ins = append(ins, genNameBoundary()...)
	ins = append(ins, genRouteWords(r.Fork())...)
	ins = append(ins, genConfigMatrix()...)
	ins = append(ins, genReqs(r.Fork(), *n)...)
	ins = append(ins, genPubBoundary()...)
	ins = append(ins, genPubs(r.Fork(), *n)...)
	ins = append(ins, genPInts(r.Fork(), 40)...)
	hr := r.Fork()
	for g := 0; g < *hostile; g++ {
		ins = append(ins, Input{Kind: "hostile", Name: fmt.Sprintf("hostile-%d", g), Seed: hr.U64(), Group: g})
	}
	// the hostile groups each have their own subprocess daemon: run them alongside the rest
	var hwg sync.WaitGroup
	for _, in := range ins {
		if in.Kind == "hostile" {
			hwg.Add(1)
			go func(in Input) {
				defer hwg.Done()
				run(c, in)
			}(in)
		}
	}
	for _, in := range ins {
		if in.Kind != "hostile" {
			run(c, in)
		}
	}
	hwg.Wait()
	o.Stat("inputs", len(ins))
	finish()
}
