// Package nsqdlib: start real in-process nsqd instances for the drivers.
package nsqdlib

import (
	"io"
	"log"
	"os"
	"path/filepath"
	"time"

	"github.com/nsqio/nsq/nsqd"
)

// NewOpts returns options for a loopback nsqd on ephemeral ports with its data in a
// fresh directory under dir.
func NewOpts(dir string) *nsqd.Options {
	opts := nsqd.NewOptions()
	opts.Logger = log.New(io.Discard, "", 0)
	if os.Getenv("VERIF_NSQD_LOG") != "" {
		opts.Logger = log.New(os.Stderr, "nsqd: ", log.Lmicroseconds)
	}
	opts.LogLevel = 4 // errors only
	opts.TCPAddress = "127.0.0.1:0"
	opts.HTTPAddress = "127.0.0.1:0"
	opts.HTTPSAddress = "127.0.0.1:0"
	opts.BroadcastAddress = "127.0.0.1"
	dp, err := os.MkdirTemp(dir, "nsqd-data-")
	if err != nil {
		panic(err)
	}
	opts.DataPath = dp
	return opts
}

// Start creates the daemon and runs Main in the background.
func Start(opts *nsqd.Options) (*nsqd.NSQD, error) {
	n, err := nsqd.New(opts)
	if err != nil {
		return nil, err
	}
	go func() { _ = n.Main() }()
	// Main starts the listeners' accept loops asynchronously; the listeners themselves
	// exist since New, so clients can connect at once.
	time.Sleep(5 * time.Millisecond)
	return n, nil
}

func ScratchDir() string {
	d := os.Getenv("VERIF_SCRATCH")
	if d == "" {
		d = os.TempDir()
	}
	p := filepath.Join(d, "drv")
	os.MkdirAll(p, 0o755)
	return p
}

// StartLikeMain starts a daemon the way apps/nsqd does: LoadMetadata,
// PersistMetadata, then Main in the background.
func StartLikeMain(opts *nsqd.Options) (*nsqd.NSQD, error) {
	n, err := nsqd.New(opts)
	if err != nil {
		return nil, err
	}
	if err := n.LoadMetadata(); err != nil {
		return nil, err
	}
	if err := n.PersistMetadata(); err != nil {
		return nil, err
	}
	go func() { _ = n.Main() }()
	return n, nil
}
