module verifharness

go 1.17

require (
	github.com/golang/snappy v0.0.4
	github.com/nsqio/go-nsq v1.1.0
	github.com/nsqio/nsq v0.0.0
)

require (
	github.com/BurntSushi/toml v1.3.2 // indirect
	github.com/bitly/go-hostpool v0.1.0 // indirect
	github.com/bitly/timer_metrics v1.0.0 // indirect
	github.com/blang/semver v3.5.1+incompatible // indirect
	github.com/bmizerany/perks v0.0.0-20141205001514-d9a9656a3a4b // indirect
	github.com/judwhite/go-svc v1.2.1 // indirect
	github.com/julienschmidt/httprouter v1.3.0 // indirect
	github.com/mreiferson/go-options v1.0.0 // indirect
	github.com/nsqio/go-diskqueue v1.1.0 // indirect
	github.com/stretchr/testify v1.9.0 // indirect
	golang.org/x/sys v0.10.0 // indirect
)

replace github.com/judwhite/go-svc => github.com/mreiferson/go-svc v1.2.2-0.20210815184239-7a96e00010f6

replace github.com/nsqio/nsq => /repo
