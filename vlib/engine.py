# Engine of ./check — shared by every property.  Python 3 stdlib only.
#
# One run:  lint -> gotables (regenerate coq/gen from the repo under test) -> make the
# property's cone (.vo, never -vos) -> Print Assumptions -> build harness + repo
# binaries from the repo's working tree (-tags verif) -> run drivers (corpus first)
# -> judge the recorded cases inside coqc (vm_compute) -> classify against
# known_findings.json -> evidence -> exit code.
import fcntl
import glob
import hashlib
import importlib.util
import json
import os
import re
import shutil
import subprocess
import sys
import tempfile
import time
from concurrent.futures import ThreadPoolExecutor

VERIF = os.path.dirname(os.path.dirname(os.path.abspath(__file__)))
REPO = os.environ.get("VERIF_REPO", "/repo")
GOENV = dict(os.environ, GOFLAGS="-mod=mod", GOPROXY="off", GOSUMDB="off", GOTOOLCHAIN="local",
             CGO_ENABLED=os.environ.get("CGO_ENABLED", "0"))
FORBIDDEN = re.compile(
    r"\b(Admitted|admit|Axiom|Axioms|Parameter|Parameters|Conjecture|Conjectures|Hypothesis|Hypotheses|Variable|Variables)\b"
    r"|Unset\s+Guard|bypass_check|type-in-type|impredicative-set|Admit\s+Obligations|native_compute|Unset\s+Universe|Unset\s+Positivity")
SECTION_OK = re.compile(r"\b(Variable|Variables|Hypothesis|Hypotheses)\b")
THM_RE = re.compile(r"^\s*(?:Local\s+|Global\s+|#\[[^\]]*\]\s*)*(Theorem|Lemma|Corollary|Example|Fact|Remark|Proposition)\s+([A-Za-z_][\w']*)", re.M)
MAX_CASES_PER_SHARD = 150


def log(msg):
    print(msg, flush=True)


def sh(cmd, cwd=None, env=None, timeout=None, stdin=None):
    """run, return (rc, stdout+stderr)"""
    try:
        p = subprocess.run(cmd, cwd=cwd, env=env, timeout=timeout, input=stdin,
                           stdout=subprocess.PIPE, stderr=subprocess.STDOUT, text=True, errors="replace")
        return p.returncode, p.stdout
    except subprocess.TimeoutExpired as e:
        out = e.stdout if isinstance(e.stdout, str) else (e.stdout or b"").decode("utf8", "replace")
        return 124, out + "\nTIMEOUT after %ss: %s" % (timeout, " ".join(cmd[:4]))


def strip_comments(src):
    # remove (* ... *) comments (nested) so the lint looks at code only
    out = []
    depth = 0
    i = 0
    n = len(src)
    while i < n:
        if src.startswith("(*", i):
            depth += 1
            i += 2
        elif src.startswith("*)", i) and depth > 0:
            depth -= 1
            i += 2
        else:
            if depth == 0:
                out.append(src[i])
            elif src[i] == "\n":
                out.append("\n")
            i += 1
    return "".join(out)


class Ctx:
    def __init__(self, plugin, tier, seed):
        self.p = plugin
        self.pid = plugin.ID
        self.tier = tier
        self.seed = seed
        self.t0 = time.time()
        self.scratch = tempfile.mkdtemp(prefix="verif-%s-" % self.pid)
        self.bindir = os.path.join(self.scratch, "bin")
        os.makedirs(self.bindir)
        # when checking a repository other than /repo (mutation testing), work on a
        # private copy of the Coq tree so that /verif/coq/gen keeps describing /repo
        if tier == "thorough" and not os.environ.get("VERIF_NO_CLEAN"):
            # thorough = full rebuild from sources in a private directory (never delete the
            # shared .vo files another check may be reading)
            self.coqdir = os.path.join(self.scratch, "coq")
            shutil.copytree(os.path.join(VERIF, "coq"), self.coqdir, symlinks=True,
                            ignore=shutil.ignore_patterns("*.vo", "*.vos", "*.vok", "*.glob", ".*.aux", "Makefile.coq*", ".Makefile.coq.d", "_CoqProject", ".lock"))
        elif os.path.realpath(REPO) != "/repo" or os.environ.get("VERIF_PRIVATE_COQ"):
            self.coqdir = os.path.join(self.scratch, "coq")
            shutil.copytree(os.path.join(VERIF, "coq"), self.coqdir, symlinks=True)
        else:
            self.coqdir = os.path.join(VERIF, "coq")
        self.notes = []
        self.coverage_extra = {}

    def cleanup(self):
        if os.environ.get("VERIF_KEEP"):
            log("scratch kept at " + self.scratch)
            return
        shutil.rmtree(self.scratch, ignore_errors=True)

    def stage(self, name):
        now = time.time()
        self.stages = getattr(self, "stages", [])
        self.stages.append((name, round(now - getattr(self, "_last", self.t0), 2)))
        self._last = now


# ------------------------------------------------------------------ lint
def lint(ctx, only=None):
    bad = []
    files = sorted(glob.glob(os.path.join(ctx.coqdir, "**", "*.v"), recursive=True))
    if only is not None and not os.environ.get("VERIF_LINT_ALL"):
        # the property's own cone (other families' work in progress must not block this
        # check); setup.sh and the final audit lint the whole tree
        files = [os.path.join(ctx.coqdir, f) for f in only]
    for f in files:
        src = strip_comments(open(f, errors="replace").read())
        # Variable/Hypothesis are allowed only inside a Section
        depth = 0
        for ln, line in enumerate(src.split("\n"), 1):
            if re.match(r"\s*Section\s+\w+", line):
                depth += 1
            if re.match(r"\s*End\s+\w+", line) and depth > 0:
                depth -= 1
            for m in FORBIDDEN.finditer(line):
                w = m.group(0)
                if SECTION_OK.fullmatch(w) and depth > 0:
                    continue
                bad.append("%s:%d: %s" % (os.path.relpath(f, ctx.coqdir), ln, w))
    return bad


# ------------------------------------------------------------------ gotables
def build_dir():
    d = os.path.join(VERIF, ".build")
    os.makedirs(d, exist_ok=True)
    return d


def run_gotables(ctx):
    exe = os.path.join(build_dir(), "gotables")
    rc, out = sh(["go", "build", "-o", exe, "."], cwd=os.path.join(VERIF, "tools", "gotables"), env=GOENV, timeout=300)
    if rc != 0:
        return False, "gotables build failed:\n" + out
    rc, out = sh([exe, "-repo", REPO, "-out", os.path.join(ctx.coqdir, "gen")], timeout=120)
    return rc == 0, out


# ------------------------------------------------------------------ coq build
def coq_files(coqdir):
    fs = []
    for sub in ("gen", "model", "judge", "proofs", "props"):
        fs += sorted(glob.glob(os.path.join(coqdir, sub, "*.v")))
    return [os.path.relpath(f, coqdir) for f in fs]


def coq_make(ctx, targets, jobs=8, timeout=1500):
    cd = ctx.coqdir
    lock = open(os.path.join(cd, ".lock"), "a")
    fcntl.flock(lock, fcntl.LOCK_EX)
    try:
        proj = "-Q . NSQV\n" + "\n".join(coq_files(cd)) + "\n"
        pf = os.path.join(cd, "_CoqProject")
        if not os.path.exists(pf) or open(pf).read() != proj or not os.path.exists(os.path.join(cd, "Makefile.coq")):
            open(pf, "w").write(proj)
            rc, out = sh(["coq_makefile", "-f", "_CoqProject", "-o", "Makefile.coq"], cwd=cd, timeout=120)
            if rc != 0:
                return False, out
        rc, out = sh(["make", "-f", "Makefile.coq", "-j%d" % jobs] + targets, cwd=cd, timeout=timeout)
        return rc == 0, out
    finally:
        fcntl.flock(lock, fcntl.LOCK_UN)
        lock.close()


def cone(ctx, target_v):
    """transitive NSQV dependencies (as .v paths) of a .v file, via coqdep"""
    cd = ctx.coqdir
    seen = set()
    todo = [target_v]
    while todo:
        f = todo.pop()
        if f in seen or not os.path.exists(os.path.join(cd, f)):
            continue
        seen.add(f)
        rc, out = sh(["coqdep", "-Q", ".", "NSQV", f], cwd=cd, timeout=60)
        for m in re.finditer(r"(?<![\w/.])((?:gen|model|judge|proofs|props)/\w+)\.vo", out):
            v = m.group(1) + ".v"
            if v not in seen:
                todo.append(v)
    return sorted(seen)


def count_obligations(ctx, files):
    names = []
    for f in files:
        src = strip_comments(open(os.path.join(ctx.coqdir, f), errors="replace").read())
        for m in THM_RE.finditer(src):
            names.append("%s:%s" % (f, m.group(2)))
    return names


class CoqLock:
    """exclusive while building, shared while reading the compiled files"""
    def __init__(self, ctx, shared):
        self.f = open(os.path.join(ctx.coqdir, ".lock"), "a")
        self.mode = fcntl.LOCK_SH if shared else fcntl.LOCK_EX

    def __enter__(self):
        fcntl.flock(self.f, self.mode)
        return self

    def __exit__(self, *a):
        fcntl.flock(self.f, fcntl.LOCK_UN)
        self.f.close()


def print_assumptions(ctx, props_v):
    """compile the property file on its own and parse the Print Assumptions output"""
    cd = ctx.coqdir
    tmp_vo = os.path.join(ctx.scratch, os.path.basename(props_v) + "o")
    with CoqLock(ctx, shared=True):
        rc, out = sh(["coqc", "-Q", ".", "NSQV", "-o", tmp_vo, props_v], cwd=cd, timeout=600)
    src = strip_comments(open(os.path.join(cd, props_v)).read())
    asked = re.findall(r"Print\s+Assumptions\s+([\w'.]+)\s*\.", src)
    blocks = re.split(r"(?=Closed under the global context|Axioms:)", out)
    results = [b.strip() for b in blocks if b.startswith("Closed under") or b.startswith("Axioms:")]
    axioms = {}
    for name, res in zip(asked, results):
        if res.startswith("Closed under"):
            axioms[name] = []
        else:
            axioms[name] = [l.strip() for l in res.split("\n")[1:] if l.strip() and not l.startswith(" " * 4)]
    return rc == 0, out, asked, axioms, len(results)


# ------------------------------------------------------------------ go builds
def go_build_harness(ctx, drivers):
    hd = os.path.join(VERIF, "harness")
    mod = open(os.path.join(hd, "go.mod")).read()
    mod = re.sub(r"replace github.com/nsqio/nsq => \S+", "replace github.com/nsqio/nsq => " + REPO, mod)
    modfile = os.path.join(ctx.scratch, "go.mod")
    open(modfile, "w").write(mod)
    shutil.copy(os.path.join(REPO, "go.sum"), os.path.join(ctx.scratch, "go.sum"))
    for d in drivers:
        rc, out = sh(["go", "build", "-tags", "verif", "-modfile", modfile, "-o", os.path.join(ctx.bindir, d), "./cmd/" + d],
                     cwd=hd, env=GOENV, timeout=900)
        if rc != 0:
            return False, "build of driver %s failed:\n%s" % (d, out)
    return True, ""


def go_build_repo_bins(ctx, bins):
    """bins: list of (name, relpkg, tags)"""
    for name, rel, tags in bins:
        cmd = ["go", "build"]
        if tags:
            cmd += ["-tags", tags]
        cmd += ["-o", os.path.join(ctx.bindir, name), "./" + rel]
        rc, out = sh(cmd, cwd=REPO, env=GOENV, timeout=900)
        if rc != 0:
            return False, "build of %s failed:\n%s" % (rel, out)
    return True, ""


# ------------------------------------------------------------------ drivers and judging
def run_driver(ctx, spec, idx, replay=None, scale=1, seed_shift=0):
    out = os.path.join(ctx.scratch, "cases-%d-%d-%d.jsonl" % (idx, scale, seed_shift))
    args = list(spec["args"](ctx.tier, ctx.seed + seed_shift, scale)) if replay is None else list(spec.get("replay_args", lambda t: [])(ctx.tier))
    cmd = [os.path.join(ctx.bindir, spec["driver"])] + args + ["-out", out]
    if replay is not None:
        cmd += ["-replay", replay]
    env = dict(os.environ, VERIF_BIN_DIR=ctx.bindir, VERIF_SCRATCH=ctx.scratch, VERIF_REPO=REPO, VERIF_DIR=VERIF)
    rc, txt = sh(cmd, env=env, timeout=spec.get("timeout", 900) * (3 if scale > 1 else 1), cwd=ctx.scratch)
    cases, stats = [], {}
    if os.path.exists(out):
        for line in open(out, errors="replace"):
            line = line.strip()
            if not line:
                continue
            try:
                o = json.loads(line)
            except Exception:
                continue
            if "stat" in o:
                stats[o["stat"]] = o["value"]
            else:
                o["_driver"] = idx
                cases.append(o)
    return rc, txt, cases, stats


def judge_cases(ctx, cases, judge_mod, judge_fn, imports=(), scope="N_scope"):
    """returns {case_index: code} for the non-zero verdicts, or raises on coqc failure"""
    if not cases:
        return {}, ""
    shards = [cases[i:i + MAX_CASES_PER_SHARD] for i in range(0, len(cases), MAX_CASES_PER_SHARD)]
    jobs = []
    for si, shard in enumerate(shards):
        d = os.path.join(ctx.scratch, "judge-%d-%d" % (int(time.time() * 1000) % 100000000, si))
        os.makedirs(d)
        body = ["From Coq Require Import List NArith ZArith String Uint63.",
                "From NSQV Require Import model.Judge model.Pack %s." % judge_mod]
        for im in imports:
            body.append(im)
        body += ["Import ListNotations.", "Open Scope %s." % scope]
        for k, c in enumerate(shard):
            body.append("Definition c%d := %s." % (k, c["coq"]))
        body.append("Definition cases := [%s]." % ";".join("c%d" % k for k in range(len(shard))))
        body.append("Definition R : list (N * N) := Eval vm_compute in failures %s cases." % judge_fn)
        body.append("Print R.")
        open(os.path.join(d, "cases.v"), "w").write("\n".join(body) + "\n")
        jobs.append((si, d))

    def one(job):
        si, d = job
        rc, out = sh(["coqc", "-noglob", "-Q", ctx.coqdir, "NSQV", "cases.v"], cwd=d, timeout=1200)
        return si, rc, out

    failures = {}
    errtxt = ""
    with CoqLock(ctx, shared=True), ThreadPoolExecutor(max_workers=8) as ex:
        for si, rc, out in ex.map(one, jobs):
            if rc != 0 or "R =" not in out:
                errtxt += "shard %d: coqc rc=%d\n%s\n" % (si, rc, out[-3000:])
                continue
            body = out.split("R =", 1)[1]
            body = body.rsplit(":", 1)[0]
            for m in re.finditer(r"\(\s*(\d+)(?:%N)?\s*,\s*(\d+)(?:%N)?\s*\)", body):
                failures[si * MAX_CASES_PER_SHARD + int(m.group(1))] = int(m.group(2))
    if not os.environ.get("VERIF_KEEP"):
        for _, d in jobs:
            shutil.rmtree(d, ignore_errors=True)
    return failures, errtxt


# ------------------------------------------------------------------ known findings
def load_known():
    p = os.path.join(VERIF, "known_findings.json")
    if not os.path.exists(p):
        return []
    return json.load(open(p)).get("findings", [])


def match_known(pid, case, known):
    for k in known:
        if k.get("status") != "known" or pid not in k.get("properties", [k.get("property")]):
            continue
        m = k.get("match", {})
        if "tag" in m and m["tag"] in case.get("tags", []):
            return k
        if "name_prefix" in m and case.get("name", "").startswith(m["name_prefix"]):
            return k
    return None


# ------------------------------------------------------------------ main flow
def out_dir(kind):
    # runs against a repository other than /repo (mutation testing) never touch the
    # evidence/replays of the real tree
    if os.path.realpath(REPO) != "/repo":
        return os.path.join(VERIF, ".build", kind + "-other-repo")
    return os.path.join(VERIF, kind)


def write_replay(ctx, name, payload):
    d = out_dir("replays")
    os.makedirs(d, exist_ok=True)
    path = os.path.join(d, "%s-%s-%s.json" % (ctx.pid, ctx.seed, name))
    json.dump(payload, open(path, "w"), indent=1)
    return path


def finish(ctx, violations, known_lines, cov, ok_to_write=True):
    wall = time.time() - ctx.t0
    ev = {
        "property_id": ctx.pid,
        "tier": ctx.tier,
        "seed": ctx.seed,
        "level": "proof",
        "coverage": cov,
        "assumptions": getattr(ctx.p, "ASSUMPTIONS", []),
        "wall_s": round(wall, 2),
        "violations": len(violations),
    }
    os.makedirs(out_dir("evidence"), exist_ok=True)
    json.dump(ev, open(os.path.join(out_dir("evidence"), ctx.pid + ".json"), "w"), indent=1)
    for l in known_lines:
        log(l)
    for v in violations:
        log(v)
    log("%s %s tier=%s seed=%d wall=%.1fs obligations=%s/%s cases=%s" % (
        "FAIL" if violations else "PASS", ctx.pid, ctx.tier, ctx.seed, wall,
        cov.get("discharged"), cov.get("obligations"), cov.get("evaluations")))
    ctx.cleanup()
    return 1 if violations else 0


def base_trusted(plugin):
    return [
        "Coq 8.16.1 kernel (coqc); vm_compute used to evaluate models, witnesses and finite table checks; no native_compute",
        "axioms: none declared; per-theorem Print Assumptions results are listed under coverage.print_assumptions",
        "translator /verif/tools/gotables (go/ast; integer constant expressions, option defaults, route tables, handler call order) regenerating coq/gen/*.v from the repository on every run",
        "correspondence harness /verif/harness (Go, built with -tags verif against the repository's working tree) and the judge evaluated inside coqc by vm_compute; no extraction",
    ] + list(getattr(plugin, "TRUSTED", []))


def run(plugin, tier, seed, replay_path=None):
    ctx = Ctx(plugin, tier, seed)
    pid = ctx.pid
    known = load_known()
    violations, known_lines = [], []
    cov = {"obligations": 0, "discharged": 0, "checker_cmd": "", "trusted_base": base_trusted(plugin),
           "evaluations": 0, "distinct_nontrivial": 0, "rule": getattr(plugin, "RULE", ""), "samples": [],
           "traces_validated_against_impl": 0, "repo": REPO}
    proof_broken = None

    # 1. lint (the cone of this property)
    try:
        lint_files = sorted(set(cone(ctx, plugin.PROPS_FILE) + sum([cone(ctx, t[:-1]) for t in plugin.COQ_TARGETS], [])))
    except Exception:
        lint_files = None
    bad = lint(ctx, lint_files)
    if bad:
        path = write_replay(ctx, "lint", {"kind": "lint", "forbidden": bad})
        violations.append("VIOLATION property=%s replay=%s no-failing-input-found" % (pid, path))
        cov["explanation"] = "forbidden constructs in the Coq development: " + "; ".join(bad[:5])
        return finish(ctx, violations, known_lines, cov)

    ctx.stage("lint")
    # 2. gotables
    ok, out = run_gotables(ctx)
    ctx.stage("gotables")
    gotables_out = out
    if not ok and "gotables build failed" in out:
        proof_broken = {"kind": "translator", "detail": out[-4000:]}

    # 3. build the cone
    targets = list(plugin.COQ_TARGETS)
    props_v = plugin.PROPS_FILE
    thorough = tier == "thorough"
    files = sorted(set(cone(ctx, props_v) + sum([cone(ctx, t[:-1]) for t in targets], [])))
    for f in files:
        if f.startswith("gen/") and os.path.exists(os.path.join(ctx.coqdir, f + ".err")):
            proof_broken = {"kind": "translator", "file": f,
                            "detail": open(os.path.join(ctx.coqdir, f + ".err")).read()[-2000:] + "\n" + gotables_out[-2000:]}
    obligations = count_obligations(ctx, files)
    cov["obligations"] = len(obligations)
    cov["cone_files"] = files
    cov["checker_cmd"] = "cd coq && make -f Makefile.coq %s && coqc -Q . NSQV %s (Print Assumptions)" % (" ".join(targets), props_v)
    if proof_broken is None:
        ok, out = coq_make(ctx, targets)
        if not ok:
            m = re.search(r'File "([^"]+)", line (\d+)', out)
            proof_broken = {"kind": "proof", "file": m.group(1) if m else "?", "line": int(m.group(2)) if m else 0,
                            "detail": out[-4000:]}
    if proof_broken is None:
        ok, out, asked, axioms, nres = print_assumptions(ctx, props_v)
        if not ok:
            proof_broken = {"kind": "proof", "file": props_v, "detail": out[-4000:]}
        else:
            cov["print_assumptions"] = {k: (v if v else "Closed under the global context") for k, v in axioms.items()}
            allowed = set(getattr(plugin, "ALLOWED_AXIOMS", []))
            for thm, axs in axioms.items():
                for a in axs:
                    if a.split(":")[0].strip() not in allowed:
                        proof_broken = {"kind": "axiom", "file": props_v, "detail": "%s depends on %s" % (thm, a)}
            if len(asked) != nres:
                proof_broken = {"kind": "proof", "file": props_v, "detail": "Print Assumptions count mismatch"}
    if proof_broken is None:
        cov["discharged"] = len(obligations)
        if thorough and getattr(plugin, "COQCHK", True) and not os.environ.get("VERIF_NO_COQCHK"):
            mods = ["NSQV." + f[:-2].replace("/", ".") for f in files if f.startswith("props/")]
            t1 = time.time()
            rc, out = sh(["coqchk", "-silent", "-o", "-Q", ".", "NSQV"] + mods, cwd=ctx.coqdir, timeout=3000)
            cov["coqchk"] = {"rc": rc, "wall_s": round(time.time() - t1, 1), "tail": out[-1500:]}
            if rc != 0:
                proof_broken = {"kind": "coqchk", "file": props_v, "detail": out[-3000:]}
    else:
        # the judge may still build (models carry no proofs)
        jt = [t for t in targets if t.startswith("judge/") or t.startswith("model/")]
        if jt:
            coq_make(ctx, jt)

    ctx.stage("coq")
    # 4. harness
    drivers = plugin.drivers()
    ok, out = go_build_repo_bins(ctx, getattr(plugin, "REPO_BINS", []))
    harness_err = None
    if ok:
        ok, out = go_build_harness(ctx, sorted(set(d["driver"] for d in drivers)))
    if not ok:
        harness_err = out

    ctx.stage("gobuild")
    all_cases, stats_all = [], {}
    failures = {}
    judge_err = ""
    if harness_err is None:
        # corpus first (replayed on the implementation), then generated cases
        corpus = os.path.join(VERIF, "corpus", pid + ".json")
        runs = []
        if replay_path:
            rp = json.load(open(replay_path))
            didx = rp.get("driver_index", 0)
            runs.append((didx, replay_path, 1, 0))
        else:
            if os.path.exists(corpus):
                cj = json.load(open(corpus))
                runs.append((cj.get("driver_index", 0), corpus, 1, 0))
            for i in range(len(drivers)):
                runs.append((i, None, 1, 0))
        for didx, rp, scale, shift in runs:
            rc, txt, cases, stats = run_driver(ctx, drivers[didx], didx, replay=rp, scale=scale, seed_shift=shift)
            if rc != 0:
                harness_err = "driver %s exited %d:\n%s" % (drivers[didx]["driver"], rc, txt[-3000:])
                all_cases += cases      # what it produced before it died or hung is still judged
                break
            all_cases += cases
            for k, v in stats.items():
                stats_all["%s.%s" % (drivers[didx]["driver"], k)] = v
        ctx.stage("drivers")
        if harness_err is None or all_cases:
            failures, judge_err = judge_cases(ctx, all_cases, plugin.JUDGE[0], plugin.JUDGE[1], getattr(plugin, "JUDGE_IMPORTS", ()), getattr(plugin, "JUDGE_SCOPE", "N_scope"))
        ctx.stage("judge")

    # 5. coverage numbers
    cov["evaluations"] = len(all_cases)
    cov["traces_validated_against_impl"] = len(all_cases) - len([i for i in failures if failures[i] & 1])
    seen = set()
    tagc = {}
    for c in all_cases:
        if c.get("nontrivial"):
            seen.add(hashlib.sha1(c["coq"].encode()).hexdigest())
        for t in c.get("tags", []):
            tagc[t] = tagc.get(t, 0) + 1
    cov["distinct_nontrivial"] = len(seen)
    cov["input_distribution"] = dict(sorted(tagc.items()))
    cov["driver_stats"] = stats_all
    cov["samples"] = [{"name": c.get("name"), "input": c.get("input"), "obs": c.get("obs"), "coq": c["coq"][:400]}
                      for c in all_cases[:3]] + [{"obligation": o} for o in obligations[:5]]
    cov["exhaustive"] = False

    # 6. verdicts
    def case_payload(c, code):
        return {"name": c.get("name"), "verdict_code": code, "input": c.get("input"), "obs": c.get("obs"),
                "tags": c.get("tags"), "coq": c["coq"]}

    if harness_err is not None:
        path = write_replay(ctx, "harness", {"kind": "harness-build-or-run", "detail": harness_err,
                                             "note": "the correspondence harness could not be built or run against the repository"})
        violations.append("VIOLATION property=%s replay=%s no-failing-input-found" % (pid, path))
    if judge_err:
        path = write_replay(ctx, "judge", {"kind": "judge", "detail": judge_err[-4000:]})
        violations.append("VIOLATION property=%s replay=%s no-failing-input-found" % (pid, path))

    monitor_fail = [(i, code) for i, code in sorted(failures.items()) if code & 2]
    corr_fail = [(i, code) for i, code in sorted(failures.items()) if not code & 2]
    unlisted_monitor = []
    for i, code in monitor_fail:
        k = match_known(pid, all_cases[i], known)
        if k:
            line = "KNOWN-FINDING: property=%s %s" % (pid, k["what"])
            if line not in known_lines:
                known_lines.append(line)
        else:
            unlisted_monitor.append((i, code))
    if unlisted_monitor:
        # minimal reporting: group by driver, one replay file per driver with up to 5 failing inputs
        by = {}
        for i, code in unlisted_monitor:
            by.setdefault(all_cases[i]["_driver"], []).append((i, code))
        for didx, lst in by.items():
            lst = sorted(lst, key=lambda ic: len(all_cases[ic[0]]["coq"]))[:5]
            path = write_replay(ctx, "fail-d%d" % didx, {
                "kind": "property-monitor-false-on-implementation", "property": pid, "driver_index": didx,
                "driver": drivers[didx]["driver"],
                "inputs": [all_cases[i].get("input") for i, _ in lst],
                "cases": [case_payload(all_cases[i], code) for i, code in lst]})
            violations.append("VIOLATION property=%s replay=%s" % (pid, path))

    need_search = (proof_broken is not None or corr_fail) and not unlisted_monitor and harness_err is None
    found = None
    if need_search and not replay_path:
        # the property is no longer shown: search the implementation for a concrete failure
        scale = getattr(plugin, "SEARCH_SCALE", 20)
        for didx in range(len(drivers)):
            rc, txt, cases, stats = run_driver(ctx, drivers[didx], didx, scale=scale, seed_shift=7919)
            if rc != 0 or not cases:
                continue
            f2, e2 = judge_cases(ctx, cases, plugin.JUDGE[0], plugin.JUDGE[1], getattr(plugin, "JUDGE_IMPORTS", ()), getattr(plugin, "JUDGE_SCOPE", "N_scope"))
            cov["evaluations"] += len(cases)
            mf = [(i, code) for i, code in sorted(f2.items()) if code & 2 and not match_known(pid, cases[i], known)]
            if mf:
                mf = sorted(mf, key=lambda ic: len(cases[ic[0]]["coq"]))[:5]
                found = write_replay(ctx, "search-d%d" % didx, {
                    "kind": "property-monitor-false-on-implementation (found by search after a broken proof/correspondence)",
                    "property": pid, "driver_index": didx, "driver": drivers[didx]["driver"],
                    "broken": proof_broken, "inputs": [cases[i].get("input") for i, _ in mf],
                    "cases": [case_payload(cases[i], code) for i, code in mf]})
                violations.append("VIOLATION property=%s replay=%s" % (pid, found))
                break
    if (proof_broken is not None or corr_fail) and not unlisted_monitor and found is None:
        lst = corr_fail[:5]
        payload = {"kind": "no-longer-shown", "property": pid,
                   "broken_theorem_or_translation": proof_broken,
                   "correspondence_disagreements": [case_payload(all_cases[i], code) for i, code in lst],
                   "driver_index": all_cases[lst[0][0]]["_driver"] if lst else 0,
                   "inputs": [all_cases[i].get("input") for i, _ in lst],
                   "note": "the model and the implementation disagree, or a proof obligation / generated table no longer checks; "
                           "no input on which the property itself fails was found by the search"}
        path = write_replay(ctx, "unshown", payload)
        violations.append("VIOLATION property=%s replay=%s no-failing-input-found" % (pid, path))
    if proof_broken is not None:
        cov["broken"] = proof_broken
    cov["stage_wall_s"] = dict(getattr(ctx, "stages", []))
    cov["disagreements"] = len(corr_fail)
    cov["monitor_failures"] = len(monitor_fail)
    return finish(ctx, violations, known_lines, cov)


def load_plugin(pid):
    path = os.path.join(VERIF, "checks", pid + ".py")
    spec = importlib.util.spec_from_file_location("check_" + pid, path)
    mod = importlib.util.module_from_spec(spec)
    spec.loader.exec_module(mod)
    return mod


def main(argv):
    import argparse
    ap = argparse.ArgumentParser()
    ap.add_argument("property")
    ap.add_argument("--tier", default=os.environ.get("VERIF_TIER", "quick"), choices=["quick", "thorough"])
    ap.add_argument("--replay", default=None)
    a = ap.parse_args(argv)
    seed = int(os.environ.get("VERIF_SEED", "1") or "1")
    plugin = load_plugin(a.property)
    return run(plugin, a.tier, seed, os.path.abspath(a.replay) if a.replay else None)
