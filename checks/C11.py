ID = "C11"
PROPS_FILE = "props/C11.v"
COQ_TARGETS = ["props/C11.vo", "judge/J11.vo", "model/Pack.vo"]
JUDGE = ("judge.J11", "J11.judge")
JUDGE_IMPORTS = ("From NSQV Require Import model.Gate model.GateRe model.GateHttp.",)
REPO_BINS = []
RULE = ("real in-process nsqd per case (fresh data dir, the repository's test certificates, every combination of tls-required 0/tcp-https/required x certificate "
        "x client-cert policy ''/require/require-verify x 0/1/2 auth addresses x GET/POST) against a stub auth server serving a scripted answer stream "
        "(valid grants with topic/channel patterns and permission sets, HTTP 500/404, truncated JSON, ttl<=0, unknown permission, uncompilable pattern, empty grant list); "
        "raw TCP client, IDENTIFY tls_v1 upgrade done with crypto/tls presenting no / a self-signed / a CA-signed certificate or aborting; profiles: every command kind "
        "on a plaintext connection of a TLS-requiring daemon, every command kind before AUTH, handshake outcomes per policy, authorised connections with per-topic/channel "
        "grants and the cached answer's age moved in 10 s steps against TTLs of 10/20/30/3600 s (hook) plus six real 1 s-TTL cases with real waiting, two connections on "
        "one daemon, random sequences incl. malformed command words; every daemon with or without an --https-address (30 %) and an --http-address (10 %); "
        "HTTP: every startable option combination (tls-required x certificate x client-cert policy, 10) x {both HTTP listeners, no HTTPS address, no HTTP address}: state seeded through the "
        "in-process API, then one request of EVERY route of newHTTPServer (ping, info, stats, pub, mpub, topic and channel create/delete/empty/pause/unpause, config GET/PUT, the eleven /debug routes, "
        "an unknown path, a wrong method; valid, invalid and missing names) on the plaintext listener, the same on the TLS listener, then the state-changing requests on the plaintext listener again, "
        "topics / message counts / channels read (GetStats) after every request; random request sequences over the same configurations; "
        "start-up of all 18 option combinations x 4 address settings with the listeners the daemon reports. A case is non-trivial when a command was executed with effect, answered by the TLS gate or by an auth denial; "
        "distinct = distinct recorded terms.")
TRUSTED = [
    "modelled, not verified: crypto/tls (handshake completion per ClientAuth policy is the 3x3 table Gate.handshake_ok, validated by the driver), net/http and encoding/json of the auth query (an answer is AError or a decoded {ttl, authorizations}), regexp (Section variables re_match / re_ok in every theorem; the judge instantiates them with a Kernighan-Pike matcher over the dialect ^? (atom|atom*)* $? that the driver generates grants in)",
    "one clock reading per command: time.Now() inside QueryAuthd (Expires = now + ttl) and inside IsExpired are taken as the same instant of the command that triggers them",
    "hook /repo/nsqd/verif_c11.go (build tag verif): VerifShiftAuthExpiry moves a client's cached AuthState.Expires earlier (virtual time for the TTL), VerifClientGate reads a client's TLS flag / cache; the daemon's state is read with NSQD.GetStats (the function behind GET /stats)",
    "stub auth server and raw client: /verif/harness/cmd/authdrive/main.go",
    "HTTP handlers past the 403 guard are modelled by status class and visible state only (GateHttp.http_step: 200/400/404/405, topics with message_count, channels); the in-process calls that seed state (GetTopic, GetChannel, PutMessage) are taken to be what /topic/create, /channel/create, /pub do",
]
ASSUMPTIONS = [
    "commands other than NOP/RDY answer exactly one frame (IDENTIFY with tls_v1: two); the driver sends a NOP or RDY together with a barrier command (IDENTIFY {} in state init, FIN 0..0 after SUB) so that attribution needs no timing",
    "not exercised by the driver (model only): snappy or deflate negotiated alone, a second tls_v1 IDENTIFY on an upgraded connection, FIN/REQ/TOUCH of a message actually in flight, E_PUB_FAILED/E_SUB_FAILED (topic or channel exiting, max-channel-consumers), auth-server timeouts, the 403->https retry of the auth client, ephemeral topics/channels, HTTPS requests presenting no or a self-signed client certificate under a client-cert policy (the driver's HTTPS client always presents the CA-signed one), unix-socket HTTP addresses",
]
LEVEL_TEXT = ("Machine-checked proof (Coq 8.16.1) over an executable command-level model of protocolV2.Exec / enforceTLSPolicy / IDENTIFY / AUTH / CheckAuth / SUB / PUB / MPUB / DPUB, "
              "clientV2.IsAuthorized / QueryAuthd / HasAuthorizations, auth.State.IsAllowed / IsExpired / QueryAnyAuthd (validation included), nsqd.New's TLS option normalisation, "
              "NSQD.Main's HTTP wiring and httpServer.ServeHTTP: for every command list, policy configuration, oracle stream of auth-server answers, clock and regexp semantics — "
              "(tls gate) with TLS required and no completed upgrade every non-IDENTIFY command gets the fatal E_INVALID, consumes and changes nothing and ends the connection, the TLS flag "
              "is set only by a completed upgrade inside a tls_v1 IDENTIFY, every plaintext HTTP request of every endpoint is answered 403 and changes no topic, message count or channel iff tls-required=required (a client-cert policy alone implies it), "
              "whether or not the daemon has an HTTPS listener, and the TLS listener (there iff certificate and --https-address) never refuses; (auth gate) a topic/channel creation, enqueue or subscription "
              "happens only in a PUB/MPUB/DPUB/SUB that follows a successful AUTH and only if the answer in force (cached while unexpired, else the one fetched by this command's re-query, "
              "and always an answer this connection obtained from the auth server) grants that topic and channel; (decision) both directions with the documented codes: past the TLS gate and its own "
              "syntax checks such a command is refused with exactly E_AUTH_FIRST (no successful AUTH) / E_AUTH_FAILED (expired and the re-query fails) / E_UNAUTHORIZED (answer in force does not grant) "
              "and otherwise gets its normal answer and exactly its normal effects; (no trace) E_AUTH_FIRST / E_AUTH_FAILED / E_UNAUTHORIZED is the single, "
              "fatal answer of a command that changed nothing. Tied to the source by tables regenerated on every run (Exec dispatch rows vs the gate, enforceTLSPolicy's condition, "
              "the single writer of client.TLS, the four handlers' event order with the guarded CheckAuth first, CheckAuth's fatal returns, newHTTPServer wiring, ServeHTTP's guard, "
              "every write of httpListener / httpsListener with its condition in nsqd.New, the listener each server is served on) "
              "and by differential correspondence on a real nsqd with a scripted auth server.")
LEVEL_NOTE = ("Trusted: Coq kernel + vm_compute; gotables (go/ast, syntactic); the hand-written model; the verif hook; crypto/tls, net/http, encoding/json, regexp are modelled "
              "(handshake outcome table, AError | AState, re_match/re_ok parameters). Partial: the TLS handshake itself and certificate verification are crypto/tls; regexp semantics "
              "is a parameter of the theorems (the correspondence uses a restricted dialect); one clock reading per command; correspondence is sampled, the theorems are not.")
TECHNIQUE = "Coq proofs by case analysis per command + induction over the command list, obligations over regenerated dispatch/order/wiring tables, differential correspondence (real nsqd + scripted auth server vs vm_compute of the model)"
DESIGN_REF = "DESIGN.md §5 C11"


def drivers():
    def args(tier, seed, scale):
        n = (240 if tier == "quick" else 2400) * scale
        h = (30 if tier == "quick" else 150) * scale
        return ["-n", str(n), "-http", str(h), "-realttl", "6", "-seed", str(seed)]
    return [{"driver": "authdrive", "args": args, "replay_args": lambda tier: []}]
