ID = "C17"
PROPS_FILE = "props/C17.v"
COQ_TARGETS = ["props/C17.vo", "judge/J17.vo", "model/Pack.vo"]
JUDGE = ("judge.J17", "J17.judge")
JUDGE_IMPORTS = ("From NSQV Require Import gen.AdminRoutes model.Admin model.AdminCfg model.AdminReconf.",)
JUDGE_SCOPE = "N_scope"
REPO_BINS = [("nsqadmin", "apps/nsqadmin", "")]
RULE = ("requests to the REAL nsqadmin (package nsqadmin in-process: real listener for requests sent as hand-written HTTP/1.1 from several 127/8 "
        "source addresses, the real router+handlers with a synthetic RemoteAddr / raw req.Header otherwise) in front of recording stub nsqlookupd/nsqd "
        "upstreams: (1) every state-changing route x 19 identity classes (absent, empty, admin, second admin, non-admin, case, upper, leading/trailing "
        "space, tab, prefix, suffix, list, quoted, two header lines either order, other header, lower/upper-cased header name) x admin list {[], [a], [a;b]} "
        "x ACL header name {default, configured lower-case, custom} with valid / invalid / undecodable bodies and worlds of answering, failing (500, garbage, "
        "wrong type, refused) nsqlookupds and nsqds, failing POSTs, lookupd and direct-nsqd mode; (2) every route pattern (plus unknown paths) x 7 methods "
        "with and without identity; (3) /config GET/PUT x 30 client address forms (IPv4, IPv6, IPv4-mapped, boundary addresses, unparsable) x 17 CIDRs "
        "(none, /0 /1 /8 /16 /24 /30 /31 /32, IPv6, IPv4-mapped IPv6) x option / body classes, the option read back before and after from an allowed address; "
        "(4) random state-changing requests; (5) CONFIGURATION PATHS: the real apps/nsqadmin binary started as an operator starts it, each of the five options the property "
        "depends on (admin list, ACL header name, /config CIDR, nsqlookupd addresses, nsqd addresses) x {command line (repeated flag), --config file with the key of "
        "contrib/nsqadmin.cfg.example (array / comma-separated string), both with different values (the command line must win), default}, the other options on random paths, "
        "one launch with everything in the file; per launch every state-changing route x {absent/empty/non-admin, alice, bob or a look-alike} over real connections, /config GET/PUT "
        "from loopback addresses inside and outside the CIDR in force, GET /config/<documented key>, read-only views; the case states the launch as written, not the configuration; "
        "(6) RUN-TIME RECONFIGURATION of the upstream addresses: a fresh in-process nsqadmin per scenario, start lists {one nsqd, two nsqds, two nsqds + one down, one nsqlookupd, two nsqlookupds} "
        "x 19 histories of /config requests (PUT nsqlookupd_http_addresses: add one / several / one that is down to an nsqadmin started with --nsqd-http-address, replace, extend, reorder with "
        "duplicates, remove ([] and null), refused from outside the CIDR before / after an accepted one, bodies that do not decode, empty bodies, the options that can not be set "
        "(nsqd_http_addresses, admin_users, ...), log_level, GET) x CIDR {default, 10.1.2.0/24, 127.0.0.0/30, none}, each request from inside or outside over a real connection or with a synthetic "
        "RemoteAddr and the list read back after it; then EVERY state-changing action (create topic, create channel, pause / unpause / empty x topic / channel, delete topic, delete channel, tombstone) "
        "by an admin and two requests without an admin identity, against worlds whose nsqlookupds list producers inside and outside the static nsqd list; the case states the start lists and the "
        "history, not the lists in force (thorough tier: random histories in addition).  "
        "Non-trivial = answered 403, caused a POST, swapped an option, went through the /config gate or was not answered; distinct = distinct terms.")
TRUSTED = [
    "modelled, not verified: net/http request parsing (header canonicalisation and optional-white-space trimming are modelled from net/textproto), "
    "httprouter's matching (modelled: exact method+pattern, 405 on a known path, OPTIONS 200, 404), encoding/json decoding of the request body "
    "(the case states what the decoder yields), net.ParseCIDR / net.ParseIP text parsing (the case carries the numbers; IPNet.Contains itself is modelled)",
    "the stub nsqlookupd/nsqd servers of /verif/harness/cmd/admindrive/stubs.go (they record method, path and decoded query of every request they receive)",
    "no hook in /repo is needed for C17: nsqadmin.NewHTTPServer is exported and gives the real router for requests with a synthetic RemoteAddr",
    "configuration paths: flag.FlagSet parsing, BurntSushi/toml decoding of the --config file (the case states the keys and values written), go-options' reflection "
    "(modelled: flag over file over flag default, `cfg` tag or underscored flag name, string<->[]string coercions, panic on an undefined flag); net.ResolveTCPAddr of the addresses",
]
ASSUMPTIONS = [
    "an admin list that itself contains the empty string makes the absent header an admin identity (isAuthorizedAdminRequest compares with req.Header.Get's \"\"); such a configuration is not generated",
    "requests that reach nsqadmin over a connection have optional white space around the header value removed by net/http before the comparison (\" alice\" on the wire IS alice); modelled, and exercised both ways",
    "notifyAdminAction (a POST to --notification-http-endpoint) is not an nsqd/nsqlookupd request and is not modelled here (its crash on an unreachable endpoint, F13, is replayed by C18's hostile stream)",
    "configuration paths: only valid launches are generated (exactly one of the two address lists on its effective path, a CIDR that parses or is empty, no empty admin name: admin_users = \"\" "
    "would make go-options produce the list [\"\"]); a launch that is not a valid configuration promises nothing (the model says nsqadmin does not start, which is compared); `deprecated` struct "
    "tags (none today) are not modelled: a field that gets one makes the model refuse the table",
    "run-time reconfiguration: the nsqlookupd list in force is observed by reading /config/nsqlookupd_http_addresses back after every request of a history, with a synthetic RemoteAddr inside the CIDR "
    "(the reads are not part of the history); the body of a PUT is classified (decodes into a list of strings / does not / empty) by the driver with encoding/json, as for the other /config cases",
    "what /config holds after a PUT to the launched binary is read back over a connection from a loopback address inside the CIDR in force; when that CIDR holds no 127/8 address only GETs are sent",
]
LEVEL_TEXT = ("Machine-checked proof (Coq 8.16.1). The nsqadmin route table, each handler's ordered event summary (admin guard recognised only in its exact "
              "shape `if !s.isAuthorizedAdminRequest(req) { return 403 }` as a top-level statement, the /config CIDR test, mutating vs read-only clusterinfo calls "
              "classified by reachability of client.POSTV1, decode/validate calls, swapOpts) and the fan-out step table of every POSTing clusterinfo method are "
              "regenerated from nsqadmin/http.go and internal/clusterinfo/data.go on every run; the theorems Require them. Proved for ALL requests, configurations and "
              "upstream worlds of the model: a request routed to a handler that reaches a mutating clusterinfo call, with an admin list configured and an ACL header value "
              "(absent = empty; look-alikes are just other strings) not in it, is answered 403 with NO upstream request and nothing swapped; /config outside the allowed CIDR "
              "likewise and the CIDR test is exactly a bit-prefix comparison (IPv4, IPv6, IPv4-mapped); read-only routes never answer 403; with an admin identity the handler "
              "behaves as with no admin list, and each action POSTs exactly to every nsqlookupd and to the duplicate-free union of the producers the answering upstreams list "
              "(502 and no POST iff the producer look-up got no answer). The configuration itself is quantified over: for EVERY launch (any command-line arguments, any decoded config file) options.Resolve over the regenerated struct tags of "
              "nsqadmin.Options, flag set of apps/nsqadmin and NewOptions defaults yields exactly the documented configuration (command line over file over default, under the flag names and the "
              "keys of contrib/nsqadmin.cfg.example), nsqadmin starts iff exactly one address list is given and the CIDR parses, and the guarded / allowed / CIDR theorems hold for the admin list, "
              "header name and CIDR AS THE OPERATOR WROTE THEM on any path; every documented key is the key of exactly one option of the documented shape and every `flag` tag names a defined flag. "
              "Run-time reconfiguration is quantified over as well: for EVERY history of /config requests the nsqd list is the one of the start and the nsqlookupd list is the value "
              "of the last PUT of nsqlookupd_http_addresses that decodes and comes from inside the CIDR (requests from outside change nothing and are answered 403 / 400), and after ANY history the actions look "
              "their producers up through the nsqlookupds in force when there is one (through the static nsqd list only when there is none) and POST to exactly those nsqlookupds and producers; the source shape "
              "of that choice (GetTopicProducers / GetProducers), the lists every handler hands to clusterinfo (the options in force at the time of the request, both, nsqlookupd first) and the options doConfig can "
              "set are regenerated (gen/AdminModes.v) and compared. "
              "Tied to the code by the generated tables and by differential correspondence on the real nsqadmin (in-process and the real binary started from flags / config files).")
LEVEL_NOTE = ("Trusted: Coq kernel + vm_compute (finite table checks); the gotables translator (go/ast; it recognises shapes and call order, it does not evaluate Go); "
              "hand-written handler step lists whose projection must equal the regenerated summaries; the correspondence is sampled, the theorems are not. "
              "Partial: HTTP parsing, routing internals and JSON decoding are the Go standard library / httprouter (modelled at their interface); the order of upstream "
              "requests inside one fan-out is concurrent in the code and compared as a multiset.")
TECHNIQUE = "Coq proofs over generated route/handler tables (vm_compute over the finite table, lifted to all requests) + differential correspondence on the real nsqadmin with recording stub upstreams"
DESIGN_REF = "DESIGN.md §5 C17"
SEARCH_SCALE = 3


def drivers():
    def args(tier, seed, scale):
        n = (160 if tier == "quick" else 2500) * scale
        return ["-profile", "c17", "-n", str(n), "-seed", str(seed)]
    return [{"driver": "admindrive", "args": args, "replay_args": lambda tier: ["-profile", "c17"]}]
