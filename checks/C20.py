ID = "C20"
PROPS_FILE = "props/C20.v"
COQ_TARGETS = ["props/C20.vo", "judge/J20.vo", "model/Pack.vo"]
JUDGE = ("judge.J20", "J20.judge")
REPO_BINS = [("to_nsq", "apps/to_nsq", "")]
RULE = ("generated stdin inputs (0-8 records; lengths clustered at 0/1/2-4/1-40/4094-4098 = bufio boundary; "
        "delimiters \\n , space 0xff a \\r 0x01; final record terminated or not; empty records; raw bytes containing the delimiter) "
        "fed to the real to_nsq binary with 1-3 recording destinations; a case is non-trivial when at least one record was published; "
        "distinct = distinct (input, delimiter, destinations, observed output) terms")
TRUSTED = [
    "modelled, not verified: bufio.Reader.ReadBytes (as: bytes up to and including the delimiter, or the rest with EOF), go-nsq Producer.Publish (as: delivers the body to the destination in call order), process start-up/flag parsing",
    "recording destination = /verif/harness/lib/stubnsqd.go (a minimal nsqd TCP endpoint written for this harness)",
]
ASSUMPTIONS = [
    "nsq_to_nsq / nsq_to_http acknowledgement logic is covered by the C20 handler model (see DESIGN.md C20); go-nsq and hostpool internals are not modelled",
]


def drivers():
    def args(tier, seed, scale):
        n = (300 if tier == "quick" else 3000) * scale
        return ["-n", str(n), "-seed", str(seed)]
    return [{"driver": "relaydrive", "args": args, "replay_args": lambda tier: []}]

LEVEL_TEXT = ("Machine-checked proof (Coq 8.16.1) that the to_nsq reader loop, for every input byte string and every delimiter, "
              "publishes exactly the non-empty delimiter-separated records in order to every destination (final unterminated record included), "
              "over an executable Gallina model tied to the source by differential correspondence: the real to_nsq binary is run on generated "
              "stdin streams against recording destinations and the model is evaluated on the same inputs inside coqc.")
LEVEL_NOTE = ("Trusted: Coq kernel + vm_compute; the hand-written model of readAndPublish (bufio.ReadBytes, go-nsq Publish modelled); the stub destination; "
              "the correspondence is sampled (generated inputs), the theorem is not. nsq_to_nsq/nsq_to_http acknowledgement half: see DESIGN.md C20.")
TECHNIQUE = "Coq proof by induction over the input + differential correspondence (real binary vs vm_compute of the model)"
DESIGN_REF = "DESIGN.md §5 C20"
