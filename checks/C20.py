ID = "C20"
PROPS_FILE = "props/C20.v"
COQ_TARGETS = ["props/C20.vo", "judge/J20.vo", "model/Pack.vo"]
JUDGE = ("judge.J20", "J20.judge")
JUDGE_IMPORTS = ["From NSQV Require Import model.RelayAck."]
REPO_BINS = [("to_nsq", "apps/to_nsq", ""), ("nsq_to_nsq", "apps/nsq_to_nsq", ""), ("nsq_to_http", "apps/nsq_to_http", "")]
RULE = ("(1) to_nsq: generated stdin inputs (0-8 records; lengths clustered at 0/1/2-4/1-40/4094-4098 = bufio boundary; "
        "delimiters \\n , space 0xff a \\r 0x01; final record terminated or not; empty records; raw bytes containing the delimiter) "
        "fed to the real to_nsq binary with 1-3 recording destinations; non-trivial when at least one record was published. "
        "(2) nsq_to_nsq / nsq_to_http: the real binaries against a real in-process source nsqd (8-47 distinct bodies incl. binary and "
        "URL-hostile ones) and 1-3 scripted stub destinations sharing one global request log: nsq_to_nsq modes round-robin / hostpool / "
        "epsilon-greedy with answers OK / E_PUB_FAILED / close and refused first connections, optional --require-json-field; nsq_to_http POST and GET "
        "in modes round-robin / hostpool / epsilon-greedy / all with answers 200 / 204 / 301 / 400 / 500 / close, optional --sample 0.5; "
        "max-in-flight 1/5/200; requeue delay shortened by -consumer-opt (max_attempts left at the library default); the run waits until the source "
        "channel is empty (or 45 s), stops the tool and drains what is still owed; non-trivial when at least one request reached a destination; "
        "a run in which a never-accepted body was rejected >= max_attempts times and is no longer owed is named kf-max-attempts-* (known finding K7); "
        "two such witnesses are part of every run. distinct = distinct case terms.")
TRUSTED = [
    "modelled, not verified: bufio.Reader.ReadBytes (as: bytes up to and including the delimiter, or the rest with EOF), go-nsq Producer.Publish/PublishAsync (delivers the body, reports the destination's answer in the transaction), go-nsq Consumer handler loop (handler error => REQ, nil => FIN unless auto-response disabled, attempts > max_attempts => FIN without calling the handler), net/http client (status code as sent; a closed connection is an error), hostpool (any choice sequence), process start-up/flag parsing",
    "recording destinations = /verif/harness/lib/stubnsqd.go and /verif/harness/cmd/relaydrive/ackstub.go (minimal nsqd TCP / HTTP endpoints written for this harness, scripted answers, one mutex-ordered request log)",
    "the source side is a real in-process nsqd; redelivery of requeued messages is property C01 (assumed here, modelled as a FIFO of owed messages)",
    "coq/gen/RelayCfg.v (gotables relaycfg.go): go-nsq version from go.mod, Config.MaxAttempts default tag read from the module cache, whether the tools assign MaxAttempts, the text of the two HTTP status tests",
]
ASSUMPTIONS = [
    "nsqd redelivers a requeued message (C01); go-nsq and hostpool internals are not modelled beyond the handler-loop contract stated in TRUSTED (C20 'partial')",
]


def drivers():
    def args(tier, seed, scale):
        n = (220 if tier == "quick" else 3000) * scale
        nack = (14 if tier == "quick" else 150) * (1 if scale == 1 else 4)
        return ["-n", str(n), "-nack", str(nack), "-seed", str(seed)]
    return [{"driver": "relaydrive", "args": args, "replay_args": lambda tier: [], "timeout": 1500}]

SEARCH_SCALE = 8
LEVEL_TEXT = ("Machine-checked proof (Coq 8.16.1), two halves. (1) to_nsq: for every input byte string and every delimiter the reader loop "
              "publishes exactly the non-empty delimiter-separated records in order to every destination (final unterminated record included). "
              "(2) nsq_to_nsq / nsq_to_http: over an executable model of PublishHandler.HandleMessage + responder() (publish result => Finish | Requeue; "
              "JSON filter / sampling drops only when such a flag is set; POST accepts 2xx, GET accepts 200, the two status tests regenerated from the source) "
              "composed with an arbitrary destination behaviour stream, arbitrary hostpool choices and a source queue that redelivers requeued messages: "
              "with max_attempts = 0 a message is finished only after requests carrying exactly its body were all accepted and is requeued otherwise "
              "(C20_finish_only_on_success), and if the destination accepts from some point on every message is delivered at least once after N+|msgs| "
              "deliveries (C20_eventual). With the configuration the tools really use (go-nsq's default max_attempts = 5, read from the vendored source; "
              "neither tool overrides it) the statement is REFUTED (C20_finish_only_on_success_refuted, known finding K7: after 5 rejections the client "
              "library finishes the message undelivered) and proved outside that region (C20_finish_only_on_success_holds_outside: no message requeued "
              "max_attempts times; C20_giveup_needs_failures). Tied to the code by differential correspondence: the real binaries against recording / "
              "scripted destinations and a real source nsqd, judged inside coqc.")
LEVEL_NOTE = ("Trusted: Coq kernel + vm_compute; the hand-written models; go-nsq's handler-loop contract, net/http, hostpool ('partial'); the stub destinations; "
              "correspondence is sampled, the theorems are not. KNOWN FINDING K7 is replayed on every run (cases kf-max-attempts-*): the property does not hold "
              "for a destination that rejects one message max_attempts (5) times in a row. The model is sequential (one delivery at a time); concurrency of "
              "handlers/responders is not modelled. JSON filtering is an abstract function (encoding/json not modelled).")
TECHNIQUE = "Coq proofs by induction over the input / over delivery blocks with a potential-function termination argument + differential correspondence (real binaries vs vm_compute of the models)"
DESIGN_REF = "DESIGN.md §5 C20"
