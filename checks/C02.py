ID = "C02"

PROPS_FILE = "props/C02.v"
COQ_TARGETS = ["props/C02.vo", "judge/J02.vo", "model/Pack.vo"]
JUDGE = ("judge.J02 judge.CoreJudge model.Core", "J02.judge")
REPO_BINS = []
RULE = ("seeded random operation sequences (profile c02: ~35 external operations per case plus the deliveries they cause and a final drain) "
        "against a real in-process nsqd (mem-queue-size 0/1/3/50, max-bytes-per-file 4096 so disk queues roll): TCP PUB/MPUB/DPUB and HTTP /pub /mpub, "
        "raw-TCP consumers (IDENTIFY msg_timeout 5 s / 60 s, unbuffered or 25 ms output buffer) doing SUB/RDY/FIN/REQ(0 or 30 s)/TOUCH/CLS/disconnect, "
        "wrong-connection and stale FIN/REQ/TOUCH, wrong-state commands, HTTP create/pause/unpause/empty/delete of topics and channels, ephemeral channels, "
        "timeout scans driven through the verif hook with clock readings now / +20 s / +2 h, graceful restarts on the same data path; after every operation "
        "the harness waits for exact quiescence (stats stable, every frame the server counts has been read, nobody ready behind a non-empty queue) and records "
        "answers, frames, scan results and /stats. A case is non-trivial when it contains a redelivery, a refused answer, a scan that re-queued something, "
        "an empty/delete or a restart; distinct = distinct traces.")
TRUSTED = [
    "modelled, not verified: go-diskqueue (a channel's queue is the multiset of messages waiting on it: placement and order are abstracted; only ephemeral queues are bounded), Go channels/select/mutexes (each operation is atomic at quiescence), time (every operation carries the harness's clock reading; timeouts are driven by VerifScan with margins of seconds)",
    "hooks /repo/nsqd/verif_core.go (VerifHeld, VerifScan: build tag verif); /stats over HTTP is the observation",
    "the coarse model is quiescent-to-quiescent: interleavings inside one operation (the windows K3-K5 of DESIGN.md section 6; K1 and K2 were repaired: F23, F24 of section 10.3) are below its grain; the schedule-level models of DESIGN 10.8 / 10.9 cover the lock protocol and the TOUCH / scan race",
]
ASSUMPTIONS = ["published message ids are fresh (C12)", "disk write errors do not occur"]
TECHNIQUE = "Coq invariant proofs over all operation histories of the core state machine + trace validation of real nsqd runs (model replay and property monitor evaluated by vm_compute)"
JUDGE_SCOPE = "N_scope"
SEARCH_SCALE = 6


def drivers():
    def args(tier, seed, scale):
        n = (40 if tier == "quick" else 600) * scale
        return ["-profile", "c02", "-n", str(n), "-ops", "35", "-seed", str(seed)]
    return [{"driver": "coredrive", "args": args, "replay_args": lambda tier: [], "timeout": 1500}]
LEVEL_TEXT = "Machine-checked proof (Coq) over the core model: FIN/REQ/TOUCH for a message the connection does not hold is refused with the non-fatal failure and leaves the WHOLE state unchanged; an answer is accepted iff the connection holds the message; every delivery takes the message from the channel queue and carries attempts+1; a timeout scan takes a message from its holder only when its deadline has passed. Trace validation of real nsqd runs: the monitor checks on the implementation's own trace that no message is delivered while held, attempts go 1,2,3..., nothing is delivered after an accepted FIN, only held messages time out, and a refused answer changes no counter."
LEVEL_NOTE = "Uniqueness of a message id among queued/in-flight/deferred/finished (single holder as an invariant over all histories) is proved in proofs/CoreUnique.v when present; mutex atomicity of each channel section is assumed; the exact array heaps are C04's (model/Heap.v)."
DESIGN_REF = "DESIGN.md section 5.0 and C02"
