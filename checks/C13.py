ID = "C13"

PROPS_FILE = "props/C13.v"
COQ_TARGETS = ["props/C13.vo", "judge/J13.vo", "model/Pack.vo"]
JUDGE = ("judge.J13 judge.CoreJudge model.Core", "J13.judge")
REPO_BINS = []
RULE = ("seeded random operation sequences (profile c13: ~35 external operations per case plus the deliveries they cause and a final drain) "
        "against a real in-process nsqd (mem-queue-size 0/1/3/50, max-bytes-per-file 4096 so disk queues roll): TCP PUB/MPUB/DPUB and HTTP /pub /mpub, "
        "raw-TCP consumers (IDENTIFY msg_timeout 5 s / 60 s, unbuffered or 25 ms output buffer) doing SUB/RDY/FIN/REQ(0 or 30 s)/TOUCH/CLS/disconnect, "
        "wrong-connection and stale FIN/REQ/TOUCH, wrong-state commands, HTTP create/pause/unpause/empty/delete of topics and channels, ephemeral channels, "
        "timeout scans driven through the verif hook with clock readings now / +20 s / +2 h, graceful restarts on the same data path; after every operation "
        "the harness waits for exact quiescence (stats stable, every frame the server counts has been read, nobody ready behind a non-empty queue) and records "
        "answers, frames, scan results and /stats. A case is non-trivial when it contains a redelivery, a refused answer, a scan that re-queued something, "
        "an empty/delete or a restart; distinct = distinct traces.")
TRUSTED = [
    "modelled, not verified: go-diskqueue (a channel's queue is the multiset of messages waiting on it: placement and order are abstracted; only ephemeral queues are bounded), Go channels/select/mutexes (each operation is atomic at quiescence), time (every operation carries the harness's clock reading; timeouts are driven by VerifScan with margins of seconds)",
    "hooks /repo/nsqd/verif_core.go (VerifHeld, VerifScan: build tag verif); /stats over HTTP is the observation",
    "the coarse model is quiescent-to-quiescent: interleavings inside one operation (the windows K3-K5 of DESIGN.md section 6; K1 and K2 were repaired: F23, F24 of section 10.3) are below its grain; the schedule-level models of DESIGN 10.8 / 10.9 cover the lock protocol and the TOUCH / scan race",
    "sub-operation model model/Counter.v (DESIGN 10.10): one consumer; the in-flight set's critical sections and the atomic count are single steps; the facts proofs/CounterSrc.v reads off the regenerated skeletons (decrement after a successful pop, Empty releases per message) are what ties it to the code",
]
ASSUMPTIONS = ["published message ids are fresh (C12)", "disk write errors do not occur"]
TECHNIQUE = "Coq invariant proofs over all operation histories of the core state machine + trace validation of real nsqd runs (model replay and property monitor evaluated by vm_compute)"
JUDGE_SCOPE = "N_scope"
SEARCH_SCALE = 6


def drivers():
    def args(tier, seed, scale):
        n = (40 if tier == "quick" else 600) * scale
        return ["-profile", "c13", "-n", str(n), "-ops", "35", "-seed", str(seed)]
    return [{"driver": "coredrive", "args": args, "replay_args": lambda tier: [], "timeout": 1500}]
LEVEL_TEXT = "Machine-checked proof (Coq) that for EVERY operation history within one daemon lifetime every channel satisfies message_count = depth + in-flight + deferred + finished + emptied (+ ephemeral overflow drops, zero on durable channels), that a topic's message_count/message_bytes change exactly by what each publish adds, that each consumer's finish/requeue/message counters equal the tally of its accepted FINs, REQs and deliveries over the whole history, and that its in-flight count equals the in-flight entries it owns (never negative). Trace validation: /stats?format=json of a real nsqd is compared with the model after every operation, and a model-independent ledger checks the conservation law, topic counters, each consumer's ready/in-flight/finish/requeue/message counts and non-negativity on every snapshot."
LEVEL_TEXT = LEVEL_TEXT + " Sub-operation model of the consumer's count against the in-flight set (model/Counter.v): deliveries, FIN / REQ / timeouts and Channel.Empty, any number under any schedule - the count is the size of the set whenever the threads in progress have finished (C13_count_exact_every_schedule; the zeroing Empty of the source before 72b06c9 refuted); the rule is read off the CURRENT source (C13_count_rule_in_the_source)."
LEVEL_NOTE = 'Text rendering of /stats and topic/channel filters are glue (compared by the harness in the thorough tier, not modelled). The partial-MPUB accounting branch needs a backend write error (not reachable without fault injection).'
DESIGN_REF = "DESIGN.md section 5.0 and C13"
