ID = "C07"
PROPS_FILE = "props/C07.v"
import sys as _sys
# The engine compiles props/C07.v itself for Print Assumptions (and fails the run if that
# does not compile), so the quick tier builds only what that compile needs; the thorough
# tier also builds props/C07.vo for coqchk.
COQ_TARGETS = ["proofs/WireProofs.vo", "proofs/WireLayoutProofs.vo", "proofs/PoolProofs.vo", "proofs/ConnWriterSrc.vo", "judge/J07.vo", "model/Pack.vo"] + (
    ["props/C07.vo"] if "thorough" in _sys.argv else [])
JUDGE = ("judge.J07", "J07.judge")
JUDGE_SCOPE = "N_scope"
REPO_BINS = []
RULE = ("(1) pure codecs through verif wrappers: Message.WriteTo, decodeMessage (valid records, every length 0..30, truncated records), "
        "writeMessageToBackend+decodeMessage, SendFramedResponse, streams of real frames cut into 1-byte/small/random chunks, readMPUB under limits "
        "{max-msg 1,5,16,64,1MiB} x {max-body 0..5MiB} with batches at the limits, zero-size and oversize bodies, tampered count/size fields, truncation, trailing bytes; "
        "bodies: sizes 0/1/25/26/27, 2-63, 65-564, 4KiB+-1, 16KiB+-1; contents random, zeros, 0xff, newlines, CRLF, frame-header-like, command-like, ASCII; "
        "timestamps 0/-1/min/max int64/now/negative/random; attempts 0/1/255/256/65535/random. "
        "(2) HTTP /pub, text /mpub, binary /mpub (Content-Length and chunked) against live daemons with default and tiny limits (max-msg 16 / max-body 60, every message through the disk queue or through a memory queue), observed through /stats and by consuming the channel; "
        "the HTTP boundary matrix (httpedge), every cell on every run: daemons {16/60 mem-queue 0, 16/60 mem-queue 100, 100/420 mem-queue 100} x {/pub, text /mpub, binary /mpub} x {Content-Length, chunked in one / 1-byte / 7-byte / max-msg-size chunks} x "
        "{a message of max-msg-2..+2 bytes and 2*max+3 (and 0, 1, 10*max+7 for /pub), alone, between valid messages, with and without the trailing newline; a request body of max-body-2..+2, 2*max+5, 4*max+1 bytes made of valid messages; nothing but newlines at the body limit; "
        "the count bound of a binary batch -1/0/+1; a valid batch followed by trailing bytes below, at and across the body limit}, plus /pub at max-1..max+2 on a 4096/16384 daemon (thorough: all its cells): 200 = exactly what the body spells out was delivered byte for byte, anything else = nothing delivered. "
        "(3) live paths on fresh daemons: TCP PUB/MPUB/DPUB + HTTP pub(+defer)/text mpub/binary mpub, 1-3 channels, mem-queue-size 0/1/2/10000, 1-3 deliveries per message (REQ, immediate or deferred; in some cases the first requeue is the in-flight timeout, msg_timeout 1 s), "
        "restart on the same data path, small max-bytes-per-file (file rolls), producers and consumers over a seeded walk of {plain,TLS} x {none,snappy,deflate1..9} x output_buffer_size{-1,64,16384,65536} x output_buffer_timeout{-1,default,25,1000}, "
        "other traffic interleaved on consumer connections; large bodies (4KiB+-1 .. 1MiB) compared by the harness (digest cases). "
        "(4) concurrent deliveries with a delivery held part-way (liveconc): 1-2 slow consumers behind a small TCP window (SO_RCVBUF 4/16 KiB, MSS 1400 on the harness's socket) read the header of a frame of 200 KB..1 MiB "
        "(= max-msg-size, +-1 around 256/512 KiB) and stop reading -- the daemon's write is blocked inside Send -- while 2-4 fast consumers on a shared channel take a whole batch concurrently and the next batch is published "
        "(mem-queue-size 0/1/10000), 2-3 rounds per case, consumers over the same transport walk, PUBs interleaved on the consumer connections (responses contending for the write lock of the held delivery), "
        "GOMAXPROCS 1 (quiet) / 2 / all in turn; "
        "(5) a queue write held part-way (livegate): the Put of writeMessageToBackend into a topic's or a channel's disk queue parks in the verif gate after serialisation while 1-4 messages travel all the way through another topic "
        "(two queue writes, read back, delivery, FIN), 2-4 rounds, sizes 8 B..200 KB, same-size and shorter other messages, mem-queue-size 0/1, GOMAXPROCS 1/2/all. "
        "(6) every writer of one consumer connection's shared output buffer held part-way while the connection's own commands contend for it (liveflush, each case in a process of its own): "
        "writer in {the output-buffer-timeout flush (output_buffer_size = the round's frames +0/+1/+4096/+100000/-1, capped at the daemon's --max-output-buffer-size, timeout 25/60/250 ms, RDY above in-flight), "
        "the not-ready force flush (same buffers, RDY = messages per round, timeout off or 30 s), Send (buffer -1/64/16384/65536, smaller than a frame)} x "
        "contending command in {PUB, NOP+PUB, MPUB, DPUB, FIN/REQ/TOUCH of an id not in flight (error frames), CLS}, every cell on every run; two daemons: default --max-output-buffer-size 64 KiB with frames of 30..64 KiB "
        "(a round's frames = the buffer exactly, -1 byte, below) and 4 MiB with frames of 200..300 KB, 1-2 frames per round; the consumer behind a 4 KiB receive window / MSS 1400 and the daemon's send buffer for that connection "
        "fixed at 4 KiB through the verif hook (kernel auto-tuning off: about 12 KB in flight in every round, also for the slow consumers of (4)); "
        "it reads the head of the round's first frame and stops, sends the command on the same connection, the harness waits until the command has been executed (topic message count) where that is observable, then reads on; "
        "over the same transport walk, GOMAXPROCS 1/2/all, 4 rounds; the whole stream from SUB to CLOSE_WAIT is judged frame by frame (every message once and byte for byte, exactly one response per command, in order and of the right kind, nothing else, nothing left over). "
        "Every case is non-trivial; distinct = distinct terms.")
TRUSTED = [
    "Section variables tx/rx standing for the transport (crypto/tls, golang/snappy, compress/flate at any level, bufio of any size, flush policy) with the single assumed law "
    "`forall writes, concat (rx (tx writes)) = concat writes` (C07_transport_stream, C07_end_to_end); the law is exercised, not proved, by the live cases",
    "modelled, not verified: sync.Pool (model/Pool.v: Get hands out ANY buffer that is in the pool, or a new one, never one that is checked out) and bytes.Buffer (Reset keeps the array, WriteTo overwrites its prefix in place); "
    "the sinks of the pooled bytes do not keep reading them after they return (io.Writer contract for the bufio/flate/snappy/tls writer stack; go-diskqueue Put returns after its ioLoop has taken the record) -- exercised by the liveconc / livegate cases; "
    "io.ReadFull / bufio.Reader.ReadBytes / io.LimitReader semantics, net/http request body delivery, "
    "go-diskqueue (abstract FIFO of records), time.Now (the timestamp is whatever NewMessage read)",
    "the client side of the frame format is the reader written in model/Wire.v after go-nsq ReadResponse/UnpackResponse; the harness's own raw TCP client (harness/cmd/wiredrive/client.go) implements the same reading",
    "hooks /repo/nsqd/verif_c07.go (build tag verif): wrappers around WriteTo, decodeMessage, writeMessageToBackend, SendFramedResponse, readMPUB; "
    "/repo/nsqd/verif_c07_gate.go: a forwarding BackendQueue wrapper whose next Put can be parked on entry (livegate cases); "
    "/repo/nsqd/verif_c07_sndbuf.go: SO_SNDBUF of one client connection's socket (liveconc, liveflush: a held write stays held in every round)",
    "generated table coq/gen/WireLayout.v (tools/gotables/wirelayout.go): field/offset/width/endianness/write order read from the syntax of WriteTo, decodeMessage, SendFramedResponse, doMPUB",
    "modelled, not verified: bufio.Writer (model/ConnWriter.v: Flush hands buf[0:n] as taken at the call to the transport piece by piece, each piece read from the array at that moment, then moves what lies behind to the front; "
    "finding more than n bytes buffered is a short write) and sync.RWMutex (a goroutine at a locking site waits while another holds the lock); the three Writes of SendFramedResponse and bufio's own flush of a frame that does not fit "
    "are one atomic append plus the job's flush (they happen inside one Send) -- exercised by the liveflush cases",
    "generated table coq/gen/WriteLock.v (tools/gotables/writelock.go): every use of a client connection's writer (x.Writer, x.flateWriter, x.Flush() for x of type clientV2) in package nsqd with its enclosing select case / if condition, "
    "and whether writeLock is held there (syntactic lock tracking through the statements of the function: Lock / Unlock statements, defer Unlock, nested blocks inherit, function literals start unlocked)",
    "generated table coq/gen/PoolUse.v (tools/gotables/pooluse.go): every function of package nsqd that calls bufferPoolGet, and whether its bufferPoolPut is deferred / placed after the last statement that mentions the buffer or an alias of its memory (syntactic alias tracking through assignments); what bufferPoolPut / bufferPoolGet call",
]
ASSUMPTIONS = [
    "transport round-trip law (TLS/snappy/deflate/bufio): what the peer reads is the concatenation of what was written",
    "the history-level statement (every delivery of every history of the nsqd state machine) is the Core model's; here every hop sequence of one message is covered (C07_path_preserves)",
]
LEVEL_TEXT = ("Machine-checked proof (Coq 8.16.1) over an executable model of Message.WriteTo/decodeMessage, SendFramedResponse and its byte-at-a-time reader, readMPUB and the PUB/DPUB/MPUB body reads, "
              "HTTP /pub and text/binary /mpub, the per-channel copy of Topic.messagePump and Attempts++: for EVERY well-formed message (any body bytes and length, any int64 timestamp, any uint16 attempts) decode(encode m) = m and every "
              "decodable record is the encoding of what it decodes to; shorter-than-26-byte inputs are refused and nothing ever slices out of range; EVERY sequence of frames, whatever the data bytes, read in ANY chunking gives back "
              "exactly that sequence; readMPUB returns exactly the bodies of every batch within the limits and, for EVERY input, leaves the queue untouched or extended by exactly what the input spells out (all-or-nothing); text /mpub publishes "
              "exactly the non-empty newline-separated blocks (unterminated last block included) or nothing; EVERY sequence of memory/disk/restart/requeue/copy/delivery hops preserves id, body and timestamp and counts attempts; "
              "one delivery end to end over an arbitrary transport satisfying the stated round-trip law; ids are 16 hex characters, injective in the guid; "
              "pooled serialisation buffers (SendMessage, writeMessageToBackend): for EVERY number of concurrent calls, EVERY interleaving of their steps, EVERY choice of the pool and EVERY cut of the writes, a call's sink receives exactly that call's record "
              "under the release discipline read from the source (and not under release-before-write); "
              "the connection's shared buffered writer (Send, the not-ready flush and the timed flush of messagePump): for EVERY number of goroutines, EVERY program of sends and flushes, EVERY interleaving and EVERY cut of the transport's writes, "
              "what reaches the transport is the concatenation of whole frames, each goroutine's frames once and in its order, and no flush sees a short write, under the lock discipline read from the source (and not with the lock missing from the timed flush alone). "
              "Layout constants, the field/offset table, the pool-use table and the write-lock table are regenerated from the Go source on every run. "
              "Tied to the code by differential correspondence on the real functions and on live daemons over every negotiated transport combination.")
LEVEL_NOTE = ("Partial: compression/TLS libraries and bufio are assumed correct (one round-trip law, exercised live on every run); sync.Pool / bytes.Buffer semantics and the sinks' no-retention are assumed (exercised by deliveries and queue writes held part-way while other traffic runs); "
              "bufio.Writer.Flush and the mutex are modelled (exercised by every kind of write of a connection held part-way while the connection's own commands are answered); "
              "the history-level body-path statement over the nsqd state machine is Core's. Trusted: Coq kernel + vm_compute; gotables; the verif hooks; the harness's raw TCP client; correspondence is sampled, the theorems are not.")
TECHNIQUE = "Coq proofs (codec inverses, self-delimiting stream, all-or-nothing parsing, hop-sequence invariant) + generated layout table + differential correspondence on real code and live daemons"
DESIGN_REF = "DESIGN.md §5 C07"


# when a proof or the correspondence breaks, the engine searches the implementation for a
# failing input with SEARCH_SCALE times the tier's budget
SEARCH_SCALE = 1 if "thorough" in _sys.argv else 8


def drivers():
    def args(tier, seed, scale):
        if tier == "quick":
            n, nh, nl, nb, big, nt, nc, ng, nf = 220 * scale, 70 * scale, 26 * scale, 3, 8, 2, 6 * scale, 6 * scale, 6 * scale
        else:
            n, nh, nl, nb, big, nt, nc, ng, nf = 3000 * scale, 800 * scale, 400 * scale, 12, 40, 20, 90 * scale, 90 * scale, 96 * scale
        return ["-n", str(n), "-http", str(nh), "-live", str(nl), "-livebig", str(nb), "-livetmo", str(nt), "-liveconc", str(nc), "-livegate", str(ng), "-liveflush", str(nf), "-big", str(big),
                "-httpedge", "1" if tier == "quick" else "2", "-seed", str(seed)]
    return [{"driver": "wiredrive", "args": args, "replay_args": lambda tier: []}]
