ID = "C04"
PROPS_FILE = "props/C04.v"
COQ_TARGETS = ["props/C04.vo", "judge/J04.vo", "model/Pack.vo"]
JUDGE = ("judge.J04 judge.CoreJudge model.Core", "J04.judge")
JUDGE_SCOPE = "Z_scope"
REPO_BINS = []
RULE = ("numdrive: every 'way of writing the number' (boundary set per configuration: 0, config maxima +-2, 9223372036854+-2 = ms->ns overflow, "
        "2^63+-k, 2^64+-k, 10^19, 30/39-digit, leading zeros up to 40, empty, sign/float/hex/unicode/control non-digits, embedded spaces, the F1 "
        "witnesses; plus seeded random spellings in range / near the maxima / anywhere in uint64 / beyond 64 bits / with one non-digit or space) is "
        "fed to the real protocol.ByteToBase10 and, on two live in-process nsqd configurations, to REQ (effective delay read from the deferred heap "
        "through a verif accessor, bracketed by two clock readings), DPUB, RDY over TCP and /pub?defer= over HTTP; real msToDuration values; "
        "IDENTIFY msg_timeout values followed by a real delivery (pri - deliveryTS read back) and real TOUCHes with deliveryTS aged to straddle the cap. "
        "pqdrive: exhaustive-short and random operation sequences (push/pop/remove/PeekAndShift, out-of-range indices, duplicate priorities, int64 "
        "extremes, capacity growth/shrink, a few with priorities overwritten in place) on the REAL inFlightPqueue and the REAL pqueue.PriorityQueue "
        "(via container/heap), whole (priority,index,handle) array and capacity compared after every operation; runs of "
        "StartInFlightTimeout/TouchMessage/FinishMessage/RequeueMessage/StartDeferredTimeout/processInFlightQueue(t)/processDeferredQueue(t) on real "
        "channels (periodic scan parked) with t on both sides of every deadline, both heaps and both maps compared after every operation; scans of "
        "larger real heaps; TOUCH near the cap; calls of the real util.UniqRands (queueScanLoop's channel selection: distinct, in range, all channels when "
        "there are no more than the selection count); one round (thorough: five) of end-to-end wall-clock checks against a daemon with the real 100 ms ticker "
        "(REQ 150 ms, DPUB 200 ms, msg_timeout 1 s: client-side timestamps, never early exactly, late by at most 10 s); five cases on a third nsqd with "
        "max-req-timeout = MaxInt64 ns (known finding K9). Every case is non-trivial by construction; distinct = distinct case terms.")
TRUSTED = [
    "modelled, not verified: time.Now / time.Time arithmetic (one integer clock; wall-clock steps and the monotonic/wall distinction of newTimeout.Sub are not modelled), "
    "sync.Mutex atomicity of each critical section (the channel machine is sequential: map insert + heap push is one step), Go slice reallocation (capacity tracked as a number), "
    "strconv.ParseInt(s,10,64) (modelled in Deadline.parse_int64 and compared with the live /pub?defer= on every run), encoding/json decoding of IDENTIFY, the TCP tokenizer "
    "(the judge is given the space-delimited field the server saw), the topic messagePump hand-off of a deferred publish (the timer starts when the pump calls PutMessageDeferred)",
    "hooks /repo/nsqd/verif_c04.go and /repo/verifshim/pqueue.go (build tag verif): wrappers that call the real queue/channel functions, dump arrays and maps, run the scan functions with a given t, and move deliveryTS into the past",
    "queueScanLoop: the index selection util.UniqRands is modelled (ScanPick.v; theorem: with <= QueueScanSelectionCount channels every tick hands every channel to a worker, for every random stream); "
    "the ticker, the worker pool, the dirty-percentage repeat loop and the cached channel list (refreshed every QueueScanRefreshInterval) are NOT modelled: scans are events with a given t",
    "sub-operation models model/TouchScan.v and model/ScanRound.v (DESIGN 10.9): inFlightMutex is modelled as one atomic step per critical section; deadlines are abstracted to their comparison with the scan's clock; one message / one round / one TOUCH is the bound of the interleaving theorem; the pattern proofs/TouchScanSrc.v reads off the regenerated skeleton is what says the model still describes processInFlightQueue and TouchMessage",
]
ASSUMPTIONS = [
    "each mutex-protected section of channel.go is atomic and the (map, heap) pair is updated as one step (C04 'partial'; the fine-grained interleavings belong to C02/C08)",
    "a channel is scanned at least once per scan interval: proved for the index selection when #channels <= QueueScanSelectionCount (C04_tick_selection), assumed for the ticker/worker pool; beyond that count, and for a channel younger than the refresh interval, 'soon after' is probabilistic",
    "0 <= max-req-timeout < MaxInt64 ns and 0 <= max-rdy-count: for max-req-timeout == MaxInt64 exactly, DPUB/defer accept values above it (theorem C04_dpub_edge; known finding K9, replayed every run)",
    "one message object is never pushed on a heap twice (the channel's map check; the model represents a slot by the record it points to)",
]
LEVEL_TEXT = ("Machine-checked proof (Coq 8.16.1, no axioms) over exact executable models of nsqd/in_flight_pqueue.go, internal/pqueue/pqueue.go + Go's container/heap, "
              "protocol.ByteToBase10, msToDuration, the RDY/REQ/DPUB/HTTP-defer range decisions, SetMsgTimeout, TouchMessage/StartInFlightTimeout/StartDeferredTimeout and the "
              "scan loops: for EVERY byte string the parser fails iff a non-digit occurs and otherwise yields min(value, 2^64-1); REQ uses min(value ms, max-req-timeout), DPUB and "
              "/pub?defer= are accepted iff 0 <= value ms <= max-req-timeout and RDY iff 0 <= value <= max-rdy-count, for every spelling (leading zeros, any length, beyond 2^64, "
              "signs for HTTP); msg_timeout is accepted iff 0 or 1000 <= v <= max; heap order and index back-pointers are preserved by every operation of both queues, Remove(i) "
              "removes exactly entry i; PeekAndShift(t) never returns an entry with priority > t for ANY array content, and on a well-formed heap one scan at t releases exactly the "
              "entries with priority <= t (earliest first) -- lateness bounded by the scan interval; after any sequence of TOUCHes the deadline is min(t_touch+msg_timeout, "
              "deliveryTS+max-msg-timeout) <= deliveryTS+max-msg-timeout; the same statements lifted to every history of the sequential channel machine (invariant: both heaps well-formed and in step "
              "with their maps, no panic; every reachable in-flight deadline <= deliveryTS+max; a scan releases exactly the due messages); and a tick of queueScanLoop selects distinct channels, all of "
              "them when there are at most QueueScanSelectionCount. Tied to the source by "
              "constants regenerated from nsqd/options.go and by differential correspondence on the real queues, real channels and a live nsqd on every run.")
LEVEL_TEXT = LEVEL_TEXT + ' Sub-operation models: one TOUCH against one round of the timeout scan over the same message, statement by statement, in EVERY interleaving (model/TouchScan.v: C04_touch_vs_scan_every_interleaving, the scan without the re-read refuted), and one whole round over the queue (model/ScanRound.v: stale entries do not delay the due messages behind them); both stated for the scan the CURRENT source has (proofs/TouchScanSrc.v).'
LEVEL_NOTE = ("Trusted: Coq kernel + vm_compute; hand-written models (compared with the real code after every operation, sampled); gotables constants; the verif hooks. "
              "Partial: wall-clock behaviour (which channels a tick scans, scheduling delay between deadline and scan) is not modelled -- scans are events with a given t; "
              "mutex atomicity assumed. Known finding K9 (known_findings.json, replayed on every run by five cases on a third nsqd configured with max-req-timeout = MaxInt64 ns, tag kf=K9): "
              "at that setting DPUB and /pub?defer= accept delays above the maximum and deadlines with now+d >= 2^63 ns wrap (released at once); the DPUB/defer range theorems are therefore "
              "stated for max-req-timeout < MaxInt64 ns (C04_dpub_edge proves the bound is needed) and the deadline model assumes no int64 overflow.")
TECHNIQUE = "Coq proofs (induction over byte strings, heap-except-at-one-position invariants, permutation/multiset reasoning, machine invariants) + differential correspondence on the real queues, channels and a live daemon"
DESIGN_REF = "DESIGN.md §5 C04 (+ Heap.v part of C02, §8b)"
SEARCH_SCALE = 4


def drivers():
    def num_args(tier, seed, scale):
        n = (1500 if tier == "quick" else 12000) * scale
        return ["-n", str(n), "-seed", str(seed), "-wall", "1" if tier == "quick" else "5"]

    def pq_args(tier, seed, scale):
        if tier == "quick":
            return ["-n", str(100 * scale), "-nfill", str(40 * scale), "-nchan", str(50 * scale), "-nbig", str(12 * scale), "-ntouch", str(40 * scale),
                    "-exh-len", "3", "-exh-sample", "15", "-seed", str(seed)]
        return ["-n", str(1500 * scale), "-nfill", str(600 * scale), "-nchan", str(600 * scale), "-nbig", str(100 * scale), "-ntouch", str(300 * scale),
                "-exh-len", "4", "-exh-sample", "100", "-seed", str(seed)]
    def core_args(tier, seed, scale):
        n = (24 if tier == "quick" else 400) * scale
        return ["-profile", "c04", "-n", str(n), "-ops", "35", "-seed", str(seed), "-wrap", "J04.CoreTrace"]
    return [{"driver": "numdrive", "args": num_args, "replay_args": lambda tier: []},
            {"driver": "pqdrive", "args": pq_args, "replay_args": lambda tier: []},
            {"driver": "coredrive", "args": core_args, "replay_args": lambda tier: ["-wrap", "J04.CoreTrace"], "timeout": 1500}]
