ID = "C10"
PROPS_FILE = "props/C10.v"
COQ_TARGETS = ["props/C10.vo", "judge/J10.vo", "model/Pack.vo"]
JUDGE = ("judge.J10", "J10.judge")
JUDGE_SCOPE = "N_scope"
JUDGE_IMPORTS = ("From NSQV Require Import model.Http.",)
REPO_BINS = [("nsqd", "apps/nsqd", "")]
RULE = ("real nsqd daemons (in-process; max-msg-size 64, max-body-size 320, max-req-timeout 1h; queue scans parked) driven over real loopback "
        "sockets with raw HTTP/1.1 so that method, path, query, framing and body are exactly the generated ones: "
        "(route) every method (GET POST PUT DELETE HEAD OPTIONS PATCH TRACE CONNECT FOO get) x every registered path, plus path variants "
        "(trailing slash added/removed, case changed, doubled slashes, ./.. segments, percent-encoding, truncated/extended, '/', '*'); "
        "(req) every route with its arguments present / missing / invalid / unknown / empty / duplicated (valid first or invalid first), junk "
        "parameters, unparsable queries, bodies declared / chunked / with malformed chunk framing, wrong methods, against a generated "
        "topic/channel state (0-3 topics, 0-3 channels each, paused flags, depths 0-3, ephemeral names) rebuilt for every case; the state is read "
        "through GET /stats?format=json before and after at the exact quiescence condition of the topic pumps; "
        "(names) every endpoint that takes a topic or channel, with names of exactly 1, 63, 64 (valid) and 65 (invalid) bytes and 53 / 54 (valid) / 55 "
        "(invalid) bytes + #ephemeral, as the topic and as the channel, on existing and on new objects, plus /pub, /pub?defer, text and binary /mpub "
        "under each of those names with their TCP twins (tags topic-len= / channel-len=); "
        "(words) the words the API is made of (pause unpause empty delete create topic channel binary defer format json pub mpub stats true) used as "
        "user-chosen strings: every admin endpoint x every path word as the topic name, as the channel name and in an argument the endpoint does not "
        "read (word as key, inside a longer key, as value, bare key), against a state where the endpoint's effect and its opposite's are both visible "
        "in /stats (pause meets an un-paused object, unpause a paused one, empty a non-empty one) and sibling topics / channels named after route "
        "words must stay untouched; parameters of other endpoints (channel= on /topic/*, binary= defer= format= on admin endpoints, binary= channel= "
        "format= on /pub, defer= on /mpub, x_topic= x_channel= x_binary= x_defer=); every publish endpoint under each word as topic and with each word "
        "as extra argument, with TCP twins; /stats /ping /info /config/:opt /debug/* with the words (status); the random generators also draw names "
        "and junk arguments from the words (tags routeword-in-*, routeword=, routeword:<position>:<route>:<status>); (config) GET / PUT /config/:opt with every log level in "
        "every case, refused levels, JSON and non-JSON address lists, empty / max-msg-size / oversize values, unknown and read-only options, "
        "/debug/setblockrate with numeric and non-numeric rates; "
        "(pub) /pub (bodies 0,1,2,17,62..66,100,321 bytes; defer strings at every boundary incl. the F1 witnesses, signs, junk, 1-22 random digits), "
        "text /mpub (arbitrary newline layouts, lines 0..66 bytes, bodies around 320 bytes, >63 tiny lines, only blank lines), binary /mpub "
        "(counts k-1,k,k+1,0,-1,64,2^20,2^31-1,-2^31; sizes 0,-1,n+1,2^31-1; truncated; trailing bytes; padded past the body limit), each "
        "declared and chunked, valid and invalid topic names, on daemon A - and the TCP twin (PUB / DPUB / MPUB with the same name and payload) "
        "on daemon B; what each enqueued is consumed over TCP (SUB/RDY/FIN), deferred messages are read with their delay through the verif hook; "
        "(pint) strconv.ParseInt on the defer strings; (hostile) ~500 malformed byte streams (bad request lines, header floods, negative/huge "
        "Content-Length, CL+TE, bad and truncated chunk framing on every body-reading route, hostile binary batches, argument soup) against a "
        "SUBPROCESS nsqd built from the repository, which must still answer /ping afterwards. Every case is non-trivial except 404 route probes; "
        "distinct = distinct Coq case terms.")
TRUSTED = [
    "modelled, not verified (inputs of the model): net/http request parsing (method, URL path after percent-decoding, Content-Length vs chunked, "
    "the bytes the body yields and whether reading ends in an error), url.ParseQuery (pairs or error), encoding/json acceptance of a PUT /config value",
    "written out in the model and checked differentially on every run: strconv.ParseInt(s,10,64) (PInt cases), httprouter v1.3.0 dispatch as "
    "nsqd configures it - exact match, trailing-slash and cleaned/case-insensitive redirects 301 (GET) / 307, 405 via allowed(), OPTIONS, 404 - for "
    "route tables whose only wildcard is a final :param, ASCII paths (Route cases; non-ASCII paths and CONNECT are monitor-only)",
    "modelled, not verified: go-diskqueue, Topic.messagePump (as: at quiescence an un-paused topic with channels has copied its queue to every "
    "channel), the self-deletion of an ephemeral topic that lost its last channel; V1's json.Marshal of /stats, /info, /config values "
    "(assumed to succeed); a form-encoded body for /debug/setblockrate; strings.ToLower on non-ASCII log levels",
    "hook /repo/nsqd/verif_http.go (build tag verif): reads a channel's deferred messages with their requested delay",
    "TCP twins: PUB/DPUB/MPUB/readMPUB are re-modelled inside model/Http.v (tcp_pub, tcp_dpub, tcp_mpub, read_mpub) from nsqd/protocol_v2.go and "
    "checked against the real TCP listener in every pub case; the command-line splitting of the TCP protocol is C09's",
]
ASSUMPTIONS = [
    "healthy backend (stated in C10_no_500 as healthy_env): /ping's 500 on disk failure, /info's os.Hostname error, 503 EXITING while shutting "
    "down and a failing diskqueue Empty are outside the statement; C10_source_5xx_are_the_exclusions proves these are the only 5xx literals in nsqd/http.go",
    "/debug/pprof/* is handed to net/http/pprof (stdlib passthrough): in the generated table, excluded from C10_no_500, probed for liveness only",
    "net/http's own answers to requests it rejects before routing (400, 431, 501, 505, or a closed connection) are checked only as 'not 500, daemon alive'",
    "max-req-timeout < MaxInt64 ns (292 years) for the defer equivalence; limits below 2^31 for the text/MPUB framing equivalence",
]
LEVEL_TEXT = ("Machine-checked proof (Coq 8.16.1) over an executable model of nsqd/http.go (every handler, getTopicFromQuery / getExistingTopicFromQuery, "
              "the Content-Length + LimitReader size logic, the text and binary /mpub loops), internal/http_api (V1 / PlainText / Err, NewReqParams, "
              "GetTopicChannelArgs), httprouter's dispatch rules, and the TCP twins PUB / DPUB / MPUB / readMPUB: for EVERY request (any method, path, "
              "query, body, framing, even a body ending in a read error) and EVERY daemon state the status is in {200,301,307,400,403,404,405,413}, never 500, "
              "and obeys the documented token table; /pub == PUB, /pub?defer=D == DPUB D for every digit string, binary /mpub == MPUB on any payload "
              "(declared: same size field; chunked: the max-body-size prefix), text /mpub has an exact acceptance rule and == MPUB of its non-empty lines "
              "wherever both framings fit; each admin endpoint's 200 is exactly its effect on exactly the named object, any other answer is no effect, and no "
              "other topic changes; every error token answered is TRUE of the request and the state (INVALID_* => that argument is present and not a "
              "valid name / defer / option / value, MISSING_ARG_* => absent, *_NOT_FOUND => not in the state, INVALID_REQUEST => unparsable query or "
              "unreadable body; closed token set), a well-formed POST to an admin endpoint is 200 EXACTLY when its documented precondition holds, and a "
              "/pub within every limit is accepted - the judge's monitor evaluates the same clauses (token_justified, admin_precondition, "
              "pub_must_accept) on what the real daemon answered, over HTTP and (E_BAD_TOPIC) over TCP. The route table, router settings, every http_api.Err literal, boolParams, the option names and the argument-error tokens "
              "are regenerated from the source on every run and tied to the model by proof obligations; the model is tied to the running code by "
              "differential correspondence including consumption over TCP.")
LEVEL_NOTE = ("Trusted: Coq kernel + vm_compute; gotables; net/http, url.ParseQuery, encoding/json as model inputs; the hand-written router model (validated "
              "per run on ~450 probes); the verif hook. Partial: text /mpub measures ITS OWN body against max-body-size (1 framing byte per line) while MPUB "
              "measures its binary body (4 + 4 per message), so outside the region where both fit the two may accept different batches - proved as "
              "C10_text_gap_count / _blank_lines / _empty_batch (a text body without a non-empty line is 200 with an empty batch, where MPUB count 0 is "
              "E_BAD_BODY); the property's equivalence is about what is enqueued under the same per-message limit, and the difference is only in how the "
              "body limit is measured. A rejected publish may already have created its (empty) topic on both sides - not an enqueue. Sampled: the "
              "correspondence (the theorems are not). Not modelled: HTTP keep-alive/pipelining, TLS listener, concurrency between requests, 503 while exiting.")
TECHNIQUE = "Coq proof over all requests and states + generated route/error tables + differential correspondence (HTTP vs TCP twin daemons, consumption over TCP)"
DESIGN_REF = "DESIGN.md §5 C10, §8a"
SEARCH_SCALE = 4


def drivers():
    def args(tier, seed, scale):
        n = (160 if tier == "quick" else 2500) * scale
        routes = (450 if tier == "quick" else 4000) * scale
        hostile = 4 if tier == "quick" else 12
        return ["-n", str(n), "-routes", str(routes), "-hostile", str(hostile), "-seed", str(seed)]
    return [{"driver": "httpdrive", "args": args, "replay_args": lambda tier: []}]
