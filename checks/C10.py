ID = "C10"
PROPS_FILE = "props/C10.v"
COQ_TARGETS = ["props/C10.vo", "judge/J10.vo", "model/Pack.vo"]
JUDGE = ("judge.J10", "J10.judge")
JUDGE_SCOPE = "N_scope"
JUDGE_IMPORTS = ("From NSQV Require Import model.Http.",)
REPO_BINS = [("nsqd", "apps/nsqd", "")]
RULE = ("placeholder")
TRUSTED = []
ASSUMPTIONS = []
LEVEL_TEXT = "placeholder"
LEVEL_NOTE = "placeholder"
TECHNIQUE = "placeholder"
DESIGN_REF = "DESIGN.md §5 C10, §8a"


def drivers():
    def args(tier, seed, scale):
        n = (220 if tier == "quick" else 2500) * scale
        routes = (650 if tier == "quick" else 4000) * scale
        hostile = 4 if tier == "quick" else 12
        return ["-n", str(n), "-routes", str(routes), "-hostile", str(hostile), "-seed", str(seed)]
    return [{"driver": "httpdrive", "args": args, "replay_args": lambda tier: []}]
