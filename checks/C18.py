ID = "C18"
PROPS_FILE = "props/C18.v"
COQ_TARGETS = ["props/C18.vo", "judge/J18.vo", "model/Pack.vo"]
JUDGE = ("judge.J18", "J18.judge")
JUDGE_IMPORTS = ("From NSQV Require Import model.Cluster model.Quantile.",)
JUDGE_SCOPE = "N_scope"
REPO_BINS = [("nsqadmin", "apps/nsqadmin", "")]
RULE = ("(view) first the F19 witness clusters (null percentile entries for a channel on two nodes, against a quantile-0 entry in both node orders, one node listing the channel twice: 200 and the "
        "aggregate of the non-null entries; the same clusters are in corpus/C18.json), then, on one generated cluster per mode, EVERY subset of the 4 nsqds failing (x no / one / all nsqlookupds failing) for the counter, topic and channel views and every subset of the 3 nsqlookupds failing for the list views; then generated clusters of recording stub upstreams - 1-3 nsqlookupds or 1-4 directly configured nsqds, 4 stub nsqds with 1-3 topics and 0-3 channels "
        "drawn from small pools (so the same topic/channel lives on several nodes), counters from {0, small, 2^31, 2^40, 2^62, int64 max/min, negative}, clients with and "
        "without hostnames, optional fields present/absent/null (e2e aggregate, clients, zone/region/global counters, a claimed memory_depth), JSON null topics / channels / "
        "clients / producers, fewer tombstone flags than topics, producers that point at nothing, every failing-upstream class (refused, 500, not JSON, wrong JSON type, "
        "a number beyond int64, /info or /stats alone failing, stubs that ignore the topic filter) - and for each cluster the real nsqadmin's /api/topics, /api/nodes, "
        "/api/topics/:t, /api/topics/:t/:c, /api/counter, /api/nodes/:n read over a real connection and compared with the model's view of what the stubs served "
        "(the e2e aggregate of the topic, of each of its channels and of the channel view included; a view is 200 unless the stubs' data hold a documented excuse for a 500); "
        "(addfn) the real stringy.Uniq/Union, Producer.UnmarshalJSON, ChannelStats.Add, TopicStats.Add called directly on generated values; the real ChannelStats.Add on e2e blocks "
        "decoded by the real UnmarshalJSON, with a fresh receiver and with the first node's block as the receiver: EVERY zero / non-zero count pattern over 1-3 nodes x 5 ways the nodes' "
        "percentile sets relate (same, subset, disjoint, reordered, empty), 5-10 nodes, null-entry patterns (all-null lists on every node, null against quantile 0, mixed) with both receivers - never a panic - "
        "and again with nil maps put into the receiver by hand (panic iff an element selects one), random blocks with null entries and small negative counts; "
        "(hostile) the real apps/nsqadmin binary as a subprocess (lookupd mode, direct mode, and with an unreachable --notification-http-endpoint) against the recorded "
        "crash witnesses F4/F8/F12/F13 and random subtree mutations (null, [], {}, numbers, strings, [null], 1e40) of valid /stats, /nodes, /lookup, /info, /topics documents: "
        "observed = the process is still there and answers /ping. Every case is non-trivial; distinct = distinct terms.")
TRUSTED = [
    "modelled, not verified: encoding/json (the case states what the decoder yields: absent field = zero value, JSON null in an array = nil pointer, a decoding error = the upstream failed), "
    "net/http transport errors (= the upstream failed), goroutine scheduling of the parallel fetches (the model processes upstreams in list order; order-dependent outputs - which nsqlookupd's "
    "report of a node came first, list orders before sorting - are compared as multisets / membership), sort.Sort (unstable; only the byte-wise order of /api/topics is compared exactly)",
    "hook /repo/verifshim/clusterinfo.go (build tag verif): type aliases of the clusterinfo / quantile types and wrappers of stringy.Add/Union/Uniq",
    "the stub upstreams and response parsers of /verif/harness/cmd/admindrive",
    "float64 arithmetic of the e2e merge: modelled in exact rationals with the division a partial operation (by zero = NaN / infinity = encoding/json refuses the answer = 500); rounding and overflow are "
    "not modelled - the correspondence feeds numbers float64 represents exactly (integers below 2^53, halves; counts whose sums stay below 2^53) and compares averages up to (1 + max value) * 2^-40 "
    "(2^-30 and the sum of |counts| as a factor when a count is negative), counts and maxima exactly",
]
ASSUMPTIONS = [
    "e2e latency aggregates: count, max and average per quantile are modelled and judged (weighted mean for counts >= 0, which is what nsqd reports; with negative counts only finiteness and agreement "
    "with the model); the key \"min\" is not (the code sets it to the max of the node merged last) and the entry order is not (sort.Sort by a key no entry has)",
    "null percentile entries are dropped by the decoder (fix dc56edf, F19): the aggregate is that of the non-null entries, for any blocks; a nil map inside a receiver can only be built by hand "
    "(the direct calls do, to exercise Add's assignment into it: a panic, judged against the model only)",
    "OutOfDate / version comparison of the node list and the client sort order (ClientStatsByNodeTopology) are not modelled",
    "a topic view over nodes of which one reports a JSON null channel, a channel view of a channel no node has, and a node view over a null channel are answered 500 by a recovered handler panic (modelled as such; the process survives)",
    "with no producer at all for a topic the code's len(errs) == len(producers) rule (0 == 0) answers 502; modelled as is",
]
LEVEL_TEXT = ("Machine-checked proof (Coq 8.16.1) over an executable model of stringy.Add/Union/Uniq, TopicStats.Add, ChannelStats.Add (int64 wrap-around explicit), "
              "Producer.UnmarshalJSON's tombstone pairing, GetLookupdTopics / GetNSQDTopics / GetLookupdProducers / GetLookupdTopicProducers / GetNSQDStats with its keyed "
              "channel map, the len(errs) == len(upstreams) rule and the six view handlers: for ANY number of upstreams and ANY contents every aggregated counter (13 per channel, "
              "8 per topic) is the int64 sum over the node entries (exact whenever the sum fits), paused = some node paused, node and client lists are exactly the entries'; "
              "the e2e latency aggregate (E2eProcessingLatencyAggregate.UnmarshalJSON / Add, exact rationals, the division written as a partial operation) of ANY nodes - absent blocks, null entries, "
              "zero counts on some or all nodes, any percentile sets - is computed without a panic (decoded blocks hold no nil map) and without a division by zero, has one entry per quantile some node lists, whose count is the sum "
              "of the counts, whose max is the largest value, and whose average times count is the sum of count x value (the weighted mean; 0 when nothing was counted), independent of the merge order; "
              "topic / node / producer lists are duplicate-free unions of what the answering upstreams list; with any set of failing upstreams the value is the value for the "
              "non-failing ones, a warning iff some fail, 502 iff a stage gets no answer; none of it depends on the order in which the upstreams answer (permutation invariance, "
              "which is what licenses a sequential model of the concurrent fetches); /api/counter's rows are exactly the per-node entries and each key carries their int64 sum; "
              "the shapes the model relies on (fields summed by Add, Paused handling, the len(errs) rule of every Get*, every nil guard, the tombstone pairing expression, every statement of the quantile Add "
              "and of UnmarshalJSON's loop) are regenerated "
              "from internal/clusterinfo and internal/quantile on every run and pinned by obligations; and, with every dereference of upstream-decoded data and the tombstone index written "
              "as an explicit crashing operation, no input makes any view crash the process (only a recovered 500 for a null channel / unknown channel). Tied to the code by "
              "differential correspondence on the real nsqadmin (in-process for the views, subprocess for the hostile stream) and on the real functions through verifshim.")
LEVEL_NOTE = ("Trusted: Coq kernel + vm_compute; the hand-written model; the stubs and parsers of the harness; the correspondence is sampled, the theorems are not. Partial: JSON decoding, "
              "HTTP transport and goroutine interleaving are the Go runtime / standard library (modelled at their interface: decoded values, failed-or-answered, list order); "
              "the e2e merge is modelled in exact rationals (float64 rounding / overflow are not; the key \"min\" of an aggregated entry, which the code sets to the max of the node merged last, is not part of the property as stated and is left unmodelled and uncompared); version/out-of-date flags are not modelled.")
TECHNIQUE = "Coq proofs (induction over upstream lists, keyed-fold invariants, guarded-vs-plain refinement for the no-panic claim) + differential correspondence on the real nsqadmin and the real clusterinfo functions"
DESIGN_REF = "DESIGN.md §5 C18"
SEARCH_SCALE = 4


def drivers():
    def view(tier, seed, scale):
        n = (20 if tier == "quick" else 500) * scale
        return ["-profile", "view", "-n", str(n), "-seed", str(seed)]

    def addfn(tier, seed, scale):
        n = (25 if tier == "quick" else 400) * scale
        return ["-profile", "addfn", "-n", str(n), "-seed", str(seed)]

    def hostile(tier, seed, scale):
        n = (60 if tier == "quick" else 3000) * scale
        return ["-profile", "hostile", "-n", str(n), "-seed", str(seed)]

    return [{"driver": "admindrive", "args": view, "replay_args": lambda tier: ["-profile", "view"]},
            {"driver": "admindrive", "args": addfn, "replay_args": lambda tier: ["-profile", "addfn"]},
            {"driver": "admindrive", "args": hostile, "replay_args": lambda tier: ["-profile", "hostile"]}]
