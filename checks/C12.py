ID = "C12"
PROPS_FILE = "props/C12.v"
COQ_TARGETS = ["props/C12.vo", "judge/J12.vo", "model/Pack.vo"]
JUDGE = ("judge.J12", "J12.judge")
JUDGE_SCOPE = "Z_scope"
REPO_BINS = []
RULE = ("(a) single real guidFactory.NewGUID calls from harness-chosen states (node id, sequence incl. 4094/4095, lastTimestamp before/equal/after the "
        "clock, lastID consistent/zero/just below/at/above the next id/far above/negative) with the clock reading bracketed and the case kept only "
        "when both readings agree; (b) guid.Hex renderings of boundary and random int64 values; (c) real daemons started with boundary node ids; "
        "(d) one real topic's GenerateID hammered by concurrent goroutines (ids per goroutine recorded). Every case is non-trivial; distinct = distinct terms.")
TRUSTED = [
    "modelled, not verified: sync.Mutex mutual exclusion of guidFactory (the model is sequential), time.Now (the clock stream is an arbitrary list of readings), time.Sleep in Topic.GenerateID",
    "hook /repo/nsqd/verif_guid.go (build tag verif): sets a factory's state, calls the real NewGUID, reads the state back",
]
ASSUMPTIONS = ["the factory mutex serialises NewGUID calls (C12 'partial': mutual exclusion assumed)"]
LEVEL_TEXT = ("Machine-checked proof (Coq 8.16.1) over an executable model of guidFactory.NewGUID / Topic.GenerateID / guid.Hex with Go's int64 "
              "wrap-around written out and the shift/mask/epoch constants regenerated from nsqd/guid.go on every run: for every factory state and "
              "every clock stream (not assumed monotone) issued ids strictly increase (hence are unique), an error never moves lastID, the bit "
              "layout is disjoint for node ids in [0,1024), a later millisecond always yields an id, Hex is 16 characters and injective. "
              "Tied to the code by differential correspondence on the real factory (state stepping hook), real topics under concurrent load and real daemon start-up.")
LEVEL_NOTE = ("Trusted: Coq kernel + vm_compute; gotables constants; the verif hook; mutex atomicity assumed (sequential model); "
              "correspondence is sampled. Wall-clock behaviour of the retry sleep is not modelled (the theorem counts clock readings).")
TECHNIQUE = "Coq invariant proof over all clock streams + differential correspondence on the real guidFactory"
DESIGN_REF = "DESIGN.md §5 C12"


def drivers():
    def args(tier, seed, scale):
        n = (400 if tier == "quick" else 5000) * scale
        per = 1200 if tier == "quick" else 5000
        return ["-n", str(n), "-seed", str(seed), "-burst-per", str(per)]
    return [{"driver": "guiddrive", "args": args, "replay_args": lambda tier: []}]
