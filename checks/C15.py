ID = "C15"
PROPS_FILE = "props/C15.v"
COQ_TARGETS = ["props/C15.vo", "judge/J15.vo", "model/Pack.vo"]
JUDGE = ("judge.J15", "J15.judge_i")
JUDGE_IMPORTS = ("From NSQV Require Import model.Names model.Lookupd model.LookupProto judge.J14.",)
JUDGE_SCOPE = "N_scope"
REPO_BINS = [("nsqlookupd", "apps/nsqlookupd", "")]
RULE = "stub"
TRUSTED = []
ASSUMPTIONS = []
LEVEL_TEXT = "stub"
LEVEL_NOTE = "stub"
TECHNIQUE = "stub"
DESIGN_REF = "DESIGN.md §5 C15"


def drivers():
    def args(tier, seed, scale):
        n = (60 if tier == "quick" else 1200) * scale
        return ["-profile", "hostile", "-n", str(n), "-seed", str(seed)]
    return [{"driver": "lookupdrive", "args": args, "replay_args": lambda tier: []}]
