ID = "C15"
PROPS_FILE = "props/C15.v"
COQ_TARGETS = ["props/C15.vo", "judge/J15.vo", "model/Pack.vo"]
JUDGE = ("judge.J15", "J15.judge_i")
JUDGE_IMPORTS = ("From NSQV Require Import model.Names model.Lookupd model.LookupProto model.LookupNames judge.J14.",)
JUDGE_SCOPE = "N_scope"
REPO_BINS = [("nsqlookupd", "apps/nsqlookupd", "")]
RULE = ("sessions against a real nsqlookupd SUBPROCESS (binary built from the repository) with a well-behaved bystander producer that stays connected and, in "
        "~60% of the sessions, a second well-behaved producer (the visitor) that is connected and registered (also on the bystander's topic) while the hostile "
        "streams arrive, re-registers, unregisters, leaves and comes back: "
        "each session = 10-24 actions, ~52% hostile TCP streams (each followed by EOF), ~38% HTTP requests, the rest bystander / visitor commands. "
        "Streams: wrong protocol magic (12 fixed ones - other versions, HTTP / TLS openers, NULs, newlines - and random ones, alone or followed by PING, an HTTP "
        "request, the right magic, a complete IDENTIFY + REGISTER on the bystander's topic, random bytes; all of them also in one fixed session with bystander and "
        "visitor registered) / short magic (0-3 bytes); random bytes; IDENTIFY bodies that are complete but carry a member colliding with the identity the daemon keeps "
        "for a connection (14 keys: remote_address in 5 spellings - encoding/json matches case-insensitively -, id/ID/Id/peer_id, lastUpdate in 3 spellings, "
        "hostname, topology_zone; placed first, last or twice) whose value is the LIVE registry id (socket address, substituted at run time) of the bystander, "
        "of the visitor, of the sending connection itself, of a connection already closed, empty, or a foreign string, optionally with the bystander's node "
        "string, followed by UNREGISTER / REGISTER of the victims' topics and channels, PING, an unknown command, or nothing, then EOF (plus the full "
        "key x {bystander, visitor} matrix in two fixed sessions and the visitor's own IDENTIFY carrying such members); a mostly-valid prefix (IDENTIFY, REGISTER/UNREGISTER also on the bystander's topic, PING with "
        "ASCII and Unicode white space) followed by one malformed command labelled with the answer it must provoke: unknown commands, REGISTER/UNREGISTER "
        "without parameters / before IDENTIFY / with invalid topic or channel names (bad characters, 65 bytes, bare '#ephemeral', NUL, non-breaking space, "
        "empty, and in 40% the boundary names: 65/66/74/75/128/200 plain bytes, 65/66/70/73/74/75/76/138 bytes ending in '#ephemeral' - the suffix counts towards the "
        "64 -, the suffix twice / in capitals / cut / followed by a byte, '#' first or last), valid prefixes that use the longest valid names (63/64 plain, 63/64 with suffix), repeated IDENTIFY, IDENTIFY with size 0, negative sizes (0xFFFFFFFF, 0x80000000, ...), 1 MiB announced and a truncated body, body one to five "
        "bytes short, size shorter than the JSON, missing size bytes, 12 kinds of malformed JSON, 8 kinds of missing fields; optionally followed by further "
        "commands that must be ignored and by a last line without newline. HTTP: 27 paths (all routes but the 30 s CPU profile, unknown paths, trailing-slash "
        "and case variants) x 7 methods x topic in {absent, empty, bystander's, new, invalid, wildcard, 65 bytes, ephemeral} x channel (7 values) x node (4 values), "
        "unparsable queries (quick: sampled, biased to POST on the admin routes and, in 45% of those, to topics / channels / nodes that ARE registered at that "
        "point by the bystander, the visitor or a hostile connection; thorough: the systematic matrix of 1700 requests), plus three fixed sessions with the matrix "
        "(five admin requests) x (topic registered by both connections / by the visitor / key created over HTTP without producers / absent) x (channel registered / "
        "shared #ephemeral / key without producers / absent) x (node of the bystander / of the visitor / foreign / empty / wrong port / wrong case), the connections "
        "registering again after every deletion; four fixed sessions with the matrix (30 boundary names: 1/2/63/64/65/66/74/75/128/200 plain bytes, "
        "11/12/63/64/65/66/70/73/74/75/76/138 bytes with the suffix, 8 misplaced-suffix forms) x (as topic / as channel) x (REGISTER / UNREGISTER on a fresh identified "
        "connection, POST on each admin route that takes the name), labelled OK / E_BAD_TOPIC / E_BAD_CHANNEL / 200 / 400 by an independent statement of the name rule, "
        "the well-behaved connections then registering the longest valid names themselves. After EVERY action: /ping + process state before and after the views are taken "
        "(a daemon that dies or stops answering at ANY point - also between two views - makes the action 'not alive', with the exit status and the panic message "
        "in the case's observation; never a harness error), the raw frames / status code, /lookup of the bystander's topic, /topics, /channels?topic=*, /debug with the "
        "broadcast_address:http_port of every entry (the views after a "
        "visitor command are taken while that connection is still open). Monitor: the daemon is alive after every action; every name the views list (/topics, /channels, channels of /lookup, keys of /debug) passes the name rule as "
        "the judge computes it (Names.is_valid_name), and an admin request answered 200 named a valid topic (and channel); a hostile connection that has come and gone leaves EVERY producer entry of "
        "/debug and the /lookup producers exactly as they were; a well-behaved command changes nothing that is not its own connection's; an HTTP request that is "
        "not answered 200 or is not a POST on one of the five admin routes changes no view at all; create (whatever it names) leaves every producer entry, "
        "tombstone flag, node and /lookup producer as it was and adds at most the named keys; delete removes entries of the named topic / channel key only and "
        "adds or alters nothing; tombstone removes nothing and turns flags on only for the named topic and only for connections whose node string is the named one. "
        "Every case is non-trivial; distinct = distinct terms.")
TRUSTED = [
    "modelled, not verified: bufio.Reader.ReadString / io.ReadFull / binary.Read (as: a line up to '\\n' or EOF; exactly n bytes or an error), "
    "strings.TrimSpace (modelled byte-exactly incl. the UTF-8 encodings of the Unicode white-space code points) and strings.Split, "
    "encoding/json.Unmarshal (an arbitrary function in the theorems; in the correspondence the driver decodes the announced body with the real library into the "
    "real nsqlookupd.PeerInfo type and hands the result to the model), net/http + httprouter v1.3.0 (exact match -> handler; known path + other method -> 405, "
    "OPTIONS -> 200; anything else is the router's own 404/301/307/308), the Go runtime's 'panic in a goroutine without recover kills the process'",
    "a huge POSITIVE IDENTIFY size (up to 2 GiB) makes the daemon allocate that much: resource behaviour, not driven (largest announced size: 1 MiB) and not modelled",
]
ASSUMPTIONS = [
    "C15 'partial': memory exhaustion by a huge positive body size is outside the model; the daemon's behaviour when the client stops reading (send errors) is not modelled (the driver always reads)",
    "hostile connections are sequential (one stream at a time next to the bystander and the visitor); concurrent hostile connections are covered by the isolation theorem, not by the driver",
    "the model identifies a producer entry with the connection it arrived on; that the source does so (id written once from client.RemoteAddr() before json.Unmarshal, every registry call keyed by client.peerInfo) is tied by the generated tables lookupd_IDENTIFY_peerinfo_writes / lookupd_identity_uses and exercised by the identity-member streams",
]
LEVEL_TEXT = ("Machine-checked proof (Coq 8.16.1) over a byte-level executable model of tcp.go Handle + LookupProtocolV1.IOLoop/Exec/IDENTIFY/REGISTER/UNREGISTER/PING "
              "(protocol magic, line read, TrimSpace, Split, dispatch, the int32 body size with the `bodyLen <= 0` refusal, make with an explicit Panic outcome, ReadFull, "
              "JSON field check, fatal errors -> IOLoop exit path) and of the HTTP router + handlers: for EVERY byte sequence and every JSON decoder the connection "
              "never panics (and the same model without the size refusal does, on the 13-byte witness); every malformed command is answered E_INVALID / E_BAD_TOPIC / "
              "E_BAD_CHANNEL / E_BAD_BODY as specified and refused (nothing registered, connection closed, the error is the last frame); whatever arrives on connection p "
              "is a sequence of p's own operations, so every other connection's registrations, tombstone marks, last_update and /lookup listing are unchanged; an HTTP "
              "request not answered 200 changes nothing and only POST on the five admin routes can change the registry; a create request leaves /debug, every node, "
              "registration, tombstone mark and /lookup listing as it was and removes no key (also when the named key exists and has producers), a delete request adds "
              "and alters nothing and touches only keys of the named topic / the named channel key, a tombstone request keeps every key and entry and marks only "
              "producers of the named topic whose broadcast_address:http_port is the named node; the registry never holds an invalid name (invariant kept by every command, "
              "byte stream and request; the views of such a state list valid names only; 400 for an invalid topic / channel on every admin route). The shape of tcp.go Handle "
              "(short read and the clause for any other magic END the function before the nil prot is used), the dispatch table, route table, handler "
              "guard/call summaries (incl. the position of the size refusal before make), the writes of peerInfo in IDENTIFY (the id comes from the socket, before json.Unmarshal, "
              "and is never written again) and the identity argument of every registry call of the handlers are regenerated from the source on every run and proved equal to the model's. "
              "Tied to the code by differential correspondence on a real nsqlookupd subprocess with a bystander producer.")
LEVEL_NOTE = ("Trusted: Coq kernel + vm_compute; gotables; stdlib/httprouter/runtime modelled as stated. Correspondence is sampled; the theorems are not. "
              "Huge positive allocations and send-side failures are partial.")
TECHNIQUE = "Coq proof over all byte sequences (no-panic, codes, isolation via refinement) + generated tables + differential correspondence on the real binary"
DESIGN_REF = "DESIGN.md §5 C15"


def drivers():
    def hostile(tier, seed, scale):
        n = (70 if tier == "quick" else 900) * scale
        return ["-profile", "hostile", "-n", str(n), "-seed", str(seed)]

    def matrix(tier, seed, scale):
        if tier == "quick":
            return ["-profile", "none"]
        return ["-profile", "httpmatrix"]

    return [{"driver": "lookupdrive", "args": hostile, "replay_args": lambda tier: []},
            {"driver": "lookupdrive", "args": matrix, "replay_args": lambda tier: []}]
