ID = "C08"

PROPS_FILE = "props/C08.v"
COQ_TARGETS = ["props/C08.vo", "judge/J08.vo", "model/Pack.vo"]
JUDGE = ("judge.J08 judge.CoreJudge model.Core", "J08.judge")
REPO_BINS = []
RULE = ("seeded random operation sequences (profile c08: ~35 external operations per case plus the deliveries they cause and a final drain) "
        "against a real in-process nsqd (mem-queue-size 0/1/3/50, max-bytes-per-file 4096 so disk queues roll): TCP PUB/MPUB/DPUB and HTTP /pub /mpub, "
        "raw-TCP consumers (IDENTIFY msg_timeout 5 s / 60 s, unbuffered or 25 ms output buffer) doing SUB/RDY/FIN/REQ(0 or 30 s)/TOUCH/CLS/disconnect, "
        "wrong-connection and stale FIN/REQ/TOUCH, wrong-state commands, HTTP create/pause/unpause/empty/delete of topics and channels, ephemeral channels, "
        "timeout scans driven through the verif hook with clock readings now / +20 s / +2 h, graceful restarts on the same data path; after every operation "
        "the harness waits for exact quiescence (stats stable, every frame the server counts has been read, nobody ready behind a non-empty queue) and records "
        "answers, frames, scan results and /stats. A case is non-trivial when it contains a redelivery, a refused answer, a scan that re-queued something, "
        "an empty/delete or a restart; distinct = distinct traces.")
TRUSTED = [
    "modelled, not verified: go-diskqueue (a channel's queue is the multiset of messages waiting on it: placement and order are abstracted; only ephemeral queues are bounded), Go channels/select/mutexes (each operation is atomic at quiescence), time (every operation carries the harness's clock reading; timeouts are driven by VerifScan with margins of seconds)",
    "hooks /repo/nsqd/verif_core.go (VerifHeld, VerifScan: build tag verif); /stats over HTTP is the observation",
    "the coarse model is quiescent-to-quiescent: interleavings inside one operation (the windows K3-K5 of DESIGN.md section 6; K1 and K2 were repaired: F23, F24 of section 10.3) are below its grain; the schedule-level models of DESIGN 10.8 / 10.9 cover the lock protocol and the TOUCH / scan race",
    "schedule-level hand-off model (model/Handoff.v, DESIGN 10.8): the RWMutex (RLock enabled when the closer does not hold the write lock, Lock when nobody holds it; no writer preference: a superset of Go's behaviours), the atomic exit flag (sequentially consistent steps) and Go's defer (the unlock runs on every way out) are modelled, not verified; that the functions listed in gen/CoreShape.v core_touches are the only ones that move a message between a channel's sets or into a topic's queue rests on the translator (tools/gotables/coreshape.go); locks outside the model (Channel.Lock, inFlightMutex, NSQD.Lock) are not part of the no-deadlock statement",
]
ASSUMPTIONS = ["published message ids are fresh (C12)", "disk write errors do not occur"]
TECHNIQUE = "Coq invariant proofs over all operation histories of the core state machine + trace validation of real nsqd runs (model replay and property monitor evaluated by vm_compute)"
JUDGE_SCOPE = "N_scope"
SEARCH_SCALE = 6


def drivers():
    def args(tier, seed, scale):
        n = (40 if tier == "quick" else 600) * scale
        return ["-profile", "c08", "-n", str(n), "-ops", "35", "-seed", str(seed)]
    return [{"driver": "coredrive", "args": args, "replay_args": lambda tier: [], "timeout": 1500}]
LEVEL_TEXT = "Machine-checked proof (Coq) over the core model: emptying a channel leaves nothing queued/in flight/deferred, records everything as discarded, keeps subscriptions/paused flag/received count and zeroes exactly the subscribers' in-flight counters; deleting removes the object and a re-creation is empty with zero counters; ephemeral topics/channels are never among what a restart reloads; the conservation law of C13 is preserved by every step, empty and delete included. Trace validation on real nsqd with empty/delete/ephemeral operations on live traffic: the monitor checks that nothing discarded is delivered afterwards, deleted objects are gone and their consumers closed, ephemeral channels disappear with their last consumer and never reach nsqd.dat, counters stay right."
LEVEL_TEXT = LEVEL_TEXT + " Schedules (model/Handoff.v): Channel.Empty, channel deletion and topic deletion never discard while a message is in somebody's hand, under ANY interleaving with ANY number of requeues / scans / puts in progress (C08_discards_vs_moves_every_schedule; the unlocked Empty of the source before 00776ee is refuted); a SUB in progress is either refused or closed with the channel's other consumers (C08_subscriber_closed_or_refused_every_schedule)."
LEVEL_NOTE = "Concurrency INSIDE one operation (empty/delete racing FIN/REQ/TOUCH/deliver/scans between two critical sections) is below the coarse model's grain: it is covered by the schedule-level hand-off model (DESIGN 10.8) for the lock protocol and by forced interleavings on the real daemon (F7, F17, F18, F21, F23, F24 were found and repaired that way); Go-runtime deadlock freedom beyond the modelled locks is not expressible."
DESIGN_REF = "DESIGN.md section 5.0 and C08"
