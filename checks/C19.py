ID = "C19"
PROPS_FILE = "props/C19.v"
COQ_TARGETS = ["props/C19.vo", "judge/J19.vo", "model/Pack.vo"]
JUDGE = ("judge.J19", "J19.judge")
JUDGE_IMPORTS = ["From NSQV Require Import model.FileOS model.FileLogger."]
REPO_BINS = [("nsq_to_file_verif", "apps/nsq_to_file", "verif"), ("nsq_to_file", "apps/nsq_to_file", "")]
RULE = ("(a) scripted in-process runs of the real FileLogger.router() (verif init-driver binary, under strace): generated configurations "
        "(gzip on/off, work-dir on/off, rotate-size 0/tiny, rotate-interval 0/1ns/400ms/1h, skip-empty-files, max-in-flight 0/1/2/3/5/200, "
        "7 file name formats incl. none/two <REV> and <PID>, 5 datetime formats incl. seconds granularity, sync ticker on in some runs), "
        "0-6 pre-existing files with colliding names in the output and work directories (some larger than rotate-size), 2-13 events "
        "(messages with empty/binary/multi-line/3-6 KB/duplicate bodies, HUP, sleeps across the interval or second boundary, TERM); "
        "failing system calls: strace makes the n-th write / fsync / close / linkat / unlinkat / openat issued by the router thread fail "
        "(ENOSPC, EIO, EDQUOT, EFBIG, EMLINK, EPERM, EXDEV, EACCES, EBUSY, EROFS, EMFILE, ENFILE) -- a fixed script (first open, a message pending across a "
        "rotation by size, an empty body, HUP, reopen, TERM) is run with a failure at EVERY position of its write path (each write(2) incl. gzip header / "
        "compressed data / trailer, body and newline; each fsync of Sync and of Close; each close, link, unlink, open) in plain and gzip mode, with and "
        "without work dir (~190 runs), and 35% of the generated runs carry a random one; the observed "
        "syscall-ordered trace of creates/writes/completed gzip members/fsyncs/failed calls/links/unlinks and FINs is compared with the model's trace "
        "(which must exit fatally at the failing call) and judged by the property monitor (a FIN whose line is not in fsynced, for gzip completed-member, "
        "content is a violation -- e.g. a FIN after a failed fsync); every run also yields a computeFilenameFormat case; a run is non-trivial when at least one message was "
        "delivered; runs whose clock readings around an event straddle a rotation threshold, or whose injected failure hit something else than a file operation of the router, are dropped (counted). "
        "(c) 40 evaluations of the real strftime() (UTC; generated formats over all 16 conversions, punctuation, lone/unknown %, a few alphanumeric literals = outside the modelled class; "
        "times 1970-2100 and boundary instants) against coq/model/Strftime.v. "
        "(b) black-box: real nsqd + real nsq_to_file binary, 60-300 messages, SIGTERM / SIGHUP+SIGTERM / SIGKILL at a generated instant, "
        "then messages the channel no longer owes (published minus a drain) must be lines of decompressible file contents and pre-existing files keep their bytes.")
TRUSTED = [
    "modelled, not verified: the OS file model of coq/model/FileOS.v (write = volatile, fsync = durable incl. the name, a crash keeps durable + a prefix of volatile, O_EXCL and link(2) exclusive, directory operations atomic and ordered; a failed system call has no effect, a failed fsync makes nothing durable -- that a LATER successful fsync does not save the pages of a failed one (Linux) is not modelled); compress/gzip (a member is decompressible exactly when complete); go-nsq (delivery of FIN, IsStarved, Stop -> StopChan); Go select/ticker",
    "hook /repo/apps/nsq_to_file/verif_driver.go (build tag verif): init() driver that injects scripted events into a real FileLogger's router() and records FIN/REQ through a recording MessageDelegate; the router goroutine is locked to its own OS thread and burns a fixed number of dummy calls first, so that strace's per-thread 'inject=SYSCALL:error=E:when=N' fails exactly the n-th such call of the router and nothing else",
    "strace (syscall order and arguments, fault injection) and the projection harness/cmd/filedrive/strace.go (fd tracking, gzip member boundaries via compress/gzip; an injected failure is put in the model's terms: n-th fsync/close/link/unlink/open = the strace ordinal, a failed plain write = the current message with the bytes already written, a failed gzip-stream write = the current message's Write or the next gzipWriter.Close -- the judge accepts either explanation)",
    "coq/model/Strftime.v covers formats whose literal characters are not alphanumeric (time.Format would interpret letters/digits of the user's format as layout tokens); the run cases use the observed rendering, so the theorems hold for any rendering function",
    "model simplifications: body and newline are one write (a failure between them is a partial write of the line); mkdir/stat errors are not modelled; injected failures are single (one failing call per run) although the theorems cover every fault schedule; <REV> assumed in the base name; one clock reading per event",
]
ASSUMPTIONS = [
    "fsync(2) makes the file's data and its directory entry durable; link(2)/open(O_EXCL) are exclusive (C19 'partial': OS behaviour assumed)",
    "go-nsq sends FIN to nsqd exactly when Message.Finish() is called and never auto-responds after DisableAutoResponse (C19 'partial')",
]
LEVEL_TEXT = ("Machine-checked proof (Coq 8.16.1) over an executable model of apps/nsq_to_file/file_logger.go (router loop, needsRotation, updateFile with "
              "exclusive-create/append and rev bumps, Sync, Close with the link-based exclusive rename, Write, file name computation) composed with a "
              "volatile/durable file-system model, in which every file operation and every FIN is emitted in program order and any write, gzip-close write, "
              "fsync, close, link, unlink or open may fail (the fault schedule is part of the configuration): for every configuration, "
              "every set of pre-existing files, every event history and every instant (prefix of the emitted trace), after a crash that loses unsynced "
              "data every finished message's body+newline is inside the durable (gzip: completed-member) content of a file; and between any two instants "
              "no file shrinks or is replaced (a work-dir name may only give way to an output-dir name holding its content), so pre-existing colliding "
              "names survive; after a failed system call of the write path nothing is finished any more and the logger is not running (C19_no_fin_after_failed_call). Tied to the code by differential correspondence on the real router(): strace-ordered file operations and FINs of scripted "
              "runs vs the model's trace, the property monitor evaluated on the observed trace, and black-box SIGTERM/SIGHUP/SIGKILL runs against a real nsqd.")
LEVEL_NOTE = ("Trusted: Coq kernel + vm_compute; the hand-written model; the OS model (fsync durability, link/O_EXCL exclusivity are assumptions about the kernel, "
              "'partial'); go-nsq's FIN delivery ('partial'); strace and the trace projection; correspondence is sampled. 'Exactly one file' is proved at event "
              "boundaries (C19_exactly_one_file; distinct message ids and file names assumed, and no failing unlink(2) in the hand-off: otherwise the logger exits with the file under both names, C19_ex_two_names_after_failed_unlink) and as 'some file' at every instant (during the link/unlink "
              "hand-off two names hold the content). A second observation: updateFile leaks the descriptor of an existing file it skips as oversized. Observation reported, "
              "not a violation: after a successful work-dir move Close leaves f.out set; the next write exits fatally, the message stays owed (modelled, Example C19_ex_stale_handle, and seen in runs).")
TECHNIQUE = "Coq invariant proof over all event histories and all crash instants + syscall-level differential correspondence (strace) + black-box kill runs"
DESIGN_REF = "DESIGN.md §5 C19"


def drivers():
    def args(tier, seed, scale):
        if tier == "quick":
            return ["-n", str(70 * scale), "-black", str(4 if scale == 1 else 12), "-seed", str(seed)]
        return ["-n", str(700 * scale), "-black", str(60), "-seed", str(seed)]
    return [{"driver": "filedrive", "args": args, "replay_args": lambda tier: [], "timeout": 1500}]
