ID = "C14"
PROPS_FILE = "props/C14.v"
COQ_TARGETS = ["props/C14.vo", "judge/J14.vo", "model/Pack.vo"]
JUDGE = ("judge.J14", "J14.judge_i")
JUDGE_IMPORTS = ("From NSQV Require Import model.Names model.Lookupd model.LookupSpec.",)
JUDGE_SCOPE = "N_scope"
REPO_BINS = []
RULE = ("(a) seeded histories (8-32 operations, 1-4 producer connections that are re-dialled after a disconnect or a refused command, durable and "
        "#ephemeral topics/channels, ~4% invalid names, IDENTIFY with missing fields, repeated IDENTIFY, commands before IDENTIFY, unregistering "
        "things never registered, admin create/delete topic/channel incl. missing/invalid arguments and the wildcard topic, tombstones by node "
        "(two connections may share broadcast_address:http_port), time steps that cross the tombstone lifetime and the inactivity timeout under "
        "six (timeout, lifetime) configurations) plus 6 fixed scenarios, driven against a real in-process nsqlookupd over TCP/HTTP; after EVERY "
        "operation /topics, /lookup and /channels for 5 topics (incl. an unknown one and the wildcard), /nodes and /debug are fetched and compared "
        "as multisets with the model; a history is cut into cases of 3 consecutive observed steps (the earlier operations are replayed by the judge); "
        "(b) breadth-first enumeration of every history over {2 producers, 2 topics (one ephemeral), 2 channels (one ephemeral), all admin calls, "
        "tombstones of both nodes, two time steps} = 48 operations, extending one representative of every distinct registry state (quick: length <= 2, "
        "thorough: length <= 5), views compared after the last step; (c) 4 producers registering/unregistering concurrently with a reader hammering "
        "/lookup and /nodes, final views compared with the sequential model. A case is non-trivial when at least one REGISTER succeeded; distinct = distinct terms.")
TRUSTED = [
    "modelled, not verified: Go map semantics (association lists; iteration order treated as arbitrary: every list-valued answer is compared as a multiset), "
    "sync.RWMutex of RegistrationDB (the model is sequential; profile (c) checks that concurrent registrations are not lost), net/http + httprouter, "
    "encoding/json (the IDENTIFY body is decoded by the real library; the model receives the decoded fields), bufio/net",
    "time: the model has explicit time; the driver makes time pass with the verif hook NSQLookupd.VerifShiftClock (moves every lastUpdate/tombstonedAt "
    "into the past by exactly d) and keeps the real duration of a history below 2 s while every threshold is >= 2 s away from any reachable age "
    "(ages are multiples of a unit u with threshold mod u >= 2 s); histories that take longer are dropped and counted",
    "hook /repo/nsqlookupd/verif_hooks.go (build tag verif): VerifShiftClock, VerifRegistrationCount",
]
ASSUMPTIONS = [
    "C14 'partial': registration-map locking and data races below operation granularity are not modelled (sequential model; the concurrent profile only checks final states of commuting operations). "
    "Known instance (go test -race, scratch worktree): Producer.Tombstone() writes tombstoned/tombstonedAt without a lock while /lookup and /nodes read them in IsTombstoned(). "
    "By reading: any torn or stale read of ONE producer's mark (flag before time; wall/ext halves of time.Time mixed between the zero/previous and the new value) yields the answer of either the state before or the state after the tombstone, "
    "so no single-producer /lookup answer can be shown wrong; when two connections share broadcast_address:http_port a concurrent /lookup may list one and hide the other (a transient answer equal to no sequential state) - "
    "the window is a few instructions inside one handler loop and cannot be scheduled without a yield hook in http.go, so it is recorded here, not driven",
    "the behaviour exactly AT a threshold (age == timeout to the nanosecond) is proved on the model (<= / <) but cannot be driven on the real clock",
    "/lookup with the wildcard '*' as topic merges all topics and its producer list depends on Go map iteration order when a node is tombstoned for only some of its topics: checked against lower/upper bounds (the admin handlers refuse the wildcard since the fix of F14)",
]
LEVEL_TEXT = ("Machine-checked proof (Coq 8.16.1) that nsqlookupd's RegistrationDB and its TCP/HTTP handlers, transcribed as an executable Gallina model "
              "(association-list DB with AddProducer/RemoveProducer/FindRegistrations/FindProducers/FilterByActive/IsTombstoned as in registration_db.go; "
              "IDENTIFY/REGISTER/UNREGISTER/PING/IOLoop-exit; the five admin handlers; explicit time), refine a plain registry specification "
              "(connected nodes, key sets, (key,producer) relation, tombstone marks with times): abs(step s op) == g_step(abs s) op for every state "
              "satisfying the invariant and EVERY operation (no exclusion: since the repair of F14 the admin handlers refuse the wildcard topic), hence for every history; the answers of /topics, /channels, /lookup (found / channels / "
              "producers) and /nodes (nodes, their topics, tombstone flags) are exactly the specification's sets, without duplicates; corollaries in the "
              "property's words: producers = connected & last_update within the inactivity timeout & registered & not (tombstoned & age < lifetime); "
              "Disconnect removes a node from every list at once and touches nobody else; a tombstone changes only the named (producer, topic), lapses at "
              "the lifetime, is cleared by that producer's UNREGISTER of the topic and not by REGISTER; an ephemeral topic key leaves with its last UNREGISTER "
              "(not on disconnect; the 'obvious' listing rule and 'ephemeral keys are removed when empty' are refuted by three 3-step histories, kept as theorems and replayed on the daemon). Tied to the source by generated route/dispatch/handler-summary tables and by differential correspondence on a real in-process nsqlookupd.")
LEVEL_NOTE = ("Trusted: Coq kernel + vm_compute; gotables; the verif clock hook; Go maps/mutex/json/http modelled. Correspondence is sampled "
              "(random + exhaustive small scope); the theorems are not. Concurrency and exact-threshold instants are partial (see assumptions).")
TECHNIQUE = "Coq refinement proof (data structure -> abstract registry, invariant, all histories) + differential correspondence on the real daemon"
DESIGN_REF = "DESIGN.md §5 C14"


def drivers():
    def registry(tier, seed, scale):
        n = (90 if tier == "quick" else 1200) * scale
        return ["-profile", "registry", "-n", str(n), "-seed", str(seed)]

    def exhaustive(tier, seed, scale):
        if tier == "quick":
            return ["-profile", "exhaustive", "-depth", "2", "-max-cases", str(600 * scale)]
        return ["-profile", "exhaustive", "-depth", "5", "-max-cases", "50000", "-workers", "8"]

    def concurrent(tier, seed, scale):
        n = (2 if tier == "quick" else 40) * scale
        return ["-profile", "concurrent", "-n", str(n), "-seed", str(seed)]

    return [{"driver": "lookupdrive", "args": registry, "replay_args": lambda tier: []},
            {"driver": "lookupdrive", "args": exhaustive, "replay_args": lambda tier: []},
            {"driver": "lookupdrive", "args": concurrent, "replay_args": lambda tier: []}]
