ID = "C14"
PROPS_FILE = "props/C14.v"
COQ_TARGETS = ["props/C14.vo", "judge/J14.vo", "model/Pack.vo"]
JUDGE = ("judge.J14", "J14.judge_i")
JUDGE_IMPORTS = ("From NSQV Require Import model.Names model.Lookupd model.LookupSpec.",)
JUDGE_SCOPE = "N_scope"
REPO_BINS = []
RULE = "stub"
TRUSTED = []
ASSUMPTIONS = []
LEVEL_TEXT = "stub"
LEVEL_NOTE = "stub"
TECHNIQUE = "stub"
DESIGN_REF = "DESIGN.md §5 C14"


def drivers():
    def args(tier, seed, scale):
        n = (90 if tier == "quick" else 1500) * scale
        return ["-profile", "registry", "-n", str(n), "-seed", str(seed)]
    return [{"driver": "lookupdrive", "args": args, "replay_args": lambda tier: []}]
