ID = "C03"

PROPS_FILE = "props/C03.v"
COQ_TARGETS = ["props/C03.vo", "judge/J03.vo", "model/Pack.vo"]
JUDGE = ("judge.J03 judge.CoreJudge model.Core", "J03.judge")
REPO_BINS = []
RULE = ("seeded random operation sequences (profile c03: ~35 external operations per case plus the deliveries they cause and a final drain) "
        "against a real in-process nsqd (mem-queue-size 0/1/3/50, max-bytes-per-file 4096 so disk queues roll): TCP PUB/MPUB/DPUB and HTTP /pub /mpub, "
        "raw-TCP consumers (IDENTIFY msg_timeout 5 s / 60 s, unbuffered or 25 ms output buffer) doing SUB/RDY/FIN/REQ(0 or 30 s)/TOUCH/CLS/disconnect, "
        "wrong-connection and stale FIN/REQ/TOUCH, wrong-state commands, HTTP create/pause/unpause/empty/delete of topics and channels, ephemeral channels, "
        "timeout scans driven through the verif hook with clock readings now / +20 s / +2 h, graceful restarts on the same data path; after every operation "
        "the harness waits for exact quiescence (stats stable, every frame the server counts has been read, nobody ready behind a non-empty queue) and records "
        "answers, frames, scan results and /stats. A case is non-trivial when it contains a redelivery, a refused answer, a scan that re-queued something, "
        "an empty/delete or a restart; distinct = distinct traces.")
TRUSTED = [
    "modelled, not verified: go-diskqueue (a channel's queue is the multiset of messages waiting on it: placement and order are abstracted; only ephemeral queues are bounded), Go channels/select/mutexes (each operation is atomic at quiescence), time (every operation carries the harness's clock reading; timeouts are driven by VerifScan with margins of seconds)",
    "hooks /repo/nsqd/verif_core.go (VerifHeld, VerifScan: build tag verif); /stats over HTTP is the observation",
    "the coarse model is quiescent-to-quiescent: interleavings inside one operation (the windows K3-K5 of DESIGN.md section 6; K1 and K2 were repaired: F23, F24 of section 10.3) are below its grain; the schedule-level models of DESIGN 10.8 / 10.9 cover the lock protocol and the TOUCH / scan race",
    "sub-operation model model/Counter.v (DESIGN 10.10): one consumer; the in-flight set's critical sections and the atomic count are single steps; tied to the code by the facts proofs/CounterSrc.v reads off the regenerated skeletons",
]
ASSUMPTIONS = ["published message ids are fresh (C12)", "disk write errors do not occur"]
TECHNIQUE = "Coq invariant proofs over all operation histories of the core state machine + trace validation of real nsqd runs (model replay and property monitor evaluated by vm_compute)"
JUDGE_SCOPE = "N_scope"
SEARCH_SCALE = 6


def drivers():
    def args(tier, seed, scale):
        n = (40 if tier == "quick" else 600) * scale
        return ["-profile", "c03", "-n", str(n), "-ops", "35", "-seed", str(seed)]
    return [{"driver": "coredrive", "args": args, "replay_args": lambda tier: [], "timeout": 1500}]
LEVEL_TEXT = 'Machine-checked proof (Coq) over the core model: every delivery in every history happens to a connected, subscribed consumer of an un-paused channel whose unanswered-unexpired count is strictly below a positive RDY; RDY 0 / no RDY / full window / CLS / paused channel make nothing deliverable; CLS zeroes RDY and later RDY is ignored; a paused topic hands nothing to its channels; delivery is enabled again as soon as the guard holds; RDY values outside [0,max] are refused for every spelling of the number. Trace validation of real nsqd runs with RDY up/down/0, CLS, pause/unpause at arbitrary points: the monitor checks the RDY window on every recorded delivery and that nobody ready is left waiting behind a non-empty queue.'
LEVEL_TEXT = LEVEL_TEXT + " Sub-operation model of the consumer's count against the in-flight set (model/Counter.v): C03_count_exact_every_schedule, C03_count_rule_in_the_source, the zeroing Empty refuted (former known findings K1, K2)."
LEVEL_NOTE = "Output buffering ('only messages already written may still arrive') is modelled as: a frame is sent at delivery; arrival lag is below the harness's settle logic, not proved. The exactness of the server's in-flight counter w.r.t. the entries the consumer owns is proved over all histories of the coarse model (C03_counter_exact, C03_true_window; proofs/CoreCountInv.v) and validated on every snapshot by the monitor; below operation granularity the real counter is updated outside the channel's critical sections; the two races with Channel.Empty that this allowed (formerly known findings K1, K2) were repaired (F23) and are replayed by the forced interleavings fin-vs-empty and deliver-vs-empty."
DESIGN_REF = "DESIGN.md section 5.0 and C03"
