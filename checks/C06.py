ID = "C06"
PROPS_FILE = "props/C06.v"
COQ_TARGETS = ["props/C06.vo", "judge/J06.vo", "model/Pack.vo"]
JUDGE = ("judge.J06", "J06.judge")
JUDGE_IMPORTS = ("From NSQV Require Import model.Meta.",)
JUDGE_SCOPE = "N_scope"
REPO_BINS = [("nsqd", "apps/nsqd", "verif")]
RULE = ("the REAL apps/nsqd binary (built -tags verif from the repository under test) as a subprocess on a scratch data path. "
        "(a) churn scenarios: 1-3 start/kill cycles plus an observation cycle; per cycle 0-9 requests from ONE sequential HTTP client "
        "(generator keeps its own idea of what exists so ~85% of the requests hit existing objects: topic/channel create 40%, pause/unpause 30%, "
        "delete 18%, exact-idle points 6%, malformed stream 6% = empty / spaced / '#'-containing / 65-byte / doubly-suffixed / non-ASCII names on "
        "every request kind; names include ephemeral topics and channels); after every answered request GET /stats is recorded; the daemon is "
        "SIGKILLed 45% at the k-th hit of a named point (persist:after-tmp-write / after-fsync / after-rename, delete-topic|channel:before|after-remove, "
        "notify:spawn / notify:done; k aimed at the estimated hit count, boot persist included), 17% at a random wall-clock instant during the requests, "
        "20% immediately after the last answer, 18% after exact idleness (status socket: notify:spawn == notify:done, no request in flight); "
        "plus the K8 schedule (two concurrent deleters, persist parked inside GetMetadata, NSQ_VERIF_WAIT) replayed on every run; "
        "35% of the cycles hold deleters at before-remove until pending Notify goroutines are done (the F6 schedule); a concurrent reader samples "
        "nsqd.dat every ~150 us; 15% of the scenarios run under strace -f (openat/write/fsync/close/rename*/unlink*/truncate* projected on nsqd.dat*); "
        "after each kill nsqd.dat is read and the daemon restarted. (b) crafted nsqd.dat files fed to start-up: invalid names, duplicate topics/channels "
        "with conflicting paused flags, ephemeral names, truncation at a random byte, garbage, absent file. (c) write faults: after 0-3 creations the daemon lowers its own RLIMIT_FSIZE to 1-100 bytes (hook NSQ_VERIF_FSIZE, SIGXFSZ ignored; judged only when /proc/<pid>/limits shows the limit), so every later "
        "write of a temp metadata file is cut short and fails with EFBIG while fsync/close/rename work; 1-6 further requests, SIGKILL, restart: nsqd.dat must still be the complete document it was when the fault was armed "
        "and the daemon must start on it. (d) data-path lock x life of the daemon: a second daemon (real binary) is started on the data path while the first one is held at each of "
        "7 phases - inside its start-up persist (not serving yet), serving idle, a Notify goroutine inside PersistMetadata, SIGTERM with Exit() parked after it closed the topics "
        "(hook exit:topics-closed), SIGTERM with Exit() in waitGroup.Wait() behind a Notify goroutine that has not handed its event over yet, after the graceful exit has completed, after SIGKILL "
        "(phases pinned with NSQ_VERIF_WAIT on a counter that is never hit; dropped as inconclusive if the attempt outlasts 6 s of the hook's 10 s cap); recorded: did the second serve / exit non-zero by itself, "
        "is nsqd.dat the same inode with the same bytes, is the first still where it was, does a third daemon start after everything was killed and serve what nsqd.dat holds. "
        "(e) forced schedule: a channel deletion that completes while the persist of its own Notify goroutine - snapshot taken BEFORE the removal - still holds the NSQD lock "
        "(deleter held at before-remove until that persist has written / fsynced its temp file, the persist held there until the channel left the map; 3 variants: idle kill, kill right after the answer with a paused sibling channel, holder parked after fsync). "
        "(f) forced schedules 'a change whose own metadata write meets a busy NSQD lock' (13 fixed + 40 generated per quick run): after 1-6 settled prefix requests (creations, pause flips, deletions, ephemeral channels; idle after each; 30% "
        "followed by an idle kill and restart so that the state comes from LoadMetadata) a HOLDER request H and a VICTIM request V of the same sequential client: the Notify goroutine(s) of H (topic creation, channel creation, "
        "channel deletion, deletion of a topic with its channels) are parked at notify:before-send until V has passed its lookups; V (creation of a channel, parked in Topic.GetChannel before the topic lock; pause/unpause of a topic or channel - "
        "always the flip that changes the flag -, parked in doPause before the flag store) waits until H has written its temp file, i.e. H's snapshot predates V's change; H stays at persist:after-tmp-write / after-fsync / after-rename, holding "
        "the lock, until V's own write is at the lock (lookupLoop has received V's Notify event / the handler is at pause:before-lock); second template: the holder writes nothing - GetTopic creating an EPHEMERAL topic parked inside the NSQD lock "
        "until the Notify goroutine of an earlier topic/channel creation is at the lock. Killed after exact idleness (65%) or right after V's answer; all hit counters are computed by the generator; a wait that ran into the hook's cap is counted "
        "(driver stat forced_schedule_waits_expired, 0 expected); skipped with a stat when the tree under test lacks the hooks. "
        "A case is non-trivial when at least one request was sent / a file was present; distinct = distinct recorded histories.")
TRUSTED = [
    "modelled, not verified: the Go scheduler, sync.RWMutex (NSQD.Lock excludes other lockers; RLock blocks while a writer holds it), atomic flag stores, "
    "encoding/json (a proper prefix of the marshalled document is not decodable; a complete one decodes to what was marshalled), os.OpenFile/Write/Sync/Rename "
    "(rename is atomic with respect to readers and to SIGKILL), SIGKILL = loss of process state only",
    "hooks (build tag verif, no-op without it): verifPoint calls in PersistMetadata/writeSyncFile, DeleteExistingTopic/Channel, Notify; /repo/nsqd/verif_meta.go "
    "(status socket with the hit counters; NSQ_VERIF_HOLD makes a point wait for pending Notify goroutines; NSQ_VERIF_WAIT makes the k-th hit of a point wait for a counter, at most 10 s - "
    "used to pin the K8 schedule, the stale-persist deletion schedule and the phases of the data-path lock cases, exit:topics-closed in NSQD.Exit included); NSQ_VERIF_KILL from verif_points.go; "
    "for the busy-lock schedules also verifPoint in Topic.GetChannel (before the topic lock), lookupLoop (Notify event received), Topic/Channel.doPause (before the flag store), doPauseTopic/doPauseChannel (before the NSQD lock): "
    "'V's write is at the lock' is established from the last hook BEFORE the Lock call (a few instructions earlier; the holder then still has to fsync/rename), so a missed overlap is possible in principle - it makes the run an ordinary legal schedule, never a false alarm",
    "data-path lock cases: the phase of the first daemon is established from the status socket counters and its log lines (QUEUESCAN: closing = exitChan is closed; NSQ: stopping subsystems / NSQ: bye not yet printed); "
    "flock(2) itself (one owner per directory, LOCK_NB fails when held, dropped by the kernel with the last descriptor) is MODELLED in model/PathLock.v, not verified",
    "strace output parsing and /stats JSON parsing in the driver; the driver's client is sequential (one request in flight), which is what makes the live history schedule-independent for the judge",
    "tools/gotables/meta.go reads call order and guard texts only (go/ast); it does not evaluate control flow",
]
ASSUMPTIONS = [
    "C06 'partial': power-loss durability (fsync honesty; the code does not fsync the directory after the rename) is outside the crash model - a SIGKILL keeps the page cache, so the model's crash loses process state only",
    "C06 'partial': the data-path lock: flock(2) is OS behaviour and is modelled (model/PathLock.v: one owner, non-blocking, released at process end); over that model and the daemon's life program BUILT FROM THE SOURCE "
    "(where nsqd.New locks, the order of calls in NSQD.Exit, what DirLock.Lock/Unlock do) it is proved for all schedules of any number of processes that the path is never used unlocked, that at most one process uses it - "
    "'uses' lasting until waitGroup.Wait() has returned - and that the flock step of any other process fails and ends it (C06_path_never_used_unlocked, C06_path_exclusive, C06_second_refused; C06_lock_source_shape breaks when the order changes); "
    "tested on the real binaries at 7 phases of the first daemon's life. Which steps concern the data path is the model's classification (LoadMetadata, PersistMetadata, Topic.Close = touch; Main = background goroutines until waitGroup.Wait)",
    "KNOWN FINDING K8: GetMetadata reads the topics one after the other, each under its own lock (modelled so); with two or more CONCURRENT mutating clients the persisted document can combine channel sets of "
    "different instants, so 'the restart state is ONE live state the daemon passed through' is refuted in general (C06_atomic_full_refuted; reproduced on the real daemon on every run, case fixed-K8-mixed-document), "
    "proved componentwise for all schedules (C06_atomic), and proved exactly outside the K8 region (C06_atomic_outside) which contains every sequential-client schedule (C06_atomic_sequential)",
    "C06_pause_acked is proved for topic pause/unpause; the channel variant has the same handler shape (checked by C06_source_shape, exercised by the driver's monitor) but its proof is not mechanised",
    "write faults (ENOSPC / EDQUOT / EFBIG / EIO on the temp file) are modelled as the event EFault: C06_atomic, C06_atomic_outside/_sequential and C06_write_fault_keeps_dat hold with any number of them; "
    "C06_idle_full and C06_pause_acked are stated for fault-free schedules (after a failed persist the code only logs the error - the pause handlers even answer 200 - so the file is stale until the next successful persist); "
    "faults of fsync/close/rename/open are not modelled",
]
LEVEL_TEXT = ("Machine-checked proof (Coq 8.16.1) over an executable small-step model of the daemon's metadata persistence (model/Meta.v): request threads as lists of "
              "atomic micro-steps in program order, a counter of pending Notify goroutines, one persist job holding the NSQD lock that reads the topics one by one and "
              "then performs open(O_TRUNC) tmp / write (any chunking, or a write FAULT after a partial write: no fsync, no rename) / fsync / close / rename, a file system, SIGKILL and restart (tolerant load + start-up persist). "
              "For EVERY schedule (all interleavings, kills between any two steps and inside the write, any number of restarts): nsqd.dat is absent or a completely "
              "written, fsynced document whose topic set is that of a live state passed through and whose entries are persisted forms of topics in live states passed "
              "through, and no restart finds an undecodable file (C06_atomic); the stronger 'the document is ONE passed-through live state' is refuted by a concrete schedule (C06_atomic_full_refuted, known finding K8), proved for every schedule in which "
              "no GetMetadata has two mutation steps between its topic reads (C06_atomic_outside) and hence for every sequential client (C06_atomic_sequential); whenever no request, Notify goroutine or persist is in progress the file equals the "
              "persisted form of the live state - every completed creation in, every completed deletion out (C06_idle_full; the pre-fix program is refuted by the F6 "
              "schedule inside Coq); an answered topic pause/unpause is in the file from the answer on, across kills and restarts, until another request touches the "
              "topic (C06_pause_acked). Data-path lock (model/PathLock.v, any number of daemon processes on one path, every interleaving of their steps, background writes and SIGKILLs): no process touches the path or has background goroutines without holding the flock, "
              "at most one process uses the path at any instant - through its whole graceful exit up to the return of waitGroup.Wait() - and while it does the flock step of any other process fails and ends that process (C06_path_never_used_unlocked, C06_path_exclusive, C06_second_refused; "
              "the life program is built from the source table, C06_lock_source_shape). The model's step function is DEFINED from gen/MetaShape.v, the call-order table regenerated from the source on every run "
              "(C06_source_shape). Tied to the code by differential correspondence on the real nsqd binary under kill-point / wall-clock SIGKILL, strace and a concurrent reader.")
LEVEL_NOTE = ("KNOWN FINDING K8 (replayed on every run, case fixed-K8-mixed-document, tag kf=K8): two concurrent channel deleters parked between lookup and map removal plus a Notify persist parked between "
              "two topic reads of GetMetadata leave nsqd.dat = {a/x, b} after SIGKILL although the daemon only ever had {} {a} {a,b} {a,b/y} {a/x,b/y} {a,b/y} {a,b}; the full 'one passed-through state' clause therefore holds only outside "
              "that region (sequential clients included). Trusted: Coq kernel + vm_compute; the hand-written model (scheduler, locks, JSON, file system modelled, see trusted_base); gotables (syntax only); the verif hooks; "
              "the correspondence is sampled, the theorems are not. Partial: power-loss durability is OS behaviour (outside the crash model); flock(2) is modelled, the lock clause is proved over that model and tested at 7 life phases on the real binaries; channel pause proof not mechanised; write faults covered for atomicity only (idle/pause theorems assume fault-free schedules); fsync/rename faults not modelled.")
TECHNIQUE = "Coq invariant proofs over all interleavings and crash points of a small-step model + differential correspondence on the real daemon (SIGKILL at named points, strace)"
DESIGN_REF = "DESIGN.md §5 C06"
SEARCH_SCALE = 4


def drivers():
    def args(tier, seed, scale):
        n = (300 if tier == "quick" else 3000) * scale
        nl = (40 if tier == "quick" else 400) * scale
        nf = (10 if tier == "quick" else 100) * scale
        nfo = (40 if tier == "quick" else 400) * scale
        return ["-n", str(n), "-nload", str(nl), "-nfault", str(nf), "-nforced", str(nfo), "-seed", str(seed)]
    return [{"driver": "metadrive", "args": args, "replay_args": lambda tier: []}]
