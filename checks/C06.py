ID = "C06"
PROPS_FILE = "props/C06.v"
COQ_TARGETS = ["props/C06.vo", "judge/J06.vo", "model/Pack.vo"]
JUDGE = ("judge.J06", "J06.judge")
JUDGE_IMPORTS = ("From NSQV Require Import model.Meta.",)
JUDGE_SCOPE = "N_scope"
REPO_BINS = [("nsqd", "apps/nsqd", "verif")]
RULE = ("TODO")
TRUSTED = []
ASSUMPTIONS = []
LEVEL_TEXT = "TODO"
LEVEL_NOTE = "TODO"
TECHNIQUE = "TODO"
DESIGN_REF = "DESIGN.md §5 C06"


def drivers():
    def args(tier, seed, scale):
        n = (300 if tier == "quick" else 600) * scale
        nl = (40 if tier == "quick" else 200) * scale
        return ["-n", str(n), "-nload", str(nl), "-seed", str(seed)]
    return [{"driver": "metadrive", "args": args, "replay_args": lambda tier: []}]
