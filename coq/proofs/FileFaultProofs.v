(* Failing system calls in the nsq_to_file model (FileLogger.v): once a write, fsync, close,
   link, unlink or open of the logger has failed ([OFail] in the trace), no message is
   finished any more and the logger is not running -- for every configuration, fault
   schedule, set of pre-existing files and event history. *)
From Coq Require Import List ZArith NArith Bool Lia.
From NSQV Require Import model.Judge model.FileOS model.FileLogger proofs.FileOSProofs.
Import ListNotations.
Open Scope bool_scope.

Definition is_fail (o : op) : bool := match o with OFail _ _ => true | _ => false end.
Definition is_fin (o : op) : bool := match o with OFin _ => true | _ => false end.

(* on a newest-first trace: no FIN is newer than a failure *)
Fixpoint ffa (rt : list op) : Prop :=
  match rt with
  | [] => True
  | o :: r => ffa r /\ (is_fin o = true -> existsb is_fail r = false)
  end.

Definition G (s : st) : Prop :=
  (running s = true -> existsb is_fail (rtrace s) = false) /\ ffa (rtrace s).

Lemma G_emit : forall s o, G s -> is_fail o = false -> (is_fin o = true -> running s = true) ->
  G (emit s o).
Proof.
  intros s o [A B] Hf Hfin. split.
  - intro R. change (is_fail o || existsb is_fail (rtrace s) = false). rewrite Hf. apply A. exact R.
  - change (ffa (rtrace s) /\ (is_fin o = true -> existsb is_fail (rtrace s) = false)).
    split; auto.
Qed.

Lemma G_dead : forall s s', G s -> rtrace s' = rtrace s -> running s' = false -> G s'.
Proof. intros s s' [A B] Hr Hd. split. intro R. congruence. rewrite Hr. exact B. Qed.

Lemma G_same : forall s s', G s -> rtrace s' = rtrace s -> status_ s' = status_ s -> G s'.
Proof. intros s s' [A B] Hr Hs. unfold G, running in *. rewrite Hr, Hs. auto. Qed.

Lemma G_fatal : forall s, G s -> G (fatal s).
Proof.
  intros s [A B]. split. intro R. discriminate.
  change (ffa (rtrace s) /\ (false = true -> existsb is_fail (rtrace s) = false)). split; auto. intro; discriminate.
Qed.

Lemma G_fail_at : forall s w k, G s -> G (fail_at s w k).
Proof.
  intros s w k [A B]. split. intro R. discriminate.
  change ((ffa (rtrace s) /\ (false = true -> existsb is_fail (rtrace s) = false))
          /\ (false = true -> existsb is_fail (OFail (sys_of w) k :: rtrace s) = false)).
  repeat split; auto; intro; discriminate.
Qed.

Section Fault.
Variable c : cfg.

Lemma G_flush : forall s k, G s -> G (flush c s k).
Proof.
  intros s k H. unfold flush.
  set (s1 := if gzip c then (if faulty c s FGzClose then fail_at s FGzClose k else gz_close (bump s FGzClose) k) else s).
  assert (H1 : G s1).
  { unfold s1. destruct (gzip c); auto. destruct (faulty c s FGzClose). apply G_fail_at; auto.
    unfold gz_close. eapply G_same; [apply (G_emit (bump s FGzClose) (OMember k (gzbuf s))) | |]; try reflexivity.
    - exact H.
    - intro; discriminate. }
  cbv zeta. destruct (negb (running s1)); auto.
  destruct (faulty c s1 FFsync). apply G_fail_at; auto.
  apply G_emit; [exact H1 | reflexivity | intro; discriminate].
Qed.

Lemma G_sync_file : forall s, G s -> G (sync_file c s).
Proof.
  intros s H. unfold sync_file. destruct (out s); try (apply G_fatal; exact H). apply G_flush. exact H.
Qed.

Lemma G_fin_fold : forall l s, G s -> running s = true ->
  G (fold_left (fun a m => emit a (OFin m)) l s).
Proof.
  induction l as [|m l IH]; intros s H R; simpl; auto.
  apply IH. apply G_emit; auto. exact R.
Qed.

Lemma G_do_sync : forall s, G s -> G (do_sync c s).
Proof.
  intros s H. unfold do_sync. destruct (pending s); auto.
  pose proof (G_sync_file s H) as H1. cbv zeta.
  destruct (running (sync_file c s)) eqn:R; auto.
  unfold fin_all. eapply G_same; [apply (G_fin_fold (rev (pending (sync_file c s))) (sync_file c s) H1 R) | |]; try reflexivity.
Qed.

Lemma G_link_eexist : forall s src dst, G s -> G (link_eexist c s src dst).
Proof.
  intros s src dst H. unfold link_eexist. destruct (faulty c s FLink). apply G_fail_at; auto.
  apply G_emit; [exact H | reflexivity | intro; discriminate].
Qed.

Lemma G_move : forall s src dst, G s -> G (move c s src dst).
Proof.
  intros s src dst H. unfold move. destruct (faulty c s FLink). apply G_fail_at; auto.
  cbv zeta. set (s1 := emit (bump s FLink) (OLink src dst true)).
  assert (H1 : G s1) by (apply G_emit; [exact H | reflexivity | intro; discriminate]).
  destruct (faulty c s1 FUnlink). apply G_fail_at; auto.
  apply G_emit; [exact H1 | reflexivity | intro; discriminate].
Qed.

Lemma G_close_bump : forall fuel s src i, G s -> G (close_bump fuel c s src i).
Proof.
  induction fuel as [|n IH]; intros s src i H; simpl.
  - eapply G_dead; [exact H | reflexivity | reflexivity].
  - destruct (exists_ (fs s) (DOut, with_rev (filename s) i)).
    + pose proof (G_link_eexist s src (DOut, with_rev (filename s) i) H) as H1.
      destruct (running (link_eexist c s src (DOut, with_rev (filename s) i))); auto.
    + eapply G_same; [apply (G_move s src (DOut, with_rev (filename s) i) H) | |]; reflexivity.
Qed.

Lemma G_close_file : forall s, G s -> G (close_file c s).
Proof.
  intros s H. unfold close_file. destruct (out s) as [|k|k]; auto; [|apply G_fatal; exact H].
  pose proof (G_flush s k H) as H1. cbv zeta. set (s1 := flush c s k) in *.
  destruct (negb (running s1)); auto.
  destruct (faulty c s1 FClose). apply G_fail_at; auto.
  set (s2 := set_out (emit (bump s1 FClose) (OClose k)) (HStale k)).
  assert (H2 : G s2).
  { eapply G_same; [apply (G_emit (bump s1 FClose) (OClose k)) | |]; try reflexivity.
    exact H1. intro; discriminate. }
  destruct (use_work c).
  - destruct (exists_ (fs s2) (DOut, snd k)).
    + pose proof (G_link_eexist s2 k (DOut, snd k) H2) as H3.
      destruct (running (link_eexist c s2 k (DOut, snd k))); auto.
      apply G_close_bump. exact H3.
    + apply G_move. exact H2.
  - eapply G_same; [exact H2 | |]; reflexivity.
Qed.

Lemma G_open_loop : forall fuel s, G s -> G (open_loop fuel c s).
Proof.
  induction fuel as [|n IH]; intros s H; cbn [open_loop].
  - eapply G_dead; [exact H | reflexivity | reflexivity].
  - destruct (use_work c && exists_ (fs s) (DOut, with_rev (filename s) (rev_ s))).
    + apply IH. eapply G_same; [exact H | |]; reflexivity.
    + set (k := (wdir c, with_rev (filename s) (rev_ s))).
      destruct (faulty c s FOpen). apply G_fail_at; auto.
      destruct (excl_mode c && exists_ (fs s) k).
      * apply IH. eapply G_same; [apply (G_emit (bump s FOpen) (OCreate k (excl_mode c) (negb (excl_mode c)) false false)) | |];
          try reflexivity. exact H. intro; discriminate.
      * set (o := OCreate k (excl_mode c) (negb (excl_mode c)) false true).
        assert (H1 : G (emit (bump s FOpen) o)) by (apply G_emit; [exact H | reflexivity | intro; discriminate]).
        match goal with |- G (if ?b then _ else _) => destruct b end.
        -- apply IH. eapply G_same; [exact H1 | |]; reflexivity.
        -- eapply G_same; [exact H1 | |]; reflexivity.
Qed.

Lemma G_update_file : forall s t, G s -> G (update_file c s t).
Proof.
  intros s t H. unfold update_file. pose proof (G_close_file s H) as H1. cbv zeta.
  destruct (running (close_file c s)); auto.
  apply G_open_loop. eapply G_same; [exact H1 | |]; reflexivity.
Qed.

Lemma G_write_msg : forall s m, G s -> G (write_msg c s m).
Proof.
  intros s m H. unfold write_msg. destruct (out s) as [|k|k]; try (apply G_fatal; exact H).
  destruct (faulty c s FWrite).
  { apply G_fail_at. destruct (gzip c); auto. apply G_emit; [exact H | reflexivity | intro; discriminate]. }
  cbv zeta. destruct (gzip c).
  - eapply G_same; [exact H | |]; reflexivity.
  - eapply G_same; [apply (G_emit (bump s FWrite) (OWrite k (line m))) | |]; try reflexivity.
    exact H. intro; discriminate.
Qed.

Lemma G_tail : forall s a b e, G s -> G (tail_ c s a b e).
Proof.
  intros s a b e H. unfold tail_.
  set (s1 := if a then do_sync c s else s).
  assert (H1 : G s1) by (unfold s1; destruct a; auto; apply G_do_sync; auto).
  cbv zeta. destruct (running s1); auto.
  set (s2 := if b then close_file c s1 else s1).
  assert (H2 : G s2) by (unfold s2; destruct b; auto; apply G_close_file; auto).
  destruct (running s2); auto. destruct e; auto.
  eapply G_dead; [exact H2 | reflexivity | reflexivity].
Qed.

Lemma G_external : forall s k b, G s -> G (external s k b).
Proof.
  intros s k b H. unfold external. destruct (exists_ (fs s) k).
  - apply G_emit; [exact H | reflexivity | intro; discriminate].
  - repeat (apply G_emit; [ | reflexivity | intro; discriminate]). exact H.
Qed.

Lemma G_step : forall s e, G s -> G (step c s e).
Proof.
  intros s e H. unfold step.
  destruct e as [m t starved | t | | | | k b]; try (apply G_external; exact H);
    (destruct (running s) eqn:R; simpl; auto).
  - set (s1 := if needs_rotation c s t then update_file c s t else s).
    assert (H1 : G s1) by (unfold s1; destruct (needs_rotation c s t); auto; apply G_update_file; auto).
    destruct (running s1); simpl; auto.
    pose proof (G_write_msg s1 m H1) as H2.
    destruct (running (write_msg c s1 m)); simpl; auto.
    destruct (Nat.leb (max_in_flight c) (length (pending (write_msg c s1 m)))).
    + eapply G_dead; [exact H2 | reflexivity | reflexivity].
    + apply G_tail. eapply G_same; [exact H2 | |]; reflexivity.
  - destruct (needs_rotation c s t).
    + destruct (skip_empty c). apply G_tail; auto.
      pose proof (G_update_file s t H) as H1.
      destruct (running (update_file c s t)); auto. apply G_tail; auto.
    + apply G_tail; auto.
  - apply G_tail; auto.
  - apply G_tail; auto.
  - apply G_tail; auto.
Qed.

Lemma G_fold : forall es s, G s -> G (fold_left (step c) es s).
Proof. induction es as [|e es IH]; intros s H; simpl; auto. apply IH. apply G_step. exact H. Qed.

End Fault.

Lemma G_run : forall c fs0 es, G (run c fs0 es).
Proof.
  intros c fs0 es. apply G_fold. split; simpl; auto.
Qed.

Lemma existsb_fail_app : forall a w k b, existsb is_fail (a ++ OFail w k :: b) = true.
Proof. intros a w k b. rewrite existsb_app. simpl. apply orb_true_r. Qed.

Lemma ffa_no_fin : forall a w k b, ffa (a ++ OFail w k :: b) -> forall x, In x a -> is_fin x = false.
Proof.
  induction a as [|y a IH]; intros w k b H x Hx; simpl in *; [contradiction|].
  destruct H as [H1 H2]. destruct Hx as [<- | Hx].
  - destruct (is_fin y) eqn:E; auto. rewrite existsb_fail_app in H2. apply H2. reflexivity.
  - eapply IH; eauto.
Qed.

Lemma fins_none : forall q, (forall x, In x q -> is_fin x = false) -> fins q = [].
Proof.
  induction q as [|o q IH]; intros H; simpl; auto.
  assert (Ho : is_fin o = false) by (apply H; left; reflexivity).
  destruct o; try discriminate; apply IH; intros x Hx; apply H; right; exact Hx.
Qed.

(* After a failed system call of the write path no message is finished any more, and the
   logger is no longer running (it exited fatally).  With C19_fin_after_sync: a message
   whose bytes could not be written and fsynced is never finished. *)
Theorem no_fin_after_fail : forall c fs0 es p w k q,
  trace (run c fs0 es) = p ++ OFail w k :: q ->
  fins q = [] /\ running (run c fs0 es) = false.
Proof.
  intros c fs0 es p w k q Htr. destruct (G_run c fs0 es) as [A B].
  assert (Hr : rtrace (run c fs0 es) = rev q ++ OFail w k :: rev p).
  { unfold trace in Htr. rewrite <- (rev_involutive (rtrace (run c fs0 es))), Htr.
    rewrite rev_app_distr. simpl. rewrite <- app_assoc. reflexivity. }
  rewrite Hr in A, B. split.
  - apply fins_none. intros x Hx. eapply ffa_no_fin; [exact B | apply in_rev in Hx; exact Hx].
  - destruct (running (run c fs0 es)); auto. rewrite existsb_fail_app in A. apply A. reflexivity.
Qed.
