(* C03: the source-order facts of proofs/CoreSrcDefs.v this property relies on, each checked
   against the skeleton regenerated from /repo (one lemma per function, so that a failure names it). *)
From Coq Require Import List String.
From NSQV Require Import gen.CoreShape proofs.CoreSrcDefs.
Import ListNotations.
Open Scope string_scope.

Lemma src_clientV2_SetReadyCount : shape_clientV2_SetReadyCount = expect_clientV2_SetReadyCount.
Proof. reflexivity. Qed.
Lemma src_clientV2_IsReadyForMessages : shape_clientV2_IsReadyForMessages = expect_clientV2_IsReadyForMessages.
Proof. reflexivity. Qed.
Lemma src_clientV2_SendingMessage : shape_clientV2_SendingMessage = expect_clientV2_SendingMessage.
Proof. reflexivity. Qed.
Lemma src_clientV2_FinishedMessage : shape_clientV2_FinishedMessage = expect_clientV2_FinishedMessage.
Proof. reflexivity. Qed.
Lemma src_clientV2_TimedOutMessage : shape_clientV2_TimedOutMessage = expect_clientV2_TimedOutMessage.
Proof. reflexivity. Qed.
Lemma src_clientV2_RequeuedMessage : shape_clientV2_RequeuedMessage = expect_clientV2_RequeuedMessage.
Proof. reflexivity. Qed.
Lemma src_clientV2_StartClose : shape_clientV2_StartClose = expect_clientV2_StartClose.
Proof. reflexivity. Qed.
Lemma src_protocolV2_CLS : shape_protocolV2_CLS = expect_protocolV2_CLS.
Proof. reflexivity. Qed.
Lemma src_pump_not_ready : seg "if subChannel == nil || !client.IsReadyForMessages() {" "call client.writeLock.Lock" shape_protocolV2_messagePump = expect_pump_not_ready.
Proof. reflexivity. Qed.
Lemma src_pump_sources : cases_of shape_protocolV2_messagePump = expect_pump_sources.
Proof. reflexivity. Qed.
Lemma src_Topic_messagePump : shape_Topic_messagePump = expect_Topic_messagePump.
Proof. reflexivity. Qed.

Lemma src_C03 : src_facts_C03.
Proof. unfold src_facts_C03. repeat split; first [exact src_clientV2_SetReadyCount | exact src_clientV2_IsReadyForMessages | exact src_clientV2_SendingMessage | exact src_clientV2_FinishedMessage | exact src_clientV2_TimedOutMessage | exact src_clientV2_RequeuedMessage | exact src_clientV2_StartClose | exact src_protocolV2_CLS | exact src_pump_not_ready | exact src_pump_sources | exact src_Topic_messagePump]. Qed.
