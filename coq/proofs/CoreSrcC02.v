(* C02: the source-order facts of proofs/CoreSrcDefs.v this property relies on, each checked
   against the skeleton regenerated from /repo (one lemma per function, so that a failure names it). *)
From Coq Require Import List String.
From NSQV Require Import gen.CoreShape proofs.CoreSrcDefs.
Import ListNotations.
Open Scope string_scope.

Lemma src_Channel_FinishMessage : shape_Channel_FinishMessage = expect_Channel_FinishMessage.
Proof. reflexivity. Qed.
Lemma src_Channel_popInFlightMessage : shape_Channel_popInFlightMessage = expect_Channel_popInFlightMessage.
Proof. reflexivity. Qed.
Lemma src_Channel_pushInFlightMessage : shape_Channel_pushInFlightMessage = expect_Channel_pushInFlightMessage.
Proof. reflexivity. Qed.
Lemma src_Channel_TouchMessage : shape_Channel_TouchMessage = expect_Channel_TouchMessage.
Proof. reflexivity. Qed.
Lemma src_Channel_RequeueMessage : shape_Channel_RequeueMessage = expect_Channel_RequeueMessage.
Proof. reflexivity. Qed.
Lemma src_Channel_StartInFlightTimeout : shape_Channel_StartInFlightTimeout = expect_Channel_StartInFlightTimeout.
Proof. reflexivity. Qed.
Lemma src_Channel_processInFlightQueue : shape_Channel_processInFlightQueue = expect_Channel_processInFlightQueue.
Proof. reflexivity. Qed.
Lemma src_protocolV2_FIN : shape_protocolV2_FIN = expect_protocolV2_FIN.
Proof. reflexivity. Qed.
Lemma src_protocolV2_REQ : shape_protocolV2_REQ = expect_protocolV2_REQ.
Proof. reflexivity. Qed.
Lemma src_protocolV2_TOUCH : shape_protocolV2_TOUCH = expect_protocolV2_TOUCH.
Proof. reflexivity. Qed.
Lemma src_pump_deliver : drop_until "if len(b) != 0 {" shape_protocolV2_messagePump = expect_pump_deliver.
Proof. reflexivity. Qed.
Lemma src_pump_loop_head : seg "for {" "call client.IsReadyForMessages" shape_protocolV2_messagePump = expect_pump_loop_head.
Proof. reflexivity. Qed.

Lemma src_C02 : src_facts_C02.
Proof. unfold src_facts_C02. repeat split; first [exact src_Channel_FinishMessage | exact src_Channel_popInFlightMessage | exact src_Channel_pushInFlightMessage | exact src_Channel_TouchMessage | exact src_Channel_RequeueMessage | exact src_Channel_StartInFlightTimeout | exact src_Channel_processInFlightQueue | exact src_protocolV2_FIN | exact src_protocolV2_REQ | exact src_protocolV2_TOUCH | exact src_pump_deliver | exact src_pump_loop_head]. Qed.
