(* Every connected (alive) and subscribed consumer is attached to its channel, in every
   reachable state; with CInv this makes the counter exactness apply to every connected
   subscribed consumer. *)
From Coq Require Import List NArith ZArith Bool Lia ZifyBool ZifyN.
From RecordUpdate Require Import RecordUpdate.
From NSQV Require Import model.Core proofs.CoreBase proofs.CoreFlow proofs.CoreCountInv.
Import ListNotations.
Local Open Scope N_scope.

Lemma AS_from s s' :
  (forall kl', In kl' (s_clients s') -> k_alive kl' = true -> forall t c, k_sub kl' = Some (t, c) ->
     exists kl, In kl (s_clients s) /\ k_id kl = k_id kl' /\ k_alive kl = true /\ k_sub kl = Some (t, c)
                /\ (Attached s (k_id kl) t c -> Attached s' (k_id kl) t c)) ->
  AliveSub s -> AliveSub s'.
Proof.
  intros H HA kl' t c Hkl' Ha Hs. destruct (H kl' Hkl' Ha t c Hs) as (kl & Hkl & Ei & Ea & Es & Hat).
  rewrite <- Ei. apply Hat. apply HA; assumption.
Qed.

(* the common case: clients mapped by G (ids, subscriptions kept; nobody comes alive), all attachments kept *)
Lemma AS_map s s' (G : client -> client) :
  s_clients s' = map G (s_clients s) ->
  (forall kl, k_id (G kl) = k_id kl /\ k_sub (G kl) = k_sub kl /\ (k_alive (G kl) = true -> k_alive kl = true)) ->
  (forall k t c, Attached s k t c -> Attached s' k t c) ->
  AliveSub s -> AliveSub s'.
Proof.
  intros E HG Hat. apply AS_from. intros kl' Hkl' Ha t c Hs. rewrite E in Hkl'.
  apply in_map_iff in Hkl'. destruct Hkl' as [kl [<- Hkl]]. destruct (HG kl) as (A & B & C).
  exists kl. repeat split; auto; try congruence.
Qed.

Lemma AS_topics_only s s' :
  s_clients s' = s_clients s -> (forall k t c, Attached s k t c -> Attached s' k t c) -> AliveSub s -> AliveSub s'.
Proof.
  intros E Hat. apply (AS_map s s' (fun x => x)); [rewrite map_id; exact E| |exact Hat]. intros; auto.
Qed.

(* attachments of one consumer through an update that keeps THAT consumer a member *)
Lemma Attached_upd_chan_k s t0 c0 f k t c :
  (forall ch, c_id (f ch) = c_id ch /\ (In k (c_clients ch) -> In k (c_clients (f ch)))) ->
  Attached s k t c -> Attached (upd_chan s t0 c0 f) k t c.
Proof.
  intros Hf (tp & ch & Htp & Et & Hch & Ec & Hk).
  exists (if t_id tp =? t0 then upd_chan_in tp c0 f else tp), (if (t_id tp =? t0) && (c_id ch =? c0) then f ch else ch).
  repeat split.
  - change (s_topics (upd_chan s t0 c0 f)) with (map (fun x => if t_id x =? t0 then upd_chan_in x c0 f else x) (s_topics s)).
    apply in_map_iff. exists tp. auto.
  - destruct (t_id tp =? t0); exact Et.
  - destruct (t_id tp =? t0); cbn [andb]; [|exact Hch].
    change (t_chans (upd_chan_in tp c0 f)) with (map (fun x => if c_id x =? c0 then f x else x) (t_chans tp)).
    apply in_map_iff. exists ch. auto.
  - destruct ((t_id tp =? t0) && (c_id ch =? c0)); [destruct (Hf ch); congruence|exact Ec].
  - destruct ((t_id tp =? t0) && (c_id ch =? c0)); [apply Hf, Hk|exact Hk].
Qed.

Lemma Attached_filter_chans s t0 (p : chan -> bool) k t c :
  (t = t0 -> forall ch, In k (c_clients ch) -> c_id ch = c -> p ch = true) ->
  Attached s k t c -> Attached (upd_topic s t0 (fun tp => tp <| t_chans ::= filter p |>)) k t c.
Proof.
  intros Hp (tp & ch & Htp & Et & Hch & Ec & Hk).
  exists (if t_id tp =? t0 then tp <| t_chans ::= filter p |> else tp), ch. repeat split; auto.
  - change (s_topics (upd_topic s t0 (fun tp => tp <| t_chans ::= filter p |>)))
      with (map (fun x => if t_id x =? t0 then x <| t_chans ::= filter p |> else x) (s_topics s)).
    apply in_map_iff. exists tp. auto.
  - destruct (t_id tp =? t0); exact Et.
  - destruct (N.eqb_spec (t_id tp) t0) as [Q|Q]; [|exact Hch]. cbn. apply filter_In. split; [exact Hch|apply Hp; congruence].
Qed.

Lemma Attached_filter_topics s (p : topic -> bool) k t c :
  (forall tp, t_id tp = t -> t_chans tp <> [] -> p tp = true) ->
  Attached s k t c -> Attached (s <| s_topics ::= filter p |>) k t c.
Proof.
  intros Hp (tp & ch & Htp & Et & Hch & Ec & Hk). exists tp, ch. repeat split; auto.
  cbn. apply filter_In. split; [exact Htp|]. apply Hp; [exact Et|]. intros E. rewrite E in Hch. destruct Hch.
Qed.

Lemma Attached_unsubscribe kl0 s k t c :
  k <> k_id kl0 -> Attached s k t c -> Attached (unsubscribe kl0 s) k t c.
Proof.
  intros Hne H. unfold unsubscribe. destruct (k_sub kl0) as [[t0 c0]|]; [|exact H].
  apply Attached_filter_topics.
  - intros tp _ Hn. destruct (t_chans tp); [contradiction|]. rewrite andb_false_r. reflexivity.
  - apply Attached_filter_chans.
    + intros _ ch Hk _. destruct (c_clients ch); [destruct Hk|]. rewrite andb_false_r. reflexivity.
    + apply Attached_upd_chan_k; [|exact H]. intros ch. split; [reflexivity|]. cbn. intros Hk.
      apply filter_In. split; [exact Hk|]. apply negb_true_iff, N.eqb_neq. exact Hne.
Qed.

Lemma fold_topic_put_both cfg defer ids tp :
  t_id (fold_left (fun tp id => topic_put cfg (mkMsg id 0 defer) tp) ids tp) = t_id tp /\
  t_chans (fold_left (fun tp id => topic_put cfg (mkMsg id 0 defer) tp) ids tp) = t_chans tp.
Proof. split; [apply fold_topic_put_id|apply fold_topic_put_chans]. Qed.

Theorem step_AliveSub cfg s o : CInv s -> AliveSub s -> AliveSub (fst (step cfg s o)).
Proof.
  intros HI HA. destruct o; cbn [step].
  - (* OCreateTopic *) apply (AS_topics_only s); [unfold ensure_topic; destruct (find_topic s t); reflexivity| |exact HA].
    intros; apply Attached_ensure_topic; assumption.
  - (* OCreateChan *) destruct (find_topic s t) eqn:E; cbn [fst]; [|exact HA].
    apply (AS_topics_only s); [unfold pump_topic, ensure_chan, ensure_topic; rewrite E; reflexivity| |exact HA].
    intros. apply Attached_pump_topic, Attached_ensure_chan. assumption.
  - (* OPub *) cbn [fst]. apply (AS_topics_only s); [unfold pump_topic, ensure_topic; destruct (find_topic s t); reflexivity| |exact HA].
    intros. apply Attached_pump_topic. apply Attached_topic_only; [intros tp; cbn; apply fold_topic_put_both|].
    apply Attached_ensure_topic. assumption.
  - (* OConnect *) destruct (find_client s k) eqn:E; cbn [fst]; [exact HA|].
    apply (AS_from s); [|exact HA]. intros kl' Hkl' Ha t c Hs. cbn in Hkl'. apply in_app_iff in Hkl'.
    destruct Hkl' as [Hkl'|[<-|[]]]; [|cbn in Hs; discriminate].
    exists kl'. repeat split; auto.
  - (* OSub *) destruct (find_client s k) as [kl0|] eqn:Fk; [|exact HA].
    destruct ((k_state kl0 =? st_init) && k_alive kl0) eqn:D; cbn [fst]; [|exact HA].
    apply andb_true_iff in D. destruct D as [D _]. apply N.eqb_eq in D.
    destruct (find_client_in s k kl0 Fk) as [Hkl0 Ek0].
    destruct (ci_init s HI kl0 Hkl0 D) as [Sn _].
    set (s1 := ensure_chan s t c teph ceph).
    set (f := fun ch : chan => ch <| c_clients ::= fun l => l ++ [k] |>).
    set (g := fun x : client => x <| k_state := st_subscribed |> <| k_sub := Some (t, c) |>).
    assert (Hkeep : forall k' t' c', Attached s k' t' c' ->
              Attached (pump_topic cfg now (upd_client (upd_chan s1 t c f) k g) t) k' t' c').
    { intros k' t' c' H. apply Attached_pump_topic.
      apply (Attached_same_topics (upd_chan s1 t c f)); [reflexivity|].
      apply Attached_upd_chan; [|apply Attached_ensure_chan, H].
      intros ch. split; [reflexivity|]. cbn. intros x Hx. apply in_app_iff. left. exact Hx. }
    intros kl' t' c' Hkl' Ha Hs.
    change (s_clients (pump_topic cfg now (upd_client (upd_chan s1 t c f) k g) t))
      with (map (fun x => if k_id x =? k then g x else x) (s_clients s1)) in Hkl'.
    replace (s_clients s1) with (s_clients s) in Hkl'
      by (unfold s1, ensure_chan, ensure_topic; destruct (find_topic s t); reflexivity).
    apply in_map_iff in Hkl'. destruct Hkl' as [kl [E Hkl]].
    destruct (N.eqb_spec (k_id kl) k) as [Q|Q].
    + (* the subscriber itself: attached to the channel SUB ensured *)
      subst kl'. cbn in Hs. inversion Hs; subst t' c'. cbn [k_id g]. 
      replace (k_id (g kl)) with k by (rewrite <- Q; reflexivity).
      apply Attached_pump_topic. apply (Attached_same_topics (upd_chan s1 t c f)); [reflexivity|].
      destruct (ensure_chan_has s t c teph ceph) as (tp0 & ch0 & Htp0 & Et & Hch0 & Ec).
      exists (if t_id tp0 =? t then upd_chan_in tp0 c f else tp0), (f ch0). repeat split.
      * change (s_topics (upd_chan s1 t c f)) with (map (fun x => if t_id x =? t then upd_chan_in x c f else x) (s_topics s1)).
        apply in_map_iff. exists tp0. auto.
      * destruct (t_id tp0 =? t); exact Et.
      * rewrite Et, N.eqb_refl.
        change (t_chans (upd_chan_in tp0 c f)) with (map (fun x => if c_id x =? c then f x else x) (t_chans tp0)).
        apply in_map_iff. exists ch0. rewrite Ec, N.eqb_refl. auto.
      * exact Ec.
      * cbn. apply in_app_iff. right. left. reflexivity.
    + subst kl'. apply Hkeep. apply HA; assumption.
  - (* ORdy *) destruct (find_client s k) as [kl|]; [|exact HA].
    destruct (k_state kl =? st_closing); [exact HA|]. destruct (k_state kl =? st_subscribed); cbn [fst]; [|exact HA].
    apply (AS_map s _ (fun x => if k_id x =? k then x <| k_rdy := n |> else x)); [reflexivity| |intros k9 t9 c9 H; exact H|exact HA].
    intros x. destruct (k_id x =? k); auto.
  - (* ODeliver *) destruct (find_client s k) as [kl|]; [|exact HA].
    destruct (k_sub kl) as [[t c]|]; [|exact HA]. destruct (get_chan s t c) as [ch|]; [|exact HA].
    destruct (deliverable s kl ch id); cbn [fst]; [|exact HA].
    apply (AS_map s _ (fun x => if k_id x =? k then x <| k_ifl ::= Z.succ |> <| k_msgcount ::= N.succ |> else x)); [reflexivity| | |exact HA].
    + intros x. destruct (k_id x =? k); auto.
    + intros k9 t9 c9 H. apply (Attached_same_topics (upd_chan s t c (ch_deliver k id (now + k_timeout kl) now))); [reflexivity|].
      apply Attached_upd_chan; [|exact H]. intros ch0. unfold ch_deliver. destruct (remove_msg id (c_queue ch0)) as [[m q]|]; split; try reflexivity; apply incl_refl.
  - (* OFin *) destruct (answering s k) as [[[[[kl t] c] ch]|]|]; try exact HA.
    destruct (holds ch k id); cbn [fst]; [|exact HA].
    apply (AS_map s _ (fun x => if k_id x =? k then x <| k_ifl ::= Z.pred |> <| k_fincount ::= N.succ |> else x)); [reflexivity| | |exact HA].
    + intros x. destruct (k_id x =? k); auto.
    + intros k9 t9 c9 H. apply (Attached_same_topics (upd_chan s t c (ch_fin k id))); [reflexivity|].
      apply Attached_upd_chan; [|exact H]. intros ch0. unfold ch_fin.
      destruct (remove_ifl id (c_ifl ch0)) as [[e l]|]; [destruct (i_cid e =? k)|]; split; try reflexivity; apply incl_refl.
  - (* OReq *) destruct (answering s k) as [[[[[kl t] c] ch]|]|]; try exact HA.
    destruct (holds ch k id); cbn [fst]; [|exact HA].
    apply (AS_map s _ (fun x => if k_id x =? k then x <| k_ifl ::= Z.pred |> <| k_reqcount ::= N.succ |> else x)); [reflexivity| | |exact HA].
    + intros x. destruct (k_id x =? k); auto.
    + intros k9 t9 c9 H. apply (Attached_same_topics (upd_chan s t c (ch_req cfg k id delay now))); [reflexivity|].
      apply Attached_upd_chan; [|exact H]. intros ch0. unfold ch_req.
      destruct (remove_ifl id (c_ifl ch0)) as [[e l]|]; [destruct (i_cid e =? k)|]; try (split; [reflexivity|apply incl_refl]).
      destruct (delay =? 0)%Z; [|split; [reflexivity|apply incl_refl]].
      match goal with |- context [chan_put cfg ?m ?c0] => destruct (chan_put_skel cfg m c0) as (A & B & _) end.
      rewrite A, B. split; [reflexivity|apply incl_refl].
  - (* OTouch *) destruct (answering s k) as [[[[[kl t] c] ch]|]|]; try exact HA.
    destruct (holds ch k id); cbn [fst]; [|exact HA].
    apply (AS_topics_only s); [reflexivity| |exact HA].
    intros k9 t9 c9 H. apply Attached_upd_chan; [|exact H]. intros ch0. unfold ch_touch.
    destruct (remove_ifl id (c_ifl ch0)) as [[e l]|]; [destruct (i_cid e =? k)|]; split; try reflexivity; apply incl_refl.
  - (* OCls *) destruct (find_client s k) as [kl|]; [|exact HA].
    destruct (k_state kl =? st_subscribed); cbn [fst]; [|exact HA].
    apply (AS_map s _ (fun x => if k_id x =? k then x <| k_rdy := 0%Z |> <| k_state := st_closing |> else x)); [reflexivity| |intros k9 t9 c9 H; exact H|exact HA].
    intros x. destruct (k_id x =? k); auto.
  - (* ODisconnect *) destruct (find_client s k) as [kl0|] eqn:Fk; cbn [fst]; [|exact HA].
    destruct (find_client_in s k kl0 Fk) as [Hkl0 Ek0].
    apply (AS_from s); [|exact HA]. intros kl' Hkl' Ha t c Hs.
    change (s_clients (upd_client (unsubscribe kl0 s) k (fun x => x <| k_alive := false |>)))
      with (map (fun x => if k_id x =? k then x <| k_alive := false |> else x) (s_clients (unsubscribe kl0 s))) in Hkl'.
    replace (s_clients (unsubscribe kl0 s)) with (s_clients s) in Hkl'
      by (unfold unsubscribe; destruct (k_sub kl0) as [[? ?]|]; reflexivity).
    apply in_map_iff in Hkl'. destruct Hkl' as [kl [E Hkl]].
    destruct (N.eqb_spec (k_id kl) k) as [Q|Q]; [subst kl'; cbn in Ha; discriminate|]. subst kl'.
    exists kl. repeat split; auto. intros H.
    apply (Attached_same_topics (unsubscribe kl0 s)); [reflexivity|]. apply Attached_unsubscribe; [congruence|exact H].
  - (* OPauseChan *) destruct (get_chan s t c); cbn [fst]; [|exact HA].
    apply (AS_topics_only s); [reflexivity| |exact HA]. intros k9 t9 c9 H.
    apply Attached_upd_chan; [|exact H]. intros ch0. split; [reflexivity|apply incl_refl].
  - (* OPauseTopic *) destruct (find_topic s t); cbn [fst]; [|exact HA].
    apply (AS_topics_only s); [reflexivity| |exact HA]. intros k9 t9 c9 H.
    apply Attached_pump_topic. apply Attached_topic_only; [intros tp; split; reflexivity|exact H].
  - (* OEmptyChan *) destruct (get_chan s t c) as [ch|]; cbn [fst]; [|exact HA].
    apply (AS_map s _ (fun k => if existsb (N.eqb (k_id k)) (c_clients ch) then k <| k_ifl := 0%Z |> else k)); [reflexivity| | |exact HA].
    + intros x. destruct (existsb _ _); auto.
    + intros k9 t9 c9 H. apply Attached_clients. apply Attached_upd_chan; [|exact H].
      intros ch0. split; [reflexivity|apply incl_refl].
  - (* OEmptyTopic *) destruct (find_topic s t); cbn [fst]; [|exact HA].
    apply (AS_topics_only s); [reflexivity| |exact HA]. intros k9 t9 c9 H.
    apply Attached_topic_only; [intros tp; split; reflexivity|exact H].
  - (* ODeleteChan *) destruct (find_topic s t) as [tp0|] eqn:Ft; [|exact HA].
    destruct (find_chan tp0 c) as [ch0|] eqn:Fc; cbn [fst]; [|exact HA].
    destruct (find_topic_in s t tp0 Ft) as [Htp0 Et0]. destruct (find_chan_in tp0 c ch0 Fc) as [Hch0 Ec0].
    apply (AS_from s); [|exact HA]. intros kl' Hkl' Ha t' c' Hs.
    change (s_clients (drop_empty_eph_topic t (upd_topic (close_clients (c_clients ch0) s) t
                (fun tp => tp <| t_chans ::= filter (fun x => negb (c_id x =? c)) |>))))
      with (map (fun k => if existsb (N.eqb (k_id k)) (c_clients ch0) then k <| k_alive := false |> else k) (s_clients s)) in Hkl'.
    apply in_map_iff in Hkl'. destruct Hkl' as [kl [E Hkl]].
    destruct (existsb (N.eqb (k_id kl)) (c_clients ch0)) eqn:X; [subst kl'; cbn in Ha; discriminate|]. subst kl'.
    exists kl. repeat split; auto. intros H.
    assert (Hne : ~ (t' = t /\ c' = c)).
    { intros [-> ->]. destruct H as (tp & ch & Htp & Et & Hch & Ec & Hk).
      assert (tp = tp0) by (apply (NoDup_map_unique t_id (s_topics s)); [apply HI|assumption|assumption|congruence]). subst tp.
      assert (ch = ch0) by (apply (NoDup_map_unique c_id (t_chans tp0)); [apply HI, Htp0|assumption|assumption|congruence]). subst ch.
      apply existsb_eqb_In in Hk. congruence. }
    unfold drop_empty_eph_topic. apply Attached_filter_topics.
    + intros tp _ Hn. destruct (t_chans tp); [contradiction|]. rewrite andb_false_r. reflexivity.
    + apply Attached_filter_chans.
      * intros Et ch Hk Ec. apply negb_true_iff, N.eqb_neq. intros Q. apply Hne. split; [exact Et|congruence].
      * apply (Attached_same_topics s); [reflexivity|exact H].
  - (* ODeleteTopic *) destruct (find_topic s t) as [tp0|] eqn:Ft; cbn [fst]; [|exact HA].
    destruct (find_topic_in s t tp0 Ft) as [Htp0 Et0].
    apply (AS_from s); [|exact HA]. intros kl' Hkl' Ha t' c' Hs.
    change (s_clients ((close_clients (chan_clients_of tp0) s) <| s_topics ::= filter (fun x => negb (t_id x =? t)) |>))
      with (map (fun k => if existsb (N.eqb (k_id k)) (chan_clients_of tp0) then k <| k_alive := false |> else k) (s_clients s)) in Hkl'.
    apply in_map_iff in Hkl'. destruct Hkl' as [kl [E Hkl]].
    destruct (existsb (N.eqb (k_id kl)) (chan_clients_of tp0)) eqn:X; [subst kl'; cbn in Ha; discriminate|]. subst kl'.
    exists kl. repeat split; auto. intros H.
    assert (Hne : t' <> t).
    { intros ->. destruct H as (tp & ch & Htp & Et & Hch & Ec & Hk).
      assert (tp = tp0) by (apply (NoDup_map_unique t_id (s_topics s)); [apply HI|assumption|assumption|congruence]). subst tp.
      assert (In (k_id kl) (chan_clients_of tp0)) by (unfold chan_clients_of; apply in_flat_map; exists ch; auto).
      apply existsb_eqb_In in H. congruence. }
    apply Attached_filter_topics.
    + intros tp Et _. apply negb_true_iff, N.eqb_neq. congruence.
    + apply (Attached_same_topics s); [reflexivity|exact H].
  - (* OScanInFlight *) destruct (get_chan s t c) as [ch|]; cbn [fst]; [|exact HA].
    rewrite fold_dec_eta.
    apply (AS_map s _ (fun kl => if existsb (N.eqb (k_id kl)) (c_clients ch)
              then kl <| k_ifl ::= fun x => (x - owned (k_id kl) (fst (expired_ifl now (c_ifl ch))))%Z |> else kl)); [reflexivity| | |exact HA].
    + intros x. destruct (existsb _ _); auto.
    + intros k9 t9 c9 H. apply (Attached_same_topics (upd_chan s t c (ch_scan_ifl cfg now))); [reflexivity|].
      apply Attached_upd_chan; [|exact H]. intros ch0. destruct (scan_ifl_skel cfg now ch0) as (A & B & _).
      rewrite A, B. split; [reflexivity|apply incl_refl].
  - (* OScanDeferred *) destruct (get_chan s t c); cbn [fst]; [|exact HA].
    apply (AS_topics_only s); [reflexivity| |exact HA]. intros k9 t9 c9 H.
    apply Attached_upd_chan; [|exact H]. intros ch0. destruct (scan_dfr_le cfg now ch0) as (A & _).
    split; [congruence|].
    unfold ch_scan_dfr. destruct (expired_dfr now (c_dfr ch0)) as [ex keep].
    destruct (fold_chan_put_skel cfg d_msg (fun ch => ch) ex (ch0 <| c_dfr := keep |>)) as (_ & B & _); [intros x; repeat split|].
    cbn in B. rewrite B. apply incl_refl.
Qed.

Lemma AliveSub_init : AliveSub init.
Proof. intros kl t c []. Qed.

Theorem run_AliveSub cfg ops : AliveSub (run cfg init ops).
Proof.
  unfold run. generalize CInv_init AliveSub_init. generalize init.
  induction ops as [|o ops IH]; intros s HI HA; cbn; [exact HA|].
  apply IH; [apply step_CInv, HI|apply step_AliveSub; assumption].
Qed.

(* every connected subscribed consumer's counter is exact *)
Theorem connected_counter_exact cfg ops kl t c :
  let s := run cfg init ops in
  In kl (s_clients s) -> k_alive kl = true -> k_sub kl = Some (t, c) ->
  exists ch, get_chan s t c = Some ch /\ In (k_id kl) (c_clients ch) /\ k_ifl kl = owned (k_id kl) (c_ifl ch).
Proof.
  intros s Hkl Ha Hs. pose proof (run_CInv cfg ops) as HI. pose proof (run_AliveSub cfg ops) as HA. fold s in HI, HA.
  destruct (HA kl t c Hkl Ha Hs) as (tp & ch & Htp & Et & Hch & Ec & Hk).
  exists ch. split; [|split; [exact Hk|]].
  - unfold get_chan. rewrite <- Et. unfold find_topic. rewrite (find_unique t_id (s_topics s) tp); [|apply HI|exact Htp].
    rewrite <- Ec. apply (find_unique c_id (t_chans tp) ch); [apply HI, Htp|exact Hch].
  - apply (counter_exact cfg ops tp ch kl Htp Hch Hkl Hk).
Qed.
