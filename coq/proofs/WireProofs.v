(* Proofs about model/Wire.v (C07). *)
From Coq Require Import List NArith ZArith Bool Lia ZifyBool ZifyNat ZifyN.
From NSQV Require Import gen.Consts gen.WireLayout model.Judge model.Guid model.Relay model.Wire
  proofs.GuidProofs proofs.RelayProofs.
Import ListNotations.
Open Scope Z_scope.

(* ================================================================== lists *)
Lemma firstn_app_exact {A} (a r : list A) n : length a = n -> firstn n (a ++ r) = a.
Proof. intros <-. rewrite firstn_app, Nat.sub_diag, firstn_all. cbn. apply app_nil_r. Qed.

Lemma skipn_app_exact {A} (a r : list A) n : length a = n -> skipn n (a ++ r) = r.
Proof. intros <-. rewrite skipn_app, Nat.sub_diag, skipn_all. reflexivity. Qed.

Lemma skipn_skipn {A} x y (l : list A) : skipn x (skipn y l) = skipn (x + y) l.
Proof.
  revert l. induction y as [|y IH]; intros l.
  - rewrite Nat.add_0_r. reflexivity.
  - rewrite Nat.add_succ_r. destruct l as [|a l]; [rewrite !skipn_nil; reflexivity|]. cbn [skipn]. apply IH.
Qed.

Lemma wf_bytes_app a b : wf_bytes (a ++ b) <-> wf_bytes a /\ wf_bytes b.
Proof. unfold wf_bytes. apply Forall_app. Qed.

Lemma bytes_ok_wf l : bytes_ok l = true <-> wf_bytes l.
Proof.
  unfold bytes_ok, wf_bytes, byte_ok. rewrite forallb_forall, Forall_forall.
  split; intros H x Hx; specialize (H x Hx); lia.
Qed.

Lemma wf_firstn n l : wf_bytes l -> wf_bytes (firstn n l).
Proof. intros H. rewrite <- (firstn_skipn n l) in H. apply wf_bytes_app in H. tauto. Qed.

Lemma wf_skipn n l : wf_bytes l -> wf_bytes (skipn n l).
Proof. intros H. rewrite <- (firstn_skipn n l) in H. apply wf_bytes_app in H. tauto. Qed.

Lemma len_app a b : len (a ++ b) = len a + len b.
Proof. unfold len. rewrite app_length. lia. Qed.

Lemma len_nonneg a : 0 <= len a.
Proof. unfold len. lia. Qed.

Lemma firstn_short {A} n (l : list A) : (length (firstn n l) < n)%nat -> firstn n l = l.
Proof.
  intros H. destruct (Nat.le_gt_cases n (length l)) as [Hle|Hgt].
  - rewrite firstn_length_le in H by assumption. lia.
  - apply firstn_all2. lia.
Qed.

(* ================================================================== big-endian integers *)
Ltac Zify.zify_post_hook ::= Z.div_mod_to_equations.

Lemma be_enc_length k : forall v, length (be_enc k v) = k.
Proof. induction k; intros v; cbn; [reflexivity|]. rewrite app_length, IHk. cbn. lia. Qed.

Lemma be_enc_wf k : forall v, wf_bytes (be_enc k v).
Proof.
  induction k; intros v; cbn; [constructor|].
  apply wf_bytes_app. split; [apply IHk|]. constructor; [|constructor]. lia.
Qed.

Lemma be_dec_from_app acc a b : be_dec_from acc (a ++ b) = be_dec_from (be_dec_from acc a) b.
Proof. revert acc. induction a; intros; cbn; auto. Qed.

Lemma be_dec_from_enc k : forall acc v,
  be_dec_from acc (be_enc k v) = (acc * 256 ^ N.of_nat k + v mod 256 ^ N.of_nat k)%N.
Proof.
  induction k; intros acc v.
  - cbn. rewrite N.mod_1_r. lia.
  - cbn [be_enc]. rewrite be_dec_from_app, IHk. cbn [be_dec_from].
    rewrite Nat2N.inj_succ, N.pow_succ_r'.
    assert (Hp : (256 ^ N.of_nat k <> 0)%N) by (apply N.pow_nonzero; lia).
    rewrite (N.mod_mul_r v 256 (256 ^ N.of_nat k)) by (assumption || lia).
    set (P := (256 ^ N.of_nat k)%N) in *. set (q := ((v / 256) mod P)%N). set (r := (v mod 256)%N).
    lia.
Qed.

(* decoding what was encoded gives the value modulo 256^k *)
Theorem be_dec_enc k v : be_dec (be_enc k v) = (v mod 256 ^ N.of_nat k)%N.
Proof. unfold be_dec. rewrite be_dec_from_enc. lia. Qed.

(* encoding what was decoded gives the bytes back *)
Theorem be_enc_dec b : wf_bytes b -> be_enc (length b) (be_dec b) = b.
Proof.
  induction b as [|x l IH] using rev_ind; intros H; [reflexivity|].
  apply wf_bytes_app in H. destruct H as [Hl Hx]. inversion Hx as [|? ? Hx256 _]; subst.
  rewrite app_length. cbn [length]. rewrite Nat.add_1_r. cbn [be_enc].
  unfold be_dec in *. rewrite be_dec_from_app. cbn [be_dec_from].
  replace ((be_dec_from 0 l * 256 + x) / 256)%N with (be_dec_from 0 l) by lia.
  replace ((be_dec_from 0 l * 256 + x) mod 256)%N with x by lia.
  rewrite IH by assumption. reflexivity.
Qed.

Lemma be_dec_bound b : wf_bytes b -> (be_dec b < 256 ^ N.of_nat (length b))%N.
Proof.
  intros H. rewrite <- (be_enc_dec b H) at 1. rewrite be_dec_enc.
  apply N.mod_lt. apply N.pow_nonzero. lia.
Qed.

Theorem be_enc_injective k v w :
  (v < 256 ^ N.of_nat k)%N -> (w < 256 ^ N.of_nat k)%N -> be_enc k v = be_enc k w -> v = w.
Proof.
  intros Hv Hw H. apply (f_equal be_dec) in H. rewrite !be_dec_enc in H.
  rewrite !N.mod_small in H by assumption. assumption.
Qed.

(* ---- Go's integer conversions *)
Lemma u64_of_i64_bound z : (u64_of_i64 z < 256 ^ 8)%N.
Proof. unfold u64_of_i64, two64. change (256 ^ 8)%N with 18446744073709551616%N. lia. Qed.

Lemma i64_u64_roundtrip z : - two63 <= z < two63 -> i64_of_u64 (u64_of_i64 z) = z.
Proof.
  intros H. unfold i64_of_u64, u64_of_i64.
  rewrite Z2N.id by (unfold two64; lia).
  unfold wrap64. rewrite Z.mod_mod by (unfold two64; lia). exact (wrap64_small z H).
Qed.

Lemma i64_of_u64_range n : - two63 <= i64_of_u64 n < two63.
Proof. unfold i64_of_u64, wrap64, two63, two64. destruct (Z.ltb_spec (Z.of_N n mod 18446744073709551616) 9223372036854775808); lia. Qed.

Lemma u64_i64_roundtrip n : (n < 256 ^ 8)%N -> u64_of_i64 (i64_of_u64 n) = n.
Proof.
  change (256 ^ 8)%N with 18446744073709551616%N. intros H.
  unfold u64_of_i64, i64_of_u64, wrap64, two63, two64.
  destruct (Z.ltb_spec (Z.of_N n mod 18446744073709551616) 9223372036854775808); lia.
Qed.

Lemma u32_of_z_small z : 0 <= z < two32 -> u32_of_z z = Z.to_N z.
Proof. unfold u32_of_z, two32. intros H. rewrite Z.mod_small by lia. reflexivity. Qed.

Lemma u32_of_z_bound z : (u32_of_z z < 256 ^ 4)%N.
Proof. unfold u32_of_z, two32. change (256 ^ 4)%N with 4294967296%N. lia. Qed.

Lemma i32_u32_roundtrip z : - two31 <= z < two31 -> i32_of_u32 (u32_of_z z) = z.
Proof.
  unfold i32_of_u32, u32_of_z, two31, two32. intros H.
  rewrite Z2N.id by lia. rewrite Z.mod_mod by lia.
  destruct (Z.ltb_spec (z mod 4294967296) 2147483648); lia.
Qed.

Lemma u32_i32_roundtrip n : (n < 256 ^ 4)%N -> u32_of_z (i32_of_u32 n) = n.
Proof.
  change (256 ^ 4)%N with 4294967296%N. intros H.
  unfold i32_of_u32, u32_of_z, two31, two32.
  destruct (Z.ltb_spec (Z.of_N n mod 4294967296) 2147483648); lia.
Qed.

(* a 4-byte big-endian int32 field read back *)
Lemma be4_roundtrip z : - two31 <= z < two31 -> i32_of_u32 (be_dec (be_enc 4 (u32_of_z z))) = z.
Proof.
  intros H. rewrite be_dec_enc. rewrite N.mod_small by apply u32_of_z_bound.
  apply i32_u32_roundtrip. assumption.
Qed.

Lemma be8_roundtrip z : - two63 <= z < two63 -> i64_of_u64 (be_dec (be_enc 8 (u64_of_i64 z))) = z.
Proof.
  intros H. rewrite be_dec_enc. rewrite N.mod_small by apply u64_of_i64_bound.
  apply i64_u64_roundtrip. assumption.
Qed.

Lemma be2_roundtrip a : (a < 65536)%N -> be_dec (be_enc 2 a) = a.
Proof. intros H. rewrite be_dec_enc. apply N.mod_small. exact H. Qed.

(* ================================================================== messages *)
Lemma slice_mid (a b c : bytes) lo hi :
  len a = lo -> len b = hi - lo -> slice lo hi (a ++ b ++ c) = b.
Proof.
  unfold slice, len. intros Ha Hb. rewrite skipn_app_exact by lia. apply firstn_app_exact. lia.
Qed.

Definition clear_deferred (m : wmsg) : wmsg :=
  mkMsg (m_id m) (m_body m) (m_ts m) (m_attempts m) 0.

Lemma encode_msg_len m : length (m_id m) = id_len -> len (encode_msg m) = 26 + len (m_body m).
Proof.
  intros H. unfold encode_msg. rewrite !len_app. unfold len at 1 2 3. rewrite !be_enc_length, H.
  unfold id_len, nsqd_MsgIDLength. lia.
Qed.

(* decodeMessage inverts WriteTo on every well-formed message: any body bytes, any body
   length including 0, negative timestamps, every uint16 attempts value *)
Theorem decode_encode_msg m : wf_msg m -> decode_msg (encode_msg m) = DecOk (clear_deferred m).
Proof.
  intros (Hid & Hwid & Hwb & Hts & Hatt).
  unfold decode_msg. rewrite encode_msg_len by assumption.
  unfold nsqd_minValidMsgLength, wl_dec_body_lo, wl_dec_id, fst, snd.
  pose proof (len_nonneg (m_body m)) as Hb.
  destruct (Z.ltb_spec (26 + len (m_body m)) 26); [lia|].
  unfold clear_deferred. f_equal.
  set (A := be_enc 8 (u64_of_i64 (m_ts m))). set (B := be_enc 2 (m_attempts m)).
  assert (HA : len A = 8) by (unfold len, A; rewrite be_enc_length; reflexivity).
  assert (HB : len B = 2) by (unfold len, B; rewrite be_enc_length; reflexivity).
  assert (HI : len (m_id m) = 16) by (unfold len; rewrite Hid; reflexivity).
  assert (E1 : encode_msg m = [] ++ A ++ (B ++ m_id m ++ m_body m)) by reflexivity.
  assert (E2 : encode_msg m = A ++ B ++ (m_id m ++ m_body m)) by reflexivity.
  assert (E3 : encode_msg m = (A ++ B) ++ m_id m ++ m_body m)
    by (unfold encode_msg; fold A B; rewrite <- app_assoc; reflexivity).
  assert (E4 : encode_msg m = ((A ++ B) ++ m_id m) ++ m_body m)
    by (rewrite E3; rewrite <- (app_assoc (A ++ B)); reflexivity).
  f_equal.
  - rewrite E3. apply slice_mid; rewrite ?len_app; lia.
  - rewrite E4. apply skipn_app_exact. unfold len in *. rewrite !app_length. lia.
  - rewrite E1. rewrite slice_mid by (cbn; lia). apply be8_roundtrip. assumption.
  - rewrite E2. rewrite slice_mid by lia. apply be2_roundtrip. assumption.
Qed.

(* ... and refuses everything shorter than minValidMsgLength, without ever slicing out of range *)
Theorem decode_short b : len b < nsqd_minValidMsgLength -> decode_msg b = DecErr.
Proof. intros H. unfold decode_msg. destruct (Z.ltb_spec (len b) nsqd_minValidMsgLength); [reflexivity|lia]. Qed.

Theorem decode_long b : nsqd_minValidMsgLength <= len b -> exists m, decode_msg b = DecOk m.
Proof.
  intros H. unfold decode_msg. destruct (Z.ltb_spec (len b) nsqd_minValidMsgLength); [lia|].
  unfold nsqd_minValidMsgLength, wl_dec_body_lo in *.
  destruct (Z.ltb_spec (len b) 26); [lia|]. eexists. reflexivity.
Qed.

Theorem decode_never_panics b : decode_msg b <> DecPanic.
Proof.
  unfold decode_msg, nsqd_minValidMsgLength, wl_dec_body_lo.
  destruct (Z.ltb_spec (len b) 26); [discriminate|].
  destruct (Z.ltb_spec (len b) 26); [lia|discriminate].
Qed.

(* every record that decodes is the encoding of exactly the decoded message *)
Theorem encode_decode_msg b m : wf_bytes b -> decode_msg b = DecOk m -> encode_msg m = b /\ wf_msg m /\ m_deferred m = 0.
Proof.
  intros Hwf. unfold decode_msg, nsqd_minValidMsgLength, wl_dec_body_lo, wl_dec_id, fst, snd.
  destruct (Z.ltb_spec (len b) 26); [discriminate|].
  destruct (Z.ltb_spec (len b) 26); [lia|].
  intros Hd. inversion Hd; subst m; clear Hd. unfold len in *.
  unfold slice. change (Z.to_nat (8 - 0)) with 8%nat. change (Z.to_nat 0) with 0%nat.
  change (Z.to_nat (10 - 8)) with 2%nat. change (Z.to_nat 8) with 8%nat.
  change (Z.to_nat (26 - 10)) with 16%nat. change (Z.to_nat 10) with 10%nat. change (Z.to_nat 26) with 26%nat.
  change (skipn 0 b) with b.
  assert (L8 : length (firstn 8 b) = 8%nat) by (rewrite firstn_length_le; lia).
  assert (L2 : length (firstn 2 (skipn 8 b)) = 2%nat) by (rewrite firstn_length_le; [reflexivity|rewrite skipn_length; lia]).
  assert (L16 : length (firstn 16 (skipn 10 b)) = 16%nat) by (rewrite firstn_length_le; [reflexivity|rewrite skipn_length; lia]).
  assert (Eb : b = firstn 8 b ++ firstn 2 (skipn 8 b) ++ firstn 16 (skipn 10 b) ++ skipn 26 b).
  { rewrite <- (firstn_skipn 8 b) at 1. f_equal.
    rewrite <- (firstn_skipn 2 (skipn 8 b)) at 1. f_equal.
    rewrite skipn_skipn. change (2 + 8)%nat with 10%nat.
    rewrite <- (firstn_skipn 16 (skipn 10 b)) at 1. f_equal.
    rewrite skipn_skipn. reflexivity. }
  split; [|split; [|reflexivity]].
  - unfold encode_msg. cbv beta iota delta [m_ts m_attempts m_id m_body].
    rewrite u64_i64_roundtrip
      by (pose proof (be_dec_bound (firstn 8 b) (wf_firstn 8 b Hwf)) as Hb; rewrite L8 in Hb; exact Hb).
    pose proof (be_enc_dec (firstn 8 b) (wf_firstn 8 b Hwf)) as E8. rewrite L8 in E8. rewrite E8.
    pose proof (be_enc_dec (firstn 2 (skipn 8 b)) (wf_firstn 2 _ (wf_skipn 8 b Hwf))) as E2. rewrite L2 in E2. rewrite E2.
    etransitivity; [|symmetry; exact Eb]. reflexivity.
  - unfold wf_msg. cbv beta iota delta [m_ts m_attempts m_id m_body].
    split; [exact L16|]. split; [exact (wf_firstn 16 _ (wf_skipn 10 b Hwf))|]. split; [exact (wf_skipn 26 b Hwf)|].
    split; [apply i64_of_u64_range|].
    pose proof (be_dec_bound (firstn 2 (skipn 8 b)) (wf_firstn 2 _ (wf_skipn 8 b Hwf))) as Hb.
    rewrite L2 in Hb. exact Hb.
Qed.

Theorem encode_msg_injective m1 m2 :
  wf_msg m1 -> wf_msg m2 -> encode_msg m1 = encode_msg m2 -> clear_deferred m1 = clear_deferred m2.
Proof.
  intros H1 H2 E. apply (f_equal decode_msg) in E. rewrite !decode_encode_msg in E by assumption.
  inversion E. unfold clear_deferred. congruence.
Qed.

Lemma encode_msg_wf m : wf_msg m -> wf_bytes (encode_msg m).
Proof.
  intros (Hid & Hwid & Hwb & _). unfold encode_msg.
  apply wf_bytes_app; split; [apply be_enc_wf|]. apply wf_bytes_app; split; [apply be_enc_wf|].
  apply wf_bytes_app; split; assumption.
Qed.

(* ---- the body path: disk round trips, requeues, channel copies, deliveries *)
Definition same_envelope (m m' : wmsg) : Prop :=
  m_id m' = m_id m /\ m_body m' = m_body m /\ m_ts m' = m_ts m.

Lemma same_envelope_refl m : same_envelope m m.
Proof. repeat split. Qed.

Lemma same_envelope_trans a b c : same_envelope a b -> same_envelope b c -> same_envelope a c.
Proof. unfold same_envelope. intuition congruence. Qed.

Ltac psimpl := cbn [m_id m_body m_ts m_attempts m_deferred].

Lemma hop_preserves h m : wf_msg m ->
  exists m', apply_hop h m = DecOk m' /\ wf_msg m' /\ same_envelope m m'.
Proof.
  intros Hwf. pose proof Hwf as (Hid & Hwid & Hwb & Hts & Hatt).
  destruct h as [| |i| |d]; cbn [apply_hop].
  - exists m. auto using same_envelope_refl.
  - exists (clear_deferred m). unfold through_disk. rewrite decode_encode_msg by assumption.
    split; [reflexivity|]. split; [|repeat split]. unfold wf_msg, clear_deferred; psimpl. auto.
  - exists (channel_copy i m). split; [reflexivity|].
    destruct i; cbn [channel_copy]; [auto using same_envelope_refl|].
    split; [|repeat split]. unfold wf_msg; psimpl. repeat split; auto; lia.
  - exists (deliver m). split; [reflexivity|]. split; [|repeat split].
    unfold wf_msg, deliver; psimpl. repeat split; auto; lia.
  - exists m. auto using same_envelope_refl.
Qed.

(* whatever sequence of memory queues, disk queues (incl. restart), per-channel copies,
   deliveries and requeues a message goes through, it never fails to decode and its id,
   body and timestamp are those of the published message *)
Theorem path_preserves p : forall m, wf_msg m ->
  exists m', apply_path p m = DecOk m' /\ wf_msg m' /\ same_envelope m m'.
Proof.
  induction p as [|h r IH]; intros m Hwf; cbn [apply_path].
  - exists m. auto using same_envelope_refl.
  - destruct (hop_preserves h m Hwf) as (m1 & E1 & W1 & S1). rewrite E1.
    destruct (IH m1 W1) as (m2 & E2 & W2 & S2). exists m2.
    split; [assumption|]. split; [assumption|]. eapply same_envelope_trans; eassumption.
Qed.

Fixpoint no_copy (p : list hop) : Prop :=
  match p with
  | [] => True
  | HCopy (S _) :: _ => False
  | _ :: r => no_copy r
  end.

(* attempts is carried through disk and requeue and counts the deliveries (mod 2^16) *)
Theorem path_attempts p : forall m m', wf_msg m -> no_copy p -> apply_path p m = DecOk m' ->
  m_attempts m' = ((m_attempts m + deliveries p) mod 65536)%N.
Proof.
  induction p as [|h r IH]; intros m m' Hwf Hnc Hp; cbn [apply_path deliveries] in *.
  - inversion Hp; subst. destruct Hwf as (_ & _ & _ & _ & Ha). rewrite N.add_0_r, N.mod_small; auto.
  - destruct (hop_preserves h m Hwf) as (m1 & E1 & W1 & _). rewrite E1 in Hp.
    destruct h as [| |i| |d]; cbn [apply_hop] in E1.
    + inversion E1; subst. eapply IH; eauto.
    + unfold through_disk in E1. rewrite decode_encode_msg in E1 by assumption. inversion E1; subst.
      rewrite (IH _ _ W1 Hnc Hp). reflexivity.
    + destruct i; [|contradiction]. inversion E1; subst. eapply IH; eauto.
    + inversion E1; subst. rewrite (IH _ _ W1 Hnc Hp). unfold deliver; cbn [m_attempts].
      rewrite N.add_mod_idemp_l by lia. f_equal. lia.
    + inversion E1; subst. eapply IH; eauto.
Qed.

(* ================================================================== frames *)
Lemma rrun_app st a b :
  rrun st (a ++ b) =
  let '(st1, o1) := rrun st a in let '(st2, o2) := rrun st1 b in (st2, o1 ++ o2).
Proof.
  revert st. induction a as [|x a IH]; intros st; cbn [app rrun].
  - destruct (rrun st b). reflexivity.
  - destruct (rstep st x) as [s1 o1]. rewrite IH.
    destruct (rrun s1 a) as [s2 o2]. destruct (rrun s2 b) as [s3 o3]. rewrite app_assoc. reflexivity.
Qed.

(* the reader's result does not depend on how the byte stream is cut into reads *)
Theorem rrun_chunks_concat chunks : forall st, rrun_chunks st chunks = rrun st (concat chunks).
Proof.
  induction chunks as [|c r IH]; intros st; cbn [rrun_chunks concat]; [reflexivity|].
  rewrite rrun_app. destruct (rrun st c) as [s1 o1]. rewrite IH. reflexivity.
Qed.

Lemma rrun_hdr_partial s : forall acc, (length acc + length s < 4)%nat ->
  rrun (RHdr acc) s = (RHdr (acc ++ s), []).
Proof.
  induction s as [|x s IH]; intros acc H; cbn [rrun].
  - rewrite app_nil_r. reflexivity.
  - cbn [rstep]. cbn [length] in H.
    destruct (Nat.eqb_spec (length (acc ++ [x])) 4) as [E|_]; [rewrite app_length in E; cbn in E; lia|].
    rewrite IH by (rewrite app_length; cbn; lia). rewrite <- app_assoc. reflexivity.
Qed.

Lemma rrun_hdr_complete h rest : length h = 4%nat -> 0 < i32_of_u32 (be_dec h) ->
  rrun rinit (h ++ rest) = rrun (RBody (Z.to_nat (i32_of_u32 (be_dec h))) []) rest.
Proof.
  intros Hl Hpos.
  destruct h as [|a [|b [|c [|d [|]]]]]; try discriminate Hl.
  change ([a; b; c; d] ++ rest) with ([a; b; c] ++ d :: rest).
  unfold rinit. rewrite rrun_app. rewrite rrun_hdr_partial by (cbn; lia).
  cbn [app rrun rstep length Nat.eqb].
  destruct (Z.ltb_spec (i32_of_u32 (be_dec [a; b; c; d])) 0); [lia|].
  destruct (Z.eqb_spec (i32_of_u32 (be_dec [a; b; c; d])) 0); [lia|].
  destruct (rrun _ rest). reflexivity.
Qed.

Lemma rrun_cons st b r :
  rrun st (b :: r) = let '(st1, o1) := rstep st b in let '(st2, o2) := rrun st1 r in (st2, o1 ++ o2).
Proof. reflexivity. Qed.

Lemma rrun_body p : forall acc rest, p <> [] ->
  rrun (RBody (length p) acc) (p ++ rest) =
  let '(st1, o1) := finish_payload (acc ++ p) in
  let '(st2, o2) := rrun st1 rest in (st2, o1 ++ o2).
Proof.
  induction p as [|x p IH]; intros acc rest Hne; [congruence|].
  destruct p as [|y q].
  - cbn [length app]. rewrite rrun_cons. cbn [rstep]. reflexivity.
  - specialize (IH (acc ++ [x]) rest ltac:(discriminate)).
    change (length (x :: y :: q)) with (S (length (y :: q))).
    change ((x :: y :: q) ++ rest) with (x :: ((y :: q) ++ rest)).
    rewrite rrun_cons. change (rstep (RBody (S (length (y :: q))) acc) x) with (RBody (length (y :: q)) (acc ++ [x]), @nil (Z * bytes)).
    cbv beta iota. rewrite IH. rewrite <- app_assoc. cbn [app].
    destruct (finish_payload (acc ++ x :: y :: q)) as [s1 o1]. destruct (rrun s1 rest). reflexivity.
Qed.

Definition frame_ok (f : Z * bytes) : Prop :=
  - two31 <= fst f < two31 /\ wf_bytes (snd f) /\ len (snd f) + 4 < two31.

Definition frame_of (f : Z * bytes) : bytes := frame (fst f) (snd f).

(* one frame at the head of the stream is read back exactly, leaving the reader in its
   initial state in front of the rest of the stream -- whatever the data bytes are *)
Lemma rrun_frame f rest : frame_ok f ->
  rrun rinit (frame_of f ++ rest) = let '(st, o) := rrun rinit rest in (st, f :: o).
Proof.
  destruct f as [t d]. intros (Ht & Hwf & Hlen). cbn [fst snd] in *.
  unfold frame_of, frame. cbn [fst snd]. unfold wl_frame_extra.
  pose proof (len_nonneg d) as Hd.
  set (H4 := be_enc 4 (u32_of_z (len d + 4))). set (T4 := be_enc 4 (u32_of_z t)).
  assert (Hsz : i32_of_u32 (be_dec H4) = len d + 4)
    by (unfold H4; apply be4_roundtrip; unfold two31 in *; lia).
  rewrite <- app_assoc.
  rewrite rrun_hdr_complete; [|unfold H4; apply be_enc_length|rewrite Hsz; lia].
  rewrite Hsz.
  assert (Hpl : Z.to_nat (len d + 4) = length (T4 ++ d))
    by (unfold len, T4; rewrite app_length, be_enc_length; lia).
  rewrite Hpl. rewrite <- app_assoc. rewrite (app_assoc T4 d rest).
  rewrite rrun_body
    by (intros E; apply (f_equal (@length N)) in E; rewrite app_length in E; unfold T4 in E; rewrite be_enc_length in E; cbn in E; lia).
  cbn [app]. unfold finish_payload.
  assert (Hl4 : len (T4 ++ d) = 4 + len d) by (rewrite len_app; unfold len, T4; rewrite be_enc_length; lia).
  rewrite Hl4. destruct (Z.ltb_spec (4 + len d) 4); [lia|].
  rewrite firstn_app_exact by (unfold T4; apply be_enc_length).
  rewrite skipn_app_exact by (unfold T4; apply be_enc_length).
  unfold T4. rewrite be4_roundtrip by assumption.
  destruct (rrun rinit rest). reflexivity.
Qed.

(* unframe (frame t d) = (t, d) *)
Theorem unframe_frame f : frame_ok f -> rrun rinit (frame_of f) = (rinit, [f]).
Proof.
  intros H. rewrite <- (app_nil_r (frame_of f)). rewrite rrun_frame by assumption. reflexivity.
Qed.

(* STREAM: any sequence of frames written back to back is read back as the same sequence *)
Theorem stream_roundtrip fs : Forall frame_ok fs ->
  rrun rinit (flat_map frame_of fs) = (rinit, fs).
Proof.
  induction fs as [|f r IH]; intros H; [reflexivity|].
  inversion H; subst. cbn [flat_map]. rewrite rrun_frame by assumption. rewrite IH by assumption. reflexivity.
Qed.

(* ... however the byte stream is cut into chunks by the writer's buffer, flushes, the
   network and the reader's own buffer *)
Theorem stream_chunked fs chunks : Forall frame_ok fs ->
  concat chunks = flat_map frame_of fs ->
  rrun_chunks rinit chunks = (rinit, fs).
Proof. intros H E. rewrite rrun_chunks_concat, E. apply stream_roundtrip. assumption. Qed.

(* message frames: what the consumer decodes is the message that was sent *)
Lemma send_message_frame_ok m : wf_msg m -> len (m_body m) + 30 < two31 ->
  frame_ok (nsqd_frameTypeMessage, encode_msg m).
Proof.
  intros Hwf Hl. unfold frame_ok. cbn [fst snd]. split; [unfold nsqd_frameTypeMessage, two31; lia|].
  split; [apply encode_msg_wf; assumption|].
  destruct Hwf as (Hid & _). rewrite encode_msg_len by assumption. lia.
Qed.

Theorem recv_send_message m : wf_msg m -> len (m_body m) + 30 < two31 ->
  exists f, rrun rinit (send_message m) = (rinit, [f]) /\ recv_message f = DecOk (clear_deferred m).
Proof.
  intros Hwf Hl. exists (nsqd_frameTypeMessage, encode_msg m). split.
  - apply (unframe_frame (nsqd_frameTypeMessage, encode_msg m)). apply send_message_frame_ok; assumption.
  - unfold recv_message. cbn [fst snd]. rewrite Z.eqb_refl. apply decode_encode_msg. assumption.
Qed.

(* ---- transport: TLS / snappy / deflate / bufio are an arbitrary pair of functions with
   the single assumed law that what is read is the concatenation of what was written *)
Section Transport.
  Variable tx : list bytes -> bytes.        (* the writes (incl. flush points) -> bytes on the wire *)
  Variable rx : bytes -> list bytes.        (* bytes on the wire -> what successive Reads return *)
  Hypothesis codec_roundtrip : forall writes, concat (rx (tx writes)) = concat writes.

  Theorem transport_stream fs writes : Forall frame_ok fs ->
    concat writes = flat_map frame_of fs ->
    rrun_chunks rinit (rx (tx writes)) = (rinit, fs).
  Proof.
    intros H E. apply stream_chunked; [assumption|]. rewrite codec_roundtrip. assumption.
  Qed.
End Transport.
