(* Proofs about model/Wire.v (C07). *)
From Coq Require Import List NArith ZArith Bool Lia ZifyBool ZifyNat ZifyN.
From NSQV Require Import gen.Consts gen.WireLayout model.Judge model.Guid model.Relay model.Wire
  proofs.GuidProofs proofs.RelayProofs.
Import ListNotations.
Open Scope Z_scope.

(* ================================================================== lists *)
Lemma firstn_app_exact {A} (a r : list A) n : length a = n -> firstn n (a ++ r) = a.
Proof. intros <-. rewrite firstn_app, Nat.sub_diag, firstn_all. cbn. apply app_nil_r. Qed.

Lemma skipn_app_exact {A} (a r : list A) n : length a = n -> skipn n (a ++ r) = r.
Proof. intros <-. rewrite skipn_app, Nat.sub_diag, skipn_all. reflexivity. Qed.

Lemma skipn_skipn {A} x y (l : list A) : skipn x (skipn y l) = skipn (x + y) l.
Proof.
  revert l. induction y as [|y IH]; intros l.
  - rewrite Nat.add_0_r. reflexivity.
  - rewrite Nat.add_succ_r. destruct l as [|a l]; [rewrite !skipn_nil; reflexivity|]. cbn [skipn]. apply IH.
Qed.

Lemma wf_bytes_app a b : wf_bytes (a ++ b) <-> wf_bytes a /\ wf_bytes b.
Proof. unfold wf_bytes. apply Forall_app. Qed.

Lemma bytes_ok_wf l : bytes_ok l = true <-> wf_bytes l.
Proof.
  unfold bytes_ok, wf_bytes, byte_ok. rewrite forallb_forall, Forall_forall.
  split; intros H x Hx; specialize (H x Hx); lia.
Qed.

Lemma wf_firstn n l : wf_bytes l -> wf_bytes (firstn n l).
Proof. intros H. rewrite <- (firstn_skipn n l) in H. apply wf_bytes_app in H. tauto. Qed.

Lemma wf_skipn n l : wf_bytes l -> wf_bytes (skipn n l).
Proof. intros H. rewrite <- (firstn_skipn n l) in H. apply wf_bytes_app in H. tauto. Qed.

Lemma len_app a b : len (a ++ b) = len a + len b.
Proof. unfold len. rewrite app_length. lia. Qed.

Lemma len_nonneg a : 0 <= len a.
Proof. unfold len. lia. Qed.

Lemma firstn_short {A} n (l : list A) : (length (firstn n l) < n)%nat -> firstn n l = l.
Proof.
  intros H. destruct (Nat.le_gt_cases n (length l)) as [Hle|Hgt].
  - rewrite firstn_length_le in H by assumption. lia.
  - apply firstn_all2. lia.
Qed.

Lemma take_firstn l : forall n, take n l = firstn (Z.to_nat n) l.
Proof.
  induction l as [|x r IH]; intros n; cbn [take]; [rewrite firstn_nil; reflexivity|].
  destruct (Z.leb_spec n 0).
  - replace (Z.to_nat n) with 0%nat by lia. reflexivity.
  - replace (Z.to_nat n) with (S (Z.to_nat (n - 1))) by lia. cbn [firstn]. rewrite IH. reflexivity.
Qed.

Lemma drop_skipn l : forall n, drop n l = skipn (Z.to_nat n) l.
Proof.
  induction l as [|x r IH]; intros n; cbn [drop]; [rewrite skipn_nil; reflexivity|].
  destruct (Z.leb_spec n 0).
  - replace (Z.to_nat n) with 0%nat by lia. reflexivity.
  - replace (Z.to_nat n) with (S (Z.to_nat (n - 1))) by lia. cbn [skipn]. apply IH.
Qed.

Lemma take_drop n l : take n l ++ drop n l = l.
Proof. rewrite take_firstn, drop_skipn. apply firstn_skipn. Qed.

Lemma take_all n l : len l <= n -> take n l = l.
Proof. intros H. rewrite take_firstn. apply firstn_all2. unfold len in H. lia. Qed.

Lemma take_app_exact a r : take (len a) (a ++ r) = a.
Proof. rewrite take_firstn. apply firstn_app_exact. unfold len. lia. Qed.

Lemma drop_app_exact a r : drop (len a) (a ++ r) = r.
Proof. rewrite drop_skipn. apply skipn_app_exact. unfold len. lia. Qed.

Lemma wf_take n l : wf_bytes l -> wf_bytes (take n l).
Proof. rewrite take_firstn. apply wf_firstn. Qed.

(* ================================================================== big-endian integers *)
Ltac Zify.zify_post_hook ::= Z.div_mod_to_equations.

Lemma be_enc_length k : forall v, length (be_enc k v) = k.
Proof. induction k; intros v; cbn; [reflexivity|]. rewrite app_length, IHk. cbn. lia. Qed.

Lemma be_enc_wf k : forall v, wf_bytes (be_enc k v).
Proof.
  induction k; intros v; cbn; [constructor|].
  apply wf_bytes_app. split; [apply IHk|]. constructor; [|constructor]. lia.
Qed.

Lemma be_dec_from_app acc a b : be_dec_from acc (a ++ b) = be_dec_from (be_dec_from acc a) b.
Proof. revert acc. induction a; intros; cbn; auto. Qed.

Lemma be_dec_from_enc k : forall acc v,
  be_dec_from acc (be_enc k v) = (acc * 256 ^ N.of_nat k + v mod 256 ^ N.of_nat k)%N.
Proof.
  induction k; intros acc v.
  - cbn. rewrite N.mod_1_r. lia.
  - cbn [be_enc]. rewrite be_dec_from_app, IHk. cbn [be_dec_from].
    rewrite Nat2N.inj_succ, N.pow_succ_r'.
    assert (Hp : (256 ^ N.of_nat k <> 0)%N) by (apply N.pow_nonzero; lia).
    rewrite (N.mod_mul_r v 256 (256 ^ N.of_nat k)) by (assumption || lia).
    set (P := (256 ^ N.of_nat k)%N) in *. set (q := ((v / 256) mod P)%N). set (r := (v mod 256)%N).
    lia.
Qed.

(* decoding what was encoded gives the value modulo 256^k *)
Theorem be_dec_enc k v : be_dec (be_enc k v) = (v mod 256 ^ N.of_nat k)%N.
Proof. unfold be_dec. rewrite be_dec_from_enc. lia. Qed.

(* encoding what was decoded gives the bytes back *)
Theorem be_enc_dec b : wf_bytes b -> be_enc (length b) (be_dec b) = b.
Proof.
  induction b as [|x l IH] using rev_ind; intros H; [reflexivity|].
  apply wf_bytes_app in H. destruct H as [Hl Hx]. inversion Hx as [|? ? Hx256 _]; subst.
  rewrite app_length. cbn [length]. rewrite Nat.add_1_r. cbn [be_enc].
  unfold be_dec in *. rewrite be_dec_from_app. cbn [be_dec_from].
  replace ((be_dec_from 0 l * 256 + x) / 256)%N with (be_dec_from 0 l) by lia.
  replace ((be_dec_from 0 l * 256 + x) mod 256)%N with x by lia.
  rewrite IH by assumption. reflexivity.
Qed.

Lemma be_dec_bound b : wf_bytes b -> (be_dec b < 256 ^ N.of_nat (length b))%N.
Proof.
  intros H. rewrite <- (be_enc_dec b H) at 1. rewrite be_dec_enc.
  apply N.mod_lt. apply N.pow_nonzero. lia.
Qed.

Theorem be_enc_injective k v w :
  (v < 256 ^ N.of_nat k)%N -> (w < 256 ^ N.of_nat k)%N -> be_enc k v = be_enc k w -> v = w.
Proof.
  intros Hv Hw H. apply (f_equal be_dec) in H. rewrite !be_dec_enc in H.
  rewrite !N.mod_small in H by assumption. assumption.
Qed.

(* ---- Go's integer conversions *)
Lemma u64_of_i64_bound z : (u64_of_i64 z < 256 ^ 8)%N.
Proof. unfold u64_of_i64, two64. change (256 ^ 8)%N with 18446744073709551616%N. lia. Qed.

Lemma i64_u64_roundtrip z : - two63 <= z < two63 -> i64_of_u64 (u64_of_i64 z) = z.
Proof.
  intros H. unfold i64_of_u64, u64_of_i64.
  rewrite Z2N.id by (unfold two64; lia).
  unfold wrap64. rewrite Z.mod_mod by (unfold two64; lia). exact (wrap64_small z H).
Qed.

Lemma i64_of_u64_range n : - two63 <= i64_of_u64 n < two63.
Proof. unfold i64_of_u64, wrap64, two63, two64. destruct (Z.ltb_spec (Z.of_N n mod 18446744073709551616) 9223372036854775808); lia. Qed.

Lemma u64_i64_roundtrip n : (n < 256 ^ 8)%N -> u64_of_i64 (i64_of_u64 n) = n.
Proof.
  change (256 ^ 8)%N with 18446744073709551616%N. intros H.
  unfold u64_of_i64, i64_of_u64, wrap64, two63, two64.
  destruct (Z.ltb_spec (Z.of_N n mod 18446744073709551616) 9223372036854775808); lia.
Qed.

Lemma u32_of_z_small z : 0 <= z < two32 -> u32_of_z z = Z.to_N z.
Proof. unfold u32_of_z, two32. intros H. rewrite Z.mod_small by lia. reflexivity. Qed.

Lemma u32_of_z_bound z : (u32_of_z z < 256 ^ 4)%N.
Proof. unfold u32_of_z, two32. change (256 ^ 4)%N with 4294967296%N. lia. Qed.

Lemma i32_u32_roundtrip z : - two31 <= z < two31 -> i32_of_u32 (u32_of_z z) = z.
Proof.
  unfold i32_of_u32, u32_of_z, two31, two32. intros H.
  rewrite Z2N.id by lia. rewrite Z.mod_mod by lia.
  destruct (Z.ltb_spec (z mod 4294967296) 2147483648); lia.
Qed.

Lemma u32_i32_roundtrip n : (n < 256 ^ 4)%N -> u32_of_z (i32_of_u32 n) = n.
Proof.
  change (256 ^ 4)%N with 4294967296%N. intros H.
  unfold i32_of_u32, u32_of_z, two31, two32.
  destruct (Z.ltb_spec (Z.of_N n mod 4294967296) 2147483648); lia.
Qed.

(* a 4-byte big-endian int32 field read back *)
Lemma be4_roundtrip z : - two31 <= z < two31 -> i32_of_u32 (be_dec (be_enc 4 (u32_of_z z))) = z.
Proof.
  intros H. rewrite be_dec_enc. rewrite N.mod_small by apply u32_of_z_bound.
  apply i32_u32_roundtrip. assumption.
Qed.

Lemma be8_roundtrip z : - two63 <= z < two63 -> i64_of_u64 (be_dec (be_enc 8 (u64_of_i64 z))) = z.
Proof.
  intros H. rewrite be_dec_enc. rewrite N.mod_small by apply u64_of_i64_bound.
  apply i64_u64_roundtrip. assumption.
Qed.

Lemma be2_roundtrip a : (a < 65536)%N -> be_dec (be_enc 2 a) = a.
Proof. intros H. rewrite be_dec_enc. apply N.mod_small. exact H. Qed.

(* ================================================================== messages *)
Lemma slice_mid (a b c : bytes) lo hi :
  len a = lo -> len b = hi - lo -> slice lo hi (a ++ b ++ c) = b.
Proof.
  unfold slice, len. intros Ha Hb. rewrite skipn_app_exact by lia. apply firstn_app_exact. lia.
Qed.

Definition clear_deferred (m : wmsg) : wmsg :=
  mkMsg (m_id m) (m_body m) (m_ts m) (m_attempts m) 0.

Lemma encode_msg_len m : length (m_id m) = id_len -> len (encode_msg m) = 26 + len (m_body m).
Proof.
  intros H. unfold encode_msg. rewrite !len_app. unfold len at 1 2 3. rewrite !be_enc_length, H.
  unfold id_len, nsqd_MsgIDLength. lia.
Qed.

(* decodeMessage inverts WriteTo on every well-formed message: any body bytes, any body
   length including 0, negative timestamps, every uint16 attempts value *)
Theorem decode_encode_msg m : wf_msg m -> decode_msg (encode_msg m) = DecOk (clear_deferred m).
Proof.
  intros (Hid & Hwid & Hwb & Hts & Hatt).
  unfold decode_msg. rewrite encode_msg_len by assumption.
  unfold nsqd_minValidMsgLength, wl_dec_body_lo, wl_dec_id, fst, snd.
  pose proof (len_nonneg (m_body m)) as Hb.
  destruct (Z.ltb_spec (26 + len (m_body m)) 26); [lia|].
  unfold clear_deferred. f_equal.
  set (A := be_enc 8 (u64_of_i64 (m_ts m))). set (B := be_enc 2 (m_attempts m)).
  assert (HA : len A = 8) by (unfold len, A; rewrite be_enc_length; reflexivity).
  assert (HB : len B = 2) by (unfold len, B; rewrite be_enc_length; reflexivity).
  assert (HI : len (m_id m) = 16) by (unfold len; rewrite Hid; reflexivity).
  assert (E1 : encode_msg m = [] ++ A ++ (B ++ m_id m ++ m_body m)) by reflexivity.
  assert (E2 : encode_msg m = A ++ B ++ (m_id m ++ m_body m)) by reflexivity.
  assert (E3 : encode_msg m = (A ++ B) ++ m_id m ++ m_body m)
    by (unfold encode_msg; fold A B; rewrite <- app_assoc; reflexivity).
  assert (E4 : encode_msg m = ((A ++ B) ++ m_id m) ++ m_body m)
    by (rewrite E3; rewrite <- (app_assoc (A ++ B)); reflexivity).
  f_equal.
  - rewrite E3. apply slice_mid; rewrite ?len_app; lia.
  - rewrite E4. apply skipn_app_exact. unfold len in *. rewrite !app_length. lia.
  - rewrite E1. rewrite slice_mid by (cbn; lia). apply be8_roundtrip. assumption.
  - rewrite E2. rewrite slice_mid by lia. apply be2_roundtrip. assumption.
Qed.

(* ... and refuses everything shorter than minValidMsgLength, without ever slicing out of range *)
Theorem decode_short b : len b < nsqd_minValidMsgLength -> decode_msg b = DecErr.
Proof. intros H. unfold decode_msg. destruct (Z.ltb_spec (len b) nsqd_minValidMsgLength); [reflexivity|lia]. Qed.

Theorem decode_long b : nsqd_minValidMsgLength <= len b -> exists m, decode_msg b = DecOk m.
Proof.
  intros H. unfold decode_msg. destruct (Z.ltb_spec (len b) nsqd_minValidMsgLength); [lia|].
  unfold nsqd_minValidMsgLength, wl_dec_body_lo in *.
  destruct (Z.ltb_spec (len b) 26); [lia|]. eexists. reflexivity.
Qed.

Theorem decode_never_panics b : decode_msg b <> DecPanic.
Proof.
  unfold decode_msg, nsqd_minValidMsgLength, wl_dec_body_lo.
  destruct (Z.ltb_spec (len b) 26); [discriminate|].
  destruct (Z.ltb_spec (len b) 26); [lia|discriminate].
Qed.

(* every record that decodes is the encoding of exactly the decoded message *)
Theorem encode_decode_msg b m : wf_bytes b -> decode_msg b = DecOk m -> encode_msg m = b /\ wf_msg m /\ m_deferred m = 0.
Proof.
  intros Hwf. unfold decode_msg, nsqd_minValidMsgLength, wl_dec_body_lo, wl_dec_id, fst, snd.
  destruct (Z.ltb_spec (len b) 26); [discriminate|].
  destruct (Z.ltb_spec (len b) 26); [lia|].
  intros Hd. inversion Hd; subst m; clear Hd. unfold len in *.
  unfold slice. change (Z.to_nat (8 - 0)) with 8%nat. change (Z.to_nat 0) with 0%nat.
  change (Z.to_nat (10 - 8)) with 2%nat. change (Z.to_nat 8) with 8%nat.
  change (Z.to_nat (26 - 10)) with 16%nat. change (Z.to_nat 10) with 10%nat. change (Z.to_nat 26) with 26%nat.
  change (skipn 0 b) with b.
  assert (L8 : length (firstn 8 b) = 8%nat) by (rewrite firstn_length_le; lia).
  assert (L2 : length (firstn 2 (skipn 8 b)) = 2%nat) by (rewrite firstn_length_le; [reflexivity|rewrite skipn_length; lia]).
  assert (L16 : length (firstn 16 (skipn 10 b)) = 16%nat) by (rewrite firstn_length_le; [reflexivity|rewrite skipn_length; lia]).
  assert (Eb : b = firstn 8 b ++ firstn 2 (skipn 8 b) ++ firstn 16 (skipn 10 b) ++ skipn 26 b).
  { rewrite <- (firstn_skipn 8 b) at 1. f_equal.
    rewrite <- (firstn_skipn 2 (skipn 8 b)) at 1. f_equal.
    rewrite skipn_skipn. change (2 + 8)%nat with 10%nat.
    rewrite <- (firstn_skipn 16 (skipn 10 b)) at 1. f_equal.
    rewrite skipn_skipn. reflexivity. }
  split; [|split; [|reflexivity]].
  - unfold encode_msg. cbv beta iota delta [m_ts m_attempts m_id m_body].
    rewrite u64_i64_roundtrip
      by (pose proof (be_dec_bound (firstn 8 b) (wf_firstn 8 b Hwf)) as Hb; rewrite L8 in Hb; exact Hb).
    pose proof (be_enc_dec (firstn 8 b) (wf_firstn 8 b Hwf)) as E8. rewrite L8 in E8. rewrite E8.
    pose proof (be_enc_dec (firstn 2 (skipn 8 b)) (wf_firstn 2 _ (wf_skipn 8 b Hwf))) as E2. rewrite L2 in E2. rewrite E2.
    etransitivity; [|symmetry; exact Eb]. reflexivity.
  - unfold wf_msg. cbv beta iota delta [m_ts m_attempts m_id m_body].
    split; [exact L16|]. split; [exact (wf_firstn 16 _ (wf_skipn 10 b Hwf))|]. split; [exact (wf_skipn 26 b Hwf)|].
    split; [apply i64_of_u64_range|].
    pose proof (be_dec_bound (firstn 2 (skipn 8 b)) (wf_firstn 2 _ (wf_skipn 8 b Hwf))) as Hb.
    rewrite L2 in Hb. exact Hb.
Qed.

Theorem encode_msg_injective m1 m2 :
  wf_msg m1 -> wf_msg m2 -> encode_msg m1 = encode_msg m2 -> clear_deferred m1 = clear_deferred m2.
Proof.
  intros H1 H2 E. apply (f_equal decode_msg) in E. rewrite !decode_encode_msg in E by assumption.
  inversion E. unfold clear_deferred. congruence.
Qed.

Theorem encode_msg_injective_fields m1 m2 : wf_msg m1 -> wf_msg m2 ->
  encode_msg m1 = encode_msg m2 ->
  m_id m1 = m_id m2 /\ m_body m1 = m_body m2 /\ m_ts m1 = m_ts m2 /\ m_attempts m1 = m_attempts m2.
Proof.
  intros H1 H2 E. pose proof (encode_msg_injective m1 m2 H1 H2 E) as H.
  unfold clear_deferred in H. inversion H. auto.
Qed.

Lemma encode_msg_wf m : wf_msg m -> wf_bytes (encode_msg m).
Proof.
  intros (Hid & Hwid & Hwb & _). unfold encode_msg.
  apply wf_bytes_app; split; [apply be_enc_wf|]. apply wf_bytes_app; split; [apply be_enc_wf|].
  apply wf_bytes_app; split; assumption.
Qed.

(* ---- the body path: disk round trips, requeues, channel copies, deliveries *)
Definition same_envelope (m m' : wmsg) : Prop :=
  m_id m' = m_id m /\ m_body m' = m_body m /\ m_ts m' = m_ts m.

Lemma same_envelope_refl m : same_envelope m m.
Proof. repeat split. Qed.

Lemma same_envelope_trans a b c : same_envelope a b -> same_envelope b c -> same_envelope a c.
Proof. unfold same_envelope. intuition congruence. Qed.

Ltac psimpl := cbn [m_id m_body m_ts m_attempts m_deferred].

Lemma hop_preserves h m : wf_msg m ->
  exists m', apply_hop h m = DecOk m' /\ wf_msg m' /\ same_envelope m m'.
Proof.
  intros Hwf. pose proof Hwf as (Hid & Hwid & Hwb & Hts & Hatt).
  destruct h as [| |i| |d]; cbn [apply_hop].
  - exists m. auto using same_envelope_refl.
  - exists (clear_deferred m). unfold through_disk. rewrite decode_encode_msg by assumption.
    split; [reflexivity|]. split; [|repeat split]. unfold wf_msg, clear_deferred; psimpl. auto.
  - exists (channel_copy i m). split; [reflexivity|].
    destruct i; cbn [channel_copy]; [auto using same_envelope_refl|].
    split; [|repeat split]. unfold wf_msg; psimpl. repeat split; auto; lia.
  - exists (deliver m). split; [reflexivity|]. split; [|repeat split].
    unfold wf_msg, deliver; psimpl. repeat split; auto; lia.
  - exists m. auto using same_envelope_refl.
Qed.

(* whatever sequence of memory queues, disk queues (incl. restart), per-channel copies,
   deliveries and requeues a message goes through, it never fails to decode and its id,
   body and timestamp are those of the published message *)
Theorem path_preserves p : forall m, wf_msg m ->
  exists m', apply_path p m = DecOk m' /\ wf_msg m' /\ same_envelope m m'.
Proof.
  induction p as [|h r IH]; intros m Hwf; cbn [apply_path].
  - exists m. auto using same_envelope_refl.
  - destruct (hop_preserves h m Hwf) as (m1 & E1 & W1 & S1). rewrite E1.
    destruct (IH m1 W1) as (m2 & E2 & W2 & S2). exists m2.
    split; [assumption|]. split; [assumption|]. eapply same_envelope_trans; eassumption.
Qed.

Fixpoint no_copy (p : list hop) : Prop :=
  match p with
  | [] => True
  | HCopy (S _) :: _ => False
  | _ :: r => no_copy r
  end.

(* attempts is carried through disk and requeue and counts the deliveries (mod 2^16) *)
Theorem path_attempts p : forall m m', wf_msg m -> no_copy p -> apply_path p m = DecOk m' ->
  m_attempts m' = ((m_attempts m + deliveries p) mod 65536)%N.
Proof.
  induction p as [|h r IH]; intros m m' Hwf Hnc Hp; cbn [apply_path deliveries] in *.
  - inversion Hp; subst. destruct Hwf as (_ & _ & _ & _ & Ha). rewrite N.add_0_r, N.mod_small; auto.
  - destruct (hop_preserves h m Hwf) as (m1 & E1 & W1 & _). rewrite E1 in Hp.
    destruct h as [| |i| |d]; cbn [apply_hop] in E1.
    + inversion E1; subst. eapply IH; eauto.
    + unfold through_disk in E1. rewrite decode_encode_msg in E1 by assumption. inversion E1; subst.
      rewrite (IH _ _ W1 Hnc Hp). reflexivity.
    + destruct i; [|contradiction]. inversion E1; subst. eapply IH; eauto.
    + inversion E1; subst. rewrite (IH _ _ W1 Hnc Hp). unfold deliver; cbn [m_attempts].
      rewrite N.add_mod_idemp_l by lia. f_equal. lia.
    + inversion E1; subst. eapply IH; eauto.
Qed.

(* ================================================================== frames *)
Lemma rrun_app st a b :
  rrun st (a ++ b) =
  let '(st1, o1) := rrun st a in let '(st2, o2) := rrun st1 b in (st2, o1 ++ o2).
Proof.
  revert st. induction a as [|x a IH]; intros st; cbn [app rrun].
  - destruct (rrun st b). reflexivity.
  - destruct (rstep st x) as [s1 o1]. rewrite IH.
    destruct (rrun s1 a) as [s2 o2]. destruct (rrun s2 b) as [s3 o3]. rewrite app_assoc. reflexivity.
Qed.

(* the reader's result does not depend on how the byte stream is cut into reads *)
Theorem rrun_chunks_concat chunks : forall st, rrun_chunks st chunks = rrun st (concat chunks).
Proof.
  induction chunks as [|c r IH]; intros st; cbn [rrun_chunks concat]; [reflexivity|].
  rewrite rrun_app. destruct (rrun st c) as [s1 o1]. rewrite IH. reflexivity.
Qed.

Lemma rrun_hdr_partial s : forall acc, (length acc + length s < 4)%nat ->
  rrun (RHdr acc) s = (RHdr (acc ++ s), []).
Proof.
  induction s as [|x s IH]; intros acc H; cbn [rrun].
  - rewrite app_nil_r. reflexivity.
  - cbn [rstep]. cbn [length] in H.
    destruct (Nat.eqb_spec (length (acc ++ [x])) 4) as [E|_]; [rewrite app_length in E; cbn in E; lia|].
    rewrite IH by (rewrite app_length; cbn; lia). rewrite <- app_assoc. reflexivity.
Qed.

Lemma rrun_hdr_complete h rest : length h = 4%nat -> 0 < i32_of_u32 (be_dec h) ->
  rrun rinit (h ++ rest) = rrun (RBody (i32_of_u32 (be_dec h)) []) rest.
Proof.
  intros Hl Hpos.
  destruct h as [|a [|b [|c [|d [|]]]]]; try discriminate Hl.
  change ([a; b; c; d] ++ rest) with ([a; b; c] ++ d :: rest).
  unfold rinit. rewrite rrun_app. rewrite rrun_hdr_partial by (cbn; lia).
  cbn [app rrun rstep length Nat.eqb].
  destruct (Z.ltb_spec (i32_of_u32 (be_dec [a; b; c; d])) 0); [lia|].
  destruct (Z.eqb_spec (i32_of_u32 (be_dec [a; b; c; d])) 0); [lia|].
  destruct (rrun _ rest). reflexivity.
Qed.

Lemma rrun_cons st b r :
  rrun st (b :: r) = let '(st1, o1) := rstep st b in let '(st2, o2) := rrun st1 r in (st2, o1 ++ o2).
Proof. reflexivity. Qed.

Lemma rrun_body p : forall racc rest, p <> [] ->
  rrun (RBody (len p) racc) (p ++ rest) =
  let '(st1, o1) := finish_payload (rev racc ++ p) in
  let '(st2, o2) := rrun st1 rest in (st2, o1 ++ o2).
Proof.
  induction p as [|x p IH]; intros racc rest Hne; [congruence|].
  destruct p as [|y q].
  - cbn [app]. rewrite rrun_cons. cbn [rstep]. change (len [x]) with 1. cbn [Z.leb Z.compare Pos.compare Pos.compare_cont].
    cbn [rev]. reflexivity.
  - specialize (IH (x :: racc) rest ltac:(discriminate)).
    change ((x :: y :: q) ++ rest) with (x :: ((y :: q) ++ rest)).
    rewrite rrun_cons. cbn [rstep].
    assert (Hl : len (x :: y :: q) = len (y :: q) + 1) by (unfold len; cbn [length]; lia).
    pose proof (len_nonneg q) as Hq. assert (Hl2 : len (y :: q) = len q + 1) by (unfold len; cbn [length]; lia).
    destruct (Z.leb_spec (len (x :: y :: q)) 1); [lia|].
    replace (len (x :: y :: q) - 1) with (len (y :: q)) by lia.
    rewrite IH. cbn [rev]. rewrite <- app_assoc. cbn [app].
    destruct (finish_payload (rev racc ++ x :: y :: q)) as [s1 o1]. destruct (rrun s1 rest). reflexivity.
Qed.

Definition frame_ok (f : Z * bytes) : Prop :=
  - two31 <= fst f < two31 /\ wf_bytes (snd f) /\ len (snd f) + 4 < two31.

Definition frame_of (f : Z * bytes) : bytes := frame (fst f) (snd f).

(* one frame at the head of the stream is read back exactly, leaving the reader in its
   initial state in front of the rest of the stream -- whatever the data bytes are *)
Lemma rrun_frame f rest : frame_ok f ->
  rrun rinit (frame_of f ++ rest) = let '(st, o) := rrun rinit rest in (st, f :: o).
Proof.
  destruct f as [t d]. intros (Ht & Hwf & Hlen). cbn [fst snd] in *.
  unfold frame_of, frame. cbn [fst snd]. unfold wl_frame_extra.
  pose proof (len_nonneg d) as Hd.
  set (H4 := be_enc 4 (u32_of_z (len d + 4))). set (T4 := be_enc 4 (u32_of_z t)).
  assert (Hsz : i32_of_u32 (be_dec H4) = len d + 4)
    by (unfold H4; apply be4_roundtrip; unfold two31 in *; lia).
  rewrite <- app_assoc.
  rewrite rrun_hdr_complete; [|unfold H4; apply be_enc_length|rewrite Hsz; lia].
  rewrite Hsz.
  assert (Hpl : len d + 4 = len (T4 ++ d))
    by (unfold len, T4; rewrite app_length, be_enc_length; lia).
  rewrite Hpl. rewrite <- app_assoc. rewrite (app_assoc T4 d rest).
  rewrite rrun_body
    by (intros E; apply (f_equal (@length N)) in E; rewrite app_length in E; unfold T4 in E; rewrite be_enc_length in E; cbn in E; lia).
  cbn [rev app]. unfold finish_payload.
  assert (Hl4 : len (T4 ++ d) = 4 + len d) by (rewrite len_app; unfold len, T4; rewrite be_enc_length; lia).
  rewrite Hl4. destruct (Z.ltb_spec (4 + len d) 4); [lia|].
  rewrite firstn_app_exact by (unfold T4; apply be_enc_length).
  rewrite skipn_app_exact by (unfold T4; apply be_enc_length).
  unfold T4. rewrite be4_roundtrip by assumption.
  destruct (rrun rinit rest). reflexivity.
Qed.

(* unframe (frame t d) = (t, d) *)
Theorem unframe_frame f : frame_ok f -> rrun rinit (frame_of f) = (rinit, [f]).
Proof.
  intros H. rewrite <- (app_nil_r (frame_of f)). rewrite rrun_frame by assumption. reflexivity.
Qed.

(* STREAM: any sequence of frames written back to back is read back as the same sequence *)
Theorem stream_roundtrip fs : Forall frame_ok fs ->
  rrun rinit (flat_map frame_of fs) = (rinit, fs).
Proof.
  induction fs as [|f r IH]; intros H; [reflexivity|].
  inversion H; subst. cbn [flat_map]. rewrite rrun_frame by assumption. rewrite IH by assumption. reflexivity.
Qed.

(* ... however the byte stream is cut into chunks by the writer's buffer, flushes, the
   network and the reader's own buffer *)
Theorem stream_chunked fs chunks : Forall frame_ok fs ->
  concat chunks = flat_map frame_of fs ->
  rrun_chunks rinit chunks = (rinit, fs).
Proof. intros H E. rewrite rrun_chunks_concat, E. apply stream_roundtrip. assumption. Qed.

(* message frames: what the consumer decodes is the message that was sent *)
Lemma send_message_frame_ok m : wf_msg m -> len (m_body m) + 30 < two31 ->
  frame_ok (nsqd_frameTypeMessage, encode_msg m).
Proof.
  intros Hwf Hl. unfold frame_ok. cbn [fst snd]. split; [unfold nsqd_frameTypeMessage, two31; lia|].
  split; [apply encode_msg_wf; assumption|].
  destruct Hwf as (Hid & _). rewrite encode_msg_len by assumption. lia.
Qed.

Theorem recv_send_message m : wf_msg m -> len (m_body m) + 30 < two31 ->
  exists f, rrun rinit (send_message m) = (rinit, [f]) /\ recv_message f = DecOk (clear_deferred m).
Proof.
  intros Hwf Hl. exists (nsqd_frameTypeMessage, encode_msg m). split.
  - apply (unframe_frame (nsqd_frameTypeMessage, encode_msg m)). apply send_message_frame_ok; assumption.
  - unfold recv_message. cbn [fst snd]. rewrite Z.eqb_refl. apply decode_encode_msg. assumption.
Qed.

(* ---- transport: TLS / snappy / deflate / bufio are an arbitrary pair of functions with
   the single assumed law that what is read is the concatenation of what was written *)
Section Transport.
  Variable tx : list bytes -> bytes.        (* the writes (incl. flush points) -> bytes on the wire *)
  Variable rx : bytes -> list bytes.        (* bytes on the wire -> what successive Reads return *)
  Hypothesis codec_roundtrip : forall writes, concat (rx (tx writes)) = concat writes.

  Theorem transport_stream fs writes : Forall frame_ok fs ->
    concat writes = flat_map frame_of fs ->
    rrun_chunks rinit (rx (tx writes)) = (rinit, fs).
  Proof.
    intros H E. apply stream_chunked; [assumption|]. rewrite codec_roundtrip. assumption.
  Qed.

  (* END TO END for one delivery: a published message that has gone through any sequence
     of queues / copies / requeues / earlier deliveries, sent between any other frames
     (responses, heartbeats, other messages) over any transport, is decoded by the
     consumer with the id, body and timestamp of the publish *)
  Theorem end_to_end m p before after writes :
    wf_msg m -> len (m_body m) + 30 < two31 ->
    Forall frame_ok before -> Forall frame_ok after ->
    exists m',
      apply_path p m = DecOk m' /\
      (concat writes = flat_map frame_of (before ++ [(nsqd_frameTypeMessage, encode_msg m')] ++ after) ->
       exists f, rrun_chunks rinit (rx (tx writes)) = (rinit, before ++ [f] ++ after) /\
                 exists got, recv_message f = DecOk got /\ same_envelope m got /\
                             m_attempts got = m_attempts m').
  Proof.
    intros Hwf Hl Hb Ha. destruct (path_preserves p m Hwf) as (m' & Ep & Wm' & Sm').
    exists m'. split; [assumption|]. intros Ew.
    exists (nsqd_frameTypeMessage, encode_msg m').
    assert (Hf : frame_ok (nsqd_frameTypeMessage, encode_msg m')).
    { apply send_message_frame_ok; [assumption|]. destruct Sm' as (_ & -> & _). assumption. }
    split.
    - apply transport_stream; [|assumption].
      apply Forall_app. split; [assumption|]. apply Forall_app. split; [|assumption]. constructor; [assumption|constructor].
    - exists (clear_deferred m'). unfold recv_message. cbn [fst snd]. rewrite Z.eqb_refl.
      split; [apply decode_encode_msg; assumption|]. split; [|reflexivity].
      unfold same_envelope, clear_deferred in *. cbn [m_id m_body m_ts]. assumption.
  Qed.
End Transport.

(* ================================================================== PUB / MPUB bodies *)
Lemma read_len_enc n rest : - two31 <= n < two31 ->
  read_len (be_enc 4 (u32_of_z n) ++ rest) = Some (n, rest).
Proof.
  intros H. unfold read_len. rewrite len_app. unfold len at 1. rewrite be_enc_length.
  pose proof (len_nonneg rest). destruct (Z.ltb_spec (Z.of_nat 4 + len rest) 4); [lia|].
  rewrite firstn_app_exact, skipn_app_exact by apply be_enc_length.
  rewrite be4_roundtrip by assumption. reflexivity.
Qed.

Lemma read_full_app b rest : read_full (len b) (b ++ rest) = Some (b, rest).
Proof.
  unfold read_full. rewrite len_app. pose proof (len_nonneg rest).
  destruct (Z.ltb_spec (len b + len rest) (len b)); [lia|].
  unfold len. rewrite Nat2Z.id. rewrite firstn_app_exact, skipn_app_exact by reflexivity. reflexivity.
Qed.

Lemma read_len_inv s n s1 : wf_bytes s -> read_len s = Some (n, s1) ->
  s = be_enc 4 (u32_of_z n) ++ s1 /\ - two31 <= n < two31 /\ len s = 4 + len s1.
Proof.
  intros Hwf. unfold read_len. destruct (Z.ltb_spec (len s) 4); [discriminate|]. intros E.
  assert (E' : n = i32_of_u32 (be_dec (firstn 4 s)) /\ s1 = skipn 4 s) by (split; congruence).
  clear E. destruct E' as [-> ->].
  assert (L4 : length (firstn 4 s) = 4%nat) by (rewrite firstn_length_le; unfold len in *; lia).
  pose proof (be_dec_bound _ (wf_firstn 4 s Hwf)) as Hb. rewrite L4 in Hb.
  split; [|split].
  - rewrite u32_i32_roundtrip by exact Hb.
    pose proof (be_enc_dec _ (wf_firstn 4 s Hwf)) as E. rewrite L4 in E. rewrite E.
    symmetry. apply firstn_skipn.
  - unfold i32_of_u32, two31, two32. destruct (Z.ltb_spec (Z.of_N (be_dec (firstn 4 s)) mod 4294967296) 2147483648); lia.
  - unfold len in *. rewrite skipn_length. lia.
Qed.

Lemma read_full_inv n s b s2 : 0 <= n -> read_full n s = Some (b, s2) -> s = b ++ s2 /\ len b = n.
Proof.
  intros Hn. unfold read_full. destruct (Z.ltb_spec (len s) n); [discriminate|]. intros E.
  assert (E' : b = firstn (Z.to_nat n) s /\ s2 = skipn (Z.to_nat n) s) by (split; congruence).
  clear E. destruct E' as [-> ->].
  split; [symmetry; apply firstn_skipn|]. unfold len in *. rewrite firstn_length_le; lia.
Qed.

Definition body_ok (max_msg : Z) (b : bytes) : Prop := 1 <= len b <= max_msg /\ len b < two31.

Lemma encode_pub_body_len b : len (encode_pub_body b) = 4 + len b.
Proof. unfold encode_pub_body. rewrite len_app. unfold len at 1. rewrite be_enc_length. lia. Qed.

(* PUB / DPUB body *)
Theorem read_pub_body_encode max_msg b rest : body_ok max_msg b ->
  read_pub_body max_msg (encode_pub_body b ++ rest) = RdOk b rest.
Proof.
  intros ((H1 & H2) & H3). unfold read_pub_body, encode_pub_body. rewrite <- app_assoc.
  rewrite read_len_enc by (unfold two31 in *; lia).
  destruct (Z.leb_spec (len b) 0); [lia|]. destruct (Z.gtb_spec (len b) max_msg); [lia|].
  rewrite read_full_app. reflexivity.
Qed.

Theorem read_pub_body_inv max_msg s b rest : wf_bytes s -> read_pub_body max_msg s = RdOk b rest ->
  s = encode_pub_body b ++ rest /\ body_ok max_msg b.
Proof.
  intros Hwf. unfold read_pub_body. destruct (read_len s) as [[n s1]|] eqn:E; [|discriminate].
  destruct (read_len_inv _ _ _ Hwf E) as (Es & Hn & _).
  destruct (Z.leb_spec n 0); [discriminate|]. destruct (Z.gtb_spec n max_msg); [discriminate|].
  destruct (read_full n s1) as [[body r]|] eqn:F; [|discriminate]. intros [= -> ->].
  assert (Hn0 : 0 <= n) by lia.
  destruct (read_full_inv _ _ _ _ Hn0 F) as (E1 & L). subst s1.
  split.
  - unfold encode_pub_body. rewrite L. rewrite <- app_assoc. exact Es.
  - unfold body_ok. lia.
Qed.

(* MPUB *)
Lemma encode_mpub_msgs_cons b r : encode_mpub_msgs (b :: r) = encode_pub_body b ++ encode_mpub_msgs r.
Proof. reflexivity. Qed.

Lemma encode_mpub_msgs_len max_msg bodies : Forall (body_ok max_msg) bodies ->
  5 * Z.of_nat (length bodies) <= len (encode_mpub_msgs bodies).
Proof.
  induction 1 as [|b r Hb _ IH]; [unfold len; cbn; lia|].
  rewrite encode_mpub_msgs_cons, len_app, encode_pub_body_len. destruct Hb as ((? & ?) & ?).
  cbn [length]. lia.
Qed.

Lemma read_mpub_msgs_enc max_msg bodies : forall fuel rest, (length bodies <= fuel)%nat ->
  Forall (body_ok max_msg) bodies ->
  read_mpub_msgs fuel max_msg (Z.of_nat (length bodies)) (encode_mpub_msgs bodies ++ rest) = RdOk bodies rest.
Proof.
  induction bodies as [|b r IH]; intros fuel rest Hf Hall.
  - destruct fuel; reflexivity.
  - inversion Hall as [|? ? Hb Hr]; subst. destruct Hb as ((H1 & H2) & H3).
    destruct fuel as [|f]; [cbn in Hf; lia|]. cbn [length] in *.
    cbn [read_mpub_msgs]. destruct (Z.leb_spec (Z.of_nat (S (length r))) 0); [lia|].
    rewrite encode_mpub_msgs_cons. unfold encode_pub_body. rewrite <- !app_assoc.
    rewrite read_len_enc by (unfold two31 in *; lia).
    destruct (Z.leb_spec (len b) 0); [lia|]. destruct (Z.gtb_spec (len b) max_msg); [lia|].
    rewrite read_full_app.
    replace (Z.of_nat (S (length r)) - 1) with (Z.of_nat (length r)) by lia.
    rewrite IH by (assumption || lia). reflexivity.
Qed.

Definition batch_ok (max_msg max_body : Z) (bodies : list bytes) : Prop :=
  bodies <> [] /\ Forall (body_ok max_msg) bodies /\
  Z.of_nat (length bodies) <= Z.quot (max_body - 4) 5 /\ Z.of_nat (length bodies) < two31.

(* readMPUB accepts every batch within the limits and returns exactly its bodies, in order *)
Theorem read_mpub_encode max_msg max_body bodies rest : batch_ok max_msg max_body bodies ->
  read_mpub max_msg max_body (encode_mpub bodies ++ rest) = RdOk bodies rest.
Proof.
  intros (Hne & Hall & Hcnt & H31). unfold read_mpub, encode_mpub. rewrite <- app_assoc.
  rewrite read_len_enc by (unfold two31 in *; lia).
  assert (0 < Z.of_nat (length bodies)) by (destruct bodies; [congruence|cbn; lia]).
  destruct (Z.leb_spec (Z.of_nat (length bodies)) 0); [lia|].
  destruct (Z.gtb_spec (Z.of_nat (length bodies)) (Z.quot (max_body - 4) 5)); [lia|]. cbn [orb].
  apply read_mpub_msgs_enc; [|assumption].
  pose proof (encode_mpub_msgs_len _ _ Hall). unfold len in *. rewrite app_length. lia.
Qed.

(* the fuel of the loop is never exhausted *)
Lemma read_mpub_msgs_no_fuel max_msg : forall fuel n s, (length s < fuel)%nat ->
  read_mpub_msgs fuel max_msg n s <> RdErr E_FUEL.
Proof.
  induction fuel as [|f IH]; intros n s Hl; [lia|]. cbn [read_mpub_msgs].
  destruct (Z.leb_spec n 0); [discriminate|].
  unfold read_len. destruct (Z.ltb_spec (len s) 4); [discriminate|].
  destruct (Z.leb_spec (i32_of_u32 (be_dec (firstn 4 s))) 0); [discriminate|].
  destruct (Z.gtb_spec (i32_of_u32 (be_dec (firstn 4 s))) max_msg); [discriminate|].
  unfold read_full. destruct (Z.ltb_spec (len (skipn 4 s)) (i32_of_u32 (be_dec (firstn 4 s)))); [discriminate|].
  match goal with |- context [read_mpub_msgs f max_msg ?n' ?s'] =>
    pose proof (IH n' s') as Hih; destruct (read_mpub_msgs f max_msg n' s') as [more r|e] eqn:E end.
  - discriminate.
  - intros X. inversion X; subst. apply Hih; [|reflexivity].
    unfold len in *. rewrite !skipn_length. lia.
Qed.

Theorem read_mpub_never_fuel max_msg max_body s : read_mpub max_msg max_body s <> RdErr E_FUEL.
Proof.
  unfold read_mpub. destruct (read_len s) as [[n s1]|]; [|discriminate].
  destruct ((n <=? 0) || (n >? Z.quot (max_body - 4) 5)); [discriminate|].
  apply read_mpub_msgs_no_fuel. lia.
Qed.

Lemma read_mpub_msgs_inv max_msg : forall fuel n s bodies rest, wf_bytes s -> 0 <= n ->
  read_mpub_msgs fuel max_msg n s = RdOk bodies rest ->
  s = encode_mpub_msgs bodies ++ rest /\ Z.of_nat (length bodies) = n /\ Forall (body_ok max_msg) bodies.
Proof.
  induction fuel as [|f IH]; intros n s bodies rest Hwf Hn; cbn [read_mpub_msgs].
  - destruct (Z.leb_spec n 0); [|discriminate]. intros E; inversion E; subst. cbn. repeat split; [lia|constructor].
  - destruct (Z.leb_spec n 0).
    + intros E; inversion E; subst. cbn. repeat split; [lia|constructor].
    + destruct (read_len s) as [[sz s1]|] eqn:E1; [|discriminate].
      destruct (read_len_inv _ _ _ Hwf E1) as (Es & Hsz & _).
      destruct (Z.leb_spec sz 0); [discriminate|]. destruct (Z.gtb_spec sz max_msg); [discriminate|].
      destruct (read_full sz s1) as [[body s2]|] eqn:E2; [|discriminate].
      assert (Hsz0 : 0 <= sz) by lia.
      destruct (read_full_inv _ _ _ _ Hsz0 E2) as (Es1 & Lb). subst s1.
      destruct (read_mpub_msgs f max_msg (n - 1) s2) as [more r|e] eqn:E3; [|discriminate].
      intros [= <- <-].
      assert (Hwf2 : wf_bytes s2).
      { rewrite Es in Hwf. apply wf_bytes_app in Hwf. destruct Hwf as [_ Hwf]. apply wf_bytes_app in Hwf. tauto. }
      assert (Hn1 : 0 <= n - 1) by lia.
      destruct (IH _ _ _ _ Hwf2 Hn1 E3) as (Es2 & Hlen & Hall).
      split; [|split].
      * rewrite encode_mpub_msgs_cons. unfold encode_pub_body. rewrite Lb. rewrite <- !app_assoc. rewrite <- Es2. exact Es.
      * cbn [length]. lia.
      * constructor; [|assumption]. unfold body_ok. lia.
Qed.

(* ... and accepts nothing else: whatever readMPUB returns as messages is exactly what the
   input spells out, within the limits *)
Theorem read_mpub_inv max_msg max_body s bodies rest : wf_bytes s ->
  read_mpub max_msg max_body s = RdOk bodies rest ->
  s = encode_mpub bodies ++ rest /\ batch_ok max_msg max_body bodies.
Proof.
  intros Hwf. unfold read_mpub. destruct (read_len s) as [[n s1]|] eqn:E1; [|discriminate].
  destruct (read_len_inv _ _ _ Hwf E1) as (Es & Hn & _).
  destruct (Z.leb_spec n 0); [discriminate|].
  destruct (Z.gtb_spec n (Z.quot (max_body - 4) 5)); [discriminate|]. cbn [orb].
  intros E.
  assert (Hwf1 : wf_bytes s1) by (rewrite Es in Hwf; apply wf_bytes_app in Hwf; tauto).
  assert (Hn0 : 0 <= n) by lia.
  destruct (read_mpub_msgs_inv _ _ _ _ _ _ Hwf1 Hn0 E) as (Es1 & Hlen & Hall).
  split.
  - unfold encode_mpub. rewrite Hlen. rewrite <- app_assoc. rewrite <- Es1. exact Es.
  - unfold batch_ok. split; [destruct bodies; [cbn in Hlen; lia|discriminate]|].
    split; [assumption|]. lia.
Qed.

(* all or nothing: the topic's queue after an MPUB is either untouched (any rejection) or
   extended by exactly the bodies spelled out by the input, all of them, in order *)
Theorem mpub_all_or_nothing max_msg max_body queue s : wf_bytes s ->
  let r := read_mpub max_msg max_body s in
  (exists e, r = RdErr e /\ publish_effect queue r = queue) \/
  (exists bodies rest, r = RdOk bodies rest /\ publish_effect queue r = queue ++ bodies /\
     s = encode_mpub bodies ++ rest /\ batch_ok max_msg max_body bodies).
Proof.
  intros Hwf r. subst r. destruct (read_mpub max_msg max_body s) as [bodies rest|e] eqn:E.
  - right. exists bodies, rest. destruct (read_mpub_inv _ _ _ _ _ Hwf E). auto.
  - left. exists e. auto.
Qed.

(* the batch's total size bounds its count: a batch whose encoding fits max_body is never
   refused by the count check *)
Lemma encode_mpub_len bodies : len (encode_mpub bodies) = 4 + len (encode_mpub_msgs bodies).
Proof. unfold encode_mpub. rewrite len_app. unfold len at 1. rewrite be_enc_length. lia. Qed.

Theorem count_check_implied max_msg max_body bodies :
  Forall (body_ok max_msg) bodies -> len (encode_mpub bodies) <= max_body ->
  Z.of_nat (length bodies) <= Z.quot (max_body - 4) 5.
Proof.
  intros Hall Hl. rewrite encode_mpub_len in Hl. pose proof (encode_mpub_msgs_len _ _ Hall).
  apply Z.quot_le_lower_bound; lia.
Qed.

(* protocolV2.MPUB: size prefix, then readMPUB *)
Theorem mpub_tcp_encode max_msg max_body bodies rest :
  bodies <> [] -> Forall (body_ok max_msg) bodies ->
  len (encode_mpub bodies) <= max_body -> len (encode_mpub bodies) < two31 ->
  mpub_tcp max_msg max_body (encode_mpub_tcp bodies ++ rest) = RdOk bodies rest.
Proof.
  intros Hne Hall Hfit H31. unfold mpub_tcp, encode_mpub_tcp. rewrite <- app_assoc.
  pose proof (encode_mpub_len bodies). pose proof (len_nonneg (encode_mpub_msgs bodies)).
  rewrite read_len_enc by (unfold two31 in *; lia).
  destruct (Z.leb_spec (len (encode_mpub bodies)) 0); [lia|].
  destruct (Z.gtb_spec (len (encode_mpub bodies)) max_body); [lia|].
  rewrite take_app_exact, drop_app_exact.
  rewrite <- (app_nil_r (encode_mpub bodies)) at 1.
  rewrite read_mpub_encode; [reflexivity|].
  unfold batch_ok. split; [assumption|]. split; [assumption|].
  pose proof (count_check_implied _ _ _ Hall Hfit). pose proof (encode_mpub_msgs_len _ _ Hall). lia.
Qed.

Theorem mpub_tcp_inv max_msg max_body s bodies rest : wf_bytes s ->
  mpub_tcp max_msg max_body s = RdOk bodies rest ->
  exists n, s = be_enc 4 (u32_of_z n) ++ encode_mpub bodies ++ rest /\ batch_ok max_msg max_body bodies /\
            len (encode_mpub bodies) <= n <= max_body.
Proof.
  intros Hwf. unfold mpub_tcp. destruct (read_len s) as [[n s1]|] eqn:E1; [|discriminate].
  destruct (read_len_inv _ _ _ Hwf E1) as (Es & Hn & _).
  destruct (Z.leb_spec n 0); [discriminate|]. destruct (Z.gtb_spec n max_body); [discriminate|].
  destruct (read_mpub max_msg max_body (take n s1)) as [bs r|e] eqn:E; [|discriminate].
  intros [= -> <-].
  assert (Hwf1 : wf_bytes s1) by (rewrite Es in Hwf; apply wf_bytes_app in Hwf; tauto).
  destruct (read_mpub_inv _ _ _ _ _ (wf_take n s1 Hwf1) E) as (Es1 & Hb). exists n.
  split; [|split; [assumption|]].
  - rewrite (app_assoc (encode_mpub bodies) r). rewrite <- Es1. rewrite take_drop. exact Es.
  - assert (Hl : len (take n s1) <= n).
    { rewrite take_firstn. unfold len. pose proof (firstn_le_length (Z.to_nat n) s1). lia. }
    rewrite Es1, len_app in Hl. pose proof (len_nonneg r). lia.
Qed.

(* ================================================================== HTTP publish bodies *)
Definition blocks_ok (max_msg : Z) (l : list bytes) : Prop := Forall (fun f => len f <= max_msg) l.
Definition has_big (max_msg : Z) (l : list bytes) : Prop := Exists (fun f => max_msg < len f) l.

Lemma blocks_ok_not_big max_msg l : blocks_ok max_msg l -> has_big max_msg l -> False.
Proof.
  unfold blocks_ok, has_big. intros F E. apply Exists_exists in E. destruct E as (x & Hin & Hx).
  rewrite Forall_forall in F. specialize (F x Hin). lia.
Qed.

Lemma split_nonempty_cons_nil d rest : filter nonempty ([] :: split_on d rest) = split_nonempty d rest.
Proof. reflexivity. Qed.

Lemma text_loop_spec max_msg read_max : forall fuel total inp,
  (length inp < fuel)%nat -> total + len inp <= read_max ->
  match text_loop fuel max_msg read_max total inp with
  | HOk l => l = split_nonempty nl inp /\ total + len inp < read_max /\ blocks_ok max_msg l
  | HErr e => (e = H_BODY_TOO_BIG /\ total + len inp = read_max) \/
              (e = H_MSG_TOO_BIG /\ has_big max_msg (split_nonempty nl inp))
  end.
Proof.
  induction fuel as [|f IH]; intros total inp Hf Hle; [lia|].
  cbn [text_loop]. destruct (read_bytes nl inp) as [[line eof] rest] eqn:Hrb.
  destruct (read_bytes_spec nl inp _ _ _ Hrb)
    as [(He & Hrest & Hl & Hnin & Hsp) | (He & pre & Hl & Hnin & Hinp & Hsp & Hlt)]; subst eof.
  - (* the last block: no newline in it *)
    subst line rest. destruct (Z.eqb_spec (total + len inp) read_max) as [E|NE]; [left; auto|].
    rewrite trim_unterminated by assumption. unfold split_nonempty. rewrite Hsp.
    destruct inp as [|b r].
    + change (len []) with 0 in *. cbn. repeat split; [lia|constructor].
    + cbn [filter nonempty].
      destruct (Z.gtb_spec (len (b :: r)) max_msg).
      * right. split; [reflexivity|]. constructor. lia.
      * repeat split; [lia|]. constructor; [lia|constructor].
  - (* a block terminated by a newline *)
    subst line. assert (Hlen : len inp = len pre + 1 + len rest).
    { rewrite Hinp. rewrite len_app. unfold len. cbn [length]. lia. }
    assert (Hlb : len (pre ++ [nl]) = len pre + 1) by (rewrite len_app; reflexivity).
    pose proof (len_nonneg rest) as Hr0.
    rewrite Hlb. destruct (Z.eqb_spec (total + (len pre + 1)) read_max) as [E|NE]; [left; split; [reflexivity|lia]|].
    rewrite trim_terminated. unfold split_nonempty. rewrite Hsp.
    assert (Hf' : (length rest < f)%nat) by lia.
    assert (Hle' : total + (len pre + 1) + len rest <= read_max) by lia.
    specialize (IH (total + (len pre + 1)) rest Hf' Hle').
    destruct pre as [|b r].
    + rewrite split_nonempty_cons_nil.
      destruct (text_loop f max_msg read_max (total + (len [] + 1)) rest) as [l|e].
      * destruct IH as (E1 & E2 & E3). repeat split; [assumption|lia|assumption].
      * destruct IH as [(E1 & E2)|(E1 & E2)]; [left; split; [assumption|lia]|right; auto].
    + cbn [filter nonempty]. fold (split_nonempty nl rest).
      destruct (Z.gtb_spec (len (b :: r)) max_msg).
      * right. split; [reflexivity|]. constructor. lia.
      * destruct (text_loop f max_msg read_max (total + (len (b :: r) + 1)) rest) as [l|e].
        -- destruct IH as (E1 & E2 & E3). subst l. repeat split; [lia|]. constructor; [lia|assumption].
        -- destruct IH as [(E1 & E2)|(E1 & E2)]; [left; split; [assumption|lia]|right].
           split; [assumption|]. apply Exists_cons_tl. assumption.
Qed.

(* text /mpub: what is published is exactly the non-empty newline-separated blocks of the
   body (a last block without trailing newline included), when the body and every block
   are within the limits; otherwise nothing is published *)
Theorem http_mpub_text_spec max_msg max_body cl body : 0 <= max_body -> cl <= max_body ->
  match http_mpub_text max_msg max_body cl body with
  | HOk l => l = split_nonempty nl body /\ len body <= max_body /\ blocks_ok max_msg l
  | HErr e => (e = H_BODY_TOO_BIG /\ max_body < len body) \/
              (e = H_MSG_TOO_BIG /\
               has_big max_msg (split_nonempty nl (firstn (Z.to_nat (max_body + 1)) body)))
  end.
Proof.
  intros H0 Hcl. unfold http_mpub_text. destruct (Z.gtb_spec cl max_body); [lia|].
  rewrite take_firstn.
  set (n := Z.to_nat (max_body + 1)). set (data := firstn n body).
  assert (Hd : len data <= max_body + 1) by (unfold len, data; pose proof (firstn_le_length n body); lia).
  pose proof (text_loop_spec max_msg (max_body + 1) (S (length data)) 0 data ltac:(lia) ltac:(lia)) as SP.
  destruct (text_loop (S (length data)) max_msg (max_body + 1) 0 data) as [l|e].
  - destruct SP as (E1 & E2 & E3).
    assert (Hdb : data = body) by (apply firstn_short; unfold len, data, n in *; lia).
    rewrite Hdb in *. repeat split; [assumption|lia|assumption].
  - destruct SP as [(E1 & E2)|(E1 & E2)]; [left|right; auto]. split; [assumption|].
    unfold len, data, n in *. pose proof (firstn_le_length (Z.to_nat (max_body + 1)) body).
    destruct (Nat.le_gt_cases (Z.to_nat (max_body + 1)) (length body)); [lia|].
    rewrite firstn_all2 in E2 by lia. lia.
Qed.

Theorem http_mpub_text_accepts max_msg max_body cl body : 0 <= max_body -> cl <= max_body ->
  len body <= max_body -> blocks_ok max_msg (split_nonempty nl body) ->
  http_mpub_text max_msg max_body cl body = HOk (split_nonempty nl body).
Proof.
  intros H0 Hcl Hb Hok. pose proof (http_mpub_text_spec max_msg max_body cl body H0 Hcl) as SP.
  destruct (http_mpub_text max_msg max_body cl body) as [l|e].
  - destruct SP as (-> & _). reflexivity.
  - exfalso. destruct SP as [(_ & E)|(_ & E)]; [lia|].
    rewrite firstn_all2 in E by (unfold len in *; lia). eapply blocks_ok_not_big; eassumption.
Qed.

Theorem http_mpub_text_rejects max_msg max_body cl body : 0 <= max_body ->
  max_body < cl \/ max_body < len body \/ has_big max_msg (split_nonempty nl body) ->
  exists e, http_mpub_text max_msg max_body cl body = HErr e /\
            http_effect [] (http_mpub_text max_msg max_body cl body) = [].
Proof.
  intros H0 Hbad. destruct (Z.gtb_spec cl max_body) as [Hgt|Hle].
  - unfold http_mpub_text. destruct (Z.gtb_spec cl max_body); [|lia]. eexists; split; reflexivity.
  - pose proof (http_mpub_text_spec max_msg max_body cl body H0 Hle) as SP.
    destruct (http_mpub_text max_msg max_body cl body) as [l|e]; [|eexists; split; reflexivity].
    exfalso. destruct SP as (-> & Hl & Hok). destruct Hbad as [?|[?|Hbig]]; [lia|lia|].
    eapply blocks_ok_not_big; eassumption.
Qed.

(* a batch written as newline-joined records, with or without a final newline *)
Theorem http_mpub_text_join max_msg max_body rs : 0 <= max_body ->
  Forall (good_record nl) rs -> blocks_ok max_msg rs -> len (join nl rs) + 1 <= max_body ->
  http_mpub_text max_msg max_body (len (join nl rs)) (join nl rs) = HOk rs /\
  http_mpub_text max_msg max_body (len (join nl rs ++ [nl])) (join nl rs ++ [nl]) = HOk rs.
Proof.
  intros H0 Hg Hok Hl.
  assert (L2 : len (join nl rs ++ [nl]) = len (join nl rs) + 1) by (rewrite len_app; reflexivity).
  split.
  - rewrite http_mpub_text_accepts; rewrite ?split_nonempty_join by assumption; auto; lia.
  - rewrite http_mpub_text_accepts; rewrite ?split_nonempty_join_terminated by assumption; auto; lia.
Qed.

(* /pub *)
Theorem http_pub_spec max_msg cl body : 0 <= max_msg -> cl <= max_msg ->
  http_pub max_msg cl body =
    if max_msg <? len body then HErr H_MSG_TOO_BIG
    else if len body =? 0 then HErr H_MSG_EMPTY else HOk [body].
Proof.
  intros H0 Hcl. unfold http_pub. destruct (Z.gtb_spec cl max_msg); [lia|].
  rewrite take_firstn.
  set (n := Z.to_nat (max_msg + 1)).
  pose proof (firstn_le_length n body) as Hle.
  destruct (Z.ltb_spec max_msg (len body)) as [Hbig|Hfit].
  - assert (E : len (firstn n body) = max_msg + 1)
      by (unfold len in *; rewrite firstn_length_le; unfold n; lia).
    rewrite E, Z.eqb_refl. reflexivity.
  - assert (E : firstn n body = body) by (apply firstn_all2; unfold len, n in *; lia).
    rewrite E. destruct (Z.eqb_spec (len body) (max_msg + 1)); [lia|]. destruct (len body =? 0); reflexivity.
Qed.

(* binary /mpub is readMPUB on the request body *)
Theorem http_mpub_binary_accepts max_msg max_body cl bodies : cl <= max_body ->
  batch_ok max_msg max_body bodies -> len (encode_mpub bodies) <= max_body ->
  http_mpub_binary max_msg max_body cl (encode_mpub bodies) = HOk bodies.
Proof.
  intros Hcl Hb Hfit. unfold http_mpub_binary. destruct (Z.gtb_spec cl max_body); [lia|].
  rewrite take_all by assumption.
  rewrite <- (app_nil_r (encode_mpub bodies)). rewrite read_mpub_encode by assumption. reflexivity.
Qed.

Theorem http_mpub_binary_inv max_msg max_body cl body bodies : wf_bytes body ->
  http_mpub_binary max_msg max_body cl body = HOk bodies ->
  exists rest, body = encode_mpub bodies ++ rest /\ batch_ok max_msg max_body bodies /\
               len (encode_mpub bodies) <= Z.max 0 max_body.
Proof.
  intros Hwf. unfold http_mpub_binary. destruct (cl >? max_body); [discriminate|].
  destruct (read_mpub max_msg max_body (take max_body body)) as [bs rest|e] eqn:E; [|destruct e; discriminate].
  intros [= <-]. destruct (read_mpub_inv _ _ _ _ _ (wf_take max_body body Hwf) E) as (Es & Hb).
  exists (rest ++ drop max_body body). split; [|split; [assumption|]].
  - rewrite (app_assoc (encode_mpub bs) rest), <- Es. symmetry. apply take_drop.
  - assert (Hl : len (take max_body body) <= Z.max 0 max_body).
    { rewrite take_firstn. unfold len. pose proof (firstn_le_length (Z.to_nat max_body) body). lia. }
    rewrite Es, len_app in Hl. pose proof (len_nonneg rest). lia.
Qed.

(* ================================================================== message ids *)
Lemma hex_digit_range a : 0 <= a < 16 -> is_hex_byte (Z.to_N (hex_digit a)) = true /\ 0 <= hex_digit a.
Proof.
  intros H. unfold hex_digit, is_hex_byte. destruct (Z.ltb_spec a 10); split; lia.
Qed.

Lemma hex_digits_hex k : forall u,
  forallb is_hex_byte (map Z.to_N (hex_digits k u)) = true /\ Forall (fun c => 0 <= c) (hex_digits k u).
Proof.
  induction k as [|k IH]; intros u; cbn [hex_digits]; [split; [reflexivity|constructor]|].
  rewrite map_app, forallb_app. destruct (IH (u / 16)) as [H1 H2].
  destruct (hex_digit_range (u mod 16) ltac:(lia)) as [H3 H4].
  split; [rewrite H1; cbn; rewrite H3; reflexivity|].
  apply Forall_app. split; [assumption|]. constructor; [assumption|constructor].
Qed.

Lemma is_hex_byte_lt c : is_hex_byte c = true -> (c < 256)%N.
Proof. unfold is_hex_byte. lia. Qed.

(* a message id is 16 lower-case hex characters *)
Theorem id_of_guid_hex16 g : id_is_hex16 (id_of_guid g) = true.
Proof.
  unfold id_is_hex16, id_of_guid. rewrite map_length, hex_length. cbn [Nat.eqb andb].
  apply (proj1 (hex_digits_hex 16 (g mod two64))).
Qed.

Theorem id_of_guid_wf g : length (id_of_guid g) = id_len /\ wf_bytes (id_of_guid g).
Proof.
  pose proof (id_of_guid_hex16 g) as H. unfold id_is_hex16 in H. apply andb_true_iff in H. destruct H as [Hl Hh].
  split; [apply Nat.eqb_eq in Hl; exact Hl|].
  unfold wf_bytes. rewrite Forall_forall. rewrite forallb_forall in Hh. intros x Hx. apply is_hex_byte_lt. auto.
Qed.

Lemma map_of_N_to_N l : Forall (fun c => 0 <= c) l -> map Z.of_N (map Z.to_N l) = l.
Proof. induction 1; cbn; [reflexivity|]. rewrite Z2N.id by assumption. congruence. Qed.

(* distinct guids have distinct ids *)
Theorem id_of_guid_injective a b : - two63 <= a < two63 -> - two63 <= b < two63 ->
  id_of_guid a = id_of_guid b -> a = b.
Proof.
  intros Ha Hb E. apply hex_injective; try assumption.
  apply (f_equal (map Z.of_N)) in E. unfold id_of_guid in E.
  rewrite !map_of_N_to_N in E by apply (proj2 (hex_digits_hex 16 _)). exact E.
Qed.
