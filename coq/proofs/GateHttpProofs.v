(* C11, HTTP side over the listener dimension: which listeners exist, that plaintext HTTP
   is refused for EVERY request exactly when tls_required = required and whatever the
   HTTPS listener does, that a refused request leaves no trace, and that the listeners
   nsqd.New creates / NSQD.Main serves are the model's (regenerated tables). *)
From Coq Require Import List String Bool NArith.
From NSQV Require Import model.Judge model.Names model.GateSyn model.Gate model.GateHttp gen.GateTable
                         proofs.GateTableProofs.
Import ListNotations.

(* ------------------------------------------------------------------ the handlers never answer 403 *)
Lemma on_existing_chan_not_403 : forall t c w k, fst k <> 403%N -> fst (on_existing_chan t c w k) <> 403%N.
Proof.
  intros t c w k Hk. unfold on_existing_chan.
  destruct (negb (is_valid_name t) || negb (is_valid_name c)); [simpl; discriminate|].
  destruct (negb (has_topic t w)); [simpl; discriminate|].
  destruct (negb (has_chan t c w)); [simpl; discriminate|]. exact Hk.
Qed.

Theorem http_step_not_403 : forall w q, fst (http_step w q) <> 403%N.
Proof.
  intros w q. destruct q; simpl;
    try discriminate;
    try (apply on_existing_chan_not_403; simpl; discriminate).
  - destruct known; simpl; discriminate.
  - destruct ok; simpl; discriminate.
  - destruct (is_valid_name t); simpl; discriminate.
  - destruct (is_valid_name t); simpl; discriminate.
  - destruct (is_valid_name t); simpl; discriminate.
  - destruct (has_topic t w); simpl; discriminate.
  - destruct (negb (is_valid_name t)); [simpl; discriminate|]. destruct (has_topic t w); simpl; discriminate.
  - destruct (has_topic t w); simpl; discriminate.
  - destruct (negb (is_valid_name t) || negb (is_valid_name c)); [simpl; discriminate|].
    destruct (negb (has_topic t w)); simpl; discriminate.
Qed.

(* ------------------------------------------------------------------ who listens *)
Theorem served_plain : forall cfg ad,
  served cfg ad Plain = if a_http ad then Some (tls_req_eqb (c_tls_required cfg) TlsRequired) else None.
Proof. intros. unfold served, plain_listens, http_plain_refused, plain_wiring, http_refuses. destruct (a_http ad); reflexivity. Qed.

Theorem served_https : forall cfg ad,
  served cfg ad Https = if c_tls_config cfg && a_https ad then Some false else None.
Proof. intros. unfold served, https_listens. destruct (c_tls_config cfg && a_https ad); reflexivity. Qed.

(* the answer of the plaintext listener does not depend on the HTTPS address, nor on there
   being a TLS configuration *)
Theorem plain_independent_of_https : forall cfg ad b w q,
  http_exchange cfg (mkAddrs (a_http ad) b) Plain w q = http_exchange cfg ad Plain w q.
Proof. intros. unfold http_exchange. rewrite !served_plain. reflexivity. Qed.

(* ------------------------------------------------------------------ refusal *)
(* TLS required: EVERY plaintext request is answered 403 and changes nothing, with or
   without an HTTPS listener *)
Theorem plain_refuses_everything : forall cfg ad w q,
  c_tls_required cfg = TlsRequired -> a_http ad = true ->
  http_exchange cfg ad Plain w q = Some (403%N, w).
Proof.
  intros cfg ad w q Hr Ha. unfold http_exchange. rewrite served_plain, Ha, Hr. reflexivity.
Qed.

(* ... and only then: not required / tcp-https serves every plaintext request *)
Theorem plain_serves_otherwise : forall cfg ad w q,
  c_tls_required cfg <> TlsRequired -> a_http ad = true ->
  http_exchange cfg ad Plain w q = Some (http_step w q).
Proof.
  intros cfg ad w q Hr Ha. unfold http_exchange. rewrite served_plain, Ha.
  destruct (c_tls_required cfg); simpl; try reflexivity. contradiction.
Qed.

Theorem plain_403_iff : forall cfg ad w q, a_http ad = true ->
  ((exists w', http_exchange cfg ad Plain w q = Some (403%N, w')) <-> c_tls_required cfg = TlsRequired).
Proof.
  intros cfg ad w q Ha. split.
  - intros [w' H].
    destruct (c_tls_required cfg) eqn:E; try reflexivity;
      (rewrite plain_serves_otherwise in H by (auto; rewrite E; discriminate);
       inversion H as [H1]; pose proof (http_step_not_403 w q) as N; rewrite H1 in N; simpl in N; contradiction).
  - intros Hr. exists w. apply plain_refuses_everything; assumption.
Qed.

(* a client-certificate policy refuses plaintext HTTP too (nsqd.New makes TLS required),
   unless tcp-https was asked for *)
Theorem policy_refuses_plain : forall raw cfg ad w q,
  startup raw = Some cfg -> c_policy raw <> PolNone -> c_tls_required raw <> TlsRequiredExceptHTTP ->
  a_http ad = true -> http_exchange cfg ad Plain w q = Some (403%N, w).
Proof.
  intros raw cfg ad w q Hs Hp Hr Ha. apply plain_refuses_everything; auto.
  unfold startup in Hs. destruct raw as [req tc pol n]. simpl in *.
  destruct pol, req, tc; simpl in Hs; inversion Hs; subst; simpl; congruence.
Qed.

(* the TLS listener never refuses; it exists iff there is a TLS configuration and an address *)
Theorem https_exchange : forall cfg ad w q,
  http_exchange cfg ad Https w q = if c_tls_config cfg && a_https ad then Some (http_step w q) else None.
Proof. intros. unfold http_exchange. rewrite served_https. destruct (c_tls_config cfg && a_https ad); reflexivity. Qed.

Theorem no_listener_no_answer : forall cfg ad w q,
  (a_http ad = false -> http_exchange cfg ad Plain w q = None) /\
  (c_tls_config cfg && a_https ad = false -> http_exchange cfg ad Https w q = None).
Proof.
  intros. split; intros H; unfold http_exchange.
  - rewrite served_plain, H. reflexivity.
  - rewrite served_https, H. reflexivity.
Qed.

(* ------------------------------------------------------------------ no trace *)
(* on either listener, under every configuration: a request answered 403 changed nothing *)
Theorem refused_no_trace : forall cfg ad l w q st w',
  http_exchange cfg ad l w q = Some (st, w') -> st = 403%N -> w' = w.
Proof.
  intros cfg ad l w q st w' H Hst. unfold http_exchange in H.
  destruct (served cfg ad l) as [[|]|]; [inversion H; subst; auto | | discriminate].
  injection H as H1. exfalso. apply (http_step_not_403 w q). rewrite H1. simpl. exact Hst.
Qed.

(* ------------------------------------------------------------------ the source creates / serves these listeners *)
Definition addr_of_opt (ad : addrs) (o : string) : option bool :=
  if String.eqb o "HTTPAddress" then Some (a_http ad)
  else if String.eqb o "HTTPSAddress" then Some (a_https ad) else None.

Definition eval_lexp (cfg : config) (ad : addrs) (e : lexp) : option bool :=
  match e with
  | LAddr o => addr_of_opt ad o
  | LTlsAndAddr o => option_map (andb (c_tls_config cfg)) (addr_of_opt ad o)
  | LOther _ => None
  end.

(* the listener exists iff one of its writes ran (there is exactly one per listener) *)
Definition eval_listens (cfg : config) (ad : addrs) (listener : string) : option bool :=
  match filter (fun h => String.eqb (hl_listener h) listener) http_listens with
  | [h] => if String.eqb (hl_func h) "New" then eval_lexp cfg ad (hl_cond h) else None
  | _ => None
  end.

Theorem listens_plain : forall cfg ad, eval_listens cfg ad "httpListener" = Some (plain_listens cfg ad).
Proof. intros. reflexivity. Qed.
Theorem listens_https : forall cfg ad, eval_listens cfg ad "httpsListener" = Some (https_listens cfg ad).
Proof. intros. reflexivity. Qed.
(* two writes in the whole package, both in New; only the HTTPS one is a TLS listener *)
Theorem listens_complete :
  map (fun h => (hl_listener h, hl_func h, hl_tls h)) http_listens =
    [("httpListener", "New", false); ("httpsListener", "New", true)]%string.
Proof. vm_compute. reflexivity. Qed.
(* Main serves each listener, when it exists, with the server built for it *)
Theorem serves_shape :
  http_serves = [mkServe "httpListener" "httpListener" "httpListener";
                 mkServe "httpsListener" "httpsListener" "httpsListener"]%string.
Proof. vm_compute. reflexivity. Qed.
