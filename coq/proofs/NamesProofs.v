(* Proofs about model/Names.v (topic / channel name validity). *)
From Coq Require Import List Arith NArith Bool Lia ZifyBool ZifyNat ZifyN.
From NSQV Require Import model.Judge model.Names.
Import ListNotations.
Open Scope N_scope.

Lemma list_eqb_N_eq : forall a b : bytes, bytes_eqb a b = true <-> a = b.
Proof.
  unfold bytes_eqb. induction a as [|x a IH]; destruct b as [|y b]; cbn; split; intro H; try congruence; try reflexivity.
  - apply andb_true_iff in H. destruct H as [H1 H2]. apply N.eqb_eq in H1. apply IH in H2. subst. reflexivity.
  - inversion H. subst. rewrite N.eqb_refl. cbn. apply IH. reflexivity.
Qed.

Lemma bytes_eqb_refl : forall a, bytes_eqb a a = true.
Proof. intro a. apply list_eqb_N_eq. reflexivity. Qed.

(* the character class [.a-zA-Z0-9_-] *)
Definition in_class (c : N) : Prop :=
  c = 46 \/ c = 95 \/ c = 45 \/ (97 <= c <= 122) \/ (65 <= c <= 90) \/ (48 <= c <= 57).

Lemma name_char_spec : forall c, name_char c = true <-> in_class c.
Proof. intro c. unfold name_char, in_class. lia. Qed.

Lemma all_name_chars_spec : forall l,
  all_name_chars l = true <-> l <> [] /\ Forall in_class l.
Proof.
  intro l. unfold all_name_chars. destruct l as [|x l].
  - split; [discriminate | intros [H _]; congruence].
  - rewrite forallb_forall, Forall_forall. split.
    + intro H. split; [discriminate|]. intros y Hy. apply name_char_spec. apply H. exact Hy.
    + intros [_ H] y Hy. apply name_char_spec. apply H. exact Hy.
Qed.

Lemma ephemeral_suffix_length : length ephemeral_suffix = 10%nat.
Proof. reflexivity. Qed.

(* the regular expression ^[.a-zA-Z0-9_-]+(#ephemeral)?$ *)
Definition matches_spec (l : bytes) : Prop :=
  (l <> [] /\ Forall in_class l) \/
  (exists p, p <> [] /\ Forall in_class p /\ l = p ++ ephemeral_suffix).

Lemma matches_name_regex_spec : forall l, matches_name_regex l = true <-> matches_spec l.
Proof.
  intro l. unfold matches_name_regex, matches_spec. rewrite orb_true_iff, !andb_true_iff.
  rewrite all_name_chars_spec. split.
  - intros [H | [[H1 H2] H3]]; [left; exact H | right].
    apply list_eqb_N_eq in H2. apply all_name_chars_spec in H3.
    exists (firstn (length l - 10) l). destruct H3 as [H3 H4]. split; [exact H3|]. split; [exact H4|].
    rewrite <- H2. symmetry. apply firstn_skipn.
  - intros [H | [p [Hp [Hc Hl]]]]; [left; exact H | right].
    assert (Hlen : length l = (length p + 10)%nat) by (subst l; rewrite app_length; reflexivity).
    assert (Hp0 : (0 < length p)%nat) by (destruct p; [congruence | cbn; lia]).
    replace (length l - 10)%nat with (length p) by lia.
    subst l. rewrite skipn_app, firstn_app, skipn_all, firstn_all, Nat.sub_diag. cbn [skipn firstn].
    rewrite app_nil_r. cbn [app]. split; [split|].
    + lia.
    + apply bytes_eqb_refl.
    + apply all_name_chars_spec. split; assumption.
Qed.

(* IsValidTopicName / IsValidChannelName: between 1 and 64 bytes, all in the class, or a
   non-empty class prefix followed by the literal "#ephemeral" *)
Theorem is_valid_name_spec : forall l,
  is_valid_name l = true <->
  (1 <= length l <= 64)%nat /\ matches_spec l.
Proof.
  intro l. unfold is_valid_name. rewrite !andb_true_iff, matches_name_regex_spec.
  rewrite !N.leb_le. split.
  - intros [[H1 H2] H3]. split; [lia | exact H3].
  - intros [H1 H2]. split; [lia | exact H2].
Qed.

Lemma is_valid_name_length : forall l, is_valid_name l = true -> (1 <= length l <= 64)%nat.
Proof. intros l H. apply is_valid_name_spec in H. tauto. Qed.

(* the longest valid names: 64 class characters; 54 class characters + "#ephemeral" *)
Lemma valid_name_65_refused : forall l, length l = 65%nat -> is_valid_name l = false.
Proof.
  intros l H. destruct (is_valid_name l) eqn:E; [|reflexivity].
  apply is_valid_name_length in E. lia.
Qed.

Lemma empty_name_refused : is_valid_name [] = false.
Proof. reflexivity. Qed.

(* a name made of the suffix alone is refused (the class part must be non-empty) *)
Lemma bare_suffix_refused : is_valid_name ephemeral_suffix = false.
Proof. vm_compute. reflexivity. Qed.
