(* Proofs about model/Heap.v: heap order and index back-pointers are preserved by every
   operation of both queues, Remove removes exactly the addressed entry, PeekAndShift is
   never early (for ANY array content) and returns a minimum on a well-formed heap, and
   the scan loop removes exactly the entries with priority <= t. *)
From Coq Require Import List ZArith Bool Arith Lia ZifyBool ZifyNat Permutation Wf_nat.
From NSQV Require Import model.Heap.
Import ListNotations.

Ltac Zify.zify_post_hook ::= Z.div_mod_to_equations.

(* ------------------------------------------------------------------ arrays *)
Lemma length_upd : forall l i x, length (upd l i x) = length l.
Proof. induction l as [|a r IH]; intros [|i] x; cbn; auto. Qed.

Lemma get_upd : forall l i x k, (i < length l)%nat ->
  get (upd l i x) k = if (k =? i)%nat then x else get l k.
Proof.
  unfold get. induction l as [|a r IH]; intros i x k H; cbn in H; [lia|].
  destruct i as [|i]; destruct k as [|k]; cbn; auto.
  apply IH. lia.
Qed.

Lemma length_swap : forall l i j, length (swap l i j) = length l.
Proof. intros. unfold swap. now rewrite !length_upd. Qed.

Lemma get_swap : forall l i j k, (i < length l)%nat -> (j < length l)%nat ->
  get (swap l i j) k =
    if (k =? j)%nat then set_idx (get l i) (Z.of_nat j)
    else if (k =? i)%nat then set_idx (get l j) (Z.of_nat i)
    else get l k.
Proof.
  intros l i j k Hi Hj. unfold swap.
  rewrite get_upd by (rewrite length_upd; exact Hj).
  destruct (k =? j)%nat; [reflexivity|].
  rewrite get_upd by exact Hi. reflexivity.
Qed.

Definition P (l : list item) (k : nat) : Z := pri (get l k).
Definition key (x : item) : Z * Z := (pri x, val x).
Definition keys (l : list item) : list (Z * Z) := map key l.

Lemma P_swap : forall l i j k, (i < length l)%nat -> (j < length l)%nat ->
  P (swap l i j) k = if (k =? j)%nat then P l i else if (k =? i)%nat then P l j else P l k.
Proof.
  intros. unfold P. rewrite get_swap by assumption.
  destruct (k =? j)%nat; [reflexivity|]. destruct (k =? i)%nat; reflexivity.
Qed.

Lemma key_swap : forall l i j k, (i < length l)%nat -> (j < length l)%nat ->
  key (get (swap l i j) k) =
    if (k =? j)%nat then key (get l i) else if (k =? i)%nat then key (get l j) else key (get l k).
Proof.
  intros. rewrite get_swap by assumption.
  destruct (k =? j)%nat; [reflexivity|]. destruct (k =? i)%nat; reflexivity.
Qed.

Lemma get_firstn : forall m l k, (k < m)%nat -> get (firstn m l) k = get l k.
Proof.
  unfold get. induction m as [|m IH]; intros l k H; [lia|].
  destruct l as [|a r]; [destruct k; reflexivity|].
  destruct k as [|k]; cbn; [reflexivity|]. apply IH. lia.
Qed.

Lemma get_app_l : forall l r k, (k < length l)%nat -> get (l ++ r) k = get l k.
Proof. intros. unfold get. now apply app_nth1. Qed.

Lemma get_app_last : forall l x, get (l ++ [x]) (length l) = x.
Proof. intros. unfold get. rewrite app_nth2 by lia. now rewrite Nat.sub_diag. Qed.

Lemma split_last : forall (l : list item), l <> [] ->
  l = firstn (length l - 1) l ++ [get l (length l - 1)].
Proof.
  intros l H. destruct (exists_last H) as [r [x E]]. subst l.
  rewrite app_length. cbn. replace (length r + 1 - 1)%nat with (length r) by lia.
  rewrite firstn_app, Nat.sub_diag, firstn_all. cbn. rewrite app_nil_r.
  now rewrite get_app_last.
Qed.

(* ------------------------------------------------------------------ swap is a permutation of keys *)
Lemma keys_nth : forall l k, nth k (keys l) (key dummy) = key (get l k).
Proof. intros. unfold keys, get. apply map_nth. Qed.

Lemma swap_perm : forall l i j, (i < length l)%nat -> (j < length l)%nat ->
  Permutation (keys (swap l i j)) (keys l).
Proof.
  intros l i j Hi Hj. apply Permutation_sym.
  apply (Permutation_nth _ _ (key dummy)). unfold keys at 1 2. rewrite !map_length, length_swap.
  split; [reflexivity|].
  exists (fun x => if (x =? j)%nat then i else if (x =? i)%nat then j else x).
  split; [|split].
  - intros x Hx. destruct (Nat.eqb_spec x j); [lia|]. destruct (Nat.eqb_spec x i); lia.
  - intros x y Hx Hy.
    destruct (Nat.eqb_spec x j); destruct (Nat.eqb_spec x i);
    destruct (Nat.eqb_spec y j); destruct (Nat.eqb_spec y i); lia.
  - intros x Hx. rewrite !keys_nth, key_swap by assumption.
    destruct (Nat.eqb_spec x j); [reflexivity|]. destruct (Nat.eqb_spec x i); reflexivity.
Qed.

(* ------------------------------------------------------------------ "reached by swaps below m" *)
Inductive swaps (m : nat) : list item -> list item -> Prop :=
| sw_refl : forall l, swaps m l l
| sw_step : forall l i j l', (i < m)%nat -> (j < m)%nat -> (m <= length l)%nat ->
    swaps m (swap l i j) l' -> swaps m l l'.

Lemma swaps_length : forall m l l', swaps m l l' -> length l' = length l.
Proof. induction 1; [reflexivity|]. now rewrite IHswaps, length_swap. Qed.

Lemma swaps_perm : forall m l l', swaps m l l' -> Permutation (keys l') (keys l).
Proof.
  induction 1; [reflexivity|].
  etransitivity; [exact IHswaps|]. apply swap_perm; lia.
Qed.

Lemma swaps_above : forall m l l', swaps m l l' -> forall k, (m <= k)%nat -> get l' k = get l k.
Proof.
  induction 1; intros k Hk; [reflexivity|].
  rewrite IHswaps by exact Hk. rewrite get_swap by lia.
  destruct (Nat.eqb_spec k j); [lia|]. destruct (Nat.eqb_spec k i); [lia|]. reflexivity.
Qed.

Lemma swaps_mono : forall m m' l l', (m <= m')%nat -> (m' <= length l)%nat ->
  swaps m l l' -> swaps m' l l'.
Proof.
  intros m m' l l' Hm Hl Hs. induction Hs; [constructor|].
  apply sw_step with (i := i) (j := j); try lia. apply IHHs. now rewrite length_swap.
Qed.

Definition wf_idx (l : list item) : Prop :=
  forall k, (k < length l)%nat -> idx (get l k) = Z.of_nat k.

Lemma swap_wf_idx : forall l i j, (i < length l)%nat -> (j < length l)%nat ->
  wf_idx l -> wf_idx (swap l i j).
Proof.
  intros l i j Hi Hj W k Hk. rewrite length_swap in Hk. rewrite get_swap by assumption.
  destruct (Nat.eqb_spec k j); [subst; reflexivity|].
  destruct (Nat.eqb_spec k i); [subst; reflexivity|]. now apply W.
Qed.

Lemma swaps_wf_idx : forall m l l', swaps m l l' -> wf_idx l -> wf_idx l'.
Proof. induction 1; intro W; [exact W|]. apply IHswaps, swap_wf_idx; try lia. exact W. Qed.

(* ------------------------------------------------------------------ parent / children *)
Lemma parent_lt : forall j, (0 < j)%nat -> (parent j < j)%nat.
Proof. intros j H. unfold parent. lia. Qed.

Lemma parent_0 : parent 0 = 0%nat.
Proof. reflexivity. Qed.

Lemma parent_children : forall c j, (0 < c)%nat ->
  (parent c = j <-> (c = 2 * j + 1 \/ c = 2 * j + 2)%nat).
Proof. intros c j H. unfold parent. lia. Qed.

(* ------------------------------------------------------------------ up / down are swaps; fuel *)
Lemma up_swaps : forall f l j, (j < length l)%nat -> swaps (S j) l (up f l j).
Proof.
  induction f as [|f IH]; intros l j Hj; cbn [up]; [constructor|].
  destruct ((parent j =? j)%nat || (pri (get l j) >=? pri (get l (parent j)))%Z) eqn:E;
    [constructor|].
  apply orb_false_iff in E. destruct E as [E1 _]. apply Nat.eqb_neq in E1.
  assert (0 < j)%nat by (destruct j; [now rewrite parent_0 in E1 | lia]).
  pose proof (parent_lt j H).
  apply sw_step with (i := parent j) (j := j); try lia.
  apply swaps_mono with (m := S (parent j)); try lia.
  - rewrite length_swap. lia.
  - apply IH. rewrite length_swap. lia.
Qed.

Lemma up_fuel_irrelevant : forall f1 f2 l j, (j <= f1)%nat -> (j <= f2)%nat ->
  up f1 l j = up f2 l j.
Proof.
  induction f1 as [|f1 IH]; intros f2 l j H1 H2.
  - assert (j = 0)%nat by lia. subst. destruct f2; reflexivity.
  - destruct f2 as [|f2].
    + assert (j = 0)%nat by lia. subst. reflexivity.
    + cbn [up].
      destruct ((parent j =? j)%nat || (pri (get l j) >=? pri (get l (parent j)))%Z) eqn:E;
        [reflexivity|].
      apply orb_false_iff in E. destruct E as [E1 _]. apply Nat.eqb_neq in E1.
      assert (0 < j)%nat by (destruct j; [now rewrite parent_0 in E1 | lia]).
      pose proof (parent_lt j H). apply IH; lia.
Qed.

Lemma down_swaps : forall ch f l i n, (n <= length l)%nat ->
  swaps n l (fst (down ch f l i n)) .
Proof.
  induction f as [|f IH]; intros l i n Hn; cbn [down]; [constructor|].
  destruct (n <=? 2 * i + 1)%nat eqn:E1; [constructor|]. apply Nat.leb_gt in E1.
  set (j := if ((2 * i + 1 + 1 <? n)%nat && ch (pri (get l (2 * i + 1)%nat)) (pri (get l (2 * i + 1 + 1)%nat)))
            then (2 * i + 1 + 1)%nat else (2 * i + 1)%nat).
  assert (Hj : (j < n)%nat).
  { subst j. destruct (2 * i + 1 + 1 <? n)%nat eqn:E2; cbn [andb].
    - apply Nat.ltb_lt in E2. destruct (ch _ _); lia.
    - lia. }
  destruct (pri (get l j) >=? pri (get l i))%Z; [constructor|].
  apply sw_step with (i := i) (j := j); try lia.
  apply IH. now rewrite length_swap.
Qed.

Lemma down_pos_ge : forall ch f l i n, (i <= snd (down ch f l i n))%nat.
Proof.
  induction f as [|f IH]; intros l i n; cbn [down]; [cbn; lia|].
  destruct (n <=? 2 * i + 1)%nat; [cbn; lia|].
  match goal with |- context [if (pri (get l ?J) >=? _)%Z then _ else _] => set (j := J) end.
  assert (i < j)%nat by (subst j; destruct (_ && _); lia).
  destruct (pri (get l j) >=? pri (get l i))%Z; [cbn; lia|].
  specialize (IH (swap l i j) j n). lia.
Qed.

(* container/heap's "down reported no move" means the array is unchanged *)
Lemma down_not_moved : forall ch f l i n,
  snd (down ch f l i n) = i -> fst (down ch f l i n) = l.
Proof.
  destruct f as [|f]; intros l i n; cbn [down]; [reflexivity|].
  destruct (n <=? 2 * i + 1)%nat; [reflexivity|].
  match goal with |- context [if (pri (get l ?J) >=? _)%Z then _ else _] => set (j := J) end.
  assert (i < j)%nat by (subst j; destruct (_ && _); lia).
  destruct (pri (get l j) >=? pri (get l i))%Z; [reflexivity|].
  pose proof (down_pos_ge ch f (swap l i j) j n). lia.
Qed.

Lemma down_fuel_irrelevant : forall ch f1 f2 l i n, (n - i <= f1)%nat -> (n - i <= f2)%nat ->
  down ch f1 l i n = down ch f2 l i n.
Proof.
  induction f1 as [|f1 IH]; intros f2 l i n H1 H2.
  - destruct f2 as [|f2]; [reflexivity|]. cbn [down].
    replace (n <=? 2 * i + 1)%nat with true by lia. reflexivity.
  - destruct f2 as [|f2].
    + cbn [down]. replace (n <=? 2 * i + 1)%nat with true by lia. reflexivity.
    + cbn [down]. destruct (n <=? 2 * i + 1)%nat eqn:E1; [reflexivity|]. apply Nat.leb_gt in E1.
      match goal with |- context [if (pri (get l ?J) >=? _)%Z then _ else _] => set (j := J) end.
      assert (i < j)%nat by (subst j; destruct (_ && _); lia).
      destruct (pri (get l j) >=? pri (get l i))%Z; [reflexivity|].
      apply IH; lia.
Qed.

(* ------------------------------------------------------------------ heap order *)
Definition heap (l : list item) (n : nat) : Prop :=
  forall k, (0 < k < n)%nat -> (P l (parent k) <= P l k)%Z.

(* order everywhere except that position j may be smaller than its parent *)
Definition heap_up (l : list item) (n j : nat) : Prop :=
  (forall k, (0 < k < n)%nat -> k <> j -> (P l (parent k) <= P l k)%Z) /\
  (forall c, (0 < c < n)%nat -> parent c = j -> (0 < j)%nat -> (P l (parent j) <= P l c)%Z).

(* order on every edge that does not touch j, and j's parent below j's children *)
Definition heap_hole (l : list item) (n j : nat) : Prop :=
  (forall k, (0 < k < n)%nat -> k <> j -> parent k <> j -> (P l (parent k) <= P l k)%Z) /\
  (forall c, (0 < c < n)%nat -> parent c = j -> (0 < j)%nat -> (P l (parent j) <= P l c)%Z).

Lemma heap_heap_up : forall l n j, heap l n -> heap_up l n j.
Proof.
  intros l n j H. split.
  - intros k Hk _. now apply H.
  - intros c Hc Pc Hj. subst j. pose proof (parent_lt c ltac:(lia)).
    etransitivity; [apply H; lia|]. apply H; lia.
Qed.

Lemma up_heap : forall f l n j, (j <= f)%nat -> (j < n)%nat -> (n <= length l)%nat ->
  heap_up l n j -> heap (up f l j) n.
Proof.
  induction f as [|f IH]; intros l n j Hf Hj Hn [U1 U2].
  - cbn. intros k Hk. apply U1; lia.
  - cbn [up].
    destruct ((parent j =? j)%nat || (pri (get l j) >=? pri (get l (parent j)))%Z) eqn:E.
    + intros k Hk. destruct (Nat.eq_dec k j) as [->|Nk]; [|now apply U1].
      apply orb_true_iff in E. destruct E as [E|E].
      * apply Nat.eqb_eq in E. pose proof (parent_lt j ltac:(lia)). lia.
      * unfold P. lia.
    + apply orb_false_iff in E. destruct E as [E1 E2]. apply Nat.eqb_neq in E1.
      assert (J0 : (0 < j)%nat) by (destruct j; [now rewrite parent_0 in E1 | lia]).
      pose proof (parent_lt j J0) as PJ.
      set (i := parent j) in *.
      assert (Lt : (P l j < P l i)%Z) by (unfold P; lia).
      apply IH; try lia; [rewrite length_swap; lia|].
      split.
      * intros k Hk Nk. rewrite !P_swap by lia.
        pose proof (parent_lt k ltac:(lia)) as PK.
        destruct (Nat.eqb_spec k j) as [->|Nkj].
        -- fold i. destruct (Nat.eqb_spec i j); [lia|]. rewrite Nat.eqb_refl. lia.
        -- destruct (Nat.eqb_spec k i); [lia|].
           pose proof (U1 k Hk Nkj) as A.
           destruct (Nat.eqb_spec (parent k) j) as [Ej|Nj].
           ++ pose proof (U2 k Hk Ej J0). fold i in H. lia.
           ++ destruct (Nat.eqb_spec (parent k) i) as [Ei|Ni]; [rewrite Ei in A; lia | lia].
      * intros c Hc Pc I0. rewrite !P_swap by lia.
        pose proof (parent_lt i I0) as PI.
        destruct (Nat.eqb_spec (parent i) j); [lia|].
        destruct (Nat.eqb_spec (parent i) i); [lia|].
        pose proof (U1 i ltac:(lia) ltac:(lia)) as A.
        destruct (Nat.eqb_spec c j) as [->|Ncj]; [lia|].
        pose proof (parent_lt c ltac:(lia)).
        destruct (Nat.eqb_spec c i); [lia|].
        pose proof (U1 c Hc Ncj) as B. rewrite Pc in B. lia.
Qed.

(* what is needed of the child-selection test *)
Definition choose_ok (ch : Z -> Z -> bool) : Prop :=
  forall p1 p2, (ch p1 p2 = true -> (p2 <= p1)%Z) /\ (ch p1 p2 = false -> (p1 <= p2)%Z).

Lemma if_choose_ok : choose_ok if_choose.
Proof. intros p1 p2. unfold if_choose. lia. Qed.
Lemma ch_choose_ok : choose_ok ch_choose.
Proof. intros p1 p2. unfold ch_choose. lia. Qed.

Lemma down_heap : forall ch, choose_ok ch -> forall f l n j,
  (n - j <= f)%nat -> (j < n)%nat -> (n <= length l)%nat ->
  heap_hole l n j -> (j = 0%nat \/ (P l (parent j) <= P l j)%Z) ->
  heap (fst (down ch f l j n)) n.
Proof.
  intros ch CH. induction f as [|f IH]; intros l n j Hf Hj Hn [H1 H2] Hp; [lia|].
  cbn [down].
  destruct (n <=? 2 * j + 1)%nat eqn:E1.
  - apply Nat.leb_le in E1. cbn [fst]. intros k Hk.
    destruct (Nat.eq_dec k j) as [->|Nk]; [destruct Hp; [lia|assumption]|].
    destruct (Nat.eq_dec (parent k) j) as [Ek|Nkp]; [|now apply H1].
    apply parent_children in Ek; lia.
  - apply Nat.leb_gt in E1.
    set (j1 := (2 * j + 1)%nat) in *.
    set (c := if ((j1 + 1 <? n)%nat && ch (pri (get l j1)) (pri (get l (j1 + 1)%nat)))
              then (j1 + 1)%nat else j1).
    (* c is a child of j inside the bound, and no larger than the other child *)
    assert (Cc : (c = j1 \/ c = j1 + 1)%nat /\ (c < n)%nat /\
                 (P l c <= P l j1)%Z /\ ((j1 + 1 < n)%nat -> (P l c <= P l (j1 + 1))%Z)).
    { subst c. destruct (j1 + 1 <? n)%nat eqn:E2; cbn [andb].
      - apply Nat.ltb_lt in E2.
        destruct (ch (pri (get l j1)) (pri (get l (j1 + 1)%nat))) eqn:E3;
          destruct (CH (pri (get l j1)) (pri (get l (j1 + 1)%nat))) as [A B]; unfold P.
        + specialize (A E3). repeat split; try lia.
        + specialize (B E3). repeat split; try lia.
      - apply Nat.ltb_ge in E2. unfold P. repeat split; try lia. }
    destruct Cc as [Cc [Cn [C1 C2]]].
    assert (Pc : parent c = j) by (apply parent_children; lia).
    destruct (pri (get l c) >=? pri (get l j))%Z eqn:E4.
    + cbn [fst]. intros k Hk.
      destruct (Nat.eq_dec k j) as [->|Nk]; [destruct Hp; [lia|assumption]|].
      destruct (Nat.eq_dec (parent k) j) as [Ek|Nkp]; [|now apply H1].
      rewrite Ek. apply parent_children in Ek; [|lia].
      assert (Pcj : (P l j <= P l c)%Z) by (unfold P; lia).
      destruct Ek as [->| ->].
      * fold j1. lia.
      * replace (2 * j + 2)%nat with (j1 + 1)%nat in * by lia. specialize (C2 ltac:(lia)). lia.
    + assert (Lt : (P l c < P l j)%Z) by (unfold P; lia).
      apply IH; try lia; [rewrite length_swap; lia| |].
      * split.
        -- intros k Hk Nk Nkp. rewrite !P_swap by lia.
           destruct (Nat.eqb_spec k c); [lia|].
           destruct (Nat.eqb_spec (parent k) c); [lia|].
           destruct (Nat.eqb_spec k j) as [->|Nkj].
           ++ (* k = j : parent j is neither j nor c *)
              pose proof (parent_lt j ltac:(lia)).
              destruct (Nat.eqb_spec (parent j) j); [lia|].
              apply H2; lia.
           ++ destruct (Nat.eqb_spec (parent k) j) as [Ej|Nj].
              ** (* k is the other child of j *)
                 apply parent_children in Ej; [|lia].
                 destruct Ej as [->| ->].
                 --- fold j1. lia.
                 --- replace (2 * j + 2)%nat with (j1 + 1)%nat in * by lia.
                     specialize (C2 ltac:(lia)). lia.
              ** apply H1; assumption.
        -- intros d Hd Pd C0. rewrite !P_swap by lia.
           rewrite Pc.
           pose proof (parent_lt d ltac:(lia)).
           destruct (Nat.eqb_spec j c); [lia|]. rewrite Nat.eqb_refl.
           destruct (Nat.eqb_spec d c); [lia|].
           destruct (Nat.eqb_spec d j); [lia|].
           pose proof (H1 d Hd ltac:(lia) ltac:(lia)) as A. rewrite Pd in A. exact A.
      * right. rewrite !P_swap by lia. rewrite Pc.
        rewrite !Nat.eqb_refl. destruct (Nat.eqb_spec j c); lia.
Qed.

(* the root of a heap is a minimum *)
Lemma root_min : forall l n, heap l n -> forall k, (k < n)%nat -> (P l 0 <= P l k)%Z.
Proof.
  intros l n H k. induction k as [k IH] using lt_wf_ind. intro Hk.
  destruct k as [|k]; [lia|].
  pose proof (parent_lt (S k) ltac:(lia)).
  transitivity (P l (parent (S k))); [apply IH; lia|]. apply H. lia.
Qed.

(* ------------------------------------------------------------------ pieces shared by the operations *)
Lemma swaps_trans : forall m a b c, swaps m a b -> swaps m b c -> swaps m a c.
Proof. induction 1; intro X; [exact X|]. apply sw_step with (i := i) (j := j); auto. Qed.

Definition hwf (q : pq) : Prop := heap (arr q) (length (arr q)) /\ wf_idx (arr q).
Definition cap_ok (q : pq) : Prop := (1 <= cap q)%nat /\ (length (arr q) <= cap q)%nat.

Lemma P_firstn : forall m l k, (k < m)%nat -> P (firstn m l) k = P l k.
Proof. intros. unfold P. now rewrite get_firstn. Qed.

Lemma heap_firstn : forall l m, heap l m -> heap (firstn m l) m.
Proof.
  intros l m H k Hk. pose proof (parent_lt k ltac:(lia)).
  rewrite !P_firstn by lia. now apply H.
Qed.

Lemma wf_idx_firstn : forall l m, wf_idx l -> wf_idx (firstn m l).
Proof.
  intros l m W k Hk. rewrite firstn_length in Hk. rewrite get_firstn by lia. apply W. lia.
Qed.

Lemma keys_app : forall a b, keys (a ++ b) = keys a ++ keys b.
Proof. intros. unfold keys. apply map_app. Qed.

(* x := pq[n-1]; x.index = -1; pq = pq[0:n-1], after swaps that stayed below n-1 *)
Lemma take_last_spec : forall l1 l2 m, length l1 = S m -> swaps m l1 l2 ->
  let '(x, l3) := take_last l2 in
  length l3 = m /\ key x = key (get l1 m) /\ idx x = (-1)%Z /\
  Permutation (keys l1) (key x :: keys l3) /\
  (wf_idx l1 -> wf_idx l3) /\ (heap l2 m -> heap l3 m) /\
  (forall k, (k < m)%nat -> get l3 k = get l2 k).
Proof.
  intros l1 l2 m L Hs. unfold take_last.
  pose proof (swaps_length _ _ _ Hs) as L2. rewrite L in L2. rewrite L2.
  replace (S m - 1)%nat with m by lia.
  assert (Ne : l2 <> []) by (intro X; subst; discriminate).
  pose proof (split_last l2 Ne) as E. rewrite L2 in E. replace (S m - 1)%nat with m in E by lia.
  repeat split.
  - rewrite firstn_length. lia.
  - unfold key, set_idx. cbn. rewrite (swaps_above _ _ _ Hs m) by lia. reflexivity.
  - apply Permutation_sym. etransitivity; [|apply (swaps_perm _ _ _ Hs)].
    pose proof (f_equal keys E) as EK. rewrite keys_app in EK. rewrite EK. cbn.
    replace (key (set_idx (get l2 m) (-1))) with (key (get l2 m)) by reflexivity.
    apply Permutation_cons_append.
  - intro W. apply wf_idx_firstn. eapply swaps_wf_idx; eauto.
  - apply heap_firstn.
  - intros k Hk. now apply get_firstn.
Qed.

(* the array after Swap(i, n-1), seen below the bound m = n-1: a hole at i *)
Lemma swap_last_hole : forall l i m, length l = S m -> (i < m)%nat -> heap l (S m) ->
  heap_hole (swap l i m) m i.
Proof.
  intros l i m L Hi H. split.
  - intros k Hk Nk Nkp. pose proof (parent_lt k ltac:(lia)). rewrite !P_swap by lia.
    destruct (Nat.eqb_spec k m); [lia|]. destruct (Nat.eqb_spec k i); [lia|].
    destruct (Nat.eqb_spec (parent k) m); [lia|]. destruct (Nat.eqb_spec (parent k) i); [lia|].
    apply H. lia.
  - intros c Hc Pc I0. pose proof (parent_lt i I0). rewrite !P_swap by lia.
    destruct (Nat.eqb_spec c m); [lia|]. pose proof (parent_lt c ltac:(lia)).
    destruct (Nat.eqb_spec c i); [lia|].
    destruct (Nat.eqb_spec (parent i) m); [lia|]. destruct (Nat.eqb_spec (parent i) i); [lia|].
    transitivity (P l i); [apply H; lia|]. rewrite <- Pc. apply H. lia.
Qed.

Lemma down_noop : forall ch f l i n,
  (forall c, (0 < c < n)%nat -> parent c = i -> (P l i <= P l c)%Z) ->
  down ch f l i n = (l, i).
Proof.
  destruct f as [|f]; intros l i n H; cbn [down]; [reflexivity|].
  destruct (n <=? 2 * i + 1)%nat eqn:E1; [reflexivity|]. apply Nat.leb_gt in E1.
  match goal with |- context [if (pri (get l ?J) >=? _)%Z then _ else _] => set (j := J) end.
  assert (Hj : (j = 2 * i + 1 \/ j = 2 * i + 2)%nat /\ (j < n)%nat).
  { subst j. destruct (2 * i + 1 + 1 <? n)%nat eqn:E2; cbn [andb].
    - apply Nat.ltb_lt in E2. destruct (ch _ _); lia.
    - lia. }
  assert (parent j = i) by (apply parent_children; lia).
  specialize (H j ltac:(lia) H0). unfold P in H.
  replace (pri (get l j) >=? pri (get l i))%Z with true by lia. reflexivity.
Qed.

(* Swap(i,n-1); down(i,n-1): afterwards the order can only be broken upwards at i, and
   if down moved the entry the order is restored completely *)
Lemma removal_mid : forall ch, choose_ok ch -> forall l i m f,
  length l = S m -> (i < m)%nat -> (m - i <= f)%nat -> heap l (S m) ->
  let l1 := swap l i m in
  heap_up (fst (down ch f l1 i m)) m i /\
  ((i < snd (down ch f l1 i m))%nat -> heap (fst (down ch f l1 i m)) m).
Proof.
  intros ch CH l i m f L Hi Hf H l1.
  pose proof (swap_last_hole l i m L Hi H) as HH. fold l1 in HH.
  assert (L1 : length l1 = S m) by (subst l1; now rewrite length_swap).
  destruct (Nat.eq_dec i 0) as [I0|I0].
  { assert (heap (fst (down ch f l1 i m)) m)
      by (apply down_heap; try lia; [exact CH | exact HH]).
    split; [now apply heap_heap_up | auto]. }
  destruct (Z_le_gt_dec (P l1 (parent i)) (P l1 i)) as [Le|Gt].
  { assert (heap (fst (down ch f l1 i m)) m)
      by (apply down_heap; try lia; [exact CH | exact HH]).
    split; [now apply heap_heap_up | auto]. }
  (* the moved entry is smaller than its new parent: down does nothing *)
  pose proof (parent_lt i ltac:(lia)) as PI.
  assert (Pp : P l1 (parent i) = P l (parent i)).
  { subst l1. rewrite P_swap by lia.
    destruct (Nat.eqb_spec (parent i) m); [lia|]. destruct (Nat.eqb_spec (parent i) i); [lia|].
    reflexivity. }
  assert (Kids : forall c, (0 < c < m)%nat -> parent c = i -> (P l1 i <= P l1 c)%Z).
  { intros c Hc Pc. destruct HH as [_ H2]. specialize (H2 c Hc Pc ltac:(lia)). lia. }
  rewrite (down_noop ch f l1 i m Kids). cbn [fst snd]. split; [|lia].
  destruct HH as [H1 H2]. split; [|exact H2].
  intros k Hk Nk. destruct (Nat.eq_dec (parent k) i) as [E|N]; [|now apply H1].
  rewrite E. now apply Kids.
Qed.

Lemma Permutation_filter : forall (A : Type) (f : A -> bool) l l',
  Permutation l l' -> Permutation (filter f l) (filter f l').
Proof.
  induction 1; cbn.
  - constructor.
  - destruct (f x); [now constructor | assumption].
  - destruct (f x); destruct (f y); try reflexivity. apply perm_swap.
  - etransitivity; eauto.
Qed.

(* ------------------------------------------------------------------ Push (both queues) *)
Lemma push_arr_wf : forall l p v, heap l (length l) -> wf_idx l ->
  let n := length l in
  let l' := up (S n) (l ++ [mkItem p (Z.of_nat n) v]) n in
  heap l' (length l') /\ wf_idx l' /\ Permutation (keys l') ((p, v) :: keys l) /\
  length l' = S n.
Proof.
  intros l p v H W n l'.
  set (l0 := l ++ [mkItem p (Z.of_nat n) v]).
  assert (L0 : length l0 = S n) by (subst l0 n; rewrite app_length; cbn; lia).
  assert (Sw : swaps (S n) l0 l').
  { subst l' l0. apply up_swaps. rewrite app_length. cbn. lia. }
  assert (L' : length l' = S n) by (rewrite (swaps_length _ _ _ Sw); exact L0).
  repeat split.
  - rewrite L'. subst l'. fold l0. apply up_heap; try lia. split.
    + intros k Hk Nk. pose proof (parent_lt k ltac:(lia)).
      unfold P. subst l0. rewrite !get_app_l by (fold n; lia). apply H. fold n. lia.
    + intros c Hc Pc N0. pose proof (parent_lt c ltac:(lia)). lia.
  - eapply swaps_wf_idx; [exact Sw|]. intros k Hk. rewrite L0 in Hk.
    destruct (Nat.eq_dec k n) as [->|Nk].
    + subst l0 n. now rewrite get_app_last.
    + subst l0. rewrite get_app_l by (fold n; lia). apply W. fold n. lia.
  - etransitivity; [apply (swaps_perm _ _ _ Sw)|].
    subst l0. rewrite keys_app. cbn. apply Permutation_sym, Permutation_cons_append.
  - lia.
Qed.

Lemma grow_ok : forall c n, (1 <= c)%nat -> (n <= c)%nat ->
  exists c', grow c n = Some c' /\ (1 <= c')%nat /\ (S n <= c')%nat.
Proof.
  intros c n H1 H2. unfold grow.
  destruct (c <? n + 1)%nat eqn:E.
  - apply Nat.ltb_lt in E. exists (2 * c)%nat.
    replace (2 * c <? n + 1)%nat with false by lia. split; [reflexivity|lia].
  - exists c. rewrite E. split; [reflexivity|]. apply Nat.ltb_ge in E. lia.
Qed.

Theorem if_push_wf : forall q p v q', hwf q -> if_push q p v = Some q' ->
  hwf q' /\ Permutation (keys (arr q')) ((p, v) :: keys (arr q)).
Proof.
  intros q p v q' [H W] E. unfold if_push in E.
  destruct (grow (cap q) (length (arr q))) as [c|]; [|discriminate].
  injection E as <-. cbn [arr].
  destruct (push_arr_wf (arr q) p v H W) as [A [B [C _]]]. repeat split; assumption.
Qed.

(* Push cannot panic once the queue was created with capacity >= 1 *)
Theorem if_push_total : forall q p v, cap_ok q -> exists q', if_push q p v = Some q' /\ cap_ok q'.
Proof.
  intros q p v [C1 C2]. unfold if_push.
  destruct (grow_ok _ _ C1 C2) as [c' [E [D1 D2]]]. rewrite E.
  eexists; split; [reflexivity|]. split; cbn [cap arr]; [exact D1|].
  assert (Sw : swaps (S (length (arr q))) (arr q ++ [mkItem p (Z.of_nat (length (arr q))) v])
                 (up (S (length (arr q))) (arr q ++ [mkItem p (Z.of_nat (length (arr q))) v])
                     (length (arr q)))).
  { apply up_swaps. rewrite app_length. cbn [length]. lia. }
  rewrite (swaps_length _ _ _ Sw), app_length. cbn [length]. lia.
Qed.

Theorem ch_push_wf : forall q p v q', hwf q -> ch_push q p v = Some q' ->
  hwf q' /\ Permutation (keys (arr q')) ((p, v) :: keys (arr q)).
Proof. exact if_push_wf. Qed.

Theorem ch_push_total : forall q p v, cap_ok q -> exists q', ch_push q p v = Some q' /\ cap_ok q'.
Proof. exact if_push_total. Qed.

(* ------------------------------------------------------------------ Pop / Remove *)
(* what every removal establishes *)
Definition removed (q : pq) (i : nat) (x : item) (q' : pq) : Prop :=
  key x = key (get (arr q) i) /\ idx x = (-1)%Z /\
  Permutation (keys (arr q)) (key x :: keys (arr q')) /\
  S (length (arr q')) = length (arr q).

Lemma removed_rest : forall q i x q', (i < length (arr q))%nat -> removed q i x q' ->
  Permutation (keys (arr q')) (firstn i (keys (arr q)) ++ skipn (S i) (keys (arr q))).
Proof.
  intros q i x q' Hi [K [_ [Pm _]]].
  assert (E : keys (arr q) = firstn i (keys (arr q)) ++ key x :: skipn (S i) (keys (arr q))).
  { rewrite K, <- keys_nth. unfold keys in *.
    rewrite <- (firstn_skipn i (map key (arr q))) at 1. f_equal.
    assert (Hl : (i < length (map key (arr q)))%nat) by now rewrite map_length.
    clear - Hl. revert i Hl. induction (map key (arr q)) as [|a r IH]; intros i Hl; cbn in Hl; [lia|].
    destruct i as [|i]; [reflexivity|]. cbn [skipn nth]. rewrite IH by lia. reflexivity. }
  rewrite E in Pm at 1. apply Permutation_sym in Pm. apply Permutation_cons_app_inv in Pm.
  now apply Permutation_sym.
Qed.

Lemma swap_same_len : forall l i j, length (swap l i j) = length l.
Proof. exact length_swap. Qed.

(* Pop (either child-selection rule), on any non-empty array: what comes out is the
   old root, whatever the array content *)
Lemma pop_core_any : forall ch l c, l <> [] ->
  let n := length l in
  let l2 := fst (down ch n (swap l 0 (n - 1)) 0 (n - 1)) in
  let '(x, l3) := take_last l2 in
  removed (mkPq l c) 0 x (mkPq l3 c) /\ (wf_idx l -> wf_idx l3).
Proof.
  intros ch l c Ne n l2.
  assert (Hn : (0 < n)%nat) by (subst n; destruct l; [congruence|cbn; lia]).
  set (m := (n - 1)%nat) in *.
  set (l1 := swap l 0 m) in *.
  assert (L1 : length l1 = S m) by (subst l1 m; rewrite length_swap; fold n; lia).
  assert (Sw : swaps m l1 l2) by (subst l2; apply down_swaps; lia).
  pose proof (take_last_spec l1 l2 m L1 Sw) as T.
  destruct (take_last l2) as [x l3].
  destruct T as [T1 [T2 [T3 [T4 [T5 _]]]]].
  split; [split; [|split; [|split]]|]; cbn [arr].
  - rewrite T2. subst l1. rewrite key_swap by (fold n; lia). now rewrite Nat.eqb_refl.
  - exact T3.
  - etransitivity; [|exact T4]. subst l1. apply Permutation_sym, swap_perm; fold n; lia.
  - fold n. lia.
  - intro W. apply T5. subst l1. apply swap_wf_idx; fold n; try lia. exact W.
Qed.

Lemma pop_core_heap : forall ch, choose_ok ch -> forall l, l <> [] -> heap l (length l) ->
  let n := length l in
  let l2 := fst (down ch n (swap l 0 (n - 1)) 0 (n - 1)) in
  heap (snd (take_last l2)) (n - 1).
Proof.
  intros ch CH l Ne H n l2.
  assert (Hn : (0 < n)%nat) by (subst n; destruct l; [congruence|cbn; lia]).
  set (m := (n - 1)%nat) in *.
  set (l1 := swap l 0 m) in *.
  assert (L1 : length l1 = S m) by (subst l1 m; rewrite length_swap; fold n; lia).
  assert (Sw : swaps m l1 l2) by (subst l2; apply down_swaps; lia).
  pose proof (take_last_spec l1 l2 m L1 Sw) as T.
  destruct (take_last l2) as [x l3]. cbn [snd].
  destruct T as [_ [_ [_ [_ [_ [T6 _]]]]]]. apply T6.
  destruct (Nat.eq_dec m 0) as [M0|M0]; [intros k Hk; lia|].
  subst l2. apply down_heap; [exact CH | lia | lia | lia | | left; reflexivity].
  subst l1. apply swap_last_hole; try lia. replace (S m) with n by lia. exact H.
Qed.

Theorem if_pop_wf : forall q x q', hwf q -> if_pop q = Some (x, q') ->
  hwf q' /\ removed q 0 x q' /\ (forall k, (k < length (arr q))%nat -> (pri x <= P (arr q) k)%Z).
Proof.
  intros [l c] x q' [H W] E. unfold if_pop in E. cbn [arr] in *.
  destruct l as [|a r] eqn:EL; [discriminate|]. rewrite <- EL in *.
  assert (Ne : l <> []) by (rewrite EL; discriminate).
  assert (E' : if_pop_core {| arr := l; cap := c |} = (x, q')) by congruence.
  clear E. rename E' into E. unfold if_pop_core in E. cbn [arr cap] in E.
  pose proof (pop_core_any if_choose l c Ne) as A.
  pose proof (pop_core_heap if_choose if_choose_ok l Ne H) as B.
  cbv zeta in A, B, E.
  destruct (take_last (fst (down if_choose (length l) (swap l 0 (length l - 1)) 0 (length l - 1))))
    as [y l3]. injection E as <- <-.
  unfold removed in *. destruct A as [[K [I [Pm Ln]]] Wf]. cbn [arr snd] in *.
  split; [split|split].
  - cbn [arr]. replace (length l3) with (length l - 1)%nat by lia. exact B.
  - cbn [arr]. now apply Wf.
  - repeat split; assumption.
  - intros k Hk. replace (pri y) with (P l 0) by (unfold P; now injection K).
    now apply (root_min l (length l) H).
Qed.

Theorem ch_pop_wf : forall q x q', hwf q -> ch_pop q = Some (x, q') ->
  hwf q' /\ removed q 0 x q' /\ (forall k, (k < length (arr q))%nat -> (pri x <= P (arr q) k)%Z).
Proof.
  intros [l c] x q' [H W] E. unfold ch_pop in E. cbn [arr] in *.
  destruct l as [|a r] eqn:EL; [discriminate|]. rewrite <- EL in *.
  assert (Ne : l <> []) by (rewrite EL; discriminate).
  assert (E' : ch_pop_core {| arr := l; cap := c |} = (x, q')) by congruence.
  clear E. rename E' into E. unfold ch_pop_core in E. cbn [arr cap] in E.
  pose proof (pop_core_any ch_choose l c Ne) as A.
  pose proof (pop_core_heap ch_choose ch_choose_ok l Ne H) as B.
  cbv zeta in A, B, E.
  destruct (take_last (fst (down ch_choose (length l) (swap l 0 (length l - 1)) 0 (length l - 1))))
    as [y l3]. injection E as <- <-.
  unfold removed in *. destruct A as [[K [I [Pm Ln]]] Wf]. cbn [arr snd] in *.
  split; [split|split].
  - cbn [arr]. replace (length l3) with (length l - 1)%nat by lia. exact B.
  - cbn [arr]. now apply Wf.
  - repeat split; assumption.
  - intros k Hk. replace (pri y) with (P l 0) by (unfold P; now injection K).
    now apply (root_min l (length l) H).
Qed.

(* ------------------------------------------------------------------ Remove *)
Lemma remove_finish : forall l i m l1 l2 c c',
  length l = S m -> length l1 = S m -> key (get l1 m) = key (get l i) ->
  Permutation (keys l1) (keys l) -> (wf_idx l -> wf_idx l1) -> swaps m l1 l2 ->
  let '(x, l3) := take_last l2 in
  removed (mkPq l c) i x (mkPq l3 c') /\ (wf_idx l -> wf_idx l3) /\
  (heap l2 m -> heap l3 (length l3)).
Proof.
  intros l i m l1 l2 c c' L L1 K Pm Wf Sw.
  pose proof (take_last_spec l1 l2 m L1 Sw) as T.
  destruct (take_last l2) as [x l3].
  destruct T as [T1 [T2 [T3 [T4 [T5 [T6 _]]]]]].
  unfold removed. cbn [arr]. repeat split.
  - congruence.
  - exact T3.
  - etransitivity; [apply Permutation_sym, Pm | exact T4].
  - lia.
  - intro W. auto.
  - rewrite T1. exact T6.
Qed.

Lemma heap_weaken : forall l n m, (m <= n)%nat -> heap l n -> heap l m.
Proof. intros l n m Hm H k Hk. apply H. lia. Qed.

(* the array part of Remove(i) for i < n-1, both variants:
     inFlightPqueue:   down(i,n-1); up(i)
     container/heap:   if !down(i,n-1) { up(i) }                         *)
Lemma remove_mid : forall ch, choose_ok ch -> forall l i m, length l = S m -> (i < m)%nat ->
  let l1 := swap l i m in
  let d := down ch (S m) l1 i m in
  forall l2, (l2 = up (S i) (fst d) i \/ ((i < snd d)%nat /\ l2 = fst d)) ->
  swaps m l1 l2 /\ (heap l (S m) -> heap l2 m).
Proof.
  intros ch CH l i m L Hi l1 d l2 Hl2.
  assert (L1 : length l1 = S m) by (subst l1; now rewrite length_swap).
  assert (Sd : swaps m l1 (fst d)) by (subst d; apply down_swaps; lia).
  pose proof (swaps_length _ _ _ Sd) as Ld.
  split.
  - destruct Hl2 as [->|[_ ->]]; [|exact Sd].
    eapply swaps_trans; [exact Sd|].
    apply swaps_mono with (m := S i); try lia. apply up_swaps. lia.
  - intro H.
    destruct (removal_mid ch CH l i m (S m) L Hi ltac:(lia) H) as [A B].
    fold l1 in A, B. fold d in A, B.
    destruct Hl2 as [->|[Mv ->]]; [|now apply B].
    apply up_heap; try lia. exact A.
Qed.

Lemma if_remove_shape : forall q i,
  if_remove q i =
    if ((i <? 0) || (Z.of_nat (length (arr q)) <=? i))%Z then None
    else
      let n := length (arr q) in
      let i' := Z.to_nat i in
      let l2 := if (n - 1 =? i')%nat then arr q
                else up (S i') (fst (down if_choose n (swap (arr q) i' (n - 1)) i' (n - 1))) i' in
      Some (fst (take_last l2), mkPq (snd (take_last l2)) (cap q)).
Proof.
  intros q i. unfold if_remove.
  destruct ((i <? 0) || (Z.of_nat (length (arr q)) <=? i))%Z; [reflexivity|].
  cbv zeta. destruct (take_last _); reflexivity.
Qed.

Theorem if_remove_any : forall q i x q', if_remove q i = Some (x, q') ->
  (0 <= i < Z.of_nat (length (arr q)))%Z /\ removed q (Z.to_nat i) x q' /\
  (wf_idx (arr q) -> wf_idx (arr q')) /\
  (heap (arr q) (length (arr q)) -> heap (arr q') (length (arr q'))).
Proof.
  intros [l c] i x q' E. rewrite if_remove_shape in E. cbn [arr cap] in *.
  destruct ((i <? 0) || (Z.of_nat (length l) <=? i))%Z eqn:R; [discriminate|].
  split; [lia|]. cbv zeta in E.
  set (i' := Z.to_nat i) in *.
  assert (Hi : (i' < length l)%nat) by lia.
  remember (length l) as n eqn:L. destruct n as [|m]; [lia|]. symmetry in L.
  replace (S m - 1)%nat with m in E by lia.
  destruct (Nat.eqb_spec m i') as [Em|Nm].
  - (* the last slot: nothing moves *)
    pose proof (remove_finish l i' m l l c c L L ltac:(now rewrite Em) (Permutation_refl _)
                  (fun w => w) (sw_refl m l)) as F.
    destruct (take_last l) as [y l3]. cbn [fst snd] in E. injection E as <- <-.
    destruct F as [F1 [F2 F3]]. repeat split; try assumption; try apply F1.
    cbn [arr]. intro H. apply F3. apply heap_weaken with (n := S m); [lia|exact H].
  - assert (Him : (i' < m)%nat) by lia.
    set (l1 := swap l i' m) in *.
    set (d := down if_choose (S m) l1 i' m) in *.
    set (l2 := up (S i') (fst d) i') in *.
    destruct (remove_mid if_choose if_choose_ok l i' m L Him l2 (or_introl eq_refl)) as [Sw Hp].
    fold l1 in Sw.
    assert (L1 : length l1 = S m) by (subst l1; now rewrite length_swap).
    assert (K1 : key (get l1 m) = key (get l i')).
    { subst l1. rewrite key_swap by lia. now rewrite Nat.eqb_refl. }
    pose proof (remove_finish l i' m l1 l2 c c L L1 K1 (swap_perm l i' m ltac:(lia) ltac:(lia))
                  (swap_wf_idx l i' m ltac:(lia) ltac:(lia)) Sw) as F.
    destruct (take_last l2) as [y l3]. cbn [fst snd] in E. injection E as <- <-.
    destruct F as [F1 [F2 F3]]. repeat split; try assumption; try apply F1.
    cbn [arr]. intro H. apply F3, Hp. exact H.
Qed.

Theorem if_remove_wf : forall q i x q', hwf q -> if_remove q i = Some (x, q') ->
  hwf q' /\ removed q (Z.to_nat i) x q'.
Proof.
  intros q i x q' [H W] E. destruct (if_remove_any q i x q' E) as [_ [R [Wf Hp]]].
  split; [split; auto | exact R].
Qed.

Theorem if_remove_defined : forall q i,
  (0 <= i < Z.of_nat (length (arr q)))%Z <-> exists r, if_remove q i = Some r.
Proof.
  intros q i. rewrite if_remove_shape.
  destruct ((i <? 0) || (Z.of_nat (length (arr q)) <=? i))%Z eqn:R; split.
  - lia.
  - intros [r X]. discriminate.
  - intros _. eexists. reflexivity.
  - lia.
Qed.

(* container/heap Remove *)
Lemma ch_remove_core_any : forall q i x q', (i < length (arr q))%nat ->
  ch_remove_core q i = (x, q') ->
  removed q i x q' /\ (wf_idx (arr q) -> wf_idx (arr q')) /\
  (heap (arr q) (length (arr q)) -> heap (arr q') (length (arr q'))).
Proof.
  intros [l c] i' x q' Hi E. unfold ch_remove_core in E. cbn [arr cap] in *.
  cbv zeta in E.
  remember (length l) as n eqn:L. destruct n as [|m]; [lia|]. symmetry in L.
  replace (S m - 1)%nat with m in E by lia.
  destruct (Nat.eqb_spec m i') as [Em|Nm].
  - pose proof (remove_finish l i' m l l c (shrink c (S m)) L L ltac:(now rewrite Em) (Permutation_refl _)
                  (fun w => w) (sw_refl m l)) as F.
    destruct (take_last l) as [y l3]. injection E as <- <-.
    destruct F as [F1 [F2 F3]]. repeat split; try assumption; try apply F1.
    cbn [arr]. intro H. apply F3. apply heap_weaken with (n := S m); [lia|exact H].
  - assert (Him : (i' < m)%nat) by lia.
    set (l1 := swap l i' m) in *.
    set (d := down ch_choose (S m) l1 i' m) in *.
    set (l2 := if (i' <? snd d)%nat then fst d else up (S i') (fst d) i').
    assert (E2 : (let '(l1, i'0) := d in if (i' <? i'0)%nat then l1 else up (S i') l1 i') = l2)
      by (subst l2; destruct d; reflexivity).
    rewrite E2 in E.
    assert (Hl2 : l2 = up (S i') (fst d) i' \/ ((i' < snd d)%nat /\ l2 = fst d)).
    { subst l2. destruct (Nat.ltb_spec i' (snd d)); [right; split; [lia|reflexivity] | left; reflexivity]. }
    destruct (remove_mid ch_choose ch_choose_ok l i' m L Him l2 Hl2) as [Sw Hp].
    fold l1 in Sw.
    assert (L1 : length l1 = S m) by (subst l1; now rewrite length_swap).
    assert (K1 : key (get l1 m) = key (get l i')).
    { subst l1. rewrite key_swap by lia. now rewrite Nat.eqb_refl. }
    pose proof (remove_finish l i' m l1 l2 c (shrink c (S m)) L L1 K1 (swap_perm l i' m ltac:(lia) ltac:(lia))
                  (swap_wf_idx l i' m ltac:(lia) ltac:(lia)) Sw) as F.
    destruct (take_last l2) as [y l3]. injection E as <- <-.
    destruct F as [F1 [F2 F3]]. repeat split; try assumption; try apply F1.
    cbn [arr]. intro H. apply F3, Hp. exact H.
Qed.

Theorem ch_remove_any : forall q i x q', ch_remove q i = Some (x, q') ->
  (0 <= i < Z.of_nat (length (arr q)))%Z /\ removed q (Z.to_nat i) x q' /\
  (wf_idx (arr q) -> wf_idx (arr q')) /\
  (heap (arr q) (length (arr q)) -> heap (arr q') (length (arr q'))).
Proof.
  intros q i x q' E. unfold ch_remove in E.
  destruct ((i <? 0) || (Z.of_nat (length (arr q)) <=? i))%Z eqn:R; [discriminate|].
  split; [lia|]. apply ch_remove_core_any; [lia|congruence].
Qed.

Theorem ch_remove_wf : forall q i x q', hwf q -> ch_remove q i = Some (x, q') ->
  hwf q' /\ removed q (Z.to_nat i) x q'.
Proof.
  intros q i x q' [H W] E. destruct (ch_remove_any q i x q' E) as [_ [R [Wf Hp]]].
  split; [split; auto | exact R].
Qed.

Theorem ch_remove_defined : forall q i,
  (0 <= i < Z.of_nat (length (arr q)))%Z <-> exists r, ch_remove q i = Some r.
Proof.
  intros q i. unfold ch_remove.
  destruct ((i <? 0) || (Z.of_nat (length (arr q)) <=? i))%Z eqn:R; split.
  - lia.
  - intros [r X]. discriminate.
  - intros _. eexists. reflexivity.
  - lia.
Qed.

(* ------------------------------------------------------------------ PeekAndShift *)
(* what a [peek] function must satisfy for the scan theorems *)
Definition peek_never_early (peek : pq -> Z -> peek_res * pq) : Prop :=
  forall q t x q', peek q t = (PeekSome x, q') ->
    (pri x <= t)%Z /\ removed q 0 x q'.

Definition peek_spec (peek : pq -> Z -> peek_res * pq) : Prop :=
  forall q t, hwf q ->
    match peek q t with
    | (PeekNone _, q') => q' = q /\ forall k, (k < length (arr q))%nat -> (t < P (arr q) k)%Z
    | (PeekSome x, q') =>
        hwf q' /\ forall k, (k < length (arr q))%nat -> (pri x <= P (arr q) k)%Z
    end.

Lemma nonempty_cons : forall (l : list item) a r, l = a :: r -> l <> [].
Proof. intros; subst; discriminate. Qed.

Theorem if_peek_never_early : peek_never_early if_peek.
Proof.
  intros [l c] t x q' E. unfold if_peek in E. cbn [arr] in E.
  destruct l as [|a r] eqn:EL; [discriminate|]. rewrite <- EL in *.
  destruct (pri a >? t)%Z eqn:G; [discriminate|].
  pose proof (pop_core_any if_choose l c (nonempty_cons _ _ _ EL)) as A. cbv zeta in A.
  unfold if_pop_core in E. cbn [arr cap] in E. cbv zeta in E.
  destruct (take_last _) as [y l3]. injection E as <- <-.
  destruct A as [[K [I [Pm Ln]]] _]. cbn [arr] in *.
  split.
  - replace (pri y) with (pri a); [lia|]. rewrite EL in K. cbn in K. now injection K.
  - repeat split; assumption.
Qed.

Theorem ch_peek_never_early : peek_never_early ch_peek.
Proof.
  intros [l c] t x q' E. unfold ch_peek in E. cbn [arr] in E.
  destruct l as [|a r] eqn:EL; [discriminate|]. rewrite <- EL in *.
  destruct (pri a >? t)%Z eqn:G; [discriminate|].
  destruct (ch_remove_core {| arr := l; cap := c |} 0) as [y q1] eqn:R. injection E as <- <-.
  destruct (ch_remove_core_any {| arr := l; cap := c |} 0%nat y q1 ltac:(cbn [arr]; rewrite EL; cbn; lia) R) as [Rm _].
  split; [|exact Rm].
  destruct Rm as [K _]. cbn [arr] in K. rewrite EL in K. cbn in K.
  replace (pri y) with (pri a); [lia|]. now injection K.
Qed.

Theorem if_peek_spec : peek_spec if_peek.
Proof.
  intros [l c] t [H W]. unfold if_peek. cbn [arr] in *.
  destruct l as [|a r] eqn:EL; [split; [reflexivity|cbn; intros; lia]|]. rewrite <- EL in *.
  assert (Ra : a = get l 0) by (rewrite EL; reflexivity).
  destruct (pri a >? t)%Z eqn:G.
  - split; [reflexivity|]. intros k Hk.
    pose proof (root_min l _ H k Hk). unfold P in *. rewrite <- Ra in *. lia.
  - destruct (if_pop_core {| arr := l; cap := c |}) as [y q1] eqn:R.
    assert (E : if_pop {| arr := l; cap := c |} = Some (y, q1)).
    { unfold if_pop. cbn [arr]. rewrite EL. rewrite <- EL. now rewrite R. }
    destruct (if_pop_wf {| arr := l; cap := c |} y q1 (conj H W) E) as [A [_ B]]. split; assumption.
Qed.

Theorem ch_peek_spec : peek_spec ch_peek.
Proof.
  intros [l c] t [H W]. unfold ch_peek. cbn [arr] in *.
  destruct l as [|a r] eqn:EL; [split; [reflexivity|cbn; intros; lia]|]. rewrite <- EL in *.
  assert (Ra : a = get l 0) by (rewrite EL; reflexivity).
  destruct (pri a >? t)%Z eqn:G.
  - split; [reflexivity|]. intros k Hk.
    pose proof (root_min l _ H k Hk). unfold P in *. rewrite <- Ra in *. lia.
  - destruct (ch_remove_core {| arr := l; cap := c |} 0) as [y q1] eqn:R.
    destruct (ch_remove_core_any {| arr := l; cap := c |} 0%nat y q1 ltac:(cbn [arr]; rewrite EL; cbn; lia) R)
      as [[K _] [Wf Hp]]. cbn [arr] in *.
    split; [split; auto|].
    intros k Hk. replace (pri y) with (P l 0) by (unfold P; now injection K).
    now apply (root_min l _ H).
Qed.

(* on a well-formed heap PeekAndShift returns an entry whenever one is due *)
Corollary peek_due : forall peek, peek_spec peek -> forall q t k, hwf q ->
  (k < length (arr q))%nat -> (P (arr q) k <= t)%Z ->
  exists x q', peek q t = (PeekSome x, q').
Proof.
  intros peek PS q t k Hq Hk Due. specialize (PS q t Hq).
  destruct (peek q t) as [[d|x] q'].
  - destruct PS as [_ A]. specialize (A k Hk). lia.
  - eauto.
Qed.

(* ------------------------------------------------------------------ the scan loop *)
Definition due (t : Z) (kx : Z * Z) : bool := (fst kx <=? t)%Z.
Definition not_due (t : Z) (kx : Z * Z) : bool := negb (fst kx <=? t)%Z.

Lemma all_not_due : forall l t, (forall k, (k < length l)%nat -> (t < P l k)%Z) ->
  filter (due t) (keys l) = [] /\ filter (not_due t) (keys l) = keys l.
Proof.
  induction l as [|a r IH]; intros t H; [split; reflexivity|].
  assert (Ha : (t < pri a)%Z) by (apply (H 0%nat); cbn; lia).
  destruct (IH t) as [A B].
  { intros k Hk. apply (H (S k)). cbn. lia. }
  unfold keys in *. cbn [map filter].
  assert (D1 : due t (key a) = false) by (unfold due, key; cbn [fst]; lia).
  assert (D2 : not_due t (key a) = true) by (unfold not_due, key; cbn [fst]; lia).
  rewrite D1, D2. split; [exact A | now rewrite B].
Qed.

(* never early, for ANY queue content *)
Theorem scan_never_early : forall peek, peek_never_early peek ->
  forall f q t out q', scan peek f q t = (out, q') -> Forall (fun x => (pri x <= t)%Z) out.
Proof.
  intros peek NE. induction f as [|f IH]; intros q t out q' E; cbn [scan] in E.
  - injection E as <- <-. constructor.
  - destruct (peek q t) as [[d|x] q1] eqn:Pk.
    + injection E as <- <-. constructor.
    + destruct (scan peek f q1 t) as [o q2] eqn:Sc. injection E as <- <-.
      constructor; [apply (NE _ _ _ _ Pk) | eapply IH; eauto].
Qed.

Fixpoint sorted_from (lo : Z) (l : list item) : Prop :=
  match l with [] => True | x :: r => (lo <= pri x)%Z /\ sorted_from (pri x) r end.

(* scan-complete: on a well-formed heap one scan at t takes out exactly the entries
   with priority <= t (as a multiset), in non-decreasing priority order, each with its
   back-pointer reset, and leaves a well-formed heap of exactly the others *)
Theorem scan_complete : forall peek, peek_never_early peek -> peek_spec peek ->
  forall f q t out q', hwf q -> (length (arr q) < f)%nat -> scan peek f q t = (out, q') ->
  Permutation (keys out) (filter (due t) (keys (arr q))) /\
  Permutation (keys (arr q')) (filter (not_due t) (keys (arr q))) /\
  hwf q' /\ Forall (fun x => idx x = (-1)%Z) out /\
  (forall lo, (forall k, (k < length (arr q))%nat -> (lo <= P (arr q) k)%Z) -> sorted_from lo out).
Proof.
  intros peek NE PS. induction f as [|f IH]; intros q t out q' Hq Hf E; [lia|].
  cbn [scan] in E. pose proof (PS q t Hq) as Sp.
  destruct (peek q t) as [[d|x] q1] eqn:Pk.
  - injection E as <- <-. destruct Sp as [-> A].
    destruct (all_not_due (arr q) t A) as [B C]. rewrite B, C.
    split; [apply Permutation_refl|]. split; [apply Permutation_refl|].
    split; [exact Hq|]. split; [constructor|]. intros lo _. exact I.
  - destruct (scan peek f q1 t) as [o q2] eqn:Sc. injection E as <- <-.
    destruct (NE _ _ _ _ Pk) as [Le [K [I [Pm Ln]]]].
    destruct Sp as [Hq1 Min].
    destruct (IH q1 t o q2 Hq1 ltac:(lia) Sc) as [A [B [C [D S]]]].
    assert (Dx : due t (key x) = true) by (unfold due, key; cbn; lia).
    assert (Nx : not_due t (key x) = false) by (unfold not_due, key; cbn; lia).
    split; [|split; [|split; [split|split]]].
    + rewrite (Permutation_filter _ (due t) _ _ Pm). cbn [filter]. rewrite Dx. cbn.
      now constructor.
    + rewrite (Permutation_filter _ (not_due t) _ _ Pm). cbn [filter]. rewrite Nx. exact B.
    + apply C.
    + apply C.
    + constructor; assumption.
    + intros lo Hlo. cbn. split.
      * (* x is some entry of q *)
        assert (In (key x) (keys (arr q))) by (rewrite K; unfold keys; apply in_map;
          unfold get; apply nth_In; lia).
        apply In_nth with (d := key dummy) in H. destruct H as [k [Hk Ek]].
        unfold keys in Hk. rewrite map_length in Hk. rewrite keys_nth in Ek.
        specialize (Hlo k Hk). unfold P in Hlo. replace (pri x) with (pri (get (arr q) k)); [exact Hlo|].
        now injection Ek.
      * apply S. intros k Hk.
        (* every entry of q1 is an entry of q, hence >= pri x *)
        assert (In (key (get (arr q1) k)) (keys (arr q))).
        { eapply Permutation_in; [apply Permutation_sym, Pm|]. right.
          unfold keys. apply in_map. unfold get. now apply nth_In. }
        apply In_nth with (d := key dummy) in H. destruct H as [k' [Hk' Ek']].
        unfold keys in Hk'. rewrite map_length in Hk'. rewrite keys_nth in Ek'.
        specialize (Min k' Hk'). unfold P in *.
        replace (pri (get (arr q1) k)) with (pri (get (arr q) k')); [exact Min|]. now injection Ek'.
Qed.

(* ------------------------------------------------------------------ instances for the two queues *)
Theorem if_scan_never_early : forall q t out q',
  if_scan q t = (out, q') -> Forall (fun x => (pri x <= t)%Z) out.
Proof. intros q t. exact (scan_never_early if_peek if_peek_never_early _ q t). Qed.
Theorem ch_scan_never_early : forall q t out q',
  ch_scan q t = (out, q') -> Forall (fun x => (pri x <= t)%Z) out.
Proof. intros q t. exact (scan_never_early ch_peek ch_peek_never_early _ q t). Qed.

Theorem if_scan_complete : forall q t out q', hwf q -> if_scan q t = (out, q') ->
  Permutation (keys out) (filter (due t) (keys (arr q))) /\
  Permutation (keys (arr q')) (filter (not_due t) (keys (arr q))) /\
  hwf q' /\ Forall (fun x => idx x = (-1)%Z) out /\
  (forall lo, (forall k, (k < length (arr q))%nat -> (lo <= P (arr q) k)%Z) -> sorted_from lo out).
Proof.
  intros q t out q' H E.
  exact (scan_complete if_peek if_peek_never_early if_peek_spec _ q t out q' H (Nat.lt_succ_diag_r _) E).
Qed.
Theorem ch_scan_complete : forall q t out q', hwf q -> ch_scan q t = (out, q') ->
  Permutation (keys out) (filter (due t) (keys (arr q))) /\
  Permutation (keys (arr q')) (filter (not_due t) (keys (arr q))) /\
  hwf q' /\ Forall (fun x => idx x = (-1)%Z) out /\
  (forall lo, (forall k, (k < length (arr q))%nat -> (lo <= P (arr q) k)%Z) -> sorted_from lo out).
Proof.
  intros q t out q' H E.
  exact (scan_complete ch_peek ch_peek_never_early ch_peek_spec _ q t out q' H (Nat.lt_succ_diag_r _) E).
Qed.

(* a boolean check of well-formedness, for concrete witnesses *)
Definition hwf_check (l : list item) : bool :=
  forallb (fun k => (k =? 0)%nat || (P l (parent k) <=? P l k)%Z) (seq 0 (length l))
  && forallb (fun k => (idx (get l k) =? Z.of_nat k)%Z) (seq 0 (length l)).

Lemma hwf_check_sound : forall l c, hwf_check l = true -> hwf (mkPq l c).
Proof.
  intros l c H. unfold hwf_check in H. apply andb_true_iff in H. destruct H as [A B].
  rewrite forallb_forall in A, B. split; cbn [arr].
  - intros k Hk. specialize (A k ltac:(apply in_seq; lia)). lia.
  - intros k Hk. specialize (B k ltac:(apply in_seq; lia)). lia.
Qed.
