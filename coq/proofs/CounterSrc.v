(* The rule model/Counter.v rests on - whoever removes a message from the in-flight set takes
   it off its holder's count, and only after the removal succeeded - read off the statement
   skeletons regenerated from the CURRENT source. *)
From Coq Require Import List String Bool.
From NSQV Require Import gen.CoreShape proofs.CoreSrcDefs.
Import ListNotations.
Open Scope string_scope.

Definition has (t : string) (l : list string) : bool := existsb (String.eqb t) l.
(* the first b after the first a *)
Definition before (a b : string) (l : list string) : bool :=
  has b (tl (drop_until a l)) && negb (has b (take_through a l)).

(* the statement after `call a` is `if err != nil {` whose block leaves (return / goto / continue)
   before anything else: what follows runs only when the call succeeded *)
Definition guarded (a : string) (l : list string) : bool :=
  match drop_until a l with
  | _ :: "if err != nil {" :: rest =>
      existsb (fun t => (t =? "return") || (t =? "goto exit") || (t =? "continue")) (take_through "}" rest)
  | _ => false
  end.

Definition src_count_rule : Prop :=
  (* FIN: channel-side pop first, guarded; then the count *)
  before "call client.Channel.FinishMessage" "call client.FinishedMessage" shape_protocolV2_FIN = true /\
  guarded "call client.Channel.FinishMessage" shape_protocolV2_FIN = true /\
  (* REQ likewise *)
  before "call client.Channel.RequeueMessage" "call client.RequeuedMessage" shape_protocolV2_REQ = true /\
  guarded "call client.Channel.RequeueMessage" shape_protocolV2_REQ = true /\
  (* the timeout scan: pop, guarded, then the holder's count *)
  before "call c.popInFlightMessage" "call client.TimedOutMessage" shape_Channel_processInFlightQueue = true /\
  guarded "call c.popInFlightMessage" shape_Channel_processInFlightQueue = true /\
  (* delivery: registered in flight, then counted *)
  before "call subChannel.StartInFlightTimeout" "call client.SendingMessage" shape_protocolV2_messagePump = true /\
  (* Empty: takes the set (initPQ), then one decrement per message taken *)
  before "call c.initPQ" "range discarded {" shape_Channel_empty = true /\
  has "call client.TimedOutMessage" (take_through "}" (drop_until "range discarded {" shape_Channel_empty)) = true /\
  (* .. and the consumer's own Empty() no longer stores into the count *)
  has "call atomic.StoreInt64" shape_clientV2_Empty = false.

Lemma src_count_rule_holds : src_count_rule.
Proof. unfold src_count_rule. repeat split; vm_compute; reflexivity. Qed.
