(* Proofs about model/Quantile.v (C18): the merge of the e2e latency aggregates. *)
From Coq Require Import String List ZArith QArith Bool Lqa.
From NSQV Require Import model.Judge model.Cluster model.Quantile gen.ClusterTables.
Import ListNotations.
Open Scope list_scope.
Open Scope Q_scope.

(* ------------------------------------------------------------------ Qeq_bool *)
Lemma qeqb_refl : forall a, Qeq_bool a a = true.
Proof. intro a. apply Qeq_bool_iff. reflexivity. Qed.
Lemma qeqb_sym : forall a b, Qeq_bool a b = Qeq_bool b a.
Proof.
  intros a b. destruct (Qeq_bool a b) eqn:E1, (Qeq_bool b a) eqn:E2; try reflexivity.
  - apply Qeq_bool_iff in E1. apply Qeq_bool_neq in E2. exfalso. apply E2. symmetry. exact E1.
  - apply Qeq_bool_iff in E2. apply Qeq_bool_neq in E1. exfalso. apply E1. symmetry. exact E2.
Qed.
Lemma qeqb_trans_l : forall a b c, Qeq_bool a b = true -> Qeq_bool a c = Qeq_bool b c.
Proof.
  intros a b c H. apply Qeq_bool_iff in H.
  destruct (Qeq_bool a c) eqn:E1, (Qeq_bool b c) eqn:E2; try reflexivity.
  - apply Qeq_bool_iff in E1. apply Qeq_bool_neq in E2. exfalso. apply E2. rewrite <- H. exact E1.
  - apply Qeq_bool_iff in E2. apply Qeq_bool_neq in E1. exfalso. apply E1. rewrite H. exact E2.
Qed.

(* ------------------------------------------------------------------ the guarded code computes the plain functions *)
Lemma merge_into_ok : forall cur v, merge_into cur v = Ok (merge_p cur v).
Proof.
  intros cur v. unfold merge_into, merge_p, fdiv.
  destruct (Qeq_bool (pe_count cur + oget pe_count v) 0); reflexivity.
Qed.

Lemma add_value_ok : forall p v, add_value (map Some p) v = Ok (map Some (add_value_p p v)).
Proof.
  induction p as [|x r IH]; intro v; simpl.
  - rewrite merge_into_ok. reflexivity.
  - destruct (Qeq_bool (oget pe_q v) (pe_q x)).
    + rewrite merge_into_ok. reflexivity.
    + rewrite IH. reflexivity.
Qed.

Lemma fold_add_value_ok : forall vs p, fold_res add_value vs (map Some p) = Ok (map Some (merge_all p vs)).
Proof.
  induction vs as [|v vs IH]; intro p; simpl. reflexivity.
  rewrite add_value_ok. simpl. apply IH.
Qed.

Lemma merge_all_app : forall p a b, merge_all p (a ++ b) = merge_all (merge_all p a) b.
Proof. intros p a b. unfold merge_all. apply fold_left_app. Qed.

Definition count_from (c : Z) (nodes : list (option e2e)) : Z :=
  fold_left (fun z e => w64 (z + e_count e)%Z) (nonnil nodes) c.

Lemma fold_stats_ok : forall nodes c p,
  fold_res stats_e2e_add nodes (Some (mkEA c (map Some p))) =
  Ok (Some (mkEA (count_from c nodes) (map Some (merge_all p (node_values nodes))))).
Proof.
  induction nodes as [|a nodes IH]; intros c p.
  - reflexivity.
  - destruct a as [e|].
    + cbn [fold_res]. unfold stats_e2e_add at 1. cbn [option_map eagg_add ea_pcts ea_count e2e_decode].
      rewrite fold_add_value_ok. cbn [bind]. rewrite IH.
      unfold node_values, count_from. cbn [nonnil flat_map app fold_left]. rewrite merge_all_app.
      reflexivity.
    + cbn [fold_res]. unfold stats_e2e_add at 1. cbn [option_map eagg_add bind]. rewrite IH. reflexivity.
Qed.

(* the aggregate of a fresh ChannelStats / TopicStats over any nodes: never a panic, never a
   division by zero *)
Theorem e2e_of_nodes_total : forall nodes,
  e2e_of_nodes nodes =
  Ok (match nodes with
      | [] => None
      | _ => Some (mkEA (node_count nodes) (map Some (merge_all [] (node_values nodes))))
      end).
Proof.
  intros [|a nodes]. reflexivity.
  unfold e2e_of_nodes.
  assert (fold_res stats_e2e_add (a :: nodes) None = fold_res stats_e2e_add (a :: nodes) (Some (mkEA 0 (map Some [])))) as H by reflexivity.
  rewrite H. rewrite fold_stats_ok. reflexivity.
Qed.

Lemma decode_plain : forall e,
  ea_pcts (e2e_decode e) = map Some (map (decode_pct (e_count e)) (nonnil (e_pcts e))).
Proof. intro e. unfold e2e_decode. cbn [ea_pcts]. rewrite map_map. reflexivity. Qed.

(* the topic view's channel aggregate: the first node's decoded block is the receiver.  The
   decoder drops null entries, so for ANY blocks -- null entries anywhere, on any node -- the
   merge never assigns into a nil map: no panic, no division by zero *)
Theorem e2e_of_topic_channel_total : forall e nodes,
  e2e_of_topic_channel (Some e :: nodes) =
  Ok (Some (mkEA (count_from (e_count e) nodes)
                 (map Some (merge_all (map (decode_pct (e_count e)) (nonnil (e_pcts e))) (node_values nodes))))).
Proof.
  intros e nodes. unfold e2e_of_topic_channel, e2e_of_receiver, option_map.
  assert (e2e_decode e = mkEA (e_count e) (map Some (map (decode_pct (e_count e)) (nonnil (e_pcts e))))) as H.
  { unfold e2e_decode. rewrite map_map. reflexivity. }
  rewrite H. apply fold_stats_ok.
Qed.
(* decoded blocks hold no nil map *)
Theorem decode_no_nil_map : forall e, existsb is_nil (ea_pcts (e2e_decode e)) = false.
Proof.
  intro e. rewrite decode_plain. induction (map (decode_pct (e_count e)) (nonnil (e_pcts e))) as [|x l IH].
  reflexivity. exact IH.
Qed.
(* whatever the views encode is computed without a panic *)
Theorem e2e_views_never_panic : forall nodes,
  (exists v, e2e_of_nodes nodes = Ok v) /\ (exists v, e2e_of_topic_channel nodes = Ok v).
Proof.
  intro nodes. split.
  - rewrite e2e_of_nodes_total. eexists. reflexivity.
  - destruct nodes as [|[e|] nodes].
    + eexists. reflexivity.
    + rewrite e2e_of_topic_channel_total. eexists. reflexivity.
    + change (e2e_of_topic_channel (None :: nodes)) with (e2e_of_nodes nodes).
      rewrite e2e_of_nodes_total. eexists. reflexivity.
Qed.
Theorem e2e_of_topic_channel_first_nil : forall nodes,
  e2e_of_topic_channel (None :: nodes) = e2e_of_nodes nodes.
Proof. reflexivity. Qed.

(* ------------------------------------------------------------------ what the merge computes, per quantile *)
Lemma merge_p_q : forall cur v, pe_q (merge_p cur v) = pe_q cur.
Proof. intros cur v. unfold merge_p. destruct (Qeq_bool _ 0); reflexivity. Qed.
Lemma merge_p_max : forall cur v, pe_max (merge_p cur v) = qmax (oget pe_max v) (pe_max cur).
Proof. intros cur v. unfold merge_p. destruct (Qeq_bool _ 0); reflexivity. Qed.
Lemma merge_p_count : forall cur v, pe_count (merge_p cur v) = pe_count cur + oget pe_count v.
Proof. intros cur v. unfold merge_p. destruct (Qeq_bool _ 0); reflexivity. Qed.

Definition step (k : Q) (acc : option pent) (v : option pent) : option pent :=
  if Qeq_bool (oget pe_q v) k
  then Some (merge_p (match acc with Some c => c | None => fresh (oget pe_q v) end) v)
  else acc.

Lemma find_q_add : forall p v k, find_q k (add_value_p p v) = step k (find_q k p) v.
Proof.
  induction p as [|x r IH]; intros v k; unfold step.
  - cbn [add_value_p find_q]. rewrite merge_p_q. cbn [fresh pe_q].
    rewrite (qeqb_sym k). destruct (Qeq_bool (oget pe_q v) k); reflexivity.
  - cbn [add_value_p]. destruct (Qeq_bool (oget pe_q v) (pe_q x)) eqn:E.
    + cbn [find_q]. rewrite merge_p_q.
      rewrite (qeqb_sym k (pe_q x)). rewrite <- (qeqb_trans_l _ _ k E).
      destruct (Qeq_bool (oget pe_q v) k); reflexivity.
    + cbn [find_q]. destruct (Qeq_bool k (pe_q x)) eqn:E2.
      * assert (Qeq_bool (oget pe_q v) k = false) as E3.
        { destruct (Qeq_bool (oget pe_q v) k) eqn:E3; [|reflexivity].
          rewrite (qeqb_trans_l _ _ (pe_q x) E3) in E. congruence. }
        rewrite E3. reflexivity.
      * rewrite IH. reflexivity.
Qed.

Lemma find_q_merge_all : forall vs p k, find_q k (merge_all p vs) = fold_left (step k) vs (find_q k p).
Proof.
  induction vs as [|v vs IH]; intros p k. reflexivity.
  cbn [merge_all fold_left]. fold (merge_all (add_value_p p v) vs). rewrite IH. rewrite find_q_add. reflexivity.
Qed.

Definition mchain (cur : pent) (l : list (option pent)) : pent := fold_left merge_p l cur.

Lemma fold_step_some : forall k vs cur,
  fold_left (step k) vs (Some cur) = Some (mchain cur (mine k vs)).
Proof.
  intros k. induction vs as [|v vs IH]; intro cur. reflexivity.
  cbn [fold_left mine filter]. unfold step at 2. destruct (Qeq_bool (oget pe_q v) k).
  - rewrite IH. reflexivity.
  - apply IH.
Qed.

Lemma fold_step_none : forall k vs,
  fold_left (step k) vs None =
  match mine k vs with
  | [] => None
  | v :: r => Some (mchain (fresh (oget pe_q v)) (v :: r))
  end.
Proof.
  intros k. induction vs as [|v vs IH]. reflexivity.
  cbn [fold_left mine filter]. unfold step at 2. destruct (Qeq_bool (oget pe_q v) k).
  - rewrite fold_step_some. reflexivity.
  - exact IH.
Qed.

Lemma mchain_q : forall l cur, pe_q (mchain cur l) = pe_q cur.
Proof.
  induction l as [|v l IH]; intro cur. reflexivity.
  unfold mchain. cbn [fold_left]. fold (mchain (merge_p cur v) l). rewrite IH. apply merge_p_q.
Qed.
Lemma mchain_max : forall l cur, pe_max (mchain cur l) = maxQ (pe_max cur) (map (oget pe_max) l).
Proof.
  induction l as [|v l IH]; intro cur. reflexivity.
  unfold mchain, maxQ. cbn [fold_left map]. fold (mchain (merge_p cur v) l). rewrite IH. rewrite merge_p_max. reflexivity.
Qed.
Lemma mchain_count : forall l cur, pe_count (mchain cur l) == pe_count cur + sumQ (map (oget pe_count) l).
Proof.
  induction l as [|v l IH]; intro cur.
  - cbn. ring.
  - unfold mchain. cbn [fold_left map sumQ]. fold (mchain (merge_p cur v) l). rewrite IH. rewrite merge_p_count. ring.
Qed.

Lemma merge_p_prod : forall cur v, 0 <= pe_count cur -> 0 <= oget pe_count v ->
  pe_avg (merge_p cur v) * pe_count (merge_p cur v) == pe_avg cur * pe_count cur + oget pe_count v * oget pe_avg v.
Proof.
  intros cur v H1 H2. unfold merge_p.
  destruct (Qeq_bool (pe_count cur + oget pe_count v) 0) eqn:E; cbn [pe_avg pe_count].
  - apply Qeq_bool_iff in E.
    assert (pe_count cur == 0) as Z1 by lra. assert (oget pe_count v == 0) as Z2 by lra.
    rewrite Z1, Z2. ring.
  - apply Qeq_bool_neq in E. field. exact E.
Qed.

Lemma mchain_prod : forall l cur, 0 <= pe_count cur -> (forall v, In v l -> 0 <= oget pe_count v) ->
  pe_avg (mchain cur l) * pe_count (mchain cur l) ==
  pe_avg cur * pe_count cur + sumQ (map (fun v => oget pe_count v * oget pe_avg v) l).
Proof.
  induction l as [|v l IH]; intros cur H1 H2.
  - cbn. ring.
  - unfold mchain. cbn [fold_left map sumQ]. fold (mchain (merge_p cur v) l).
    rewrite IH.
    + rewrite merge_p_prod. ring. exact H1. apply H2. left. reflexivity.
    + rewrite merge_p_count. assert (0 <= oget pe_count v) by (apply H2; left; reflexivity). lra.
    + intros w Hw. apply H2. right. exact Hw.
Qed.

(* after at least one merge step an entry whose accumulated count is zero has average zero *)
Lemma mchain_zero : forall l cur, l <> [] -> pe_count (mchain cur l) == 0 -> pe_avg (mchain cur l) == 0.
Proof.
  induction l as [|v l IH]; intros cur Hne Hc. congruence.
  destruct l as [|w l].
  - unfold mchain in *. cbn [fold_left] in *. unfold merge_p in *.
    destruct (Qeq_bool (pe_count cur + oget pe_count v) 0) eqn:E; cbn [pe_avg pe_count] in *.
    + reflexivity.
    + apply Qeq_bool_neq in E. contradiction.
  - unfold mchain in *. cbn [fold_left] in *. apply (IH (merge_p cur v)). discriminate. exact Hc.
Qed.

Lemma mine_key : forall k vs v, In v (mine k vs) -> oget pe_q v == k.
Proof. intros k vs v H. apply filter_In in H. apply Qeq_bool_iff. apply H. Qed.

(* a fresh aggregate (GetNSQDStats' channel map, the topic view's own aggregate) after any
   sequence of elements, for every quantile k: there is an entry iff some element carries k;
   its count is the sum of their counts, its max the largest of their maxima (and 0), and --
   counts being numbers of samples, i.e. not negative -- its average times its count is the
   sum of count * average: the average is the weighted mean, and it is 0 when nothing was counted *)
Theorem e2e_merge_spec : forall values k,
  let m := mine k values in
  match find_q k (merge_all [] values) with
  | None => m = []
  | Some e =>
      m <> [] /\ pe_q e == k /\
      pe_count e == sumQ (map (oget pe_count) m) /\
      pe_max e = maxQ 0 (map (oget pe_max) m) /\
      ((forall v, In v m -> 0 <= oget pe_count v) ->
         pe_avg e * pe_count e == sumQ (map (fun v => oget pe_count v * oget pe_avg v) m) /\
         (0 < pe_count e ->
            pe_avg e == sumQ (map (fun v => oget pe_count v * oget pe_avg v) m) / sumQ (map (oget pe_count) m))) /\
      (pe_count e == 0 -> pe_avg e == 0)
  end.
Proof.
  intros values k m. rewrite find_q_merge_all. cbn [find_q]. rewrite fold_step_none. fold m.
  destruct m as [|v r] eqn:Em. reflexivity.
  assert (In v (mine k values)) as Hin by (fold m; rewrite Em; left; reflexivity).
  split. discriminate.
  split. rewrite mchain_q. cbn [fresh pe_q]. apply (mine_key k values v Hin).
  split. rewrite mchain_count. cbn [fresh pe_count]. ring.
  split. rewrite mchain_max. reflexivity.
  split.
  - intro Hnn.
    assert (pe_avg (mchain (fresh (oget pe_q v)) (v :: r)) * pe_count (mchain (fresh (oget pe_q v)) (v :: r)) ==
            sumQ (map (fun v0 => oget pe_count v0 * oget pe_avg v0) (v :: r))) as Hp.
    { rewrite mchain_prod. cbn [fresh pe_avg pe_count]. ring. cbn [fresh pe_count]. lra. exact Hnn. }
    split. exact Hp.
    intro Hpos.
    assert (pe_count (mchain (fresh (oget pe_q v)) (v :: r)) == sumQ (map (oget pe_count) (v :: r))) as Hc.
    { rewrite mchain_count. cbn [fresh pe_count]. ring. }
    rewrite <- Hp. rewrite <- Hc. field. lra.
  - apply mchain_zero. discriminate.
Qed.

(* the same onto a receiver that already has entries (the topic view's channels: the first
   node's decoded aggregate) *)
Theorem e2e_merge_onto : forall p values k cur, find_q k p = Some cur ->
  let m := mine k values in
  exists e, find_q k (merge_all p values) = Some e /\ pe_q e = pe_q cur /\
    pe_count e == pe_count cur + sumQ (map (oget pe_count) m) /\
    pe_max e = maxQ (pe_max cur) (map (oget pe_max) m) /\
    (0 <= pe_count cur -> (forall v, In v m -> 0 <= oget pe_count v) ->
       pe_avg e * pe_count e == pe_avg cur * pe_count cur + sumQ (map (fun v => oget pe_count v * oget pe_avg v) m)) /\
    (m <> [] -> pe_count e == 0 -> pe_avg e == 0).
Proof.
  intros p values k cur Hf m. exists (mchain cur m).
  split. rewrite find_q_merge_all, Hf. apply fold_step_some.
  split. apply mchain_q.
  split. apply mchain_count.
  split. apply mchain_max.
  split. intros H1 H2. apply mchain_prod; assumption.
  apply mchain_zero.
Qed.

(* a quantile no element carries keeps the receiver's entry (or none) *)
Theorem e2e_merge_untouched : forall p values k, mine k values = [] ->
  find_q k (merge_all p values) = find_q k p.
Proof.
  intros p values k Hm. rewrite find_q_merge_all.
  destruct (find_q k p) as [cur|].
  - rewrite fold_step_some, Hm. reflexivity.
  - rewrite fold_step_none, Hm. reflexivity.
Qed.

(* the entries of the result carry pairwise different quantiles *)
Fixpoint distinct_q (p : list pent) : bool :=
  match p with
  | [] => true
  | x :: r => negb (existsb (fun y => Qeq_bool (pe_q x) (pe_q y)) r) && distinct_q r
  end.
Lemma add_value_keys : forall p v k,
  existsb (fun y => Qeq_bool k (pe_q y)) (add_value_p p v) =
  existsb (fun y => Qeq_bool k (pe_q y)) p || Qeq_bool k (oget pe_q v).
Proof.
  induction p as [|x r IH]; intros v k.
  - cbn [add_value_p existsb]. rewrite merge_p_q. cbn [fresh pe_q]. rewrite orb_false_r. reflexivity.
  - cbn [add_value_p]. destruct (Qeq_bool (oget pe_q v) (pe_q x)) eqn:E.
    + cbn [existsb]. rewrite merge_p_q.
      rewrite (qeqb_sym k (oget pe_q v)). rewrite (qeqb_trans_l _ _ k E). rewrite (qeqb_sym (pe_q x) k).
      destruct (Qeq_bool k (pe_q x)); cbn; [reflexivity|]. rewrite orb_false_r. reflexivity.
    + cbn [existsb]. rewrite IH. rewrite orb_assoc. reflexivity.
Qed.
Lemma add_value_distinct : forall p v, distinct_q p = true -> distinct_q (add_value_p p v) = true.
Proof.
  induction p as [|x r IH]; intros v H. reflexivity.
  cbn [distinct_q] in H. apply andb_true_iff in H. destruct H as [H1 H2].
  cbn [add_value_p]. destruct (Qeq_bool (oget pe_q v) (pe_q x)) eqn:E.
  - cbn [distinct_q]. rewrite merge_p_q. rewrite H1, H2. reflexivity.
  - cbn [distinct_q]. rewrite add_value_keys. rewrite (qeqb_sym (pe_q x)). rewrite E.
    rewrite orb_false_r. rewrite H1. cbn. apply IH. exact H2.
Qed.
Theorem merge_all_distinct : forall vs p, distinct_q p = true -> distinct_q (merge_all p vs) = true.
Proof.
  induction vs as [|v vs IH]; intros p H. exact H.
  cbn [merge_all fold_left]. fold (merge_all (add_value_p p v) vs). apply IH. apply add_value_distinct. exact H.
Qed.

(* ------------------------------------------------------------------ order of the nodes *)
(* the code merges the nodes in the order its fetch goroutines finish (then sorted by host
   name): for every quantile the count, the max and -- counts not negative, something counted --
   the average are the same whatever the order *)
From Coq Require Import Permutation.
Lemma sumQ_perm : forall l l', Permutation l l' -> sumQ l == sumQ l'.
Proof.
  induction 1; cbn [sumQ].
  - reflexivity.
  - rewrite IHPermutation. reflexivity.
  - ring.
  - rewrite IHPermutation1. exact IHPermutation2.
Qed.
Lemma mine_perm : forall k l l', Permutation l l' -> Permutation (mine k l) (mine k l').
Proof.
  intros k l l' H. unfold mine. induction H; cbn [filter].
  - constructor.
  - destruct (Qeq_bool (oget pe_q x) k); [constructor|]; exact IHPermutation.
  - destruct (Qeq_bool (oget pe_q x) k), (Qeq_bool (oget pe_q y) k); try apply Permutation_refl; constructor.
  - eapply Permutation_trans; eassumption.
Qed.

Theorem e2e_merge_order : forall values values' k e e', Permutation values values' ->
  find_q k (merge_all [] values) = Some e -> find_q k (merge_all [] values') = Some e' ->
  pe_count e == pe_count e' /\
  ((forall v, In v values -> 0 <= oget pe_count v) -> 0 < pe_count e -> pe_avg e == pe_avg e') /\
  (pe_count e == 0 -> pe_avg e == pe_avg e').
Proof.
  intros values values' k e e' HP He He'.
  pose proof (e2e_merge_spec values k) as S. rewrite He in S. cbv zeta in S.
  pose proof (e2e_merge_spec values' k) as S'. rewrite He' in S'. cbv zeta in S'.
  destruct S as (_ & _ & Sc & _ & Sp & Sz). destruct S' as (_ & _ & Sc' & _ & Sp' & Sz').
  pose proof (mine_perm k _ _ HP) as HM.
  assert (pe_count e == pe_count e') as Hc.
  { rewrite Sc, Sc'. apply sumQ_perm. apply Permutation_map. exact HM. }
  split. exact Hc.
  split.
  - intros Hnn Hpos.
    assert (forall v, In v (mine k values) -> 0 <= oget pe_count v) as N1.
    { intros v Hv. apply Hnn. apply filter_In in Hv. apply Hv. }
    assert (forall v, In v (mine k values') -> 0 <= oget pe_count v) as N2.
    { intros v Hv. apply N1. apply (Permutation_in v (Permutation_sym HM)). exact Hv. }
    destruct (Sp N1) as [_ A1]. destruct (Sp' N2) as [_ A2].
    rewrite (A1 Hpos). rewrite A2 by (rewrite <- Hc; exact Hpos).
    rewrite (sumQ_perm _ _ (Permutation_map (fun v => oget pe_count v * oget pe_avg v) HM)).
    rewrite (sumQ_perm _ _ (Permutation_map (oget pe_count) HM)). reflexivity.
  - intro Hz. rewrite (Sz Hz). rewrite Sz'. reflexivity. rewrite <- Hc. exact Hz.
Qed.

(* ------------------------------------------------------------------ the source the model was written against *)
(* every statement of E2eProcessingLatencyAggregate.Add and of UnmarshalJSON's loop, regenerated
   from internal/quantile/aggregate.go on every run (gen/ClusterTables.v): the nil test, the
   search by "quantile", the appended map, max, count, the zero-count test in front of the
   division, the incremental mean; the decoder's skip of null entries and the list it keeps *)
Definition quantile_add_expected : list String.string := [
    "if e2 == nil {"; "return"; "}"; "e.Addr = ""*"""; "p := e.Percentiles"; "e.Count += e2.Count";
    "for _, value := range e2.Percentiles {"; "i := -1"; "for j, v := range p {";
    "if value[""quantile""] == v[""quantile""] {"; "i = j"; "break"; "}"; "}"; "if i == -1 {"; "i = len(p)";
    "e.Percentiles = append(p, make(?))"; "p = e.Percentiles"; "p[i][""quantile""] = value[""quantile""]";
    "}"; "p[i][""max""] = math.Max(value[""max""], p[i][""max""])";
    "p[i][""min""] = math.Min(value[""max""], p[i][""max""])"; "p[i][""count""] += value[""count""]";
    "if p[i][""count""] == 0 {"; "p[i][""average""] = 0"; "continue"; "}";
    "delta := value[""average""] - p[i][""average""]"; "R := delta * value[""count""] / p[i][""count""]";
    "p[i][""average""] = p[i][""average""] + R"; "}"; "sort.Sort(e)"]%string.
Definition quantile_unmarshal_expected : list String.string := [
    "for _, p := range resp.Percentiles {"; "if p == nil {"; "continue"; "}"; "p[""min""] = p[""value""]";
    "p[""max""] = p[""value""]"; "p[""average""] = p[""value""]"; "p[""count""] = float64(resp.Count)"; "percentiles = append(percentiles, p)"; "}"]%string.
Definition quantile_lists_expected : list String.string :=
  ["percentiles := resp.Percentiles[:0]"; "e.Percentiles = percentiles"]%string.
Theorem quantile_shapes_current :
  quantile_add_body = quantile_add_expected /\ quantile_unmarshal_loop = quantile_unmarshal_expected /\
  quantile_unmarshal_lists = quantile_lists_expected.
Proof. repeat split; reflexivity. Qed.

(* ------------------------------------------------------------------ witnesses *)
(* an idle channel on two nodes (count 0 everywhere) and a busy third one *)
Example e2e_witness_idle :
  let idle := Some (mkE2e 0 [Some (mkPct (99 # 100) 0); Some (mkPct (1 # 2) 0)]) in
  let busy := Some (mkE2e 3 [Some (mkPct (99 # 100) 1200); Some (mkPct (1 # 2) 400)]) in
  (match e2e_of_nodes [idle; idle] with
   | Ok (Some e) => map (fun p => (Qeq_bool (oget pe_count p) 0, Qeq_bool (oget pe_avg p) 0)) (ea_pcts e)
   | _ => [] end,
   match e2e_of_nodes [idle; busy; None; busy] with
   | Ok (Some e) => map (fun p => (Qeq_bool (oget pe_count p) 6, Qeq_bool (oget pe_avg p) (oget pe_max p))) (ea_pcts e)
   | _ => [] end)
  = ([(true, true); (true, true)], [(true, true); (true, true)]).
Proof. vm_compute. reflexivity. Qed.

(* dropping the zero test divides 0 by 0: that is what [fdiv] answers [Recovered] for *)
Example e2e_witness_division : fdiv ((0 - 0) * 0) (0 + 0) = Recovered.
Proof. reflexivity. Qed.

(* null entries are dropped by the decoder: two nodes serving "percentiles":[null] (the F19
   witness), and a null entry against a quantile-0 entry, merge to a finite aggregate; a nil map
   in a receiver can only be put there by hand, and then Add's assignment into it panics *)
Example e2e_witness_null_entry :
  (match e2e_of_topic_channel [Some (mkE2e 1 [None]); Some (mkE2e 1 [None])] with
   | Ok (Some e) => Some (ea_count e, length (ea_pcts e)) | _ => None end,
   match e2e_of_topic_channel [Some (mkE2e 1 [None]); Some (mkE2e 2 [Some (mkPct 0 7)])] with
   | Ok (Some e) => Some (ea_count e, length (ea_pcts e)) | _ => None end,
   e2e_of_receiver (Some (with_nil_maps 1 (e2e_decode (mkE2e 1 [None])))) [Some (mkE2e 2 [Some (mkPct 0 7)])])
  = (Some (2%Z, 0%nat), Some (3%Z, 1%nat), Recovered).
Proof. vm_compute. reflexivity. Qed.
