(* C13, per-consumer counters: in every history, a consumer's finish / requeue / message
   counters equal the number of FINs and REQs it had accepted and the number of messages
   delivered to it (what that consumer actually did), by induction over the history. *)
From Coq Require Import List NArith ZArith Bool Lia.
From RecordUpdate Require Import RecordUpdate.
From NSQV Require Import model.Core proofs.CoreBase proofs.CoreFlow proofs.CoreCountInv.
Import ListNotations.
Local Open Scope N_scope.

Definition triple (kl : client) : N * N * N := (k_fincount kl, k_reqcount kl, k_msgcount kl).
Definition counts (s : state) (k : N) : N * N * N :=
  match find_client s k with Some kl => triple kl | None => (0, 0, 0) end.
Definition add3 (a b : N * N * N) : N * N * N :=
  let '(a1, a2, a3) := a in let '(b1, b2, b3) := b in (a1 + b1, a2 + b2, a3 + b3).

(* what an operation and its answer mean for consumer k's counters *)
Definition delta (o : op) (r : resp) (k : N) : N * N * N :=
  match o, r with
  | OFin k' _, ROk => if k' =? k then (1, 0, 0) else (0, 0, 0)
  | OReq k' _ _ _, ROk => if k' =? k then (0, 1, 0) else (0, 0, 0)
  | ODeliver k' _ _, RDelivered _ => if k' =? k then (0, 0, 1) else (0, 0, 0)
  | _, _ => (0, 0, 0)
  end.

Fixpoint tally (cfg : config) (s : state) (ops : list op) (k : N) : N * N * N :=
  match ops with
  | [] => (0, 0, 0)
  | o :: r => add3 (delta o (snd (step cfg s o)) k) (tally cfg (fst (step cfg s o)) r k)
  end.

Lemma add3_0_r a : add3 a (0, 0, 0) = a.
Proof. destruct a as [[a1 a2] a3]. cbn. rewrite !N.add_0_r. reflexivity. Qed.
Lemma add3_assoc a b c : add3 (add3 a b) c = add3 a (add3 b c).
Proof. destruct a as [[? ?] ?], b as [[? ?] ?], c as [[? ?] ?]. cbn. rewrite !N.add_assoc. reflexivity. Qed.

Lemma find_map_id k (G : client -> client) (HG : forall x, k_id (G x) = k_id x) l :
  find (fun x => k_id x =? k) (map G l) = option_map G (find (fun x => k_id x =? k) l).
Proof.
  induction l as [|a l IH]; cbn; [reflexivity|]. rewrite HG. destruct (k_id a =? k); [reflexivity|exact IH].
Qed.

Lemma counts_clients_eq s s' k : s_clients s' = s_clients s -> counts s' k = counts s k.
Proof. intros E. unfold counts, find_client. rewrite E. reflexivity. Qed.

Lemma counts_map s s' (G : client -> client) k :
  s_clients s' = map G (s_clients s) -> (forall x, k_id (G x) = k_id x) ->
  counts s' k = match find_client s k with Some kl => triple (G kl) | None => (0, 0, 0) end.
Proof.
  intros E HG. unfold counts, find_client. rewrite E, find_map_id by exact HG.
  destruct (find _ (s_clients s)); reflexivity.
Qed.

Lemma counts_map_same s s' (G : client -> client) k :
  s_clients s' = map G (s_clients s) -> (forall x, k_id (G x) = k_id x /\ triple (G x) = triple x) ->
  counts s' k = counts s k.
Proof.
  intros E HG. rewrite (counts_map s s' G k E) by (intros; apply HG).
  unfold counts. destruct (find_client s k); [apply HG|reflexivity].
Qed.

Lemma counts_upd_client s k' g k :
  (forall x, k_id (g x) = k_id x) ->
  counts (upd_client s k' g) k =
  if k' =? k then match find_client s k with Some kl => triple (g kl) | None => (0, 0, 0) end else counts s k.
Proof.
  intros Hg. rewrite (counts_map s _ (fun x => if k_id x =? k' then g x else x) k); [|reflexivity|].
  - unfold counts. destruct (find_client s k) as [kl|] eqn:F; [|destruct (k' =? k); reflexivity].
    apply find_client_id in F. rewrite F, (N.eqb_sym k k'). destruct (k' =? k); reflexivity.
  - intros x. destruct (k_id x =? k'); [apply Hg|reflexivity].
Qed.

Lemma find_app_one k l x :
  find (fun y => k_id y =? k) (l ++ [x]) =
  match find (fun y => k_id y =? k) l with Some y => Some y | None => if k_id x =? k then Some x else None end.
Proof.
  induction l as [|a l IH]; cbn; [reflexivity|]. destruct (k_id a =? k); [reflexivity|exact IH].
Qed.

Lemma step_counts cfg s o k :
  counts (fst (step cfg s o)) k = add3 (counts s k) (delta o (snd (step cfg s o)) k).
Proof.
  destruct o; cbn [step].
  - (* OCreateTopic *) cbn [fst snd delta]. rewrite add3_0_r. apply counts_clients_eq.
    unfold ensure_topic. destruct (find_topic s t); reflexivity.
  - destruct (find_topic s t) eqn:E; cbn [fst snd delta]; rewrite add3_0_r; [|reflexivity].
    apply counts_clients_eq. unfold pump_topic, ensure_chan, ensure_topic. rewrite E. reflexivity.
  - cbn [fst snd delta]. rewrite add3_0_r. apply counts_clients_eq.
    unfold pump_topic, ensure_topic. destruct (find_topic s t); reflexivity.
  - (* OConnect *) destruct (find_client s k0) eqn:E; cbn [fst snd delta]; rewrite add3_0_r; [reflexivity|].
    unfold counts, find_client. cbn. rewrite find_app_one. unfold find_client in E.
    destruct (find (fun y => k_id y =? k) (s_clients s)); [reflexivity|]. cbn. destruct (k0 =? k); reflexivity.
  - (* OSub *) destruct (find_client s k0) as [kl|]; [|cbn; rewrite add3_0_r; reflexivity].
    destruct ((k_state kl =? st_init) && k_alive kl); cbn [fst snd delta]; rewrite add3_0_r; [|reflexivity].
    match goal with |- counts (pump_topic _ _ ?X _) _ = _ =>
      transitivity (counts X k); [apply counts_clients_eq; reflexivity|] end.
    rewrite counts_upd_client by reflexivity.
    assert (Ec : forall k, counts (upd_chan (ensure_chan s t c teph ceph) t c
              (fun ch => ch <| c_clients ::= fun l => l ++ [k0] |>)) k = counts s k).
    { intros k1. apply counts_clients_eq. unfold ensure_chan, ensure_topic. destruct (find_topic s t); reflexivity. }
    destruct (k0 =? k); [|apply Ec].
    rewrite <- (Ec k). unfold counts.
    destruct (find_client _ k); reflexivity.
  - (* ORdy *) destruct (find_client s k0) as [kl|] eqn:F; [|cbn; rewrite add3_0_r; reflexivity].
    destruct (k_state kl =? st_closing); [cbn; rewrite add3_0_r; reflexivity|].
    destruct (k_state kl =? st_subscribed); cbn [fst snd delta]; rewrite add3_0_r; [|reflexivity].
    rewrite counts_upd_client by reflexivity. destruct (k0 =? k); [|reflexivity].
    unfold counts. destruct (find_client s k); reflexivity.
  - (* ODeliver *) destruct (find_client s k0) as [kl|] eqn:F; [|cbn; rewrite add3_0_r; reflexivity].
    destruct (k_sub kl) as [[t c]|]; [|cbn; rewrite add3_0_r; reflexivity].
    destruct (get_chan s t c) as [ch|]; [|cbn; rewrite add3_0_r; reflexivity].
    destruct (deliverable s kl ch id); cbn [fst snd delta]; [|rewrite add3_0_r; reflexivity].
    rewrite counts_upd_client by reflexivity.
    destruct (N.eqb_spec k0 k) as [E|E].
    + subst k0. unfold counts. change (find_client (upd_chan s t c _) k) with (find_client s k).
      rewrite F. unfold triple. cbn. rewrite !N.add_0_r, N.add_1_r. reflexivity.
    + rewrite add3_0_r. apply counts_clients_eq. reflexivity.
  - (* OFin *) destruct (answering s k0) as [[[[[kl t] c] ch]|]|] eqn:A; try (cbn; rewrite add3_0_r; reflexivity).
    destruct (holds ch k0 id); cbn [fst snd delta]; [|rewrite add3_0_r; reflexivity].
    apply answering_spec in A. destruct A as (F & _ & _).
    rewrite counts_upd_client by reflexivity.
    destruct (N.eqb_spec k0 k) as [E|E].
    + subst k0. unfold counts. change (find_client (upd_chan s t c _) k) with (find_client s k).
      rewrite F. unfold triple. cbn. rewrite !N.add_0_r, N.add_1_r. reflexivity.
    + rewrite add3_0_r. apply counts_clients_eq. reflexivity.
  - (* OReq *) destruct (answering s k0) as [[[[[kl t] c] ch]|]|] eqn:A; try (cbn; rewrite add3_0_r; reflexivity).
    destruct (holds ch k0 id); cbn [fst snd delta]; [|rewrite add3_0_r; reflexivity].
    apply answering_spec in A. destruct A as (F & _ & _).
    rewrite counts_upd_client by reflexivity.
    destruct (N.eqb_spec k0 k) as [E|E].
    + subst k0. unfold counts. change (find_client (upd_chan s t c _) k) with (find_client s k).
      rewrite F. unfold triple. cbn. rewrite !N.add_0_r, N.add_1_r. reflexivity.
    + rewrite add3_0_r. apply counts_clients_eq. reflexivity.
  - (* OTouch *) destruct (answering s k0) as [[[[[kl t] c] ch]|]|]; try (cbn; rewrite add3_0_r; reflexivity).
    destruct (holds ch k0 id); cbn [fst snd delta]; rewrite add3_0_r; [|reflexivity].
    apply counts_clients_eq. reflexivity.
  - (* OCls *) destruct (find_client s k0) as [kl|] eqn:F; [|cbn; rewrite add3_0_r; reflexivity].
    destruct (k_state kl =? st_subscribed); cbn [fst snd delta]; rewrite add3_0_r; [|reflexivity].
    rewrite counts_upd_client by reflexivity. destruct (k0 =? k); [|reflexivity].
    unfold counts. destruct (find_client s k); reflexivity.
  - (* ODisconnect *) destruct (find_client s k0) as [kl|] eqn:F; cbn [fst snd delta]; rewrite add3_0_r; [|reflexivity].
    rewrite counts_upd_client by reflexivity.
    assert (Ec : forall k, counts (unsubscribe kl s) k = counts s k).
    { intros k1. apply counts_clients_eq. unfold unsubscribe. destruct (k_sub kl) as [[t c]|]; reflexivity. }
    destruct (k0 =? k); [|apply Ec]. rewrite <- (Ec k). unfold counts. destruct (find_client _ k); reflexivity.
  - destruct (get_chan s t c); cbn [fst snd delta]; rewrite add3_0_r; [|reflexivity]. apply counts_clients_eq. reflexivity.
  - destruct (find_topic s t); cbn [fst snd delta]; rewrite add3_0_r; [|reflexivity]. apply counts_clients_eq. reflexivity.
  - (* OEmptyChan *) destruct (get_chan s t c) as [ch|]; cbn [fst snd delta]; rewrite add3_0_r; [|reflexivity].
    apply (counts_map_same s _ (fun k => if existsb (N.eqb (k_id k)) (c_clients ch) then k <| k_ifl := 0%Z |> else k)); [reflexivity|].
    intros x. destruct (existsb _ _); split; reflexivity.
  - destruct (find_topic s t); cbn [fst snd delta]; rewrite add3_0_r; [|reflexivity]. apply counts_clients_eq. reflexivity.
  - (* ODeleteChan *) destruct (find_topic s t) as [tp|]; [|cbn; rewrite add3_0_r; reflexivity].
    destruct (find_chan tp c) as [ch|]; cbn [fst snd delta]; rewrite add3_0_r; [|reflexivity].
    apply (counts_map_same s _ (fun k => if existsb (N.eqb (k_id k)) (c_clients ch) then k <| k_alive := false |> else k)); [reflexivity|].
    intros x. destruct (existsb _ _); split; reflexivity.
  - (* ODeleteTopic *) destruct (find_topic s t) as [tp|]; cbn [fst snd delta]; rewrite add3_0_r; [|reflexivity].
    apply (counts_map_same s _ (fun k => if existsb (N.eqb (k_id k)) (chan_clients_of tp) then k <| k_alive := false |> else k)); [reflexivity|].
    intros x. destruct (existsb _ _); split; reflexivity.
  - (* OScanInFlight *) destruct (get_chan s t c) as [ch|]; cbn [fst snd delta]; rewrite add3_0_r; [|reflexivity].
    rewrite fold_dec_eta.
    apply (counts_map_same s _ (fun kl => if existsb (N.eqb (k_id kl)) (c_clients ch)
              then kl <| k_ifl ::= fun x => (x - owned (k_id kl) (fst (expired_ifl now (c_ifl ch))))%Z |> else kl)); [reflexivity|].
    intros x. destruct (existsb _ _); split; reflexivity.
  - destruct (get_chan s t c); cbn [fst snd delta]; rewrite add3_0_r; [|reflexivity]. apply counts_clients_eq. reflexivity.
Qed.

Theorem run_counts cfg ops s k : counts (run cfg s ops) k = add3 (counts s k) (tally cfg s ops k).
Proof.
  unfold run. revert s. induction ops as [|o ops IH]; intros s; cbn [fold_left tally]; [rewrite add3_0_r; reflexivity|].
  rewrite IH, step_counts, add3_assoc. reflexivity.
Qed.

(* from the empty daemon: the counters ARE the tally of what the consumer did *)
Theorem client_counters_exact cfg ops k kl :
  find_client (run cfg init ops) k = Some kl ->
  (k_fincount kl, k_reqcount kl, k_msgcount kl) = tally cfg init ops k.
Proof.
  intros F. pose proof (run_counts cfg ops init k) as H. unfold counts in H. rewrite F in H.
  cbn in H. destruct (tally cfg init ops k) as [[a b] c]. exact H.
Qed.
