(* C15: what an HTTP request of nsqlookupd may change.  Every request reaches the registry
   through at most one of the five admin handlers; create adds keys and leaves every
   producer entry, tombstone mark and /lookup listing alone (also when the key exists and
   has producers); delete removes what it names and neither adds nor alters anything;
   tombstone keeps every key and entry and marks only producers of the named topic whose
   broadcast_address:http_port is the named node. *)
From Coq Require Import List NArith ZArith Bool Lia String.
From NSQV Require Import model.Judge model.Names model.Lookupd model.LookupSpec model.LookupProto
  proofs.LookupdBase proofs.LookupdRefine.
Import ListNotations.
Open Scope bool_scope.

Definition q_topic (q : query) : option name := match q with QArgs t _ _ => t | QBad => None end.
Definition q_node (q : query) : option name := match q with QArgs _ _ n => n | QBad => None end.
Definition q_chan_key (q : query) : option reg :=
  match q with QArgs (Some t) (Some c) _ => Some (chan_key t c) | _ => None end.

(* ------------------------------------------------------------------ a request is at most one handler *)
Lemma find_route_in m path h : forall l, find_route m path l = Some h -> In (m, path, h) l.
Proof.
  induction l as [|[[m' p'] h'] l IH]; cbn; [discriminate|].
  destruct (String.eqb m' m && String.eqb p' path) eqn:E.
  - intros H1. inversion H1; subst. apply andb_true_iff in E as [E1 E2].
    apply String.eqb_eq in E1. apply String.eqb_eq in E2. subst. left. reflexivity.
  - intros H1. right. apply IH. assumption.
Qed.

Lemma http_exec_handler s m path q s' st :
  http_exec s m path q = (s', st) ->
  s' = s \/
  (m = "POST"%string /\
   ((path = "/topic/create"%string /\ s' = fst (h_create_topic s q)) \/
    (path = "/topic/delete"%string /\ s' = fst (h_delete_topic s q)) \/
    (path = "/channel/create"%string /\ s' = fst (h_create_channel s q)) \/
    (path = "/channel/delete"%string /\ s' = fst (h_delete_channel s q)) \/
    (path = "/topic/tombstone"%string /\ s' = fst (h_tombstone s q)))).
Proof.
  unfold http_exec. destruct (find_route m path routes) as [h|] eqn:F.
  - apply find_route_in in F. intros H.
    destruct h; try (inversion H; subst; left; reflexivity); right;
      cbn in F; repeat (destruct F as [F|F]; [inversion F; subst|]); try contradiction; split; try reflexivity.
    + left. destruct (h_create_topic s q); inversion H; subst. split; reflexivity.
    + right; left. destruct (h_delete_topic s q); inversion H; subst. split; reflexivity.
    + right; right; left. destruct (h_create_channel s q); inversion H; subst. split; reflexivity.
    + right; right; right; left. destruct (h_delete_channel s q); inversion H; subst. split; reflexivity.
    + right; right; right; right. destruct (h_tombstone s q); inversion H; subst. split; reflexivity.
  - destruct (path_known path routes); intros H; inversion H; left; reflexivity.
Qed.

(* ------------------------------------------------------------------ create *)
Lemma q_debug_add_registration s k :
  q_debug (set_db s (add_registration k (db s))) = q_debug s.
Proof.
  unfold q_debug, set_db, add_registration. cbn [db]. destruct (has_key k (db s)); [reflexivity|].
  rewrite flat_map_app. cbn. apply app_nil_r.
Qed.

Lemma h_create_topic_debug s q : q_debug (fst (h_create_topic s q)) = q_debug s.
Proof.
  unfold h_create_topic. destruct q as [|[t|] c n]; try reflexivity.
  destruct (negb (is_valid_name t)); [reflexivity|]. apply q_debug_add_registration.
Qed.

Lemma h_create_channel_debug s q : q_debug (fst (h_create_channel s q)) = q_debug s.
Proof.
  unfold h_create_channel. destruct q as [|t c n]; [reflexivity|].
  destruct (topic_channel_args t c) as [[t' c']|]; [|reflexivity]. cbn [fst].
  pose proof (q_debug_add_registration (set_db s (add_registration (chan_key t' c') (db s))) (topic_key t')) as H.
  unfold set_db in *. cbn [db now peers] in *. rewrite H. apply (q_debug_add_registration s).
Qed.

Definition create_frame (r' r : registry) : Prop :=
  g_now r' = g_now r /\ g_nodes r' = g_nodes r /\
  (forall k p, g_prod r' k p = g_prod r k p) /\
  (forall t p, g_tomb r' t p = g_tomb r t p) /\
  (forall k, g_key r k = true -> g_key r' k = true).

Lemma create_frame_refl r : create_frame r r.
Proof. repeat split; auto. Qed.

Lemma g_create_topic_frame r q : create_frame (g_create_topic r q) r.
Proof.
  unfold g_create_topic. destruct q as [|[t|] c n]; try apply create_frame_refl.
  destruct (is_valid_name t); [|apply create_frame_refl].
  repeat split; cbn; auto. intros k ->. apply orb_true_r.
Qed.

Lemma g_create_channel_frame r q : create_frame (g_create_channel r q) r.
Proof.
  unfold g_create_channel. destruct q as [|t c n]; [apply create_frame_refl|].
  destruct (topic_channel_args t c) as [[t' c']|]; [|apply create_frame_refl].
  repeat split; cbn; auto. intros k ->. apply orb_true_r.
Qed.

Lemma create_frame_req a b r : req a b -> create_frame b r -> create_frame a r.
Proof.
  intros (H1 & H2 & H3 & H4 & H5) (F1 & F2 & F3 & F4 & F5). repeat split; intros.
  - congruence.
  - congruence.
  - rewrite H4. apply F3.
  - rewrite H5. apply F4.
  - rewrite H3. apply F5. assumption.
Qed.

(* POST /topic/create and /channel/create, whatever they name: every (registration,
   producer, tombstone flag) entry of /debug, every node, every tombstone mark is what it
   was, and no key disappears *)
Theorem http_create_frame s m path q s' st :
  path = "/topic/create"%string \/ path = "/channel/create"%string ->
  http_exec s m path q = (s', st) ->
  q_debug s' = q_debug s /\ create_frame (abs s') (abs s).
Proof.
  intros Hp H. destruct (http_exec_handler _ _ _ _ _ _ H) as [->|[_ Hh]]; [split; [reflexivity|apply create_frame_refl]|].
  destruct Hh as [[-> ->]|[[-> ->]|[[-> ->]|[[-> ->]|[-> ->]]]]]; try (destruct Hp; discriminate).
  - split; [apply h_create_topic_debug|].
    eapply create_frame_req; [apply refine_create_topic|apply g_create_topic_frame].
  - split; [apply h_create_channel_debug|].
    eapply create_frame_req; [apply refine_create_channel|apply g_create_channel_frame].
Qed.

Corollary http_create_lookup s m path q s' st i l t p :
  path = "/topic/create"%string \/ path = "/channel/create"%string ->
  http_exec s m path q = (s', st) ->
  lookup_producer i l (abs s') t p = lookup_producer i l (abs s) t p.
Proof.
  intros Hp H. destruct (http_create_frame _ _ _ _ _ _ Hp H) as [_ (H1 & H2 & H3 & H4 & _)].
  unfold lookup_producer, registered, recent, hidden. rewrite H1, H2, H3, H4. reflexivity.
Qed.

(* ------------------------------------------------------------------ delete *)
(* nothing is added or altered; whatever is outside [hit] is exactly what it was *)
Definition delete_frame (hit : reg -> Prop) (tombs : name -> Prop) (r' r : registry) : Prop :=
  g_now r' = g_now r /\ g_nodes r' = g_nodes r /\
  (forall k, g_key r' k = true -> g_key r k = true) /\
  (forall k p, g_prod r' k p = true -> g_prod r k p = true) /\
  (forall u p, g_tomb r' u p = None \/ g_tomb r' u p = g_tomb r u p) /\
  (forall k, ~ hit k -> g_key r' k = g_key r k /\ forall p, g_prod r' k p = g_prod r k p) /\
  (forall u p, ~ tombs u -> g_tomb r' u p = g_tomb r u p).

Lemma delete_frame_refl hit tombs r : delete_frame hit tombs r r.
Proof. repeat split; auto. Qed.

Lemma delete_frame_req hit tombs a b r : req a b -> delete_frame hit tombs b r -> delete_frame hit tombs a r.
Proof.
  intros (H1 & H2 & H3 & H4 & H5) (F1 & F2 & F3 & F4 & F5 & F6 & F7). repeat split; intros.
  - congruence.
  - congruence.
  - apply F3. rewrite <- H3. assumption.
  - apply F4. rewrite <- H4. assumption.
  - rewrite !H5. apply F5.
  - rewrite H3. apply F6. assumption.
  - rewrite H4. apply F6. assumption.
  - rewrite H5. apply F7. assumption.
Qed.

Lemma g_delete_topic_frame r q :
  delete_frame (fun k => q_topic q = Some (r_key k)) (fun u => q_topic q = Some u) (g_delete_topic r q) r.
Proof.
  unfold g_delete_topic. destruct q as [|[t|] c n]; try apply delete_frame_refl.
  destruct (is_valid_name t) eqn:V; [|apply delete_frame_refl].
  pose proof (valid_not_star _ V) as Hs.
  assert (forall k, Some t <> Some (r_key k) -> is_match CChannel t star k || reg_eqb k (topic_key t) = false) as Hhit.
  { intros k Hk. assert (bytes_eqb (r_key k) t = false) as E.
    { apply bytes_eqb_neq. intros <-. apply Hk. reflexivity. }
    unfold is_match. rewrite Hs, E. cbn [orb andb]. rewrite andb_false_r. cbn [orb].
    unfold reg_eqb, topic_key. cbn [r_cat r_key r_sub]. rewrite E. rewrite andb_false_r. reflexivity. }
  unfold delete_frame. cbn [q_topic g_now g_nodes g_key g_prod g_tomb]. repeat split; intros.
  - apply andb_true_iff in H as [H _]. assumption.
  - apply andb_true_iff in H as [H _]. assumption.
  - destruct (bytes_eqb u t); [left|right]; reflexivity.
  - rewrite (Hhit k H). cbn. apply andb_true_r.
  - rewrite (Hhit k H). cbn. apply andb_true_r.
  - destruct (bytes_eqb u t) eqn:E; [|reflexivity]. apply bytes_eqb_eq in E. subst. exfalso. apply H. reflexivity.
Qed.

Lemma g_delete_channel_frame r q :
  delete_frame (fun k => q_chan_key q = Some k) (fun _ => False) (g_delete_channel r q) r.
Proof.
  unfold g_delete_channel. destruct q as [|t c n]; [apply delete_frame_refl|].
  destruct (topic_channel_args t c) as [[t' c']|] eqn:TC; [|apply delete_frame_refl].
  assert (t = Some t' /\ c = Some c') as [-> ->].
  { unfold topic_channel_args in TC. destruct t as [t|]; [|discriminate].
    destruct (negb (is_valid_name t)); [discriminate|]. destruct c as [c|]; [|discriminate].
    destruct (negb (is_valid_name c)); [discriminate|]. inversion TC; subst. split; reflexivity. }
  unfold delete_frame. cbn [q_chan_key g_now g_nodes g_key g_prod g_tomb]. repeat split; intros; auto.
  - apply andb_true_iff in H as [H _]. assumption.
  - apply andb_true_iff in H as [H _]. assumption.
  - assert (reg_eqb k (chan_key t' c') = false) as ->.
    { apply reg_eqb_neq. intros ->. apply H. reflexivity. }
    apply andb_true_r.
  - assert (reg_eqb k (chan_key t' c') = false) as ->.
    { apply reg_eqb_neq. intros ->. apply H. reflexivity. }
    apply andb_true_r.
Qed.

(* POST /topic/delete?topic=t: only keys whose topic is t go, with their entries; no key,
   entry or tombstone mark is added or altered *)
Theorem http_delete_topic_frame s m q s' st :
  http_exec s m "/topic/delete" q = (s', st) ->
  delete_frame (fun k => q_topic q = Some (r_key k)) (fun u => q_topic q = Some u) (abs s') (abs s).
Proof.
  intros H. destruct (http_exec_handler _ _ _ _ _ _ H) as [->|[_ Hh]]; [apply delete_frame_refl|].
  destruct Hh as [[E _]|[[_ ->]|[[E _]|[[E _]|[E _]]]]]; try discriminate.
  eapply delete_frame_req; [apply refine_delete_topic|apply g_delete_topic_frame].
Qed.

(* POST /channel/delete?topic=t&channel=c: only the key channel:t:c goes *)
Theorem http_delete_channel_frame s m q s' st :
  http_exec s m "/channel/delete" q = (s', st) ->
  delete_frame (fun k => q_chan_key q = Some k) (fun _ => False) (abs s') (abs s).
Proof.
  intros H. destruct (http_exec_handler _ _ _ _ _ _ H) as [->|[_ Hh]]; [apply delete_frame_refl|].
  destruct Hh as [[E _]|[[E _]|[[E _]|[[_ ->]|[E _]]]]]; try discriminate.
  eapply delete_frame_req; [apply refine_delete_channel|apply g_delete_channel_frame].
Qed.

(* ------------------------------------------------------------------ tombstone *)
Definition tombstone_frame (q : query) (r' r : registry) : Prop :=
  g_now r' = g_now r /\ g_nodes r' = g_nodes r /\
  (forall k, g_key r' k = g_key r k) /\
  (forall k p, g_prod r' k p = g_prod r k p) /\
  (forall u p, g_tomb r' u p = g_tomb r u p \/
               (q_topic q = Some u /\ registered r p u = true /\
                exists node, q_node q = Some node /\ g_node_matches r node p = true /\ g_tomb r' u p = Some (g_now r))).

Lemma tombstone_frame_refl q r : tombstone_frame q r r.
Proof. repeat split; auto. Qed.

Lemma g_tombstone_frame r q : tombstone_frame q (g_tombstone r q) r.
Proof.
  unfold g_tombstone. destruct q as [|[t|] c [node|]]; try apply tombstone_frame_refl.
  destruct (is_valid_name t); [|apply tombstone_frame_refl].
  unfold tombstone_frame. cbn [q_topic q_node g_now g_nodes g_key g_prod g_tomb]. repeat split; auto.
  intros u p. destruct (bytes_eqb u t) eqn:E; [|left; reflexivity].
  apply bytes_eqb_eq in E. subst u.
  destruct (registered r p t) eqn:R; [|left; reflexivity].
  destruct (g_node_matches r node p) eqn:M; [|left; reflexivity].
  right. cbn [andb]. split; [reflexivity|]. split; [reflexivity|]. exists node. repeat split; assumption.
Qed.

(* POST /topic/tombstone?topic=t&node=n: every key and every entry stays; a mark is set
   only for a producer of t whose broadcast_address:http_port is n *)
Theorem http_tombstone_frame s m q s' st :
  http_exec s m "/topic/tombstone" q = (s', st) -> tombstone_frame q (abs s') (abs s).
Proof.
  intros H. destruct (http_exec_handler _ _ _ _ _ _ H) as [->|[_ Hh]]; [apply tombstone_frame_refl|].
  destruct Hh as [[E _]|[[E _]|[[E _]|[[E _]|[_ ->]]]]]; try discriminate.
  destruct (refine_tombstone s q) as (H1 & H2 & H3 & H4 & H5).
  destruct (g_tombstone_frame (abs s) q) as (F1 & F2 & F3 & F4 & F5).
  unfold tombstone_frame. repeat split; intros.
  - congruence.
  - congruence.
  - rewrite H3. apply F3.
  - rewrite H4. apply F4.
  - rewrite H5. destruct (F5 u p) as [F|(Fa & Fb & node & Fc & Fd & Fe)]; [left; assumption|].
    right. split; [assumption|]. split; [assumption|]. exists node. repeat split; assumption.
Qed.
