(* C13: stats account for every message — per-channel conservation, for every history. *)
From Coq Require Import List NArith ZArith Bool Lia ZifyNat ZifyN ZifyBool.
From RecordUpdate Require Import RecordUpdate.
From NSQV Require Import model.Core proofs.CoreBase.
Import ListNotations.
Open Scope N_scope.

Definition accounted (ch : chan) : nat :=
  (length (c_queue ch) + length (c_ifl ch) + length (c_dfr ch)
   + length (c_fin ch) + length (c_emptied ch) + length (c_lost ch))%nat.

(* received = depth + in flight + deferred + finished + emptied (+ dropped by ephemeral overflow) *)
Definition Cons (ch : chan) : Prop := c_msgcount ch = N.of_nat (accounted ch).

Lemma remove_msg_length id q m q' : remove_msg id q = Some (m, q') -> length q = S (length q').
Proof.
  revert m q'. induction q as [|x q IH]; intros m q' H; cbn in H; [discriminate|].
  destruct (m_id x =? id); [inversion H; subst; reflexivity|].
  destruct (remove_msg id q) as [[y r]|]; [|discriminate]. inversion H; subst. cbn. f_equal. eapply IH. reflexivity.
Qed.

Lemma remove_ifl_length id l e l' : remove_ifl id l = Some (e, l') -> length l = S (length l').
Proof.
  revert e l'. induction l as [|x l IH]; intros e l' H; cbn in H; [discriminate|].
  destruct (m_id (i_msg x) =? id); [inversion H; subst; reflexivity|].
  destruct (remove_ifl id l) as [[y r]|]; [|discriminate]. inversion H; subst. cbn. f_equal. eapply IH. reflexivity.
Qed.

Lemma accounted_put cfg m ch :
  accounted (chan_put cfg m ch) = S (accounted ch) /\ c_msgcount (chan_put cfg m ch) = c_msgcount ch.
Proof.
  unfold chan_put, accounted. destruct (c_eph ch && _); cbn; [split; [lia|reflexivity]|].
  rewrite app_length. cbn. split; [lia|reflexivity].
Qed.

Lemma Cons_new c eph : Cons (new_chan c eph).
Proof. reflexivity. Qed.

Lemma Cons_receive cfg now m ch : Cons ch -> Cons (chan_receive cfg now m ch).
Proof.
  unfold Cons, chan_receive. intros H.
  destruct (m_defer m =? 0)%Z.
  - destruct (accounted_put cfg m (ch <| c_msgcount ::= N.succ |>)) as [Ha Hm].
    rewrite Ha, Hm. cbn. unfold accounted in *. cbn. lia.
  - unfold accounted in *. cbn. lia.
Qed.

Lemma Cons_clients ch f : Cons ch -> Cons (ch <| c_clients ::= f |>).
Proof. unfold Cons, accounted. cbn. auto. Qed.

Lemma Cons_paused ch p : Cons ch -> Cons (ch <| c_paused := p |>).
Proof. unfold Cons, accounted. cbn. auto. Qed.

Lemma Cons_deliver k id dl now ch : Cons ch -> Cons (ch_deliver k id dl now ch).
Proof.
  unfold Cons, ch_deliver. intros H.
  destruct (remove_msg id (c_queue ch)) as [[m q']|] eqn:E; [|exact H].
  apply remove_msg_length in E. unfold accounted in *. cbn. lia.
Qed.

Lemma Cons_fin k id ch : Cons ch -> Cons (ch_fin k id ch).
Proof.
  unfold Cons, ch_fin. intros H.
  destruct (remove_ifl id (c_ifl ch)) as [[e l']|] eqn:E; [|exact H].
  destruct (i_cid e =? k); [|exact H].
  apply remove_ifl_length in E. unfold accounted in *. cbn. lia.
Qed.

Lemma Cons_req cfg k id d now ch : Cons ch -> Cons (ch_req cfg k id d now ch).
Proof.
  unfold Cons, ch_req. intros H.
  destruct (remove_ifl id (c_ifl ch)) as [[e l']|] eqn:E; [|exact H].
  destruct (i_cid e =? k); [|exact H].
  apply remove_ifl_length in E.
  destruct (d =? 0)%Z.
  - destruct (accounted_put cfg (i_msg e) (ch <| c_ifl := l' |> <| c_requeue ::= N.succ |>)) as [Ha Hm].
    rewrite Ha, Hm. unfold accounted in *. cbn. lia.
  - unfold accounted in *. cbn. lia.
Qed.

Lemma Cons_touch cfg k id now tmo ch : Cons ch -> Cons (ch_touch cfg k id now tmo ch).
Proof.
  unfold Cons, ch_touch. intros H.
  destruct (remove_ifl id (c_ifl ch)) as [[e l']|] eqn:E; [|exact H].
  destruct (i_cid e =? k); [|exact H].
  apply remove_ifl_length in E. unfold accounted in *. cbn. lia.
Qed.

Lemma Cons_empty ch : Cons ch -> Cons (ch_empty ch).
Proof.
  unfold Cons, ch_empty, accounted. intros H. cbn. rewrite !app_length, !map_length. lia.
Qed.

Lemma scan_ifl_fold cfg (ex : list ifl) : forall ch : chan,
  accounted (fold_left (fun (ch : chan) (e : ifl) => chan_put cfg (i_msg e) (ch <| c_timeout ::= N.succ |>)) ex ch)
    = (length ex + accounted ch)%nat
  /\ c_msgcount (fold_left (fun (ch : chan) (e : ifl) => chan_put cfg (i_msg e) (ch <| c_timeout ::= N.succ |>)) ex ch)
    = c_msgcount ch.
Proof.
  induction ex as [|e ex IH]; intros ch; cbn [fold_left length]; [split; reflexivity|].
  destruct (IH (chan_put cfg (i_msg e) (ch <| c_timeout ::= N.succ |>))) as [Ha Hm].
  destruct (accounted_put cfg (i_msg e) (ch <| c_timeout ::= N.succ |>)) as [Ha' Hm'].
  split.
  - refine (eq_trans Ha _). rewrite Ha'. unfold accounted. cbn. lia.
  - refine (eq_trans Hm _). rewrite Hm'. reflexivity.
Qed.

Lemma scan_dfr_fold cfg (ex : list dfr) : forall ch : chan,
  accounted (fold_left (fun (ch : chan) (e : dfr) => chan_put cfg (d_msg e) ch) ex ch) = (length ex + accounted ch)%nat
  /\ c_msgcount (fold_left (fun (ch : chan) (e : dfr) => chan_put cfg (d_msg e) ch) ex ch) = c_msgcount ch.
Proof.
  induction ex as [|e ex IH]; intros ch; cbn [fold_left length]; [split; reflexivity|].
  destruct (IH (chan_put cfg (d_msg e) ch)) as [Ha Hm].
  destruct (accounted_put cfg (d_msg e) ch) as [Ha' Hm'].
  split.
  - refine (eq_trans Ha _). rewrite Ha'. lia.
  - refine (eq_trans Hm _). exact Hm'.
Qed.

Lemma Cons_scan_ifl cfg now ch : Cons ch -> Cons (ch_scan_ifl cfg now ch).
Proof.
  unfold Cons, ch_scan_ifl, expired_ifl. intros H.
  destruct (partition _ (c_ifl ch)) as [ex keep] eqn:E. cbv beta iota.
  apply partition_length in E.
  destruct (scan_ifl_fold cfg ex (ch <| c_ifl := keep |>)) as [Ha Hm].
  refine (eq_trans Hm _). refine (eq_trans _ (eq_sym (f_equal N.of_nat Ha))).
  unfold accounted in *. cbn. lia.
Qed.

Lemma Cons_scan_dfr cfg now ch : Cons ch -> Cons (ch_scan_dfr cfg now ch).
Proof.
  unfold Cons, ch_scan_dfr, expired_dfr. intros H.
  destruct (partition _ (c_dfr ch)) as [ex keep] eqn:E. cbv beta iota.
  apply partition_length in E.
  destruct (scan_dfr_fold cfg ex (ch <| c_dfr := keep |>)) as [Ha Hm].
  refine (eq_trans Hm _). refine (eq_trans _ (eq_sym (f_equal N.of_nat Ha))).
  unfold accounted in *. cbn. lia.
Qed.

Theorem conservation_step cfg s o : AllChans Cons s -> AllChans Cons (fst (step cfg s o)).
Proof.
  apply step_AllChans.
  - apply Cons_new.
  - intros; apply Cons_receive; assumption.
  - intros; apply Cons_clients; assumption.
  - intros; apply Cons_paused; assumption.
  - intros; apply Cons_deliver; assumption.
  - intros; apply Cons_fin; assumption.
  - intros; apply Cons_req; assumption.
  - intros; apply Cons_touch; assumption.
  - intros; apply Cons_empty; assumption.
  - intros; apply Cons_scan_ifl; assumption.
  - intros; apply Cons_scan_dfr; assumption.
Qed.

Theorem conservation cfg ops : AllChans Cons (run cfg init ops).
Proof.
  apply reachable_AllChans.
  - apply Cons_new.
  - intros; apply Cons_receive; assumption.
  - intros; apply Cons_clients; assumption.
  - intros; apply Cons_paused; assumption.
  - intros; apply Cons_deliver; assumption.
  - intros; apply Cons_fin; assumption.
  - intros; apply Cons_req; assumption.
  - intros; apply Cons_touch; assumption.
  - intros; apply Cons_empty; assumption.
  - intros; apply Cons_scan_ifl; assumption.
  - intros; apply Cons_scan_dfr; assumption.
Qed.

(* ---------- a durable channel never drops ---------- *)
Definition Durable_lossless (ch : chan) : Prop := c_eph ch = false -> c_lost ch = [].

Lemma put_lossless cfg m ch : c_eph (chan_put cfg m ch) = c_eph ch /\ (c_eph ch = false -> c_lost (chan_put cfg m ch) = c_lost ch).
Proof.
  unfold chan_put. destruct (c_eph ch) eqn:E; cbn.
  - destruct (memcap cfg <=? _); cbn; rewrite ?E; split; try reflexivity; intros; discriminate.
  - rewrite ?E. split; reflexivity.
Qed.

Lemma DL_put cfg m ch : Durable_lossless ch -> Durable_lossless (chan_put cfg m ch).
Proof.
  unfold Durable_lossless. intros H. destruct (put_lossless cfg m ch) as [A B]. rewrite A. intros E.
  rewrite (B E). apply H, E.
Qed.

Lemma DL_fold_ifl cfg (ex : list ifl) : forall ch : chan, Durable_lossless ch ->
  Durable_lossless (fold_left (fun (ch : chan) (e : ifl) => chan_put cfg (i_msg e) (ch <| c_timeout ::= N.succ |>)) ex ch).
Proof.
  induction ex as [|e ex IH]; intros ch H; cbn [fold_left]; [exact H|]. apply IH. apply DL_put. exact H.
Qed.

Lemma DL_fold_dfr cfg (ex : list dfr) : forall ch : chan, Durable_lossless ch ->
  Durable_lossless (fold_left (fun (ch : chan) (e : dfr) => chan_put cfg (d_msg e) ch) ex ch).
Proof.
  induction ex as [|e ex IH]; intros ch H; cbn [fold_left]; [exact H|]. apply IH. apply DL_put. exact H.
Qed.

Theorem durable_lossless cfg ops : AllChans Durable_lossless (run cfg init ops).
Proof.
  apply reachable_AllChans.
  - intros c eph H. reflexivity.
  - intros now m ch H. unfold chan_receive. destruct (m_defer m =? 0)%Z; [apply DL_put; exact H|exact H].
  - intros ch f H. exact H.
  - intros ch p H. exact H.
  - intros k id dl now ch H. unfold ch_deliver. destruct (remove_msg id (c_queue ch)) as [[m q']|]; exact H.
  - intros k id ch H. unfold ch_fin. destruct (remove_ifl id (c_ifl ch)) as [[e l']|]; [|exact H].
    destruct (i_cid e =? k); exact H.
  - intros k id d now ch H. unfold ch_req. destruct (remove_ifl id (c_ifl ch)) as [[e l']|]; [|exact H].
    destruct (i_cid e =? k); [|exact H]. destruct (d =? 0)%Z; [apply DL_put|]; exact H.
  - intros k id now tmo ch H. unfold ch_touch. destruct (remove_ifl id (c_ifl ch)) as [[e l']|]; [|exact H].
    destruct (i_cid e =? k); exact H.
  - intros ch H. exact H.
  - intros now ch H. unfold ch_scan_ifl. destruct (expired_ifl now (c_ifl ch)) as [ex keep].
    apply DL_fold_ifl. exact H.
  - intros now ch H. unfold ch_scan_dfr. destruct (expired_dfr now (c_dfr ch)) as [ex keep].
    apply DL_fold_dfr. exact H.
Qed.

(* ---------- topic counters ---------- *)
(* after a step, every topic either is new (counters 0 or this very publish), or existed
   before with the same counters, except that a publish to it adds |ids| and bytes *)
Definition topic_counts_ok (cfg : config) (s : state) (o : op) (tp' : topic) : Prop :=
  let added_n := match o with OPub t _ ids _ _ _ => if t_id tp' =? t then N.of_nat (length ids) else 0 | _ => 0 end in
  let added_b := match o with OPub t _ _ b _ _ => if t_id tp' =? t then b else 0 | _ => 0 end in
  (exists tp, In tp (s_topics s) /\ t_id tp = t_id tp' /\
              t_msgcount tp' = t_msgcount tp + added_n /\ t_bytes tp' = t_bytes tp + added_b)
  \/ (t_msgcount tp' = added_n /\ t_bytes tp' = added_b).

Lemma in_map_if_topic (p : topic -> bool) (f : topic -> topic) l tp' :
  In tp' (map (fun x => if p x then f x else x) l) ->
  exists tp, In tp l /\ tp' = (if p tp then f tp else tp).
Proof. intros H. apply in_map_iff in H. destruct H as [tp [E Hin]]. exists tp. split; [exact Hin|symmetry; exact E]. Qed.

Lemma pump_counts cfg now tp :
  t_id (pump cfg now tp) = t_id tp /\ t_msgcount (pump cfg now tp) = t_msgcount tp /\ t_bytes (pump cfg now tp) = t_bytes tp.
Proof. unfold pump. destruct (t_paused tp); [auto|]. destruct (t_chans tp); cbn; auto. Qed.

Lemma topic_put_counts cfg m tp :
  t_id (topic_put cfg m tp) = t_id tp /\ t_msgcount (topic_put cfg m tp) = t_msgcount tp /\ t_bytes (topic_put cfg m tp) = t_bytes tp.
Proof.
  unfold topic_put. destruct (pump_runs tp); [cbn; auto|].
  destruct (t_mem tp <? memcap cfg); [cbn; auto|]. destruct (t_eph tp); cbn; auto.
Qed.

Lemma fold_topic_put_counts cfg defer ids : forall tp,
  t_id (fold_left (fun tp id => topic_put cfg (mkMsg id 0 defer) tp) ids tp) = t_id tp /\
  t_msgcount (fold_left (fun tp id => topic_put cfg (mkMsg id 0 defer) tp) ids tp) = t_msgcount tp /\
  t_bytes (fold_left (fun tp id => topic_put cfg (mkMsg id 0 defer) tp) ids tp) = t_bytes tp.
Proof.
  induction ids as [|i ids IH]; intros tp; cbn; [auto|].
  destruct (IH (topic_put cfg (mkMsg i 0 defer) tp)) as (A & B & C).
  destruct (topic_put_counts cfg (mkMsg i 0 defer) tp) as (A' & B' & C'). rewrite A, B, C. auto.
Qed.

(* a topic-list transformer that keeps ids and counters of every surviving topic *)
Definition keeps_counts (s s' : state) : Prop :=
  forall tp', In tp' (s_topics s') ->
    (exists tp, In tp (s_topics s) /\ t_id tp = t_id tp' /\ t_msgcount tp' = t_msgcount tp /\ t_bytes tp' = t_bytes tp)
    \/ (t_msgcount tp' = 0 /\ t_bytes tp' = 0).

Lemma keeps_counts_refl s : keeps_counts s s.
Proof. intros tp' H. left. exists tp'. auto. Qed.

Lemma keeps_counts_trans s1 s2 s3 : keeps_counts s1 s2 -> keeps_counts s2 s3 -> keeps_counts s1 s3.
Proof.
  intros H12 H23 tp3 H3. destruct (H23 tp3 H3) as [[tp2 (I2 & A & B & C)]|Z]; [|right; exact Z].
  destruct (H12 tp2 I2) as [[tp1 (I1 & A1 & B1 & C1)]|[Z1 Z2]].
  - left. exists tp1. repeat split; congruence.
  - right. split; congruence.
Qed.

Lemma keeps_counts_upd_topic s t f :
  (forall tp, t_id (f tp) = t_id tp /\ t_msgcount (f tp) = t_msgcount tp /\ t_bytes (f tp) = t_bytes tp) ->
  keeps_counts s (upd_topic s t f).
Proof.
  intros Hf tp' H. unfold upd_topic in H. cbn in H. apply in_map_if_topic in H. destruct H as [tp [Hin ->]].
  left. exists tp. destruct (t_id tp =? t); [destruct (Hf tp) as (A & B & C); auto|auto].
Qed.

Lemma keeps_counts_clients s l : keeps_counts s (s <| s_clients := l |>).
Proof. intros tp' H. cbn in H. left. exists tp'. auto. Qed.

Lemma keeps_counts_close_clients ks s : keeps_counts s (close_clients ks s).
Proof. intros tp' H. unfold close_clients in H. cbn in H. left. exists tp'. auto. Qed.

Lemma keeps_counts_filter s p : keeps_counts s (s <| s_topics ::= filter p |>).
Proof. intros tp' H. cbn in H. apply filter_In in H. left. exists tp'. tauto. Qed.

Lemma keeps_counts_ensure_topic s t eph : keeps_counts s (ensure_topic s t eph).
Proof.
  unfold ensure_topic. destruct (find_topic s t); [apply keeps_counts_refl|].
  intros tp' H. cbn in H. apply in_app_iff in H. destruct H as [H|[<-|[]]].
  - left. exists tp'. auto.
  - right. split; reflexivity.
Qed.

Lemma upd_chan_in_counts tp c f :
  t_id (upd_chan_in tp c f) = t_id tp /\ t_msgcount (upd_chan_in tp c f) = t_msgcount tp /\ t_bytes (upd_chan_in tp c f) = t_bytes tp.
Proof. unfold upd_chan_in. cbn. auto. Qed.

Lemma keeps_counts_upd_chan s t c f : keeps_counts s (upd_chan s t c f).
Proof. unfold upd_chan. apply keeps_counts_upd_topic. intros tp. apply upd_chan_in_counts. Qed.

Lemma keeps_counts_upd_client s k f : keeps_counts s (upd_client s k f).
Proof. intros tp' H. unfold upd_client in H. cbn in H. left. exists tp'. auto. Qed.

Lemma keeps_counts_pump_topic cfg now s t : keeps_counts s (pump_topic cfg now s t).
Proof. unfold pump_topic. apply keeps_counts_upd_topic. intros tp. apply pump_counts. Qed.

Lemma keeps_counts_ensure_chan s t c teph ceph : keeps_counts s (ensure_chan s t c teph ceph).
Proof.
  unfold ensure_chan. eapply keeps_counts_trans; [apply keeps_counts_ensure_topic|].
  apply keeps_counts_upd_topic. intros tp. destruct (find_chan tp c); cbn; auto.
Qed.

Lemma keeps_counts_unsubscribe kl s : keeps_counts s (unsubscribe kl s).
Proof.
  unfold unsubscribe. destruct (k_sub kl) as [[t c]|]; [|apply keeps_counts_refl].
  eapply keeps_counts_trans; [|apply keeps_counts_filter].
  eapply keeps_counts_trans; [apply keeps_counts_upd_chan|].
  apply keeps_counts_upd_topic. intros tp. cbn. auto.
Qed.

Lemma keeps_counts_fold_dec ks (ex : list ifl) : forall s,
  keeps_counts s (fold_left (fun s e => dec_ifl ks (i_cid e) s) ex s).
Proof.
  induction ex as [|e ex IH]; intros s; cbn; [apply keeps_counts_refl|].
  eapply keeps_counts_trans; [|apply IH]. unfold dec_ifl. destruct (existsb _ ks); [apply keeps_counts_upd_client|apply keeps_counts_refl].
Qed.

Lemma keeps_counts_ok cfg s o s' :
  match o with OPub _ _ _ _ _ _ => False | _ => True end ->
  keeps_counts s s' -> forall tp', In tp' (s_topics s') -> topic_counts_ok cfg s o tp'.
Proof.
  intros Ho H tp' Hin. unfold topic_counts_ok.
  destruct (H tp' Hin) as [[tp (I & A & B & C)]|[Z1 Z2]].
  - left. exists tp. destruct o; try destruct Ho; rewrite ?N.add_0_r; auto.
  - right. destruct o; try destruct Ho; auto.
Qed.

Theorem topic_counters cfg s o tp' : In tp' (s_topics (fst (step cfg s o))) -> topic_counts_ok cfg s o tp'.
Proof.
  destruct o; cbn [step].
  - cbn [fst]. apply keeps_counts_ok; [exact I|apply keeps_counts_ensure_topic].
  - destruct (find_topic s t); cbn [fst]; (apply keeps_counts_ok; [exact I|]); [|apply keeps_counts_refl].
    eapply keeps_counts_trans; [apply keeps_counts_ensure_chan|apply keeps_counts_pump_topic].
  - (* OPub *)
    cbn. intros Hin. unfold pump_topic, upd_topic in Hin. cbn in Hin.
    apply in_map_if_topic in Hin. destruct Hin as [tp1 [Hin1 ->]].
    apply in_map_if_topic in Hin1. destruct Hin1 as [tp0 [Hin0 ->]].
    pose proof (keeps_counts_ensure_topic s t teph tp0 Hin0) as H0.
    unfold topic_counts_ok.
    set (F := fun tp : topic => (fold_left (fun tp id => topic_put cfg (mkMsg id 0 defer) tp) ids tp)
                                  <| t_msgcount ::= N.add (N.of_nat (length ids)) |> <| t_bytes ::= N.add bytes |>).
    assert (HF : forall tp, t_id (F tp) = t_id tp /\ t_msgcount (F tp) = N.of_nat (length ids) + t_msgcount tp
                            /\ t_bytes (F tp) = bytes + t_bytes tp).
    { intros tp. unfold F. cbn. destruct (fold_topic_put_counts cfg defer ids tp) as (A & B & C). rewrite A, B, C. auto. }
    destruct (N.eqb_spec (t_id tp0) t) as [E|E].
    + fold (F tp0). destruct (HF tp0) as (A & B & C).
      assert (Hid : t_id (if t_id (F tp0) =? t then pump cfg now (F tp0) else F tp0) = t).
      { rewrite A, E, N.eqb_refl. destruct (pump_counts cfg now (F tp0)) as (P1 & _). congruence. }
      assert (Hc : t_msgcount (if t_id (F tp0) =? t then pump cfg now (F tp0) else F tp0) = N.of_nat (length ids) + t_msgcount tp0
                   /\ t_bytes (if t_id (F tp0) =? t then pump cfg now (F tp0) else F tp0) = bytes + t_bytes tp0).
      { rewrite A, E, N.eqb_refl. destruct (pump_counts cfg now (F tp0)) as (_ & P2 & P3). split; congruence. }
      rewrite Hid, N.eqb_refl. destruct Hc as [Hc1 Hc2].
      destruct H0 as [[tp (I0 & A0 & B0 & C0)]|[Z1 Z2]].
      * left. exists tp. repeat split; try congruence; lia.
      * right. split; lia.
    + assert (Hne : (t_id tp0 =? t) = false) by (apply N.eqb_neq; exact E). rewrite Hne.
      destruct H0 as [[tp (I0 & A0 & B0 & C0)]|[Z1 Z2]].
      * left. exists tp. rewrite Hne. repeat split; try congruence; lia.
      * right. rewrite Hne. split; lia.
  - destruct (find_client s k); cbn [fst]; (apply keeps_counts_ok; [exact I|]); [apply keeps_counts_refl|apply keeps_counts_clients].
  - destruct (find_client s k) as [kl|]; cbn [fst]; [|apply keeps_counts_ok; [exact I|apply keeps_counts_refl]].
    destruct ((k_state kl =? st_init) && k_alive kl); cbn [fst]; (apply keeps_counts_ok; [exact I|]); [|apply keeps_counts_refl].
    eapply keeps_counts_trans; [|apply keeps_counts_pump_topic].
    eapply keeps_counts_trans; [|apply keeps_counts_upd_client].
    eapply keeps_counts_trans; [apply keeps_counts_ensure_chan|apply keeps_counts_upd_chan].
  - destruct (find_client s k) as [kl|]; cbn [fst]; [|apply keeps_counts_ok; [exact I|apply keeps_counts_refl]].
    destruct (k_state kl =? st_closing); cbn [fst]; [apply keeps_counts_ok; [exact I|apply keeps_counts_refl]|].
    destruct (k_state kl =? st_subscribed); cbn [fst]; apply keeps_counts_ok; try exact I; try apply keeps_counts_refl.
    apply keeps_counts_upd_client.
  - destruct (find_client s k) as [kl|]; cbn [fst]; [|apply keeps_counts_ok; [exact I|apply keeps_counts_refl]].
    destruct (k_sub kl) as [[t c]|]; cbn [fst]; [|apply keeps_counts_ok; [exact I|apply keeps_counts_refl]].
    destruct (get_chan s t c) as [ch|]; cbn [fst]; [|apply keeps_counts_ok; [exact I|apply keeps_counts_refl]].
    destruct (deliverable s kl ch id); cbn [fst]; (apply keeps_counts_ok; [exact I|]); [|apply keeps_counts_refl].
    eapply keeps_counts_trans; [apply keeps_counts_upd_chan|apply keeps_counts_upd_client].
  - destruct (answering s k) as [[[[[kl t] c] ch]|]|]; cbn [fst]; try (apply keeps_counts_ok; [exact I|apply keeps_counts_refl]).
    destruct (holds ch k id); cbn [fst]; (apply keeps_counts_ok; [exact I|]); [|apply keeps_counts_refl].
    eapply keeps_counts_trans; [apply keeps_counts_upd_chan|apply keeps_counts_upd_client].
  - destruct (answering s k) as [[[[[kl t] c] ch]|]|]; cbn [fst]; try (apply keeps_counts_ok; [exact I|apply keeps_counts_refl]).
    destruct (holds ch k id); cbn [fst]; (apply keeps_counts_ok; [exact I|]); [|apply keeps_counts_refl].
    eapply keeps_counts_trans; [apply keeps_counts_upd_chan|apply keeps_counts_upd_client].
  - destruct (answering s k) as [[[[[kl t] c] ch]|]|]; cbn [fst]; try (apply keeps_counts_ok; [exact I|apply keeps_counts_refl]).
    destruct (holds ch k id); cbn [fst]; (apply keeps_counts_ok; [exact I|]); [|apply keeps_counts_refl].
    apply keeps_counts_upd_chan.
  - destruct (find_client s k) as [kl|]; cbn [fst]; [|apply keeps_counts_ok; [exact I|apply keeps_counts_refl]].
    destruct (k_state kl =? st_subscribed); cbn [fst]; apply keeps_counts_ok; try exact I; try apply keeps_counts_refl.
    apply keeps_counts_upd_client.
  - destruct (find_client s k) as [kl|]; cbn [fst]; (apply keeps_counts_ok; [exact I|]); [|apply keeps_counts_refl].
    eapply keeps_counts_trans; [apply keeps_counts_unsubscribe|apply keeps_counts_upd_client].
  - destruct (get_chan s t c); cbn [fst]; (apply keeps_counts_ok; [exact I|]); [apply keeps_counts_upd_chan|apply keeps_counts_refl].
  - destruct (find_topic s t); cbn [fst]; (apply keeps_counts_ok; [exact I|]); [|apply keeps_counts_refl].
    eapply keeps_counts_trans; [|apply keeps_counts_pump_topic]. apply keeps_counts_upd_topic. intros tp. cbn. auto.
  - destruct (get_chan s t c); cbn [fst]; (apply keeps_counts_ok; [exact I|]); [|apply keeps_counts_refl].
    eapply keeps_counts_trans; [apply keeps_counts_upd_chan|apply keeps_counts_clients].
  - destruct (find_topic s t); cbn [fst]; (apply keeps_counts_ok; [exact I|]); [|apply keeps_counts_refl].
    apply keeps_counts_upd_topic. intros tp. cbn. auto.
  - destruct (find_topic s t) as [tp|]; cbn [fst]; [|apply keeps_counts_ok; [exact I|apply keeps_counts_refl]].
    destruct (find_chan tp c) as [ch|]; cbn [fst]; (apply keeps_counts_ok; [exact I|]); [|apply keeps_counts_refl].
    unfold drop_empty_eph_topic. eapply keeps_counts_trans; [|apply keeps_counts_filter].
    eapply keeps_counts_trans; [apply keeps_counts_close_clients|].
    apply keeps_counts_upd_topic. intros tp0. cbn. auto.
  - destruct (find_topic s t) as [tp|]; cbn [fst]; (apply keeps_counts_ok; [exact I|]); [|apply keeps_counts_refl].
    eapply keeps_counts_trans; [apply keeps_counts_close_clients|apply keeps_counts_filter].
  - destruct (get_chan s t c) as [ch|]; cbn [fst]; (apply keeps_counts_ok; [exact I|]); [|apply keeps_counts_refl].
    eapply keeps_counts_trans; [apply keeps_counts_upd_chan|apply keeps_counts_fold_dec].
  - destruct (get_chan s t c) as [ch|]; cbn [fst]; (apply keeps_counts_ok; [exact I|]); [|apply keeps_counts_refl].
    apply keeps_counts_upd_chan.
Qed.
