(* C02 / C03 / C04 facts that follow directly from one step of model/Core.v:
   the send guard, foreign answers change nothing, attempts, never-early scans,
   the TOUCH cap. *)
From Coq Require Import List NArith ZArith Bool Lia ZifyNat ZifyN ZifyBool.
From RecordUpdate Require Import RecordUpdate.
From NSQV Require Import model.Core proofs.CoreBase.
Import ListNotations.
Open Scope N_scope.

Lemma find_client_id s k kl : find_client s k = Some kl -> k_id kl = k.
Proof. unfold find_client. intros H. apply find_some in H. destruct H as [_ H]. apply N.eqb_eq, H. Qed.

(* ---------- C03: the send guard ---------- *)
(* a delivery happens only to a live, subscribed consumer of an un-paused channel
   whose in-flight count is below a positive RDY *)
Theorem deliver_guard cfg s k id now s' att :
  step cfg s (ODeliver k id now) = (s', RDelivered att) ->
  exists kl t c ch,
    find_client s k = Some kl /\ k_sub kl = Some (t, c) /\ get_chan s t c = Some ch /\
    k_alive kl = true /\ c_paused ch = false /\ (0 < k_rdy kl)%Z /\ (k_ifl kl < k_rdy kl)%Z /\
    In k (c_clients ch) /\ exists m q', remove_msg id (c_queue ch) = Some (m, q') /\ att = m_att (bump m).
Proof.
  cbn [step]. intros H.
  destruct (find_client s k) as [kl|] eqn:Ek; [|discriminate].
  destruct (k_sub kl) as [[t c]|] eqn:Es; [|discriminate].
  destruct (get_chan s t c) as [ch|] eqn:Ec; [|discriminate].
  destruct (deliverable s kl ch id) eqn:Ed; [|discriminate].
  inversion H; subst; clear H.
  unfold deliverable in Ed.
  repeat (apply andb_prop in Ed; destruct Ed as [Ed ?]).
  exists kl, t, c, ch. repeat split; try assumption.
  - apply negb_true_iff. assumption.
  - lia.
  - lia.
  - match goal with H : existsb _ _ = true |- _ => apply existsb_exists in H; destruct H as [x [Hin Hx]] end.
    apply N.eqb_eq in Hx. subst. rewrite <- (find_client_id _ _ _ Ek). exact Hin.
  - unfold att_after_delivery. destruct (remove_msg id (c_queue ch)) as [[m q']|]; [|discriminate].
    exists m, q'. split; reflexivity.
Qed.

(* no RDY yet, RDY 0, CLS: nothing is deliverable to that consumer *)
Theorem not_deliverable_rdy0 s kl ch id : (k_rdy kl <= 0)%Z -> deliverable s kl ch id = false.
Proof.
  intros H. unfold deliverable. destruct (0 <? k_rdy kl)%Z eqn:E; [lia|].
  rewrite !andb_false_r. reflexivity.
Qed.

Theorem not_deliverable_full s kl ch id : (k_rdy kl <= k_ifl kl)%Z -> deliverable s kl ch id = false.
Proof.
  intros H. unfold deliverable. destruct (k_ifl kl <? k_rdy kl)%Z eqn:E; [lia|].
  rewrite !andb_false_r. reflexivity.
Qed.

Theorem not_deliverable_paused s kl ch id : c_paused ch = true -> deliverable s kl ch id = false.
Proof. intros H. unfold deliverable. rewrite H. cbn. rewrite !andb_false_r. reflexivity. Qed.

(* CLS forces RDY 0 and later RDY commands are ignored *)
Theorem cls_forces_rdy0 cfg s k kl :
  find_client s k = Some kl -> k_state kl = st_subscribed ->
  step cfg s (OCls k) = (upd_client s k (fun x => x <| k_rdy := 0%Z |> <| k_state := st_closing |>), ROk).
Proof. intros H1 H2. cbn [step]. rewrite H1, H2. reflexivity. Qed.

Theorem rdy_ignored_when_closing cfg s k kl n :
  find_client s k = Some kl -> k_state kl = st_closing -> step cfg s (ORdy k n) = (s, ROk).
Proof. intros H1 H2. cbn [step]. rewrite H1, H2. reflexivity. Qed.

(* resume: whenever the guard's conditions hold and a message waits, a delivery IS enabled *)
Theorem resume_enabled cfg s k kl t c ch id m q' now :
  find_client s k = Some kl -> k_sub kl = Some (t, c) -> get_chan s t c = Some ch ->
  k_alive kl = true -> c_paused ch = false -> (0 < k_rdy kl)%Z -> (k_ifl kl < k_rdy kl)%Z ->
  In k (c_clients ch) -> remove_msg id (c_queue ch) = Some (m, q') ->
  snd (step cfg s (ODeliver k id now)) = RDelivered (m_att (bump m)).
Proof.
  intros Hk Hs Hc Ha Hp Hr Hi Hin Hq. cbn [step]. rewrite Hk, Hs, Hc.
  assert (Hd : deliverable s kl ch id = true).
  { unfold deliverable. rewrite Ha, Hp, Hq. cbn.
    destruct (Z.ltb_spec 0 (k_rdy kl)); [|lia]. destruct (Z.ltb_spec (k_ifl kl) (k_rdy kl)); [|lia].
    cbn. rewrite andb_true_r. apply existsb_exists. exists k. split; [exact Hin|].
    rewrite (find_client_id _ _ _ Hk). apply N.eqb_refl. }
  rewrite Hd. cbn. unfold att_after_delivery. rewrite Hq. reflexivity.
Qed.

(* ---------- C02: answers for a message the connection does not hold ---------- *)
Theorem foreign_fin_noop cfg s k id s' : step cfg s (OFin k id) = (s', RFailed) -> s' = s.
Proof.
  cbn [step]. destruct (answering s k) as [[[[[kl t] c] ch]|]|]; intros H.
  - destruct (holds ch k id); inversion H; reflexivity.
  - inversion H; reflexivity.
  - inversion H.
Qed.

Theorem foreign_req_noop cfg s k id d now s' : step cfg s (OReq k id d now) = (s', RFailed) -> s' = s.
Proof.
  cbn [step]. destruct (answering s k) as [[[[[kl t] c] ch]|]|]; intros H.
  - destruct (holds ch k id); inversion H; reflexivity.
  - inversion H; reflexivity.
  - inversion H.
Qed.

Theorem foreign_touch_noop cfg s k id now s' : step cfg s (OTouch k id now) = (s', RFailed) -> s' = s.
Proof.
  cbn [step]. destruct (answering s k) as [[[[[kl t] c] ch]|]|]; intros H.
  - destruct (holds ch k id); inversion H; reflexivity.
  - inversion H; reflexivity.
  - inversion H.
Qed.

(* an answer is accepted exactly when the connection holds the message *)
Theorem fin_accepted_iff_holds cfg s k id kl t c ch :
  answering s k = inl (Some (kl, t, c, ch)) ->
  (snd (step cfg s (OFin k id)) = ROk <-> holds ch k id = true) /\
  (snd (step cfg s (OFin k id)) = RFailed <-> holds ch k id = false).
Proof.
  intros H. cbn [step]. rewrite H. destruct (holds ch k id); cbn; split; split; intros; try reflexivity; try discriminate.
Qed.

(* every delivery carries an attempts count exactly one higher than the message had *)
Theorem attempts_increment m : m_att (bump m) = (m_att m + 1) mod 65536.
Proof. reflexivity. Qed.

Theorem attempts_increment_small m : m_att m < 65535 -> m_att (bump m) = m_att m + 1.
Proof. intros H. cbn. apply N.mod_small. lia. Qed.

(* ---------- C04 (core level): scans never act early; TOUCH is capped ---------- *)
Lemma partition_spec {A} (p : A -> bool) (l : list A) :
  forall x, (In x (fst (partition p l)) -> p x = true) /\ (In x (snd (partition p l)) -> p x = false).
Proof.
  induction l as [|a l IH]; intros x; cbn; [split; intros []|].
  destruct (partition p l) as [yes no] eqn:E. cbn in IH.
  destruct (p a) eqn:Pa; cbn; split; intros H.
  - destruct H as [->|H]; [exact Pa|apply IH, H].
  - apply IH, H.
  - apply IH, H.
  - destruct H as [->|H]; [exact Pa|apply IH, H].
Qed.

Theorem scan_never_early_ifl now l e : In e (fst (expired_ifl now l)) -> (i_deadline e <= now)%Z.
Proof. intros H. apply (partition_spec _ l e) in H. lia. Qed.

Theorem scan_complete_ifl now l e : In e (snd (expired_ifl now l)) -> (now < i_deadline e)%Z.
Proof. intros H. apply (partition_spec _ l e) in H. lia. Qed.

Theorem scan_never_early_dfr now l e : In e (fst (expired_dfr now l)) -> (d_release e <= now)%Z.
Proof. intros H. apply (partition_spec _ l e) in H. lia. Qed.

Theorem scan_complete_dfr now l e : In e (snd (expired_dfr now l)) -> (now < d_release e)%Z.
Proof. intros H. apply (partition_spec _ l e) in H. lia. Qed.

Theorem touch_deadline_cap cfg now tmo dts :
  (0 <= max_msg_timeout cfg)%Z -> (touch_deadline cfg now tmo dts <= dts + max_msg_timeout cfg)%Z.
Proof. intros H. unfold touch_deadline. destruct (Z.geb_spec (now + tmo - dts) (max_msg_timeout cfg)); lia. Qed.

Theorem touch_deadline_restart cfg now tmo dts :
  (now + tmo - dts < max_msg_timeout cfg)%Z -> touch_deadline cfg now tmo dts = (now + tmo)%Z.
Proof. intros H. unfold touch_deadline. destruct (Z.geb_spec (now + tmo - dts) (max_msg_timeout cfg)); lia. Qed.

Theorem delivery_from_queue cfg s k id now s' att :
  step cfg s (ODeliver k id now) = (s', RDelivered att) ->
  exists kl t c ch m q', find_client s k = Some kl /\ k_sub kl = Some (t, c) /\ get_chan s t c = Some ch /\
    remove_msg id (c_queue ch) = Some (m, q') /\ att = m_att (bump m).
Proof.
  intros H. destruct (deliver_guard _ _ _ _ _ _ _ H) as (kl & t & c & ch & A & B & C & _ & _ & _ & _ & _ & m & q' & D & E).
  exists kl, t, c, ch, m, q'. auto.
Qed.
