(* Basic facts about the association-list RegistrationDB of model/Lookupd.v:
   decidable equalities, and what [get] returns after each primitive. *)
From Coq Require Import List NArith ZArith Bool Lia.
From NSQV Require Import model.Judge model.Names model.Lookupd.
Import ListNotations.
Open Scope bool_scope.

(* ------------------------------------------------------------------ equalities *)
Lemma bytes_eqb_eq (a b : bytes) : bytes_eqb a b = true <-> a = b.
Proof.
  unfold bytes_eqb. revert b. induction a as [|x a IH]; intros [|y b]; cbn; split; intros H;
    try reflexivity; try discriminate.
  - apply andb_true_iff in H as [H1 H2]. apply N.eqb_eq in H1. apply IH in H2. subst. reflexivity.
  - inversion H; subst. rewrite N.eqb_refl. cbn. apply IH. reflexivity.
Qed.

Lemma bytes_eqb_refl (a : bytes) : bytes_eqb a a = true.
Proof. apply bytes_eqb_eq. reflexivity. Qed.

Lemma bytes_eqb_neq (a b : bytes) : bytes_eqb a b = false <-> a <> b.
Proof.
  split; intros H.
  - intros E. apply bytes_eqb_eq in E. congruence.
  - destruct (bytes_eqb a b) eqn:E; [|reflexivity]. apply bytes_eqb_eq in E. contradiction.
Qed.

Lemma bytes_eqb_sym (a b : bytes) : bytes_eqb a b = bytes_eqb b a.
Proof.
  destruct (bytes_eqb a b) eqn:E.
  - apply bytes_eqb_eq in E. subst. symmetry. apply bytes_eqb_refl.
  - symmetry. apply bytes_eqb_neq. apply bytes_eqb_neq in E. congruence.
Qed.

Lemma cat_eqb_eq (a b : cat) : cat_eqb a b = true <-> a = b.
Proof. destruct a, b; cbn; split; intros H; try reflexivity; try discriminate. Qed.

Lemma reg_eqb_eq (a b : reg) : reg_eqb a b = true <-> a = b.
Proof.
  unfold reg_eqb. destruct a as [c k s], b as [c' k' s']; cbn. split; intros H.
  - apply andb_true_iff in H as [H H3]. apply andb_true_iff in H as [H1 H2].
    apply cat_eqb_eq in H1. apply bytes_eqb_eq in H2. apply bytes_eqb_eq in H3. subst. reflexivity.
  - inversion H; subst. rewrite !bytes_eqb_refl. rewrite (proj2 (cat_eqb_eq c' c') eq_refl). reflexivity.
Qed.

Lemma reg_eqb_refl (a : reg) : reg_eqb a a = true.
Proof. apply reg_eqb_eq. reflexivity. Qed.

Lemma reg_eqb_neq (a b : reg) : reg_eqb a b = false <-> a <> b.
Proof.
  split; intros H.
  - intros E. apply reg_eqb_eq in E. congruence.
  - destruct (reg_eqb a b) eqn:E; [|reflexivity]. apply reg_eqb_eq in E. contradiction.
Qed.

Lemma reg_eqb_sym (a b : reg) : reg_eqb a b = reg_eqb b a.
Proof.
  destruct (reg_eqb a b) eqn:E.
  - apply reg_eqb_eq in E. subst. symmetry. apply reg_eqb_refl.
  - symmetry. apply reg_eqb_neq. apply reg_eqb_neq in E. congruence.
Qed.

Lemma reg_eqb_spec (a b : reg) : reflect (a = b) (reg_eqb a b).
Proof.
  destruct (reg_eqb a b) eqn:E; constructor.
  - apply reg_eqb_eq. assumption.
  - apply reg_eqb_neq. assumption.
Qed.

(* ------------------------------------------------------------------ get *)
Lemma get_upd (k k' : reg) f (m : dbmap) :
  get k' (upd k f m) = if reg_eqb k k' then option_map f (get k' m) else get k' m.
Proof.
  induction m as [|[k0 ps] m IH]; cbn.
  - destruct (reg_eqb k k'); reflexivity.
  - destruct (reg_eqb_spec k0 k) as [->|Hk0].
    + cbn. destruct (reg_eqb_spec k k') as [->|Hkk']; [reflexivity|reflexivity].
    + cbn. destruct (reg_eqb_spec k0 k') as [->|Hk0']; [|exact IH].
      destruct (reg_eqb_spec k k') as [->|]; [contradiction|reflexivity].
Qed.

Lemma get_app_none (k : reg) (m m' : dbmap) : get k m = None -> get k (m ++ m') = get k m'.
Proof.
  induction m as [|[k0 ps] m IH]; cbn; [reflexivity|].
  destruct (reg_eqb k0 k); [discriminate|exact IH].
Qed.

Lemma get_app_some (k : reg) (m m' : dbmap) ps : get k m = Some ps -> get k (m ++ m') = Some ps.
Proof.
  induction m as [|[k0 ps0] m IH]; cbn; [discriminate|].
  destruct (reg_eqb k0 k); [tauto|exact IH].
Qed.

Lemma get_snoc (k k' : reg) v (m : dbmap) :
  get k m = None ->
  get k' (m ++ [(k, v)]) = if reg_eqb k k' then Some v else get k' m.
Proof.
  intros Hn. destruct (get k' m) as [ps|] eqn:E.
  - rewrite (get_app_some _ _ _ _ E). destruct (reg_eqb_spec k k') as [->|]; [congruence|reflexivity].
  - rewrite (get_app_none _ _ _ E). cbn. destruct (reg_eqb k k'); reflexivity.
Qed.

Lemma get_remove_registration (k k' : reg) (m : dbmap) :
  get k' (remove_registration k m) = if reg_eqb k k' then None else get k' m.
Proof.
  unfold remove_registration. induction m as [|[k0 ps] m IH]; cbn.
  - destruct (reg_eqb k k'); reflexivity.
  - destruct (reg_eqb_spec k0 k) as [->|Hk0]; cbn.
    + rewrite IH. destruct (reg_eqb_spec k k'); reflexivity.
    + destruct (reg_eqb_spec k0 k') as [->|]; [|exact IH].
      destruct (reg_eqb_spec k k') as [->|]; [contradiction|reflexivity].
Qed.

Lemma get_add_registration (k k' : reg) (m : dbmap) :
  get k' (add_registration k m) =
  if reg_eqb k k' then Some (match get k m with Some ps => ps | None => [] end) else get k' m.
Proof.
  unfold add_registration, has_key. destruct (get k m) as [ps|] eqn:E.
  - destruct (reg_eqb_spec k k') as [->|]; [assumption|reflexivity].
  - apply get_snoc. assumption.
Qed.

Lemma get_add_producer (k k' : reg) pr (m : dbmap) :
  get k' (fst (add_producer k pr m)) =
  if reg_eqb k k' then
    Some (match get k m with
          | Some ps => if has_prod (p_id pr) ps then ps else ps ++ [pr]
          | None => [pr]
          end)
  else get k' m.
Proof.
  unfold add_producer. destruct (get k m) as [ps|] eqn:E.
  - destruct (has_prod (p_id pr) ps) eqn:Hp; cbn.
    + destruct (reg_eqb_spec k k') as [->|]; [assumption|reflexivity].
    + rewrite get_upd. destruct (reg_eqb_spec k k') as [->|]; [|reflexivity]. rewrite E. reflexivity.
  - cbn. apply get_snoc. assumption.
Qed.

Lemma get_remove_producer (k k' : reg) id (m : dbmap) :
  get k' (fst (fst (remove_producer k id m))) =
  if reg_eqb k k' then option_map (drop_prod id) (get k' m) else get k' m.
Proof.
  unfold remove_producer. destruct (get k m) as [ps|] eqn:E; cbn.
  - apply get_upd.
  - destruct (reg_eqb_spec k k') as [->|]; [rewrite E|]; reflexivity.
Qed.

Lemma remove_producer_left (k : reg) id (m : dbmap) :
  snd (remove_producer k id m) =
  match get k m with Some ps => length (drop_prod id ps) | None => O end.
Proof. unfold remove_producer. destruct (get k m); reflexivity. Qed.

Lemma has_key_get (k : reg) (m : dbmap) : has_key k m = true <-> exists ps, get k m = Some ps.
Proof.
  unfold has_key. destruct (get k m) as [ps|]; split; intros H; try discriminate; eauto.
  destruct H as [? H]. discriminate.
Qed.

Lemma get_in (k : reg) (m : dbmap) ps : get k m = Some ps -> In (k, ps) m.
Proof.
  induction m as [|[k0 ps0] m IH]; cbn; [discriminate|].
  destruct (reg_eqb_spec k0 k) as [->|]; intros H.
  - inversion H; subst. left. reflexivity.
  - right. apply IH. assumption.
Qed.

Lemma in_keys_get (k : reg) (m : dbmap) : In k (map fst m) <-> has_key k m = true.
Proof.
  unfold has_key. induction m as [|[k0 ps] m IH]; cbn.
  - split; [tauto|discriminate].
  - destruct (reg_eqb_spec k0 k) as [->|Hn].
    + split; auto.
    + rewrite <- IH. split; [intros [H|H]; [congruence|assumption] | auto].
Qed.

(* ------------------------------------------------------------------ producer lists *)
Lemma has_prod_app id ps ps' : has_prod id (ps ++ ps') = has_prod id ps || has_prod id ps'.
Proof. unfold has_prod. apply existsb_app. Qed.

Lemma has_prod_drop id id' ps :
  has_prod id (drop_prod id' ps) = has_prod id ps && negb (N.eqb id id').
Proof.
  unfold has_prod, drop_prod. induction ps as [|pr ps IH]; cbn; [reflexivity|].
  destruct (N.eqb_spec (p_id pr) id') as [E|E]; cbn.
  - rewrite IH. destruct (N.eqb_spec (p_id pr) id) as [E2|E2]; cbn; [|reflexivity].
    subst. rewrite N.eqb_refl. cbn. rewrite andb_false_r. reflexivity.
  - rewrite IH. destruct (N.eqb_spec (p_id pr) id) as [E2|E2]; cbn; [|reflexivity].
    subst. destruct (N.eqb_spec (p_id pr) id'); [contradiction|reflexivity].
Qed.

Lemma has_prod_in id ps : has_prod id ps = true <-> exists pr, In pr ps /\ p_id pr = id.
Proof.
  unfold has_prod. rewrite existsb_exists. split; intros [pr [H1 H2]]; exists pr; split; auto.
  - apply N.eqb_eq. assumption.
  - apply N.eqb_eq. assumption.
Qed.

Lemma drop_prod_idem id ps : drop_prod id (drop_prod id ps) = drop_prod id ps.
Proof.
  unfold drop_prod. induction ps as [|pr ps IH]; cbn; [reflexivity|].
  destruct (negb (N.eqb (p_id pr) id)) eqn:E; cbn; [rewrite E, IH|]; auto.
Qed.

Lemma drop_prod_none id ps : has_prod id ps = false -> drop_prod id ps = ps.
Proof.
  unfold has_prod, drop_prod. induction ps as [|pr ps IH]; cbn; [reflexivity|].
  intros H. apply orb_false_iff in H as [H1 H2]. rewrite H1. cbn. f_equal. apply IH. assumption.
Qed.

Lemma drop_prod_length0 id ps :
  length (drop_prod id ps) = O <-> (forall pr, In pr ps -> p_id pr = id).
Proof.
  unfold drop_prod. induction ps as [|pr ps IH]; cbn.
  - split; [intros _ ? []|reflexivity].
  - destruct (N.eqb_spec (p_id pr) id) as [E|E]; cbn.
    + rewrite IH. split; intros H.
      * intros pr' [<-|H']; auto.
      * intros pr' H'. apply H. right. assumption.
    + split; [discriminate|]. intros H. exfalso. apply E. apply H. left. reflexivity.
Qed.

Lemma find_drop_prod id id' ps :
  find (fun pr => N.eqb (p_id pr) id) (drop_prod id' ps) =
  if N.eqb id id' then None else find (fun pr => N.eqb (p_id pr) id) ps.
Proof.
  unfold drop_prod. induction ps as [|pr ps IH]; cbn.
  - destruct (N.eqb id id'); reflexivity.
  - destruct (N.eqb_spec (p_id pr) id') as [E|E]; cbn.
    + rewrite IH. destruct (N.eqb_spec id id') as [E2|E2]; [reflexivity|].
      destruct (N.eqb_spec (p_id pr) id); [congruence|reflexivity].
    + destruct (N.eqb_spec (p_id pr) id) as [E2|E2].
      * destruct (N.eqb_spec id id'); [congruence|reflexivity].
      * exact IH.
Qed.

Lemma find_app_none {A} (f : A -> bool) l l' : find f l = None -> find f (l ++ l') = find f l'.
Proof. induction l as [|x l IH]; cbn; [reflexivity|]. destruct (f x); [discriminate|exact IH]. Qed.

Lemma find_app_some {A} (f : A -> bool) l l' x : find f l = Some x -> find f (l ++ l') = Some x.
Proof. induction l as [|y l IH]; cbn; [discriminate|]. destruct (f y); [tauto|exact IH]. Qed.

Lemma find_none_has_prod id ps : find (fun pr => N.eqb (p_id pr) id) ps = None <-> has_prod id ps = false.
Proof.
  unfold has_prod. induction ps as [|pr ps IH]; cbn; [tauto|].
  destruct (N.eqb (p_id pr) id); cbn; [split; discriminate|exact IH].
Qed.

(* ------------------------------------------------------------------ peers *)
Lemma find_peer_app id l l' :
  find_peer id (l ++ l') = match find_peer id l with Some c => Some c | None => find_peer id l' end.
Proof.
  induction l as [|[q c] l IH]; cbn; [reflexivity|]. destruct (N.eqb q id); [reflexivity|exact IH].
Qed.

Lemma find_peer_drop id id' l :
  find_peer id (drop_peer id' l) = if N.eqb id id' then None else find_peer id l.
Proof.
  unfold drop_peer. induction l as [|[q c] l IH]; cbn.
  - destruct (N.eqb id id'); reflexivity.
  - destruct (N.eqb_spec q id') as [E|E]; cbn.
    + rewrite IH. destruct (N.eqb_spec id id') as [E2|E2]; [reflexivity|].
      destruct (N.eqb_spec q id); [congruence|reflexivity].
    + destruct (N.eqb_spec q id) as [E2|E2].
      * destruct (N.eqb_spec id id'); [congruence|reflexivity].
      * exact IH.
Qed.

Lemma find_peer_set_last id id' t l :
  find_peer id (set_last id' t l) =
  match find_peer id l with
  | Some c => Some (if N.eqb id id' then mkClient t (c_info c) else c)
  | None => None
  end.
Proof.
  unfold set_last. induction l as [|[q c] l IH]; cbn; [reflexivity|].
  destruct (N.eqb_spec q id') as [E|E]; cbn.
  - destruct (N.eqb_spec q id) as [E2|E2].
    + subst. rewrite N.eqb_refl. reflexivity.
    + exact IH.
  - destruct (N.eqb_spec q id) as [E2|E2].
    + subst. destruct (N.eqb_spec id id'); [contradiction|reflexivity].
    + exact IH.
Qed.

Lemma find_peer_in id l c : find_peer id l = Some c -> In (id, c) l.
Proof.
  induction l as [|[q c0] l IH]; cbn; [discriminate|].
  destruct (N.eqb_spec q id) as [->|]; intros H.
  - inversion H; subst. left. reflexivity.
  - right. apply IH. assumption.
Qed.
