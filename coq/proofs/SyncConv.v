(* C16 — convergence: on a healthy link every Command moves the peer one step closer
   to "connected, alive, nothing unread"; two heartbeat ticks get there from anywhere;
   together with the invariant this gives registrations = live topics and channels. *)
From Coq Require Import List NArith ZArith Bool Lia Arith.
From RecordUpdate Require Import RecordUpdate.
From NSQV Require Import gen.Consts gen.SyncTab model.Judge model.Sync
  proofs.SyncBase proofs.SyncInv proofs.SyncLoop.
Import ListNotations.
Open Scope nat_scope.
Open Scope bool_scope.

Definition healthy (k : link) : Prop := l_up k = true /\ l_accept k = [] /\ l_reply k = [].
Definition clean (k : link) : Prop := k_state k = st_connected -> k_inbuf k = [].
Definition good_link (k : link) : Prop :=
  k_state k = st_connected /\ l_alive k = true /\ k_inbuf k = [] /\ healthy k.
Definition phase (k : link) : nat :=
  if (k_state k =? st_connected)%Z then (if l_alive k then 0 else 2) else 1.

Lemma rrb_ok c : (16 <= g_max c)%Z -> read_response_bounded c (frame ok_body) = RROk ok_body [].
Proof.
  intros G. replace (frame ok_body) with [0; 0; 0; 2; 79; 75]%N by reflexivity.
  unfold read_response_bounded. cbv zeta.
  change (to_i32 (be32 0 0 0 2)) with 2%Z.
  change (2 <? 0)%Z with false. rewrite andb_false_r.
  destruct (Z.ltb_spec (g_max c) 2); try lia. rewrite andb_false_r. reflexivity.
Qed.

Lemma rrb_ident c : (16 <= g_max c)%Z -> read_response_bounded c (frame ident_body) = RROk ident_body [].
Proof.
  intros G. replace (frame ident_body) with [0; 0; 0; 5; 123; 34; 98; 34; 125]%N by reflexivity.
  unfold read_response_bounded. cbv zeta.
  change (to_i32 (be32 0 0 0 5)) with 5%Z.
  change (5 <? 0)%Z with false. rewrite andb_false_r.
  destruct (Z.ltb_spec (g_max c) 5); try lia. rewrite andb_false_r. reflexivity.
Qed.

Lemma rrb_reply c cm : (16 <= g_max c)%Z ->
  read_response_bounded c (frame (reply_body cm)) = RROk (reply_body cm) [].
Proof. intros G. destruct cm; cbn [reply_body]; auto using rrb_ok, rrb_ident. Qed.

Lemma exchange_good c cm k :
  (16 <= g_max c)%Z -> good_link k ->
  good_link (fst (exchange c cm k)) /\ snd (exchange c cm k) = XOk (reply_body cm) /\
  k_conf (fst (exchange c cm k)) = k_conf k.
Proof.
  intros G (S & A & B & U & Ac & Rp). destruct k; cbn in S, A, B, U, Ac, Rp; subst.
  unfold exchange. cbn -[frame read_response_bounded reply_body].
  rewrite rrb_reply by auto. cbn. repeat split; auto.
Qed.

Lemma send_all_good c cms : forall k,
  (16 <= g_max c)%Z -> good_link k ->
  good_link (fst (send_all c cms k)) /\ (exists b, snd (send_all c cms k) = XOk b) /\
  k_conf (fst (send_all c cms k)) = k_conf k.
Proof.
  induction cms as [|cm r IH]; intros k G H; cbn.
  - split; auto. split; eauto.
  - destruct (exchange_good c cm k G H) as (H1 & E1 & C1).
    destruct (exchange c cm k) as [k1 x]. cbn in *. subst x.
    destruct (IH k1 G H1) as (H2 & E2 & C2). split; auto. split; auto. congruence.
Qed.

Lemma callback_good c rc k :
  (16 <= g_max c)%Z -> good_link k ->
  good_link (fst (callback c rc k)) /\ (exists b, snd (callback c rc k) = XOk b) /\
  k_conf (fst (callback c rc k)) = k_conf k.
Proof.
  intros G H. unfold callback.
  destruct (exchange_good c CIdentify k G H) as (H1 & E1 & C1).
  destruct (exchange c CIdentify k) as [k1 x]. cbn in *. subst x.
  change (bytes_eqb ident_body einvalid_body) with false. cbv iota.
  change (json_parse ident_body) with (Some true). cbv iota.
  assert (H2 : good_link (k1 <| k_info ::= (fun known => known || true) |>)).
  { destruct H1 as (A & B & C & D). repeat split; cbn; auto; apply D. }
  destruct (send_all_good c rc _ G H2) as (H3 & E3 & C3). split; auto. split; auto.
  rewrite C3. cbn. auto.
Qed.

Lemma connect_good c rc k :
  (16 <= g_max c)%Z -> healthy k -> k_state k <> st_connected ->
  good_link (fst (connect c rc k)) /\ (exists b, snd (connect c rc k) = XOk b) /\
  k_conf (fst (connect c rc k)) = k_conf k.
Proof.
  intros G (U & Ac & Rp) S. unfold connect.
  apply Z.eqb_neq in S. rewrite S, U, Ac. cbn [negb].
  match goal with |- context [callback c rc ?kk] =>
    assert (H : good_link kk) by (repeat split; cbn; auto);
    destruct (callback_good c rc kk G H) as (H1 & E1 & C1) end.
  split; auto.
Qed.

Lemma disconnected_ne : st_disconnected <> st_connected.
Proof. discriminate. Qed.

(* one Command on a healthy link *)
Lemma command_progress c rc cm k :
  good_cfg c -> healthy k -> clean k ->
  let k' := fst (command c rc (Some cm) k) in
  healthy k' /\ clean k' /\ k_conf k' = k_conf k /\ phase k' <= phase k - 1.
Proof.
  intros (G1 & G2 & _ & _ & _ & _ & _ & _ & _ & _ & _ & _ & _ & G) H Cl.
  unfold command.
  destruct (Z.eqb_spec (k_state k) st_connected) as [S|S].
  - (* already connected *)
    unfold connect. pose proof S as S'. apply Z.eqb_eq in S'. rewrite S'. cbn [fst snd finish]. rewrite S'.
    destruct (l_alive k) eqn:A.
    + assert (GL : good_link k) by (repeat split; auto; apply H).
      destruct (exchange_good c cm k G GL) as ((A1 & A2 & A3 & A4) & E1 & C1).
      split; auto. split. { intros _. auto. } split; auto.
      unfold phase. apply Z.eqb_eq in A1. rewrite A1, A2. lia.
    + (* the nsqlookupd side is gone: the read fails, the peer is closed *)
      unfold exchange. rewrite A, (Cl S). cbn. rewrite G2. cbn.
      destruct H as (U & Ac & Rp). split; [|split; [|split]].
      * repeat split; auto.
      * intros E. reflexivity.
      * reflexivity.
      * unfold phase. cbn. rewrite S', A. cbn. lia.
  - destruct (connect_good c rc k G H S) as ((A1 & A2 & A3 & A4) & (b & E1) & C1).
    destruct (connect c rc k) as [k1 r]. cbn [fst snd] in *. subst r. cbn [finish].
    pose proof A1 as A1'. apply Z.eqb_eq in A1'. rewrite A1'.
    assert (GL : good_link k1) by (repeat split; auto; apply A4).
    destruct (exchange_good c cm k1 G GL) as ((B1 & B2 & B3 & B4) & E2 & C2).
    split; auto. split. { intros _. auto. } split. congruence.
    unfold phase. apply Z.eqb_eq in B1. rewrite B1, B2. lia.
Qed.

Lemma phase0 k : clean k -> phase k = 0 -> k_state k = st_connected /\ l_alive k = true /\ k_inbuf k = [].
Proof.
  unfold phase. intros Cl. destruct (Z.eqb_spec (k_state k) st_connected); try discriminate.
  destruct (l_alive k); try discriminate. auto.
Qed.

(* ------------------------------------------------------------------ the fault-free suffix *)
Definition quiet_op (o : op) : bool := match o with Deliver _ | Tick => true | _ => false end.
Definition quiet (os : list op) : bool := forallb quiet_op os.
Fixpoint ticks (os : list op) : nat :=
  match os with [] => 0 | Tick :: r => S (ticks r) | _ :: r => ticks r end.

Lemma on_links_fwd f : forall ls a ls',
  on_links f a ls = Some ls' ->
  forall n k, nth_error ls n = Some k -> nth_error ls' n = Some (fst (f (a + n) k)).
Proof.
  induction ls as [|k0 r IH]; intros a ls'; cbn.
  - intros _ n k E. destruct n; discriminate.
  - destruct (f a k0) as [k1 x] eqn:F.
    destruct (on_links f (S a) r) as [r'|] eqn:O.
    + intros H. assert (ls' = k1 :: r') by (destruct x; congruence). subst.
      intros n k E. destruct n as [|n]; cbn in *.
      * inversion E; subst. rewrite Nat.add_0_r, F. auto.
      * replace (a + S n) with (S a + n) by lia. eapply IH; eauto.
    + destruct x; discriminate.
Qed.

Lemma quiet_step_link c s o s' n k :
  good_cfg c -> quiet_op o = true -> step c s o = Run s' ->
  nth_error (links s) n = Some k -> k_conf k = true -> healthy k -> clean k ->
  exists k', nth_error (links s') n = Some k' /\ k_conf k' = true /\ healthy k' /\ clean k' /\
             phase k' <= phase k - (match o with Tick => 1 | _ => 0 end).
Proof.
  intros G Q X Hk C H Cl. unfold step in X.
  destruct o; try discriminate; cbn [is_loop_op loop_step] in X.
  - destruct (nth_error (bag s) i) as [id|] eqn:Ei.
    + match type of X with context [on_links ?f 0 ?ls] => destruct (on_links f 0 ls) as [ls'|] eqn:O; [|discriminate] end.
      inversion X; subst s'; clear X. cbn [links].
      pose proof (on_links_fwd _ _ _ _ O n k Hk) as E. cbn in E. rewrite C in E.
      eexists. split. exact E.
      destruct (command_progress c (registrations c (objs s)) (notif_cmd c (getO (objs s) id)) k G H Cl) as (A1 & A2 & A3 & A4).
      split. congruence. split; auto. split; auto. lia.
    + inversion X; subst. exists k. repeat split; auto; try apply H. lia.
  - match type of X with context [on_links ?f 0 ?ls] => destruct (on_links f 0 ls) as [ls'|] eqn:O; [|discriminate] end.
    inversion X; subst s'; clear X. cbn [links].
    pose proof (on_links_fwd _ _ _ _ O n k Hk) as E. cbn in E. rewrite C in E.
    eexists. split. exact E.
    destruct (command_progress c (registrations c (objs s)) CPing k G H Cl) as (A1 & A2 & A3 & A4).
    split. congruence. auto.
Qed.

Lemma quiet_run_link c : good_cfg c -> forall os s s' n k,
  quiet os = true -> run c (Run s) os = Run s' ->
  nth_error (links s) n = Some k -> k_conf k = true -> healthy k -> clean k ->
  exists k', nth_error (links s') n = Some k' /\ k_conf k' = true /\ healthy k' /\ clean k' /\
             phase k' <= phase k - ticks os.
Proof.
  intros G. induction os as [|o r IH]; intros s s' n k Q X Hk C H Cl.
  - inversion X; subst. exists k. repeat split; auto; try apply H. cbn. lia.
  - rewrite run_cons in X. cbn [quiet forallb] in Q. apply andb_true_iff in Q. destruct Q as [Q1 Q2].
    destruct (step c s o) as [s1|] eqn:S; [|rewrite run_crashed in X; discriminate].
    destruct (quiet_step_link c s o s1 n k G Q1 S Hk C H Cl) as (k1 & Hk1 & C1 & H1 & Cl1 & P1).
    destruct (IH s1 s' n k1 Q2 X Hk1 C1 H1 Cl1) as (k' & Hk' & C' & H' & Cl' & P').
    exists k'. repeat split; auto; try apply H'.
    destruct o; cbn [ticks] in *; try discriminate; lia.
Qed.

Lemma In_live_keys l x : In x (live_keys l) <-> exists i, live l i /\ key_of (getO l i) = x.
Proof.
  unfold live_keys. rewrite in_map_iff. split.
  - intros (i & E & Hi). apply filter_In in Hi. destruct Hi as [_ L]. exists i. auto.
  - intros (i & L & E). exists i. split; auto. apply filter_In. split; auto.
    apply In_ids. apply live_lt. auto.
Qed.

Definition keys_same (a b : list key) : Prop := forall x, In x a <-> In x b.

(* the core statement: from a state satisfying the invariant for link n, a quiet,
   hazard-free suffix that drains the notifications and contains two ticks *)
Theorem converge_core c s suf s' n k :
  good_cfg c -> Inv_on (fun m => m = n) s ->
  quiet suf = true -> hazard_free c (Run s) suf = true ->
  run c (Run s) suf = Run s' -> bag s' = [] -> 2 <= ticks suf ->
  nth_error (links s) n = Some k -> k_conf k = true -> healthy k -> clean k ->
  exists k', nth_error (links s') n = Some k' /\
             k_state k' = st_connected /\ l_alive k' = true /\
             keys_same (l_regs k') (live_keys (objs s')).
Proof.
  intros G I Q Hz X B T Hk C H Cl.
  destruct (quiet_run_link c G suf s s' n k Q X Hk C H Cl) as (k' & Hk' & C' & H' & Cl' & P').
  assert (P0 : phase k' = 0). { unfold phase in *. destruct (k_state k =? st_connected)%Z, (l_alive k); lia. }
  destruct (phase0 k' Cl' P0) as (S' & A' & _).
  exists k'. repeat split; auto.
  - pose proof (run_Inv _ c G suf s s' I Hz X) as (_ & _ & HL).
    destruct (HL n k' eq_refl Hk') as [_ HJ]. destruct (HJ A') as [J1 J2]. rewrite B in *.
    intros Hx. apply In_live_keys. destruct (J2 x Hx) as [H0|(e & [] & _)]. auto.
  - pose proof (run_Inv _ c G suf s s' I Hz X) as (_ & _ & HL).
    destruct (HL n k' eq_refl Hk') as [_ HJ]. destruct (HJ A') as [J1 J2]. rewrite B in *.
    intros Hx. apply In_live_keys in Hx. destruct Hx as (i & L & <-).
    destruct (J1 i L) as [H0|[]]. auto.
Qed.

Lemma Inv_on_weaken (Q Q' : nat -> Prop) s : (forall n, Q' n -> Q n) -> Inv_on Q s -> Inv_on Q' s.
Proof. intros W (A & B & C). split; auto. split; auto. intros n k Qn Hk. apply (C n k); auto. Qed.

(* every history that stays outside the hazard region, any faults, any churn *)
Theorem converge_outside c hist suf s s' n k :
  good_cfg c ->
  hazard_free c (Run init) (hist ++ suf) = true ->
  run c (Run init) hist = Run s ->
  quiet suf = true -> run c (Run s) suf = Run s' -> bag s' = [] -> 2 <= ticks suf ->
  nth_error (links s) n = Some k -> k_conf k = true -> healthy k -> clean k ->
  exists k', nth_error (links s') n = Some k' /\
             k_state k' = st_connected /\ l_alive k' = true /\
             keys_same (l_regs k') (live_keys (objs s')).
Proof.
  intros G Hz X1 Q X2 B T Hk C H Cl.
  assert (HF : forall a b x, hazard_free c x (a ++ b) = true ->
               hazard_free c x a = true /\ hazard_free c (run c x a) b = true).
  { induction a as [|o r IH]; intros b x E.
    - split; auto.
    - destruct x as [s0|].
      + cbn [app hazard_free] in E. apply andb_true_iff in E. destruct E as [E1 E2].
        rewrite run_cons. cbn [hazard_free]. rewrite E1. cbn [andb]. apply IH; auto.
      + split; [reflexivity|]. rewrite run_crashed. destruct b; reflexivity. }
  destruct (HF _ _ _ Hz) as [Hz1 Hz2]. rewrite X1 in Hz2.
  assert (I : Inv s) by (apply (run_Inv (fun _ => True) c G hist init s Inv_init Hz1 X1)).
  eapply converge_core; eauto. eapply Inv_on_weaken; eauto. cbn. auto.
Qed.

(* "... or a reconnect occurs afterwards": whatever happened before (hazards included),
   a link whose connection is not alive converges once the suffix is served in order *)
Theorem converge_after_reconnect c hist suf s s' n k :
  good_cfg c ->
  run c (Run init) hist = Run s ->
  K2 (objs s) (bag s) -> l_alive k = false ->
  quiet suf = true -> hazard_free c (Run s) suf = true ->
  run c (Run s) suf = Run s' -> bag s' = [] -> 2 <= ticks suf ->
  nth_error (links s) n = Some k -> k_conf k = true -> healthy k -> clean k ->
  exists k', nth_error (links s') n = Some k' /\
             k_state k' = st_connected /\ l_alive k' = true /\
             keys_same (l_regs k') (live_keys (objs s')).
Proof.
  intros G X1 K A Q Hz X2 B T Hk C H Cl.
  assert (W : WF (objs s) (bag s)).
  { eapply run_WF; eauto. destruct Inv_init as (W0 & _). exact W0. }
  eapply converge_core; eauto.
  split; auto. split; auto.
  intros m k0 -> Hk0. rewrite Hk in Hk0. inversion Hk0; subst k0.
  split; intros A0; congruence.
Qed.
