(* C01: no acknowledged message is lost.  For a fixed message id x and a fixed durable
   channel (t, c): once x has been accepted by topic t while the channel existed, then
   after ANY further history that does not delete the channel or the topic or empty the
   topic's own queue, x is still waiting in the topic queue, or it is accounted for on
   the channel: queued, in flight, deferred, finished, or discarded by an explicit empty
   of that channel.  It never silently vanishes. *)
From Coq Require Import List NArith ZArith Bool Lia.
From RecordUpdate Require Import RecordUpdate.
From NSQV Require Import model.Core proofs.CoreBase.
Import ListNotations.
Open Scope N_scope.

Definition seen (ch : chan) : list N :=
  map m_id (c_queue ch) ++ map (fun e => m_id (i_msg e)) (c_ifl ch) ++ map (fun e => m_id (d_msg e)) (c_dfr ch)
  ++ c_fin ch ++ c_emptied ch ++ c_lost ch.

Section Tracked.
  Context (cfg : config) (t c x : N).

  (* the durable channel (t,c) exists *)
  Definition CE (ch : chan) : Prop := c_id ch = c /\ c_eph ch = false.
  (* ... and accounts for x *)
  Definition CJ (ch : chan) : Prop := CE ch /\ In x (seen ch).

  Definition TJ (tp : topic) : Prop :=
    t_id tp = t /\ t_eph tp = false /\
    ((In x (map m_id (t_queue tp)) /\ Exists CE (t_chans tp)) \/ Exists CJ (t_chans tp)).

  Definition J (s : state) : Prop := Exists TJ (s_topics s).

  (* ---------- list helpers ---------- *)
  Lemma Exists_map_if {A} (P : A -> Prop) (p : A -> bool) (f : A -> A) (l : list A) :
    Exists P l -> (forall a, P a -> P (f a)) -> Exists P (map (fun a => if p a then f a else a) l).
  Proof.
    intros H Hf. induction H as [a l Ha|a l Hl IH]; cbn.
    - apply Exists_cons_hd. destruct (p a); [apply Hf, Ha|exact Ha].
    - apply Exists_cons_tl, IH.
  Qed.

  Lemma Exists_filter {A} (P : A -> Prop) (p : A -> bool) (l : list A) :
    Exists P l -> (forall a, P a -> p a = true) -> Exists P (filter p l).
  Proof.
    intros H Hp. induction H as [a l Ha|a l Hl IH]; cbn.
    - rewrite (Hp a Ha). apply Exists_cons_hd, Ha.
    - destruct (p a); [apply Exists_cons_tl, IH|exact IH].
  Qed.

  Lemma Exists_app_l {A} (P : A -> Prop) (l l' : list A) : Exists P l -> Exists P (l ++ l').
  Proof. intros H. apply Exists_app. left. exact H. Qed.

  Lemma Exists_map_all {A} (P : A -> Prop) (f : A -> A) (l : list A) :
    Exists P l -> (forall a, P a -> P (f a)) -> Exists P (map f l).
  Proof.
    intros H Hf. induction H as [a l Ha|a l Hl IH]; cbn; [apply Exists_cons_hd, Hf, Ha|apply Exists_cons_tl, IH].
  Qed.

  (* ---------- channel-local: seen only grows ---------- *)
  Lemma remove_msg_ids id q m q' : remove_msg id q = Some (m, q') ->
    forall y, In y (map m_id q) -> y = m_id m \/ In y (map m_id q').
  Proof.
    revert m q'. induction q as [|a q IH]; intros m q' H y Hy; cbn in H; [discriminate|].
    destruct (m_id a =? id).
    - inversion H; subst. cbn in Hy. destruct Hy as [<-|Hy]; [left; reflexivity|right; exact Hy].
    - destruct (remove_msg id q) as [[z r]|] eqn:E; [|discriminate]. inversion H; subst.
      cbn in Hy. destruct Hy as [<-|Hy]; [right; left; reflexivity|].
      destruct (IH _ _ eq_refl y Hy) as [-> |Hr]; [left; reflexivity|right; right; exact Hr].
  Qed.

  Lemma remove_ifl_ids id l e l' : remove_ifl id l = Some (e, l') ->
    m_id (i_msg e) = id /\
    forall y, In y (map (fun e => m_id (i_msg e)) l) -> y = id \/ In y (map (fun e => m_id (i_msg e)) l').
  Proof.
    revert e l'. induction l as [|a l IH]; intros e l' H; cbn in H; [discriminate|].
    destruct (m_id (i_msg a) =? id) eqn:Ea.
    - inversion H; subst. apply N.eqb_eq in Ea. split; [exact Ea|]. intros y Hy.
      cbn in Hy. destruct Hy as [<-|Hy]; [left; exact Ea|right; exact Hy].
    - destruct (remove_ifl id l) as [[z r]|] eqn:E; [|discriminate]. inversion H; subst.
      destruct (IH _ _ eq_refl) as [Hid Hrest]. split; [exact Hid|]. intros y Hy.
      cbn in Hy. destruct Hy as [<-|Hy]; [right; left; reflexivity|].
      destruct (Hrest y Hy) as [-> |Hr]; [left; reflexivity|right; right; exact Hr].
  Qed.

  Ltac seen_in := unfold seen in *; cbn [c_queue c_ifl c_dfr c_fin c_emptied c_lost] in *;
                  repeat rewrite in_app_iff in *.

  Lemma seen_put m ch y : In y (seen ch) \/ y = m_id m -> In y (seen (chan_put cfg m ch)).
  Proof.
    unfold chan_put. destruct (c_eph ch && _); intros H; seen_in; cbn.
    - destruct H as [H| ->]; [tauto|]. right. right. right. right. right. left. reflexivity.
    - rewrite map_app, in_app_iff. cbn. destruct H as [H| ->]; tauto.
  Qed.

  Lemma put_id m ch : c_id (chan_put cfg m ch) = c_id ch /\ c_eph (chan_put cfg m ch) = c_eph ch.
  Proof. unfold chan_put. destruct (c_eph ch && _); cbn; split; reflexivity. Qed.

  Lemma fold_ifl_seen (ex : list ifl) : forall (ch : chan) y,
    In y (seen ch) \/ In y (map (fun e => m_id (i_msg e)) ex) ->
    In y (seen (fold_left (fun (ch : chan) (e : ifl) => chan_put cfg (i_msg e) (ch <| c_timeout ::= N.succ |>)) ex ch)).
  Proof.
    induction ex as [|e ex IH]; intros ch y H; cbn [fold_left].
    - destruct H as [H|[]]. exact H.
    - apply IH. cbn in H. destruct H as [H|[H|H]].
      + left. apply seen_put. left. exact H.
      + left. apply seen_put. right. symmetry. exact H.
      + right. exact H.
  Qed.

  Lemma fold_ifl_id (ex : list ifl) : forall ch : chan,
    c_id (fold_left (fun (ch : chan) (e : ifl) => chan_put cfg (i_msg e) (ch <| c_timeout ::= N.succ |>)) ex ch) = c_id ch /\
    c_eph (fold_left (fun (ch : chan) (e : ifl) => chan_put cfg (i_msg e) (ch <| c_timeout ::= N.succ |>)) ex ch) = c_eph ch.
  Proof.
    induction ex as [|e ex IH]; intros ch; cbn [fold_left]; [split; reflexivity|].
    destruct (IH (chan_put cfg (i_msg e) (ch <| c_timeout ::= N.succ |>))) as [H1 H2].
    destruct (put_id (i_msg e) (ch <| c_timeout ::= N.succ |>)) as [H3 H4].
    split; [exact (eq_trans H1 H3)|exact (eq_trans H2 H4)].
  Qed.

  Lemma fold_dfr_seen (ex : list dfr) : forall (ch : chan) y,
    In y (seen ch) \/ In y (map (fun e => m_id (d_msg e)) ex) ->
    In y (seen (fold_left (fun (ch : chan) (e : dfr) => chan_put cfg (d_msg e) ch) ex ch)).
  Proof.
    induction ex as [|e ex IH]; intros ch y H; cbn [fold_left].
    - destruct H as [H|[]]. exact H.
    - apply IH. cbn in H. destruct H as [H|[H|H]].
      + left. apply seen_put. left. exact H.
      + left. apply seen_put. right. symmetry. exact H.
      + right. exact H.
  Qed.

  Lemma fold_dfr_id (ex : list dfr) : forall ch : chan,
    c_id (fold_left (fun (ch : chan) (e : dfr) => chan_put cfg (d_msg e) ch) ex ch) = c_id ch /\
    c_eph (fold_left (fun (ch : chan) (e : dfr) => chan_put cfg (d_msg e) ch) ex ch) = c_eph ch.
  Proof.
    induction ex as [|e ex IH]; intros ch; cbn [fold_left]; [split; reflexivity|].
    destruct (IH (chan_put cfg (d_msg e) ch)) as [H1 H2].
    destruct (put_id (d_msg e) ch) as [H3 H4].
    split; [exact (eq_trans H1 H3)|exact (eq_trans H2 H4)].
  Qed.

  (* a channel transformer keeps identity/durability and never forgets an id *)
  Definition Mono (f : chan -> chan) : Prop :=
    forall ch, (c_id (f ch) = c_id ch /\ c_eph (f ch) = c_eph ch) /\ (forall y, In y (seen ch) -> In y (seen (f ch))).

  Lemma Mono_CE f ch : Mono f -> CE ch -> CE (f ch).
  Proof. intros M [H1 H2]. destruct (M ch) as [[A B] _]. split; congruence. Qed.
  Lemma Mono_CJ f ch : Mono f -> CJ ch -> CJ (f ch).
  Proof. intros M [H1 H2]. split; [apply Mono_CE; assumption|]. apply (M ch), H2. Qed.

  Lemma Mono_receive now m : Mono (chan_receive cfg now m).
  Proof.
    intros ch. unfold chan_receive. destruct (m_defer m =? 0)%Z.
    - destruct (put_id m (ch <| c_msgcount ::= N.succ |>)) as [A B]. split; [split; [exact A|exact B]|].
      intros y Hy. apply seen_put. left. exact Hy.
    - split; [split; reflexivity|]. intros y Hy. seen_in. cbn. tauto.
  Qed.

  Lemma receive_tracks now m ch : In (m_id m) (seen (chan_receive cfg now m ch)).
  Proof.
    unfold chan_receive. destruct (m_defer m =? 0)%Z.
    - apply seen_put. right. reflexivity.
    - seen_in. cbn. tauto.
  Qed.

  Lemma Mono_clients g : Mono (fun ch => ch <| c_clients ::= g |>).
  Proof. intros ch. split; [split; reflexivity|]. intros y Hy. exact Hy. Qed.
  Lemma Mono_paused p : Mono (fun ch => ch <| c_paused := p |>).
  Proof. intros ch. split; [split; reflexivity|]. intros y Hy. exact Hy. Qed.

  Lemma Mono_deliver k id dl now : Mono (ch_deliver k id dl now).
  Proof.
    intros ch. unfold ch_deliver. destruct (remove_msg id (c_queue ch)) as [[m q']|] eqn:E.
    - split; [split; reflexivity|]. intros y Hy. seen_in. cbn.
      destruct Hy as [Hy|Hy]; [|tauto].
      destruct (remove_msg_ids _ _ _ _ E y Hy) as [-> |Hq]; tauto.
    - split; [split; reflexivity|]. auto.
  Qed.

  Lemma Mono_fin k id : Mono (ch_fin k id).
  Proof.
    intros ch. unfold ch_fin. destruct (remove_ifl id (c_ifl ch)) as [[e l']|] eqn:E; [|split; [split; reflexivity|auto]].
    destruct (i_cid e =? k); [|split; [split; reflexivity|auto]].
    destruct (remove_ifl_ids _ _ _ _ E) as [Hid Hrest].
    split; [split; reflexivity|]. intros y Hy. seen_in. cbn.
    destruct Hy as [Hy|[Hy|Hy]]; [tauto| |tauto].
    destruct (Hrest y Hy) as [-> |Hr]; tauto.
  Qed.

  Lemma Mono_req k id d now : Mono (ch_req cfg k id d now).
  Proof.
    intros ch. unfold ch_req. destruct (remove_ifl id (c_ifl ch)) as [[e l']|] eqn:E; [|split; [split; reflexivity|auto]].
    destruct (i_cid e =? k); [|split; [split; reflexivity|auto]].
    destruct (remove_ifl_ids _ _ _ _ E) as [Hid Hrest].
    assert (Hbase : forall y, In y (seen ch) ->
              In y (seen (ch <| c_ifl := l' |> <| c_requeue ::= N.succ |>)) \/ y = m_id (i_msg e)).
    { intros y Hy. seen_in. destruct Hy as [Hy|[Hy|Hy]]; [tauto| |tauto].
      destruct (Hrest y Hy) as [-> |Hr]; [right; symmetry; exact Hid|tauto]. }
    destruct (d =? 0)%Z.
    - destruct (put_id (i_msg e) (ch <| c_ifl := l' |> <| c_requeue ::= N.succ |>)) as [A B].
      split; [split; [exact A|exact B]|]. intros y Hy. apply seen_put. apply Hbase, Hy.
    - split; [split; reflexivity|]. intros y Hy. destruct (Hbase y Hy) as [H| ->].
      + seen_in. cbn. tauto.
      + seen_in. cbn. tauto.
  Qed.

  Lemma Mono_touch k id now tmo : Mono (ch_touch cfg k id now tmo).
  Proof.
    intros ch. unfold ch_touch. destruct (remove_ifl id (c_ifl ch)) as [[e l']|] eqn:E; [|split; [split; reflexivity|auto]].
    destruct (i_cid e =? k); [|split; [split; reflexivity|auto]].
    destruct (remove_ifl_ids _ _ _ _ E) as [Hid Hrest].
    split; [split; reflexivity|]. intros y Hy. seen_in. cbn.
    destruct Hy as [Hy|[Hy|Hy]]; [tauto| |tauto].
    destruct (Hrest y Hy) as [-> |Hr]; [right; left; left; exact Hid|tauto].
  Qed.

  Lemma Mono_empty : Mono ch_empty.
  Proof.
    intros ch. unfold ch_empty. split; [split; reflexivity|]. intros y Hy. seen_in. cbn.
    repeat rewrite in_app_iff. tauto.
  Qed.

  Lemma partition_in {A} (p : A -> bool) (l : list A) a :
    In a l -> In a (fst (partition p l)) \/ In a (snd (partition p l)).
  Proof.
    induction l as [|b l IH]; cbn; [intros []|]. intros [-> |H].
    - destruct (partition p l) as [y n]. destruct (p a); cbn; tauto.
    - destruct (partition p l) as [y n] eqn:E. cbn in IH. destruct (p b); cbn; destruct (IH H); tauto.
  Qed.

  Lemma Mono_scan_ifl now : Mono (ch_scan_ifl cfg now).
  Proof.
    intros ch. unfold ch_scan_ifl, expired_ifl.
    pose proof (fun a => partition_in (fun e => (i_deadline e <=? now)%Z) (c_ifl ch) a) as Hp.
    destruct (partition _ (c_ifl ch)) as [ex keep]. cbn [fst snd] in Hp. cbv beta iota.
    split.
    - exact (fold_ifl_id ex (ch <| c_ifl := keep |>)).
    - intros y Hy. apply fold_ifl_seen.
      seen_in. destruct Hy as [Hy|[Hy|Hy]]; [left; tauto| |left; tauto].
      apply in_map_iff in Hy. destruct Hy as [e [<- He]]. destruct (Hp e He) as [H|H].
      + right. apply in_map_iff. exists e. split; [reflexivity|exact H].
      + left. right. left. apply in_map_iff. exists e. split; [reflexivity|exact H].
  Qed.

  Lemma Mono_scan_dfr now : Mono (ch_scan_dfr cfg now).
  Proof.
    intros ch. unfold ch_scan_dfr, expired_dfr.
    pose proof (fun a => partition_in (fun e => (d_release e <=? now)%Z) (c_dfr ch) a) as Hp.
    destruct (partition _ (c_dfr ch)) as [ex keep]. cbn [fst snd] in Hp. cbv beta iota.
    split.
    - exact (fold_dfr_id ex (ch <| c_dfr := keep |>)).
    - intros y Hy. apply fold_dfr_seen.
      seen_in. destruct Hy as [Hy|[Hy|[Hy|Hy]]]; [left; tauto|left; tauto| |left; tauto].
      apply in_map_iff in Hy. destruct Hy as [e [<- He]]. destruct (Hp e He) as [H|H].
      + right. apply in_map_iff. exists e. split; [reflexivity|exact H].
      + left. right. right. left. apply in_map_iff. exists e. split; [reflexivity|exact H].
  Qed.

  (* ---------- topic level ---------- *)
  Lemma TJ_chans (f : topic -> topic) tp :
    t_id (f tp) = t_id tp -> t_eph (f tp) = t_eph tp -> t_queue (f tp) = t_queue tp ->
    (Exists CE (t_chans tp) -> Exists CE (t_chans (f tp))) ->
    (Exists CJ (t_chans tp) -> Exists CJ (t_chans (f tp))) ->
    TJ tp -> TJ (f tp).
  Proof.
    intros H1 H2 H3 H4 H5 (A & B & C). unfold TJ. rewrite H1, H2, H3. split; [exact A|]. split; [exact B|].
    destruct C as [[C1 C2]|C]; [left; split; [exact C1|apply H4, C2]|right; apply H5, C].
  Qed.

  Lemma TJ_upd_chan_in tp c' f : Mono f -> TJ tp -> TJ (upd_chan_in tp c' f).
  Proof.
    intros M. apply (TJ_chans (fun tp => upd_chan_in tp c' f)); try reflexivity.
    - intros H. unfold upd_chan_in. cbn. apply Exists_map_if; [exact H|]. intros a Ha. apply Mono_CE; assumption.
    - intros H. unfold upd_chan_in. cbn. apply Exists_map_if; [exact H|]. intros a Ha. apply Mono_CJ; assumption.
  Qed.

  Lemma fold_receive_Mono now q : Mono (fun ch => fold_left (fun ch m => chan_receive cfg now m ch) q ch).
  Proof.
    induction q as [|m q IH]; intros ch; cbn; [split; [split; reflexivity|auto]|].
    destruct (IH (chan_receive cfg now m ch)) as [[A B] C].
    destruct (Mono_receive now m ch) as [[A' B'] C'].
    split; [split; congruence|]. intros y Hy. apply C, C', Hy.
  Qed.

  Lemma fold_receive_tracks now q ch y :
    In y (map m_id q) -> In y (seen (fold_left (fun ch m => chan_receive cfg now m ch) q ch)).
  Proof.
    revert ch. induction q as [|m q IH]; intros ch H; cbn in *; [destruct H|].
    destruct H as [<-|H]; [|apply IH, H].
    apply (fold_receive_Mono now q (chan_receive cfg now m ch)). apply receive_tracks.
  Qed.

  Lemma TJ_pump now tp : TJ tp -> TJ (pump cfg now tp).
  Proof.
    intros H. unfold pump. destruct (t_paused tp); [exact H|].
    destruct (t_chans tp) as [|c0 cs] eqn:E; [exact H|].
    destruct H as (A & B & C). unfold TJ. cbn. rewrite E. split; [exact A|]. split; [exact B|].
    right. rewrite E in C. destruct C as [[C1 C2]|C].
    - apply (Exists_map_all CE) with (f := fun ch => fold_left (fun ch m => chan_receive cfg now m ch) (t_queue tp) ch) in C2.
      + rewrite Exists_exists in C2. destruct C2 as [ch' [Hin Hce]].
        apply in_map_iff in Hin. destruct Hin as [ch0 [<- Hin0]].
        apply Exists_exists. eexists. split; [apply in_map_iff; exists ch0; split; [reflexivity|exact Hin0]|].
        split; [exact Hce|]. apply fold_receive_tracks, C1.
      + intros a Ha. apply Mono_CE; [apply fold_receive_Mono|exact Ha].
    - apply Exists_map_all; [exact C|]. intros a Ha. apply Mono_CJ; [apply fold_receive_Mono|exact Ha].
  Qed.

  Lemma topic_put_TJ m tp : TJ tp -> TJ (topic_put cfg m tp).
  Proof.
    intros (A & B & C). unfold topic_put.
    destruct (pump_runs tp); [|destruct (t_mem tp <? memcap cfg); [|rewrite B]];
      unfold TJ; cbn; (split; [exact A|]); (split; [exact B|]);
      (destruct C as [[C1 C2]|C]; [left; split; [rewrite map_app, in_app_iff; left; exact C1|exact C2]|right; exact C]).
  Qed.

  Lemma topic_put_adds m tp :
    t_id tp = t -> t_eph tp = false -> Exists CE (t_chans tp) -> m_id m = x -> TJ (topic_put cfg m tp).
  Proof.
    intros A B C D. unfold topic_put.
    destruct (pump_runs tp); [|destruct (t_mem tp <? memcap cfg); [|rewrite B]];
      unfold TJ; cbn; (split; [exact A|]); (split; [exact B|]); left; (split; [|exact C]);
      rewrite map_app, in_app_iff; right; cbn; left; exact D.
  Qed.

  Lemma J_upd_topic s t' f : J s -> (forall tp, TJ tp -> TJ (f tp)) -> J (upd_topic s t' f).
  Proof. intros H Hf. unfold J, upd_topic. cbn. apply Exists_map_if; assumption. Qed.

  Lemma J_upd_chan s t' c' f : J s -> Mono f -> J (upd_chan s t' c' f).
  Proof. intros H M. unfold upd_chan. apply J_upd_topic; [exact H|]. intros tp Htp. apply TJ_upd_chan_in; assumption. Qed.

  Lemma J_clients s l : J (s <| s_clients := l |>) <-> J s.
  Proof. reflexivity. Qed.
  Lemma J_upd_client s k f : J (upd_client s k f) <-> J s.
  Proof. reflexivity. Qed.
  Lemma J_close_clients ks s : J (close_clients ks s) <-> J s.
  Proof. reflexivity. Qed.
  Lemma J_dec_ifl ks h s : J (dec_ifl ks h s) <-> J s.
  Proof. unfold dec_ifl. destruct (existsb _ ks); reflexivity. Qed.
  Lemma J_fold_dec_ifl ks (ex : list ifl) s : J (fold_left (fun s e => dec_ifl ks (i_cid e) s) ex s) <-> J s.
  Proof. revert s. induction ex as [|e ex IH]; intros s; cbn; [reflexivity|]. rewrite IH. apply J_dec_ifl. Qed.

  Lemma J_ensure_topic s t' eph : J s -> J (ensure_topic s t' eph).
  Proof. intros H. unfold ensure_topic. destruct (find_topic s t'); [exact H|]. unfold J. cbn. apply Exists_app_l, H. Qed.

  Lemma J_ensure_chan s t' c' teph ceph : J s -> J (ensure_chan s t' c' teph ceph).
  Proof.
    intros H. unfold ensure_chan. apply J_upd_topic; [apply J_ensure_topic, H|].
    intros tp Htp. destruct (find_chan tp c'); [exact Htp|].
    apply (TJ_chans (fun tp => tp <| t_chans ::= fun l => l ++ [new_chan c' ceph] |>)); try reflexivity; try exact Htp;
      intros E; cbn; apply Exists_app_l, E.
  Qed.

  Lemma J_pump_topic now s t' : J s -> J (pump_topic cfg now s t').
  Proof. intros H. unfold pump_topic. apply J_upd_topic; [exact H|]. intros tp. apply TJ_pump. Qed.

  (* filters that only remove ephemeral things keep the durable tracked entries *)
  Lemma TJ_filter_chans (p : chan -> bool) tp :
    (forall ch, CE ch -> p ch = true) -> TJ tp -> TJ (tp <| t_chans ::= filter p |>).
  Proof.
    intros Hp. apply (TJ_chans (fun tp => tp <| t_chans ::= filter p |>)); try reflexivity; intros E; cbn;
      (apply Exists_filter; [exact E|]); intros a Ha; apply Hp.
    - exact Ha.
    - destruct Ha as [Ha _]. exact Ha.
  Qed.

  Lemma J_filter_eph_topics s (p : topic -> bool) :
    (forall tp, t_eph tp = false -> p tp = true) -> J s -> J (s <| s_topics ::= filter p |>).
  Proof.
    intros Hp H. unfold J. cbn. apply Exists_filter; [exact H|]. intros a (A & B & C). apply Hp, B.
  Qed.

  Lemma J_unsubscribe kl s : J s -> J (unsubscribe kl s).
  Proof.
    intros H. unfold unsubscribe. destruct (k_sub kl) as [[t' c']|]; [|exact H].
    apply J_filter_eph_topics.
    - intros tp Hn. rewrite Hn. rewrite andb_false_r. reflexivity.
    - apply J_upd_topic.
      + apply J_upd_chan; [exact H|apply Mono_clients].
      + intros tp Htp. apply TJ_filter_chans; [|exact Htp]. intros ch [_ Hn]. rewrite Hn.
        rewrite andb_false_r. reflexivity.
  Qed.

  (* operations that may legitimately discard x: deleting the channel or the topic,
     emptying the topic's own queue *)
  Definition keeps (o : op) : bool :=
    match o with
    | ODeleteChan t' c' => negb ((t' =? t) && (c' =? c))
    | ODeleteTopic t' => negb (t' =? t)
    | OEmptyTopic t' => negb (t' =? t)
    | _ => true
    end.

  Theorem step_J s o : keeps o = true -> J s -> J (fst (step cfg s o)).
  Proof.
    intros K H. destruct o; cbn [step].
    - cbn. apply J_ensure_topic, H.
    - destruct (find_topic s t0); cbn; [|exact H]. apply J_pump_topic, J_ensure_chan, H.
    - cbn. apply J_pump_topic. apply J_upd_topic; [apply J_ensure_topic, H|].
      intros tp Htp.
      apply (TJ_chans (fun tp => tp <| t_msgcount ::= N.add (N.of_nat (length ids)) |> <| t_bytes ::= N.add bytes |>));
        try reflexivity; try (intros E; exact E).
      clear K. revert tp Htp. induction ids as [|i ids IH]; intros tp Htp; cbn; [exact Htp|].
      apply IH. apply topic_put_TJ, Htp.
    - destruct (find_client s k); cbn; exact H.
    - destruct (find_client s k) as [kl|]; cbn; [|exact H].
      destruct ((k_state kl =? st_init) && k_alive kl); cbn; [|exact H].
      apply J_pump_topic. apply J_upd_client. apply J_upd_chan; [apply J_ensure_chan, H|apply Mono_clients].
    - destruct (find_client s k) as [kl|]; cbn; [|exact H].
      destruct (k_state kl =? st_closing); cbn; [exact H|].
      destruct (k_state kl =? st_subscribed); cbn; exact H.
    - destruct (find_client s k) as [kl|]; cbn; [|exact H].
      destruct (k_sub kl) as [[t' c']|]; cbn; [|exact H].
      destruct (get_chan s t' c') as [ch|]; cbn; [|exact H].
      destruct (deliverable s kl ch id); cbn; [|exact H].
      apply J_upd_client. apply J_upd_chan; [exact H|apply Mono_deliver].
    - destruct (answering s k) as [[[[[kl t'] c'] ch]|]|]; cbn; try exact H.
      destruct (holds ch k id); cbn; [|exact H].
      apply J_upd_client. apply J_upd_chan; [exact H|apply Mono_fin].
    - destruct (answering s k) as [[[[[kl t'] c'] ch]|]|]; cbn; try exact H.
      destruct (holds ch k id); cbn; [|exact H].
      apply J_upd_client. apply J_upd_chan; [exact H|apply Mono_req].
    - destruct (answering s k) as [[[[[kl t'] c'] ch]|]|]; cbn; try exact H.
      destruct (holds ch k id); cbn; [|exact H].
      apply J_upd_chan; [exact H|apply Mono_touch].
    - destruct (find_client s k) as [kl|]; cbn; [|exact H].
      destruct (k_state kl =? st_subscribed); cbn; exact H.
    - destruct (find_client s k) as [kl|]; cbn; [|exact H].
      apply J_upd_client. apply J_unsubscribe, H.
    - destruct (get_chan s t0 c0); cbn; [|exact H]. apply J_upd_chan; [exact H|apply Mono_paused].
    - destruct (find_topic s t0); cbn; [|exact H]. apply J_pump_topic.
      apply J_upd_topic; [exact H|]. intros tp Htp.
      apply (TJ_chans (fun tp => tp <| t_paused := p |>)); try reflexivity; try (intros E; exact E). exact Htp.
    - destruct (get_chan s t0 c0); cbn; [|exact H]. apply J_clients. apply J_upd_chan; [exact H|apply Mono_empty].
    - (* OEmptyTopic: only other topics *)
      destruct (find_topic s t0); cbn; [|exact H]. cbn in K. apply negb_true_iff, N.eqb_neq in K.
      unfold J, upd_topic. cbn. clear -H K. induction H as [a l Ha|a l Hl IH]; cbn.
      + apply Exists_cons_hd. destruct (N.eqb_spec (t_id a) t0) as [E|E]; [|exact Ha].
        destruct Ha as (A & _). congruence.
      + apply Exists_cons_tl, IH.
    - (* ODeleteChan: another channel *)
      destruct (find_topic s t0) as [tp|]; cbn; [|exact H].
      destruct (find_chan tp c0) as [ch|]; cbn; [|exact H].
      unfold drop_empty_eph_topic. apply J_filter_eph_topics.
      + intros tp' Hn. rewrite Hn. rewrite andb_false_r. reflexivity.
      + cbn in K. apply negb_true_iff in K.
        unfold J, upd_topic, close_clients. cbn. clear -H K.
        unfold J in H. induction H as [a l Ha|a l Hl IH]; cbn.
        * apply Exists_cons_hd. destruct (N.eqb_spec (t_id a) t0) as [E|E]; [|exact Ha].
          destruct Ha as (A & B & C). assert (Hc : (c0 =? c) = false).
          { rewrite <- A in K. rewrite E, N.eqb_refl in K. exact K. }
          apply N.eqb_neq in Hc.
          apply (TJ_filter_chans (fun x0 => negb (c_id x0 =? c0))) ; [|exact (conj A (conj B C))].
          intros ch0 [Hid _]. apply negb_true_iff, N.eqb_neq. congruence.
        * apply Exists_cons_tl, IH.
    - (* ODeleteTopic: another topic *)
      destruct (find_topic s t0) as [tp|]; cbn; [|exact H].
      cbn in K. apply negb_true_iff, N.eqb_neq in K.
      unfold J, close_clients. cbn. apply Exists_filter; [exact H|].
      intros a (A & _). apply negb_true_iff, N.eqb_neq. congruence.
    - destruct (get_chan s t0 c0) as [ch|]; cbn; [|exact H].
      apply J_fold_dec_ifl. apply J_upd_chan; [exact H|apply Mono_scan_ifl].
    - destruct (get_chan s t0 c0) as [ch|]; cbn; [|exact H].
      apply J_upd_chan; [exact H|apply Mono_scan_dfr].
  Qed.
End Tracked.

(* ---------- the theorem in the property's words ---------- *)
Section NoLoss.
  Context (cfg : config) (t c x : N).

  (* the durable channel (t,c) exists on the durable topic t *)
  Definition T0 (tp : topic) : Prop := t_id tp = t /\ t_eph tp = false /\ Exists (CE c) (t_chans tp).
  Definition channel_exists (s : state) : Prop := Exists T0 (s_topics s).

  Lemma run_J ops : forall s, forallb (keeps t c) ops = true -> J t c x s -> J t c x (run cfg s ops).
  Proof.
    induction ops as [|o ops IH]; intros s K H; cbn; [exact H|].
    cbn in K. apply andb_prop in K. destruct K as [K1 K2].
    apply IH; [exact K2|]. apply step_J; assumption.
  Qed.

  Lemma fold_put_establishes defer ids : In x ids -> forall tp, T0 tp ->
    TJ t c x (fold_left (fun tp id => topic_put cfg (mkMsg id 0 defer) tp) ids tp)
    \/ False.
  Proof.
    intros Hin tp Htp. left. revert tp Htp. induction ids as [|i ids IH]; intros tp Htp; [destruct Hin|].
    cbn. destruct Hin as [->|Hin].
    - (* x is put now; the remaining puts keep it *)
      assert (H : TJ t c x (topic_put cfg (mkMsg x 0 defer) tp)).
      { destruct Htp as (A & B & C). apply topic_put_adds; try assumption. reflexivity. }
      clear IH. revert H. generalize (topic_put cfg (mkMsg x 0 defer) tp). clear Htp tp.
      induction ids as [|j ids IH]; intros tp H; cbn; [exact H|]. apply IH. apply topic_put_TJ, H.
    - apply IH; [exact Hin|].
      destruct Htp as (A & B & C). unfold T0.
      unfold topic_put. destruct (pump_runs tp); [|destruct (t_mem tp <? memcap cfg); [|rewrite B]]; cbn; auto.
  Qed.

  Lemma channel_exists_ensure_topic s teph : channel_exists s -> channel_exists (ensure_topic s t teph).
  Proof.
    intros H. unfold ensure_topic. destruct (find_topic s t); [exact H|].
    unfold channel_exists. cbn. apply Exists_app. left. exact H.
  Qed.

  Lemma upd_topic_establishes s0 (F : topic -> topic) :
    channel_exists s0 -> (forall tp, T0 tp -> TJ t c x (F tp)) -> J t c x (upd_topic s0 t F).
  Proof.
    intros Hs HF. unfold J, upd_topic. cbn. unfold channel_exists in Hs.
    induction Hs as [a l Ha|a l Hl IH]; cbn.
    - apply Exists_cons_hd. destruct Ha as (A & B & C). rewrite A, N.eqb_refl. apply HF. exact (conj A (conj B C)).
    - apply Exists_cons_tl, IH.
  Qed.

  Theorem publish_then_tracked s teph ids bytes defer now :
    channel_exists s -> In x ids ->
    J t c x (fst (step cfg s (OPub t teph ids bytes defer now))).
  Proof.
    intros Hex Hin. cbn [step fst]. apply J_pump_topic.
    apply upd_topic_establishes; [apply channel_exists_ensure_topic, Hex|].
    intros tp Htp. destruct (fold_put_establishes defer ids Hin tp Htp) as [H|[]].
    destruct H as (A' & B' & C'). unfold TJ. cbn. auto.
  Qed.

  (* C01, safety half: an acknowledged message is never lost on a channel that existed
     when it was published, whatever happens afterwards short of deleting the channel or
     the topic or emptying the topic's own queue. *)
  Theorem no_loss s teph ids bytes defer now ops :
    channel_exists s -> In x ids -> forallb (keeps t c) ops = true ->
    J t c x (run cfg (fst (step cfg s (OPub t teph ids bytes defer now))) ops).
  Proof. intros. apply run_J; [assumption|]. apply publish_then_tracked; assumption. Qed.
End NoLoss.

(* what J says, spelled out *)
Theorem J_meaning t c x s : J t c x s ->
  exists tp ch, In tp (s_topics s) /\ t_id tp = t /\ In ch (t_chans tp) /\ c_id ch = c /\ c_eph ch = false /\
    (In x (map m_id (t_queue tp)) \/ In x (seen ch)).
Proof.
  unfold J. rewrite Exists_exists. intros [tp [Htp (A & B & C)]].
  destruct C as [[C1 C2]|C].
  - rewrite Exists_exists in C2. destruct C2 as [ch [Hch [D E]]]. exists tp, ch. auto 10.
  - rewrite Exists_exists in C. destruct C as [ch [Hch [[D E] F]]]. exists tp, ch. auto 10.
Qed.

(* ---------- the "keeps being redelivered" half, as enabledness ---------- *)
Lemma partition_snd_false {A} (p : A -> bool) (l : list A) a : In a (snd (partition p l)) -> p a = false.
Proof.
  induction l as [|b l IH]; cbn; [intros []|].
  destruct (partition p l) as [y n] eqn:E. cbn in IH. destruct (p b) eqn:Pb; cbn; intros H.
  - apply IH, H.
  - destruct H as [->|H]; [exact Pb|apply IH, H].
Qed.

Lemma put_durable_queue cfg m ch : c_eph ch = false ->
  c_queue (chan_put cfg m ch) = c_queue ch ++ [m] /\ c_eph (chan_put cfg m ch) = false.
Proof. intros H. unfold chan_put. rewrite H. cbn. split; [reflexivity|exact H]. Qed.

(* NB: setter notation is never written inside tactic arguments in this development (the
   instance would be re-resolved in the proof context); terms are taken from the goal. *)
Lemma fold_ifl_queue cfg (ex : list ifl) : forall ch : chan, c_eph ch = false ->
  forall e, In e ex ->
  In (m_id (i_msg e)) (map m_id (c_queue (fold_left (fun (ch : chan) (e : ifl) => chan_put cfg (i_msg e) (ch <| c_timeout ::= N.succ |>)) ex ch))).
Proof.
  induction ex as [|a ex IH]; intros ch Hd e He; [destruct He|]. cbn [fold_left].
  match goal with |- context [chan_put cfg (i_msg a) ?c0] =>
    destruct (put_durable_queue cfg (i_msg a) c0 Hd) as [Hq Hd'] end.
  destruct He as [->|He].
  - (* e is put now: it stays in the queue through the remaining puts *)
    clear IH.
    match goal with |- context [chan_put cfg (i_msg e) ?c0] =>
      assert (Hin : In (m_id (i_msg e)) (map m_id (c_queue (chan_put cfg (i_msg e) c0))));
      [rewrite Hq, map_app, in_app_iff; right; left; reflexivity|];
      revert Hin Hd'; generalize (chan_put cfg (i_msg e) c0) end.
    clear.
    induction ex as [|b ex IH]; intros ch0 Hin Hd; cbn [fold_left]; [exact Hin|].
    match goal with |- context [chan_put cfg (i_msg b) ?c0] =>
      destruct (put_durable_queue cfg (i_msg b) c0 Hd) as [Hq Hd'] end.
    apply IH; [|exact Hd']. rewrite Hq, map_app, in_app_iff. left. exact Hin.
  - apply IH; assumption.
Qed.

(* a timed-out in-flight message is back in the queue after the scan *)
Theorem timeout_requeues cfg now ch e :
  c_eph ch = false -> In e (c_ifl ch) -> (i_deadline e <= now)%Z ->
  In (m_id (i_msg e)) (map m_id (c_queue (ch_scan_ifl cfg now ch))).
Proof.
  intros Hd He Ht. unfold ch_scan_ifl, expired_ifl.
  assert (Hex : In e (fst (partition (fun e => (i_deadline e <=? now)%Z) (c_ifl ch)))).
  { destruct (partition_in (fun e => (i_deadline e <=? now)%Z) (c_ifl ch) e He) as [H|H]; [exact H|].
    apply partition_snd_false in H. lia. }
  destruct (partition _ (c_ifl ch)) as [ex keep]. cbn [fst] in Hex. cbv beta iota.
  apply fold_ifl_queue; [exact Hd|exact Hex].
Qed.

Lemma fold_dfr_queue cfg (ex : list dfr) : forall ch : chan, c_eph ch = false ->
  forall e, In e ex ->
  In (m_id (d_msg e)) (map m_id (c_queue (fold_left (fun (ch : chan) (e : dfr) => chan_put cfg (d_msg e) ch) ex ch))).
Proof.
  induction ex as [|a ex IH]; intros ch Hd e He; [destruct He|]. cbn [fold_left].
  destruct (put_durable_queue cfg (d_msg a) ch Hd) as [Hq Hd'].
  destruct He as [->|He].
  - clear IH.
    assert (Hin : In (m_id (d_msg e)) (map m_id (c_queue (chan_put cfg (d_msg e) ch)))).
    { rewrite Hq, map_app, in_app_iff. right. left. reflexivity. }
    revert Hin Hd'. generalize (chan_put cfg (d_msg e) ch). clear.
    induction ex as [|b ex IH]; intros ch0 Hin Hd; cbn [fold_left]; [exact Hin|].
    destruct (put_durable_queue cfg (d_msg b) ch0 Hd) as [Hq Hd'].
    apply IH; [|exact Hd']. rewrite Hq, map_app, in_app_iff. left. exact Hin.
  - apply IH; assumption.
Qed.

Theorem deferred_requeues cfg now ch e :
  c_eph ch = false -> In e (c_dfr ch) -> (d_release e <= now)%Z ->
  In (m_id (d_msg e)) (map m_id (c_queue (ch_scan_dfr cfg now ch))).
Proof.
  intros Hd He Ht. unfold ch_scan_dfr, expired_dfr.
  assert (Hex : In e (fst (partition (fun e => (d_release e <=? now)%Z) (c_dfr ch)))).
  { destruct (partition_in (fun e => (d_release e <=? now)%Z) (c_dfr ch) e He) as [H|H]; [exact H|].
    apply partition_snd_false in H. lia. }
  destruct (partition _ (c_dfr ch)) as [ex keep]. cbn [fst] in Hex. cbv beta iota.
  apply fold_dfr_queue; [exact Hd|exact Hex].
Qed.
