(* The answers of /topics, /channels, /lookup and /nodes computed by the RegistrationDB
   model are exactly the sets the plain registry predicts (membership + no duplicates),
   and the consequences C14 names: disconnect, tombstone locality / lapse / clearing. *)
From Coq Require Import List NArith ZArith Bool Lia.
From NSQV Require Import model.Judge model.Names model.Lookupd model.LookupSpec
  proofs.LookupdBase proofs.LookupdRefine proofs.LookupdShape.
Import ListNotations.
Open Scope bool_scope.
Local Arguments has_prod : simpl never.
Local Arguments drop_prod : simpl never.

(* ------------------------------------------------------------------ matching keys *)
Lemma is_match_topic_star k : is_match CTopic star [] k = true <-> k = topic_key (r_key k).
Proof.
  unfold is_match, topic_key. destruct k as [c key sub]; cbn. split.
  - intros H. apply andb_true_iff in H as [H Hs]. apply andb_true_iff in H as [Hc _].
    destruct c; try discriminate. cbn in Hs. apply bytes_eqb_eq in Hs. subst. reflexivity.
  - intros H. inversion H; subst. reflexivity.
Qed.

Lemma is_match_chan t k : is_star t = false ->
  (is_match CChannel t star k = true <-> k = chan_key t (r_sub k)).
Proof.
  intros Hs. unfold is_match, chan_key. destruct k as [c key sub]; cbn. rewrite Hs. cbn. split.
  - intros H. rewrite andb_true_r in H. apply andb_true_iff in H as [Hc Hk].
    destruct c; try discriminate. apply bytes_eqb_eq in Hk. subst. reflexivity.
  - intros H. inversion H; subst. rewrite bytes_eqb_refl. reflexivity.
Qed.

Lemma NoDup_map_inj_on {A B} (f : A -> B) (l : list A) :
  (forall x y, In x l -> In y l -> f x = f y -> x = y) -> NoDup l -> NoDup (map f l).
Proof.
  induction l as [|x l IH]; cbn; intros Hinj H; [constructor|].
  inversion H as [|? ? Hn Hd]; subst. constructor.
  - intros Hin. apply in_map_iff in Hin as [y [Hy Hin]]. apply Hn.
    rewrite (Hinj x y); auto.
  - apply IH; [|assumption]. intros a b Ha Hb. apply Hinj; right; assumption.
Qed.

(* ------------------------------------------------------------------ /topics *)
Theorem q_topics_spec s t : In t (q_topics s) <-> topic_listed (abs s) t = true.
Proof.
  unfold q_topics, topic_listed, keys, find_registrations. cbn [need_filter]. unfold need_filter.
  replace (is_star star) with true by reflexivity. cbn [orb abs g_key].
  rewrite in_map_iff. split.
  - intros [k [Hk Hin]]. apply filter_In in Hin as [Hin Hm]. apply is_match_topic_star in Hm.
    rewrite Hk in Hm. rewrite <- Hm. apply in_keys_get. assumption.
  - intros H. exists (topic_key t). split; [reflexivity|]. apply filter_In. split.
    + apply in_keys_get. assumption.
    + apply is_match_topic_star. reflexivity.
Qed.

Theorem q_topics_nodup s : shape s -> NoDup (q_topics s).
Proof.
  intros [_ Hk]. unfold q_topics, keys, find_registrations, need_filter.
  replace (is_star star) with true by reflexivity. cbn [orb].
  apply NoDup_map_inj_on.
  - intros x y Hx Hy E. apply filter_In in Hx as [_ Hx]. apply filter_In in Hy as [_ Hy].
    apply is_match_topic_star in Hx. apply is_match_topic_star in Hy. rewrite Hx, Hy, E. reflexivity.
  - apply NoDup_filter. assumption.
Qed.

(* ------------------------------------------------------------------ /channels *)
Theorem q_channels_spec s t c :
  is_star t = false -> (In c (q_channels s t) <-> lookup_channel (abs s) t c = true).
Proof.
  intros Hs. unfold q_channels, lookup_channel, subkeys, find_registrations, need_filter.
  replace (is_star star) with true by reflexivity. rewrite orb_true_r. cbn [abs g_key].
  rewrite in_map_iff. split.
  - intros [k [Hk Hin]]. apply filter_In in Hin as [Hin Hm]. apply (is_match_chan t k Hs) in Hm.
    rewrite Hk in Hm. rewrite <- Hm. apply in_keys_get. assumption.
  - intros H. exists (chan_key t c). split; [reflexivity|]. apply filter_In. split.
    + apply in_keys_get. assumption.
    + apply (is_match_chan t _ Hs). reflexivity.
Qed.

Theorem q_channels_nodup s t : is_star t = false -> shape s -> NoDup (q_channels s t).
Proof.
  intros Hs [_ Hk]. unfold q_channels, subkeys, find_registrations, need_filter.
  replace (is_star star) with true by reflexivity. rewrite orb_true_r.
  apply NoDup_map_inj_on.
  - intros x y Hx Hy E. apply filter_In in Hx as [_ Hx]. apply filter_In in Hy as [_ Hy].
    apply (is_match_chan t _ Hs) in Hx. apply (is_match_chan t _ Hs) in Hy. rewrite Hx, Hy, E. reflexivity.
  - apply NoDup_filter. assumption.
Qed.

(* with the wildcard as topic: every channel of every topic *)
Theorem q_channels_star s c :
  In c (q_channels s star) <-> exists t, lookup_channel (abs s) t c = true.
Proof.
  unfold q_channels, lookup_channel, subkeys, find_registrations, need_filter.
  replace (is_star star) with true by reflexivity. cbn [orb abs g_key]. rewrite in_map_iff. split.
  - intros [k [Hk Hin]]. apply filter_In in Hin as [Hin Hm]. exists (r_key k).
    unfold is_match in Hm. apply andb_true_iff in Hm as [Hm _]. apply andb_true_iff in Hm as [Hm _].
    apply cat_eqb_eq in Hm. apply in_keys_get in Hin. destruct k as [ct key sub]; cbn in *. subst. assumption.
  - intros [t H]. exists (chan_key t c). split; [reflexivity|]. apply filter_In. split.
    + apply in_keys_get. assumption.
    + reflexivity.
Qed.

(* ------------------------------------------------------------------ /lookup *)
Lemma find_unique ps pr :
  NoDup (map p_id ps) -> In pr ps -> find (fun x => N.eqb (p_id x) (p_id pr)) ps = Some pr.
Proof.
  induction ps as [|x ps IH]; cbn; intros Hd Hin; [contradiction|].
  inversion Hd as [|? ? Hn Hd']; subst. destruct Hin as [->|Hin].
  - rewrite N.eqb_refl. reflexivity.
  - destruct (N.eqb_spec (p_id x) (p_id pr)) as [E|E]; [|apply IH; assumption].
    exfalso. apply Hn. rewrite E. apply in_map. assumption.
Qed.

Lemma active_spec inactive lifetime s t ps pr :
  get (topic_key t) (db s) = Some ps -> NoDup (map p_id ps) -> In pr ps ->
  active inactive lifetime s pr =
  recent inactive (abs s) (p_id pr) && negb (hidden lifetime (abs s) t (p_id pr)).
Proof.
  intros G Hd Hin. unfold active, recent, hidden. cbn [abs g_nodes g_now g_tomb]. unfold a_tomb.
  rewrite G, (find_unique _ _ Hd Hin).
  destruct (find_peer (p_id pr) (peers s)) as [c|]; [|reflexivity].
  unfold is_tombstoned. rewrite negb_orb. f_equal.
  - rewrite Z.gtb_ltb, Z.leb_antisym. reflexivity.
  - destruct (p_tomb pr); reflexivity.
Qed.

Definition lookup_producers (inactive lifetime : Z) (s : state) (t : name) : list peer :=
  match q_lookup inactive lifetime s t with Some (_, ps) => ps | None => [] end.

Theorem q_lookup_found s inactive lifetime t :
  is_star t = false ->
  (q_lookup inactive lifetime s t = None <-> lookup_found (abs s) t = false).
Proof.
  intros Hs. unfold q_lookup, lookup_found, find_registrations, need_filter. rewrite Hs, is_star_nil.
  cbn [orb abs g_key]. fold (topic_key t). destruct (has_key (topic_key t) (db s)); split; intros H; try discriminate; reflexivity.
Qed.

Theorem q_lookup_channels s inactive lifetime t chs ps :
  q_lookup inactive lifetime s t = Some (chs, ps) -> chs = q_channels s t.
Proof.
  unfold q_lookup. destruct (find_registrations CTopic t [] (db s)); [discriminate|].
  intros H. inversion H. reflexivity.
Qed.

Theorem q_lookup_producers_spec s inactive lifetime t p :
  shape s -> is_star t = false -> lookup_found (abs s) t = true ->
  (In p (lookup_producers inactive lifetime s t) <-> lookup_producer inactive lifetime (abs s) t p = true).
Proof.
  intros [Hsh _] Hs Hf. unfold lookup_producers, q_lookup, lookup_found in *. cbn [abs g_key] in Hf.
  unfold find_registrations, need_filter. rewrite Hs, is_star_nil. cbn [orb]. fold (topic_key t). rewrite Hf.
  unfold find_producers, find_producers_k, need_filter. rewrite Hs, is_star_nil. cbn [orb]. fold (topic_key t).
  unfold lookup_producer, registered. cbn [abs g_prod]. unfold a_prod.
  apply has_key_get in Hf as [ps0 G]. rewrite G. rewrite map_map. cbn [snd]. rewrite map_id.
  destruct (Hsh _ _ G) as (Hd & _ & _).
  unfold filter_by_active. rewrite in_map_iff. split.
  - intros [pr [Hid Hin]]. apply filter_In in Hin as [Hin Ha].
    rewrite (active_spec _ _ _ t ps0 pr G Hd Hin) in Ha. rewrite Hid in Ha.
    assert (has_prod p ps0 = true) as -> by (apply has_prod_in; exists pr; auto).
    rewrite <- andb_assoc. exact Ha.
  - intros H. apply andb_true_iff in H as [H Hh]. apply andb_true_iff in H as [Hp Hr].
    apply has_prod_in in Hp as [pr [Hin Hid]]. exists pr. split; [assumption|].
    apply filter_In. split; [assumption|].
    rewrite (active_spec _ _ _ t ps0 pr G Hd Hin). rewrite Hid, Hr, Hh. reflexivity.
Qed.

Theorem q_lookup_producers_nodup s inactive lifetime t :
  shape s -> is_star t = false -> NoDup (lookup_producers inactive lifetime s t).
Proof.
  intros [Hsh _] Hs. unfold lookup_producers, q_lookup.
  destruct (find_registrations CTopic t [] (db s)); [constructor|].
  unfold find_producers, find_producers_k, need_filter. rewrite Hs, is_star_nil. cbn [orb]. fold (topic_key t).
  destruct (get (topic_key t) (db s)) as [ps0|] eqn:G; [|constructor].
  rewrite map_map. cbn [snd]. rewrite map_id. apply NoDup_filter_map. apply (Hsh _ _ G).
Qed.

(* ------------------------------------------------------------------ /nodes *)
Lemma lookup_registrations_in s p k :
  keys_nodup (db s) -> (In k (lookup_registrations p (db s)) <-> a_prod (db s) k p = true).
Proof.
  intros Hk. unfold lookup_registrations, a_prod. rewrite in_map_iff. split.
  - intros [[k' ps] [E Hin]]. cbn in E. subst k'. apply filter_In in Hin as [Hin Hp]. cbn in Hp.
    apply (in_get _ _ _ Hk) in Hin. rewrite Hin. assumption.
  - destruct (get k (db s)) as [ps|] eqn:G; [|discriminate]. intros Hp.
    exists (k, ps). split; [reflexivity|]. apply filter_In. split; [apply (in_get _ _ _ Hk); assumption|assumption].
Qed.

Definition node_topics (inactive lifetime : Z) (s : state) (p : peer) : list (name * bool) :=
  match find (fun e => N.eqb (fst e) p) (q_nodes inactive lifetime s) with
  | Some e => snd e
  | None => []
  end.

Theorem q_nodes_listed s inactive lifetime p :
  shape s ->
  (In p (map fst (q_nodes inactive lifetime s)) <-> node_listed inactive (abs s) p = true).
Proof.
  intros [Hsh _]. unfold q_nodes, node_listed. rewrite map_map. cbn [fst].
  unfold find_producers, find_producers_k, need_filter. rewrite is_star_nil. cbn [orb]. fold client_key.
  cbn [abs g_prod]. unfold a_prod.
  destruct (get client_key (db s)) as [ps0|] eqn:G.
  - rewrite map_map. cbn [snd]. rewrite map_id. destruct (Hsh _ _ G) as (Hd & _ & Ht).
    unfold filter_by_active. rewrite in_map_iff. split.
    + intros [pr [Hid Hin]]. apply filter_In in Hin as [Hin Ha].
      assert (has_prod p ps0 = true) as -> by (apply has_prod_in; exists pr; auto).
      unfold active in Ha. unfold recent. cbn [abs g_nodes g_now]. rewrite Hid in Ha.
      destruct (find_peer p (peers s)) as [c|]; [|discriminate].
      rewrite negb_orb in Ha. apply andb_true_iff in Ha as [Ha _].
      rewrite Z.gtb_ltb, <- Z.leb_antisym in Ha. exact Ha.
    + intros H. apply andb_true_iff in H as [Hp Hr]. apply has_prod_in in Hp as [pr [Hin Hid]].
      exists pr. split; [assumption|]. apply filter_In. split; [assumption|].
      unfold active, recent in *. cbn [abs g_nodes g_now] in Hr. rewrite Hid.
      destruct (find_peer p (peers s)) as [c|]; [|discriminate].
      unfold is_tombstoned. rewrite (Ht ltac:(discriminate) pr Hin). cbn [andb]. rewrite orb_false_r.
      rewrite Z.gtb_ltb, Z.leb_antisym in *. rewrite Hr. reflexivity.
  - cbn. split; [tauto|discriminate].
Qed.

Lemma node_tombstone_spec s lifetime p t :
  shape s -> is_star t = false -> node_tombstone lifetime s p t = node_tomb lifetime (abs s) p t.
Proof.
  intros _ Hs. unfold node_tombstone, node_tomb, hidden. cbn [abs g_tomb g_now]. unfold a_tomb.
  unfold find_producers, find_producers_k, need_filter. rewrite Hs, is_star_nil. cbn [orb]. fold (topic_key t).
  destruct (get (topic_key t) (db s)) as [ps0|]; [|reflexivity].
  rewrite map_map. cbn [snd]. rewrite map_id.
  destruct (find (fun pr => N.eqb (p_id pr) p) ps0) as [pr|]; [|reflexivity].
  unfold is_tombstoned. destruct (p_tomb pr); reflexivity.
Qed.

(* the topics (with tombstone flags) listed for a node are exactly its registered topics,
   each with the flag "tombstoned for that topic and not lapsed" *)
Theorem q_nodes_topics s inactive lifetime p t b :
  shape s -> In p (map fst (q_nodes inactive lifetime s)) ->
  (In (t, b) (node_topics inactive lifetime s p) <->
   node_topic (abs s) p t = true /\ b = node_tomb lifetime (abs s) p t).
Proof.
  intros Hshape Hin. pose proof Hshape as [Hsh Hk]. unfold node_topics, q_nodes in *.
  rewrite map_map in Hin. cbn [fst] in Hin. apply in_map_iff in Hin as [pr0 [Hid Hin0]].
  set (l := filter_by_active inactive 0 s (find_producers CClient [] [] (db s))) in *.
  assert (forall l', In pr0 l' ->
     exists pr1, p_id pr1 = p /\
     find (fun e : peer * list (name * bool) => N.eqb (fst e) p)
       (map (fun pr => (p_id pr,
          map (fun t => (t, node_tombstone lifetime s (p_id pr) t))
              (keys (filter_regs CTopic star [] (lookup_registrations (p_id pr) (db s)))))) l') =
     Some (p_id pr1, map (fun t => (t, node_tombstone lifetime s (p_id pr1) t))
              (keys (filter_regs CTopic star [] (lookup_registrations (p_id pr1) (db s)))))) as Hfind.
  { induction l' as [|x l' IH]; cbn [map find fst]; [intros []|].
    intros Hx. destruct (N.eqb_spec (p_id x) p) as [E|E].
    - exists x. split; [assumption|reflexivity].
    - destruct Hx as [->|Hx]; [contradiction|]. apply IH. assumption. }
  destruct (Hfind l Hin0) as [pr1 [Hid1 Hf]]. unfold peer in *. rewrite Hf. cbn [snd]. rewrite Hid1. clear Hfind.
  unfold keys, filter_regs, node_topic, registered. cbn [abs g_prod].
  rewrite in_map_iff. split.
  - intros [t' [E Hin']]. inversion E; subst t' b. clear E.
    apply in_map_iff in Hin' as [k [Hkey Hin']]. apply filter_In in Hin' as [Hin' Hm].
    apply is_match_topic_star in Hm. rewrite Hkey in Hm.
    apply (lookup_registrations_in s p k Hk) in Hin'. rewrite Hm in Hin'. split; [assumption|].
    apply node_tombstone_spec; [assumption|].
    unfold a_prod in Hin'. destruct (get (topic_key t) (db s)) as [ps|] eqn:G; [|discriminate].
    destruct (Hsh _ _ G) as (_ & Hst & _). exact Hst.
  - intros [Hp ->]. exists t. split.
    + f_equal. apply node_tombstone_spec; [assumption|].
      unfold a_prod in Hp. destruct (get (topic_key t) (db s)) as [ps|] eqn:G; [|discriminate].
      destruct (Hsh _ _ G) as (_ & Hst & _). exact Hst.
    + apply in_map_iff. exists (topic_key t). split; [reflexivity|]. apply filter_In. split.
      * apply (lookup_registrations_in s p _ Hk). assumption.
      * apply is_match_topic_star. reflexivity.
Qed.
