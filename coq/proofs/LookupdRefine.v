(* Refinement: the RegistrationDB model (model/Lookupd.v) implements the plain registry
   (model/LookupSpec.v):  abs (step s op) == g_step (abs s) op  for every state satisfying
   the invariant [wf] (established by [init], preserved by every step). *)
From Coq Require Import List NArith ZArith Bool Lia.
From NSQV Require Import model.Judge model.Names model.Lookupd model.LookupSpec proofs.LookupdBase.
Import ListNotations.
Open Scope bool_scope.
Local Arguments has_prod : simpl never.
Local Arguments drop_prod : simpl never.

(* ------------------------------------------------------------------ abstraction *)
Definition a_prod (m : dbmap) (k : reg) (p : peer) : bool :=
  match get k m with Some ps => has_prod p ps | None => false end.

Definition a_tomb (m : dbmap) (t : name) (p : peer) : option Z :=
  match get (topic_key t) m with
  | Some ps =>
      match find (fun pr => N.eqb (p_id pr) p) ps with
      | Some pr => if p_tomb pr then Some (p_at pr) else None
      | None => None
      end
  | None => None
  end.

Definition abs (s : state) : registry :=
  mkR (now s) (peers s) (fun k => has_key k (db s)) (a_prod (db s)) (a_tomb (db s)).

(* the invariant: every stored producer belongs to a connected, identified client *)
Definition g_wf (r : registry) : Prop := forall k q, g_prod r k q = true -> connected r q = true.
Definition wf (s : state) : Prop := g_wf (abs s).

Lemma wf_in s k ps pr : wf s -> get k (db s) = Some ps -> In pr ps -> is_node s (p_id pr) = true.
Proof.
  intros H G Hin. apply (H k (p_id pr)). cbn. unfold a_prod. rewrite G.
  apply has_prod_in. exists pr. split; auto.
Qed.

Lemma req_refl r : req r r.
Proof. repeat split. Qed.

Lemma req_sym a b : req a b -> req b a.
Proof. intros (H1 & H2 & H3 & H4 & H5). repeat split; intros; symmetry; auto. Qed.

Lemma req_trans a b c : req a b -> req b c -> req a c.
Proof.
  intros (H1 & H2 & H3 & H4 & H5) (G1 & G2 & G3 & G4 & G5). repeat split; intros; etransitivity; eauto.
Qed.

Lemma connected_abs s p : connected (abs s) p = is_node s p.
Proof. reflexivity. Qed.

(* ------------------------------------------------------------------ is_match *)
Lemma is_match_exact c key sub k :
  need_filter key sub = false -> is_match c key sub k = reg_eqb (mkReg c key sub) k.
Proof.
  unfold need_filter, is_match, reg_eqb. intros H. apply orb_false_iff in H as [H1 H2].
  rewrite H1, H2. cbn. rewrite (bytes_eqb_sym (r_key k)), (bytes_eqb_sym (r_sub k)). reflexivity.
Qed.

Lemma existsb_keys k (m : dbmap) : existsb (fun r => reg_eqb r k) (map fst m) = has_key k m.
Proof.
  unfold has_key. induction m as [|[k0 ps] m IH]; cbn; [reflexivity|].
  destruct (reg_eqb k0 k); cbn; [reflexivity|exact IH].
Qed.

Lemma existsb_filter {A} (f g : A -> bool) l :
  existsb g (filter f l) = existsb (fun x => f x && g x) l.
Proof.
  induction l as [|x l IH]; cbn; [reflexivity|]. destruct (f x); cbn; rewrite IH; reflexivity.
Qed.

Lemma existsb_ext {A} (f g : A -> bool) l : (forall x, f x = g x) -> existsb f l = existsb g l.
Proof. intros H. induction l as [|x l IH]; cbn; [reflexivity|]. rewrite H, IH. reflexivity. Qed.

Lemma existsb_and_const {A} (b : bool) (g : A -> bool) l :
  existsb (fun x => b && g x) l = b && existsb g l.
Proof. destruct b; cbn; [reflexivity|]. induction l; cbn; auto. Qed.

Lemma find_registrations_mem c key sub k (m : dbmap) :
  existsb (fun r => reg_eqb r k) (find_registrations c key sub m) = is_match c key sub k && has_key k m.
Proof.
  unfold find_registrations. destruct (need_filter key sub) eqn:Hf.
  - rewrite existsb_filter. rewrite <- existsb_keys.
    induction (map fst m) as [|r l IH]; cbn; [rewrite andb_false_r; reflexivity|].
    rewrite IH. destruct (reg_eqb_spec r k) as [->|Hn]; cbn.
    + destruct (is_match c key sub k); reflexivity.
    + rewrite andb_false_r. reflexivity.
  - rewrite (is_match_exact _ _ _ _ Hf). destruct (reg_eqb_spec (mkReg c key sub) k) as [<-|Hn]; cbn.
    + destruct (has_key (mkReg c key sub) m); cbn; [rewrite reg_eqb_refl|]; reflexivity.
    + destruct (has_key (mkReg c key sub) m); cbn; [|reflexivity].
      destruct (reg_eqb_spec (mkReg c key sub) k); [contradiction|reflexivity].
Qed.

(* ------------------------------------------------------------------ folds *)
Lemma get_fold_remove_producer id (l : list reg) : forall (m : dbmap) k,
  get k (fold_left (fun m r => fst (fst (remove_producer r id m))) l m) =
  if existsb (fun r => reg_eqb r k) l then option_map (drop_prod id) (get k m) else get k m.
Proof.
  induction l as [|r l IH]; intros m k; cbn; [reflexivity|].
  rewrite IH. rewrite get_remove_producer.
  destruct (reg_eqb_spec r k) as [->|Hn]; cbn.
  - destruct (existsb (fun r => reg_eqb r k) l); destruct (get k m); cbn; try reflexivity.
    rewrite drop_prod_idem. reflexivity.
  - reflexivity.
Qed.

Lemma get_remove_all (l : list reg) : forall (m : dbmap) k,
  get k (remove_all l m) = if existsb (fun r => reg_eqb r k) l then None else get k m.
Proof.
  unfold remove_all. induction l as [|r l IH]; intros m k; cbn; [reflexivity|].
  rewrite IH. rewrite get_remove_registration.
  destruct (reg_eqb r k); cbn; [destruct (existsb _ l); reflexivity|reflexivity].
Qed.

Lemma lookup_registrations_mem id k (m : dbmap) ps :
  get k m = Some ps -> has_prod id ps = true ->
  existsb (fun r => reg_eqb r k) (lookup_registrations id m) = true.
Proof.
  unfold lookup_registrations. induction m as [|[k0 ps0] m IH]; cbn [get filter map fst snd existsb]; [discriminate|].
  destruct (reg_eqb_spec k0 k) as [->|Hn]; intros H Hp.
  - inversion H; subst. rewrite Hp. cbn [map fst existsb]. rewrite reg_eqb_refl. reflexivity.
  - destruct (has_prod id ps0); cbn [map fst existsb]; [|apply IH; assumption].
    destruct (reg_eqb k0 k); [reflexivity|]. apply IH; assumption.
Qed.

Lemma get_disconnect_db id (m : dbmap) k :
  get k (disconnect_db id m) = option_map (drop_prod id) (get k m).
Proof.
  unfold disconnect_db. rewrite get_fold_remove_producer.
  destruct (existsb (fun r => reg_eqb r k) (lookup_registrations id m)) eqn:E; [reflexivity|].
  destruct (get k m) as [ps|] eqn:G; [|reflexivity]. cbn.
  destruct (has_prod id ps) eqn:Hp.
  - rewrite (lookup_registrations_mem _ _ _ _ G Hp) in E. discriminate.
  - rewrite drop_prod_none by assumption. reflexivity.
Qed.

(* ------------------------------------------------------------------ a_prod / a_tomb after primitives *)
Lemma a_prod_disconnect id m k q :
  a_prod (disconnect_db id m) k q = a_prod m k q && negb (N.eqb q id).
Proof.
  unfold a_prod. rewrite get_disconnect_db. destruct (get k m) as [ps|]; cbn; [|reflexivity].
  apply has_prod_drop.
Qed.

Lemma a_tomb_disconnect id m t q :
  a_tomb (disconnect_db id m) t q = if N.eqb q id then None else a_tomb m t q.
Proof.
  unfold a_tomb. rewrite get_disconnect_db. destruct (get (topic_key t) m) as [ps|]; cbn.
  - rewrite find_drop_prod. destruct (N.eqb q id); reflexivity.
  - destruct (N.eqb q id); reflexivity.
Qed.

Lemma has_key_disconnect id m k : has_key k (disconnect_db id m) = has_key k m.
Proof. unfold has_key. rewrite get_disconnect_db. destruct (get k m); reflexivity. Qed.

Lemma a_prod_add_producer k0 pr m k q :
  a_prod (fst (add_producer k0 pr m)) k q = (reg_eqb k0 k && N.eqb (p_id pr) q) || a_prod m k q.
Proof.
  unfold a_prod. rewrite get_add_producer. destruct (reg_eqb_spec k0 k) as [->|Hn]; cbn; [|reflexivity].
  destruct (get k m) as [ps|]; cbn.
  - destruct (has_prod (p_id pr) ps) eqn:Hp.
    + destruct (N.eqb_spec (p_id pr) q) as [<-|]; cbn; [assumption|reflexivity].
    + rewrite has_prod_app. unfold has_prod at 2. cbn [existsb]. rewrite orb_false_r. apply orb_comm.
  - unfold has_prod. cbn [existsb]. rewrite !orb_false_r. reflexivity.
Qed.

Lemma has_key_add_producer k0 pr m k :
  has_key k (fst (add_producer k0 pr m)) = reg_eqb k0 k || has_key k m.
Proof.
  unfold has_key. rewrite get_add_producer. destruct (reg_eqb k0 k); cbn; reflexivity.
Qed.

(* adding a producer object never changes an existing tombstone mark; a new object is
   not tombstoned *)
Lemma a_tomb_add_producer k0 p m t q :
  a_tomb (fst (add_producer k0 (mkProd p false 0) m)) t q = a_tomb m t q.
Proof.
  unfold a_tomb. rewrite get_add_producer. destruct (reg_eqb_spec k0 (topic_key t)) as [->|Hn]; [|reflexivity].
  destruct (get (topic_key t) m) as [ps|]; cbn.
  - destruct (has_prod p ps) eqn:Hp; [reflexivity|].
    destruct (find (fun pr => N.eqb (p_id pr) q) ps) as [pr|] eqn:F.
    + rewrite (find_app_some _ _ _ _ F). reflexivity.
    + rewrite (find_app_none _ _ _ F). cbn. destruct (N.eqb p q); reflexivity.
  - destruct (N.eqb p q); reflexivity.
Qed.

Lemma a_prod_add_registration k0 m k q : a_prod (add_registration k0 m) k q = a_prod m k q.
Proof.
  unfold a_prod. rewrite get_add_registration. destruct (reg_eqb_spec k0 k) as [->|]; [|reflexivity].
  destruct (get k m); reflexivity.
Qed.

Lemma has_key_add_registration k0 m k : has_key k (add_registration k0 m) = reg_eqb k0 k || has_key k m.
Proof. unfold has_key. rewrite get_add_registration. destruct (reg_eqb k0 k); reflexivity. Qed.

Lemma a_tomb_add_registration k0 m t q : a_tomb (add_registration k0 m) t q = a_tomb m t q.
Proof.
  unfold a_tomb. rewrite get_add_registration. destruct (reg_eqb_spec k0 (topic_key t)) as [->|]; [|reflexivity].
  destruct (get (topic_key t) m); reflexivity.
Qed.

Lemma a_prod_remove_all l m k q :
  a_prod (remove_all l m) k q = a_prod m k q && negb (existsb (fun r => reg_eqb r k) l).
Proof.
  unfold a_prod. rewrite get_remove_all. destruct (existsb _ l); cbn.
  - rewrite andb_false_r. reflexivity.
  - rewrite andb_true_r. reflexivity.
Qed.

Lemma has_key_remove_all l m k :
  has_key k (remove_all l m) = has_key k m && negb (existsb (fun r => reg_eqb r k) l).
Proof.
  unfold has_key. rewrite get_remove_all. destruct (existsb _ l); cbn.
  - rewrite andb_false_r. reflexivity.
  - rewrite andb_true_r. reflexivity.
Qed.

Lemma a_tomb_remove_all l m t q :
  a_tomb (remove_all l m) t q =
  if existsb (fun r => reg_eqb r (topic_key t)) l then None else a_tomb m t q.
Proof. unfold a_tomb. rewrite get_remove_all. destruct (existsb _ l); reflexivity. Qed.

(* ------------------------------------------------------------------ others <-> left *)
Lemma others_abs s k p :
  wf s ->
  others (abs s) k p =
  negb (Nat.eqb (match get k (db s) with Some ps => length (drop_prod p ps) | None => O end) 0).
Proof.
  intros Hwf. unfold others. cbn [g_nodes g_prod abs]. unfold a_prod.
  destruct (get k (db s)) as [ps|] eqn:G.
  - destruct (Nat.eqb_spec (length (drop_prod p ps)) 0) as [E|E]; cbn.
    + apply not_true_is_false. intros H. apply existsb_exists in H as [[q c] [Hin Hq]]. cbn in Hq.
      apply andb_true_iff in Hq as [Hq1 Hq2]. apply has_prod_in in Hq2 as [pr [Hpr Hid]].
      pose proof (proj1 (drop_prod_length0 p ps) E pr Hpr) as Heq.
      rewrite <- Hid, Heq, N.eqb_refl in Hq1. discriminate.
    + match goal with |- ?X = true => destruct X eqn:Ex end; [reflexivity|]. exfalso. apply E.
      apply drop_prod_length0. intros pr Hpr.
      destruct (N.eqb_spec (p_id pr) p) as [|Hne]; [assumption|]. exfalso.
      pose proof (wf_in _ _ _ _ Hwf G Hpr) as Hn. unfold is_node in Hn.
      destruct (find_peer (p_id pr) (peers s)) as [c|] eqn:F; [|discriminate].
      apply find_peer_in in F.
      assert (existsb (fun e : peer * client => negb (N.eqb (fst e) p) && has_prod (fst e) ps) (peers s) = true) as Hc.
      { apply existsb_exists. exists (p_id pr, c). split; [assumption|]. cbn.
        destruct (N.eqb_spec (p_id pr) p); [contradiction|]. cbn.
        apply has_prod_in. exists pr. split; auto. }
      exact (eq_true_false_abs _ Hc Ex).
  - cbn. induction (peers s) as [|e l IH]; cbn; [reflexivity|]. rewrite andb_false_r. exact IH.
Qed.

(* ------------------------------------------------------------------ small facts *)
Lemma topic_key_eqb t u : reg_eqb (topic_key t) (topic_key u) = bytes_eqb t u.
Proof. unfold reg_eqb, topic_key. cbn. rewrite andb_true_r. reflexivity. Qed.

Lemma is_star_nil : is_star [] = false.
Proof. reflexivity. Qed.

Lemma valid_not_star t : is_valid_name t = true -> is_star t = false.
Proof.
  intros H. destruct (is_star t) eqn:E; [|reflexivity]. unfold is_star in E.
  apply bytes_eqb_eq in E. subst. vm_compute in H. discriminate.
Qed.

Lemma is_match_chan_topic t sub u : is_match CChannel t sub (topic_key u) = false.
Proof. reflexivity. Qed.

Lemma disconnect_not_node s p : is_node s p = false -> disconnect s p = s.
Proof. unfold disconnect. intros ->. reflexivity. Qed.

Lemma a_tomb_has_key m t q : has_key (topic_key t) m = false -> a_tomb m t q = None.
Proof. unfold has_key, a_tomb. destruct (get (topic_key t) m); [discriminate|reflexivity]. Qed.

Lemma a_prod_has_key m k q : has_key k m = false -> a_prod m k q = false.
Proof. unfold has_key, a_prod. destruct (get k m); [discriminate|reflexivity]. Qed.

(* ------------------------------------------------------------------ Disconnect *)
Lemma refine_disconnect s p : req (abs (disconnect s p)) (g_disconnect (abs s) p).
Proof.
  unfold disconnect, g_disconnect. rewrite connected_abs. destruct (is_node s p); [|apply req_refl].
  repeat split; cbn; intros.
  - apply has_key_disconnect.
  - apply a_prod_disconnect.
  - apply a_tomb_disconnect.
Qed.

(* ------------------------------------------------------------------ Identify *)
Lemma refine_identify s p i : req (abs (fst (tcp_identify s p i))) (g_identify (abs s) p i).
Proof.
  unfold tcp_identify, g_identify, fail. rewrite connected_abs.
  destruct (is_node s p) eqn:Hn; cbn [fst].
  - apply refine_disconnect.
  - destruct (fields_missing i); cbn [fst].
    + rewrite disconnect_not_node by assumption. apply req_refl.
    + destruct (add_producer client_key (mkProd p false 0) (db s)) as [m b] eqn:A.
      assert (m = fst (add_producer client_key (mkProd p false 0) (db s))) as -> by (rewrite A; reflexivity).
      repeat split; cbn; intros.
      * rewrite has_key_add_producer. rewrite (reg_eqb_sym k). reflexivity.
      * rewrite a_prod_add_producer. cbn. rewrite (reg_eqb_sym k), (N.eqb_sym p0). reflexivity.
      * apply a_tomb_add_producer.
Qed.

(* ------------------------------------------------------------------ Ping *)
Lemma refine_ping s p : req (abs (fst (tcp_ping s p))) (g_ping (abs s) p).
Proof.
  unfold tcp_ping, g_ping. rewrite connected_abs. cbn [fst]. destruct (is_node s p); apply req_refl.
Qed.

(* ------------------------------------------------------------------ Register *)
Lemma refine_register s p t c : req (abs (fst (tcp_register s p t c))) (g_register (abs s) p t c).
Proof.
  unfold tcp_register, g_register, fail. rewrite connected_abs.
  destruct (is_node s p) eqn:Hn; cbn [negb fst].
  2:{ rewrite disconnect_not_node by assumption. apply req_refl. }
  destruct (check_names t c); cbn [fst]; [apply refine_disconnect|].
  repeat split; cbn; intros.
  - rewrite has_key_add_producer. destruct (nonempty c); cbn.
    + rewrite has_key_add_producer. rewrite (reg_eqb_sym k), (reg_eqb_sym k (chan_key t c)).
      destruct (reg_eqb (topic_key t) k), (reg_eqb (chan_key t c) k); reflexivity.
    + rewrite (reg_eqb_sym k). rewrite orb_false_r. reflexivity.
  - rewrite a_prod_add_producer. cbn [p_id]. destruct (nonempty c); cbn.
    + rewrite a_prod_add_producer. cbn [p_id].
      rewrite (reg_eqb_sym k), (reg_eqb_sym k (chan_key t c)), (N.eqb_sym p0).
      destruct (reg_eqb (topic_key t) k), (reg_eqb (chan_key t c) k), (N.eqb p p0); reflexivity.
    + rewrite (reg_eqb_sym k), (N.eqb_sym p0). rewrite orb_false_r. reflexivity.
  - rewrite a_tomb_add_producer. destruct (nonempty c); [apply a_tomb_add_producer|reflexivity].
Qed.

(* ------------------------------------------------------------------ Unregister *)
Lemma a_prod_remove_producer k0 id m k q :
  a_prod (fst (fst (remove_producer k0 id m))) k q = a_prod m k q && negb (reg_eqb k0 k && N.eqb q id).
Proof.
  unfold a_prod. rewrite get_remove_producer. destruct (reg_eqb k0 k); cbn.
  - destruct (get k m); cbn; [apply has_prod_drop|reflexivity].
  - rewrite andb_true_r. reflexivity.
Qed.

Lemma has_key_remove_producer k0 id m k : has_key k (fst (fst (remove_producer k0 id m))) = has_key k m.
Proof. unfold has_key. rewrite get_remove_producer. destruct (reg_eqb k0 k), (get k m); reflexivity. Qed.

Lemma a_tomb_remove_producer k0 id m t q :
  a_tomb (fst (fst (remove_producer k0 id m))) t q =
  if reg_eqb k0 (topic_key t) && N.eqb q id then None else a_tomb m t q.
Proof.
  unfold a_tomb. rewrite get_remove_producer. destruct (reg_eqb k0 (topic_key t)); cbn; [|reflexivity].
  destruct (get (topic_key t) m); cbn.
  - rewrite find_drop_prod. destruct (N.eqb q id); reflexivity.
  - destruct (N.eqb q id); reflexivity.
Qed.

Lemma a_prod_remove_registration k0 m k q :
  a_prod (remove_registration k0 m) k q = a_prod m k q && negb (reg_eqb k0 k).
Proof.
  unfold a_prod. rewrite get_remove_registration. destruct (reg_eqb k0 k); cbn.
  - rewrite andb_false_r. reflexivity.
  - rewrite andb_true_r. reflexivity.
Qed.

Lemma has_key_remove_registration k0 m k :
  has_key k (remove_registration k0 m) = has_key k m && negb (reg_eqb k0 k).
Proof.
  unfold has_key. rewrite get_remove_registration. destruct (reg_eqb k0 k); cbn.
  - rewrite andb_false_r. reflexivity.
  - rewrite andb_true_r. reflexivity.
Qed.

Lemma a_tomb_remove_registration k0 m t q :
  a_tomb (remove_registration k0 m) t q = if reg_eqb k0 (topic_key t) then None else a_tomb m t q.
Proof. unfold a_tomb. rewrite get_remove_registration. destruct (reg_eqb k0 (topic_key t)); reflexivity. Qed.

Definition unreg_fold (p : peer) (l : list reg) (m : dbmap) : dbmap :=
  fold_left (fun m r => fst (fst (remove_producer r p m))) l m.

Lemma a_prod_unreg_fold p c key sub m k q :
  a_prod (unreg_fold p (find_registrations c key sub m) m) k q =
  a_prod m k q && negb (is_match c key sub k && N.eqb q p).
Proof.
  unfold a_prod, unreg_fold. rewrite get_fold_remove_producer, find_registrations_mem.
  unfold has_key. destruct (get k m) as [ps|]; cbn.
  - rewrite andb_true_r. destruct (is_match c key sub k); cbn.
    + apply has_prod_drop.
    + rewrite andb_true_r. reflexivity.
  - rewrite andb_false_r. reflexivity.
Qed.

Lemma get_unreg_fold_other p c key sub m k :
  is_match c key sub k = false -> get k (unreg_fold p (find_registrations c key sub m) m) = get k m.
Proof.
  intros H. unfold unreg_fold. rewrite get_fold_remove_producer, find_registrations_mem, H. reflexivity.
Qed.

Lemma has_key_unreg_fold p l m k : has_key k (unreg_fold p l m) = has_key k m.
Proof.
  unfold has_key, unreg_fold. rewrite get_fold_remove_producer.
  destruct (existsb _ l), (get k m); reflexivity.
Qed.

Lemma refine_unregister s p t c :
  wf s -> req (abs (fst (tcp_unregister s p t c))) (g_unregister (abs s) p t c).
Proof.
  intros Hwf. unfold tcp_unregister, g_unregister, fail. rewrite connected_abs.
  destruct (is_node s p) eqn:Hn; cbn [negb fst].
  2:{ rewrite disconnect_not_node by assumption. apply req_refl. }
  destruct (check_names t c); cbn [fst]; [apply refine_disconnect|].
  destruct (nonempty c) eqn:Hc.
  - (* channel *)
    rewrite (others_abs s (chan_key t c) p Hwf).
    destruct (remove_producer (chan_key t c) p (db s)) as [[m1 rem] nleft] eqn:R.
    assert (m1 = fst (fst (remove_producer (chan_key t c) p (db s)))) as Hm1 by (rewrite R; reflexivity).
    assert (nleft = snd (remove_producer (chan_key t c) p (db s))) as Hl by (rewrite R; reflexivity).
    rewrite remove_producer_left in Hl. rewrite <- Hl. rewrite negb_involutive.
    destruct (Nat.eqb nleft 0 && has_ephemeral_suffix c) eqn:Gone; subst m1; repeat split; cbn; intros.
    + rewrite has_key_remove_registration, has_key_remove_producer. rewrite (reg_eqb_sym k). reflexivity.
    + rewrite a_prod_remove_registration, a_prod_remove_producer. rewrite (reg_eqb_sym k).
      destruct (a_prod (db s) k p0), (reg_eqb (chan_key t c) k), (N.eqb p0 p); reflexivity.
    + rewrite a_tomb_remove_registration, a_tomb_remove_producer. reflexivity.
    + rewrite has_key_remove_producer. rewrite andb_true_r. reflexivity.
    + rewrite a_prod_remove_producer. rewrite (reg_eqb_sym k). rewrite orb_false_r. reflexivity.
    + rewrite a_tomb_remove_producer. reflexivity.
  - (* topic *)
    rewrite (others_abs s (topic_key t) p Hwf).
    fold (unreg_fold p (find_registrations CChannel t star (db s)) (db s)).
    set (m1 := unreg_fold p (find_registrations CChannel t star (db s)) (db s)).
    destruct (remove_producer (topic_key t) p m1) as [[m2 rem] nleft] eqn:R.
    assert (m2 = fst (fst (remove_producer (topic_key t) p m1))) as Hm2 by (rewrite R; reflexivity).
    assert (nleft = snd (remove_producer (topic_key t) p m1)) as Hl by (rewrite R; reflexivity).
    rewrite remove_producer_left in Hl.
    assert (get (topic_key t) m1 = get (topic_key t) (db s)) as Hg
      by (apply get_unreg_fold_other; reflexivity).
    rewrite Hg in Hl. rewrite <- Hl. rewrite negb_involutive.
    assert (forall u q, a_tomb m1 u q = a_tomb (db s) u q) as Htomb.
    { intros u q. unfold a_tomb. subst m1. rewrite get_unreg_fold_other by reflexivity. reflexivity. }
    destruct (Nat.eqb nleft 0 && has_ephemeral_suffix t) eqn:Gone; subst m2; repeat split; cbn; intros.
    + rewrite has_key_remove_registration, has_key_remove_producer. subst m1.
      rewrite has_key_unreg_fold. rewrite (reg_eqb_sym k). reflexivity.
    + rewrite a_prod_remove_registration, a_prod_remove_producer. subst m1. rewrite a_prod_unreg_fold.
      rewrite (reg_eqb_sym k).
      destruct (a_prod (db s) k p0), (is_match CChannel t star k), (reg_eqb (topic_key t) k), (N.eqb p0 p); reflexivity.
    + rewrite a_tomb_remove_registration, a_tomb_remove_producer, Htomb. rewrite topic_key_eqb.
      rewrite (bytes_eqb_sym t0). destruct (bytes_eqb t t0), (N.eqb p0 p); reflexivity.
    + rewrite has_key_remove_producer. subst m1. rewrite has_key_unreg_fold. rewrite andb_true_r. reflexivity.
    + rewrite a_prod_remove_producer. subst m1. rewrite a_prod_unreg_fold. rewrite (reg_eqb_sym k).
      rewrite orb_false_r. reflexivity.
    + rewrite a_tomb_remove_producer, Htomb. rewrite topic_key_eqb. rewrite (bytes_eqb_sym t0).
      rewrite orb_false_r. reflexivity.
Qed.

(* ------------------------------------------------------------------ HTTP: create / delete *)
Lemma refine_create_topic s q : req (abs (fst (h_create_topic s q))) (g_create_topic (abs s) q).
Proof.
  unfold h_create_topic, g_create_topic. destruct q as [|[t|] c n]; cbn [fst]; try apply req_refl.
  destruct (is_valid_name t); cbn [negb fst]; [|apply req_refl].
  repeat split; cbn; intros.
  - rewrite has_key_add_registration. rewrite (reg_eqb_sym k). reflexivity.
  - apply a_prod_add_registration.
  - apply a_tomb_add_registration.
Qed.

Lemma is_match_topic_exact t k : is_star t = false -> is_match CTopic t [] k = reg_eqb k (topic_key t).
Proof.
  intros Hs. rewrite is_match_exact by (unfold need_filter; rewrite Hs; reflexivity).
  fold (topic_key t). apply reg_eqb_sym.
Qed.

Lemma refine_delete_topic s q : req (abs (fst (h_delete_topic s q))) (g_delete_topic (abs s) q).
Proof.
  unfold h_delete_topic, g_delete_topic. destruct q as [|[t|] c n]; cbn [fst]; try apply req_refl.
  destruct (is_valid_name t) eqn:V; cbn [negb fst]; [|apply req_refl].
  pose proof (valid_not_star _ V) as Hs.
  repeat split; cbn; intros.
  - rewrite !has_key_remove_all, !find_registrations_mem, has_key_remove_all, find_registrations_mem.
    rewrite (is_match_topic_exact t k Hs).
    destruct (has_key k (db s)), (is_match CChannel t star k), (reg_eqb k (topic_key t)); reflexivity.
  - rewrite !a_prod_remove_all, !find_registrations_mem, has_key_remove_all, find_registrations_mem.
    rewrite (is_match_topic_exact t k Hs).
    destruct (a_prod (db s) k p) eqn:A.
    + assert (has_key k (db s) = true) as ->.
      { destruct (has_key k (db s)) eqn:E; [reflexivity|]. rewrite a_prod_has_key in A by assumption. discriminate. }
      destruct (is_match CChannel t star k), (reg_eqb k (topic_key t)); reflexivity.
    + reflexivity.
  - rewrite !a_tomb_remove_all, !find_registrations_mem, has_key_remove_all, find_registrations_mem.
    rewrite is_match_chan_topic. cbn [andb negb]. rewrite andb_true_r.
    rewrite (is_match_topic_exact t _ Hs), topic_key_eqb.
    destruct (has_key (topic_key t0) (db s)) eqn:E.
    + rewrite andb_true_r. destruct (bytes_eqb t0 t); reflexivity.
    + rewrite andb_false_r. rewrite a_tomb_has_key by assumption.
      destruct (bytes_eqb t0 t); reflexivity.
Qed.

Lemma refine_create_channel s q : req (abs (fst (h_create_channel s q))) (g_create_channel (abs s) q).
Proof.
  unfold h_create_channel, g_create_channel. destruct q as [|t c n]; cbn [fst]; [apply req_refl|].
  destruct (topic_channel_args t c) as [[t' c']|]; cbn [fst]; [|apply req_refl].
  repeat split; cbn; intros.
  - rewrite !has_key_add_registration. rewrite (reg_eqb_sym k), (reg_eqb_sym k (chan_key t' c')).
    rewrite orb_assoc. reflexivity.
  - rewrite !a_prod_add_registration. reflexivity.
  - rewrite !a_tomb_add_registration. reflexivity.
Qed.

Lemma topic_channel_args_valid t c t' c' :
  topic_channel_args t c = Some (t', c') -> is_valid_name t' = true /\ is_valid_name c' = true.
Proof.
  unfold topic_channel_args. destruct t as [t|]; [|discriminate].
  destruct (is_valid_name t) eqn:Vt; cbn; [|discriminate].
  destruct c as [c|]; [|discriminate]. destruct (is_valid_name c) eqn:Vc; cbn; [|discriminate].
  intros H. inversion H; subst. split; assumption.
Qed.

Lemma refine_delete_channel s q : req (abs (fst (h_delete_channel s q))) (g_delete_channel (abs s) q).
Proof.
  unfold h_delete_channel, g_delete_channel. destruct q as [|t c n]; cbn [fst]; [apply req_refl|].
  destruct (topic_channel_args t c) as [[t' c']|] eqn:TC; cbn [fst]; [|apply req_refl].
  destruct (topic_channel_args_valid _ _ _ _ TC) as [Vt Vc].
  assert (need_filter t' c' = false) as Hnf.
  { unfold need_filter. rewrite (valid_not_star _ Vt), (valid_not_star _ Vc). reflexivity. }
  unfold find_registrations. rewrite Hnf. fold (chan_key t' c').
  destruct (has_key (chan_key t' c') (db s)) eqn:HK; cbn [fst].
  - repeat split; cbn; intros.
    + rewrite has_key_remove_registration. rewrite (reg_eqb_sym k). reflexivity.
    + rewrite a_prod_remove_registration. rewrite (reg_eqb_sym k). reflexivity.
    + rewrite a_tomb_remove_registration. reflexivity.
  - repeat split; cbn; intros.
    + destruct (reg_eqb_spec k (chan_key t' c')) as [->|]; cbn.
      * rewrite HK. reflexivity.
      * rewrite andb_true_r. reflexivity.
    + destruct (reg_eqb_spec k (chan_key t' c')) as [->|]; cbn.
      * rewrite a_prod_has_key by assumption. reflexivity.
      * rewrite andb_true_r. reflexivity.
Qed.

(* ------------------------------------------------------------------ HTTP: tombstone *)
Definition mark_all (ids : list peer) (t : Z) (pr : producer) : producer :=
  if existsb (N.eqb (p_id pr)) ids then mkProd (p_id pr) true t else pr.

Lemma mark_all_id ids t pr : p_id (mark_all ids t pr) = p_id pr.
Proof. unfold mark_all. destruct (existsb (N.eqb (p_id pr)) ids); reflexivity. Qed.

Lemma get_fold_tombstone k0 t (l : list producer) : forall (m : dbmap) k,
  get k (fold_left (fun m (kp : reg * producer) => tombstone_in (fst kp) (p_id (snd kp)) t m)
                   (map (fun pr => (k0, pr)) l) m) =
  if reg_eqb k0 k then option_map (map (mark_all (map p_id l) t)) (get k m) else get k m.
Proof.
  induction l as [|pr0 l IH]; intros m k; cbn [map fold_left fst snd].
  - destruct (reg_eqb k0 k); [|reflexivity]. destruct (get k m) as [ps|]; cbn; [|reflexivity].
    f_equal. symmetry. rewrite <- (map_id ps) at 2. apply map_ext. intros pr. reflexivity.
  - rewrite IH. unfold tombstone_in. rewrite get_upd.
    destruct (reg_eqb k0 k); [|reflexivity].
    destruct (get k m) as [ps|]; cbn [option_map]; [|reflexivity].
    f_equal. rewrite map_map. apply map_ext. intros pr. unfold mark_all. cbn [existsb p_id].
    destruct (N.eqb_spec (p_id pr) (p_id pr0)) as [E|E]; cbn [p_id orb].
    + destruct (existsb (N.eqb (p_id pr)) (map p_id l)); reflexivity.
    + reflexivity.
Qed.

Lemma find_map_id (f : producer -> producer) q ps :
  (forall pr, p_id (f pr) = p_id pr) ->
  find (fun pr => N.eqb (p_id pr) q) (map f ps) = option_map f (find (fun pr => N.eqb (p_id pr) q) ps).
Proof.
  intros Hf. induction ps as [|pr ps IH]; cbn; [reflexivity|]. rewrite Hf.
  destruct (N.eqb (p_id pr) q); [reflexivity|exact IH].
Qed.

Lemma has_prod_map_id (f : producer -> producer) q ps :
  (forall pr, p_id (f pr) = p_id pr) -> has_prod q (map f ps) = has_prod q ps.
Proof.
  intros Hf. unfold has_prod. induction ps as [|pr ps IH]; cbn; [reflexivity|]. rewrite Hf, IH. reflexivity.
Qed.

Lemma filter_map_pair {A B} (k0 : A) (f : B -> bool) (l : list B) :
  filter (fun kp : A * B => f (snd kp)) (map (fun x => (k0, x)) l) = map (fun x => (k0, x)) (filter f l).
Proof. induction l as [|x l IH]; cbn; [reflexivity|]. destruct (f x); cbn; rewrite IH; reflexivity. Qed.

Lemma existsb_ids_filter (f : peer -> bool) q ps :
  existsb (N.eqb q) (map p_id (filter (fun pr => f (p_id pr)) ps)) = has_prod q ps && f q.
Proof.
  unfold has_prod. induction ps as [|pr ps IH]; cbn; [reflexivity|].
  destruct (f (p_id pr)) eqn:F; cbn; rewrite IH.
  - rewrite (N.eqb_sym q). destruct (N.eqb_spec (p_id pr) q) as [<-|]; cbn; [rewrite F; reflexivity|reflexivity].
  - destruct (N.eqb_spec (p_id pr) q) as [<-|]; cbn; [|reflexivity]. rewrite F, andb_false_r.
    destruct (existsb _ ps); reflexivity.
Qed.

(* the database after a tombstone request for a topic that is not the wildcard *)
Lemma tombstone_db s t node :
  is_valid_name t = true ->
  forall k,
  get k (db (fst (h_tombstone s (QArgs (Some t) None (Some node))))) =
  if reg_eqb (topic_key t) k
  then option_map (map (fun pr => if node_matches s node (p_id pr) then mkProd (p_id pr) true (now s) else pr))
                  (get k (db s))
  else get k (db s).
Proof.
  intros V k. pose proof (valid_not_star _ V) as Hs. unfold h_tombstone. rewrite V. cbn [negb fst set_db db].
  unfold find_producers_k, need_filter.
  rewrite Hs, is_star_nil. cbn [orb]. fold (topic_key t).
  destruct (get (topic_key t) (db s)) as [ps|] eqn:G.
  - rewrite (filter_map_pair (topic_key t) (fun pr => node_matches s node (p_id pr))).
    rewrite get_fold_tombstone. destruct (reg_eqb_spec (topic_key t) k) as [<-|]; [|reflexivity].
    rewrite G. cbn [option_map]. f_equal. apply map_ext_in. intros pr Hin.
    unfold mark_all. rewrite (existsb_ids_filter (node_matches s node)).
    assert (has_prod (p_id pr) ps = true) as -> by (apply has_prod_in; exists pr; auto).
    reflexivity.
  - cbn. destruct (reg_eqb_spec (topic_key t) k) as [<-|]; [rewrite G|]; reflexivity.
Qed.

Lemma refine_tombstone s q : req (abs (fst (h_tombstone s q))) (g_tombstone (abs s) q).
Proof.
  destruct q as [|[t|] c [node|]]; try apply req_refl.
  2:{ unfold h_tombstone, g_tombstone. destruct (negb (is_valid_name t)); apply req_refl. }
  destruct (is_valid_name t) eqn:V.
  2:{ unfold h_tombstone, g_tombstone. rewrite V. apply req_refl. }
  unfold g_tombstone. rewrite V.
  assert (forall k, get k (db (fst (h_tombstone s (QArgs (Some t) c (Some node))))) =
                    get k (db (fst (h_tombstone s (QArgs (Some t) None (Some node)))))) as Hc by reflexivity.
  pose proof (tombstone_db s t node V) as Hdb.
  set (f := fun pr => if node_matches s node (p_id pr) then mkProd (p_id pr) true (now s) else pr) in Hdb.
  assert (forall pr, p_id (f pr) = p_id pr) as Hf by (intros pr; unfold f; destruct (node_matches s node (p_id pr)); reflexivity).
  repeat split; intros.
  - unfold h_tombstone. rewrite V. reflexivity.
  - unfold h_tombstone. rewrite V. reflexivity.
  - cbn [abs g_key g_tombstone]. unfold has_key. rewrite Hc, Hdb.
    destruct (reg_eqb (topic_key t) k), (get k (db s)); reflexivity.
  - cbn [abs g_prod g_tombstone]. unfold a_prod. rewrite Hc, Hdb.
    destruct (reg_eqb (topic_key t) k); [|reflexivity].
    destruct (get k (db s)); cbn [option_map]; [|reflexivity]. apply has_prod_map_id. assumption.
  - cbn [abs g_tomb g_tombstone g_now g_nodes]. unfold registered. cbn [abs g_prod]. unfold a_tomb, a_prod.
    rewrite Hc, Hdb. rewrite topic_key_eqb. rewrite (bytes_eqb_sym t0).
    destruct (bytes_eqb t t0) eqn:E; cbn [andb]; [|reflexivity].
    apply bytes_eqb_eq in E. subst t0.
    destruct (get (topic_key t) (db s)) as [ps|]; cbn [option_map]; [|reflexivity].
    rewrite (find_map_id f) by assumption.
    destruct (find (fun pr => N.eqb (p_id pr) p) ps) as [pr|] eqn:F; cbn [option_map].
    + assert (has_prod p ps = true) as ->.
      { destruct (has_prod p ps) eqn:Hp; [reflexivity|]. apply find_none_has_prod in Hp. congruence. }
      assert (p_id pr = p) as Hid by (apply find_some in F as [_ F]; apply N.eqb_eq; assumption).
      unfold f. rewrite Hid. cbn [andb]. unfold g_node_matches, node_matches. cbn [abs g_nodes].
      destruct (match find_peer p (peers s) with Some c0 => bytes_eqb (node_of (c_info c0)) node | None => false end);
        reflexivity.
    + apply find_none_has_prod in F. rewrite F. reflexivity.
Qed.

(* ------------------------------------------------------------------ one step *)
Theorem refine_step s o :
  wf s -> req (abs (fst (step s o))) (g_step (abs s) o).
Proof.
  intros Hwf. destruct o; cbn [step g_step].
  - pose proof (refine_identify s p i) as H. destruct (tcp_identify s p i). exact H.
  - pose proof (refine_register s p t c) as H. destruct (tcp_register s p t c). exact H.
  - pose proof (refine_unregister s p t c Hwf) as H. destruct (tcp_unregister s p t c). exact H.
  - pose proof (refine_ping s p) as H. destruct (tcp_ping s p). exact H.
  - apply refine_disconnect.
  - pose proof (refine_create_topic s q) as H. destruct (h_create_topic s q). exact H.
  - pose proof (refine_delete_topic s q) as H. destruct (h_delete_topic s q). exact H.
  - pose proof (refine_create_channel s q) as H. destruct (h_create_channel s q). exact H.
  - pose proof (refine_delete_channel s q) as H. destruct (h_delete_channel s q). exact H.
  - pose proof (refine_tombstone s q) as H. destruct (h_tombstone s q). exact H.
  - apply req_refl.
Qed.

(* ------------------------------------------------------------------ the specification respects == *)
Lemma connected_req a b p : req a b -> connected a p = connected b p.
Proof. intros (_ & H & _). unfold connected. rewrite H. reflexivity. Qed.

Lemma others_req a b k p : req a b -> others a k p = others b k p.
Proof.
  intros (_ & H & _ & Hp & _). unfold others. rewrite H. apply existsb_ext. intros e. rewrite Hp. reflexivity.
Qed.

Lemma g_disconnect_req a b p : req a b -> req (g_disconnect a p) (g_disconnect b p).
Proof.
  intros H. unfold g_disconnect. rewrite (connected_req _ _ p H).
  destruct (connected b p); [|assumption]. destruct H as (H1 & H2 & H3 & H4 & H5).
  repeat split; cbn; intros; rewrite ?H1, ?H2, ?H3, ?H4, ?H5; reflexivity.
Qed.

Lemma g_step_req a b o : req a b -> req (g_step a o) (g_step b o).
Proof.
  intros H. pose proof H as (H1 & H2 & H3 & H4 & H5).
  assert (forall u p node, g_node_matches a node p = g_node_matches b node p /\ registered a p u = registered b p u) as Hx.
  { intros. unfold g_node_matches, registered. rewrite H2, H4. split; reflexivity. }
  destruct o; cbn [g_step].
  - unfold g_identify. rewrite (connected_req _ _ p H).
    destruct (connected b p); [apply g_disconnect_req; assumption|].
    destruct (fields_missing i); [assumption|].
    repeat split; cbn; intros; rewrite ?H1, ?H2, ?H3, ?H4, ?H5; reflexivity.
  - unfold g_register. rewrite (connected_req _ _ p H).
    destruct (connected b p); cbn [negb]; [|assumption].
    destruct (check_names t c); [apply g_disconnect_req; assumption|].
    repeat split; cbn; intros; rewrite ?H1, ?H2, ?H3, ?H4, ?H5; reflexivity.
  - unfold g_unregister. rewrite (connected_req _ _ p H).
    destruct (connected b p); cbn [negb]; [|assumption].
    destruct (check_names t c); [apply g_disconnect_req; assumption|].
    destruct (nonempty c).
    + rewrite (others_req _ _ (chan_key t c) p H).
      repeat split; cbn; intros; rewrite ?H1, ?H2, ?H3, ?H4, ?H5; reflexivity.
    + rewrite (others_req _ _ (topic_key t) p H).
      repeat split; cbn; intros; rewrite ?H1, ?H2, ?H3, ?H4, ?H5; reflexivity.
  - unfold g_ping. rewrite (connected_req _ _ p H). destruct (connected b p); [|assumption].
    repeat split; cbn; intros; rewrite ?H1, ?H2, ?H3, ?H4, ?H5; reflexivity.
  - apply g_disconnect_req. assumption.
  - unfold g_create_topic. destruct q as [|[t|] c n]; try assumption.
    destruct (is_valid_name t); [|assumption].
    repeat split; cbn; intros; rewrite ?H1, ?H2, ?H3, ?H4, ?H5; reflexivity.
  - unfold g_delete_topic. destruct q as [|[t|] c n]; try assumption.
    destruct (is_valid_name t); [|assumption].
    repeat split; cbn; intros; rewrite ?H1, ?H2, ?H3, ?H4, ?H5; reflexivity.
  - unfold g_create_channel. destruct q as [|t c n]; try assumption.
    destruct (topic_channel_args t c) as [[t' c']|]; [|assumption].
    repeat split; cbn; intros; rewrite ?H1, ?H2, ?H3, ?H4, ?H5; reflexivity.
  - unfold g_delete_channel. destruct q as [|t c n]; try assumption.
    destruct (topic_channel_args t c) as [[t' c']|]; [|assumption].
    repeat split; cbn; intros; rewrite ?H1, ?H2, ?H3, ?H4, ?H5; reflexivity.
  - unfold g_tombstone. destruct q as [|[t|] c [node|]]; try assumption.
    destruct (is_valid_name t); [|assumption].
    repeat split; cbn; intros; rewrite ?H1, ?H2, ?H3, ?H4, ?H5; try reflexivity.
    destruct (Hx t p node) as [-> ->]. reflexivity.
  - repeat split; cbn; intros; rewrite ?H1, ?H2, ?H3, ?H4, ?H5; reflexivity.
Qed.

(* ------------------------------------------------------------------ the invariant *)
Lemma g_wf_req a b : req a b -> g_wf a -> g_wf b.
Proof.
  intros H Ha k q Hq. rewrite <- (connected_req _ _ q H). apply (Ha k).
  destruct H as (_ & _ & _ & H4 & _). rewrite H4. assumption.
Qed.

Lemma connected_app r p x c : connected (mkR (g_now r) (g_nodes r ++ [(x, c)]) (g_key r) (g_prod r) (g_tomb r)) p
                              = connected r p || N.eqb x p.
Proof.
  unfold connected. cbn. rewrite find_peer_app. destruct (find_peer p (g_nodes r)); cbn; [reflexivity|].
  destruct (N.eqb x p); reflexivity.
Qed.

Lemma g_wf_disconnect r p : g_wf r -> g_wf (g_disconnect r p).
Proof.
  intros H. unfold g_disconnect. destruct (connected r p) eqn:C; [|assumption].
  intros k q Hq. cbn in Hq. apply andb_true_iff in Hq as [Hq1 Hq2].
  unfold connected. cbn. rewrite find_peer_drop. apply negb_true_iff in Hq2. rewrite Hq2.
  apply (H k q Hq1).
Qed.

Lemma g_wf_step r o : g_wf r -> g_wf (g_step r o).
Proof.
  intros H. destruct o; cbn [g_step].
  - unfold g_identify. destruct (connected r p) eqn:C; [apply g_wf_disconnect; assumption|].
    destruct (fields_missing i); [assumption|].
    intros k q Hq. cbn in Hq. unfold connected. cbn. rewrite find_peer_app.
    apply orb_true_iff in Hq as [Hq|Hq].
    + apply andb_true_iff in Hq as [_ Hq]. apply N.eqb_eq in Hq. subst q.
      unfold connected in C. destruct (find_peer p (g_nodes r)); [discriminate|]. cbn. rewrite N.eqb_refl. reflexivity.
    + pose proof (H k q Hq) as Hc. unfold connected in Hc. destruct (find_peer q (g_nodes r)); [reflexivity|discriminate].
  - unfold g_register. destruct (connected r p) eqn:C; cbn [negb]; [|assumption].
    destruct (check_names t c); [apply g_wf_disconnect; assumption|].
    intros k q Hq. cbn in Hq. unfold connected. cbn. apply orb_true_iff in Hq as [Hq|Hq].
    + apply andb_true_iff in Hq as [_ Hq]. apply N.eqb_eq in Hq. subst q. exact C.
    + exact (H k q Hq).
  - unfold g_unregister. destruct (connected r p) eqn:C; cbn [negb]; [|assumption].
    destruct (check_names t c); [apply g_wf_disconnect; assumption|].
    destruct (nonempty c); intros k q Hq; cbn in Hq; unfold connected; cbn.
    + apply andb_true_iff in Hq as [Hq _]. exact (H k q Hq).
    + apply andb_true_iff in Hq as [Hq _]. apply andb_true_iff in Hq as [Hq _]. exact (H k q Hq).
  - unfold g_ping. destruct (connected r p); [|assumption].
    intros k q Hq. cbn in Hq. unfold connected. cbn. rewrite find_peer_set_last.
    pose proof (H k q Hq) as Hc. unfold connected in Hc. destruct (find_peer q (g_nodes r)); [reflexivity|discriminate].
  - apply g_wf_disconnect. assumption.
  - unfold g_create_topic. destruct q as [|[t|] c n]; try assumption.
    destruct (is_valid_name t); try assumption; intros k q Hq; exact (H k q Hq).
  - unfold g_delete_topic. destruct q as [|[t|] c n]; try assumption.
    destruct (is_valid_name t); [|assumption].
    intros k q Hq. cbn in Hq. apply andb_true_iff in Hq as [Hq _]. exact (H k q Hq).
  - unfold g_create_channel. destruct q as [|t c n]; try assumption.
    destruct (topic_channel_args t c) as [[t' c']|]; try assumption; intros k q Hq; exact (H k q Hq).
  - unfold g_delete_channel. destruct q as [|t c n]; try assumption.
    destruct (topic_channel_args t c) as [[t' c']|]; [|assumption].
    intros k q Hq. cbn in Hq. apply andb_true_iff in Hq as [Hq _]. exact (H k q Hq).
  - unfold g_tombstone. destruct q as [|[t|] c [node|]]; try assumption.
    destruct (is_valid_name t); try assumption; intros k q Hq; exact (H k q Hq).
  - intros k q Hq. exact (H k q Hq).
Qed.

Lemma wf_init : wf init.
Proof. intros k q H. discriminate. Qed.

(* a tombstone request, wildcard or not, never changes who is registered where *)
Lemma get_tombstone_in k0 id t m k :
  get k (tombstone_in k0 id t m) =
  if reg_eqb k0 k
  then option_map (map (fun pr => if N.eqb (p_id pr) id then mkProd (p_id pr) true t else pr)) (get k m)
  else get k m.
Proof. unfold tombstone_in. apply get_upd. Qed.

Lemma a_prod_fold_tombstone t (l : list (reg * producer)) : forall m k q,
  a_prod (fold_left (fun m (kp : reg * producer) => tombstone_in (fst kp) (p_id (snd kp)) t m) l m) k q = a_prod m k q.
Proof.
  induction l as [|[k0 pr0] l IH]; intros m k q; cbn [fold_left fst snd]; [reflexivity|].
  rewrite IH. unfold a_prod. rewrite get_tombstone_in. destruct (reg_eqb k0 k); [|reflexivity].
  destruct (get k m); cbn [option_map]; [|reflexivity]. apply has_prod_map_id.
  intros pr. destruct (N.eqb (p_id pr) (p_id pr0)); reflexivity.
Qed.

Lemma wf_step s o : wf s -> wf (fst (step s o)).
Proof.
  intros Hwf. apply (g_wf_req (g_step (abs s) o)).
  - apply req_sym. apply refine_step; assumption.
  - apply g_wf_step. assumption.
Qed.

Lemma wf_run h : forall s, wf s -> wf (run s h).
Proof.
  induction h as [|o h IH]; intros s H; [assumption|]. apply IH. apply wf_step. assumption.
Qed.

(* ------------------------------------------------------------------ every history *)
Theorem refine_run h : forall s r,
  wf s -> req (abs s) r -> req (abs (run s h)) (g_run r h).
Proof.
  induction h as [|o h IH]; intros s r Hwf Hreq; [assumption|].
  cbn [run g_run fold_left].
  apply IH; [apply wf_step; assumption|].
  eapply req_trans; [apply refine_step; assumption|]. apply g_step_req. assumption.
Qed.

Corollary refine_history h : req (abs (run init h)) (g_run g_init h).
Proof. apply refine_run; [apply wf_init|]. repeat split. Qed.
