(* C10: the argument table read from the answer back to the request.
   (1) whatever error token the model answers is TRUE of the request and the state
       (Http.token_justified) - so a request with valid, present arguments naming existing
       objects can not be refused with an argument error;
   (2) for the ten admin endpoints the documented precondition (Http.admin_precondition) is
       exactly the condition for 200.
   These are the model-side counterparts of the monitors J10.args_monitor and
   J10.admin_accept_monitor. *)
From Coq Require Import String List NArith ZArith Bool Lia.
From NSQV Require Import model.Judge model.Names model.Num model.Http proofs.NumProofs proofs.HttpProofs.
Import ListNotations.
Close Scope string_scope.
Open Scope Z_scope.

Definition just (c : cfg) (st : state) (r : request) (h : hres) : Prop :=
  token_justified c st r (snd (fst h)) = true.

Ltac tok_eval :=
  unfold just, token_justified; cbn [fst snd];
  match goal with |- context [arg_token_of ?t] =>
    let k := eval vm_compute in (arg_token_of t) in change (arg_token_of t) with k end;
  cbv beta iota zeta.

Ltac use_eqs :=
  repeat (match goal with
          | H : ?x = _ |- context [?x] => rewrite H
          end; cbn [qpairs orb andb negb]);
  try reflexivity; try apply orb_true_r.

Lemma just_topic_from_query : forall c st r e effs, topic_from_query r = inl e -> just c st r (e, effs).
Proof.
  intros c st r e effs. unfold topic_from_query.
  destruct (r_query r) eqn:Q; [destruct (qget k_topic pairs) eqn:QT; [destruct (is_valid_name b) eqn:V|]|];
    intro H; inversion H; subst; tok_eval; use_eqs.
Qed.

Lemma just_existing : forall c st r e effs, existing_topic_from_query st r = inl e -> just c st r (e, effs).
Proof.
  intros c st r e effs. unfold existing_topic_from_query, new_req_params, read_all.
  destruct (r_query r) eqn:Q; [destruct (r_body_err r) eqn:BE|].
  - intro H; inversion H; subst; tok_eval; use_eqs.
  - destruct (qget k_topic pairs) eqn:QT; [destruct (is_valid_name b) eqn:V; cbn [negb];
      [destruct (qget k_channel pairs) eqn:QC; [destruct (is_valid_name b0) eqn:VC; cbn [negb];
         [destruct (topic_exists st b) eqn:TX; cbn [negb]|]|]|]|];
      intro H; inversion H; subst; tok_eval; use_eqs.
  - intro H; inversion H; subst; tok_eval; use_eqs.
Qed.

Lemma just_ok : forall c st r s effs, just c st r ((s, []), effs).
Proof. intros. tok_eval. reflexivity. Qed.
Lemma just_OK : forall c st r s effs, just c st r ((s, str "OK"), effs).
Proof. intros. tok_eval. reflexivity. Qed.

Lemma read_limited_err : forall r n, read_limited r n = ReadErr -> r_body_err r = true.
Proof. intros r n. unfold read_limited. break; intro H; try discriminate; first [assumption | reflexivity]. Qed.

Lemma http_defer_invalid : forall c ds, 0 <= max_req c < max_i64 ->
  http_defer (max_req c) (parse_int ds) = DpubInvalid -> defer_documented c ds = false.
Proof.
  intros c ds Hr. rewrite (http_defer_spec (max_req c) (parse_int ds) Hr). unfold defer_documented.
  destruct (parse_int ds); [|reflexivity].
  destruct ((0 <=? z) && (z * ns_per_ms <=? max_req c)); [discriminate | reflexivity].
Qed.

Lemma just_do_pub : forall c st r, 0 <= max_req c < max_i64 -> just c st r (do_pub c r).
Proof.
  intros c st r Hr. unfold do_pub, herr.
  destruct (content_length r >? max_msg c); [tok_eval; reflexivity|].
  destruct (read_limited r (max_msg c + 1)) eqn:RL.
  2:{ apply read_limited_err in RL. tok_eval. rewrite RL. apply orb_true_r. }
  destruct (blen b =? max_msg c + 1); [tok_eval; reflexivity|].
  destruct (blen b =? 0); [tok_eval; reflexivity|].
  destruct (topic_from_query r) as [e|[ps t]] eqn:TQ; [eapply just_topic_from_query; exact TQ|].
  assert (Q : r_query r = QOk ps).
  { unfold topic_from_query in TQ. destruct (r_query r); [|discriminate].
    destruct (qget k_topic pairs); [|discriminate]. destruct (is_valid_name b0); inversion TQ. reflexivity. }
  destruct (qget k_defer ps) eqn:QD.
  - destruct (http_defer (max_req c) (parse_int b0)) eqn:HD.
    + apply (http_defer_invalid c b0 Hr) in HD. tok_eval. rewrite Q. cbn [qpairs]. rewrite QD, HD. reflexivity.
    + destruct (env_exiting c); tok_eval; reflexivity.
  - destruct (env_exiting c); tok_eval; reflexivity.
Qed.

Lemma text_loop_400 : forall segs mm rm err total acc tok,
  text_loop mm rm err segs total acc = TextErr 400 tok -> err = true.
Proof.
  induction segs as [|s rest IH]; intros mm rm err total acc tok; simpl.
  - discriminate.
  - destruct rest as [|s2 rest'].
    + destruct err; [reflexivity|]. break; intro H; inversion H.
    + break; intro H; try (inversion H; fail); eapply IH; eauto.
Qed.

Lemma just_do_mpub : forall c st r, just c st r (do_mpub c r).
Proof.
  intros c st r. unfold do_mpub, herr.
  destruct (content_length r >? max_body c); [tok_eval; reflexivity|].
  destruct (topic_from_query r) as [e|[ps t]] eqn:TQ; [eapply just_topic_from_query; exact TQ|].
  destruct (binary_mode ps).
  - destruct (read_mpub _ _ _) eqn:RM.
    + apply read_mpub_err in RM. destruct RM; subst; tok_eval; reflexivity.
    + destruct (env_exiting c); tok_eval; reflexivity.
  - destruct (text_mpub c r) eqn:TM.
    + destruct (env_exiting c); tok_eval; reflexivity.
    + unfold text_mpub in TM. pose proof TM as TM2. apply text_loop_err in TM2.
      destruct TM2 as [X|[X|X]]; inversion X; subst; try (tok_eval; reflexivity).
      apply text_loop_400 in TM. apply andb_true_iff in TM as [BE _].
      tok_eval. rewrite BE. apply orb_true_r.
Qed.

Lemma chan_exists_topic : forall st t ch, chan_exists st t ch = true -> topic_exists st t = true.
Proof. intros st t ch. unfold chan_exists, topic_exists. destruct (lookup t st); [reflexivity | discriminate]. Qed.

(* the successful part of getExistingTopicFromQuery *)
Lemma existing_ok : forall st r t ch, existing_topic_from_query st r = inr (t, ch) ->
  exists ps, r_query r = QOk ps /\ qget k_topic ps = Some t /\ qget k_channel ps = Some ch.
Proof.
  intros st r t ch. unfold existing_topic_from_query, new_req_params, read_all.
  destruct (r_query r) eqn:Q; [destruct (r_body_err r)|]; try discriminate.
  destruct (qget k_topic pairs) eqn:QT; [|discriminate]. destruct (is_valid_name b); [|discriminate]. cbn [negb].
  destruct (qget k_channel pairs) eqn:QC; [|discriminate]. destruct (is_valid_name b0); [|discriminate]. cbn [negb].
  destruct (topic_exists st b); [|discriminate]. cbn [negb]. intro H; inversion H; subst.
  exists pairs. auto.
Qed.

Ltac chan_not_found :=
  match goal with
  | E : existing_topic_from_query _ _ = inr (_, _), X : chan_exists _ _ _ = false |- _ =>
      apply existing_ok in E; destruct E as (ps & Q & QT & QC);
      tok_eval; rewrite Q; cbn [qpairs]; rewrite QT, QC, X; reflexivity
  end.

Lemma just_do_create_channel : forall c st r, just c st r (do_create_channel c st r).
Proof.
  intros. unfold do_create_channel. destruct (existing_topic_from_query st r) as [e|[t ch]] eqn:E.
  - eapply just_existing; exact E.
  - apply just_ok.
Qed.
Lemma just_do_empty_channel : forall c st r, just c st r (do_empty_channel c st r).
Proof.
  intros. unfold do_empty_channel, herr. destruct (existing_topic_from_query st r) as [e|[t ch]] eqn:E.
  - eapply just_existing; exact E.
  - destruct (chan_exists st t ch) eqn:X; cbn [negb]; [destruct (env_backend_ok c); tok_eval; reflexivity | chan_not_found].
Qed.
Lemma just_do_delete_channel : forall c st r, just c st r (do_delete_channel c st r).
Proof.
  intros. unfold do_delete_channel, herr. destruct (existing_topic_from_query st r) as [e|[t ch]] eqn:E.
  - eapply just_existing; exact E.
  - destruct (chan_exists st t ch) eqn:X; cbn [negb]; [apply just_ok | chan_not_found].
Qed.
Lemma just_do_pause_channel : forall c st r, just c st r (do_pause_channel c st r).
Proof.
  intros. unfold do_pause_channel, herr. destruct (existing_topic_from_query st r) as [e|[t ch]] eqn:E.
  - eapply just_existing; exact E.
  - destruct (chan_exists st t ch) eqn:X; cbn [negb]; [apply just_ok | chan_not_found].
Qed.

Lemma just_do_create_topic : forall c st r, just c st r (do_create_topic c r).
Proof.
  intros. unfold do_create_topic. destruct (topic_from_query r) as [e|[ps t]] eqn:TQ.
  - eapply just_topic_from_query; exact TQ.
  - apply just_ok.
Qed.

(* /topic/delete, /topic/empty, /topic/pause: NewReqParams, then the topic argument *)
Ltac topic_handler :=
  unfold new_req_params, read_all, herr;
  destruct (r_query _) as [pairs|partial] eqn:Q; [destruct (r_body_err _) eqn:BE|];
  [ tok_eval; use_eqs
  | destruct (qget k_topic pairs) eqn:QT;
    [ repeat match goal with |- context [negb ?b] => destruct b eqn:?; cbn [negb] end;
      try (tok_eval; use_eqs; fail)
    | tok_eval; use_eqs ]
  | tok_eval; use_eqs ].

Lemma just_do_delete_topic : forall c st r, just c st r (do_delete_topic c st r).
Proof. intros. unfold do_delete_topic. topic_handler. Qed.
Lemma just_do_pause_topic : forall c st r, just c st r (do_pause_topic c st r).
Proof. intros. unfold do_pause_topic. topic_handler. Qed.
Lemma just_do_empty_topic : forall c st r, just c st r (do_empty_topic c st r).
Proof. intros. unfold do_empty_topic. topic_handler. Qed.

Lemma just_do_stats : forall c st r, just c st r (do_stats c r).
Proof.
  intros. unfold do_stats, new_req_params, read_all, herr.
  destruct (r_query r) eqn:Q; [destruct (r_body_err r) eqn:BE|]; tok_eval; use_eqs.
Qed.

Lemma read_limited_ok : forall r mm b, 0 <= mm -> read_limited r (mm + 1) = ReadOk b ->
  (blen b = mm + 1 /\ mm < blen (r_body r)) \/ (b = r_body r /\ blen b < mm + 1).
Proof.
  intros r mm b Hm. unfold read_limited.
  destruct (mm + 1 <=? blen (r_body r)) eqn:L.
  - intro H; inversion H; subst. left. rewrite blen_firstn by lia. lia.
  - destruct (r_body_err r); [discriminate|]. intro H; inversion H; subst. right. split; [reflexivity | lia].
Qed.

Lemma just_do_config : forall c st rt r, 0 <= max_msg c -> length (rt_path rt) = 8%nat ->
  just c st r (do_config c rt r).
Proof.
  intros c st rt r Hm L. unfold do_config, herr.
  assert (PV : param_value rt (r_path r) = config_opt r) by (unfold param_value, config_opt; rewrite L; reflexivity).
  rewrite PV.
  destruct (method_eqb (r_method r) MPut) eqn:MP.
  - destruct (read_limited r (max_msg c + 1)) eqn:RL.
    2:{ apply read_limited_err in RL. tok_eval. rewrite RL. apply orb_true_r. }
    apply (read_limited_ok r (max_msg c) b Hm) in RL.
    destruct ((blen b =? max_msg c + 1) || (blen b =? 0)) eqn:SZ.
    + tok_eval. rewrite MP. cbn [andb].
      destruct RL as [[E1 E2]|[E1 E2]].
      * replace (max_msg c <? blen (r_body r)) with true by lia. rewrite orb_true_r. reflexivity.
      * subst b. apply orb_true_iff in SZ. destruct SZ as [SZ|SZ]; [lia|]. rewrite SZ. reflexivity.
    + assert (B : b = r_body r).
      { destruct RL as [[E1 _]|[E1 _]]; [|exact E1]. apply orb_false_iff in SZ. destruct SZ as [SZ _]. lia. }
      subst b.
      destruct (bytes_eqb (config_opt r) opt_lookupd) eqn:OL.
      * destruct (r_json_ok r) eqn:JS.
        -- destruct (existsb (bytes_eqb (config_opt r)) (cfg_names c)) eqn:EX; tok_eval; [reflexivity|]. rewrite EX. reflexivity.
        -- tok_eval. rewrite MP, OL, JS. cbn [andb negb]. rewrite !orb_true_r. reflexivity.
      * destruct (bytes_eqb (config_opt r) opt_log_level) eqn:LL.
        -- destruct (log_level_ok (r_body r)) eqn:LV.
           ++ destruct (existsb (bytes_eqb (config_opt r)) (cfg_names c)) eqn:EX; tok_eval; [reflexivity|]. rewrite EX. reflexivity.
           ++ tok_eval. rewrite MP, OL, LL, LV. cbn [andb negb orb]. rewrite !orb_true_r. reflexivity.
        -- tok_eval. rewrite MP, OL, LL. cbn [andb negb orb]. apply orb_true_r.
  - destruct (existsb (bytes_eqb (config_opt r)) (cfg_names c)) eqn:EX; tok_eval; [reflexivity|]. rewrite EX. reflexivity.
Qed.

Lemma routes_config_len :
  forallb (fun rt => match rt_handler rt with HConfig => Nat.eqb (length (rt_path rt)) 8 | _ => true end) routes = true.
Proof. vm_compute. reflexivity. Qed.

Lemma just_run_handler : forall c st rt r, 0 <= max_msg c -> 0 <= max_req c < max_i64 -> In rt routes ->
  match fst (run_handler c st rt r) with
  | Resp s tok => token_justified c st r tok = true
  | Pass => True
  end.
Proof.
  intros c st rt r Hm Hr Hin.
  pose proof routes_config_len as CL. rewrite forallb_forall in CL. specialize (CL rt Hin).
  unfold run_handler. destruct (rt_handler rt); cbn [fst]; try exact I.
  - unfold do_ping. destruct (env_healthy c); tok_eval; reflexivity.
  - unfold do_info. destruct (env_hostname_ok c); tok_eval; reflexivity.
  - apply just_do_pub; exact Hr.
  - apply just_do_mpub.
  - apply just_do_stats.
  - apply just_do_create_topic.
  - apply just_do_delete_topic.
  - apply just_do_empty_topic.
  - apply just_do_pause_topic.
  - apply just_do_create_channel.
  - apply just_do_delete_channel.
  - apply just_do_empty_channel.
  - apply just_do_pause_channel.
  - apply just_do_config; [exact Hm | apply Nat.eqb_eq; exact CL].
  - unfold do_set_block_rate.
    destruct (parse_int _) eqn:PI; tok_eval; [reflexivity|].
    unfold qpairs. rewrite PI. reflexivity.
  - tok_eval; reflexivity.
Qed.

(* every answer of the model, to any request in any state: its error token is true of the
   request.  (403 TLS_REQUIRED, 404 NOT_FOUND, 405 METHOD_NOT_ALLOWED, the size tokens and
   the /config tokens make no claim about topic / channel / defer arguments.) *)
Theorem error_tokens_justified : forall c st r, 0 <= max_msg c -> 0 <= max_req c < max_i64 ->
  match fst (serve c st r) with
  | Resp s tok => token_justified c st r tok = true
  | Pass => True
  end.
Proof.
  intros c st r Hm Hr. unfold serve.
  destruct (tls_gate c); [cbn [fst]; tok_eval; reflexivity|].
  destruct (route_request (r_method r) (r_path r)) eqn:R; cbn [fst]; try (tok_eval; reflexivity).
  apply route_request_handle_in in R as [Hin _].
  apply just_run_handler; assumption.
Qed.

(* ... in particular: present and valid names are never refused as invalid or missing, an
   existing topic / channel is never "not found", an in-range defer is never INVALID_DEFER *)
Theorem valid_names_not_refused : forall c st r ps t s tok,
  0 <= max_msg c -> 0 <= max_req c < max_i64 -> r_query r = QOk ps -> qget k_topic ps = Some t -> is_valid_name t = true ->
  fst (serve c st r) = Resp s tok ->
  tok <> str "INVALID_TOPIC" /\ tok <> str "INVALID_ARG_TOPIC" /\ tok <> str "MISSING_ARG_TOPIC" /\
  (forall ch, qget k_channel ps = Some ch -> is_valid_name ch = true ->
     tok <> str "INVALID_ARG_CHANNEL" /\ tok <> str "MISSING_ARG_CHANNEL").
Proof.
  intros c st r ps t s tok Hm Hr Q QT V S.
  pose proof (error_tokens_justified c st r Hm Hr) as J. rewrite S in J.
  assert (K : forall x, tok = x -> token_justified c st r x = true) by (intros x E; rewrite <- E; exact J).
  split; [|split; [|split; [|intros ch QC VC; split]]]; intro X; specialize (K _ X); revert K; tok_eval;
    rewrite Q; cbn [qpairs]; rewrite ?QT, ?V, ?QC, ?VC; cbv beta iota; cbn [negb]; discriminate.
Qed.

(* ------------------------------------------------------------------ the admin preconditions are exact *)
(* a missing channel "exists" nowhere *)
Lemma chan_exists_false_no_topic : forall st t ch, topic_exists st t = false -> chan_exists st t ch = false.
Proof. intros st t ch. unfold chan_exists, topic_exists. destruct (lookup t st); [discriminate | reflexivity]. Qed.

Ltac ap_rewrites :=
  repeat match goal with
  | H : topic_exists ?st ?t = false |- context [chan_exists ?st ?t ?ch] => rewrite (chan_exists_false_no_topic st t ch H)
  | H : chan_exists ?st ?t ?ch = true |- context [topic_exists ?st ?t] => rewrite (chan_exists_topic st t ch H)
  | H : ?x = _ |- context [?x] => rewrite H
  end; cbn [andb].
Ltac ap_core :=
  eexists; split;
  [ reflexivity
  | do 2 eexists; split;
    [ cbn [fst snd]; reflexivity
    | ap_rewrites; split; intro; first [reflexivity | discriminate] ] ].
Ltac ap_chan :=
  try match goal with |- context [admin_precondition _ _ _ (qget k_channel ?ps)] => destruct (qget k_channel ps) eqn:? end.
Ltac ap_finish := negb_hyps; ap_chan; ap_core.

(* C10_admin_precondition: on each of the ten endpoints a well-formed POST is answered 200
   exactly when the documented precondition holds of its (first) topic / channel argument *)
Theorem admin_precondition_exact : forall c st r p op ps,
  tls_gate c = false -> healthy_env c -> In (p, op) admin_paths ->
  r_method r = MPost -> r_path r = str p -> r_query r = QOk ps -> r_body_err r = false ->
  exists b : bool, admin_precondition (str p) st (qget k_topic ps) (qget k_channel ps) = Some b /\
    exists s tok, fst (serve c st r) = Resp s tok /\ (s = 200 <-> b = true).
Proof.
  intros c st r p op ps T (_ & _ & Hbk & _) Hin M P Q BE.
  unfold admin_paths in Hin. cbn [In] in Hin.
  repeat match type of Hin with
  | _ \/ _ => destruct Hin as [Hin|Hin]
  end; try contradiction; inversion Hin; subst p op; clear Hin.
  - rewrite (serve_at c st r (rt_static MPost "/topic/create" HCreateTopic) T) by (rewrite M, P; vm_compute; reflexivity).
    unfold run_handler. cbn [rt_handler rt_static]. unfold do_create_topic, topic_from_query. rewrite Q, ?BE. 
    break_inner; ap_finish.
  - rewrite (serve_at c st r (rt_static MPost "/topic/delete" HDeleteTopic) T) by (rewrite M, P; vm_compute; reflexivity).
    unfold run_handler. cbn [rt_handler rt_static]. unfold do_delete_topic, new_req_params, read_all, herr. rewrite Q, ?BE. 
    break_inner; ap_finish.
  - rewrite (serve_at c st r (rt_static MPost "/topic/empty" HEmptyTopic) T) by (rewrite M, P; vm_compute; reflexivity).
    unfold run_handler. cbn [rt_handler rt_static]. unfold do_empty_topic, new_req_params, read_all, herr. rewrite Q, ?BE. rewrite Hbk; cbn [negb];
    break_inner; ap_finish.
  - rewrite (serve_at c st r (rt_static MPost "/topic/pause" HPauseTopic) T) by (rewrite M, P; vm_compute; reflexivity).
    unfold run_handler. cbn [rt_handler rt_static]. unfold do_pause_topic, new_req_params, read_all, herr. rewrite Q, ?BE. 
    break_inner; ap_finish.
  - rewrite (serve_at c st r (rt_static MPost "/topic/unpause" HPauseTopic) T) by (rewrite M, P; vm_compute; reflexivity).
    unfold run_handler. cbn [rt_handler rt_static]. unfold do_pause_topic, new_req_params, read_all, herr. rewrite Q, ?BE. 
    break_inner; ap_finish.
  - rewrite (serve_at c st r (rt_static MPost "/channel/create" HCreateChannel) T) by (rewrite M, P; vm_compute; reflexivity).
    unfold run_handler. cbn [rt_handler rt_static]. unfold do_create_channel, existing_topic_from_query, new_req_params, read_all, herr. rewrite Q, ?BE. 
    break_inner; ap_finish.
  - rewrite (serve_at c st r (rt_static MPost "/channel/delete" HDeleteChannel) T) by (rewrite M, P; vm_compute; reflexivity).
    unfold run_handler. cbn [rt_handler rt_static]. unfold do_delete_channel, existing_topic_from_query, new_req_params, read_all, herr. rewrite Q, ?BE. 
    break_inner; ap_finish.
  - rewrite (serve_at c st r (rt_static MPost "/channel/empty" HEmptyChannel) T) by (rewrite M, P; vm_compute; reflexivity).
    unfold run_handler. cbn [rt_handler rt_static]. unfold do_empty_channel, existing_topic_from_query, new_req_params, read_all, herr. rewrite Q, ?BE. rewrite Hbk; cbn [negb];
    break_inner; ap_finish.
  - rewrite (serve_at c st r (rt_static MPost "/channel/pause" HPauseChannel) T) by (rewrite M, P; vm_compute; reflexivity).
    unfold run_handler. cbn [rt_handler rt_static]. unfold do_pause_channel, existing_topic_from_query, new_req_params, read_all, herr. rewrite Q, ?BE. 
    break_inner; ap_finish.
  - rewrite (serve_at c st r (rt_static MPost "/channel/unpause" HPauseChannel) T) by (rewrite M, P; vm_compute; reflexivity).
    unfold run_handler. cbn [rt_handler rt_static]. unfold do_pause_channel, existing_topic_from_query, new_req_params, read_all, herr. rewrite Q, ?BE. 
    break_inner; ap_finish.
Qed.

(* ------------------------------------------------------------------ a publish within every documented limit is accepted *)
Theorem pub_valid_accepted : forall c st r ps name body,
  tls_gate c = false -> env_exiting c = false -> 0 <= max_msg c -> 0 <= max_req c < max_i64 ->
  r_method r = MPost -> r_path r = str "/pub" -> r_query r = QOk ps -> complete_body r body ->
  1 <= blen body <= max_msg c -> qget k_topic ps = Some name -> is_valid_name name = true ->
  match qget k_defer ps with Some ds => defer_documented c ds = true | None => True end ->
  exists d, serve c st r = (Resp 200 OKb, [ECreateTopic name; EEnqueue name [body] d]).
Proof.
  intros c st r ps name body T Hex Hm Hr M P Q CB HB QT V D.
  rewrite (serve_at c st r (rt_static MPost "/pub" HPub) T) by (rewrite M, P; exact rr_pub).
  unfold run_handler. cbn [rt_handler rt_static].
  rewrite (do_pub_spec c r body Hm CB), (topic_from_query_ok r ps name Q QT), V, Hex.
  replace (blen body >? max_msg c) with false by lia. replace (blen body =? 0) with false by lia.
  destruct (qget k_defer ps) as [ds|].
  - rewrite (http_defer_spec (max_req c) (parse_int ds) Hr). unfold defer_documented in D.
    destruct (parse_int ds) as [di|]; [|discriminate]. rewrite D. eexists. reflexivity.
  - eexists. reflexivity.
Qed.
