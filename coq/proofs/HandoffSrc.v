(* The lock protocol of model/Handoff.v, read off the statement skeletons that are regenerated
   from /repo's source on every run (gen/CoreShape.v): which functions are movers that follow
   the protocol, and what the closers' programs are, path by path.  Everything here is
   computed from the generated token lists; a source change that drops a lock, takes the
   read lock where the write lock is needed, moves the flush before the lock, or touches a
   message before the flag check makes one of these lemmas false. *)
From Coq Require Import List String Bool Arith.
From NSQV Require Import model.Handoff gen.CoreShape.
Import ListNotations.
Open Scope string_scope.

Definition last_char (t : string) : string := substring (String.length t - 1) 1 t.
Definition opens (t : string) : bool := last_char t =? "{".
Definition is_close (t : string) : bool := t =? "}".
Definition is_else (t : string) : bool := t =? "} else {".

(* the block that starts here (its opening token already consumed): its tokens, the token
   that closed it, and what follows *)
Fixpoint take_block (depth : nat) (l : list string) : list string * option string * list string :=
  match l with
  | [] => ([], None, [])
  | t :: r =>
      if is_close t || is_else t then
        match depth with
        | O => ([], Some t, r)
        | S d => let '(b, c, rest) := take_block (if is_else t then depth else d) r in (t :: b, c, rest)
        end
      else let '(b, c, rest) := take_block (if opens t then S depth else depth) r in (t :: b, c, rest)
  end.

(* the tokens of a block that are not nested in an inner block *)
Fixpoint top_level (depth : nat) (l : list string) : list string :=
  match l with
  | [] => []
  | t :: r =>
      if is_close t then top_level (pred depth) r
      else if is_else t then top_level depth r
      else if opens t then (match depth with O => [t] | _ => [] end) ++ top_level (S depth) r
      else (match depth with O => [t] | _ => [] end) ++ top_level depth r
  end.
Definition returns (blk : list string) : bool := existsb (String.eqb "return") (top_level 0 blk).

(* the statements executed for a given value of the `deleted` argument *)
Fixpoint path (fuel : nat) (del : bool) (l : list string) : list string :=
  match fuel with
  | O => []
  | S f =>
      match l with
      | [] => []
      | t :: r =>
          if t =? "if deleted {" then
            let '(blk, c, rest) := take_block 0 r in
            let '(eblk, rest') := match c with
                                  | Some cl => if is_else cl then let '(e, _, r2) := take_block 0 rest in (e, r2) else ([], rest)
                                  | None => ([], rest)
                                  end in
            let chosen := if del then blk else eblk in
            if returns chosen then path f del chosen else path f del (chosen ++ rest')
          else t :: path f del r
      end
  end.
Definition path_of (del : bool) (sh : list string) : list string := path (S (List.length sh)) del sh.

(* a closer's program: its lock / flag / flush / discard statements in order, deferred unlocks last *)
Section Closer.
  Variables (lock flagcall flushcall discardcall : string).
  Definition instr_of (tok : string) : list finstr :=
    if tok =? "call " ++ lock ++ ".Lock" then [FLock WMode]
    else if tok =? "call " ++ lock ++ ".RLock" then [FLock RMode]
    else if tok =? "call " ++ lock ++ ".Unlock" then [FUnlock WMode]
    else if tok =? "call " ++ lock ++ ".RUnlock" then [FUnlock RMode]
    else if tok =? "call " ++ flagcall then [FSetFlag]
    else if tok =? "call " ++ flushcall then [FFlush]
    else if tok =? "call " ++ discardcall then [FDiscard]
    else [].
  Definition deferred_of (tok : string) : list finstr :=
    if tok =? "defer " ++ lock ++ ".Unlock" then [FUnlock WMode]
    else if tok =? "defer " ++ lock ++ ".RUnlock" then [FUnlock RMode]
    else [].
  Definition closer_prog (stmts : list string) : list finstr :=
    flat_map instr_of stmts ++ flat_map deferred_of stmts.
End Closer.

(* a mover that follows the protocol: the read lock first, its release deferred, then the
   flag check whose block leaves the function, and nothing else before the check *)
Definition mover_locked (lock evalcall check : string) (sh : list string) : bool :=
  match sh with
  | a :: b :: c :: d :: after =>
      (a =? "call " ++ lock ++ ".RLock") && (b =? "defer " ++ lock ++ ".RUnlock")
      && (c =? "call " ++ evalcall) && (d =? "if " ++ check ++ " {")
      && let '(blk, _, _) := take_block 0 after in returns blk
  | _ => false
  end.

Definition topic_mover := mover_locked "t" "atomic.LoadInt32" "atomic.LoadInt32(&t.exitFlag) == 1".
Definition channel_mover := mover_locked "c.exitMutex" "c.Exiting" "c.Exiting()".
Definition topic_closer := closer_prog "t" "atomic.CompareAndSwapInt32" "t.flush" "t.Empty".
Definition channel_closer := closer_prog "c.exitMutex" "atomic.CompareAndSwapInt32" "c.flush" "c.empty".

(* ---- movers ---- *)
Lemma src_topic_publishers_locked :
  topic_mover shape_Topic_PutMessage = true /\ topic_mover shape_Topic_PutMessages = true.
Proof. split; vm_compute; reflexivity. Qed.

Lemma src_channel_movers_locked :
  channel_mover shape_Channel_RequeueMessage = true /\
  channel_mover shape_Channel_TouchMessage = true /\
  channel_mover shape_Channel_processInFlightQueue = true /\
  channel_mover shape_Channel_processDeferredQueue = true /\
  channel_mover shape_Channel_PutMessage = true.
Proof. repeat split; vm_compute; reflexivity. Qed.

(* K3: the hand-off from the channel's queue to the in-flight set (the consumer pump's
   StartInFlightTimeout after its receive) is NOT under the protocol *)
Lemma src_consumer_pump_bare : channel_mover shape_Channel_StartInFlightTimeout = false.
Proof. vm_compute. reflexivity. Qed.

(* ---- closers, path by path ---- *)
Lemma src_topic_close_prog : topic_closer (path_of false shape_Topic_exit) = topic_exit_prog WMode.
Proof. vm_compute. reflexivity. Qed.
Lemma src_topic_delete_prog : topic_closer (path_of true shape_Topic_exit) = [FSetFlag; FLock WMode; FUnlock WMode; FDiscard].
Proof. vm_compute. reflexivity. Qed.
Lemma src_channel_close_prog : channel_closer (path_of false shape_Channel_exit) = channel_exit_prog WMode.
Proof. vm_compute. reflexivity. Qed.
Lemma src_channel_delete_prog : channel_closer (path_of true shape_Channel_exit) = [FLock WMode; FSetFlag; FDiscard; FUnlock WMode].
Proof. vm_compute. reflexivity. Qed.
Lemma src_channel_empty_prog : channel_closer (path_of false shape_Channel_Empty) = channel_empty_prog WMode.
Proof. vm_compute. reflexivity. Qed.

Lemma src_closers_in_order :
  ok_prog (topic_closer (path_of false shape_Topic_exit)) = true /\
  ok_prog (topic_closer (path_of true shape_Topic_exit)) = true /\
  ok_prog (channel_closer (path_of false shape_Channel_exit)) = true /\
  ok_prog (channel_closer (path_of true shape_Channel_exit)) = true /\
  ok_prog (channel_closer (path_of false shape_Channel_Empty)) = true.
Proof. repeat split; vm_compute; reflexivity. Qed.

(* ---- nobody else moves messages ----
   gen/CoreShape.v's core_touches lists EVERY function of package nsqd that calls one of the
   pop / push / put primitives.  Every one that both pops and pushes is a protocol mover
   (checked above); the rest are: the publish entry points (movers, above), the primitives'
   own wrappers, the closers' flushes, FIN (pops and keeps: the message is finished), the two
   pumps, and StartInFlightTimeout / PutMessageDeferred, which push without the lock - the
   first is K3, the second is only called by the topic pump, which Topic.exit waits for before
   it closes the channels. *)
Definition mem_s (x : string) (l : list string) : bool := existsb (String.eqb x) l.
Definition pops_of (calls : list string) : bool :=
  existsb (fun c => mem_s c ["popInFlightMessage"; "popDeferredMessage"]) calls.
Definition pushes_of (calls : list string) : bool :=
  existsb (fun c => mem_s c ["pushInFlightMessage"; "pushDeferredMessage"; "addToInFlightPQ"; "addToDeferredPQ";
                             "put"; "StartDeferredTimeout"; "StartInFlightTimeout"]) calls.
Definition shape_named (n : string) : list string :=
  match find (fun e => fst e =? n) core_shapes with Some e => snd e | None => [] end.

Lemma src_every_pop_and_push_is_a_protocol_mover :
  forallb (fun e => negb (pops_of (snd e) && pushes_of (snd e)) || channel_mover (shape_named (fst e))) core_touches = true.
Proof. vm_compute. reflexivity. Qed.

Definition expected_touchers : list string :=
  [ "Channel_FinishMessage"; "Channel_PutMessage"; "Channel_PutMessageDeferred"; "Channel_RequeueMessage";
    "Channel_StartDeferredTimeout"; "Channel_StartInFlightTimeout"; "Channel_TouchMessage"; "Channel_flush";
    "Channel_processDeferredQueue"; "Channel_processInFlightQueue"; "Channel_put";
    "Topic_PutMessage"; "Topic_PutMessages"; "Topic_flush"; "Topic_messagePump"; "Topic_put";
    "httpServer_doMPUB"; "httpServer_doPUB"; "protocolV2_DPUB"; "protocolV2_MPUB"; "protocolV2_PUB";
    "protocolV2_messagePump" ].
Lemma src_who_touches_messages : map fst core_touches = expected_touchers.
Proof. vm_compute. reflexivity. Qed.

(* ---- the same protocol guards the consumer list ----
   A SUB in progress (Channel.AddClient) is a mover whose "message" is the consumer's
   registration: it comes from outside and is acknowledged (SUB answered OK) after it is put
   into the channel's client list; what the closer "flushes" is that list - Channel.exit
   closes every consumer it finds there.  So a subscriber is either refused or closed with
   the rest, never left attached to a dead channel. *)
Definition channel_closer_clients := closer_prog "c.exitMutex" "atomic.CompareAndSwapInt32" "client.Close" "-".

Lemma src_addclient_locked : channel_mover shape_Channel_AddClient = true.
Proof. vm_compute. reflexivity. Qed.

Lemma src_channel_exit_closes_clients_in_order :
  channel_closer_clients (path_of false shape_Channel_exit) = channel_exit_prog WMode /\
  channel_closer_clients (path_of true shape_Channel_exit) = channel_exit_prog WMode.
Proof. split; vm_compute; reflexivity. Qed.
