(* Proofs about model/Meta.v (C06). *)
From Coq Require Import List NArith Bool Arith Lia.
From NSQV Require Import model.Judge model.Names model.Meta.
Import ListNotations.
Open Scope nat_scope.
Open Scope bool_scope.

Lemma persist_ops_shape : forall tmp,
  persist_ops tmp = [FOpen tmp; FWrite tmp; FFsync tmp; FClose tmp; FRename tmp].
Proof. reflexivity. Qed.
