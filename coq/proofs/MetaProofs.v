(* Proofs about model/Meta.v (C06): invariants of every schedule. *)
From Coq Require Import List NArith Bool Arith Lia.
From NSQV Require Import model.Judge model.Names model.MetaSrc model.Meta.
Import ListNotations.
Open Scope nat_scope.
Open Scope bool_scope.

(* ------------------------------------------------------------------ names *)
Lemma list_eqb_N_eq : forall a b : list N, list_eqb N.eqb a b = true <-> a = b.
Proof.
  induction a as [|x a IH]; destruct b as [|y b]; cbn; split; intro H; try reflexivity; try discriminate.
  - apply andb_true_iff in H. destruct H as [H1 H2]. apply N.eqb_eq in H1. apply IH in H2. congruence.
  - inversion H; subst. rewrite N.eqb_refl. cbn. apply IH. reflexivity.
Qed.

Lemma name_eqb_eq : forall a b, name_eqb a b = true <-> a = b.
Proof. intros. unfold name_eqb, bytes_eqb. apply list_eqb_N_eq. Qed.

Lemma name_eqb_refl : forall a, name_eqb a a = true.
Proof. intros. apply name_eqb_eq. reflexivity. Qed.

Lemma name_eqb_neq : forall a b, name_eqb a b = false <-> a <> b.
Proof.
  intros. split; intro H.
  - intro E. apply name_eqb_eq in E. congruence.
  - destruct (name_eqb a b) eqn:E; [apply name_eqb_eq in E; contradiction|reflexivity].
Qed.

Lemma is_topic_spec : forall g n t, is_topic g n t = true <-> t_id t = g /\ t_name t = n.
Proof.
  intros. unfold is_topic. rewrite andb_true_iff, N.eqb_eq, name_eqb_eq. tauto.
Qed.

(* ------------------------------------------------------------------ the model follows the source *)
(* gen/MetaShape.v says the deletions persist again after the map removal, so [step] is
   the post-fix behaviour; this is the proof obligation a revert of that fix breaks *)
Lemma pad_src_true : pad_src = true.
Proof. vm_compute. reflexivity. Qed.
Lemma step_fixed : step = step_ true.
Proof. unfold step. rewrite pad_src_true. reflexivity. Qed.
Lemma shape_ok_true : shape_ok = true.
Proof. vm_compute. reflexivity. Qed.

(* ------------------------------------------------------------------ schedules *)
Lemma run_app : forall a b s, run s (a ++ b) = run (run s a) b.
Proof. intros. unfold run. apply fold_left_app. Qed.

Lemma run_snoc : forall a e s, run s (a ++ [e]) = step (run s a) e.
Proof. intros. rewrite run_app. reflexivity. Qed.

Lemma run_invariant (P : st -> Prop) :
  (forall s e, P s -> P (step s e)) -> forall evs s, P s -> P (run s evs).
Proof.
  intros Hs evs. induction evs as [|e r IH]; intros s H; cbn; [assumption|].
  apply IH. apply Hs. assumption.
Qed.

(* ------------------------------------------------------------------ live-state helpers *)
Definition idname (t : topic) : N * name := (t_id t, t_name t).
Definition keeps_idname (f : topic -> topic) : Prop := forall t, t_id (f t) = t_id t /\ t_name (f t) = t_name t.

Lemma keeps_set_chans : forall cs, keeps_idname (set_chans cs).
Proof. intros cs t. split; reflexivity. Qed.
Lemma keeps_set_chans_f : forall (h : topic -> list chan), keeps_idname (fun t => set_chans (h t) t).
Proof. intros h t. split; reflexivity. Qed.
Lemma keeps_set_tpaused : forall b, keeps_idname (set_tpaused b).
Proof. intros b t. split; reflexivity. Qed.
Lemma keeps_set_texiting : keeps_idname set_texiting.
Proof. intros t. split; reflexivity. Qed.

Lemma keep_topic_f : forall f t, keeps_idname f -> keep_topic (f t) = keep_topic t.
Proof. intros f t H. unfold keep_topic. destruct (H t) as [_ ->]. reflexivity. Qed.

Lemma is_topic_f : forall f g n t, keeps_idname f -> is_topic g n (f t) = is_topic g n t.
Proof. intros f g n t H. unfold is_topic. destruct (H t) as [-> ->]. reflexivity. Qed.

Lemma filter_map_comm {A} (p : A -> bool) (F : A -> A) (l : list A) :
  (forall x, p (F x) = p x) -> filter p (map F l) = map F (filter p l).
Proof.
  intros H. induction l as [|x l IH]; cbn; [reflexivity|].
  rewrite H. destruct (p x); cbn; rewrite IH; reflexivity.
Qed.

Lemma upd_topic_filter : forall g n f l, keeps_idname f ->
  filter keep_topic (upd_topic g n f l) = upd_topic g n f (filter keep_topic l).
Proof.
  intros. unfold upd_topic. apply filter_map_comm. intros t.
  destruct (is_topic g n t); [apply keep_topic_f; assumption|reflexivity].
Qed.

Lemma idname_upd : forall g n f l, keeps_idname f ->
  map idname (filter keep_topic (upd_topic g n f l)) = map idname (filter keep_topic l).
Proof.
  intros. rewrite upd_topic_filter by assumption. unfold upd_topic. rewrite map_map.
  apply map_ext. intros t. destruct (is_topic g n t); [|reflexivity].
  unfold idname. destruct (H t) as [-> ->]. reflexivity.
Qed.

Lemma get_topic_upd : forall g n f g' n' l, keeps_idname f ->
  get_topic g' n' (upd_topic g n f l) =
  option_map (fun t => if is_topic g n t then f t else t) (get_topic g' n' l).
Proof.
  intros. unfold get_topic, upd_topic. induction l as [|t l IH]; cbn; [reflexivity|].
  assert (E : is_topic g' n' (if is_topic g n t then f t else t) = is_topic g' n' t).
  { destruct (is_topic g n t); [apply is_topic_f; assumption|reflexivity]. }
  rewrite E. destruct (is_topic g' n' t); [reflexivity|apply IH].
Qed.

Lemma get_topic_some : forall g n l t, get_topic g n l = Some t -> In t l /\ t_id t = g /\ t_name t = n.
Proof.
  intros. unfold get_topic in H. apply find_some in H. destruct H as [H1 H2].
  apply is_topic_spec in H2. tauto.
Qed.

Lemma get_topic_in : forall l t, In t l -> exists t', get_topic (t_id t) (t_name t) l = Some t'.
Proof.
  intros. unfold get_topic. destruct (find (is_topic (t_id t) (t_name t)) l) eqn:E; [eauto|].
  exfalso. eapply find_none in E; [|exact H]. assert (is_topic (t_id t) (t_name t) t = true) by (apply is_topic_spec; auto).
  congruence.
Qed.

(* ------------------------------------------------------------------ files *)
Lemma lookup_upsert_same : forall k v m, lookup k (upsert k v m) = Some v.
Proof.
  induction m as [|[k' v'] m IH]; cbn.
  - rewrite N.eqb_refl. reflexivity.
  - destruct (N.eqb k' k) eqn:E; cbn.
    + rewrite N.eqb_refl. reflexivity.
    + rewrite E. exact IH.
Qed.

(* ------------------------------------------------------------------ C06_atomic: the file invariant *)
Definition entry_from (H : list live) (e : dtopic) : Prop :=
  exists L t, In L H /\ In t L /\ keep_topic t = true /\ e = snap_topic t.
Definition from_hist (H : list live) (d : doc) : Prop :=
  (exists L, In L H /\ map dt_name d = map t_name (filter keep_topic L)) /\
  (forall e, In e d -> entry_from H e).

Lemma entry_from_mono : forall H x e, entry_from H e -> entry_from (x :: H) e.
Proof. intros H x e (L & t & ? & ? & ? & ?). exists L, t. cbn. auto. Qed.
Lemma from_hist_mono : forall H x d, from_hist H d -> from_hist (x :: H) d.
Proof.
  intros H x d [(L & HL & E) F]. split.
  - exists L. cbn. auto.
  - intros e He. apply entry_from_mono. auto.
Qed.

Definition job_ok (s : st) (j : job) : Prop :=
  match j_phase j with
  | PSnap =>
      map fst (j_slots j) = map idname (filter keep_topic (live_ s)) /\
      (forall g n e, In (g, n, Some e) (j_slots j) -> dt_name e = n /\ entry_from (hist s) e)
  | PWrite =>
      exists c, lookup (j_tmp j) (tmps (fs s)) = Some c /\ f_doc c = j_doc j /\ from_hist (hist s) (j_doc j)
  | PFsync =>
      exists c, lookup (j_tmp j) (tmps (fs s)) = Some c /\ f_doc c = j_doc j /\ complete c = true /\
                from_hist (hist s) (j_doc j)
  | PClose | PRename =>
      exists c, lookup (j_tmp j) (tmps (fs s)) = Some c /\ f_doc c = j_doc j /\ complete c = true /\
                f_synced c = true /\ from_hist (hist s) (j_doc j)
  end.

Definition dat_ok (s : st) : Prop :=
  forall c, dat (fs s) = Some c -> complete c = true /\ f_synced c = true /\ from_hist (hist s) (f_doc c).

Record Inv1 (s : st) : Prop := {
  i1_broken : broken s = false;
  i1_hist : up s = true -> exists r, hist s = live_ s :: r;
  i1_dat : dat_ok s;
  i1_job : forall j, lock s = Some j -> up s = true /\ job_ok s j;
  i1_down : up s = false -> lock s = None /\ threads s = [] /\ pending s = 0
}.

Lemma Inv1_init : Inv1 init.
Proof.
  constructor; cbn; try reflexivity; try discriminate; auto.
Qed.

(* what one micro-step can do to the components the file invariant looks at *)
Definition live_step (s s' : st) : Prop :=
  (live_ s' = live_ s /\ hist s' = hist s) \/
  (hist s' = live_ s' :: hist s /\
   (lock s <> None -> map idname (filter keep_topic (live_ s')) = map idname (filter keep_topic (live_ s)))).

Definition exec_shape (s s' : st) (i : N) : Prop :=
  up s' = up s /\ broken s' = broken s /\ fs s' = fs s /\ live_step s s' /\
  (lock s' = lock s \/ (lock s = None /\ lock s' = Some (new_job (Some i) (live_ s) (length (hist s))) /\
                        live_ s' = live_ s /\ hist s' = hist s)).

Ltac shape_same := unfold exec_shape, live_step; cbn; repeat split; auto.
Ltac shape_upd :=
  unfold exec_shape, live_step; cbn; repeat split; auto; right; split; [reflexivity|];
  intros _; apply idname_upd;
  first [apply keeps_set_chans | apply keeps_set_chans_f | apply keeps_set_tpaused | apply keeps_set_texiting].

Lemma spawn_fields : forall b s,
  up (spawn b s) = up s /\ broken (spawn b s) = broken s /\ fs (spawn b s) = fs s /\
  live_ (spawn b s) = live_ s /\ hist (spawn b s) = hist s /\ lock (spawn b s) = lock s /\
  threads (spawn b s) = threads s /\ next_id (spawn b s) = next_id s /\ acks (spawn b s) = acks s /\
  dat_lo (spawn b s) = dat_lo s.
Proof. intros [] s; cbn; repeat split; reflexivity. Qed.

Lemma exec_shape_holds : forall pad s i m rest, exec_shape s (exec pad s i m rest) i.
Proof.
  intros pad s i m rest. destruct m; cbn [exec].
  - destruct (lock_free s); shape_same.
  - shape_same.
  - unfold lock_free. destruct (lock s) eqn:EL; [shape_same; rewrite EL; auto|].
    destruct (find_topic t (live_ s)); [shape_same; rewrite EL; auto|].
    destruct (eph t); unfold exec_shape, live_step; cbn; repeat split; auto;
      right; (split; [reflexivity|]); intros Hc; rewrite EL in Hc; congruence.
  - destruct (get_topic g t (live_ s)) as [tp|]; [|destruct (eph c); shape_same].
    destruct (find_chan c (t_chans tp)); [shape_same|].
    destruct (eph c); shape_upd.
  - destruct (get_topic g t (live_ s)) as [tp|]; [|shape_same].
    destruct (t_exiting tp); [shape_same|].
    destruct (eph t); shape_upd.
  - destruct (get_topic g t (live_ s)) as [tp|]; [|shape_same]. shape_upd.
  - unfold lock_free. destruct (lock s) eqn:EL; [shape_same; rewrite EL; auto|].
    unfold exec_shape, live_step; cbn; repeat split; auto.
    right; (split; [reflexivity|]); intros Hc; rewrite EL in Hc; congruence.
  - destruct (get_topic g t (live_ s)) as [tp|]; [|shape_same].
    destruct (find (is_chan h c) (t_chans tp)) as [ch|]; [|shape_same].
    destruct (c_exiting ch); [shape_same|]. destruct (eph c); shape_upd.
  - shape_upd.
  - shape_upd.
  - shape_upd.
  - unfold lock_free. destruct (lock s) eqn:EL; [shape_same; rewrite EL; auto|].
    unfold exec_shape, live_step; cbn; repeat split; auto.
  - shape_same.
  - shape_same.
Qed.

(* ---- slots *)
Lemma fill_fst : forall l i sl, map fst (fill l i sl) = map fst sl.
Proof.
  intros l i sl. revert i. induction sl as [|x r IH]; intros i; [destruct i; reflexivity|].
  destruct i; cbn.
  - f_equal. destruct x as [[g n] o]. cbn. destruct (get_topic g n l); reflexivity.
  - f_equal. apply IH.
Qed.

Lemma fill_in : forall l i sl g n e, In (g, n, Some e) (fill l i sl) ->
  In (g, n, Some e) sl \/ (In (g, n) (map fst sl) /\ (g, n, Some e) = read_slot l (g, n, None)).
Proof.
  intros l i sl. revert i. induction sl as [|x r IH]; intros i g n e H; [destruct i; contradiction|].
  destruct i; cbn in H.
  - destruct H as [H|H]; [|left; right; exact H].
    destruct x as [[g0 n0] o]. right. cbn [read_slot] in H.
    assert (g0 = g /\ n0 = n) as [-> ->].
    { destruct (get_topic g0 n0 l); inversion H; auto. }
    split; [left; reflexivity|]. cbn [read_slot]. symmetry. exact H.
  - destruct H as [H|H]; [left; left; exact H|].
    destruct (IH _ _ _ _ H) as [H1|[H1 H2]]; [left; right; exact H1|right; split; [right; exact H1|exact H2]].
Qed.

Lemma first_unread_none : forall sl, first_unread sl = None -> forall x, In x sl -> unread x = false.
Proof.
  induction sl as [|y r IH]; intros H x Hx; [contradiction|]. cbn in H.
  destruct (unread y) eqn:E; [discriminate|].
  destruct (first_unread r); [discriminate|]. destruct Hx as [->|Hx]; [exact E|apply IH; auto].
Qed.

Lemma slot_doc_names : forall sl,
  (forall x, In x sl -> unread x = false) ->
  (forall g n e, In (g, n, Some e) sl -> dt_name e = n) ->
  map dt_name (slot_doc sl) = map (fun x => snd (fst x)) sl.
Proof.
  induction sl as [|[[g n] o] r IH]; intros H1 H2; [reflexivity|].
  cbn. destruct o as [e|].
  - cbn. f_equal.
    + apply (H2 g n e). left. reflexivity.
    + apply IH; intros; [apply H1; right; assumption|eapply H2; right; eassumption].
  - specialize (H1 (g, n, None) (or_introl eq_refl)). discriminate.
Qed.

Lemma slot_doc_in : forall sl e, In e (slot_doc sl) -> exists g n, In (g, n, Some e) sl.
Proof.
  induction sl as [|[[g n] o] r IH]; intros e H; [contradiction|].
  cbn in H. apply in_app_or in H. destruct H as [H|H].
  - destruct o as [e'|]; [|contradiction]. destruct H as [->|[]]. exists g, n. left. reflexivity.
  - destruct (IH _ H) as (g' & n' & H'). exists g', n'. right. exact H'.
Qed.

Lemma slots_new : forall l, map fst (map slot_of l) = map idname l.
Proof. intros. rewrite map_map. reflexivity. Qed.

Lemma slots_new_unfilled : forall l g n e, ~ In (g, n, Some e) (map slot_of l).
Proof. intros l g n e H. apply in_map_iff in H. destruct H as (t & H & _). discriminate. Qed.

Lemma job_ok_new : forall s o lo, job_ok s (new_job o (live_ s) lo).
Proof.
  intros. unfold job_ok, new_job. cbn. split.
  - apply slots_new.
  - intros g n e H. exfalso. eapply slots_new_unfilled. exact H.
Qed.

(* job_ok only looks at live (through idname of the kept topics), hist (monotonically) and tmps *)
Lemma job_ok_transfer : forall s s' j,
  job_ok s j ->
  map idname (filter keep_topic (live_ s')) = map idname (filter keep_topic (live_ s)) ->
  (hist s' = hist s \/ exists x, hist s' = x :: hist s) ->
  tmps (fs s') = tmps (fs s) ->
  job_ok s' j.
Proof.
  intros s s' j H HL HH HT. unfold job_ok in *.
  assert (M : forall d, from_hist (hist s) d -> from_hist (hist s') d).
  { intros d Hd. destruct HH as [->|[x ->]]; [assumption|apply from_hist_mono; assumption]. }
  assert (ME : forall e, entry_from (hist s) e -> entry_from (hist s') e).
  { intros e He. destruct HH as [->|[x ->]]; [assumption|apply entry_from_mono; assumption]. }
  destruct (j_phase j); rewrite ?HT.
  - destruct H as [H1 H2]. split; [congruence|]. intros g n e Hin. destruct (H2 _ _ _ Hin). auto.
  - destruct H as (c & ? & ? & ?). exists c. auto.
  - destruct H as (c & ? & ? & ? & ?). exists c. auto.
  - destruct H as (c & ? & ? & ? & ? & ?). exists c. repeat (split; [assumption|]). auto.
  - destruct H as (c & ? & ? & ? & ? & ?). exists c. repeat (split; [assumption|]). auto.
Qed.

Lemma dat_ok_transfer : forall s s',
  dat_ok s -> dat (fs s') = dat (fs s) -> (hist s' = hist s \/ exists x, hist s' = x :: hist s) -> dat_ok s'.
Proof.
  intros s s' H HD HH c Hc. rewrite HD in Hc. destruct (H c Hc) as (? & ? & ?).
  repeat (split; [assumption|]). destruct HH as [->|[x ->]]; [assumption|apply from_hist_mono; assumption].
Qed.

Lemma Inv1_exec : forall pad s i m rest,
  Inv1 s -> get_thread i (threads s) = Some (m :: rest) -> Inv1 (exec pad s i m rest).
Proof.
  intros pad s i m rest I Hth.
  assert (Hup : up s = true).
  { destruct (up s) eqn:E; [reflexivity|]. destruct (i1_down s I E) as (_ & Ht & _). rewrite Ht in Hth. discriminate. }
  destruct (exec_shape_holds pad s i m rest) as (Eup & Ebr & Efs & Hlive & Hlock).
  set (s' := exec pad s i m rest) in *.
  assert (HH : hist s' = hist s \/ exists x, hist s' = x :: hist s).
  { destruct Hlive as [[_ ->]|[-> _]]; [left; reflexivity|right; eauto]. }
  constructor.
  - rewrite Ebr. apply (i1_broken s I).
  - intros _. destruct Hlive as [[E1 E2]|[E _]].
    + rewrite E1, E2. apply (i1_hist s I Hup).
    + eauto.
  - eapply dat_ok_transfer; [apply (i1_dat s I)|rewrite Efs; reflexivity|exact HH].
  - intros j Hj. rewrite Eup. split; [exact Hup|].
    destruct Hlock as [E|(E0 & E1 & E2 & E3)].
    + rewrite E in Hj. destruct (i1_job s I j Hj) as [_ Hok].
      eapply job_ok_transfer; [exact Hok| |exact HH|rewrite Efs; reflexivity].
      destruct Hlive as [[-> _]|[_ Hm]]; [reflexivity|]. apply Hm. congruence.
    + rewrite E1 in Hj. inversion Hj; subst j. rewrite <- E2. apply job_ok_new.
  - rewrite Eup, Hup. discriminate.
Qed.

Lemma in_idname_filter : forall g n l,
  In (g, n) (map idname (filter keep_topic l)) ->
  exists t, In t l /\ t_id t = g /\ t_name t = n /\ keep_topic t = true.
Proof.
  intros g n l H. apply in_map_iff in H. destruct H as (t & E & Hin).
  apply filter_In in Hin. destruct Hin as [Hin Hk]. inversion E; subst. exists t. auto.
Qed.

Lemma read_slot_ok : forall s g n e,
  (exists r, hist s = live_ s :: r) ->
  In (g, n) (map idname (filter keep_topic (live_ s))) ->
  (g, n, Some e) = read_slot (live_ s) (g, n, None) ->
  dt_name e = n /\ entry_from (hist s) e /\ exists t, get_topic g n (live_ s) = Some t /\ e = snap_topic t.
Proof.
  intros s g n e [r Hr] Hin Hrd.
  destruct (in_idname_filter _ _ _ Hin) as (t0 & Ht0 & Eg & En & Hk).
  cbn [read_slot] in Hrd.
  destruct (get_topic g n (live_ s)) as [t|] eqn:Eget.
  - inversion Hrd; subst e. destruct (get_topic_some _ _ _ _ Eget) as (Hin' & Eg' & En').
    split; [exact En'|]. split; [|exists t; auto].
    exists (live_ s), t. rewrite Hr. split; [left; reflexivity|]. split; [exact Hin'|]. split; [|reflexivity].
    unfold keep_topic in *. rewrite En'. rewrite <- En. exact Hk.
  - exfalso. destruct (get_topic_in _ _ Ht0) as [t' Ht']. rewrite Eg, En in Ht'. congruence.
Qed.

Lemma complete_mk : forall d w b, complete (mkF d w b) = Nat.eqb w (doc_size d).
Proof. reflexivity. Qed.

Lemma Inv1_persist : forall s j k, Inv1 s -> lock s = Some j -> Inv1 (persist_step s j k).
Proof.
  intros s j k I Hl.
  destruct (i1_job s I j Hl) as [Hup Hok].
  destruct (i1_hist s I Hup) as [r Hr].
  unfold persist_step. unfold job_ok in Hok.
  destruct (j_phase j) eqn:Eph.
  - (* PSnap *)
    destruct Hok as [Hs Hf].
    destruct (first_unread (j_slots j)) as [i0|] eqn:Efu.
    + set (i := match nth_error (j_slots j) (N.to_nat k) with
                | Some x => if unread x then N.to_nat k else i0 | None => i0 end).
      constructor; cbn.
      * apply (i1_broken s I).
      * intros _. eauto.
      * apply (i1_dat s I).
      * intros j' Hj'. inversion Hj'; subst j'. split; [exact Hup|]. unfold job_ok. cbn.
        split; [rewrite fill_fst; exact Hs|].
        intros g n e Hin. destruct (fill_in _ _ _ _ _ _ Hin) as [Hold|[Hin' Hrd]].
        -- apply (Hf g n e Hold).
        -- rewrite Hs in Hin'. destruct (read_slot_ok s g n e (ex_intro _ r Hr) Hin' Hrd) as (? & ? & _). auto.
      * rewrite Hup. discriminate.
    + (* every topic read: marshal, open the temp file *)
      pose proof (first_unread_none _ Efu) as Hall.
      assert (Hnames : forall g n e, In (g, n, Some e) (j_slots j) -> dt_name e = n).
      { intros g n e Hin. apply (Hf g n e Hin). }
      constructor; cbn.
      * apply (i1_broken s I).
      * intros _. eauto.
      * intros c Hc. apply (i1_dat s I c Hc).
      * intros j' Hj'. inversion Hj'; subst j'. split; [exact Hup|]. unfold job_ok. cbn.
        exists (mkF (slot_doc (j_slots j)) 0 false). split; [apply lookup_upsert_same|]. split; [reflexivity|].
        split.
        -- exists (live_ s). split; [rewrite Hr; left; reflexivity|].
           rewrite slot_doc_names by assumption.
           transitivity (map snd (map fst (j_slots j))); [rewrite map_map; reflexivity|].
           rewrite Hs. rewrite map_map. reflexivity.
        -- intros e He. destruct (slot_doc_in _ _ He) as (g & n & Hin). apply (Hf g n e Hin).
      * rewrite Hup. discriminate.
  - (* PWrite *)
    destruct Hok as (c & Hlk & Hdoc & Hfh). rewrite Hlk.
    set (w := Nat.min (doc_size (f_doc c)) (f_written c + S (N.to_nat k))).
    destruct (Nat.eqb w (doc_size (f_doc c))) eqn:Ew.
    + constructor; cbn.
      * apply (i1_broken s I).
      * intros _. eauto.
      * intros c' Hc'. apply (i1_dat s I c' Hc').
      * intros j' Hj'. inversion Hj'; subst j'. split; [exact Hup|]. unfold job_ok. cbn.
        exists (mkF (f_doc c) w false). split; [apply lookup_upsert_same|]. split; [exact Hdoc|].
        split; [rewrite complete_mk; exact Ew|exact Hfh].
      * rewrite Hup. discriminate.
    + constructor; cbn.
      * apply (i1_broken s I).
      * intros _. eauto.
      * intros c' Hc'. apply (i1_dat s I c' Hc').
      * intros j' Hj'. rewrite Hl in Hj'. inversion Hj'; subst j'. split; [exact Hup|]. unfold job_ok. rewrite Eph. cbn.
        exists (mkF (f_doc c) w false). split; [apply lookup_upsert_same|]. split; [exact Hdoc|exact Hfh].
      * rewrite Hup. discriminate.
  - (* PFsync *)
    destruct Hok as (c & Hlk & Hdoc & Hc & Hfh). rewrite Hlk.
    constructor; cbn.
    + apply (i1_broken s I).
    + intros _. eauto.
    + intros c' Hc'. apply (i1_dat s I c' Hc').
    + intros j' Hj'. inversion Hj'; subst j'. split; [exact Hup|]. unfold job_ok. cbn.
      exists (mkF (f_doc c) (f_written c) true). split; [apply lookup_upsert_same|]. split; [exact Hdoc|].
      split; [exact Hc|]. split; [reflexivity|exact Hfh].
    + rewrite Hup. discriminate.
  - (* PClose *)
    destruct Hok as (c & Hlk & Hdoc & Hc & Hsy & Hfh).
    constructor; cbn.
    + apply (i1_broken s I).
    + intros _. eauto.
    + intros c' Hc'. apply (i1_dat s I c' Hc').
    + intros j' Hj'. inversion Hj'; subst j'. split; [exact Hup|]. unfold job_ok. cbn.
      exists c. repeat (split; [assumption|]). exact Hfh.
    + rewrite Hup. discriminate.
  - (* PRename *)
    destruct Hok as (c & Hlk & Hdoc & Hc & Hsy & Hfh). rewrite Hlk.
    set (s1 := w_lo (w_lock (w_fs s (mkFS (Some c) (delete (j_tmp j) (tmps (fs s))))) None) (j_lo j)).
    assert (I1 : Inv1 s1).
    { constructor; cbn.
      - apply (i1_broken s I).
      - intros _. eauto.
      - intros c' Hc'. inversion Hc'; subst c'. rewrite Hdoc. auto.
      - discriminate.
      - rewrite Hup. discriminate. }
    assert (Hth : forall ths, Inv1 (w_threads s1 ths)).
    { intros ths. destruct I1 as [A B C D E]. constructor; cbn in *; auto. rewrite Hup. discriminate. }
    destruct (j_owner j) as [i|]; [|exact I1].
    destruct (get_thread i (threads s1)) as [[|[] rest]|]; try exact I1. apply Hth.
Qed.

(* ---- a failed write of the temp file *)
Lemma fail_step_fields : forall s j k,
  let s' := fail_step s j k in
  s' = s \/
  (up s' = up s /\ broken s' = broken s /\ live_ s' = live_ s /\ next_id s' = next_id s /\
   pending s' = pending s /\ hist s' = hist s /\ acks s' = acks s /\ dat (fs s') = dat (fs s) /\
   lock s' = None /\
   (threads s' = threads s \/
    exists i rest, j_owner j = Some i /\ get_thread i (threads s) = Some (MAwait :: rest) /\
                   threads s' = put_thread i rest (threads s))).
Proof.
  intros s j k. cbv zeta. unfold fail_step. destruct (j_phase j); try (left; reflexivity).
  destruct (lookup (j_tmp j) (tmps (fs s))) as [c|]; [|left; reflexivity].
  right. destruct (j_owner j) as [i|]; [|cbn; repeat (split; [reflexivity|]); left; reflexivity].
  cbn [threads w_lock w_fs]. destruct (get_thread i (threads s)) as [[|[] rest]|] eqn:E;
    cbn; repeat (split; [reflexivity|]); try (left; reflexivity).
  right. exists i, rest. auto.
Qed.

(* a write fault never touches nsqd.dat *)
Lemma fail_keeps_dat : forall s j k, dat (fs (fail_step s j k)) = dat (fs s).
Proof.
  intros s j k. destruct (fail_step_fields s j k) as [->|(_ & _ & _ & _ & _ & _ & _ & H & _)]; [reflexivity|exact H].
Qed.

Lemma Inv1_fail : forall s j k, Inv1 s -> lock s = Some j -> Inv1 (fail_step s j k).
Proof.
  intros s j k I Hl. destruct (i1_job s I j Hl) as [Hup _].
  destruct (fail_step_fields s j k) as [->|(E1 & E2 & E3 & E4 & E5 & E6 & E7 & E8 & E9 & _)]; [exact I|].
  constructor.
  - rewrite E2. apply (i1_broken s I).
  - intros _. rewrite E6, E3. apply (i1_hist s I Hup).
  - intros c Hc. rewrite E8 in Hc. rewrite E6. apply (i1_dat s I c Hc).
  - intros j' Hj'. rewrite E9 in Hj'. discriminate.
  - rewrite E1, Hup. discriminate.
Qed.

Lemma Inv1_boot : forall s l nid, Inv1 s -> Inv1 (boot s l nid).
Proof.
  intros s l nid I. constructor; cbn.
  - reflexivity.
  - intros _. eauto.
  - intros c Hc. destruct (i1_dat s I c Hc) as (? & ? & ?). repeat (split; [assumption|]).
    apply from_hist_mono. assumption.
  - intros j Hj. inversion Hj; subst j. split; [reflexivity|].
    unfold job_ok, new_job. cbn. split; [apply slots_new|].
    intros g n e H. exfalso. eapply slots_new_unfilled. exact H.
  - discriminate.
Qed.

Lemma Inv1_step : forall s e, Inv1 s -> Inv1 (step s e).
Proof.
  intros s e I. destruct e as [i o|i| |k|kf| |]; rewrite step_fixed; cbn [step_].
  - (* EStart *)
    destruct (up s) eqn:Hup; [|exact I].
    destruct (get_thread i (threads s)); [exact I|].
    destruct I as [A B C D E]. constructor; cbn; auto. rewrite Hup. discriminate.
  - (* EStep *)
    destruct (get_thread i (threads s)) as [[|m rest]|] eqn:Hth; try exact I.
    apply Inv1_exec; assumption.
  - (* ETask *)
    destruct (lock s) eqn:Hl; [exact I|]. destruct (pending s) as [|p] eqn:Hp; [exact I|].
    assert (Hup : up s = true).
    { destruct (up s) eqn:E; [reflexivity|]. destruct (i1_down s I E) as (_ & _ & H0). congruence. }
    constructor; cbn.
    + apply (i1_broken s I).
    + intros _. apply (i1_hist s I Hup).
    + apply (i1_dat s I).
    + intros j Hj. inversion Hj; subst j. split; [exact Hup|].
      change (job_ok (w_lock (w_pending s p) (Some (new_job None (live_ s) (length (hist s)))))
                     (new_job None (live_ (w_lock (w_pending s p) (Some (new_job None (live_ s) (length (hist s)))))) (length (hist s)))).
      apply job_ok_new.
    + rewrite Hup. discriminate.
  - (* EPersist *)
    destruct (lock s) as [j|] eqn:Hl; [|exact I]. apply Inv1_persist; assumption.
  - (* EFault *)
    destruct (lock s) as [j|] eqn:Hl; [|exact I]. apply Inv1_fail; assumption.
  - (* EKill *)
    destruct (up s) eqn:Hup; [|exact I]. constructor; cbn.
    + apply (i1_broken s I).
    + discriminate.
    + apply (i1_dat s I).
    + discriminate.
    + auto.
  - (* ERestart *)
    destruct (up s) eqn:Hup; cbn; [exact I|]. rewrite (i1_broken s I). cbn.
    unfold restart. destruct (dat (fs s)) as [c|] eqn:Hd.
    + destruct (i1_dat s I c Hd) as (Hc & _ & _). rewrite Hc.
      destruct (load (f_doc c) (next_id s)) as [l nid]. apply Inv1_boot. exact I.
    + apply Inv1_boot. exact I.
Qed.

Lemma Inv1_run : forall evs, Inv1 (run init evs).
Proof. intros. apply run_invariant; [apply Inv1_step|apply Inv1_init]. Qed.

(* C06_atomic: at every instant of every schedule (kills and restarts included) nsqd.dat is
   absent or a completely written, fsynced document; its topic set is the set of
   non-ephemeral topics of a live state the daemon passed through, each entry is the
   persisted form of a topic as it was in a live state the daemon passed through; and
   no restart ever finds an undecodable file. *)
Lemma atomic_all : forall evs,
  let s := run init evs in
  broken s = false /\
  (dat (fs s) = None \/
   exists c, dat (fs s) = Some c /\ complete c = true /\ f_synced c = true /\ from_hist (hist s) (f_doc c)).
Proof.
  intros evs s. pose proof (Inv1_run evs) as I. fold s in I. split; [apply (i1_broken s I)|].
  destruct (dat (fs s)) as [c|] eqn:Hd; [right|left; reflexivity].
  exists c. split; [reflexivity|]. apply (i1_dat s I c Hd).
Qed.

(* ------------------------------------------------------------------ thread-list bookkeeping *)
Lemma put_thread_in : forall i p ths j q p0,
  In (j, q) ths -> get_thread i ths = Some p0 ->
  In (j, q) (put_thread i p ths) \/ (j = i /\ q = p0).
Proof.
  intros i p ths j q p0 Hin Hget.
  assert (Hs : In (j, q) (set_thread i p ths) \/ (j = i /\ q = p0)).
  { revert Hin Hget. induction ths as [|[k r] ths IH]; intros Hin Hget; [contradiction|].
    cbn in *. destruct (N.eqb k i) eqn:E.
    - apply N.eqb_eq in E. subst k. inversion Hget; subst r.
      destruct Hin as [Hin|Hin]; [inversion Hin; subst; right; auto|left; right; exact Hin].
    - destruct Hin as [Hin|Hin]; [left; left; exact Hin|].
      destruct (IH Hin Hget) as [H|H]; [left; right; exact H|right; exact H]. }
  assert (Hd : In (j, q) (del_thread i ths) \/ (j = i /\ q = p0)).
  { clear Hs. revert Hin Hget. induction ths as [|[k r] ths IH]; intros Hin Hget; [contradiction|].
    cbn in *. destruct (N.eqb k i) eqn:E.
    - apply N.eqb_eq in E. subst k. inversion Hget; subst r.
      destruct Hin as [Hin|Hin]; [inversion Hin; subst; right; auto|left; exact Hin].
    - destruct Hin as [Hin|Hin]; [left; left; exact Hin|].
      destruct (IH Hin Hget) as [H|H]; [left; right; exact H|right; exact H]. }
  unfold put_thread. destruct p; assumption.
Qed.

Lemma in_put_thread : forall i p ths j q,
  In (j, q) (put_thread i p ths) -> In (j, q) ths \/ (j = i /\ q = p /\ p <> []).
Proof.
  intros i p ths j q H. unfold put_thread in H. destruct p as [|m p'].
  - left. induction ths as [|[k r] ths IH]; [contradiction|]. cbn in H.
    destruct (N.eqb k i); [right; exact H|]. destruct H as [H|H]; [left; exact H|right; apply IH; exact H].
  - induction ths as [|[k r] ths IH]; [contradiction|]. cbn in H.
    destruct (N.eqb k i) eqn:E.
    + apply N.eqb_eq in E. subst k. destruct H as [H|H]; [inversion H; subst; right; repeat split; discriminate|left; right; exact H].
    + destruct H as [H|H]; [left; left; exact H|]. destruct (IH H) as [H'|H']; [left; right; exact H'|right; exact H'].
Qed.

Lemma set_thread_has : forall i p ths p0, get_thread i ths = Some p0 -> In (i, p) (set_thread i p ths).
Proof.
  intros i p ths p0. induction ths as [|[k r] ths IH]; intros H; [discriminate|]. cbn in *.
  destruct (N.eqb k i) eqn:E; [apply N.eqb_eq in E; subst; left; reflexivity|right; apply IH; exact H].
Qed.

Lemma get_thread_in : forall i ths p, get_thread i ths = Some p -> In (i, p) ths.
Proof.
  intros i ths p. induction ths as [|[k r] ths IH]; intros H; [discriminate|]. cbn in *.
  destruct (N.eqb k i) eqn:E; [apply N.eqb_eq in E; inversion H; subst; left; reflexivity|right; apply IH; exact H].
Qed.

(* ------------------------------------------------------------------ program shape: a mutation that is not
   persisted in its own step is followed by a synchronous persist in the same request *)
Definition needs_sync (m : micro) : bool :=
  match m with
  | MDropChans _ t => negb (eph t)
  | MRemoveTopic t => negb (eph t)
  | MRemoveChan _ t c => negb (eph t) && negb (eph c)
  | MFlipTopic _ _ _ | MFlipChan _ _ _ _ _ => true
  | _ => false
  end.
Fixpoint wf_prog (p : list micro) : Prop :=
  match p with
  | [] => True
  | m :: r => (needs_sync m = true -> In MSync r) /\ wf_prog r
  end.

Lemma wf_app : forall p q, wf_prog p -> wf_prog q -> wf_prog (p ++ q).
Proof.
  induction p as [|m p IH]; intros q Hp Hq; [exact Hq|]. cbn in *. destruct Hp as [H1 H2].
  split; [intros H; apply in_or_app; left; auto|apply IH; assumption].
Qed.

Lemma wf_enter : forall o l, wf_prog (enter true o l).
Proof.
  intros o l. destruct o; cbn.
  - destruct (valid t); [destruct (find_topic t l)|]; cbn; intuition discriminate.
  - destruct (find_topic t l); [|cbn; intuition discriminate].
    destruct (eph t) eqn:E; cbn; rewrite ?E; cbn; intuition (try discriminate; auto).
  - destruct (find_topic t l); cbn; intuition (try discriminate; auto).
  - destruct (valid t && valid c); [destruct (find_topic t l)|]; cbn; intuition discriminate.
  - destruct (valid t && valid c); [destruct (find_topic t l)|]; cbn; intuition discriminate.
  - destruct (valid t && valid c); [destruct (find_topic t l)|]; cbn; intuition discriminate.
  - cbn. intuition discriminate.
Qed.

Lemma wf_found_chan : forall g t c a l, wf_prog (found_chan true g t c a l).
Proof.
  intros g t c a l. unfold found_chan. destruct (get_topic g t l) as [tp|]; [|cbn; intuition discriminate].
  destruct (find_chan c (t_chans tp)) as [ch|]; [|cbn; intuition discriminate].
  destruct a.
  - destruct (eph c) eqn:Ec; destruct (eph t) eqn:Et; cbn; rewrite ?Ec, ?Et; cbn; intuition (try discriminate; auto).
  - cbn. intuition (try discriminate; auto).
Qed.

Lemma wf_skip_drop : forall p, wf_prog p -> wf_prog (skip_drop p).
Proof. intros [|[] p] H; cbn in *; tauto. Qed.

Definition Inv3 (s : st) : Prop := forall i p, In (i, p) (threads s) -> wf_prog p.

Lemma Inv3_put : forall s s' i p,
  Inv3 s -> wf_prog p -> threads s' = put_thread i p (threads s) -> Inv3 s'.
Proof.
  intros s s' i p I Hp E j q Hin. rewrite E in Hin.
  destruct (in_put_thread _ _ _ _ _ Hin) as [H|(_ & -> & _)]; [eapply I; exact H|exact Hp].
Qed.

Lemma spawn_threads : forall b s, threads (spawn b s) = threads s.
Proof. intros [] s; reflexivity. Qed.

Lemma Inv3_exec : forall s i m rest,
  Inv3 s -> get_thread i (threads s) = Some (m :: rest) -> Inv3 (exec true s i m rest).
Proof.
  intros s i m rest I Hth.
  assert (Hw : wf_prog (m :: rest)) by (eapply I; apply get_thread_in; exact Hth).
  destruct Hw as [_ Hrest].
  assert (P : forall s' p, wf_prog p -> threads s' = put_thread i p (threads s) -> Inv3 s').
  { intros. eapply Inv3_put; eauto. }
  destruct m; cbn [exec].
  - destruct (lock_free s); [|exact I]. eapply P; [|reflexivity]. apply wf_app; [apply wf_enter|exact Hrest].
  - eapply P; [|reflexivity]. apply wf_app; [apply wf_found_chan|exact Hrest].
  - destruct (lock_free s); [|exact I]. destruct (find_topic t (live_ s)); (eapply P; [|cbn; rewrite ?spawn_threads; reflexivity]; exact Hrest).
  - destruct (get_topic g t (live_ s)) as [tp|]; [destruct (find_chan c (t_chans tp))|];
      (eapply P; [|cbn; rewrite ?spawn_threads; reflexivity]; exact Hrest).
  - destruct (get_topic g t (live_ s)) as [tp|]; [destruct (t_exiting tp)|];
      (eapply P; [|cbn; rewrite ?spawn_threads; reflexivity]; first [exact Hrest|apply wf_skip_drop; exact Hrest]).
  - destruct (get_topic g t (live_ s)) as [tp|]; (eapply P; [|reflexivity]; exact Hrest).
  - destruct (lock_free s); [|exact I]. (eapply P; [|reflexivity]; exact Hrest).
  - destruct (get_topic g t (live_ s)) as [tp|]; [destruct (find (is_chan h c) (t_chans tp)) as [ch|]; [destruct (c_exiting ch)|]|];
      (eapply P; [|cbn; rewrite ?spawn_threads; reflexivity]; exact Hrest).
  - (eapply P; [|reflexivity]; exact Hrest).
  - (eapply P; [|reflexivity]; exact Hrest).
  - (eapply P; [|reflexivity]; exact Hrest).
  - destruct (lock_free s); [|exact I]. intros j q Hin. cbn in Hin.
    assert (Hin' : In (j, q) (put_thread i (MAwait :: rest) (threads s))) by exact Hin.
    destruct (in_put_thread _ _ _ _ _ Hin') as [H|(_ & -> & _)]; [eapply I; exact H|].
    cbn. split; [discriminate|exact Hrest].
  - exact I.
  - (eapply P; [|reflexivity]; exact Hrest).
Qed.

Lemma Inv3_step : forall s e, Inv3 s -> Inv3 (step s e).
Proof.
  intros s e I. destruct e as [i o|i| |k|kf| |]; rewrite step_fixed; cbn [step_].
  - destruct (up s); [|exact I]. destruct (get_thread i (threads s)); [exact I|].
    intros j q Hin. cbn in Hin. apply in_app_or in Hin. destruct Hin as [Hin|[Hin|[]]]; [eapply I; exact Hin|].
    inversion Hin; subst. cbn. intuition discriminate.
  - destruct (get_thread i (threads s)) as [[|m rest]|] eqn:Hth; try exact I. apply Inv3_exec; assumption.
  - destruct (lock s); [exact I|]. destruct (pending s); exact I.
  - destruct (lock s) as [j|]; [|exact I]. unfold persist_step.
    destruct (j_phase j).
    + destruct (first_unread (j_slots j)); exact I.
    + destruct (lookup (j_tmp j) (tmps (fs s))) as [c|]; [|exact I].
      destruct (Nat.eqb _ _); exact I.
    + destruct (lookup (j_tmp j) (tmps (fs s))); exact I.
    + exact I.
    + destruct (lookup (j_tmp j) (tmps (fs s))) as [c|]; [|exact I].
      destruct (j_owner j) as [i|]; [|exact I]. cbn.
      destruct (get_thread i (threads s)) as [[|[] rest]|] eqn:Hth; try exact I.
      eapply Inv3_put; [exact I| |reflexivity].
      assert (Hw : wf_prog (MAwait :: rest)) by (eapply I; apply get_thread_in; exact Hth).
      apply Hw.
  - destruct (lock s) as [j|]; [|exact I].
    destruct (fail_step_fields s j kf) as [->|(_ & _ & _ & _ & _ & _ & _ & _ & _ & [E|(i & rest & _ & Hg & E)])]; [exact I| |].
    + intros i p Hin. rewrite E in Hin. eapply I. exact Hin.
    + eapply Inv3_put; [exact I| |exact E].
      assert (Hw : wf_prog (MAwait :: rest)) by (eapply I; apply get_thread_in; exact Hg). apply Hw.
  - destruct (up s); [|exact I]. intros j q Hin. contradiction.
  - destruct (up s || broken s); [exact I|]. unfold restart.
    destruct (dat (fs s)) as [c|]; [destruct (complete c); [destruct (load (f_doc c) (next_id s))|]|];
      intros j q Hin; contradiction.
Qed.

(* ------------------------------------------------------------------ topic objects are distinct *)
Definition live_change (s s' : st) : Prop :=
  (next_id s <= next_id s')%N /\
  (live_ s' = live_ s
   \/ (exists g n f, keeps_idname f /\ live_ s' = upd_topic g n f (live_ s))
   \/ (exists t, live_ s' = live_ s ++ [mkT (next_id s) t false false []] /\ next_id s' = N.succ (next_id s)
                 /\ find_topic t (live_ s) = None /\ lock s = None)
   \/ (exists t, live_ s' = remove_topic t (live_ s) /\ lock s = None)).

Lemma spawn_next : forall b s, next_id (spawn b s) = next_id s.
Proof. intros [] s; reflexivity. Qed.
Lemma spawn_live : forall b s, live_ (spawn b s) = live_ s.
Proof. intros [] s; reflexivity. Qed.

Ltac lc_same := split; [cbn; rewrite ?spawn_next; cbn; lia|left; cbn; rewrite ?spawn_live; reflexivity].
Ltac lc_upd := split; [cbn; rewrite ?spawn_next; cbn; lia|right; left; cbn; rewrite ?spawn_live; cbn;
  eexists _, _, _; split; [|reflexivity];
  first [apply keeps_set_chans | apply keeps_set_chans_f | apply keeps_set_tpaused | apply keeps_set_texiting]].

Lemma exec_live_change : forall pad s i m rest, live_change s (exec pad s i m rest).
Proof.
  intros pad s i m rest. destruct m; cbn [exec].
  - destruct (lock_free s); lc_same.
  - lc_same.
  - unfold lock_free. destruct (lock s) eqn:EL; [lc_same|].
    destruct (find_topic t (live_ s)) eqn:EF; [lc_same|].
    split; [cbn; rewrite ?spawn_next; cbn; lia|]. right; right; left. exists t.
    cbn. rewrite spawn_live, spawn_next. cbn. auto.
  - destruct (get_topic g t (live_ s)) as [tp|]; [|lc_same].
    destruct (find_chan c (t_chans tp)); [lc_same|]. lc_upd.
  - destruct (get_topic g t (live_ s)) as [tp|]; [|lc_same].
    destruct (t_exiting tp); [lc_same|]. lc_upd.
  - destruct (get_topic g t (live_ s)) as [tp|]; [|lc_same]. lc_upd.
  - unfold lock_free. destruct (lock s) eqn:EL; [lc_same|].
    split; [cbn; lia|]. right; right; right. exists t. cbn. auto.
  - destruct (get_topic g t (live_ s)) as [tp|]; [|lc_same].
    destruct (find (is_chan h c) (t_chans tp)) as [ch|]; [|lc_same].
    destruct (c_exiting ch); [lc_same|]. lc_upd.
  - lc_upd.
  - lc_upd.
  - lc_upd.
  - destruct (lock_free s); lc_same.
  - lc_same.
  - lc_same.
Qed.

Lemma upd_topic_ids : forall g n f l, keeps_idname f -> map t_id (upd_topic g n f l) = map t_id l.
Proof.
  intros. unfold upd_topic. rewrite map_map. apply map_ext. intros t.
  destruct (is_topic g n t); [apply H|reflexivity].
Qed.

Lemma upd_topic_names : forall g n f l, keeps_idname f -> map t_name (upd_topic g n f l) = map t_name l.
Proof.
  intros. unfold upd_topic. rewrite map_map. apply map_ext. intros t.
  destruct (is_topic g n t); [apply H|reflexivity].
Qed.

Lemma NoDup_map_filter {A B} (f : A -> B) (p : A -> bool) (l : list A) :
  NoDup (map f l) -> NoDup (map f (filter p l)).
Proof.
  induction l as [|x l IH]; intros H; cbn; [constructor|]. inversion H; subst.
  destruct (p x); cbn; [|auto]. constructor; [|auto].
  intros Hin. apply H2. apply in_map_iff in Hin. destruct Hin as (y & E & Hy).
  apply filter_In in Hy. apply in_map_iff. exists y. tauto.
Qed.

Definition ids_ok (l : live) (nid : N) : Prop :=
  NoDup (map t_id l) /\ (forall t, In t l -> (t_id t < nid)%N).

Lemma ids_ok_upd : forall g n f l nid, keeps_idname f -> ids_ok l nid -> ids_ok (upd_topic g n f l) nid.
Proof.
  intros g n f l nid Hf [H1 H2]. split; [rewrite upd_topic_ids; assumption|].
  intros t Hin. unfold upd_topic in Hin. apply in_map_iff in Hin. destruct Hin as (t0 & E & Hin).
  specialize (H2 t0 Hin). destruct (is_topic g n t0); subst t; [destruct (Hf t0) as [-> _]|]; assumption.
Qed.

Lemma ids_ok_mono : forall l a b, (a <= b)%N -> ids_ok l a -> ids_ok l b.
Proof. intros l a b H [H1 H2]. split; [assumption|]. intros t Hin. specialize (H2 t Hin). lia. Qed.

Lemma NoDup_snoc {A} (l : list A) (x : A) : NoDup l -> ~ In x l -> NoDup (l ++ [x]).
Proof.
  induction l as [|y l IH]; intros H Hx; cbn; [constructor; [intros []|constructor]|].
  inversion H; subst. constructor.
  - intros Hin. apply in_app_or in Hin. destruct Hin as [Hin|[Hin|[]]]; [contradiction|]. subst. apply Hx. left. reflexivity.
  - apply IH; [assumption|]. intros Hin. apply Hx. right. exact Hin.
Qed.

Lemma ids_ok_snoc : forall l nid t, ids_ok l nid -> t_id t = nid -> ids_ok (l ++ [t]) (N.succ nid).
Proof.
  intros l nid t [H1 H2] E. split.
  - rewrite map_app. cbn. apply NoDup_snoc; [assumption|].
    intros Hin. apply in_map_iff in Hin. destruct Hin as (t0 & E0 & Hin). specialize (H2 t0 Hin). lia.
  - intros t0 Hin. apply in_app_or in Hin. destruct Hin as [Hin|[Hin|[]]]; [specialize (H2 t0 Hin); lia|subst; lia].
Qed.

Lemma ids_ok_remove : forall l nid n, ids_ok l nid -> ids_ok (remove_topic n l) nid.
Proof.
  intros l nid n [H1 H2]. split; [apply NoDup_map_filter; assumption|].
  intros t Hin. apply filter_In in Hin. apply H2. tauto.
Qed.

Lemma load_chans_mono : forall cs acc nid, (nid <= snd (load_chans cs acc nid))%N.
Proof.
  induction cs as [|c cs IH]; intros acc nid; cbn; [lia|].
  destruct (valid (dc_name c)); [|apply IH].
  destruct (find_chan (dc_name c) acc); [apply IH|].
  specialize (IH (acc ++ [mkC nid (dc_name c) (dc_paused c) false]) (N.succ nid)). lia.
Qed.

Lemma load_topics_ids : forall d acc nid, ids_ok acc nid ->
  ids_ok (fst (load_topics d acc nid)) (snd (load_topics d acc nid)) /\ (nid <= snd (load_topics d acc nid))%N.
Proof.
  induction d as [|e d IH]; intros acc nid H; cbn; [split; [assumption|lia]|].
  destruct (valid (dt_name e)); [|apply IH; assumption].
  destruct (find_topic (dt_name e) acc) as [tp|].
  - destruct (load_chans (dt_chans e) (t_chans tp) nid) as [cs nid'] eqn:E.
    pose proof (load_chans_mono (dt_chans e) (t_chans tp) nid) as M. rewrite E in M. cbn in M.
    match goal with |- context [load_topics d ?a nid'] => specialize (IH a nid') end.
    destruct IH as [I1 I2].
    + apply ids_ok_mono with nid; [assumption|]. apply ids_ok_upd; [|assumption]. intros t. split; reflexivity.
    + split; [assumption|lia].
  - destruct (load_chans (dt_chans e) [] (N.succ nid)) as [cs nid'] eqn:E.
    pose proof (load_chans_mono (dt_chans e) [] (N.succ nid)) as M. rewrite E in M. cbn in M.
    match goal with |- context [load_topics d ?a nid'] => specialize (IH a nid') end.
    destruct IH as [I1 I2].
    + apply ids_ok_mono with (N.succ nid); [assumption|]. apply ids_ok_snoc; [assumption|reflexivity].
    + split; [assumption|lia].
Qed.

Definition Inv0 (s : st) : Prop := ids_ok (live_ s) (next_id s).

Lemma Inv0_step : forall s e, Inv0 s -> Inv0 (step s e).
Proof.
  intros s e I. unfold Inv0 in *. destruct e as [i o|i| |k|kf| |]; rewrite step_fixed; cbn [step_].
  - destruct (up s); [|exact I]. destruct (get_thread i (threads s)); exact I.
  - destruct (get_thread i (threads s)) as [[|m rest]|] eqn:Hth; try exact I.
    destruct (exec_live_change true s i m rest) as [Hn [E|[(g & n & f & Hf & E)|[(t & E & En & _)|(t & E & _)]]]]; rewrite E.
    + eapply ids_ok_mono; eassumption.
    + eapply ids_ok_mono; [eassumption|]. apply ids_ok_upd; assumption.
    + rewrite En. apply ids_ok_snoc; [assumption|reflexivity].
    + eapply ids_ok_mono; [eassumption|]. apply ids_ok_remove; assumption.
  - destruct (lock s); [exact I|]. destruct (pending s); exact I.
  - destruct (lock s) as [j|]; [|exact I]. unfold persist_step.
    destruct (j_phase j).
    + destruct (first_unread (j_slots j)); exact I.
    + destruct (lookup (j_tmp j) (tmps (fs s))) as [c|]; [|exact I]. destruct (Nat.eqb _ _); exact I.
    + destruct (lookup (j_tmp j) (tmps (fs s))); exact I.
    + exact I.
    + destruct (lookup (j_tmp j) (tmps (fs s))) as [c|]; [|exact I].
      destruct (j_owner j) as [i|]; [|exact I]. cbn.
      destruct (get_thread i (threads s)) as [[|[] rest]|]; exact I.
  - destruct (lock s) as [j|]; [|exact I].
    destruct (fail_step_fields s j kf) as [->|(_ & _ & E3 & E4 & _)]; [exact I|]. rewrite E3, E4. exact I.
  - destruct (up s); [|exact I]. cbn. split; [constructor|intros t []].
  - destruct (up s || broken s); [exact I|]. unfold restart.
    destruct (dat (fs s)) as [c|].
    + destruct (complete c); [|cbn; split; [constructor|intros t []]].
      unfold load. pose proof (load_topics_ids (f_doc c) [] (next_id s)) as L.
      destruct (load_topics (f_doc c) [] (next_id s)) as [l nid]. cbn in *.
      apply L. split; [constructor|intros t []].
    + cbn. split; [constructor|intros t []].
Qed.

Lemma Inv0_init : Inv0 init.
Proof. split; [constructor|intros t []]. Qed.

Lemma get_topic_unique : forall l nid t, ids_ok l nid -> In t l -> get_topic (t_id t) (t_name t) l = Some t.
Proof.
  intros l nid t [H _] Hin. destruct (get_topic_in _ _ Hin) as [t' Ht']. rewrite Ht'. f_equal.
  destruct (get_topic_some _ _ _ _ Ht') as (Hin' & Eid & _).
  (* two members with the same id are the same member *)
  clear Ht'. induction l as [|x l IH]; [contradiction|]. cbn in H. inversion H; subst.
  destruct Hin as [->|Hin], Hin' as [->|Hin']; try reflexivity.
  - exfalso. apply H2. rewrite <- Eid. apply in_map. exact Hin'.
  - exfalso. apply H2. rewrite Eid. apply in_map. exact Hin.
  - apply IH; assumption.
Qed.

(* ------------------------------------------------------------------ C06_idle_full: freshness or obligation *)
Definition slots_fresh (sl : list (N * name * option dtopic)) (l : live) : Prop :=
  forall g n e, In (g, n, Some e) sl -> exists t, get_topic g n l = Some t /\ e = snap_topic t.
Definition job_fresh (j : job) (l : live) : Prop :=
  match j_phase j with PSnap => slots_fresh (j_slots j) l | _ => j_doc j = snapshot l end.
Definition fresh_of (lk : option job) (l : live) (d : option content) : Prop :=
  match lk with
  | Some j => job_fresh j l
  | None => exists c, d = Some c /\ f_doc c = snapshot l
  end.
Definition fresh (s : st) : Prop := fresh_of (lock s) (live_ s) (dat (fs s)).
Definition obliged (s : st) : Prop :=
  pending s > 0 \/ exists i p, In (i, p) (threads s) /\ In MSync p.
Definition Inv2 (s : st) : Prop := up s = true -> fresh s \/ obliged s.

(* a change of one topic object that the persisted form cannot see *)
Definition inert (n : name) (f : topic -> topic) : Prop :=
  keeps_idname f /\ (eph n = true \/ forall t, snap_topic (f t) = snap_topic t).

Lemma snapshot_upd_inert : forall g n f l, inert n f -> snapshot (upd_topic g n f l) = snapshot l.
Proof.
  intros g n f l [Hk Hi]. unfold snapshot. rewrite upd_topic_filter by assumption.
  unfold upd_topic. rewrite map_map. apply map_ext_in. intros t Hin.
  destruct (is_topic g n t) eqn:E; [|reflexivity].
  destruct Hi as [He|Hs]; [|apply Hs].
  exfalso. apply filter_In in Hin. destruct Hin as [_ Hkeep]. apply is_topic_spec in E. destruct E as [_ E].
  unfold keep_topic in Hkeep. rewrite E, He in Hkeep. discriminate.
Qed.

Definition slot_names_kept (lk : option job) : Prop :=
  forall j, lk = Some j -> j_phase j = PSnap -> forall g n o, In (g, n, o) (j_slots j) -> eph n = false.

Lemma fresh_of_inert : forall lk g n f l d,
  slot_names_kept lk -> inert n f -> fresh_of lk l d -> fresh_of lk (upd_topic g n f l) d.
Proof.
  intros lk g n f l d Hsn Hi H. unfold fresh_of in *. destruct lk as [j|].
  - unfold job_fresh in *. destruct (j_phase j) eqn:Eph; try (rewrite snapshot_upd_inert by assumption; exact H).
    intros g' n' e Hin. destruct (H g' n' e Hin) as (t & Hget & He).
    destruct Hi as [Hk Hi]. rewrite get_topic_upd by assumption. rewrite Hget. cbn.
    eexists. split; [reflexivity|]. destruct (is_topic g n t) eqn:E; [|exact He].
    destruct Hi as [Heph|Hs]; [|rewrite Hs; exact He].
    exfalso. apply is_topic_spec in E. destruct E as [_ E].
    destruct (get_topic_some _ _ _ _ Hget) as (_ & _ & En'). 
    specialize (Hsn j eq_refl Eph g' n' (Some e) Hin). congruence.
  - destruct H as (c & Hc & Hd). exists c. split; [exact Hc|]. rewrite snapshot_upd_inert by assumption. exact Hd.
Qed.

Lemma snapshot_snoc_eph : forall l t, keep_topic t = false -> snapshot (l ++ [t]) = snapshot l.
Proof.
  intros. unfold snapshot. rewrite filter_app. cbn. rewrite H. rewrite app_nil_r. reflexivity.
Qed.

Lemma snapshot_remove_eph : forall l n, eph n = true -> snapshot (remove_topic n l) = snapshot l.
Proof.
  intros l n He. unfold snapshot, remove_topic. f_equal.
  induction l as [|t l IH]; cbn; [reflexivity|].
  destruct (name_eqb (t_name t) n) eqn:E; cbn.
  - apply name_eqb_eq in E. unfold keep_topic at 2. rewrite E, He. cbn. exact IH.
  - destruct (keep_topic t); [f_equal|]; exact IH.
Qed.

(* inert changes used by the micro-steps *)
Lemma inert_texiting : forall n, inert n set_texiting.
Proof. intros n. split; [apply keeps_set_texiting|right; reflexivity]. Qed.

Lemma keep_chan_eph : forall i c b e, eph c = true -> keep_chan (mkC i c b e) = false.
Proof. intros. unfold keep_chan. cbn. rewrite H. reflexivity. Qed.

Lemma inert_add_eph_chan : forall n i c, eph c = true ->
  inert n (fun tp => set_chans (t_chans tp ++ [mkC i c false false]) tp).
Proof.
  intros n i c He. split; [apply keeps_set_chans_f|right]. intros t. unfold snap_topic. cbn.
  rewrite filter_app. cbn. rewrite keep_chan_eph by assumption. rewrite app_nil_r. reflexivity.
Qed.

Lemma snap_chans_cexiting : forall h c cs,
  map snap_chan (filter keep_chan (upd_chan h c set_cexiting cs)) = map snap_chan (filter keep_chan cs).
Proof.
  intros h c cs. unfold upd_chan. induction cs as [|x cs IH]; cbn; [reflexivity|].
  assert (E : keep_chan (if is_chan h c x then set_cexiting x else x) = keep_chan x)
    by (destruct (is_chan h c x); reflexivity).
  rewrite E. destruct (keep_chan x); cbn; rewrite IH; [f_equal|reflexivity].
  destruct (is_chan h c x); reflexivity.
Qed.

Lemma inert_cexiting : forall n h c,
  inert n (fun tp => set_chans (upd_chan h c set_cexiting (t_chans tp)) tp).
Proof.
  intros n h c. split; [apply keeps_set_chans_f|right]. intros t. unfold snap_topic. cbn.
  rewrite snap_chans_cexiting. reflexivity.
Qed.

Lemma filter_keep_remove_eph : forall c cs, eph c = true ->
  filter keep_chan (remove_chan c cs) = filter keep_chan cs.
Proof.
  intros c cs He. unfold remove_chan. induction cs as [|x cs IH]; cbn; [reflexivity|].
  destruct (name_eqb (c_name x) c) eqn:E; cbn.
  - apply name_eqb_eq in E. unfold keep_chan at 2. rewrite E, He. cbn. exact IH.
  - destruct (keep_chan x); [f_equal|]; exact IH.
Qed.

Lemma inert_remove_chan : forall n c, (eph n = true \/ eph c = true) ->
  inert n (fun tp => set_chans (remove_chan c (t_chans tp)) tp).
Proof.
  intros n c H. split; [apply keeps_set_chans_f|]. destruct H as [H|H]; [left; exact H|right].
  intros t. unfold snap_topic. cbn. rewrite filter_keep_remove_eph by assumption. reflexivity.
Qed.

Lemma inert_eph : forall n f, eph n = true -> keeps_idname f -> inert n f.
Proof. intros. split; auto. Qed.

(* obligations survive a step of another thread, or of this thread if it keeps its MSync *)
Lemma obliged_put : forall s s' i m rest p,
  get_thread i (threads s) = Some (m :: rest) ->
  obliged s -> pending s <= pending s' -> threads s' = put_thread i p (threads s) ->
  (In MSync (m :: rest) -> In MSync p) -> obliged s'.
Proof.
  intros s s' i m rest p Hget [Hp|(j & q & Hin & Hq)] Hle Hth Hkeep.
  - left. lia.
  - right. destruct (put_thread_in i p (threads s) j q (m :: rest) Hin Hget) as [H|[-> ->]].
    + exists j, q. rewrite Hth. auto.
    + specialize (Hkeep Hq). exists i, p. split; [|exact Hkeep]. rewrite Hth.
      unfold put_thread. destruct p; [contradiction|]. eapply set_thread_has. exact Hget.
Qed.

Lemma obliged_new : forall s s' i p0 p,
  get_thread i (threads s) = Some p0 -> threads s' = put_thread i p (threads s) -> In MSync p -> obliged s'.
Proof.
  intros s s' i p0 p Hget Hth Hin. right. exists i, p. split; [|exact Hin]. rewrite Hth.
  unfold put_thread. destruct p; [contradiction|]. eapply set_thread_has. exact Hget.
Qed.

Lemma inv2_case : forall s s' i m rest p,
  get_thread i (threads s) = Some (m :: rest) ->
  threads s' = put_thread i p (threads s) ->
  pending s <= pending s' ->
  (fresh s \/ obliged s) ->
  ((fresh s -> fresh s') \/ pending s' > 0 \/ In MSync p) ->
  (In MSync (m :: rest) -> In MSync p \/ fresh s') ->
  fresh s' \/ obliged s'.
Proof.
  intros s s' i m rest p Hget Hth Hle Hinv Htr Hkeep.
  assert (Hnew : pending s' > 0 \/ In MSync p -> obliged s').
  { intros [H|H]; [left; exact H|eapply obliged_new; eauto]. }
  destruct Hinv as [Hf|Ho].
  - destruct Htr as [H|H]; [left; auto|right; auto].
  - destruct Ho as [Hp|(j & q & Hin & Hq)]; [right; left; lia|].
    destruct (put_thread_in i p (threads s) j q (m :: rest) Hin Hget) as [H|[-> ->]].
    + right. right. exists j, q. rewrite Hth. auto.
    + destruct (Hkeep Hq) as [H|H]; [right; apply Hnew; right; exact H|left; exact H].
Qed.

Lemma slot_names_kept_inv1 : forall s, Inv1 s -> slot_names_kept (lock s).
Proof.
  intros s I j Hj Eph g n o Hin. destruct (i1_job s I j Hj) as [_ Hok]. unfold job_ok in Hok.
  rewrite Eph in Hok. destruct Hok as [Hs _].
  assert (H : In (g, n) (map fst (j_slots j))) by (apply in_map_iff; exists (g, n, o); auto).
  rewrite Hs in H. destruct (in_idname_filter _ _ _ H) as (t & _ & _ & En & Hk).
  unfold keep_topic in Hk. rewrite En in Hk. destruct (eph n); [discriminate|reflexivity].
Qed.

Lemma inv2_case' : forall s s' i m rest p,
  get_thread i (threads s) = Some (m :: rest) ->
  threads s' = put_thread i p (threads s) ->
  pending s <= pending s' ->
  lock s' = lock s -> dat (fs s') = dat (fs s) ->
  (fresh s \/ obliged s) ->
  ((fresh_of (lock s) (live_ s) (dat (fs s)) -> fresh_of (lock s) (live_ s') (dat (fs s)))
   \/ pending s' > 0 \/ In MSync p) ->
  (In MSync (m :: rest) -> In MSync p) ->
  fresh s' \/ obliged s'.
Proof.
  intros s s' i m rest p Hget Hth Hle Hl Hd Hinv Htr Hkeep.
  eapply inv2_case; try eassumption.
  - unfold fresh. rewrite Hl, Hd. exact Htr.
  - intros H. left. auto.
Qed.

Lemma spawn_pending : forall b s, pending s <= pending (spawn b s).
Proof. intros [] s; cbn; lia. Qed.
Lemma spawn_pending_true : forall s, pending (spawn true s) > 0.
Proof. intros s; cbn; lia. Qed.
Lemma spawn_lock : forall b s, lock (spawn b s) = lock s.
Proof. intros [] s; reflexivity. Qed.
Lemma spawn_fs : forall b s, fs (spawn b s) = fs s.
Proof. intros [] s; reflexivity. Qed.

Lemma in_msync_tail : forall m rest, m <> MSync -> In MSync (m :: rest) -> In MSync rest.
Proof. intros m rest Hn [H|H]; [congruence|exact H]. Qed.

Lemma in_msync_skip_drop : forall p, In MSync p -> In MSync (skip_drop p).
Proof. intros [|[] p] H; cbn in *; try exact H. destruct H as [H|H]; [discriminate|exact H]. Qed.

Lemma fresh_new_job : forall o l lo d, fresh_of (Some (new_job o l lo)) l d.
Proof.
  intros. cbn. unfold job_fresh, new_job. cbn. intros g n e H. exfalso. eapply slots_new_unfilled. exact H.
Qed.

Ltac side_eq := cbn; rewrite ?spawn_threads, ?spawn_lock, ?spawn_fs, ?spawn_live; cbn; first [reflexivity | assumption].
Ltac side_le := cbn; first [lia | (etransitivity; [|apply spawn_pending]; cbn; lia)].
Ltac tail_keep := first [ (apply in_msync_tail; discriminate)
                        | (let H := fresh in intros H; apply in_msync_skip_drop; apply in_msync_tail in H; [exact H|discriminate])
                        | (let H := fresh in intros H; apply in_or_app; right; apply in_msync_tail in H; [exact H|discriminate]) ].

Lemma Inv2_exec : forall s i m rest,
  Inv1 s -> Inv3 s -> Inv2 s ->
  get_thread i (threads s) = Some (m :: rest) -> Inv2 (exec true s i m rest).
Proof.
  intros s i m rest I1 I3 I2 Hget.
  assert (Hup : up s = true).
  { destruct (up s) eqn:E; [reflexivity|]. destruct (i1_down s I1 E) as (_ & Ht & _). rewrite Ht in Hget. discriminate. }
  specialize (I2 Hup).
  assert (Hw : wf_prog (m :: rest)) by (eapply I3; apply get_thread_in; exact Hget).
  destruct Hw as [Hneed _].
  pose proof (slot_names_kept_inv1 s I1) as Hsn.
  intros _.
  assert (SAME : forall s' p, threads s' = put_thread i p (threads s) -> pending s <= pending s' ->
            lock s' = lock s -> dat (fs s') = dat (fs s) -> live_ s' = live_ s ->
            (In MSync (m :: rest) -> In MSync p) -> fresh s' \/ obliged s').
  { intros s' p Hth Hle Hl Hd Hlv Hk. eapply inv2_case'; try eassumption. left. rewrite Hlv. auto. }
  assert (INERT : forall s' g n f, threads s' = put_thread i rest (threads s) -> pending s <= pending s' ->
            lock s' = lock s -> dat (fs s') = dat (fs s) -> live_ s' = upd_topic g n f (live_ s) ->
            inert n f -> m <> MSync -> fresh s' \/ obliged s').
  { intros s' g n f Hth Hle Hl Hd Hlv Hi Hm. eapply inv2_case'; try eassumption.
    - left. rewrite Hlv. apply fresh_of_inert; assumption.
    - apply in_msync_tail. exact Hm. }
  assert (NEED : forall s', threads s' = put_thread i rest (threads s) -> pending s <= pending s' ->
            lock s' = lock s -> dat (fs s') = dat (fs s) -> needs_sync m = true -> m <> MSync ->
            fresh s' \/ obliged s').
  { intros s' Hth Hle Hl Hd Hn Hm. eapply inv2_case'; try eassumption.
    - right. right. auto.
    - apply in_msync_tail. exact Hm. }
  assert (GEN : forall s', threads s' = put_thread i rest (threads s) -> pending s <= pending s' ->
            lock s' = lock s -> dat (fs s') = dat (fs s) -> m <> MSync ->
            ((fresh_of (lock s) (live_ s) (dat (fs s)) -> fresh_of (lock s) (live_ s') (dat (fs s))) \/ pending s' > 0) ->
            fresh s' \/ obliged s').
  { intros s' Hth Hle Hl Hd Hm Htr. eapply inv2_case'; try eassumption.
    - destruct Htr as [H|H]; [left; exact H|right; left; exact H].
    - apply in_msync_tail. exact Hm. }
  destruct m; cbn [exec].
  - (* MEnter *)
    destruct (lock_free s); [|exact I2]. eapply SAME; [side_eq|side_le|side_eq|side_eq|side_eq|tail_keep].
  - eapply SAME; [side_eq|side_le|side_eq|side_eq|side_eq|tail_keep].
  - (* MInsertTopic *)
    unfold lock_free. destruct (lock s) eqn:EL; [exact I2|].
    destruct (find_topic t (live_ s)).
    + eapply SAME; [side_eq|side_le|side_eq|side_eq|side_eq|tail_keep].
    + eapply GEN; [side_eq|side_le|side_eq|side_eq|discriminate|].
      destruct (eph t) eqn:Ee; cbn.
      * left. cbn. intros (c & Hc & Hd). exists c. split; [exact Hc|].
        rewrite Hd. symmetry. apply snapshot_snoc_eph. unfold keep_topic. cbn. rewrite Ee. reflexivity.
      * right. lia.
  - (* MInsertChan *)
    destruct (get_topic g t (live_ s)) as [tp|].
    + destruct (find_chan c (t_chans tp)).
      * eapply SAME; [side_eq|side_le|side_eq|side_eq|side_eq|tail_keep].
      * destruct (eph c) eqn:Ee; cbn [negb spawn].
        -- eapply INERT; [side_eq|side_le|side_eq|side_eq|side_eq|apply inert_add_eph_chan; exact Ee|discriminate].
        -- eapply GEN; [side_eq|side_le|side_eq|side_eq|discriminate|]. right. cbn. lia.
    + eapply SAME; [side_eq|side_le|side_eq|side_eq|side_eq|tail_keep].
  - (* MExitTopic *)
    destruct (get_topic g t (live_ s)) as [tp|].
    + destruct (t_exiting tp).
      * eapply SAME; [side_eq|side_le|side_eq|side_eq|side_eq|tail_keep].
      * eapply INERT; [side_eq|side_le|side_eq|side_eq|side_eq|apply inert_texiting|discriminate].
    + eapply SAME; [side_eq|side_le|side_eq|side_eq|side_eq|tail_keep].
  - (* MDropChans *)
    destruct (get_topic g t (live_ s)) as [tp|].
    + destruct (eph t) eqn:Ee.
      * eapply INERT; [side_eq|side_le|side_eq|side_eq|side_eq|apply inert_eph; [exact Ee|apply keeps_set_chans]|discriminate].
      * eapply NEED; [side_eq|side_le|side_eq|side_eq|cbn; rewrite Ee; reflexivity|discriminate].
    + eapply SAME; [side_eq|side_le|side_eq|side_eq|side_eq|tail_keep].
  - (* MRemoveTopic *)
    unfold lock_free. destruct (lock s) eqn:EL; [exact I2|].
    destruct (eph t) eqn:Ee.
    + eapply GEN; [side_eq|side_le|side_eq|side_eq|discriminate|].
      left. cbn. intros (c & Hc & Hd). exists c. split; [exact Hc|].
      rewrite Hd. symmetry. apply snapshot_remove_eph. exact Ee.
    + eapply NEED; [side_eq|side_le|side_eq|side_eq|cbn; rewrite Ee; reflexivity|discriminate].
  - (* MExitChan *)
    destruct (get_topic g t (live_ s)) as [tp|].
    + destruct (find (is_chan h c) (t_chans tp)) as [ch|].
      * destruct (c_exiting ch).
        -- eapply SAME; [side_eq|side_le|side_eq|side_eq|side_eq|tail_keep].
        -- eapply INERT; [side_eq|side_le|side_eq|side_eq|side_eq|apply inert_cexiting|discriminate].
      * eapply SAME; [side_eq|side_le|side_eq|side_eq|side_eq|tail_keep].
    + eapply SAME; [side_eq|side_le|side_eq|side_eq|side_eq|tail_keep].
  - (* MRemoveChan *)
    destruct (eph t) eqn:Et; [|destruct (eph c) eqn:Ec].
    + eapply INERT; [side_eq|side_le|side_eq|side_eq|side_eq|apply inert_remove_chan; left; exact Et|discriminate].
    + eapply INERT; [side_eq|side_le|side_eq|side_eq|side_eq|apply inert_remove_chan; right; exact Ec|discriminate].
    + eapply NEED; [side_eq|side_le|side_eq|side_eq|cbn; rewrite Et, Ec; reflexivity|discriminate].
  - eapply NEED; [side_eq|side_le|side_eq|side_eq|reflexivity|discriminate].
  - eapply NEED; [side_eq|side_le|side_eq|side_eq|reflexivity|discriminate].
  - (* MSync *)
    unfold lock_free. destruct (lock s) eqn:EL; [exact I2|].
    left. unfold fresh. cbn [lock live_ fs w_threads w_lock]. apply fresh_new_job.
  - exact I2.
  - eapply SAME; [side_eq|side_le|side_eq|side_eq|side_eq|tail_keep].
Qed.

Lemma slot_doc_snapshot : forall l sl L',
  map fst sl = map idname L' ->
  (forall x, In x sl -> unread x = false) ->
  slots_fresh sl l ->
  (forall t, In t L' -> get_topic (t_id t) (t_name t) l = Some t) ->
  slot_doc sl = map snap_topic L'.
Proof.
  intros l sl. induction sl as [|[[g n] o] sl IH]; intros L' Hm Hall Hf Hu.
  - destruct L'; [reflexivity|discriminate].
  - destruct L' as [|t L']; [discriminate|]. cbn in Hm. inversion Hm; subst g n.
    destruct o as [e|]; [|specialize (Hall _ (or_introl eq_refl)); discriminate].
    cbn. f_equal.
    + destruct (Hf _ _ _ (or_introl eq_refl)) as (t' & Hget & ->).
      rewrite (Hu t (or_introl eq_refl)) in Hget. inversion Hget. reflexivity.
    + apply IH; auto.
      * intros x Hx. apply Hall. right. exact Hx.
      * intros g n e' Hin. apply (Hf g n e'). right. exact Hin.
      * intros t' Ht'. apply Hu. right. exact Ht'.
Qed.

Lemma obliged_same : forall s s', pending s <= pending s' -> threads s' = threads s -> obliged s -> obliged s'.
Proof.
  intros s s' Hp Ht [H|H]; [left; lia|right; rewrite Ht; exact H].
Qed.

Lemma Inv2_persist : forall s j k,
  Inv0 s -> Inv1 s -> Inv2 s -> lock s = Some j -> Inv2 (persist_step s j k).
Proof.
  intros s j k I0 I1 I2 Hl.
  destruct (i1_job s I1 j Hl) as [Hup Hok].
  destruct (i1_hist s I1 Hup) as [r Hr].
  specialize (I2 Hup). unfold fresh in I2. rewrite Hl in I2. cbn [fresh_of] in I2.
  unfold persist_step. unfold job_ok in Hok. unfold job_fresh in I2.
  destruct (j_phase j) eqn:Eph.
  - destruct Hok as [Hs Hf].
    destruct (first_unread (j_slots j)) as [i0|] eqn:Efu.
    + intros _. destruct I2 as [Hfr|Ho]; [left|right; eapply obliged_same; [| |exact Ho]; reflexivity].
      unfold fresh. cbn. unfold job_fresh. cbn.
      intros g n e Hin. destruct (fill_in _ _ _ _ _ _ Hin) as [Hold|[Hin' Hrd]].
      * apply (Hfr g n e Hold).
      * rewrite Hs in Hin'. destruct (read_slot_ok s g n e (ex_intro _ r Hr) Hin' Hrd) as (_ & _ & H). exact H.
    + intros _. destruct I2 as [Hfr|Ho]; [left|right; eapply obliged_same; [| |exact Ho]; reflexivity].
      unfold fresh. cbn. unfold job_fresh. cbn.
      apply slot_doc_snapshot with (l := live_ s); auto.
      * apply first_unread_none. exact Efu.
      * intros t Ht. apply filter_In in Ht. destruct I0 as [N B]. eapply get_topic_unique; [split; eassumption|tauto].
  - destruct Hok as (c & Hlk & Hdoc & Hfh). rewrite Hlk.
    destruct (Nat.eqb _ _); intros _;
      (destruct I2 as [Hfr|Ho]; [left; unfold fresh; cbn; rewrite ?Hl; cbn; unfold job_fresh; cbn; rewrite ?Eph; exact Hfr
                                 |right; eapply obliged_same; [| |exact Ho]; reflexivity]).
  - destruct Hok as (c & Hlk & Hdoc & Hc & Hfh). rewrite Hlk. intros _.
    destruct I2 as [Hfr|Ho]; [left; exact Hfr|right; eapply obliged_same; [| |exact Ho]; reflexivity].
  - intros _. destruct I2 as [Hfr|Ho]; [left; exact Hfr|right; eapply obliged_same; [| |exact Ho]; reflexivity].
  - destruct Hok as (c & Hlk & Hdoc & Hc & Hsy & Hfh). rewrite Hlk.
    set (s1 := w_lo (w_lock (w_fs s (mkFS (Some c) (delete (j_tmp j) (tmps (fs s))))) None) (j_lo j)).
    assert (F1 : (j_doc j = snapshot (live_ s)) -> forall ths, fresh (w_threads s1 ths)).
    { intros H ths. unfold fresh. cbn. exists c. split; [reflexivity|]. rewrite Hdoc. exact H. }
    assert (O1 : obliged s -> obliged s1).
    { intros Ho. eapply obliged_same; [| |exact Ho]; reflexivity. }
    destruct (j_owner j) as [i|].
    + destruct (get_thread i (threads s1)) as [[|m rest]|] eqn:Hth;
        try (intros _; destruct I2 as [Hfr|Ho]; [left; apply (F1 Hfr (threads s1))|right; apply O1; exact Ho]).
      destruct m; try (intros _; destruct I2 as [Hfr|Ho]; [left; apply (F1 Hfr (threads s1))|right; apply O1; exact Ho]).
      intros _. destruct I2 as [Hfr|Ho]; [left; apply (F1 Hfr)|right].
      eapply obliged_put with (s := s1); [exact Hth|apply O1; exact Ho|reflexivity|reflexivity|].
      apply in_msync_tail. discriminate.
    + intros _. destruct I2 as [Hfr|Ho]; [left; apply (F1 Hfr (threads s1))|right; apply O1; exact Ho].
Qed.

(* write faults: after a failed persist the file is stale until the next successful one, so
   the idle theorem is about schedules without them *)
Definition not_fault (e : ev) : Prop := match e with EFault _ => False | _ => True end.
Definition fault_free (evs : list ev) : Prop := Forall not_fault evs.

Lemma Inv2_step : forall s e, not_fault e -> Inv0 s -> Inv1 s -> Inv3 s -> Inv2 s -> Inv2 (step s e).
Proof.
  intros s e NF I0 I1 I3 I2. destruct e as [i o|i| |k|kf| |]; rewrite step_fixed; cbn [step_].
  - destruct (up s) eqn:Hup; [|exact I2]. destruct (get_thread i (threads s)); [exact I2|].
    intros _. destruct (I2 Hup) as [H|H]; [left; exact H|right].
    destruct H as [H|(j & q & Hin & Hq)]; [left; exact H|right]. exists j, q. cbn. split; [apply in_or_app; left; exact Hin|exact Hq].
  - destruct (get_thread i (threads s)) as [[|m rest]|] eqn:Hth; try exact I2. apply Inv2_exec; assumption.
  - destruct (lock s) eqn:Hl; [exact I2|]. destruct (pending s) eqn:Hp; [exact I2|].
    intros _. left. unfold fresh. cbn [lock live_ fs w_lock w_pending]. apply fresh_new_job.
  - destruct (lock s) as [j|] eqn:Hl; [|exact I2]. apply Inv2_persist; assumption.
  - destruct NF.
  - destruct (up s); [|exact I2]. intros H. discriminate.
  - destruct (up s || broken s); [exact I2|]. unfold restart.
    destruct (dat (fs s)) as [c|].
    + destruct (complete c); [|intros H; discriminate].
      destruct (load (f_doc c) (next_id s)) as [l nid]. intros _. left. unfold fresh, boot. cbn [lock live_ fs]. apply fresh_new_job.
    + intros _. left. unfold fresh, boot. cbn [lock live_ fs]. apply fresh_new_job.
Qed.

Record InvAll (s : st) : Prop := { ia0 : Inv0 s; ia1 : Inv1 s; ia3 : Inv3 s; ia2 : Inv2 s }.

Lemma InvAll_init : InvAll init.
Proof.
  constructor; [apply Inv0_init|apply Inv1_init| |].
  - intros i p H. contradiction.
  - intros H. discriminate.
Qed.

Lemma InvAll_run_from : forall evs s, fault_free evs -> InvAll s -> InvAll (run s evs).
Proof.
  induction evs as [|e evs IH]; intros s Hf I; cbn; [exact I|].
  inversion Hf; subst. apply IH; [assumption|]. destruct I as [A B C D].
  constructor; [apply Inv0_step|apply Inv1_step|apply Inv3_step|apply Inv2_step]; assumption.
Qed.

Lemma InvAll_run : forall evs, fault_free evs -> InvAll (run init evs).
Proof. intros. apply InvAll_run_from; [assumption|apply InvAll_init]. Qed.

(* C06_idle_full: whenever the daemon is idle (no request in progress, no Notify goroutine
   pending, nobody persisting) nsqd.dat is a complete document equal to the persisted form
   of the live state -- for every interleaving of requests, Notify goroutines, persist
   steps, kills and restarts. *)
Lemma idle_full : forall evs, fault_free evs ->
  let s := run init evs in
  idle s -> exists c, dat (fs s) = Some c /\ complete c = true /\ f_synced c = true /\ f_doc c = snapshot (live_ s).
Proof.
  intros evs Hff s (Hup & Hth & Hp & Hl). destruct (InvAll_run evs Hff) as [_ I1 _ I2]. fold s in I1, I2.
  destruct (I2 Hup) as [H|[H|(i & p & Hin & _)]].
  - unfold fresh in H. rewrite Hl in H. destruct H as (c & Hc & Hd). exists c.
    destruct (i1_dat s I1 c Hc) as (? & ? & _). auto.
  - lia.
  - rewrite Hth in Hin. contradiction.
Qed.
