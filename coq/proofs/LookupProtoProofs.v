(* C15: the byte-level model of an nsqlookupd connection never panics, answers malformed
   commands with the specified codes and refuses them, cannot touch another connection's
   registrations; an HTTP request answered 4xx (or by the router) changes nothing.
   The model's tables are tied to the generated ones (gen/LookupdTables.v). *)
From Coq Require Import List NArith ZArith Bool Lia String Ascii.
From NSQV Require Import gen.LookupdTables model.Judge model.Names model.Lookupd model.LookupSpec model.LookupProto
  proofs.LookupdBase proofs.LookupdRefine proofs.LookupdShape.
Import ListNotations.
Open Scope bool_scope.

(* ------------------------------------------------------------------ tables *)
Theorem routes_tied :
  map (fun e => (fst (fst e), snd (fst e), handler_name (snd e))) routes = lookupd_routes.
Proof. reflexivity. Qed.

Theorem router_settings_tied : lookupd_router_settings = ["HandleMethodNotAllowed=true"%string].
Proof. reflexivity. Qed.

Theorem exec_table_tied : exec_table = lookupd_exec /\ lookupd_exec_default = "E_INVALID"%string.
Proof. split; reflexivity. Qed.

Theorem summaries_tied :
  identify_summary = lookupd_IDENTIFY_summary /\
  register_summary = lookupd_REGISTER_summary /\
  unregister_summary = lookupd_UNREGISTER_summary /\
  get_topic_chan_summary = lookupd_getTopicChan_summary /\
  ioloop_exit_summary = lookupd_IOLoop_exit_summary /\
  ioloop_read_summary = lookupd_IOLoop_read_summary /\
  lookupd_PING_summary = [] /\
  http_summaries = [lookupd_doCreateTopic_summary; lookupd_doDeleteTopic_summary; lookupd_doCreateChannel_summary;
                    lookupd_doDeleteChannel_summary; lookupd_doTombstoneTopicProducer_summary;
                    lookupd_doLookup_summary; lookupd_doChannels_summary] /\
  filter_skip_cond = lookupd_filter_skip_cond /\
  is_tombstoned_expr = lookupd_is_tombstoned_expr.
Proof. repeat split; reflexivity. Qed.

Definition bytes_of_string (s : string) : bytes := map N_of_ascii (list_ascii_of_string s).

(* the model dispatches exactly the command words of Exec's switch, and accepts exactly
   the protocol magic of tcp.go *)
Theorem dispatch_tied :
  map (fun e => dispatch (bytes_of_string (fst (fst e)))) lookupd_exec = [CmdPing; CmdIdentify; CmdRegister; CmdUnregister]
  /\ map bytes_of_string lookupd_magics = [magic_v1].
Proof. split; reflexivity. Qed.

(* tcp.go Handle has the shape the model transcribes; in particular the clause for every
   other magic answers E_BAD_PROTOCOL, closes and ends the function before prot (nil there)
   is used, and so does the short-read branch *)
Theorem handle_tied : handle_shape = lookupd_Handle_shape.
Proof. reflexivity. Qed.

Theorem magic_refusal_returns : exists pre post,
  lookupd_Handle_shape =
    (pre ++ ["default:"; "call protocol.SendResponse E_BAD_PROTOCOL"; "call Close"; "return"; "}"]%string ++ post)%list
  /\ ~ In "call NewClient"%string pre /\ hd_error post = Some "call NewClient"%string
  /\ exists pre', pre = (["call make"; "call io.ReadFull"; "if err != nil {"; "call Close"; "return"; "}"]%string ++ pre')%list.
Proof.
  exists ["call make"; "call io.ReadFull"; "if err != nil {"; "call Close"; "return"; "}"; "call string";
          "switch protocolMagic {"; "case ""  V1"":"; "set prot"]%string.
  eexists. split; [reflexivity|]. split; [|split; [reflexivity|eexists; reflexivity]].
  cbn. intros H. repeat (destruct H as [H|H]; [discriminate|]). exact H.
Qed.

(* the size guard of the model is the one the IDENTIFY handler has, placed before make *)
Theorem identify_guard_tied :
  exists pre post, lookupd_IDENTIFY_summary =
    (pre ++ ["if bodyLen <= 0 => E_BAD_BODY"%string; "call make"%string] ++ post)%list
    /\ ~ In "call make"%string pre.
Proof.
  exists ["if client.peerInfo != nil => E_INVALID"%string; "call binary.Read"%string; "if err != nil => E_BAD_BODY"%string].
  eexists. split; [reflexivity|]. cbn. intros [H|[H|[H|[]]]]; discriminate.
Qed.

(* the connection's registry identity comes from the socket: the only write of the id in
   IDENTIFY is the initialisation that precedes json.Unmarshal, and the handlers key every
   registry call by client.peerInfo *)
Theorem identity_tied :
  identify_identity = lookupd_IDENTIFY_peerinfo_writes /\ identity_uses = lookupd_identity_uses.
Proof. split; reflexivity. Qed.

Theorem identity_from_socket :
  exists post, lookupd_IDENTIFY_peerinfo_writes =
    ("peerInfo := PeerInfo{id: client.RemoteAddr().String()}"%string :: "call json.Unmarshal(&peerInfo)"%string :: post)
    /\ forall w, In w post -> w <> "call json.Unmarshal(&peerInfo)"%string /\ prefix "peerInfo.id" w = false
                             /\ prefix "peerInfo =" w = false /\ prefix "client.peerInfo.id" w = false.
Proof.
  eexists. split; [reflexivity|].
  cbn. intros w [H|[H|[H|[]]]]; subst w; (split; [discriminate|repeat split; reflexivity]).
Qed.

(* ------------------------------------------------------------------ no panic *)
Lemma split_sp_nonempty l : split_sp l <> [].
Proof.
  induction l as [|b r IH]; cbn; [discriminate|].
  destruct (N.eqb b 32); [discriminate|]. destruct (split_sp r); discriminate.
Qed.

Lemma of_resp_not_panic s r rest : of_resp s r rest <> OnePanic.
Proof. destruct r; discriminate. Qed.

Lemma identify_not_panic decode s p rest : identify true decode s p rest <> OnePanic.
Proof.
  unfold identify. destruct (is_node s p); [discriminate|].
  destruct rest as [|b0 [|b1 [|b2 [|b3 rest']]]]; try discriminate.
  cbn [andb]. destruct (be_int32 b0 b1 b2 b3 <=? 0)%Z eqn:E; [discriminate|].
  unfold make_bytes. apply Z.leb_gt in E.
  destruct (be_int32 b0 b1 b2 b3 <? 0)%Z eqn:E2; [apply Z.ltb_lt in E2; lia|].
  destruct (Nat.ltb _ _); [discriminate|].
  destruct (decode _); [discriminate|].
  destruct (tcp_identify s p i). apply of_resp_not_panic.
Qed.

Lemma exec_line_not_panic decode s p line rest : exec_line true decode s p line rest <> OnePanic.
Proof.
  unfold exec_line. destruct (split_sp (trim_space line)) as [|w params] eqn:E.
  - exfalso. apply (split_sp_nonempty _ E).
  - destruct (dispatch w).
    + destruct (tcp_ping s p). apply of_resp_not_panic.
    + apply identify_not_panic.
    + destruct params as [|t more]; [discriminate|]. destruct (tcp_register s p t (hd [] more)). apply of_resp_not_panic.
    + destruct params as [|t more]; [discriminate|]. destruct (tcp_unregister s p t (hd [] more)). apply of_resp_not_panic.
    + discriminate.
Qed.

Lemma io_loop_not_panic decode fuel : forall s p input acc, io_loop true decode fuel s p input acc <> Panic.
Proof.
  induction fuel as [|f IH]; intros s p input acc; cbn; [discriminate|].
  destruct (read_line input) as [[line rest]|]; [|discriminate].
  destruct (exec_line true decode s p line rest) eqn:E.
  - exfalso. apply (exec_line_not_panic _ _ _ _ _ E).
  - apply IH.
  - discriminate.
Qed.

Theorem no_panic decode s p input : exec_conn decode s p input <> Panic.
Proof.
  unfold exec_conn, exec_conn_g. destruct input as [|m0 [|m1 [|m2 [|m3 rest]]]]; try discriminate.
  destruct (bytes_eqb _ _); [apply io_loop_not_panic|discriminate].
Qed.

(* without the guard the very same model does panic: the F2 witness *)
Definition f2_witness : bytes :=
  (magic_v1 ++ w_IDENTIFY ++ [10; 255; 255; 255; 255]%N)%list.

Lemma unguarded_panics : exec_conn_g false (fun _ => BadJSON) init 1%N f2_witness = Panic.
Proof. vm_compute. reflexivity. Qed.

(* ------------------------------------------------------------------ codes *)
(* every refusal ends the connection after running the exit path on the state the
   command found: nothing is registered by a refused command *)
Definition refused (s : state) (p : peer) (c : code) (o : one) : Prop :=
  o = OneEnd (disconnect s p) (FErr c).

Section Codes.
  Variable decode : bytes -> jres.
  Variable s : state.
  Variable p : peer.
  Variables line rest : bytes.

  Theorem unknown_command_invalid w params :
    split_sp (trim_space line) = w :: params -> dispatch w = CmdInvalid ->
    refused s p E_INVALID (exec_line true decode s p line rest).
  Proof. intros E D. unfold refused, exec_line. rewrite E, D. reflexivity. Qed.

  Theorem register_no_params_invalid w :
    split_sp (trim_space line) = [w] -> dispatch w = CmdRegister \/ dispatch w = CmdUnregister ->
    refused s p E_INVALID (exec_line true decode s p line rest).
  Proof. intros E [D|D]; unfold refused, exec_line; rewrite E, D; reflexivity. Qed.

  Theorem register_before_identify_invalid w t more :
    split_sp (trim_space line) = w :: t :: more -> dispatch w = CmdRegister \/ dispatch w = CmdUnregister ->
    is_node s p = false ->
    refused s p E_INVALID (exec_line true decode s p line rest).
  Proof.
    intros E [D|D] N; unfold refused, exec_line; rewrite E, D;
      [unfold tcp_register|unfold tcp_unregister]; rewrite N; reflexivity.
  Qed.

  Theorem register_bad_topic w t more :
    split_sp (trim_space line) = w :: t :: more -> dispatch w = CmdRegister \/ dispatch w = CmdUnregister ->
    is_node s p = true -> is_valid_name t = false ->
    refused s p E_BAD_TOPIC (exec_line true decode s p line rest).
  Proof.
    intros E [D|D] N V; unfold refused, exec_line; rewrite E, D;
      [unfold tcp_register|unfold tcp_unregister]; rewrite N; unfold check_names; rewrite V; reflexivity.
  Qed.

  Theorem register_bad_channel w t c more :
    split_sp (trim_space line) = w :: t :: c :: more -> dispatch w = CmdRegister \/ dispatch w = CmdUnregister ->
    is_node s p = true -> is_valid_name t = true -> c <> [] -> is_valid_name c = false ->
    refused s p E_BAD_CHANNEL (exec_line true decode s p line rest).
  Proof.
    intros E [D|D] N Vt Hc Vc; unfold refused, exec_line; rewrite E, D; cbn [hd];
      [unfold tcp_register|unfold tcp_unregister]; rewrite N; unfold check_names; rewrite Vt, Vc;
      destruct c; [contradiction|reflexivity|contradiction|reflexivity].
  Qed.

  Theorem identify_again_invalid w params :
    split_sp (trim_space line) = w :: params -> dispatch w = CmdIdentify -> is_node s p = true ->
    refused s p E_INVALID (exec_line true decode s p line rest).
  Proof. intros E D N. unfold refused, exec_line, identify. rewrite E, D, N. reflexivity. Qed.

  (* nonsensical body sizes: fewer than four size bytes, zero, negative, larger than what
     follows; undecodable JSON; missing fields *)
  Theorem identify_bad_body w params :
    split_sp (trim_space line) = w :: params -> dispatch w = CmdIdentify -> is_node s p = false ->
    (List.length rest < 4)%nat
    \/ (exists b0 b1 b2 b3 rest', rest = b0 :: b1 :: b2 :: b3 :: rest' /\
          ((be_int32 b0 b1 b2 b3 <= 0)%Z
           \/ (List.length rest' < Z.to_nat (be_int32 b0 b1 b2 b3))%nat
           \/ decode (firstn (Z.to_nat (be_int32 b0 b1 b2 b3)) rest') = BadJSON
           \/ exists i, decode (firstn (Z.to_nat (be_int32 b0 b1 b2 b3)) rest') = Json i /\ fields_missing i = true)) ->
    refused s p E_BAD_BODY (exec_line true decode s p line rest).
  Proof.
    intros E D N H. unfold refused, exec_line, identify. rewrite E, D, N.
    destruct H as [H|(b0 & b1 & b2 & b3 & rest' & -> & H)].
    - destruct rest as [|b0 [|b1 [|b2 [|b3 rest']]]]; try reflexivity. cbn in H. lia.
    - cbn [andb]. destruct (be_int32 b0 b1 b2 b3 <=? 0)%Z eqn:E0; [reflexivity|]. apply Z.leb_gt in E0.
      unfold make_bytes. destruct (be_int32 b0 b1 b2 b3 <? 0)%Z eqn:E1; [apply Z.ltb_lt in E1; lia|].
      destruct H as [H|[H|[H|[i [H Hm]]]]]; [lia| | |].
      + apply Nat.ltb_lt in H. rewrite H. reflexivity.
      + destruct (Nat.ltb _ _); [reflexivity|]. rewrite H. reflexivity.
      + destruct (Nat.ltb _ _); [reflexivity|]. rewrite H. unfold tcp_identify. rewrite N, Hm.
        unfold fail. reflexivity.
  Qed.
End Codes.

(* wrong protocol magic: E_BAD_PROTOCOL, nothing changes *)
Theorem wrong_magic decode s p m0 m1 m2 m3 rest :
  bytes_eqb [m0; m1; m2; m3] magic_v1 = false ->
  exec_conn decode s p (m0 :: m1 :: m2 :: m3 :: rest) = Done s [FBadProtocol].
Proof. intros H. unfold exec_conn, exec_conn_g. rewrite H. reflexivity. Qed.

(* every error is fatal: it is the last frame of its connection *)
Definition is_err_frame (f : frame) : bool := match f with FErr _ | FBadProtocol => true | _ => false end.

Lemma io_loop_frames decode fuel : forall s p input acc s' fs,
  forallb (fun f => negb (is_err_frame f)) acc = true ->
  io_loop true decode fuel s p input acc = Done s' fs ->
  forallb (fun f => negb (is_err_frame f)) (removelast fs) = true.
Proof.
  induction fuel as [|f IH]; intros s p input acc s' fs Hacc; cbn.
  - intros H. inversion H; subst. clear H.
    assert (forall l, forallb (fun f => negb (is_err_frame f)) l = true ->
                      forallb (fun f => negb (is_err_frame f)) (removelast l) = true) as Hrl.
    { induction l as [|x [|y l] IHl]; cbn; auto. intros H. apply andb_true_iff in H as [-> H]. cbn. apply IHl. exact H. }
    apply Hrl. rewrite forallb_forall in *. intros x Hx. apply Hacc. apply in_rev. assumption.
  - destruct (read_line input) as [[line rest]|].
    + destruct (exec_line true decode s p line rest) as [|s1 fr rest1|s1 fr] eqn:E; [discriminate| |].
      * apply IH. cbn. rewrite Hacc, andb_true_r.
        unfold exec_line in E. destruct (split_sp (trim_space line)) as [|w params]; [discriminate|].
        assert (forall st r rs, of_resp st r rs = OneGoOn s1 fr rest1 -> negb (is_err_frame fr) = true) as Hof.
        { intros st r rs. destruct r; cbn; intros H; inversion H; reflexivity. }
        destruct (dispatch w).
        -- destruct (tcp_ping s p). apply (Hof _ _ _ E).
        -- unfold identify in E. destruct (is_node s p); [discriminate|].
           destruct rest as [|b0 [|b1 [|b2 [|b3 rest']]]]; try discriminate.
           destruct (true && (be_int32 b0 b1 b2 b3 <=? 0)%Z); [discriminate|].
           destruct (make_bytes _); [discriminate|]. destruct (Nat.ltb _ _); [discriminate|].
           destruct (decode _); [discriminate|]. destruct (tcp_identify s p i). apply (Hof _ _ _ E).
        -- destruct params as [|t more]; [discriminate|]. destruct (tcp_register s p t (hd [] more)). apply (Hof _ _ _ E).
        -- destruct params as [|t more]; [discriminate|]. destruct (tcp_unregister s p t (hd [] more)). apply (Hof _ _ _ E).
        -- discriminate.
      * intros H. inversion H; subst. cbn [rev]. rewrite removelast_last.
        rewrite forallb_forall in *. intros x Hx. apply Hacc. apply in_rev. assumption.
    + intros H. inversion H; subst.
      assert (forall l, forallb (fun f => negb (is_err_frame f)) l = true ->
                        forallb (fun f => negb (is_err_frame f)) (removelast l) = true) as Hrl.
      { induction l as [|x [|y l] IHl]; cbn; auto. intros H1. apply andb_true_iff in H1 as [-> H1]. cbn. apply IHl. exact H1. }
      apply Hrl. rewrite forallb_forall in *. intros x Hx. apply Hacc. apply in_rev. assumption.
Qed.

Theorem errors_are_final decode s p input s' fs :
  exec_conn decode s p input = Done s' fs ->
  forallb (fun f => negb (is_err_frame f)) (removelast fs) = true.
Proof.
  unfold exec_conn, exec_conn_g. destruct input as [|m0 [|m1 [|m2 [|m3 rest]]]];
    try (intros H; inversion H; reflexivity).
  destruct (bytes_eqb _ _).
  - apply io_loop_frames. reflexivity.
  - intros H. inversion H. reflexivity.
Qed.

(* ------------------------------------------------------------------ isolation *)
(* what belongs to connection q *)
Definition same_for (q : peer) (a b : registry) : Prop :=
  (forall k, g_prod a k q = g_prod b k q) /\ (forall t, g_tomb a t q = g_tomb b t q)
  /\ find_peer q (g_nodes a) = find_peer q (g_nodes b) /\ g_now a = g_now b.

Lemma same_for_refl q a : same_for q a a.
Proof. repeat split. Qed.

Lemma same_for_trans q a b c : same_for q a b -> same_for q b c -> same_for q a c.
Proof. intros (H1 & H2 & H3 & H4) (G1 & G2 & G3 & G4). repeat split; intros; etransitivity; eauto. Qed.

Lemma same_for_req q a b : req a b -> same_for q a b.
Proof. intros (H1 & H2 & _ & H4 & H5). repeat split; intros; auto. rewrite H2. reflexivity. Qed.

Lemma g_disconnect_same q p r : q <> p -> same_for q (g_disconnect r p) r.
Proof.
  intros Hne. unfold g_disconnect. destruct (connected r p); [|apply same_for_refl].
  repeat split; cbn; intros.
  - destruct (N.eqb_spec q p); [contradiction|]. apply andb_true_r.
  - destruct (N.eqb_spec q p); [contradiction|reflexivity].
  - rewrite find_peer_drop. destruct (N.eqb_spec q p); [contradiction|reflexivity].
Qed.

(* the operations a connection p can cause *)
Definition op_on (p : peer) (o : op) : bool :=
  match o with
  | Identify p' _ | Register p' _ _ | Unregister p' _ _ | Ping p' | Disconnect p' => N.eqb p' p
  | _ => false
  end.

Lemma others_witness r k p q : connected r q = true -> q <> p -> g_prod r k q = true -> others r k p = true.
Proof.
  intros C Hne Hp. unfold others, connected in *.
  destruct (find_peer q (g_nodes r)) as [c|] eqn:F; [|discriminate].
  apply existsb_exists. exists (q, c). split; [apply find_peer_in; assumption|]. cbn.
  destruct (N.eqb_spec q p); [contradiction|]. cbn. assumption.
Qed.

(* a tombstone mark exists only for a registered producer *)
Definition tomb_reg (r : registry) : Prop :=
  forall t q, g_tomb r t q <> None -> g_prod r (topic_key t) q = true.

Lemma g_step_same q p r o : g_wf r -> tomb_reg r -> q <> p -> op_on p o = true -> same_for q (g_step r o) r.
Proof.
  intros Hwf Htr Hne Hon. destruct o; cbn in Hon; try discriminate; apply N.eqb_eq in Hon; subst p0; cbn [g_step].
  - unfold g_identify. destruct (connected r p) eqn:C; [apply g_disconnect_same; assumption|].
    destruct (fields_missing i); [apply same_for_refl|].
    repeat split; cbn; intros.
    + destruct (N.eqb_spec q p); [contradiction|]. rewrite andb_false_r. reflexivity.
    + rewrite find_peer_app. destruct (find_peer q (g_nodes r)); [reflexivity|]. cbn.
      destruct (N.eqb_spec p q); [congruence|reflexivity].
  - unfold g_register. destruct (connected r p); cbn [negb]; [|apply same_for_refl].
    destruct (check_names t c); [apply g_disconnect_same; assumption|].
    repeat split; cbn; intros. destruct (N.eqb_spec q p); [contradiction|]. rewrite andb_false_r. reflexivity.
  - unfold g_unregister. destruct (connected r p); cbn [negb]; [|apply same_for_refl].
    destruct (check_names t c); [apply g_disconnect_same; assumption|].
    destruct (nonempty c); repeat split; cbn; intros.
    + destruct (N.eqb_spec q p); [contradiction|]. cbn [orb].
      destruct (g_prod r k q) eqn:P; [|reflexivity]. cbn [andb].
      destruct (reg_eqb_spec k (chan_key t c)) as [->|]; [|reflexivity].
      rewrite (others_witness r _ p q (Hwf _ _ P) Hne P). reflexivity.
    + destruct (N.eqb_spec q p); [contradiction|]. cbn [orb]. rewrite andb_false_r. cbn [negb]. rewrite andb_true_r.
      destruct (g_prod r k q) eqn:P; [|reflexivity]. cbn [andb].
      destruct (reg_eqb_spec k (topic_key t)) as [->|]; [|reflexivity].
      rewrite (others_witness r _ p q (Hwf _ _ P) Hne P). reflexivity.
    + destruct (N.eqb_spec q p); [contradiction|]. cbn [orb].
      destruct (bytes_eqb t0 t) eqn:E; [|reflexivity]. cbn [andb].
      destruct (others r (topic_key t) p) eqn:O; [reflexivity|]. cbn [negb andb].
      destruct (has_ephemeral_suffix t); [|reflexivity].
      destruct (g_tomb r t0 q) eqn:T; [|reflexivity]. exfalso.
      apply bytes_eqb_eq in E. subst t0.
      assert (g_prod r (topic_key t) q = true) as P by (apply Htr; rewrite T; discriminate).
      rewrite (others_witness r _ p q (Hwf _ _ P) Hne P) in O. discriminate.
  - unfold g_ping. destruct (connected r p); [|apply same_for_refl].
    repeat split; cbn; intros. rewrite find_peer_set_last.
    destruct (find_peer q (g_nodes r)); [|reflexivity]. destruct (N.eqb_spec q p); [contradiction|reflexivity].
  - apply g_disconnect_same. assumption.
Qed.

Lemma tomb_reg_abs s : tomb_reg (abs s).
Proof.
  intros t q H. cbn in *. unfold a_tomb, a_prod in *.
  destruct (get (topic_key t) (db s)) as [ps|]; [|contradiction].
  destruct (find (fun pr => N.eqb (p_id pr) q) ps) eqn:F; [|contradiction].
  destruct (has_prod q ps) eqn:Hp; [reflexivity|]. apply find_none_has_prod in Hp. congruence.
Qed.

(* a connection can only cause operations of its own *)
Lemma fst_step_identify s p i : fst (step s (Identify p i)) = fst (tcp_identify s p i).
Proof. cbn. destruct (tcp_identify s p i). reflexivity. Qed.
Lemma fst_step_register s p t c : fst (step s (Register p t c)) = fst (tcp_register s p t c).
Proof. cbn. destruct (tcp_register s p t c). reflexivity. Qed.
Lemma fst_step_unregister s p t c : fst (step s (Unregister p t c)) = fst (tcp_unregister s p t c).
Proof. cbn. destruct (tcp_unregister s p t c). reflexivity. Qed.
Lemma fst_step_ping s p : fst (step s (Ping p)) = fst (tcp_ping s p).
Proof. cbn. destruct (tcp_ping s p). reflexivity. Qed.

Definition one_state (o : one) : option state :=
  match o with OnePanic => None | OneGoOn s _ _ => Some s | OneEnd s _ => Some s end.

Lemma of_resp_state s r rest : one_state (of_resp s r rest) = Some s.
Proof. destruct r; reflexivity. Qed.

Lemma exec_line_is_op decode s p line rest s' :
  one_state (exec_line true decode s p line rest) = Some s' ->
  exists o, op_on p o = true /\ s' = fst (step s o).
Proof.
  assert (exists o, op_on p o = true /\ disconnect s p = fst (step s o)) as Hdis.
  { exists (Disconnect p). split; [cbn; apply N.eqb_refl|reflexivity]. }
  unfold exec_line. destruct (split_sp (trim_space line)) as [|w params]; [discriminate|].
  destruct (dispatch w).
  - destruct (tcp_ping s p) as [s1 r] eqn:E. rewrite of_resp_state. intros H. inversion H; subst.
    exists (Ping p). split; [cbn; apply N.eqb_refl|]. rewrite fst_step_ping, E. reflexivity.
  - unfold identify. destruct (is_node s p); [intros H; inversion H; subst; exact Hdis|].
    destruct rest as [|b0 [|b1 [|b2 [|b3 rest']]]]; try (intros H; inversion H; subst; exact Hdis).
    destruct (true && (be_int32 b0 b1 b2 b3 <=? 0)%Z); [intros H; inversion H; subst; exact Hdis|].
    destruct (make_bytes _); [discriminate|].
    destruct (Nat.ltb _ _); [intros H; inversion H; subst; exact Hdis|].
    destruct (decode _) as [|i]; [intros H; inversion H; subst; exact Hdis|].
    destruct (tcp_identify s p i) as [s1 r] eqn:E. rewrite of_resp_state. intros H. inversion H; subst.
    exists (Identify p i). split; [cbn; apply N.eqb_refl|]. rewrite fst_step_identify, E. reflexivity.
  - destruct params as [|t more]; [intros H; inversion H; subst; exact Hdis|].
    destruct (tcp_register s p t (hd [] more)) as [s1 r] eqn:E. rewrite of_resp_state. intros H. inversion H; subst.
    exists (Register p t (hd [] more)). split; [cbn; apply N.eqb_refl|]. rewrite fst_step_register, E. reflexivity.
  - destruct params as [|t more]; [intros H; inversion H; subst; exact Hdis|].
    destruct (tcp_unregister s p t (hd [] more)) as [s1 r] eqn:E. rewrite of_resp_state. intros H. inversion H; subst.
    exists (Unregister p t (hd [] more)). split; [cbn; apply N.eqb_refl|]. rewrite fst_step_unregister, E. reflexivity.
  - intros H. inversion H; subst. exact Hdis.
Qed.

Lemma io_loop_is_ops decode fuel : forall s p input acc s' fs,
  io_loop true decode fuel s p input acc = Done s' fs ->
  exists ops, forallb (op_on p) ops = true /\ s' = run s ops.
Proof.
  induction fuel as [|f IH]; intros s p input acc s' fs; cbn [io_loop].
  - intros H. inversion H; subst. exists [Disconnect p]. split; [cbn; rewrite N.eqb_refl; reflexivity|reflexivity].
  - destruct (read_line input) as [[line rest]|].
    + destruct (exec_line true decode s p line rest) as [|s1 fr rest1|s1 fr] eqn:E; [discriminate| |].
      * intros H. destruct (exec_line_is_op decode s p line rest s1) as [o [Ho Hs]]; [rewrite E; reflexivity|].
        destruct (IH _ _ _ _ _ _ H) as [ops [Hops Hrun]]. exists (o :: ops). split.
        -- cbn. rewrite Ho, Hops. reflexivity.
        -- cbn [run fold_left]. rewrite <- Hs. exact Hrun.
      * intros H. inversion H; subst.
        destruct (exec_line_is_op decode s p line rest s') as [o [Ho Hs]]; [rewrite E; reflexivity|].
        exists [o]. split; [cbn; rewrite Ho; reflexivity|]. cbn. symmetry. rewrite Hs. reflexivity.
    + intros H. inversion H; subst. exists [Disconnect p]. split; [cbn; rewrite N.eqb_refl; reflexivity|reflexivity].
Qed.

Theorem conn_is_ops decode s p input s' fs :
  exec_conn decode s p input = Done s' fs ->
  exists ops, forallb (op_on p) ops = true /\ s' = run s ops.
Proof.
  unfold exec_conn, exec_conn_g.
  destruct input as [|m0 [|m1 [|m2 [|m3 rest]]]]; try (intros H; inversion H; subst; exists []; split; reflexivity).
  destruct (bytes_eqb _ _).
  - apply io_loop_is_ops.
  - intros H. inversion H; subst. exists []. split; reflexivity.
Qed.

Lemma ops_same q p ops : forall s,
  wf s -> q <> p -> forallb (op_on p) ops = true -> same_for q (abs (run s ops)) (abs s).
Proof.
  induction ops as [|o ops IH]; intros s Hwf Hne Hall; [apply same_for_refl|].
  cbn in Hall. apply andb_true_iff in Hall as [Ho Hall]. cbn [run fold_left].
  eapply same_for_trans; [apply IH; [apply wf_step; assumption|assumption|assumption]|].
  eapply same_for_trans; [apply same_for_req; apply refine_step; assumption|].
  apply (g_step_same q p); [assumption|apply tomb_reg_abs|assumption|assumption].
Qed.

(* isolation: whatever bytes arrive on connection p, everything that belongs to another
   connection q is exactly what it was *)
Theorem isolation decode s p input s' fs q :
  wf s -> q <> p -> exec_conn decode s p input = Done s' fs ->
  same_for q (abs s') (abs s) /\ wf s'.
Proof.
  intros Hwf Hne H. destruct (conn_is_ops _ _ _ _ _ _ H) as [ops [Hops ->]].
  split; [apply (ops_same q p); assumption|apply wf_run; assumption].
Qed.

(* ... in particular q stays listed (or unlisted) as a producer of every topic *)
Corollary isolation_lookup decode s p input s' fs q i l t :
  wf s -> q <> p -> exec_conn decode s p input = Done s' fs ->
  lookup_producer i l (abs s') t q = lookup_producer i l (abs s) t q.
Proof.
  intros Hwf Hne H. destruct (isolation _ _ _ _ _ _ q Hwf Hne H) as [(H1 & H2 & H3 & H4) _].
  unfold lookup_producer, registered, recent, hidden. rewrite H1, H2, H3, H4. reflexivity.
Qed.

(* ------------------------------------------------------------------ HTTP *)
Lemma h_create_topic_4xx s q s' n : h_create_topic s q = (s', n) -> n <> 200%N -> s' = s.
Proof.
  unfold h_create_topic. destruct q as [|[t|] c nd]; try (intros H; inversion H; reflexivity).
  destruct (negb (is_valid_name t)); intros H; inversion H; subst; [reflexivity|contradiction].
Qed.

Lemma h_delete_topic_4xx s q s' n : h_delete_topic s q = (s', n) -> n <> 200%N -> s' = s.
Proof.
  unfold h_delete_topic. destruct q as [|[t|] c nd]; try (intros H; inversion H; reflexivity).
  destruct (negb (is_valid_name t)); intros H; inversion H; subst; [reflexivity|contradiction].
Qed.

Lemma h_create_channel_4xx s q s' n : h_create_channel s q = (s', n) -> n <> 200%N -> s' = s.
Proof.
  unfold h_create_channel. destruct q as [|t c nd]; [intros H; inversion H; reflexivity|].
  destruct (topic_channel_args t c) as [[t' c']|]; intros H; inversion H; subst; [contradiction|reflexivity].
Qed.

Lemma h_delete_channel_4xx s q s' n : h_delete_channel s q = (s', n) -> n <> 200%N -> s' = s.
Proof.
  unfold h_delete_channel. destruct q as [|t c nd]; [intros H; inversion H; reflexivity|].
  destruct (topic_channel_args t c) as [[t' c']|]; [|intros H; inversion H; reflexivity].
  destruct (find_registrations CChannel t' c' (db s)); intros H; inversion H; subst; [reflexivity|contradiction].
Qed.

Lemma h_tombstone_4xx s q s' n : h_tombstone s q = (s', n) -> n <> 200%N -> s' = s.
Proof.
  unfold h_tombstone. destruct q as [|[t|] c [nd|]]; try (intros H; inversion H; reflexivity);
    destruct (negb (is_valid_name t)); intros H; inversion H; subst; try reflexivity. contradiction.
Qed.

(* an HTTP request that is not answered 200 by a handler changes nothing: every 4xx (bad
   query, missing or invalid argument, unknown topic/channel, unknown path, wrong method),
   every redirect of the router, every pprof page *)
Theorem http_not_200_changes_nothing s m path q s' st :
  http_exec s m path q = (s', st) -> st <> SCode 200 -> s' = s.
Proof.
  unfold http_exec. destruct (find_route m path routes) as [h|].
  - destruct h; try (intros H; inversion H; reflexivity).
    + destruct (h_create_topic s q) as [s1 n] eqn:E. intros H Hn. inversion H; subst.
      apply (h_create_topic_4xx _ _ _ _ E). intros ->. apply Hn. reflexivity.
    + destruct (h_delete_topic s q) as [s1 n] eqn:E. intros H Hn. inversion H; subst.
      apply (h_delete_topic_4xx _ _ _ _ E). intros ->. apply Hn. reflexivity.
    + destruct (h_create_channel s q) as [s1 n] eqn:E. intros H Hn. inversion H; subst.
      apply (h_create_channel_4xx _ _ _ _ E). intros ->. apply Hn. reflexivity.
    + destruct (h_delete_channel s q) as [s1 n] eqn:E. intros H Hn. inversion H; subst.
      apply (h_delete_channel_4xx _ _ _ _ E). intros ->. apply Hn. reflexivity.
    + destruct (h_tombstone s q) as [s1 n] eqn:E. intros H Hn. inversion H; subst.
      apply (h_tombstone_4xx _ _ _ _ E). intros ->. apply Hn. reflexivity.
  - destruct (path_known path routes); intros H; inversion H; reflexivity.
Qed.

Corollary http_4xx_changes_nothing s m path q s' n :
  http_exec s m path q = (s', SCode n) -> (400 <= n < 500)%N -> s' = s.
Proof.
  intros H Hn. apply (http_not_200_changes_nothing _ _ _ _ _ _ H). intros E. inversion E. subst. lia.
Qed.

(* only POST requests on the five admin routes can change the registry *)
Theorem http_readonly s m path q s' st :
  http_exec s m path q = (s', st) -> s' <> s ->
  m = "POST"%string /\ In path ["/topic/create"; "/topic/delete"; "/channel/create"; "/channel/delete"; "/topic/tombstone"]%string.
Proof.
  unfold http_exec. destruct (find_route m path routes) as [h|] eqn:F.
  - intros H Hne.
    assert (In (m, path, h) routes) as Hin.
    { revert F. generalize routes. induction l as [|[[m' p'] h'] l IH]; cbn; [discriminate|].
      destruct (String.eqb m' m && String.eqb p' path) eqn:E.
      - intros H1. inversion H1; subst. apply andb_true_iff in E as [E1 E2].
        apply String.eqb_eq in E1. apply String.eqb_eq in E2. subst. left. reflexivity.
      - intros H1. right. apply IH. assumption. }
    destruct h; try (inversion H; subst; contradiction);
      cbn in Hin; repeat (destruct Hin as [Hin|Hin]; [inversion Hin; subst; cbn; tauto|]); contradiction.
  - destruct (path_known path routes); intros H Hne; inversion H; subst; contradiction.
Qed.
