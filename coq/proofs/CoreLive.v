(* C01, the "keeps being redelivered" half composed over operations: from ANY state,
   wherever an unfinished message of a durable channel sits (queued, in flight with a silent
   or vanished holder, deferred), two scans whose clock has reached the channel's horizon
   bring it back to the channel's queue, where delivery to any ready consumer is enabled. *)
From Coq Require Import List NArith ZArith Bool Lia.
From RecordUpdate Require Import RecordUpdate.
From NSQV Require Import model.Core proofs.CoreBase proofs.CoreFlow proofs.CoreCountInv.
Import ListNotations.
Local Open Scope N_scope.

(* the latest deadline / release time among what the channel holds *)
Definition horizon (ch : chan) : Z :=
  fold_right Z.max 0%Z (map i_deadline (c_ifl ch) ++ map d_release (c_dfr ch)).

Lemma fold_max_ge l x : In x l -> (x <= fold_right Z.max 0%Z l)%Z.
Proof. induction l as [|a l IH]; cbn; [intros []|]. intros [->|H]; [lia|]. specialize (IH H). lia. Qed.

Lemma horizon_ifl ch e : In e (c_ifl ch) -> (i_deadline e <= horizon ch)%Z.
Proof. intros H. apply fold_max_ge, in_app_iff. left. apply in_map, H. Qed.
Lemma horizon_dfr ch e : In e (c_dfr ch) -> (d_release e <= horizon ch)%Z.
Proof. intros H. apply fold_max_ge, in_app_iff. right. apply in_map, H. Qed.

(* lookups after an update of that very channel *)
Lemma find_map_if_chan c (f : chan -> chan) (Hf : forall x, c_id (f x) = c_id x) l :
  find (fun x => c_id x =? c) (map (fun x => if c_id x =? c then f x else x) l)
  = option_map f (find (fun x => c_id x =? c) l).
Proof.
  induction l as [|a l IH]; cbn; [reflexivity|]. destruct (c_id a =? c) eqn:E.
  - rewrite Hf, E. reflexivity.
  - rewrite E. exact IH.
Qed.

Lemma get_chan_upd_chan s t c f : (forall x, c_id (f x) = c_id x) ->
  get_chan (upd_chan s t c f) t c = option_map f (get_chan s t c).
Proof.
  intros Hf. unfold get_chan, find_topic, upd_chan, upd_topic. cbn.
  induction (s_topics s) as [|tp l IH]; cbn; [reflexivity|].
  destruct (t_id tp =? t) eqn:E.
  - cbn. rewrite E. unfold find_chan, upd_chan_in. cbn. apply find_map_if_chan, Hf.
  - rewrite E. exact IH.
Qed.

(* a durable channel's queue only grows under puts *)
Lemma chan_put_durable cfg m ch : c_eph ch = false ->
  c_queue (chan_put cfg m ch) = c_queue ch ++ [m] /\ c_eph (chan_put cfg m ch) = false
  /\ c_dfr (chan_put cfg m ch) = c_dfr ch.
Proof. intros H. unfold chan_put. rewrite H. cbn. auto. Qed.

Lemma fold_put_durable {A} cfg (g : A -> msg) (h : chan -> chan) (ex : list A) :
  (forall x, c_queue (h x) = c_queue x /\ c_eph (h x) = c_eph x /\ c_dfr (h x) = c_dfr x) ->
  forall ch, c_eph ch = false ->
  let r := fold_left (fun ch e => chan_put cfg (g e) (h ch)) ex ch in
  c_queue r = c_queue ch ++ map g ex /\ c_eph r = false /\ c_dfr r = c_dfr ch.
Proof.
  intros Hh. induction ex as [|e ex IH]; intros ch Hd; cbn; [rewrite app_nil_r; auto|].
  destruct (Hh ch) as (H1 & H2 & H3).
  destruct (chan_put_durable cfg (g e) (h ch)) as (Q & E & D); [congruence|].
  destruct (IH (chan_put cfg (g e) (h ch)) E) as (Q' & E' & D'). cbn in *.
  split; [rewrite Q', Q, H1, <- app_assoc; reflexivity|]. split; [exact E'|]. rewrite D', D, H3. reflexivity.
Qed.

Lemma scan_ifl_durable cfg now ch : c_eph ch = false ->
  c_queue (ch_scan_ifl cfg now ch) = c_queue ch ++ map i_msg (fst (expired_ifl now (c_ifl ch)))
  /\ c_eph (ch_scan_ifl cfg now ch) = false /\ c_dfr (ch_scan_ifl cfg now ch) = c_dfr ch
  /\ c_id (ch_scan_ifl cfg now ch) = c_id ch.
Proof.
  intros Hd. destruct (scan_ifl_skel cfg now ch) as (I & _ & _).
  assert (H3 : c_queue (ch_scan_ifl cfg now ch) = c_queue ch ++ map i_msg (fst (expired_ifl now (c_ifl ch)))
               /\ c_eph (ch_scan_ifl cfg now ch) = false /\ c_dfr (ch_scan_ifl cfg now ch) = c_dfr ch).
  { unfold ch_scan_ifl. destruct (expired_ifl now (c_ifl ch)) as [ex keep].
    destruct (fold_put_durable cfg i_msg (fun ch => ch <| c_timeout ::= N.succ |>) ex) with (ch := ch <| c_ifl := keep |>) as (Q & E & D);
      [intros x; repeat split|exact Hd|].
    cbn in *. repeat split; assumption. }
  destruct H3 as (A & B & C). repeat split; assumption.
Qed.

Lemma scan_dfr_durable cfg now ch : c_eph ch = false ->
  c_queue (ch_scan_dfr cfg now ch) = c_queue ch ++ map d_msg (fst (expired_dfr now (c_dfr ch))).
Proof.
  intros Hd. unfold ch_scan_dfr. destruct (expired_dfr now (c_dfr ch)) as [ex keep].
  destruct (fold_put_durable cfg d_msg (fun ch => ch) ex) with (ch := ch <| c_dfr := keep |>) as (Q & _ & _);
    [intros x; repeat split|exact Hd|].
  cbn in *. exact Q.
Qed.

Lemma expired_all {A} (p : A -> bool) (l : list A) : (forall e, In e l -> p e = true) -> fst (partition p l) = l.
Proof.
  induction l as [|a l IH]; cbn; [reflexivity|]. intros H.
  rewrite (surjective_pairing (partition p l)). rewrite IH by (intros; apply H; right; assumption).
  rewrite (H a) by (left; reflexivity). reflexivity.
Qed.

Definition live_ids (ch : chan) : list N :=
  map m_id (c_queue ch) ++ map (fun e => m_id (i_msg e)) (c_ifl ch) ++ map (fun e => m_id (d_msg e)) (c_dfr ch).

Theorem back_to_queue cfg s t c ch x :
  get_chan s t c = Some ch -> c_eph ch = false -> In x (live_ids ch) ->
  let now := horizon ch in
  exists ch', get_chan (run cfg s [OScanInFlight t c now; OScanDeferred t c now]) t c = Some ch'
              /\ In x (map m_id (c_queue ch')).
Proof.
  intros G Hd Hx now. unfold run. cbn [fold_left].
  (* first scan *)
  assert (G1 : get_chan (fst (step cfg s (OScanInFlight t c now))) t c = Some (ch_scan_ifl cfg now ch)).
  { cbn [step]. rewrite G. cbn [fst]. rewrite fold_dec_eta. unfold get_chan, find_topic. cbn [s_topics].
    change (get_chan (upd_chan s t c (ch_scan_ifl cfg now)) t c = Some (ch_scan_ifl cfg now ch)).
    rewrite get_chan_upd_chan, G; [reflexivity|]. intros y. apply scan_ifl_skel. }
  destruct (scan_ifl_durable cfg now ch Hd) as (Q1 & E1 & D1 & I1).
  set (s1 := fst (step cfg s (OScanInFlight t c now))) in *.
  set (ch1 := ch_scan_ifl cfg now ch) in *.
  (* second scan *)
  exists (ch_scan_dfr cfg now ch1). split.
  - cbn [step]. rewrite G1. cbn [fst]. rewrite get_chan_upd_chan, G1; [reflexivity|].
    intros y. pose proof (scan_dfr_le cfg now y) as (A & _). symmetry. exact A.
  - rewrite (scan_dfr_durable cfg now ch1 E1), Q1, D1.
    unfold expired_ifl, expired_dfr.
    rewrite (expired_all (fun e => (i_deadline e <=? now)%Z)) by (intros e He; apply Z.leb_le, horizon_ifl, He).
    rewrite (expired_all (fun e => (d_release e <=? now)%Z)) by (intros e He; apply Z.leb_le, horizon_dfr, He).
    unfold live_ids in Hx. rewrite !map_app, !map_map. rewrite !in_app_iff in *. tauto.
Qed.
