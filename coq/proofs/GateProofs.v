(* Proofs about model/Gate.v (property C11).  Every statement quantifies over all
   configurations, connection states, oracle streams, clock readings and command lists,
   and over every regexp semantics (the Section variables). *)
From Coq Require Import List NArith ZArith Bool Lia.
From NSQV Require Import model.Judge model.Names model.Gate.
Import ListNotations.
Open Scope bool_scope.

Section GateProofs.
Variable re_match : str -> str -> bool.
Variable re_ok : str -> bool.

Notation exec := (exec re_match re_ok).
Notation run := (run re_match re_ok).
Notation check_auth := (check_auth re_match re_ok).
Notation query_any := (query_any re_ok).
Notation in_force := (in_force re_ok).
Notation state_is_allowed := (state_is_allowed re_match).

(* ------------------------------------------------------------------ small facts *)
Lemma closes_fail : forall c, closes [RErr c true] = true.
Proof. reflexivity. Qed.

Lemma queries_not_world : forall k q, existsb is_world (queries k q) = false.
Proof. intros k q. unfold queries. induction q; simpl; auto. Qed.

Lemma existsb_app_false : forall (A : Type) (f : A -> bool) l1 l2,
  existsb f l1 = false -> existsb f l2 = false -> existsb f (l1 ++ l2) = false.
Proof. intros. rewrite existsb_app, H, H0. reflexivity. Qed.

Lemma query_any_count : forall n now o, (0 < n)%nat -> (0 < snd (query_any n now o))%nat.
Proof.
  induction n; intros now o Hn; [lia|]. simpl.
  destruct (next_answer o) as [a o']. destruct (query_one re_ok now a).
  - simpl. lia.
  - destruct (query_any n now o') as [[r o''] q]. simpl. lia.
Qed.

Lemma queries_queried : forall k q, (0 < q)%nat ->
  existsb (fun f => match f with FxAuthQuery _ _ _ => true | _ => false end) (queries k q) = true.
Proof. intros k q H. destruct q; [lia|]. reflexivity. Qed.

Lemma auth_enabled_pos : forall cfg, auth_enabled cfg = true -> (0 < c_authd cfg)%nat.
Proof. intros cfg. unfold auth_enabled. destruct (c_authd cfg); simpl; [discriminate | lia]. Qed.

(* ------------------------------------------------------------------ CheckAuth *)
(* shape of every outcome of CheckAuth *)
Inductive ca_spec (cfg : config) (now : Z) (k : conn) (o : oracle) (t ch : str)
  : conn * oracle * list effect * option ecode -> Prop :=
| ca_off : auth_enabled cfg = false -> ca_spec cfg now k o t ch (k, o, [], None)
| ca_first : auth_enabled cfg = true -> has_authorizations k = false ->
    ca_spec cfg now k o t ch (k, o, [], Some E_AUTH_FIRST)
| ca_cached : forall a v, auth_enabled cfg = true -> has_authorizations k = true -> k_auth k = Some a ->
    is_expired a now = false ->
    v = (if state_is_allowed a t ch then None else Some E_UNAUTHORIZED) ->
    ca_spec cfg now k o t ch (k, o, [], v)
| ca_requery_fail : forall a o' q, auth_enabled cfg = true -> has_authorizations k = true -> k_auth k = Some a ->
    is_expired a now = true -> query_any (c_authd cfg) now o = (None, o', q) ->
    ca_spec cfg now k o t ch (k, o', queries k q, Some E_AUTH_FAILED)
| ca_requery : forall a a' o' q v, auth_enabled cfg = true -> has_authorizations k = true -> k_auth k = Some a ->
    is_expired a now = true -> query_any (c_authd cfg) now o = (Some a', o', q) ->
    v = (if state_is_allowed a' t ch then None else Some E_UNAUTHORIZED) ->
    ca_spec cfg now k o t ch (set_auth k (Some a'), o', queries k q, v).

Lemma check_auth_spec : forall cfg now k o t ch, ca_spec cfg now k o t ch (check_auth cfg now k o t ch).
Proof.
  intros. unfold Gate.check_auth.
  destruct (auth_enabled cfg) eqn:Ea; simpl; [|constructor; auto].
  destruct (has_authorizations k) eqn:Eh; simpl; [|constructor; auto].
  destruct (k_auth k) as [a|] eqn:Ek.
  - destruct (is_expired a now) eqn:Ex.
    + destruct (query_any (c_authd cfg) now o) as [[r o'] q] eqn:Eq. destruct r as [a'|].
      * eapply ca_requery; eauto.
      * eapply ca_requery_fail; eauto.
    + eapply ca_cached; eauto.
  - unfold has_authorizations in Eh. rewrite Ek in Eh. discriminate.
Qed.

Ltac rw_hyps :=
  repeat match goal with
  | X : k_auth _ = _ |- _ => rewrite X; clear X
  | X : is_expired _ _ = _ |- _ => rewrite X; clear X
  | X : query_any _ _ _ = _ |- _ => rewrite X; clear X
  end; simpl.

(* what a passing / a refusing CheckAuth implies *)
Definition has_query (fx : list effect) : bool :=
  existsb (fun f => match f with FxAuthQuery _ _ _ => true | _ => false end) fx.

Lemma ca_pass : forall cfg now k o t ch k1 o1 fx,
  ca_spec cfg now k o t ch (k1, o1, fx, None) -> auth_enabled cfg = true ->
  has_authorizations k = true /\
  exists a, in_force cfg now k o = Some a /\ state_is_allowed a t ch = true /\
    ((k_auth k = Some a /\ is_expired a now = false) \/
     (has_query fx = true /\ fst (fst (query_any (c_authd cfg) now o)) = Some a)).
Proof.
  intros * H Ha. inversion H; subst; try congruence.
  - split; auto. exists a. unfold Gate.in_force.
    match goal with X : k_auth _ = Some _ |- _ => rewrite X end.
    match goal with X : is_expired _ _ = _ |- _ => rewrite X end.
    split; auto. split; auto.
    destruct (state_is_allowed a t ch); [reflexivity|discriminate].
  - split; auto. exists a'. unfold Gate.in_force.
    match goal with X : query_any _ _ _ = _ |- _ => rename X into HQ end.
    match goal with X : k_auth _ = Some _ |- _ => rewrite X end.
    match goal with X : is_expired _ _ = _ |- _ => rewrite X end.
    rewrite HQ. simpl. split; auto. split.
    + destruct (state_is_allowed a' t ch); [reflexivity|discriminate].
    + right. split; auto. apply queries_queried.
      pose proof (query_any_count (c_authd cfg) now o (auth_enabled_pos _ Ha)) as Hq.
      rewrite HQ in Hq. exact Hq.
Qed.

Lemma ca_fx : forall cfg now k o t ch k1 o1 fx v,
  ca_spec cfg now k o t ch (k1, o1, fx, v) -> existsb is_world fx = false.
Proof. intros * H. inversion H; subst; auto using queries_not_world. Qed.

Lemma ca_deny : forall cfg now k o t ch k1 o1 fx e,
  ca_spec cfg now k o t ch (k1, o1, fx, Some e) -> is_denial e = true.
Proof.
  intros * H. inversion H; subst; auto.
  - destruct (state_is_allowed a t ch); [discriminate|].
    match goal with X : Some _ = Some _ |- _ => inversion X end. reflexivity.
  - destruct (state_is_allowed a' t ch); [discriminate|].
    match goal with X : Some _ = Some _ |- _ => inversion X end. reflexivity.
Qed.

(* CheckAuth touches nothing of the connection but the cached answer *)
Lemma ca_conn : forall cfg now k o t ch k1 o1 fx v,
  ca_spec cfg now k o t ch (k1, o1, fx, v) ->
  k_state k1 = k_state k /\ k_tls k1 = k_tls k /\ k_secret k1 = k_secret k /\ k_hb_off k1 = k_hb_off k.
Proof. intros * H. inversion H; subst; simpl; auto. Qed.

(* ... and the cache only moves to what the re-query returned *)
Lemma ca_auth : forall cfg now k o t ch k1 o1 fx v,
  ca_spec cfg now k o t ch (k1, o1, fx, v) ->
  k_auth k1 = k_auth k \/
  (has_authorizations k = true /\ auth_enabled cfg = true /\
   exists a', k_auth k1 = Some a' /\ fst (fst (query_any (c_authd cfg) now o)) = Some a' /\
   existsb (fun f => match f with FxAuthQuery _ _ _ => true | _ => false end) fx = true).
Proof.
  intros * H. inversion H; subst; auto.
  right. split; auto. split; auto. exists a'. simpl.
  match goal with X : query_any _ _ _ = _ |- _ => rename X into HQ end.
  match goal with X : auth_enabled _ = true |- _ => rename X into HE end.
  rewrite HQ. simpl. split; auto. split; auto.
  apply queries_queried. pose proof (query_any_count (c_authd cfg) now o (auth_enabled_pos _ HE)) as Hq.
  rewrite HQ in Hq. exact Hq.
Qed.

(* a denial without a re-query leaves the connection record untouched; a failed re-query too *)
Lemma ca_pass_when_off : forall cfg now k o t ch,
  auth_enabled cfg = false -> check_auth cfg now k o t ch = (k, o, [], None).
Proof. intros. unfold Gate.check_auth. rewrite H. reflexivity. Qed.

(* ------------------------------------------------------------------ per-command facts *)
Ltac ca_cases cfg now k o t ch :=
  let H := fresh "Hca" in
  pose proof (check_auth_spec cfg now k o t ch) as H;
  destruct (check_auth cfg now k o t ch) as [[[?k1 ?o1] ?fx] [?e|]].

(* C11_tls_gate, one step: with TLS required and no TLS on the connection, every command
   but IDENTIFY is answered with the fatal E_INVALID; nothing happens, nothing is consumed *)
Lemma gate_step : forall cfg now k o c,
  gate_blocks cfg k = true -> is_identify c = false ->
  exec cfg now k o c = mkRes k o [RErr E_INVALID true] [].
Proof. intros. destruct c; simpl in *; try discriminate; rewrite H; reflexivity. Qed.

Lemma gate_blocks_iff : forall cfg k,
  gate_blocks cfg k = true <-> (c_tls_required cfg <> TlsNotRequired /\ k_tls k = false).
Proof.
  intros. unfold gate_blocks. destruct (c_tls_required cfg), (k_tls k); simpl; split; intros;
    try discriminate; try (split; congruence); try tauto; destruct H; try congruence.
Qed.

(* the TLS flag is set only by a completed upgrade inside IDENTIFY *)
Lemma tls_step : forall cfg now k o c,
  k_tls (r_conn (exec cfg now k o c)) = true ->
  k_tls k = true \/
  (upgraded (mkEntry now c k o (exec cfg now k o c)) = true /\ may_upgrade cfg (mkEntry now c k o (exec cfg now k o c)) = true).
Proof.
  intros cfg now k o c H.
  destruct (k_tls k) eqn:Et; [left; reflexivity|right].
  destruct c; simpl in H |- *.
  - (* IDENTIFY *)
    unfold do_identify in *. unfold upgraded, may_upgrade, e_fx. simpl.
    destruct (cstate_eqb (k_state k) StInit); simpl in *; [|congruence].
    destruct b as [|neg tv sn df hb hs]; simpl in *; [congruence|].
    assert (Hk1 : k_tls (match hb with HbKeep => k | HbOff => set_hb_off k true | HbOn => set_hb_off k false end) = false)
      by (destruct hb; simpl; auto).
    destruct neg; simpl in *; [|congruence].
    destruct (df && sn); simpl in *; [congruence|].
    destruct (c_tls_config cfg); simpl in *; [|congruence].
    destruct tv; simpl in *; [|congruence].
    destruct (handshake_ok (c_policy cfg) hs); simpl in *; [auto|congruence].
  - destruct (gate_blocks cfg k); simpl in H; [congruence|]. unfold do_auth in H.
    destruct (cstate_eqb (k_state k) StInit); simpl in H; [|congruence].
    destruct one_param; simpl in H; [|congruence].
    destruct body; simpl in H; [|congruence].
    destruct (has_authorizations k); simpl in H; [congruence|].
    destruct (auth_enabled cfg); simpl in H; [|congruence].
    destruct (query_any (c_authd cfg) now o) as [[r o'] q]. destruct r as [a|]; simpl in H; [|congruence].
    destruct (is_nil (as_auths a)); simpl in H; congruence.
  - destruct (gate_blocks cfg k); simpl in H; [congruence|]. unfold do_sub in H.
    destruct (cstate_eqb (k_state k) StInit); simpl in H; [|congruence].
    destruct (k_hb_off k); simpl in H; [congruence|].
    destruct args as [|t [|ch rest]]; simpl in H; try congruence.
    destruct (is_valid_name t); simpl in H; [|congruence].
    destruct (is_valid_name ch); simpl in H; [|congruence].
    ca_cases cfg now k o t ch; simpl in H; apply ca_conn in Hca; destruct Hca as (_ & Ht & _); congruence.
  - destruct (gate_blocks cfg k); simpl in H; [congruence|]. unfold do_pub in H.
    destruct args as [|t rest]; simpl in H; try congruence.
    destruct (is_valid_name t); simpl in H; [|congruence].
    destruct body_ok; simpl in H; [|congruence].
    ca_cases cfg now k o t (@nil N); simpl in H; apply ca_conn in Hca; destruct Hca as (_ & Ht & _); congruence.
  - destruct (gate_blocks cfg k); simpl in H; [congruence|]. unfold do_mpub in H.
    destruct args as [|t rest]; simpl in H; try congruence.
    destruct (is_valid_name t); simpl in H; [|congruence].
    ca_cases cfg now k o t (@nil N); simpl in H; apply ca_conn in Hca; destruct Hca as (_ & Ht & _);
      [|destruct body]; simpl in H; congruence.
  - destruct (gate_blocks cfg k); simpl in H; [congruence|]. unfold do_dpub in H.
    destruct args as [|t [|d rest]]; simpl in H; try congruence.
    destruct (is_valid_name t); simpl in H; [|congruence].
    destruct delay_ok; simpl in H; [|congruence].
    destruct body_ok; simpl in H; [|congruence].
    ca_cases cfg now k o t (@nil N); simpl in H; apply ca_conn in Hca; destruct Hca as (_ & Ht & _); congruence.
  - destruct (gate_blocks cfg k); simpl in H; [congruence|]. unfold do_rdy in H.
    destruct (k_state k); try destruct count_ok; simpl in H; congruence.
  - destruct (gate_blocks cfg k); simpl in H; [congruence|]. unfold do_msgcmd in H.
    destruct (k_state k); try destruct wellformed; try destruct hit; simpl in H; congruence.
  - destruct (gate_blocks cfg k); simpl in H; [congruence|]. unfold do_msgcmd in H.
    destruct (k_state k); try destruct wellformed; try destruct hit; simpl in H; congruence.
  - destruct (gate_blocks cfg k); simpl in H; [congruence|]. unfold do_msgcmd in H.
    destruct (k_state k); try destruct wellformed; try destruct hit; simpl in H; congruence.
  - destruct (gate_blocks cfg k); simpl in H; [congruence|]. unfold do_cls in H.
    destruct (k_state k); simpl in H; congruence.
  - destruct (gate_blocks cfg k); simpl in H; congruence.
  - destruct (gate_blocks cfg k); simpl in H; congruence.
Qed.

(* ------------------------------------------------------------------ effects of one command *)
Lemma str_eqb_refl : forall s : str, str_eqb s s = true.
Proof. induction s; simpl; auto. unfold str_eqb, bytes_eqb in *. simpl. rewrite N.eqb_refl. auto. Qed.

Lemma within_queries : forall t ch k q, forallb (fx_within t ch) (queries k q) = true.
Proof. intros. unfold queries. induction q; simpl; auto. Qed.

Lemma ca_within : forall cfg now k o t ch k1 o1 fx v t' ch',
  ca_spec cfg now k o t ch (k1, o1, fx, v) -> forallb (fx_within t' ch') fx = true.
Proof. intros * H. inversion H; subst; auto using within_queries. Qed.

Lemma identify_no_world : forall cfg k o b, existsb is_world (r_fx (do_identify cfg k o b)) = false.
Proof.
  intros. unfold do_identify.
  destruct (cstate_eqb (k_state k) StInit); simpl; auto.
  destruct b as [|neg tv sn df hb hs]; simpl; auto.
  destruct neg; simpl; auto. destruct (df && sn); simpl; auto.
  destruct (c_tls_config cfg && tv); simpl; auto.
  destruct (handshake_ok (c_policy cfg) hs); simpl; auto.
Qed.

Lemma identify_no_denial : forall cfg k o b, has_denial (r_resps (do_identify cfg k o b)) = false.
Proof.
  intros. unfold do_identify.
  destruct (cstate_eqb (k_state k) StInit); simpl; auto.
  destruct b as [|neg tv sn df hb hs]; simpl; auto.
  destruct neg; simpl; auto. destruct (df && sn); simpl; auto.
  destruct (c_tls_config cfg && tv); simpl; auto.
  - destruct (handshake_ok (c_policy cfg) hs); simpl; auto. destruct sn, df; reflexivity.
  - destruct sn, df; reflexivity.
Qed.

Lemma auth_no_world : forall cfg now k o one body, existsb is_world (r_fx (do_auth re_ok cfg now k o one body)) = false.
Proof.
  intros. unfold do_auth.
  destruct (cstate_eqb (k_state k) StInit); simpl; auto.
  destruct one; simpl; auto. destruct body; simpl; auto.
  destruct (has_authorizations k); simpl; auto.
  destruct (auth_enabled cfg); simpl; auto.
  destruct (query_any (c_authd cfg) now o) as [[r o'] q]. destruct r as [a|]; simpl; auto using queries_not_world.
  destruct (is_nil (as_auths a)); simpl; auto using queries_not_world.
Qed.

(* a command that changes the daemon's visible state has passed the TLS gate, asks for a
   permission (t, ch), passed CheckAuth for exactly that permission, touches only that topic
   and channel, and is not answered with a denial *)
Lemma world_step : forall cfg now k o c,
  existsb is_world (r_fx (exec cfg now k o c)) = true ->
  gate_blocks cfg k = false /\
  exists t ch k1 o1 fx,
    demand c = Some (t, ch) /\ check_auth cfg now k o t ch = (k1, o1, fx, None) /\
    forallb (fx_within t ch) (r_fx (exec cfg now k o c)) = true /\
    has_denial (r_resps (exec cfg now k o c)) = false /\
    (exists tail, r_fx (exec cfg now k o c) = fx ++ tail).
Proof.
  intros cfg now k o c H.
  destruct c; simpl in H.
  - rewrite identify_no_world in H. discriminate.
  - destruct (gate_blocks cfg k); simpl in H; [discriminate|]. rewrite auth_no_world in H. discriminate.
  - (* SUB *)
    simpl. destruct (gate_blocks cfg k); simpl in *; [discriminate|]. split; auto.
    unfold do_sub in *.
    destruct (cstate_eqb (k_state k) StInit); simpl in *; [|discriminate].
    destruct (k_hb_off k); simpl in *; [discriminate|].
    destruct args as [|t [|ch rest]]; simpl in *; try discriminate.
    destruct (is_valid_name t); simpl in *; [|discriminate].
    destruct (is_valid_name ch); simpl in *; [|discriminate].
    exists t, ch.
    ca_cases cfg now k o t ch; simpl in *.
    + apply ca_fx in Hca. congruence.
    + exists k1, o1, fx. split; auto. split; auto. split; [|split; [reflexivity|eexists; reflexivity]].
      rewrite forallb_app. erewrite ca_within by eauto. simpl. rewrite !str_eqb_refl. reflexivity.
  - (* PUB *)
    simpl. destruct (gate_blocks cfg k); simpl in *; [discriminate|]. split; auto.
    unfold do_pub in *.
    destruct args as [|t rest]; simpl in *; try discriminate.
    destruct (is_valid_name t); simpl in *; [|discriminate].
    destruct body_ok; simpl in *; [|discriminate].
    exists t, (@nil N).
    ca_cases cfg now k o t (@nil N); simpl in *.
    + apply ca_fx in Hca. congruence.
    + exists k1, o1, fx. split; auto. split; auto. split; [|split; [reflexivity|eexists; reflexivity]].
      rewrite forallb_app. erewrite ca_within by eauto. simpl. rewrite !str_eqb_refl. reflexivity.
  - (* MPUB *)
    simpl. destruct (gate_blocks cfg k); simpl in *; [discriminate|]. split; auto.
    unfold do_mpub in *.
    destruct args as [|t rest]; simpl in *; try discriminate.
    destruct (is_valid_name t); simpl in *; [|discriminate].
    exists t, (@nil N).
    ca_cases cfg now k o t (@nil N); simpl in *.
    + apply ca_fx in Hca. congruence.
    + exists k1, o1, fx. split; auto. split; auto.
      destruct body; simpl; (split; [|split; [reflexivity|eexists; reflexivity]]);
        rewrite forallb_app; erewrite ca_within by eauto; simpl; rewrite !str_eqb_refl; reflexivity.
  - (* DPUB *)
    simpl. destruct (gate_blocks cfg k); simpl in *; [discriminate|]. split; auto.
    unfold do_dpub in *.
    destruct args as [|t [|d rest]]; simpl in *; try discriminate.
    destruct (is_valid_name t); simpl in *; [|discriminate].
    destruct delay_ok; simpl in *; [|discriminate].
    destruct body_ok; simpl in *; [|discriminate].
    exists t, (@nil N).
    ca_cases cfg now k o t (@nil N); simpl in *.
    + apply ca_fx in Hca. congruence.
    + exists k1, o1, fx. split; auto. split; auto. split; [|split; [reflexivity|eexists; reflexivity]].
      rewrite forallb_app. erewrite ca_within by eauto. simpl. rewrite !str_eqb_refl. reflexivity.
  - destruct (gate_blocks cfg k); simpl in H; [discriminate|]. unfold do_rdy in H.
    destruct (k_state k); try destruct count_ok; simpl in H; discriminate.
  - destruct (gate_blocks cfg k); simpl in H; [discriminate|]. unfold do_msgcmd in H.
    destruct (k_state k); try destruct wellformed; try destruct hit; simpl in H; discriminate.
  - destruct (gate_blocks cfg k); simpl in H; [discriminate|]. unfold do_msgcmd in H.
    destruct (k_state k); try destruct wellformed; try destruct hit; simpl in H; discriminate.
  - destruct (gate_blocks cfg k); simpl in H; [discriminate|]. unfold do_msgcmd in H.
    destruct (k_state k); try destruct wellformed; try destruct hit; simpl in H; discriminate.
  - destruct (gate_blocks cfg k); simpl in H; [discriminate|]. unfold do_cls in H.
    destruct (k_state k); simpl in H; discriminate.
  - destruct (gate_blocks cfg k); simpl in H; discriminate.
  - destruct (gate_blocks cfg k); simpl in H; discriminate.
Qed.

(* C11_auth_gate, one step *)
Lemma auth_step : forall cfg now k o c,
  auth_enabled cfg = true ->
  existsb is_world (r_fx (exec cfg now k o c)) = true ->
  exists t ch,
    demand c = Some (t, ch) /\
    forallb (fx_within t ch) (r_fx (exec cfg now k o c)) = true /\
    has_authorizations k = true /\
    exists a, in_force cfg now k o = Some a /\ state_is_allowed a t ch = true.
Proof.
  intros cfg now k o c Ha H. apply world_step in H.
  destruct H as (_ & t & ch & k1 & o1 & fx & Hd & Hc & Hw & _ & _).
  exists t, ch. split; auto. split; auto.
  pose proof (check_auth_spec cfg now k o t ch) as Hs. rewrite Hc in Hs.
  destruct (ca_pass _ _ _ _ _ _ _ _ _ Hs Ha) as (Hh & a & Hi & Hal & _).
  split; auto. exists a. auto.
Qed.

(* C11_denial_no_trace, one step: a denial is the only answer of its command, it is fatal,
   nothing visible happened, and the connection record keeps its state, TLS flag and secret *)
Lemma denial_step : forall cfg now k o c,
  has_denial (r_resps (exec cfg now k o c)) = true ->
  existsb is_world (r_fx (exec cfg now k o c)) = false /\
  exists e, is_denial e = true /\ r_resps (exec cfg now k o c) = [RErr e true].
Proof.
  intros cfg now k o c H. split.
  - destruct (existsb is_world (r_fx (exec cfg now k o c))) eqn:E; auto.
    apply world_step in E. destruct E as (_ & t & ch & k1 & o1 & fx & _ & _ & _ & Hn & _). congruence.
  - destruct c; simpl in *.
    + rewrite identify_no_denial in H. discriminate.
    + destruct (gate_blocks cfg k); simpl in *; [discriminate|]. unfold do_auth in *.
      destruct (cstate_eqb (k_state k) StInit); simpl in *; [|discriminate].
      destruct one_param; simpl in *; [|discriminate]. destruct body; simpl in *; [|discriminate].
      destruct (has_authorizations k); simpl in *; [discriminate|].
      destruct (auth_enabled cfg); simpl in *; [|discriminate].
      destruct (query_any (c_authd cfg) now o) as [[r o'] q]. destruct r as [a|]; simpl in *.
      * destruct (is_nil (as_auths a)); simpl in *; [|discriminate]. exists E_UNAUTHORIZED. auto.
      * exists E_AUTH_FAILED. auto.
    + destruct (gate_blocks cfg k); simpl in *; [discriminate|]. unfold do_sub in *.
      destruct (cstate_eqb (k_state k) StInit); simpl in *; [|discriminate].
      destruct (k_hb_off k); simpl in *; [discriminate|].
      destruct args as [|t [|ch rest]]; simpl in *; try discriminate.
      destruct (is_valid_name t); simpl in *; [|discriminate].
      destruct (is_valid_name ch); simpl in *; [|discriminate].
      ca_cases cfg now k o t ch; simpl in *; [|discriminate].
      exists e. split; auto. eapply ca_deny; eauto.
    + destruct (gate_blocks cfg k); simpl in *; [discriminate|]. unfold do_pub in *.
      destruct args as [|t rest]; simpl in *; try discriminate.
      destruct (is_valid_name t); simpl in *; [|discriminate].
      destruct body_ok; simpl in *; [|discriminate].
      ca_cases cfg now k o t (@nil N); simpl in *; [|discriminate].
      exists e. split; auto. eapply ca_deny; eauto.
    + destruct (gate_blocks cfg k); simpl in *; [discriminate|]. unfold do_mpub in *.
      destruct args as [|t rest]; simpl in *; try discriminate.
      destruct (is_valid_name t); simpl in *; [|discriminate].
      ca_cases cfg now k o t (@nil N); simpl in *; [|destruct body; discriminate].
      exists e. split; auto. eapply ca_deny; eauto.
    + destruct (gate_blocks cfg k); simpl in *; [discriminate|]. unfold do_dpub in *.
      destruct args as [|t [|d rest]]; simpl in *; try discriminate.
      destruct (is_valid_name t); simpl in *; [|discriminate].
      destruct delay_ok; simpl in *; [|discriminate].
      destruct body_ok; simpl in *; [|discriminate].
      ca_cases cfg now k o t (@nil N); simpl in *; [|discriminate].
      exists e. split; auto. eapply ca_deny; eauto.
    + destruct (gate_blocks cfg k); simpl in *; [discriminate|]. unfold do_rdy in *.
      destruct (k_state k); try destruct count_ok; simpl in *; discriminate.
    + destruct (gate_blocks cfg k); simpl in *; [discriminate|]. unfold do_msgcmd in *.
      destruct (k_state k); try destruct wellformed; try destruct hit; simpl in *; discriminate.
    + destruct (gate_blocks cfg k); simpl in *; [discriminate|]. unfold do_msgcmd in *.
      destruct (k_state k); try destruct wellformed; try destruct hit; simpl in *; discriminate.
    + destruct (gate_blocks cfg k); simpl in *; [discriminate|]. unfold do_msgcmd in *.
      destruct (k_state k); try destruct wellformed; try destruct hit; simpl in *; discriminate.
    + destruct (gate_blocks cfg k); simpl in *; [discriminate|]. unfold do_cls in *.
      destruct (k_state k); simpl in *; discriminate.
    + destruct (gate_blocks cfg k); simpl in *; discriminate.
    + destruct (gate_blocks cfg k); simpl in *; discriminate.
Qed.

(* ------------------------------------------------------------------ how the cached answer moves *)
Notation fetched := (fetched re_ok).

Lemma has_query_app : forall a b, has_query (a ++ b) = has_query a || has_query b.
Proof. intros. unfold has_query. apply existsb_app. Qed.

(* the cache changes only to what a query made by this very command returned *)
Lemma cache_step : forall cfg now k o c,
  k_auth (r_conn (exec cfg now k o c)) = k_auth k \/
  (exists a', k_auth (r_conn (exec cfg now k o c)) = Some a' /\
              fetched cfg (mkEntry now c k o (exec cfg now k o c)) = Some a').
Proof.
  intros cfg now k o c. unfold Gate.fetched, queried, e_fx, e_now, e_oracle. simpl e_res.
  fold (has_query (r_fx (exec cfg now k o c))).
  destruct c; simpl.
  - left. unfold do_identify.
    destruct (cstate_eqb (k_state k) StInit); simpl; auto.
    destruct b as [|neg tv sn df hb hs]; simpl; auto.
    destruct neg; simpl; [|destruct hb; reflexivity]. destruct (df && sn); simpl; [destruct hb; reflexivity|].
    destruct (c_tls_config cfg && tv); simpl; [|destruct hb; reflexivity].
    destruct (handshake_ok (c_policy cfg) hs); simpl; destruct hb; reflexivity.
  - destruct (gate_blocks cfg k); simpl; auto. unfold do_auth.
    destruct (cstate_eqb (k_state k) StInit); simpl; auto.
    destruct one_param; simpl; auto. destruct body as [secret|]; simpl; auto.
    destruct (has_authorizations k); simpl; auto.
    destruct (auth_enabled cfg) eqn:Ea; simpl; auto.
    pose proof (query_any_count (c_authd cfg) now o (auth_enabled_pos _ Ea)) as Hq.
    destruct (query_any (c_authd cfg) now o) as [[r o'] q]. simpl in Hq.
    destruct r as [a|]; simpl; auto.
    right. exists a.
    destruct (is_nil (as_auths a)); simpl; (split; [reflexivity|]);
      unfold has_query; rewrite queries_queried by exact Hq; reflexivity.
  - destruct (gate_blocks cfg k); simpl; auto. unfold do_sub.
    destruct (cstate_eqb (k_state k) StInit); simpl; auto.
    destruct (k_hb_off k); simpl; auto.
    destruct args as [|t [|ch rest]]; simpl; auto.
    destruct (is_valid_name t); simpl; auto. destruct (is_valid_name ch); simpl; auto.
    ca_cases cfg now k o t ch; simpl; apply ca_auth in Hca;
      (destruct Hca as [Hca|(_ & _ & a' & H1 & H2 & H3)]; [left; exact Hca|right; exists a'; split; [exact H1|]]);
      rewrite ?has_query_app; unfold has_query at 1; rewrite H3; simpl; exact H2.
  - destruct (gate_blocks cfg k); simpl; auto. unfold do_pub.
    destruct args as [|t rest]; simpl; auto.
    destruct (is_valid_name t); simpl; auto. destruct body_ok; simpl; auto.
    ca_cases cfg now k o t (@nil N); simpl; apply ca_auth in Hca;
      (destruct Hca as [Hca|(_ & _ & a' & H1 & H2 & H3)]; [left; exact Hca|right; exists a'; split; [exact H1|]]);
      rewrite ?has_query_app; unfold has_query at 1; rewrite H3; simpl; exact H2.
  - destruct (gate_blocks cfg k); simpl; auto. unfold do_mpub.
    destruct args as [|t rest]; simpl; auto.
    destruct (is_valid_name t); simpl; auto.
    ca_cases cfg now k o t (@nil N); [|destruct body]; simpl; apply ca_auth in Hca;
      (destruct Hca as [Hca|(_ & _ & a' & H1 & H2 & H3)]; [left; exact Hca|right; exists a'; split; [exact H1|]]);
      rewrite ?has_query_app; unfold has_query at 1; rewrite H3; simpl; exact H2.
  - destruct (gate_blocks cfg k); simpl; auto. unfold do_dpub.
    destruct args as [|t [|d rest]]; simpl; auto.
    destruct (is_valid_name t); simpl; auto. destruct delay_ok; simpl; auto. destruct body_ok; simpl; auto.
    ca_cases cfg now k o t (@nil N); simpl; apply ca_auth in Hca;
      (destruct Hca as [Hca|(_ & _ & a' & H1 & H2 & H3)]; [left; exact Hca|right; exists a'; split; [exact H1|]]);
      rewrite ?has_query_app; unfold has_query at 1; rewrite H3; simpl; exact H2.
  - destruct (gate_blocks cfg k); simpl; auto. unfold do_rdy.
    destruct (k_state k); try destruct count_ok; simpl; auto.
  - destruct (gate_blocks cfg k); simpl; auto. unfold do_msgcmd.
    destruct (k_state k); try destruct wellformed; try destruct hit; simpl; auto.
  - destruct (gate_blocks cfg k); simpl; auto. unfold do_msgcmd.
    destruct (k_state k); try destruct wellformed; try destruct hit; simpl; auto.
  - destruct (gate_blocks cfg k); simpl; auto. unfold do_msgcmd.
    destruct (k_state k); try destruct wellformed; try destruct hit; simpl; auto.
  - destruct (gate_blocks cfg k); simpl; auto. unfold do_cls.
    destruct (k_state k); simpl; auto.
  - destruct (gate_blocks cfg k); simpl; auto.
  - destruct (gate_blocks cfg k); simpl; auto.
Qed.

(* the connection gets (non-empty) authorizations only through an AUTH answered with success,
   unless the step does not close... : a re-query needs authorizations to begin with *)
Lemma has_auth_step : forall cfg now k o c,
  has_authorizations (r_conn (exec cfg now k o c)) = true ->
  has_authorizations k = true \/ auth_succeeded (mkEntry now c k o (exec cfg now k o c)) = true.
Proof.
  intros cfg now k o c H.
  destruct (has_authorizations k) eqn:Eh; [left; reflexivity|right].
  unfold auth_succeeded, e_cmd, e_resps. simpl e_res.
  destruct c; simpl in *.
  - exfalso. revert H. unfold do_identify.
    destruct (cstate_eqb (k_state k) StInit); simpl; [|congruence].
    destruct b as [|neg tv sn df hb hs]; simpl; [congruence|].
    assert (Hk : forall b, has_authorizations (set_hb_off k b) = false) by (intro; exact Eh).
    destruct neg; simpl; [|destruct hb; simpl; rewrite ?Hk; congruence].
    destruct (df && sn); simpl; [destruct hb; simpl; rewrite ?Hk; congruence|].
    destruct (c_tls_config cfg && tv); simpl; [|destruct hb; simpl; rewrite ?Hk; congruence].
    destruct (handshake_ok (c_policy cfg) hs); simpl; destruct hb; unfold has_authorizations in *; simpl; congruence.
  - destruct (gate_blocks cfg k); simpl in *; [congruence|]. unfold do_auth in *.
    destruct (cstate_eqb (k_state k) StInit); simpl in *; [|congruence].
    destruct one_param; simpl in *; [|congruence]. destruct body as [secret|]; simpl in *; [|congruence].
    rewrite Eh in *. simpl in *.
    destruct (auth_enabled cfg); simpl in *; [|congruence].
    destruct (query_any (c_authd cfg) now o) as [[r o'] q]. destruct r as [a|]; simpl in *.
    + destruct (is_nil (as_auths a)) eqn:En; simpl in *; [|reflexivity].
      unfold has_authorizations in H. simpl in H. rewrite En in H. discriminate.
    + unfold has_authorizations in *. simpl in *. congruence.
  - exfalso. destruct (gate_blocks cfg k); simpl in *; [congruence|]. unfold do_sub in *.
    destruct (cstate_eqb (k_state k) StInit); simpl in *; [|congruence].
    destruct (k_hb_off k); simpl in *; [congruence|].
    destruct args as [|t [|ch rest]]; simpl in *; try congruence.
    destruct (is_valid_name t); simpl in *; [|congruence]. destruct (is_valid_name ch); simpl in *; [|congruence].
    ca_cases cfg now k o t ch; simpl in *; apply ca_auth in Hca;
      (destruct Hca as [Hca|(Hx & _)]; [|congruence]);
      unfold has_authorizations in *; simpl in *; rewrite Hca in H; congruence.
  - exfalso. destruct (gate_blocks cfg k); simpl in *; [congruence|]. unfold do_pub in *.
    destruct args as [|t rest]; simpl in *; try congruence.
    destruct (is_valid_name t); simpl in *; [|congruence]. destruct body_ok; simpl in *; [|congruence].
    ca_cases cfg now k o t (@nil N); simpl in *; apply ca_auth in Hca;
      (destruct Hca as [Hca|(Hx & _)]; [|congruence]);
      unfold has_authorizations in *; simpl in *; rewrite Hca in H; congruence.
  - exfalso. destruct (gate_blocks cfg k); simpl in *; [congruence|]. unfold do_mpub in *.
    destruct args as [|t rest]; simpl in *; try congruence.
    destruct (is_valid_name t); simpl in *; [|congruence].
    ca_cases cfg now k o t (@nil N); [|destruct body]; simpl in *; apply ca_auth in Hca;
      (destruct Hca as [Hca|(Hx & _)]; [|congruence]);
      unfold has_authorizations in *; simpl in *; rewrite Hca in H; congruence.
  - exfalso. destruct (gate_blocks cfg k); simpl in *; [congruence|]. unfold do_dpub in *.
    destruct args as [|t [|d rest]]; simpl in *; try congruence.
    destruct (is_valid_name t); simpl in *; [|congruence].
    destruct delay_ok; simpl in *; [|congruence]. destruct body_ok; simpl in *; [|congruence].
    ca_cases cfg now k o t (@nil N); simpl in *; apply ca_auth in Hca;
      (destruct Hca as [Hca|(Hx & _)]; [|congruence]);
      unfold has_authorizations in *; simpl in *; rewrite Hca in H; congruence.
  - exfalso. destruct (gate_blocks cfg k); simpl in *; [congruence|]. unfold do_rdy in *.
    destruct (k_state k); try destruct count_ok; simpl in *; congruence.
  - exfalso. destruct (gate_blocks cfg k); simpl in *; [congruence|]. unfold do_msgcmd in *.
    destruct (k_state k); try destruct wellformed; try destruct hit; simpl in *; congruence.
  - exfalso. destruct (gate_blocks cfg k); simpl in *; [congruence|]. unfold do_msgcmd in *.
    destruct (k_state k); try destruct wellformed; try destruct hit; simpl in *; congruence.
  - exfalso. destruct (gate_blocks cfg k); simpl in *; [congruence|]. unfold do_msgcmd in *.
    destruct (k_state k); try destruct wellformed; try destruct hit; simpl in *; congruence.
  - exfalso. destruct (gate_blocks cfg k); simpl in *; [congruence|]. unfold do_cls in *.
    destruct (k_state k); unfold has_authorizations in *; simpl in *; congruence.
  - exfalso. destruct (gate_blocks cfg k); simpl in *; congruence.
  - exfalso. destruct (gate_blocks cfg k); simpl in *; congruence.
Qed.

(* ------------------------------------------------------------------ runs *)
Lemma run_split : forall cfg cmds k o es k' o' pre e post,
  run cfg k o cmds = (es, k', o') -> es = pre ++ e :: post ->
  (exists cmds1, run cfg k o cmds1 = (pre, e_pre e, e_oracle e)) /\
  e_res e = exec cfg (e_now e) (e_pre e) (e_oracle e) (e_cmd e) /\
  (closes (e_resps e) = true -> post = []).
Proof.
  intros cfg cmds. induction cmds as [|[now c] rest IH]; intros k o es k' o' pre e post Hr He.
  - simpl in Hr. inversion Hr; subst. destruct pre; discriminate.
  - simpl in Hr.
    destruct (closes (r_resps (exec cfg now k o c))) eqn:Ec.
    + inversion Hr; subst. destruct pre as [|p pre].
      * simpl in H0. inversion H0; subst. split; [exists []; reflexivity|]. split; auto.
      * simpl in H0. inversion H0. destruct pre; discriminate.
    + destruct (run cfg (r_conn (exec cfg now k o c)) (r_oracle (exec cfg now k o c)) rest) as [[es1 k1] o1] eqn:Er.
      inversion Hr; subst. destruct pre as [|p pre].
      * simpl in H0. inversion H0; subst. split; [exists []; reflexivity|]. split; auto.
        unfold e_resps. simpl. intros; congruence.
      * simpl in H0. inversion H0; subst.
        destruct (IH _ _ _ _ _ pre e post Er eq_refl) as ((cmds1 & H1) & H2 & H3).
        split; [|split; auto]. exists ((now, c) :: cmds1). simpl. rewrite Ec, H1. reflexivity.
Qed.

Lemma run_tls_hist : forall cfg cmds k o es k' o',
  run cfg k o cmds = (es, k', o') -> k_tls k' = true ->
  k_tls k = true \/ existsb (fun e => upgraded e && may_upgrade cfg e) es = true.
Proof.
  intros cfg cmds. induction cmds as [|[now c] rest IH]; intros k o es k' o' Hr Ht.
  - simpl in Hr. inversion Hr; subst. auto.
  - simpl in Hr. destruct (closes (r_resps (exec cfg now k o c))) eqn:Ec.
    + inversion Hr; subst. apply tls_step in Ht. destruct Ht as [Ht|[H1 H2]]; auto.
      right. simpl. rewrite H1, H2. reflexivity.
    + destruct (run cfg (r_conn (exec cfg now k o c)) (r_oracle (exec cfg now k o c)) rest) as [[es1 k1] o1] eqn:Er.
      inversion Hr; subst. destruct (IH _ _ _ _ _ Er Ht) as [H|H].
      * apply tls_step in H. destruct H as [H|[H1 H2]]; auto. right. simpl. rewrite H1, H2. reflexivity.
      * right. simpl. rewrite H. apply orb_true_r.
Qed.

Lemma run_auth_hist : forall cfg cmds k o es k' o',
  run cfg k o cmds = (es, k', o') -> has_authorizations k' = true ->
  has_authorizations k = true \/ existsb auth_succeeded es = true.
Proof.
  intros cfg cmds. induction cmds as [|[now c] rest IH]; intros k o es k' o' Hr Ht.
  - simpl in Hr. inversion Hr; subst. auto.
  - simpl in Hr. destruct (closes (r_resps (exec cfg now k o c))) eqn:Ec.
    + inversion Hr; subst. apply has_auth_step in Ht. destruct Ht as [Ht|H1]; auto.
      right. simpl. rewrite H1. reflexivity.
    + destruct (run cfg (r_conn (exec cfg now k o c)) (r_oracle (exec cfg now k o c)) rest) as [[es1 k1] o1] eqn:Er.
      inversion Hr; subst. destruct (IH _ _ _ _ _ Er Ht) as [H|H].
      * apply has_auth_step in H. destruct H as [H|H1]; auto. right. simpl. rewrite H1. reflexivity.
      * right. simpl. rewrite H. apply orb_true_r.
Qed.

Lemma run_cache_hist : forall cfg cmds k o es k' o' a,
  run cfg k o cmds = (es, k', o') -> k_auth k' = Some a ->
  k_auth k = Some a \/ exists e, In e es /\ fetched cfg e = Some a.
Proof.
  intros cfg cmds. induction cmds as [|[now c] rest IH]; intros k o es k' o' a Hr Ht.
  - simpl in Hr. inversion Hr; subst. auto.
  - simpl in Hr. destruct (closes (r_resps (exec cfg now k o c))) eqn:Ec.
    + inversion Hr; subst. destruct (cache_step cfg now k o c) as [H|(a' & H1 & H2)].
      * left. congruence.
      * right. eexists. split; [left; reflexivity|]. congruence.
    + destruct (run cfg (r_conn (exec cfg now k o c)) (r_oracle (exec cfg now k o c)) rest) as [[es1 k1] o1] eqn:Er.
      inversion Hr; subst. destruct (IH _ _ _ _ _ _ Er Ht) as [H|(e & Hi & He)].
      * destruct (cache_step cfg now k o c) as [H0|(a' & H1 & H2)].
        -- left. congruence.
        -- right. eexists. split; [left; reflexivity|]. congruence.
      * right. exists e. split; [right; exact Hi|exact He].
Qed.

(* ------------------------------------------------------------------ C11_tls_gate *)
Theorem tls_gate_run : forall cfg k o cmds es k' o' pre e post,
  c_tls_required cfg <> TlsNotRequired ->
  run cfg k o cmds = (es, k', o') -> es = pre ++ e :: post ->
  k_tls (e_pre e) = false -> is_identify (e_cmd e) = false ->
  e_res e = mkRes (e_pre e) (e_oracle e) [RErr E_INVALID true] [] /\ post = [].
Proof.
  intros * Hreq Hr He Ht Hi.
  destruct (run_split _ _ _ _ _ _ _ _ _ _ Hr He) as (_ & Hx & Hc).
  assert (Hg : gate_blocks cfg (e_pre e) = true) by (apply gate_blocks_iff; auto).
  rewrite (gate_step cfg (e_now e) _ (e_oracle e) _ Hg Hi) in Hx.
  split; auto. apply Hc. unfold e_resps. rewrite Hx. reflexivity.
Qed.

Theorem tls_only_by_upgrade : forall cfg k o cmds es k' o' pre e post,
  run cfg k o cmds = (es, k', o') -> es = pre ++ e :: post ->
  k_tls k = false -> k_tls (e_pre e) = true ->
  existsb (fun x => upgraded x && may_upgrade cfg x) pre = true.
Proof.
  intros * Hr He Hk Ht.
  destruct (run_split _ _ _ _ _ _ _ _ _ _ Hr He) as ((cmds1 & H1) & _ & _).
  destruct (run_tls_hist _ _ _ _ _ _ _ H1 Ht); congruence.
Qed.

Lemma identify_fx : forall cfg k o b,
  r_fx (do_identify cfg k o b) = [] \/ r_fx (do_identify cfg k o b) = [FxUpgradeTLS].
Proof.
  intros. unfold do_identify.
  destruct (cstate_eqb (k_state k) StInit); simpl; auto.
  destruct b as [|neg tv sn df hb hs]; simpl; auto.
  destruct neg; simpl; auto. destruct (df && sn); simpl; auto.
  destruct (c_tls_config cfg && tv); simpl; auto.
  destruct (handshake_ok (c_policy cfg) hs); simpl; auto.
Qed.

(* with TLS required, a connection on which no IDENTIFY completes an upgrade executes
   nothing at all: no effect of any kind, not even a query to the auth server *)
Theorem tls_nothing_without_upgrade : forall cfg k o cmds es k' o',
  c_tls_required cfg <> TlsNotRequired -> k_tls k = false ->
  run cfg k o cmds = (es, k', o') ->
  existsb upgraded es = false ->
  forall e, In e es -> e_fx e = [].
Proof.
  intros * Hreq Hk Hr Hu e Hin.
  apply in_split in Hin. destruct Hin as (pre & post & He).
  destruct (run_split _ _ _ _ _ _ _ _ _ _ Hr He) as (_ & Hx & _).
  assert (Hue : upgraded e = false).
  { rewrite He in Hu. rewrite existsb_app in Hu. simpl in Hu.
    apply orb_false_iff in Hu. destruct Hu as [_ Hu]. apply orb_false_iff in Hu. tauto. }
  destruct (is_identify (e_cmd e)) eqn:Ei.
  - destruct (e_cmd e) eqn:Ec; try discriminate. unfold e_fx. rewrite Hx. simpl.
    destruct (identify_fx cfg (e_pre e) (e_oracle e) b) as [H|H]; auto.
    unfold upgraded, e_fx in Hue. rewrite Hx in Hue. simpl in Hue. rewrite H in Hue. discriminate.
  - destruct (k_tls (e_pre e)) eqn:Et.
    + pose proof (tls_only_by_upgrade _ _ _ _ _ _ _ _ _ _ Hr He Hk Et) as Hp.
      rewrite He in Hu. rewrite existsb_app in Hu. apply orb_false_iff in Hu. destruct Hu as [Hu _].
      exfalso. clear - Hp Hu. induction pre; simpl in *; [discriminate|].
      apply orb_false_iff in Hu. destruct Hu as [Ha Hu].
      rewrite Ha in Hp. simpl in Hp. auto.
    + destruct (tls_gate_run _ _ _ _ _ _ _ _ _ _ Hreq Hr He Et Ei) as [H _].
      unfold e_fx. rewrite H. reflexivity.
Qed.

(* ------------------------------------------------------------------ C11_auth_gate *)
Theorem auth_gate_run : forall cfg k o cmds es k' o' pre e post,
  auth_enabled cfg = true -> k_auth k = None ->
  run cfg k o cmds = (es, k', o') -> es = pre ++ e :: post ->
  existsb is_world (e_fx e) = true ->
  exists t ch,
    demand (e_cmd e) = Some (t, ch) /\
    forallb (fx_within t ch) (e_fx e) = true /\
    existsb auth_succeeded pre = true /\
    exists a,
      answer_in_force re_ok cfg e = Some a /\
      state_is_allowed a t ch = true /\
      (exists e', In e' (pre ++ [e]) /\ fetched cfg e' = Some a).
Proof.
  intros * Ha Hk Hr He Hw.
  destruct (run_split _ _ _ _ _ _ _ _ _ _ Hr He) as ((cmds1 & H1) & Hx & _).
  unfold e_fx in *. rewrite Hx in *.
  pose proof (world_step _ _ _ _ _ Hw) as (_ & t & ch & k1 & o1 & fx & Hd & Hc & Hwi & _ & Htail).
  pose proof (check_auth_spec cfg (e_now e) (e_pre e) (e_oracle e) t ch) as Hs. rewrite Hc in Hs.
  destruct (ca_pass _ _ _ _ _ _ _ _ _ Hs Ha) as (Hh & a & Hi & Hal & Hprov).
  exists t, ch. split; auto. split; auto. split.
  - destruct (run_auth_hist _ _ _ _ _ _ _ H1 Hh) as [H|H]; auto.
    unfold has_authorizations in H. rewrite Hk in H. discriminate.
  - exists a. split; [exact Hi|]. split; auto.
    destruct Hprov as [[Hc1 _]|[Hq Hf]].
    + destruct (run_cache_hist _ _ _ _ _ _ _ _ H1 Hc1) as [H|(e' & Hin & Hf)]; [congruence|].
      exists e'. split; auto. apply in_or_app. auto.
    + exists e. split; [apply in_or_app; right; left; reflexivity|].
      unfold Gate.fetched, queried, e_fx. rewrite Hx.
      destruct Htail as (tail & Htail). rewrite Htail.
      fold (has_query (fx ++ tail)). rewrite has_query_app, Hq. simpl. exact Hf.
Qed.

(* ------------------------------------------------------------------ C11_denial_no_trace *)
Lemma no_world_no_change : forall fx w, existsb is_world fx = false -> apply_fxs w fx = w.
Proof.
  unfold apply_fxs. induction fx as [|f fx IH]; intros w H; simpl in *; auto.
  apply orb_false_iff in H. destruct H as [Hf Hr].
  destruct f; simpl in Hf; try discriminate; simpl; auto.
Qed.

Theorem denial_no_trace_run : forall cfg k o cmds es k' o' pre e post,
  run cfg k o cmds = (es, k', o') -> es = pre ++ e :: post ->
  has_denial (e_resps e) = true ->
  (exists c, is_denial c = true /\ e_resps e = [RErr c true]) /\
  existsb is_world (e_fx e) = false /\
  (forall w, apply_fxs w (e_fx e) = w) /\
  post = [].
Proof.
  intros * Hr He Hd.
  destruct (run_split _ _ _ _ _ _ _ _ _ _ Hr He) as (_ & Hx & Hc).
  unfold e_resps, e_fx in *. rewrite Hx in *.
  destruct (denial_step _ _ _ _ _ Hd) as (Hw & c & Hdc & Hrs).
  split; [exists c; auto|]. split; auto. split; [intros; apply no_world_no_change; auto|].
  apply Hc. rewrite Hrs. reflexivity.
Qed.

(* the converse direction of the gates, so that the theorems above are not satisfied by a
   daemon that refuses everything: a publish that passes the syntactic checks on a
   connection past the TLS gate, with auth disabled or a granting answer in force, is
   executed *)
Lemma pub_executes : forall cfg now k o t rest,
  gate_blocks cfg k = false -> is_valid_name t = true ->
  (auth_enabled cfg = false \/
   (has_authorizations k = true /\ exists a, k_auth k = Some a /\ is_expired a now = false /\ state_is_allowed a t [] = true)) ->
  r_resps (exec cfg now k o (CPub (t :: rest) true)) = [ROk] /\
  r_fx (exec cfg now k o (CPub (t :: rest) true)) = [FxGetTopic t; FxPut t 1].
Proof.
  intros * Hg Hv Hc. simpl. rewrite Hg. unfold do_pub. rewrite Hv. simpl.
  destruct Hc as [Hoff|(Hh & a & Hk & Hx & Hal)].
  - rewrite ca_pass_when_off by auto. simpl. auto.
  - unfold Gate.check_auth. destruct (auth_enabled cfg); simpl; auto.
    rewrite Hh, Hk, Hx, Hal. simpl. auto.
Qed.

(* ------------------------------------------------------------------ the decision table *)
Notation decision := (decision re_match re_ok).

Lemma check_auth_decides : forall cfg now k o t ch,
  snd (check_auth cfg now k o t ch) = decision cfg now k o t ch.
Proof.
  intros. unfold Gate.check_auth, Gate.decision, Gate.in_force.
  destruct (auth_enabled cfg); simpl; auto.
  destruct (has_authorizations k) eqn:Eh; simpl; auto.
  destruct (k_auth k) as [a|] eqn:Ek.
  - destruct (is_expired a now).
    + destruct (query_any (c_authd cfg) now o) as [[r o'] q]. destruct r; reflexivity.
    + reflexivity.
  - unfold has_authorizations in Eh. rewrite Ek in Eh. discriminate.
Qed.

Lemma filter_queries : forall k q, filter is_world (queries k q) = [].
Proof. intros. unfold queries. induction q; simpl; auto. Qed.

Lemma ca_filter : forall cfg now k o t ch k1 o1 fx v,
  ca_spec cfg now k o t ch (k1, o1, fx, v) -> filter is_world fx = [].
Proof. intros * H. inversion H; subst; auto using filter_queries. Qed.

Lemma filter_app_nil : forall (fx tail : list effect),
  filter is_world fx = [] -> filter is_world (fx ++ tail) = filter is_world tail.
Proof. intros. rewrite filter_app, H. reflexivity. Qed.

(* a PUB/MPUB/DPUB/SUB that is past the TLS gate and past its own syntactic checks is decided
   by [decision] alone: the documented fatal error and nothing else, or its normal answer
   and exactly its normal effects *)
Theorem demand_decided : forall cfg now k o c t ch,
  gate_blocks cfg k = false -> presyntax_ok k c = true -> demand c = Some (t, ch) ->
  match decision cfg now k o t ch with
  | Some e => r_resps (exec cfg now k o c) = [RErr e true] /\ filter is_world (r_fx (exec cfg now k o c)) = []
  | None => r_resps (exec cfg now k o c) = granted_resps c /\
            filter is_world (r_fx (exec cfg now k o c)) = granted_world c
  end.
Proof.
  intros cfg now k o c t ch Hg Hs Hd.
  rewrite <- check_auth_decides.
  destruct c; simpl in Hd; try discriminate; simpl; rewrite Hg.
  - (* SUB *)
    destruct args as [|t' [|ch' rest]]; try discriminate. inversion Hd; subst t' ch'. clear Hd.
    simpl in Hs. apply andb_true_iff in Hs. destruct Hs as [Hs Hv2].
    apply andb_true_iff in Hs. destruct Hs as [Hs Hv1].
    apply andb_true_iff in Hs. destruct Hs as [Hst Hhb].
    unfold do_sub. rewrite Hst. apply negb_true_iff in Hhb. rewrite Hhb, Hv1, Hv2. simpl.
    ca_cases cfg now k o t ch; simpl; apply ca_filter in Hca; auto.
    split; auto. rewrite filter_app_nil by auto. reflexivity.
  - (* PUB *)
    destruct args as [|t' rest]; try discriminate. inversion Hd; subst t' ch. clear Hd.
    simpl in Hs. destruct body_ok; try discriminate.
    unfold do_pub. rewrite Hs. simpl.
    ca_cases cfg now k o t (@nil N); simpl; apply ca_filter in Hca; auto.
    split; auto. rewrite filter_app_nil by auto. reflexivity.
  - (* MPUB *)
    destruct args as [|t' rest]; try discriminate. inversion Hd; subst t' ch. clear Hd.
    simpl in Hs.
    unfold do_mpub. rewrite Hs. simpl.
    ca_cases cfg now k o t (@nil N); simpl; apply ca_filter in Hca; auto.
    destruct body; simpl; (split; auto); rewrite filter_app_nil by auto; reflexivity.
  - (* DPUB *)
    destruct args as [|t' [|d rest]]; try discriminate. inversion Hd; subst t' ch. clear Hd.
    simpl in Hs. destruct delay_ok; try discriminate. destruct body_ok; try discriminate.
    unfold do_dpub. rewrite Hs. simpl.
    ca_cases cfg now k o t (@nil N); simpl; apply ca_filter in Hca; auto.
    split; auto. rewrite filter_app_nil by auto. reflexivity.
Qed.

End GateProofs.
